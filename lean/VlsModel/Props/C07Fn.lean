import VlsModel.Model.MutualClose
import VlsModel.Gen.FnSimple
import VlsModel.Gen.FnEnforceVal
import VlsModel.Gen.FnSimpleClose
import VlsModel.Gen.FnChannelClose
import VlsModel.Gen.FnCloseDecode
import VlsModel.Gen.FnB3TxUtilClose
import VlsModel.Gen.FnB3ChannelShutdown
import VlsModel.Gen.FnB3NodeShutdown
import VlsModel.Lemmas.FnGen
/-
C07 — the epsilon comparisons of the mutual-close model (`MutualClose.outsideEps`, `minToHolder`,
`minToCounterparty`) proved equal to the bodies of `SimpleValidator::outside_epsilon_range` and
`EnforcementState::{minimum_to_holder_value, minimum_to_counterparty_value}` that `translate/rs2lean.py`
regenerates from `vls-core/src/policy/{simple_validator,validator}.rs` on every run.  The subtractions are guarded
by the preceding comparison in the code, so no overflow outcome is reachable: the generated bodies are total and
the equalities need no precondition.
-/
namespace VlsModel.Props.C07Fn
open VlsModel VlsModel.Policy VlsModel.MutualClose

def toV (p : Policy) : Gen.FnSimple.SimpleValidator :=
  { policy := { min_delay := p.minDelay, max_delay := p.maxDelay, epsilon_sat := p.epsilon,
                use_chain_state := p.useChainState, min_feerate_per_kw := p.minFeerate,
                max_feerate_per_kw := p.maxFeerate, dev_flags := none } }

/-- first component of `outside_epsilon_range` = `outsideEps` (the second is the word used in the message) -/
theorem C07_fn_outside_epsilon_range (p : Policy) (v0 v1 : Nat) :
    (toV p).outside_epsilon_range v0 v1
      = .ok (outsideEps p v0 v1, if v0 > v1 then "larger" else "smaller") := by
  unfold Gen.FnSimple.SimpleValidator.outside_epsilon_range outsideEps
  by_cases h : v0 > v1
  · have h' : v1 ≤ v0 := Nat.le_of_lt h
    simp [h, h', Rs.usub, toV]
  · have h' : v0 ≤ v1 := Nat.le_of_not_lt h
    simp [h, h', Rs.usub, toV]

def toCI (i : Info) : Gen.FnEnforceVal.CommitmentInfo2 :=
  { to_countersigner_value_sat := i.toCountersigner, to_broadcaster_value_sat := i.toBroadcaster }

def toES (e : EState) : Gen.FnEnforceVal.EnforcementState :=
  { current_holder_commit_info := e.curHolderInfo.map toCI,
    current_counterparty_commit_info := e.curCpInfo.map toCI }

theorem C07_fn_minimum_to_holder_value (e : EState) (eps : Nat) :
    (toES e).minimum_to_holder_value eps = .ok (minToHolder e eps) := by
  unfold Gen.FnEnforceVal.EnforcementState.minimum_to_holder_value minToHolder minWithin
  cases h1 : e.curHolderInfo <;> cases h2 : e.curCpInfo <;> simp [toES, toCI, h1, h2]
  rename_i hi ci
  by_cases a : hi.toBroadcaster > ci.toCountersigner
  · have a' : ci.toCountersigner ≤ hi.toBroadcaster := Nat.le_of_lt a
    by_cases b : hi.toBroadcaster - ci.toCountersigner ≤ eps <;> simp [a, a', b, Rs.usub] <;> omega
  · have a' : hi.toBroadcaster ≤ ci.toCountersigner := Nat.le_of_not_lt a
    by_cases b : ci.toCountersigner - hi.toBroadcaster ≤ eps <;> simp [a, a', b, Rs.usub] <;> omega

theorem C07_fn_minimum_to_counterparty_value (e : EState) (eps : Nat) :
    (toES e).minimum_to_counterparty_value eps = .ok (minToCounterparty e eps) := by
  unfold Gen.FnEnforceVal.EnforcementState.minimum_to_counterparty_value minToCounterparty minWithin
  cases h1 : e.curHolderInfo <;> cases h2 : e.curCpInfo <;> simp [toES, toCI, h1, h2]
  rename_i hi ci
  by_cases a : hi.toCountersigner > ci.toBroadcaster
  · have a' : ci.toBroadcaster ≤ hi.toCountersigner := Nat.le_of_lt a
    by_cases b : hi.toCountersigner - ci.toBroadcaster ≤ eps <;> simp [a, a', b, Rs.usub] <;> omega
  · have a' : hi.toCountersigner ≤ ci.toBroadcaster := Nat.le_of_not_lt a
    by_cases b : ci.toBroadcaster - hi.toCountersigner ≤ eps <;> simp [a, a', b, Rs.usub] <;> omega

/-! ## Round 8: the whole of `SimpleValidator::validate_mutual_close_tx`

Generated area `Gen.FnSimpleClose` (`translate/x_fn.py`).  Externals of the generated function: the policy filter
(`policy_filter_err`, closed by `C05_fn_policy_filter`), the wallet (`can_spend`, `allowlist_contains` on an opaque
`Wallet`), and the weight of the closing transaction LDK builds (`ext_let_weight`).  Scripts are an opaque type with
decidable equality: instantiated by the model's script identities. -/

def toV3 (p : Policy) : Gen.FnSimpleClose.SimpleValidator :=
  { policy := { epsilon_sat := p.epsilon, min_feerate_per_kw := p.minFeerate, max_feerate_per_kw := p.maxFeerate } }

def toCS3 (s : Setup) : Gen.FnSimpleClose.ChannelSetup Nat :=
  { is_outbound := s.isOutbound, channel_value_sat := s.channelValue, holder_shutdown_script := s.upfront }

def toCI3 (i : Info) : Gen.FnSimpleClose.CommitmentInfo2 :=
  { to_countersigner_value_sat := i.toCountersigner, to_broadcaster_value_sat := i.toBroadcaster,
    offered_htlcs := i.offered.map (fun _ => ⟨⟩), received_htlcs := i.received.map (fun _ => ⟨⟩) }

def toES3 (e : EState) : Gen.FnSimpleClose.EnforcementState :=
  { current_holder_commit_info := e.curHolderInfo.map toCI3,
    current_counterparty_commit_info := e.curCpInfo.map toCI3 }

def filt (p : Policy) : String → Bool := fun tag => filterEval p.filter tag == .error

/-- the refusal class of every tag `validate_mutual_close_tx` can raise (`Tag.kind` of the model) -/
def kindOfTag (s : String) : Kind :=
  if s = "policy-mutual-value-matches-commitment" then .value
  else if s = "policy-mutual-destination-allowlisted" then .dest
  else if s = "policy-mutual-no-pending-htlcs" then .htlcs
  else if s = "policy-mutual-fee-range" then .fee
  else .other

def relK {α : Type} : Rs.M α → Except Kind α
  | .ok a => .ok a
  | .error (.err s) => .error (kindOfTag s)
  | .error _ => .error .panic

theorem relK_bind {α β : Type} (x : Rs.M α) (f : α → Rs.M β) :
    relK (x >>= f) = relK x >>= fun a => relK (f a) := by
  cases x with
  | ok a => rfl
  | error e => cases e <;> rfl

@[simp] theorem relK_ok {α : Type} (a : α) : relK (Except.ok a : Rs.M α) = Except.ok a := rfl
@[simp] theorem relK_pure {α : Type} (a : α) : relK (pure a : Rs.M α) = pure a := rfl

theorem relK_ite_policy {α : Type} (p : Policy) (t : Tag) (tag : String) (ht : tag = t.name) (hk : kindOfTag tag = t.kind)
    (c : Bool) (R : Rs.M α) :
    relK (if c = true then (do Rs.policyErr (filt p) tag; R) else R) = (do check p t c; relK R) := by
  subst ht
  unfold Rs.policyErr check policyErr errs filt
  cases c <;> by_cases h : filterEval p.filter t.name = Gen.Policy.Action.error <;>
    simp [h, relK, Rs.fail, hk, bind, Except.bind, pure, Except.pure]

theorem relK_validate_fee (p : Policy) (sumIn sumOut weight : Nat) (hw : weight ≠ 0) (hin : sumIn ≤ Rs.U64_MAX) :
    relK ((toV3 p).validate_fee (filt p) "policy-mutual-fee-range" sumIn sumOut weight)
      = validateFee p .mutualFeeRange sumIn sumOut weight := by
  unfold Gen.FnSimpleClose.SimpleValidator.validate_fee validateFee hard check policyErr errs Rs.policyErr exactFeerate
  simp only [toV3, filt, Rs.okOr, Rs.ucheckedSub, Tag.name]
  by_cases h1 : sumOut ≤ sumIn
  · have h1' : ¬ sumIn < sumOut := Nat.not_lt.mpr h1
    have hm := (Rs.fee_rate_fits (sumIn - sumOut) (Nat.le_trans (Nat.sub_le _ _) hin)).1
    have ha := (Rs.fee_rate_fits (sumIn - sumOut) (Nat.le_trans (Nat.sub_le _ _) hin)).2
    simp only [h1, h1', if_true, Rs.umul, hm, Rs.uadd, ha, Rs.udiv, hw, if_false, Rs.bind_ok, Rs.pure_eq,
      decide_false]
    by_cases h2 : ((sumIn - sumOut) * 1000 + 999) / weight < p.minFeerate <;>
      by_cases h3 : ((sumIn - sumOut) * 1000 + 999) / weight > p.maxFeerate <;>
      by_cases h4 : filterEval p.filter "policy-mutual-fee-range" = Gen.Policy.Action.error <;>
      simp [h2, h3, h4, relK, kindOfTag, Tag.kind, Rs.fail, bind, Except.bind, pure, Except.pure]
  · have h1' : sumIn < sumOut := Nat.lt_of_not_le h1
    simp [h1, h1', relK, kindOfTag, Rs.fail, bind, Except.bind]

/-- `outside_epsilon_range` of the area `SimpleClose` (same source function as `C07_fn_outside_epsilon_range`) -/
theorem outside_eps_eq (p : Policy) (v0 v1 : Nat) :
    (toV3 p).outside_epsilon_range v0 v1
      = .ok (outsideEps p v0 v1, if v0 > v1 then "larger" else "smaller") := by
  unfold Gen.FnSimpleClose.SimpleValidator.outside_epsilon_range outsideEps
  by_cases h : v0 > v1
  · have h' : v1 ≤ v0 := Nat.le_of_lt h
    simp [h, h', Rs.usub, toV3]
  · have h' : v0 ≤ v1 := Nat.le_of_not_lt h
    simp [h, h', Rs.usub, toV3]

theorem htlcs_is_empty_eq (i : Info) : Gen.FnSimpleClose.CommitmentInfo2.htlcs_is_empty (toCI3 i) = i.htlcsEmpty := by
  unfold Gen.FnSimpleClose.CommitmentInfo2.htlcs_is_empty Info.htlcsEmpty
  simp [toCI3]

theorem closeWeight_pos (a : Args) : closeWeight a ≠ 0 := by
  unfold closeWeight
  simp only []
  omega

theorem toES3_h (e : EState) : (toES3 e).current_holder_commit_info = e.curHolderInfo.map toCI3 := rfl
theorem toES3_c (e : EState) : (toES3 e).current_counterparty_commit_info = e.curCpInfo.map toCI3 := rfl
theorem toCS3_out (s : Setup) : (toCS3 s).is_outbound = s.isOutbound := rfl
theorem toCS3_val (s : Setup) : (toCS3 s).channel_value_sat = s.channelValue := rfl
theorem toCS3_up (s : Setup) : (toCS3 s).holder_shutdown_script = s.upfront := rfl
theorem toCI3_cs (i : Info) : (toCI3 i).to_countersigner_value_sat = i.toCountersigner := rfl
theorem toCI3_br (i : Info) : (toCI3 i).to_broadcaster_value_sat = i.toBroadcaster := rfl

theorem okOr_some {α : Type} (x : α) (tag : String) : Rs.okOr (some x) tag = Except.ok x := rfl

theorem relK_checked_add (a b : Nat) :
    relK (Rs.okOr (Rs.ucheckedAdd Rs.U64_MAX a b) "policy-mutual-value-matches-commitment")
      = (do hard .value (decide (a + b > U64.MAX)); pure (a + b)) := by
  by_cases h : a + b ≤ 18446744073709551615
  · have hgt : ¬ 18446744073709551615 < a + b := by omega
    simp [h, hgt, Rs.okOr, Rs.ucheckedAdd, Rs.U64_MAX, U64.MAX, hard, relK, kindOfTag, Rs.fail, bind, Except.bind, pure,
      Except.pure]
  · have hgt : 18446744073709551615 < a + b := by omega
    simp [h, hgt, Rs.okOr, Rs.ucheckedAdd, Rs.U64_MAX, U64.MAX, hard, relK, kindOfTag, Rs.fail, bind, Except.bind, pure,
      Except.pure]

theorem relK_policyErr (p : Policy) (t : Tag) (tag : String) (ht : tag = t.name) (hk : kindOfTag tag = t.kind) :
    relK (Rs.policyErr (filt p) tag) = check p t true := by
  subst ht
  unfold Rs.policyErr check policyErr errs filt
  by_cases h : filterEval p.filter t.name = Gen.Policy.Action.error <;>
    simp [h, relK, Rs.fail, hk, pure, Except.pure]

theorem ok_bind_K {α β : Type} (a : α) (f : α → Except Kind β) : ((Except.ok a : Except Kind α) >>= f) = f a := rfl

theorem check_false (p : Policy) (t : Tag) : check p t false = Except.ok () := rfl

theorem bind_unit_ok (x : Except Kind Unit) : (x >>= fun _ => (Except.ok () : Except Kind Unit)) = x := by
  cases x <;> rfl

theorem bne_dec (x y : Option Nat) : (x != y) = !decide (x = y) := by
  by_cases h : x = y <;> simp [h]

/-- **`SimpleValidator::validate_mutual_close_tx`, the whole function** = the model's `validateMutualClose`, outcome
    by outcome, for every policy / filter / setup / pair of current commitments / close arguments.  Hypotheses: the
    wallet answers for the holder script are the ones recorded in the model's `Out` (`can_spend` does not fail), the
    weight of the LDK-built closing transaction is `closeWeight`, the channel value is a `u64`. -/
theorem C07_fn_validate_mutual_close_tx {W D : Type} (p : Policy) (s : Setup) (e : EState) (a : Args)
    (w : W) (path : D)
    (extW : Nat → Nat → Option Nat → Option Nat → Gen.FnSimpleClose.ChannelSetup Nat → Nat)
    (extC : W → D → Nat → Option Bool) (extA : W → Nat → D → Bool)
    (hW : extW a.toHolder a.toCounterparty (a.holderScript.map (·.sid)) (a.cpScript.map (·.sid)) (toCS3 s) = closeWeight a)
    (hC : ∀ o, a.holderScript = some o → extC w path o.sid = some o.canSpend)
    (hA : ∀ o, a.holderScript = some o → extA w o.sid path = o.allowlisted)
    (hv : s.channelValue ≤ Rs.U64_MAX) :
    relK (Gen.FnSimpleClose.SimpleValidator.validate_mutual_close_tx (filt p) extW extC extA (toV3 p) w (toCS3 s) (toES3 e)
            a.toHolder a.toCounterparty (a.holderScript.map (·.sid)) (a.cpScript.map (·.sid)) path)
      = validateMutualClose p s e a := by
  have hfee := fun so => relK_validate_fee p s.channelValue so _ (closeWeight_pos a) hv
  have e1 : ∀ {α : Type} (cc : Bool) (R : Rs.M α), _ := fun {α} cc R =>
    relK_ite_policy (α := α) p .mutualDestinationAllowlisted "policy-mutual-destination-allowlisted" rfl
      (by simp [kindOfTag, Tag.kind]) cc R
  have e2 : ∀ {α : Type} (cc : Bool) (R : Rs.M α), _ := fun {α} cc R =>
    relK_ite_policy (α := α) p .mutualNoPendingHtlcs "policy-mutual-no-pending-htlcs" rfl
      (by simp [kindOfTag, Tag.kind]) cc R
  have e3 : ∀ {α : Type} (cc : Bool) (R : Rs.M α), _ := fun {α} cc R =>
    relK_ite_policy (α := α) p .mutualValueMatches "policy-mutual-value-matches-commitment" rfl
      (by simp [kindOfTag, Tag.kind]) cc R
  have q1 := relK_policyErr p .mutualDestinationAllowlisted "policy-mutual-destination-allowlisted" rfl
    (by simp [kindOfTag, Tag.kind])
  have q3 := relK_policyErr p .mutualValueMatches "policy-mutual-value-matches-commitment" rfl
    (by simp [kindOfTag, Tag.kind])
  unfold Gen.FnSimpleClose.SimpleValidator.validate_mutual_close_tx validateMutualClose
  cases hh : e.curHolderInfo with
  | none => simp [toES3_h, hh, Rs.okOr, relK, kindOfTag, Rs.fail, bind, Except.bind]
  | some hi =>
    cases hc : e.curCpInfo with
    | none => simp [toES3_h, toES3_c, hh, hc, Rs.okOr, relK, kindOfTag, Rs.fail, bind, Except.bind]
    | some ci =>
      simp only [toES3_h, toES3_c, hh, hc, Option.map_some, okOr_some, Rs.bind_ok, toCS3_out, toCS3_val, toCS3_up,
        toCI3_cs, toCI3_br, htlcs_is_empty_eq, outside_eps_eq, hW, validateMutualCloseWith]
      cases ha : a.holderScript with
      | none =>
        by_cases hup : (s.upfront.isSome && decide (a.toHolder > 0)) = true <;> by_cases ho : s.isOutbound = true
        · cases hb1 : outsideEps p a.toCounterparty ci.toBroadcaster <;>
            cases hb2 : outsideEps p a.toCounterparty hi.toCountersigner <;>
            simp only [ha, hup, ho, hb1, hb2, Option.map_none, Option.map_some, Option.isNone_none, Option.isNone_some, if_true, if_false, Bool.false_eq_true, valueChecks, destCheck, whenE, okOr_some, Rs.bind_ok, pure_bind, Bool.and_true, Bool.and_false] <;>
            simp only [e1, e2, e3, q1, q3, relK_bind, relK_checked_add, hfee, relK_ok, relK_pure, bind_assoc, pure_bind] <;>
            (simp [check_false, bind_unit_ok, bne_dec, ok_bind_K]; try rfl)
        · cases hb1 : outsideEps p a.toHolder hi.toBroadcaster <;>
            cases hb2 : outsideEps p a.toHolder ci.toCountersigner <;>
            simp only [ha, hup, ho, hb1, hb2, Option.map_none, Option.map_some, Option.isNone_none, Option.isNone_some, if_true, if_false, Bool.false_eq_true, valueChecks, destCheck, whenE, okOr_some, Rs.bind_ok, pure_bind, Bool.and_true, Bool.and_false] <;>
            simp only [e1, e2, e3, q1, q3, relK_bind, relK_checked_add, hfee, relK_ok, relK_pure, bind_assoc, pure_bind] <;>
            (simp [check_false, bind_unit_ok, bne_dec, ok_bind_K]; try rfl)
        · cases hb1 : outsideEps p a.toCounterparty ci.toBroadcaster <;>
            cases hb2 : outsideEps p a.toCounterparty hi.toCountersigner <;>
            simp only [ha, hup, ho, hb1, hb2, Option.map_none, Option.map_some, Option.isNone_none, Option.isNone_some, if_true, if_false, Bool.false_eq_true, valueChecks, destCheck, whenE, okOr_some, Rs.bind_ok, pure_bind, Bool.and_true, Bool.and_false] <;>
            simp only [e1, e2, e3, q1, q3, relK_bind, relK_checked_add, hfee, relK_ok, relK_pure, bind_assoc, pure_bind] <;>
            (simp [check_false, bind_unit_ok, bne_dec, ok_bind_K]; try rfl)
        · cases hb1 : outsideEps p a.toHolder hi.toBroadcaster <;>
            cases hb2 : outsideEps p a.toHolder ci.toCountersigner <;>
            simp only [ha, hup, ho, hb1, hb2, Option.map_none, Option.map_some, Option.isNone_none, Option.isNone_some, if_true, if_false, Bool.false_eq_true, valueChecks, destCheck, whenE, okOr_some, Rs.bind_ok, pure_bind, Bool.and_true, Bool.and_false] <;>
            simp only [e1, e2, e3, q1, q3, relK_bind, relK_checked_add, hfee, relK_ok, relK_pure, bind_assoc, pure_bind] <;>
            (simp [check_false, bind_unit_ok, bne_dec, ok_bind_K]; try rfl)
      | some o =>
        have hC' := hC o ha
        have hA' := hA o ha
        by_cases hup : (s.upfront.isSome && decide (a.toHolder > 0)) = true <;> by_cases ho : s.isOutbound = true
        · cases hb1 : outsideEps p a.toCounterparty ci.toBroadcaster <;>
            cases hb2 : outsideEps p a.toCounterparty hi.toCountersigner <;>
            simp only [ha, hup, ho, hb1, hb2, Option.map_none, Option.map_some, Option.isNone_none, Option.isNone_some, if_true, if_false, Bool.false_eq_true, valueChecks, destCheck, whenE, okOr_some, Rs.bind_ok, pure_bind, Bool.and_true, Bool.and_false, hC', hA'] <;>
            simp only [e1, e2, e3, q1, q3, relK_bind, relK_checked_add, hfee, relK_ok, relK_pure, bind_assoc, pure_bind] <;>
            (simp [check_false, bind_unit_ok, bne_dec, ok_bind_K]; try rfl)
        · cases hb1 : outsideEps p a.toHolder hi.toBroadcaster <;>
            cases hb2 : outsideEps p a.toHolder ci.toCountersigner <;>
            simp only [ha, hup, ho, hb1, hb2, Option.map_none, Option.map_some, Option.isNone_none, Option.isNone_some, if_true, if_false, Bool.false_eq_true, valueChecks, destCheck, whenE, okOr_some, Rs.bind_ok, pure_bind, Bool.and_true, Bool.and_false, hC', hA'] <;>
            simp only [e1, e2, e3, q1, q3, relK_bind, relK_checked_add, hfee, relK_ok, relK_pure, bind_assoc, pure_bind] <;>
            (simp [check_false, bind_unit_ok, bne_dec, ok_bind_K]; try rfl)
        · cases hb1 : outsideEps p a.toCounterparty ci.toBroadcaster <;>
            cases hb2 : outsideEps p a.toCounterparty hi.toCountersigner <;>
            simp only [ha, hup, ho, hb1, hb2, Option.map_none, Option.map_some, Option.isNone_none, Option.isNone_some, if_true, if_false, Bool.false_eq_true, valueChecks, destCheck, whenE, okOr_some, Rs.bind_ok, pure_bind, Bool.and_true, Bool.and_false, hC', hA'] <;>
            simp only [e1, e2, e3, q1, q3, relK_bind, relK_checked_add, hfee, relK_ok, relK_pure, bind_assoc, pure_bind] <;>
            (simp [check_false, bind_unit_ok, bne_dec, ok_bind_K]; try rfl)
        · cases hb1 : outsideEps p a.toHolder hi.toBroadcaster <;>
            cases hb2 : outsideEps p a.toHolder ci.toCountersigner <;>
            simp only [ha, hup, ho, hb1, hb2, Option.map_none, Option.map_some, Option.isNone_none, Option.isNone_some, if_true, if_false, Bool.false_eq_true, valueChecks, destCheck, whenE, okOr_some, Rs.bind_ok, pure_bind, Bool.and_true, Bool.and_false, hC', hA'] <;>
            simp only [e1, e2, e3, q1, q3, relK_bind, relK_checked_add, hfee, relK_ok, relK_pure, bind_assoc, pure_bind] <;>
            (simp [check_false, bind_unit_ok, bne_dec, ok_bind_K]; try rfl)

/-- **`OnchainValidator::validate_mutual_close_tx` over the simple validator** (what `OnchainValidatorFactory` builds):
    the pass-through hands every argument on unchanged, in particular the two values in their order, so the composition
    is `validateMutualClose` as well -/
theorem C07_fn_onchain_validate_mutual_close_tx {W D : Type} (p : Policy) (s : Setup) (e : EState) (a : Args)
    (w : W) (path : D)
    (extW : Nat → Nat → Option Nat → Option Nat → Gen.FnSimpleClose.ChannelSetup Nat → Nat)
    (extC : W → D → Nat → Option Bool) (extA : W → Nat → D → Bool)
    (hW : extW a.toHolder a.toCounterparty (a.holderScript.map (·.sid)) (a.cpScript.map (·.sid)) (toCS3 s) = closeWeight a)
    (hC : ∀ o, a.holderScript = some o → extC w path o.sid = some o.canSpend)
    (hA : ∀ o, a.holderScript = some o → extA w o.sid path = o.allowlisted)
    (hv : s.channelValue ≤ Rs.U64_MAX) :
    relK (Gen.FnSimpleClose.OnchainValidator.validate_mutual_close_tx
            (fun _ wl st es th tc hs cs pt => Gen.FnSimpleClose.SimpleValidator.validate_mutual_close_tx (filt p) extW extC extA
              (toV3 p) wl st es th tc hs cs pt)
            ({ inner := () } : Gen.FnSimpleClose.OnchainValidator Unit) w (toCS3 s) (toES3 e)
            a.toHolder a.toCounterparty (a.holderScript.map (·.sid)) (a.cpScript.map (·.sid)) path)
      = validateMutualClose p s e a := by
  unfold Gen.FnSimpleClose.OnchainValidator.validate_mutual_close_tx
  exact C07_fn_validate_mutual_close_tx p s e a w path extW extC extA hW hC hA hv

/-! ## the two entry points in `channel.rs` (area `Gen.FnChannelClose`)

Externals: the validator (`self.validator().…`), the node handle, LDK's `ClosingTransaction::new` (`ext_let_tx`, a function
of exactly the two values, the two scripts and the channel), the signer (`keys.sign_closing_transaction`, `none` = error),
`persist`.  The theorems read off, for ANY instantiation of them, what a returned signature implies: the validator accepted
exactly these arguments, the signed transaction is the one built from the validated values (phase 2) / the recomposed one the
validator returned (phase 1), and the state that is handed to `persist` -- and left in memory -- is marked closed. -/

section ChannelClose
open Gen.FnChannelClose

variable {IMS SECP SB DP SIG VAL NH CT TXO : Type}

theorem C07_fn_sign_mutual_close_tx_phase2
    (extV : Channel IMS SECP → VAL) (extN : Channel IMS SECP → NH)
    (extVal : VAL → NH → ChannelSetup → EnforcementState → Nat → Nat → Option SB → Option SB → DP → Rs.M Unit)
    (extTx : Nat → Nat → Option SB → Option SB → Channel IMS SECP → CT)
    (extSign : IMS → CT → SECP → Option SIG) (extPersist : Channel IMS SECP → Rs.M Unit)
    (ch : Channel IMS SECP) (th tc : Nat) (hs cs : Option SB) (path : DP) (ch' : Channel IMS SECP) (sig : SIG)
    (h : Channel.sign_mutual_close_tx_phase2 extV extN extVal extTx extSign extPersist ch th tc hs cs path = .ok (ch', sig)) :
    extVal (extV ch) (extN ch) ch.setup ch.enforcement_state th tc hs cs path = .ok ()
    ∧ extSign ch.keys (extTx th tc hs cs ch) ch.secp_ctx = some sig
    ∧ ch' = { ch with enforcement_state := { ch.enforcement_state with channel_closed := true } }
    ∧ ch'.enforcement_state.channel_closed = true
    ∧ extPersist ch' = .ok () := by
  unfold Channel.sign_mutual_close_tx_phase2 at h
  cases hv : extVal (extV ch) (extN ch) ch.setup ch.enforcement_state th tc hs cs path with
  | error e => simp [hv, bind, Except.bind] at h
  | ok u =>
    cases hsg : extSign ch.keys (extTx th tc hs cs ch) ch.secp_ctx with
    | none => simp [hv, hsg, Rs.okOr, Rs.fail, bind, Except.bind] at h
    | some sg =>
      cases hp : extPersist { ch with enforcement_state := { ch.enforcement_state with channel_closed := true } } with
      | error e => simp [hv, hsg, hp, Rs.okOr, bind, Except.bind, pure, Except.pure] at h
      | ok u2 =>
        simp [hv, hsg, hp, Rs.okOr, bind, Except.bind, pure, Except.pure] at h
        obtain ⟨h1, h2⟩ := h
        subst h1; subst h2
        exact ⟨rfl, rfl, rfl, rfl, hp⟩

theorem C07_fn_sign_mutual_close_tx
    (extV : Channel IMS SECP → VAL) (extN : Channel IMS SECP → NH)
    (extDec : VAL → NH → ChannelSetup → EnforcementState → Transaction TXO → List DP → Rs.M CT)
    (extSign : IMS → CT → SECP → Option SIG) (extPersist : Channel IMS SECP → Rs.M Unit)
    (ch : Channel IMS SECP) (tx : Transaction TXO) (opaths : List DP) (ch' : Channel IMS SECP) (sig : SIG)
    (h : Channel.sign_mutual_close_tx extV extN extDec extSign extPersist ch tx opaths = .ok (ch', sig)) :
    opaths.length = tx.output.length
    ∧ (∃ recomposed, extDec (extV ch) (extN ch) ch.setup ch.enforcement_state tx opaths = .ok recomposed
        ∧ extSign ch.keys recomposed ch.secp_ctx = some sig)
    ∧ ch' = { ch with enforcement_state := { ch.enforcement_state with channel_closed := true } }
    ∧ ch'.enforcement_state.channel_closed = true
    ∧ extPersist ch' = .ok () := by
  unfold Channel.sign_mutual_close_tx at h
  by_cases hl : opaths.length = tx.output.length
  · cases hd : extDec (extV ch) (extN ch) ch.setup ch.enforcement_state tx opaths with
    | error e => simp [hl, hd, bind, Except.bind] at h
    | ok rt =>
      cases hsg : extSign ch.keys rt ch.secp_ctx with
      | none => simp [hl, hd, hsg, Rs.okOr, Rs.fail, bind, Except.bind] at h
      | some sg =>
        cases hp : extPersist { ch with enforcement_state := { ch.enforcement_state with channel_closed := true } } with
        | error e => simp [hl, hd, hsg, hp, Rs.okOr, bind, Except.bind, pure, Except.pure] at h
        | ok u2 =>
          simp [hl, hd, hsg, hp, Rs.okOr, bind, Except.bind, pure, Except.pure] at h
          obtain ⟨h1, h2⟩ := h
          subst h1; subst h2
          exact ⟨hl, ⟨rt, rfl, hsg⟩, rfl, rfl, hp⟩
  · simp [hl, Rs.fail] at h

/-- non-vacuity: with an accepting validator, a signer and a persister that succeed, phase 2 returns a signature -/
example :
    Channel.sign_mutual_close_tx_phase2 (InMemorySigner := Unit) (Secp256k1 := Unit) (ScriptBuf := Nat)
        (DerivationPath := Unit) (Signature := Nat) (Validator := Unit) (NodeHandle := Unit) (ClosingTransaction := Nat × Nat)
        (fun _ => ()) (fun _ => ()) (fun _ _ _ _ _ _ _ _ _ => Except.ok ()) (fun th tc _ _ _ => (th, tc))
        (fun _ t _ => some (t.1 + t.2)) (fun _ => Except.ok ()) ⟨(), (), ⟨false⟩, ⟨⟩⟩ 5 7 none none ()
      = Except.ok (⟨(), (), ⟨true⟩, ⟨⟩⟩, 12) := by rfl

end ChannelClose

/-! ### non-vacuity: a concrete, accepted close (funder, both outputs present, wallet-spendable holder script) -/

def exPolicy : Policy := { Gen.Policy.defaultTestnet with onchain := false }
def exSetup : Setup := ⟨true, 3000000, 0, 6, 7, .staticRemoteKey, none, false, false⟩
def exState : EState :=
  { EState.init with curHolderInfo := some ⟨false, 1999000, 1000000, [], [], 0⟩,
                     curCpInfo := some ⟨true, 1000000, 1999000, [], [], 0⟩, nextHolder := 2, nextCp := 2, nextRevoke := 1 }
def exArgs : Args := ⟨1998000, 1000000, some ⟨1998000, 3, 22, 5, true, false⟩, some ⟨1000000, 20, 22, 9, false, false⟩⟩

/-- the generated `validate_mutual_close_tx` with a wallet that can spend script 3 and a weight oracle returning
    `closeWeight`: same verdict as the model -/
example :
    relK (Gen.FnSimpleClose.SimpleValidator.validate_mutual_close_tx (filt exPolicy)
            (fun _ _ _ _ _ => closeWeight exArgs) (fun _ _ sid => some (sid == 3)) (fun _ _ _ => false)
            (toV3 exPolicy) () (toCS3 exSetup) (toES3 exState) 1998000 1000000 (some 3) (some 20) ())
      = validateMutualClose exPolicy exSetup exState exArgs :=
  C07_fn_validate_mutual_close_tx exPolicy exSetup exState exArgs () () _ _ _ rfl
    (fun o h => by cases h; rfl) (fun o h => by cases h; rfl) (by decide)


/-! ## Round 9 — `SimpleValidator::decode_and_validate_mutual_close_tx` (generated area `Gen.FnCloseDecode`)

The function that decides *which* output of a supplied closing transaction is the holder's is now translated from the
source on every run (normalisation: the `scopeguard` that only logs, the local `struct ValidateArgs` declared as a view,
`*recomposed_tx != *tx` as the external Boolean `tx_differs`; `Rs.capture` for the two `Result`s it keeps in variables).
Stated directly on the generated definition: **whenever it returns `Ok(closing_tx)`**, one of the two candidate readings
of the supplied outputs (`decodeReadings`: holder-only / counterparty-only for one output, holder-first / counterparty-first
for two; nothing else) passed `validate_mutual_close_tx` (the function tied to the model by
`C07_fn_validate_mutual_close_tx`), the returned transaction is `ClosingTransaction::new` of exactly that reading's values
and scripts on the channel's funding outpoint, and — when `policy-onchain-format-standard` is an error — the transaction
built from it does not differ from the supplied one.  The likely/unlikely order only decides which reading is tried first. -/

theorem bind_ok_iff {α β : Type} (x : Rs.M α) (f : α → Rs.M β) (v : β) :
    (x >>= f) = Except.ok v ↔ ∃ a, x = Except.ok a ∧ f a = Except.ok v := by
  cases x with
  | ok a => simp [bind, Except.bind]
  | error e => simp [bind, Except.bind]

theorem ite_bind_join {β : Type} (c : Prop) [Decidable c] (x : Rs.M Unit) (k : Rs.M β) :
    (if c then (x >>= fun _ => k) else k) = ((if c then x else pure ()) >>= fun _ => k) := by
  split <;> simp [bind, Except.bind, pure, Except.pure]

section Decode
open VlsModel.Gen.FnCloseDecode
variable {W SB OP AM DP CT TCT : Type} [DecidableEq SB]
  (pfe : String → Bool) (toSat : AM → Nat) (master : DP)
  (wt : Nat → Nat → Option SB → Option SB → ChannelSetup SB OP → Nat)
  (canSpend : W → DP → SB → Option Bool) (allow : W → SB → DP → Bool) (sbNew : SB)
  (ctNew : Nat → Nat → SB → SB → OP → CT) (trust : CT → TCT) (built : TCT → Transaction AM SB)
  (differs : Transaction AM SB → Transaction AM SB → Bool)
  (self : SimpleValidator) (wallet : W) (setup : ChannelSetup SB OP) (estate : EnforcementState)

/-- the candidate readings -/
def decodeReadings (tx : Transaction AM SB) (paths : List DP) : List (ValidateArgs SB DP) :=
  match tx.output, paths with
  | [o], p :: _ => [⟨toSat o.value, 0, some o.script_pubkey, none, p⟩, ⟨0, toSat o.value, none, some o.script_pubkey, master⟩]
  | [o0, o1], p0 :: p1 :: _ =>
      [⟨toSat o0.value, toSat o1.value, some o0.script_pubkey, some o1.script_pubkey, p0⟩,
       ⟨toSat o1.value, toSat o0.value, some o1.script_pubkey, some o0.script_pubkey, p1⟩]
  | _, _ => []

def validatesR (r : ValidateArgs SB DP) : Prop :=
  SimpleValidator.validate_mutual_close_tx pfe wt canSpend allow self wallet setup estate r.to_holder_value_sat
    r.to_counterparty_value_sat r.holder_script r.counterparty_script r.wallet_path = Except.ok ()

def recompose (r : ValidateArgs SB DP) : CT :=
  ctNew r.to_holder_value_sat r.to_counterparty_value_sat (r.holder_script.getD sbNew) (r.counterparty_script.getD sbNew)
    setup.funding_outpoint

theorem capture_ok_ok {α : Type} (x : Rs.M α) (a : α) (h : Rs.capture x = Except.ok (Except.ok a)) : x = Except.ok a := by
  cases x with
  | ok v => simp [Rs.capture] at h; rw [h]
  | error e => cases e <;> simp [Rs.capture] at h

/-- the part every branch ends in: try the likely reading, then the unlikely one, recompose the good one -/
theorem tail_ok (tx : Transaction AM SB) (ct : CT) (l u : ValidateArgs SB DP) (lrv : Except String Unit)
    (hf : (if (match lrv with | Except.ok _ => true | Except.error _ => false) = true then
            (do
              (if differs (built (trust (ctNew l.to_holder_value_sat l.to_counterparty_value_sat (l.holder_script.getD sbNew)
                    (l.counterparty_script.getD sbNew) setup.funding_outpoint))) tx = true then
                Rs.policyErr pfe "policy-onchain-format-standard" else pure ())
              pure (ctNew l.to_holder_value_sat l.to_counterparty_value_sat (l.holder_script.getD sbNew)
                    (l.counterparty_script.getD sbNew) setup.funding_outpoint))
          else (do
            let unlikely_rv ← Rs.capture (SimpleValidator.validate_mutual_close_tx pfe wt canSpend allow self wallet setup estate
                u.to_holder_value_sat u.to_counterparty_value_sat u.holder_script u.counterparty_script u.wallet_path)
            if (match unlikely_rv with | Except.ok _ => true | Except.error _ => false) = true then
              (do
                (if differs (built (trust (ctNew u.to_holder_value_sat u.to_counterparty_value_sat (u.holder_script.getD sbNew)
                      (u.counterparty_script.getD sbNew) setup.funding_outpoint))) tx = true then
                  Rs.policyErr pfe "policy-onchain-format-standard" else pure ())
                pure (ctNew u.to_holder_value_sat u.to_counterparty_value_sat (u.holder_script.getD sbNew)
                      (u.counterparty_script.getD sbNew) setup.funding_outpoint))
            else (do
              let t_25 ← Rs.unwrapErr lrv
              Rs.fail t_25))) = Except.ok ct)
    (hc : Rs.capture (SimpleValidator.validate_mutual_close_tx pfe wt canSpend allow self wallet setup estate l.to_holder_value_sat
            l.to_counterparty_value_sat l.holder_script l.counterparty_script l.wallet_path) = Except.ok lrv) :
    ∃ r, (r = l ∨ r = u) ∧ validatesR pfe wt canSpend allow self wallet setup estate r ∧ ct = recompose sbNew ctNew setup r
        ∧ (pfe "policy-onchain-format-standard" = true → differs (built (trust ct)) tx = false) := by
  cases lrv with
  | ok a =>
    cases a
    simp only [if_true] at hf
    refine ⟨l, Or.inl rfl, capture_ok_ok _ _ hc, ?_⟩
    by_cases hd : differs (built (trust (ctNew l.to_holder_value_sat l.to_counterparty_value_sat (l.holder_script.getD sbNew)
                    (l.counterparty_script.getD sbNew) setup.funding_outpoint))) tx = true
    · by_cases hp : pfe "policy-onchain-format-standard" = true
      · simp [hd, hp, Rs.policyErr, Rs.fail, bind, Except.bind] at hf
      · simp [hd, hp, Rs.policyErr, bind, Except.bind, pure, Except.pure] at hf
        exact ⟨hf.symm, fun h => absurd h hp⟩
    · simp [hd, bind, Except.bind, pure, Except.pure] at hf
      refine ⟨hf.symm, fun _ => ?_⟩
      rw [← hf]; simpa using hd
  | error t =>
    simp only [Bool.false_eq_true, if_false] at hf
    rw [bind_ok_iff] at hf
    obtain ⟨urv, hu, hf⟩ := hf
    cases urv with
    | ok a =>
      cases a
      simp only [if_true] at hf
      refine ⟨u, Or.inr rfl, capture_ok_ok _ _ hu, ?_⟩
      by_cases hd : differs (built (trust (ctNew u.to_holder_value_sat u.to_counterparty_value_sat (u.holder_script.getD sbNew)
                      (u.counterparty_script.getD sbNew) setup.funding_outpoint))) tx = true
      · by_cases hp : pfe "policy-onchain-format-standard" = true
        · simp [hd, hp, Rs.policyErr, Rs.fail, bind, Except.bind] at hf
        · simp [hd, hp, Rs.policyErr, bind, Except.bind, pure, Except.pure] at hf
          exact ⟨hf.symm, fun h => absurd h hp⟩
      · simp [hd, bind, Except.bind, pure, Except.pure] at hf
        refine ⟨hf.symm, fun _ => ?_⟩
        rw [← hf]; simpa using hd
    | error t2 =>
      simp [Rs.unwrapErr, Rs.fail, bind, Except.bind, pure, Except.pure] at hf

end Decode

section Decode2
open VlsModel.Gen.FnCloseDecode
variable {W SB OP AM DP CT TCT : Type} [DecidableEq SB]
  (pfe : String → Bool) (toSat : AM → Nat) (master : DP)
  (wt : Nat → Nat → Option SB → Option SB → ChannelSetup SB OP → Nat)
  (canSpend : W → DP → SB → Option Bool) (allow : W → SB → DP → Bool) (sbNew : SB)
  (ctNew : Nat → Nat → SB → SB → OP → CT) (trust : CT → TCT) (built : TCT → Transaction AM SB)
  (differs : Transaction AM SB → Transaction AM SB → Bool)
  (self : SimpleValidator) (wallet : W) (setup : ChannelSetup SB OP) (estate : EnforcementState)

theorem C07_fn_decode_and_validate_mutual_close_tx (tx : Transaction AM SB) (paths : List DP) (ct : CT)
    (h : SimpleValidator.decode_and_validate_mutual_close_tx pfe toSat master wt canSpend allow sbNew ctNew trust built differs
          self wallet setup estate tx paths = Except.ok ct) :
    ∃ r ∈ decodeReadings toSat master tx paths,
      validatesR pfe wt canSpend allow self wallet setup estate r ∧ ct = recompose sbNew ctNew setup r
        ∧ (pfe "policy-onchain-format-standard" = true → differs (built (trust ct)) tx = false) := by
  unfold SimpleValidator.decode_and_validate_mutual_close_tx at h
  simp only [ite_bind_join] at h
  rcases tx with ⟨outs⟩
  match outs, paths with
  | [], _ =>
    simp only [bind_ok_iff] at h
    obtain ⟨_, _, _, _, _, _, _, _, _, _, _, _, h7⟩ := h
    simp [Rs.index, Rs.panic, bind, Except.bind] at h7
  | [o], [] =>
    simp only [bind_ok_iff] at h
    obtain ⟨_, _, _, h2, _⟩ := h
    simp [Rs.assert, Rs.panic] at h2
  | [o], [p] =>
    simp only [bind_ok_iff] at h
    obtain ⟨_, _, _, _, _, _, _, _, hv, _, cv, _, h7⟩ := h
    simp only [List.length_cons, List.length_nil, Nat.zero_add, beq_self_eq_true, if_true, bind_ok_iff] at h7
    obtain ⟨x4, e4, x5, e5, x6, e6, x8, e8, x9, e9, t24, et, lrv, hc, hf⟩ := h7
    simp [Rs.index, pure, Except.pure] at e4 e5 e6 e8 e9
    subst e4 e5 e6 e8 e9
    simp only [pure, Except.pure, Except.ok.injEq] at et
    obtain ⟨r, hr, hval, hct, hfmt⟩ := tail_ok pfe wt canSpend allow sbNew ctNew trust built differs self wallet setup estate _ ct t24.fst t24.snd lrv hf hc
    refine ⟨r, ?_, hval, hct, hfmt⟩
    subst et
    simp only [decodeReadings]
    by_cases hl : Rs.optLt cv hv = true <;> simp [hl] at hr <;> rcases hr with hr | hr <;> simp [hr]
  | [o], _ :: _ :: _ =>
    simp only [bind_ok_iff] at h
    obtain ⟨_, _, _, h2, _⟩ := h
    simp [Rs.assert, Rs.panic] at h2
  | [o0, o1], [] =>
    simp only [bind_ok_iff] at h
    obtain ⟨_, _, _, h2, _⟩ := h
    simp [Rs.assert, Rs.panic] at h2
  | [o0, o1], [_] =>
    simp only [bind_ok_iff] at h
    obtain ⟨_, _, _, h2, _⟩ := h
    simp [Rs.assert, Rs.panic] at h2
  | [o0, o1], _ :: _ :: _ :: _ =>
    simp only [bind_ok_iff] at h
    obtain ⟨_, _, _, h2, _⟩ := h
    simp [Rs.assert, Rs.panic] at h2
  | [o0, o1], [p0, p1] =>
    simp only [bind_ok_iff] at h
    obtain ⟨_, _, _, _, _, _, _, _, hv, _, cv, _, h7⟩ := h
    have hne : (([o0, o1] : List (TxOut AM SB)).length == 1) = false := by simp
    simp only [hne, Bool.false_eq_true, if_false, bind_ok_iff] at h7
    obtain ⟨x11, e11, x13, e13, x14, e14, x15, e15, x16, e16, x18, e18, x20, e20, x21, e21, x22, e22, x23, e23, t24, et, lrv, hc, hf⟩ := h7
    simp [Rs.index, pure, Except.pure] at e11 e13 e14 e15 e16 e18 e20 e21 e22 e23
    subst e11 e13 e14 e15 e16 e18 e20 e21 e22 e23
    simp only [pure, Except.pure, Except.ok.injEq] at et
    obtain ⟨r, hr, hval, hct, hfmt⟩ := tail_ok pfe wt canSpend allow sbNew ctNew trust built differs self wallet setup estate _ ct t24.fst t24.snd lrv hf hc
    refine ⟨r, ?_, hval, hct, hfmt⟩
    subst et
    simp only [decodeReadings]
    by_cases hl : Rs.optLt cv hv = true <;> simp [hl] at hr <;> rcases hr with hr | hr <;> simp [hr]
  | _ :: _ :: _ :: _, _ =>
    simp only [bind_ok_iff] at h
    obtain ⟨_, h1, _⟩ := h
    simp [Rs.fail] at h1
end Decode2

section DecodeCor
open VlsModel.Gen.FnCloseDecode
variable {W SB OP AM DP CT TCT : Type} [DecidableEq SB]

/-- a closing transaction without outputs, or with more than two, is never accepted (whatever the state, the filter, the
    wallet): there is no reading to validate -/
theorem C07_fn_decode_only_one_or_two_outputs (pfe : String → Bool) (toSat : AM → Nat) (master : DP)
    (wt : Nat → Nat → Option SB → Option SB → ChannelSetup SB OP → Nat) (canSpend : W → DP → SB → Option Bool)
    (allow : W → SB → DP → Bool) (sbNew : SB) (ctNew : Nat → Nat → SB → SB → OP → CT) (trust : CT → TCT)
    (built : TCT → Transaction AM SB) (differs : Transaction AM SB → Transaction AM SB → Bool) (self : SimpleValidator)
    (wallet : W) (setup : ChannelSetup SB OP) (estate : EnforcementState) (tx : Transaction AM SB) (paths : List DP) (ct : CT)
    (hlen : tx.output.length = 0 ∨ tx.output.length > 2) :
    SimpleValidator.decode_and_validate_mutual_close_tx pfe toSat master wt canSpend allow sbNew ctNew trust built differs
      self wallet setup estate tx paths ≠ Except.ok ct := by
  intro h
  obtain ⟨r, hr, _⟩ := C07_fn_decode_and_validate_mutual_close_tx pfe toSat master wt canSpend allow sbNew ctNew trust built
    differs self wallet setup estate tx paths ct h
  rcases tx with ⟨outs⟩
  match outs, paths, hlen with
  | [], _, _ => simp [decodeReadings] at hr
  | [_], _, hl => simp at hl
  | [_, _], _, hl => simp at hl
  | _ :: _ :: _ :: _, _, _ => simp [decodeReadings] at hr

end DecodeCor


/-! non-vacuity: a two-output close accepted in both output orders (the second through the *unlikely* reading), and the
    empty output list: a panic (= refusal), the `tx.output[0]` index of the source -/
section DecodeEx
open VlsModel.Gen.FnCloseDecode
def dV : SimpleValidator := { policy := { epsilon_sat := 10000, min_feerate_per_kw := 253, max_feerate_per_kw := 333333 } }
def dS : ChannelSetup Nat Nat :=
  { is_outbound := true, channel_value_sat := 3000000, funding_outpoint := 7, holder_shutdown_script := none }
def dE : EnforcementState :=
  { current_holder_commit_info := some ⟨1000000, 1998000, [], []⟩,
    current_counterparty_commit_info := some ⟨1998000, 1000000, [], []⟩ }
def dRun (tx : Transaction Nat Nat) (paths : List Nat) : Rs.M (Nat × Nat × Nat × Nat × Nat) :=
  SimpleValidator.decode_and_validate_mutual_close_tx (Wallet := Unit) (fun _ => true) id (0 : Nat) (fun _ _ _ _ _ => 672)
    (fun _ _ _ => some true) (fun _ _ _ => false) (0 : Nat) (fun a b c d e => (a, b, c, d, e)) id (fun _ => tx) (fun _ _ => false)
    dV () dS dE tx paths
example : dRun ⟨[⟨1997000, 3⟩, ⟨1000000, 20⟩]⟩ [5, 9] = .ok (1997000, 1000000, 3, 20, 7) := by rfl
example : dRun ⟨[⟨1000000, 20⟩, ⟨1997000, 3⟩]⟩ [9, 5] = .ok (1997000, 1000000, 3, 20, 7) := by rfl
example : dRun ⟨[]⟩ [] = .error .panic := by rfl
end DecodeEx

/-! ### Round 10 (b3): `mutual_close_tx_weight` (`Gen.FnB3TxUtilClose`, `util/transaction_utils.rs`)

The weight that enters `policy-mutual-fee-range`: rust-bitcoin's weight of the unsigned transaction (external `txw`)
**plus** the expected witness weight — the constant expression `2 + 1 + 4 + 72 + 72 + 1 + 1 + 33 + 1 + 33 + 1 + 1` of the
source, folded by the translator.  `validate_mutual_close_tx` takes this weight as the external `ext_let_weight`
(`C07_fn_validate_mutual_close_tx`); here is what that external is. -/

/-- the unsigned closing transaction of the model: version, locktime, input count, one input of 41 bytes, output count,
    the non-zero outputs; no witness, so weight = 4 × size -/
def unsignedCloseWeight (a : Args) : Nat :=
  4 * (4 + 1 + 41 + 1 + ((if a.toCounterparty > 0 then outSize a.cpScript else 0)
                          + (if a.toHolder > 0 then outSize a.holderScript else 0)) + 4)

/-- for every transaction and every weight function: the sum with the generated constant of `x_policy.py`
    (`Gen.Policy.mutualCloseWitnessWeight`; two extractors agree), overflow-checked in `usize` -/
theorem C07_fn_mutual_close_tx_weight {T : Type} (txw : T → Nat) (tx : T) :
    Gen.FnB3TxUtilClose.mutual_close_tx_weight txw tx
      = if txw tx + Gen.Policy.mutualCloseWitnessWeight ≤ Rs.USIZE_MAX
        then .ok (txw tx + Gen.Policy.mutualCloseWitnessWeight) else .error .overflow := by
  unfold Gen.FnB3TxUtilClose.mutual_close_tx_weight Rs.uadd Gen.Policy.mutualCloseWitnessWeight
  by_cases h : txw tx + 222 ≤ Rs.USIZE_MAX <;> simp [h, Rs.overflow, bind, Except.bind, pure, Except.pure]

/-- … hence the model's `closeWeight`, whenever rust-bitcoin's weight of the built closing transaction is the model's
    unsigned weight (that identity is validated by the correspondence groups, which run `ClosingTransaction::new`);
    the sum cannot overflow for scripts of any length a `u64` weight admits -/
theorem C07_fn_mutual_close_tx_weight_model {T : Type} (txw : T → Nat) (tx : T) (a : Args)
    (hw : txw tx = unsignedCloseWeight a) (hfit : closeWeight a ≤ Rs.USIZE_MAX) :
    Gen.FnB3TxUtilClose.mutual_close_tx_weight txw tx = .ok (closeWeight a) := by
  have e : txw tx + Gen.Policy.mutualCloseWitnessWeight = closeWeight a := by
    rw [hw]; rfl
  rw [C07_fn_mutual_close_tx_weight, e, if_pos hfit]

example : Gen.FnB3TxUtilClose.mutual_close_tx_weight (fun (_ : Unit) => 496) () = .ok 718 := by
  rw [C07_fn_mutual_close_tx_weight]; rfl
example : closeWeight ⟨1000, 2000, some ⟨1000, 1, 22, 1, true, false⟩, some ⟨2000, 2, 22, 2, false, false⟩⟩
    = 4 * (4 + 1 + 41 + 1 + 31 + 31 + 4) + 222 := by rfl

/-! ### Round 10 (b3): `Channel::get_ldk_shutdown_script` (`Gen.FnB3ChannelShutdown`, channel.rs)

Where the holder's funds go in a mutual close: the **upfront** `holder_shutdown_script` of the setup whenever there is one
(the node's own script is then not even computed — `unwrap_or_else` is lazy), otherwise the node's shutdown script
(external; `unwrap` panics if the keys manager has none, `upgrade().unwrap()` if the node is gone). -/

theorem C07_fn_get_ldk_shutdown_script {N S : Type} (nodeScript : N → Option S)
    (c : Gen.FnB3ChannelShutdown.Channel N S) :
    c.get_ldk_shutdown_script nodeScript
      = match c.setup.holder_shutdown_script with
        | some s => .ok s
        | none => match c.node with
          | none => .error .panic
          | some n => match nodeScript n with
            | some s => .ok s
            | none => .error .panic := by
  unfold Gen.FnB3ChannelShutdown.Channel.get_ldk_shutdown_script Gen.FnB3ChannelShutdown.Channel.get_node
  cases c.setup.holder_shutdown_script with
  | some s => rfl
  | none =>
    cases hn : c.node with
    | none => rfl
    | some n => cases hs : nodeScript n <;> simp [Rs.unwrap, Rs.panic, hs, bind, Except.bind, pure, Except.pure]

/-- the upfront script wins, whatever the node would answer (C07: "holder output = upfront script") -/
theorem C07_fn_get_ldk_shutdown_script_upfront {N S : Type} (nodeScript : N → Option S)
    (c : Gen.FnB3ChannelShutdown.Channel N S) (s : S) (h : c.setup.holder_shutdown_script = some s) :
    c.get_ldk_shutdown_script nodeScript = .ok s := by
  rw [C07_fn_get_ldk_shutdown_script, h]

/-- `Node::get_ldk_shutdown_scriptpubkey` (`Gen.FnB3NodeShutdown`): the script of the node's **own** keys manager, a panic iff
    it has none; with it as the external, a channel without an upfront script closes to its own node's script -/
theorem C07_fn_node_get_ldk_shutdown_scriptpubkey {K S : Type} (km : K → Option S) (n : Gen.FnB3NodeShutdown.Node K) :
    n.get_ldk_shutdown_scriptpubkey km = (match km n.keys_manager with | some s => .ok s | none => .error .panic) := by
  unfold Gen.FnB3NodeShutdown.Node.get_ldk_shutdown_scriptpubkey
  cases km n.keys_manager <;> rfl

theorem C07_fn_shutdown_script_of_own_node {K S : Type} (km : K → Option S)
    (c : Gen.FnB3ChannelShutdown.Channel (Gen.FnB3NodeShutdown.Node K) S) (n : Gen.FnB3NodeShutdown.Node K) (s : S)
    (hup : c.setup.holder_shutdown_script = none) (hn : c.node = some n) (hs : km n.keys_manager = some s) :
    c.get_ldk_shutdown_script (fun nd => km nd.keys_manager) = .ok s
      ∧ n.get_ldk_shutdown_scriptpubkey km = .ok s := by
  rw [C07_fn_get_ldk_shutdown_script, C07_fn_node_get_ldk_shutdown_scriptpubkey, hup, hn]
  simp [hs]

end VlsModel.Props.C07Fn
