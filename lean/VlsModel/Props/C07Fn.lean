import VlsModel.Model.MutualClose
import VlsModel.Gen.FnSimple
import VlsModel.Gen.FnEnforceVal
import VlsModel.Lemmas.FnGen
/-
C07 — the epsilon comparisons of the mutual-close model (`MutualClose.outsideEps`, `minToHolder`,
`minToCounterparty`) proved equal to the bodies of `SimpleValidator::outside_epsilon_range` and
`EnforcementState::{minimum_to_holder_value, minimum_to_counterparty_value}` that `translate/rs2lean.py`
regenerates from `vls-core/src/policy/{simple_validator,validator}.rs` on every run.  The subtractions are guarded
by the preceding comparison in the code, so no overflow outcome is reachable: the generated bodies are total and
the equalities need no precondition.
-/
namespace VlsModel.Props.C07Fn
open VlsModel VlsModel.Policy VlsModel.MutualClose

def toV (p : Policy) : Gen.FnSimple.SimpleValidator :=
  { policy := { min_delay := p.minDelay, max_delay := p.maxDelay, epsilon_sat := p.epsilon,
                use_chain_state := p.useChainState, min_feerate_per_kw := p.minFeerate,
                max_feerate_per_kw := p.maxFeerate, dev_flags := none } }

/-- first component of `outside_epsilon_range` = `outsideEps` (the second is the word used in the message) -/
theorem C07_fn_outside_epsilon_range (p : Policy) (v0 v1 : Nat) :
    (toV p).outside_epsilon_range v0 v1
      = .ok (outsideEps p v0 v1, if v0 > v1 then "larger" else "smaller") := by
  unfold Gen.FnSimple.SimpleValidator.outside_epsilon_range outsideEps
  by_cases h : v0 > v1
  · have h' : v1 ≤ v0 := Nat.le_of_lt h
    simp [h, h', Rs.usub, toV]
  · have h' : v0 ≤ v1 := Nat.le_of_not_lt h
    simp [h, h', Rs.usub, toV]

def toCI (i : Info) : Gen.FnEnforceVal.CommitmentInfo2 :=
  { to_countersigner_value_sat := i.toCountersigner, to_broadcaster_value_sat := i.toBroadcaster }

def toES (e : EState) : Gen.FnEnforceVal.EnforcementState :=
  { current_holder_commit_info := e.curHolderInfo.map toCI,
    current_counterparty_commit_info := e.curCpInfo.map toCI }

theorem C07_fn_minimum_to_holder_value (e : EState) (eps : Nat) :
    (toES e).minimum_to_holder_value eps = .ok (minToHolder e eps) := by
  unfold Gen.FnEnforceVal.EnforcementState.minimum_to_holder_value minToHolder minWithin
  cases h1 : e.curHolderInfo <;> cases h2 : e.curCpInfo <;> simp [toES, toCI, h1, h2]
  rename_i hi ci
  by_cases a : hi.toBroadcaster > ci.toCountersigner
  · have a' : ci.toCountersigner ≤ hi.toBroadcaster := Nat.le_of_lt a
    by_cases b : hi.toBroadcaster - ci.toCountersigner ≤ eps <;> simp [a, a', b, Rs.usub] <;> omega
  · have a' : hi.toBroadcaster ≤ ci.toCountersigner := Nat.le_of_not_lt a
    by_cases b : ci.toCountersigner - hi.toBroadcaster ≤ eps <;> simp [a, a', b, Rs.usub] <;> omega

theorem C07_fn_minimum_to_counterparty_value (e : EState) (eps : Nat) :
    (toES e).minimum_to_counterparty_value eps = .ok (minToCounterparty e eps) := by
  unfold Gen.FnEnforceVal.EnforcementState.minimum_to_counterparty_value minToCounterparty minWithin
  cases h1 : e.curHolderInfo <;> cases h2 : e.curCpInfo <;> simp [toES, toCI, h1, h2]
  rename_i hi ci
  by_cases a : hi.toCountersigner > ci.toBroadcaster
  · have a' : ci.toBroadcaster ≤ hi.toCountersigner := Nat.le_of_lt a
    by_cases b : hi.toCountersigner - ci.toBroadcaster ≤ eps <;> simp [a, a', b, Rs.usub] <;> omega
  · have a' : hi.toCountersigner ≤ ci.toBroadcaster := Nat.le_of_not_lt a
    by_cases b : ci.toBroadcaster - hi.toCountersigner ≤ eps <;> simp [a, a', b, Rs.usub] <;> omega

end VlsModel.Props.C07Fn
