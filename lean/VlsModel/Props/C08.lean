import VlsModel.Lemmas.Onchain
import VlsModel.Props.C12
import VlsModel.Lemmas.Wallet
/-
C08 — On-chain spends lose at most a bounded fee and fund only validated channels.

Statement (properties.jsonl): a wallet or funding transaction passes the signer's check only if the value
of its inputs minus the value returned to the wallet, to allowlisted destinations and into channels the
node itself funds is within the maximum fee rate, every other output being reported as an unknown
destination that needs explicit approval.  A channel funding output is accepted only with the exact
channel value and funding script, for an outbound channel without push, whose initial holder commitment
was already counter-signed, and only if all inputs are segwit; cumulative fees stay within the fee
velocity limit.

Model: `VlsModel/Model/Onchain.lean` (`validateOnchain` = `validate_onchain_tx`, `checkOnchain` =
`Node::check_onchain_tx`).  Sums on the right-hand sides are over unbounded `Nat`; the model computes
with the checked / saturating u64 and u32 operators of the code.

Hypotheses (each explicit, each with an `example` instance at the end):
* `p.flt.Strict`: the policy filter keeps the eight tags the argument relies on as errors (true for
  `PolicyFilter::default()`; `new_permissive()` is the documented opt-out) and `p.devDisable = false`
  (the dev flag `disable_beneficial_balance_checks` is off);
No hypothesis on `maxFeerate` or on the weight is needed any more: since fix 3751e9c
`validate_beneficial_value` compares the exact rate `(nb·1000+999)/weight` in u128 (no u32 clamp, no
saturation), which is plain `Nat` arithmetic; `C08_max_u32_is_a_bound` shows the former gap closed.
-/
namespace VlsModel.Props.C08
open VlsModel VlsModel.Onchain VlsModel.Velocity

theorem unknownIdxs_nil (outs : List Out) : ∀ i, unknownIdxs outs i = [] → ∀ o ∈ outs, classify o ≠ .unknown := by
  induction outs with
  | nil => intro i _ o ho; cases ho
  | cons a rest ih =>
    intro i h o ho
    unfold unknownIdxs at h
    split at h
    · cases h
    · rename_i hn
      rcases List.mem_cons.mp ho with rfl | ho
      · exact hn
      · exact ih _ h o ho

theorem unknownIdxs_of_mem (outs : List Out) : ∀ i, (∃ o ∈ outs, classify o = .unknown) → unknownIdxs outs i ≠ [] := by
  intro i ⟨o, ho, hu⟩ hnil
  exact unknownIdxs_nil outs i hnil o ho hu

theorem beneficialValue_ok (p : Policy) (sumIn sumOut w nb : Nat)
    (hdev : p.devDisable = false) (hf : p.flt.feeRange = true)
    (h : beneficialValue p sumIn sumOut w = .ok nb) :
    sumOut ≤ sumIn ∧ nb = sumIn - sumOut ∧ 0 < w ∧ (nb * 1000 + 999) / w ≤ p.maxFeerate := by
  unfold beneficialValue at h
  unfold U64.checkedSub at h
  split at h
  · cases h
  rename_i nb' hsub
  split at hsub
  · rename_i hle
    cases hsub
    unfold impliedFeerate at h
    split at h
    · rename_i hnone
      split at hnone
      · cases h
      · cases hnone
    · rename_i fr hfr
      split at hfr
      · cases hfr
      · rename_i hw0
        cases hfr
        simp only [hdev, hf, and_true] at h
        split at h
        · cases h
        · rename_i hnot
          cases h
          exact ⟨hle, rfl, Nat.pos_of_ne_zero hw0, Nat.le_of_not_lt hnot⟩
  · cases hsub

/-- **C08 (value)**: if `validate_onchain_tx` accepts with non-beneficial value `nb`, then every output is
    wallet, allowlisted or a validated channel funding output (no unknown output), the credited value does
    not exceed the inputs, `nb` is exactly Σinputs − (Σwallet + Σallowlisted + Σchannel) over `Nat`, and `nb`
    taken as a fee over the (non-zero) weight lower bound is within the maximum feerate, exactly:
    `(nb·1000 + 999) / weight ≤ maxFeerate` over unbounded naturals — for every `maxFeerate` (incl. u32::MAX)
    and every weight. -/
theorem C08_value (p : Policy) (r : Req) (w nb : Nat) (hs : p.flt.Strict) (hdev : p.devDisable = false)
    (h : validateOnchain p r w = .ok nb) :
    (∀ o ∈ r.outs, Accepted o) ∧
    sumBeneficial r.outs ≤ r.inValues.sum ∧
    nb = r.inValues.sum - sumBeneficial r.outs ∧
    0 < w ∧ (nb * 1000 + 999) / w ≤ p.maxFeerate := by
  unfold validateOnchain at h
  split at h
  · cases h
  split at h
  · cases h
  split at h
  · cases h
  split at h
  · cases h
  split at h
  · cases h
  · cases h
  · rename_i sumOut unk hloop
    split at h
    · cases h
    · rename_i hunk
      have hunk : unk = [] := by simpa using hunk
      obtain ⟨e1, e2, e3⟩ := outLoop_done p.flt hs _ _ _ _ _ _ _ hloop
      simp only [hunk, List.reverse_nil, List.nil_append] at e2
      have hno := unknownIdxs_nil r.outs 0 e2.symm
      split at h
      · cases h
      · rename_i sumIn hin
        have hsum := sumInputs_some _ _ _ hin
        obtain ⟨b1, b2, b3, b4⟩ := beneficialValue_ok p sumIn sumOut w nb hdev hs.2.2.2.2.2.2.2 h
        refine ⟨?_, by omega, by omega, b3, b4⟩
        intro o ho
        rcases e3 o ho with ha | hu
        · exact ha
        · exact absurd hu (hno o ho)

/-- the same bound stated multiplicatively -/
theorem C08_value_mul (p : Policy) (r : Req) (w nb : Nat) (hs : p.flt.Strict) (hdev : p.devDisable = false)
    (h : validateOnchain p r w = .ok nb) : nb * 1000 + 999 < (p.maxFeerate + 1) * w := by
  obtain ⟨_, _, _, hw, hq⟩ := C08_value p r w nb hs hdev h
  exact (Nat.div_lt_iff_lt_mul hw).mp (by omega)

/-- **C08 (unknown destinations)**: the indices reported by `UnknownDestinations` are exactly the outputs
    that are neither wallet, allowlisted nor a funded channel (in order), and the list is never empty. -/
theorem C08_unknown (p : Policy) (r : Req) (w : Nat) (l : List Nat) (hs : p.flt.Strict)
    (h : validateOnchain p r w = .unknown l) : l = unknownIdxs r.outs 0 ∧ l ≠ [] := by
  unfold validateOnchain at h
  split at h
  · cases h
  split at h
  · cases h
  split at h
  · cases h
  split at h
  · cases h
  split at h
  · cases h
  · cases h
  · rename_i sumOut unk hloop
    obtain ⟨_, e2, _⟩ := outLoop_done p.flt hs _ _ _ _ _ _ _ hloop
    simp only [List.reverse_nil, List.nil_append] at e2
    split at h
    · rename_i hne
      cases h
      exact ⟨e2, hne⟩
    · split at h
      · cases h
      · unfold beneficialValue at h
        split at h
        · cases h
        · split at h
          · cases h
          · split at h <;> cases h

/-- … and an unknown output is never silently accepted: with one present the check cannot return `ok`
    (it returns `UnknownDestinations`, or an error / panic raised before the end of the loop). -/
theorem C08_unknown_never_ok (p : Policy) (r : Req) (w nb : Nat) (hs : p.flt.Strict)
    (hu : ∃ o ∈ r.outs, classify o = .unknown) : validateOnchain p r w ≠ .ok nb := by
  intro h
  unfold validateOnchain at h
  split at h
  · cases h
  split at h
  · cases h
  split at h
  · cases h
  split at h
  · cases h
  split at h
  · cases h
  · cases h
  · rename_i sumOut unk hloop
    obtain ⟨_, e2, _⟩ := outLoop_done p.flt hs _ _ _ _ _ _ _ hloop
    simp only [List.reverse_nil, List.nil_append] at e2
    split at h
    · cases h
    · rename_i hunk
      have hunk : unk = [] := by simpa using hunk
      exact unknownIdxs_of_mem r.outs 0 hu (by rw [← e2, hunk])

theorem classify_channel_chan (o : Out) (c : ChanFacts) (h : classify o = .channel c) : o.chan = some c := by
  unfold classify at h
  grind

/-- **C08 (channel)**: an accepted transaction credits a channel funding output only with the exact channel
    value and funding script, for an outbound channel without push whose `next_holder_commit_num` is 1, and
    then every input is segwit (and the flags cover all inputs). -/
theorem C08_channel (p : Policy) (r : Req) (w nb : Nat) (hs : p.flt.Strict) (hdev : p.devDisable = false)
    (h : validateOnchain p r w = .ok nb) (o : Out) (ho : o ∈ r.outs) (c : ChanFacts)
    (hc : classify o = .channel c) :
    ChanOk o c ∧ r.segwit.all id = true ∧ r.nInputs = r.segwit.length := by
  have hacc := (C08_value p r w nb hs hdev h).1 o ho
  unfold Accepted at hacc
  rw [hc] at hacc
  refine ⟨hacc, ?_⟩
  have hany : anyChannel r.outs = true := by
    unfold anyChannel
    rw [List.any_eq_true]
    exact ⟨o, ho, by rw [classify_channel_chan o c hc]; rfl⟩
  unfold validateOnchain at h
  split at h
  · cases h
  split at h
  · cases h
  split at h
  · cases h
  rename_i hlen
  split at h
  · cases h
  rename_i hseg
  have hnm := hs.1
  simp only [hany, hnm, true_and, and_true] at hlen hseg
  exact ⟨by simpa using hseg, by simpa using hlen⟩

/-- whatever `validate_onchain_tx` answers other than an error or a panic, all its checks that do not
    concern destinations passed -/
theorem validate_pass (p : Policy) (r : Req) (w : Nat) (hs : p.flt.Strict) (res : Res)
    (h : validateOnchain p r w = res) (hres : (∃ nb, res = .ok nb) ∨ (∃ l, res = .unknown l)) :
    NonDestChecks p r := by
  have hne : ∀ t, res ≠ .err t := by rintro t rfl; rcases hres with ⟨_, h'⟩ | ⟨_, h'⟩ <;> cases h'
  have hnp : res ≠ .panic := by rintro rfl; rcases hres with ⟨_, h'⟩ | ⟨_, h'⟩ <;> cases h'
  unfold validateOnchain at h
  split at h
  · exact absurd h.symm (hne _)
  rename_i hver
  split at h
  · exact absurd h.symm (hne _)
  rename_i hsize
  split at h
  · exact absurd h.symm hnp
  rename_i hlen
  split at h
  · exact absurd h.symm (hne _)
  rename_i hseg
  split at h
  · exact absurd h.symm hnp
  · exact absurd h.symm (hne _)
  · rename_i sumOut unk hloop
    obtain ⟨_, _, e3⟩ := outLoop_done p.flt hs _ _ _ _ _ _ _ hloop
    refine ⟨?_, ?_, ?_, e3⟩
    · intro hf; simp only [hf, and_true] at hver; exact Decidable.of_not_not hver
    · intro hf; simp only [hf, and_true] at hsize; exact Nat.le_of_not_lt hsize
    · intro hany
      have hnm := hs.1
      simp only [hany, hnm, true_and, and_true] at hlen hseg
      exact ⟨by simpa using hseg, by simpa using hlen⟩

theorem checkOnchain_res (p : Policy) (vc vc' : VC) (now : Nat) (r : Req) (res : Res)
    (h : checkOnchain p vc now r = (vc', res)) (hres : (∃ nb, res = .ok nb) ∨ (∃ l, res = .unknown l)) :
    ∃ w, validateOnchain p r w = res := by
  unfold checkOnchain at h
  split at h
  · cases h; rcases hres with ⟨_, h'⟩ | ⟨_, h'⟩ <;> cases h'
  · rename_i w _
    refine ⟨w, ?_⟩
    split at h
    · rename_i nb hv
      split at h
      · cases h; rcases hres with ⟨_, h'⟩ | ⟨_, h'⟩ <;> cases h'
      · split at h
        · cases h; rcases hres with ⟨_, h'⟩ | ⟨_, h'⟩ <;> cases h'
        · cases h; exact hv
        · cases h
          split
          · rename_i hf
            simp only [hf, if_true] at hres
            rcases hres with ⟨_, h'⟩ | ⟨_, h'⟩ <;> cases h'
          · exact hv
    · cases h; rfl

/-- **C08 (flow)**: if the whole flow ends in "sign" — directly, or after the approver accepted reported
    unknown destinations — every check that does not concern destinations passed. -/
theorem C08_flow (p : Policy) (vc vc' : VC) (now : Nat) (r : Req) (approve : Bool) (hs : p.flt.Strict)
    (h : flowOnchain p vc now r approve = (vc', .signed)) :
    NonDestChecks p r ∧
    (∀ o ∈ r.outs, ∀ c, classify o = .channel c →
      ChanOk o c ∧ r.segwit.all id = true ∧ r.nInputs = r.segwit.length) := by
  unfold flowOnchain at h
  have hpass : NonDestChecks p r := by
    cases hc : checkOnchain p vc now r with
    | mk v res =>
      rw [hc] at h
      cases res with
      | ok nb =>
        obtain ⟨w, hv⟩ := checkOnchain_res p vc v now r _ hc (Or.inl ⟨nb, rfl⟩)
        exact validate_pass p r w hs _ hv (Or.inl ⟨nb, rfl⟩)
      | unknown l =>
        obtain ⟨w, hv⟩ := checkOnchain_res p vc v now r _ hc (Or.inr ⟨l, rfl⟩)
        exact validate_pass p r w hs _ hv (Or.inr ⟨l, rfl⟩)
      | err t => simp at h
      | panic => simp at h
  refine ⟨hpass, ?_⟩
  intro o ho c hc
  obtain ⟨_, _, hseg, hall⟩ := hpass
  have hany : anyChannel r.outs = true := by
    unfold anyChannel
    rw [List.any_eq_true]
    exact ⟨o, ho, by rw [classify_channel_chan o c hc]; rfl⟩
  rcases hall o ho with ha | hu
  · unfold Accepted at ha
    rw [hc] at ha
    exact ⟨ha, hseg hany⟩
  · rw [hc] at hu; cases hu

/-- **C08 (unknown ⇒ everything else was checked)**: an `UnknownDestinations` answer implies that every check
    which does not concern destinations passed (version, size, segwit inputs when a channel is funded, and every
    output that is not reported is wallet / allowlisted / a validated channel output) — so an approval of the
    reported destinations cannot waive anything else. -/
theorem C08_unknown_checks (p : Policy) (r : Req) (w : Nat) (l : List Nat) (hs : p.flt.Strict)
    (h : validateOnchain p r w = .unknown l) : NonDestChecks p r :=
  validate_pass p r w hs _ h (Or.inr ⟨l, rfl⟩)

/-- **C08 (value, any filter)**: with nothing assumed about the policy filter except that the fee-range tag is an
    error (and the dev flag off), an accepted transaction satisfies the fee bound for
    `nb = Σinputs − Σcredited`, where a funded channel is credited **net of its push** (`chanStep_add_net`) and a
    tolerated (warn-only) output is credited nothing. -/
theorem C08_value_any_filter (p : Policy) (r : Req) (w nb : Nat) (hf : p.flt.feeRange = true)
    (hdev : p.devDisable = false) (h : validateOnchain p r w = .ok nb) :
    sumCredit p.flt r.outs ≤ r.inValues.sum ∧ nb = r.inValues.sum - sumCredit p.flt r.outs ∧
    0 < w ∧ (nb * 1000 + 999) / w ≤ p.maxFeerate := by
  unfold validateOnchain at h
  split at h
  · cases h
  split at h
  · cases h
  split at h
  · cases h
  split at h
  · cases h
  split at h
  · cases h
  · cases h
  · rename_i sumOut unk hloop
    split at h
    · cases h
    · have e1 := outLoop_credit p.flt _ _ _ _ _ _ _ hloop
      split at h
      · cases h
      · rename_i sumIn hin
        have hsum := sumInputs_some _ _ _ hin
        obtain ⟨b1, b2, b3, b4⟩ := beneficialValue_ok p sumIn sumOut w nb hdev hf h
        exact ⟨by omega, by omega, b3, b4⟩

/-- with only policy-onchain-no-channel-push demoted to a warning a pushed channel is tolerated, but the push is
    counted as fee: 3000 sat pushed on top of a 1000 sat fee is refused at 253 sat/kw, and accepted (nb = 4000) with
    room under 333333 sat/kw -/
example :
    validateOnchain ⟨253, false, { Filter.default with noChannelPush := false }⟩
      ⟨2, 100, 600, 1, [true], [1001000], [], 1,
        [⟨1000000, 0, some false, false, .no, some ⟨1000000, true, true, 3000000, 1⟩⟩]⟩ 600 = .err .feeRange
  ∧ validateOnchain ⟨333333, false, { Filter.default with noChannelPush := false }⟩
      ⟨2, 100, 600, 1, [true], [1001000], [], 1,
        [⟨1000000, 0, some false, false, .no, some ⟨1000000, true, true, 3000000, 1⟩⟩]⟩ 600 = .ok 4000 := by decide

/-! ### Fee velocity (via the C12 theorems) -/

/-- the approved-fee log after one check -/
def logOf (res : Res) (now : Nat) (log : Log) : Log :=
  match res with
  | .ok nb => (now, nb * 1000) :: log
  | _ => log

open VlsModel.Props.C12 in
/-- run `check_onchain_tx` over a list of (now, request); collect `(now, fee_msat)` of the accepted ones;
    `none` = the implementation panicked -/
def runChecks (p : Policy) : VC → Log → List (Nat × Req) → Option (VC × Log)
  | vc, log, [] => some (vc, log)
  | vc, log, (now, r) :: rest =>
    match checkOnchain p vc now r with
    | (_, .panic) => none
    | (vc', res) => runChecks p vc' (logOf res now log) rest

/-- timestamps non-decreasing and not before `t0` -/
def SortedReqs (t0 : Nat) : List (Nat × Req) → Prop
  | [] => True
  | (t, _) :: rest => t0 ≤ t ∧ SortedReqs t rest

open VlsModel.Props.C12 in
theorem check_step {limit bi n T : Nat} (p : Policy) (hf : p.flt.feeRange = true) (hn : 0 < n)
    (hlim : limit < U64.MAX) (vc : VC) (log : Log) (g : Good limit bi n T vc log) (now : Nat) (r : Req)
    (ht : T ≤ now) (vc' : VC) (res : Res) (hc : checkOnchain p vc now r = (vc', res)) (hp : res ≠ .panic) :
    Good limit bi n now vc' (logOf res now log) := by
  unfold checkOnchain at hc
  split at hc
  · cases hc; exact absurd rfl hp
  · split at hc
    · rename_i nb hv
      unfold U64.checkedMul at hc
      split at hc
      · rename_i hnone
        split at hnone
        · cases hnone
        · cases hc; exact absurd rfl hp
      · rename_i msat hmul
        split at hmul
        · cases hmul
          split at hc
          · cases hc; exact absurd rfl hp
          · rename_i hins
            cases hc
            simpa [logOf] using good_step hn hlim g now (nb * 1000) ht _ true hins
          · rename_i hins
            cases hc
            simpa [logOf, hf] using good_step hn hlim g now (nb * 1000) ht _ false hins
        · cases hmul
    · rename_i hres
      cases hc
      generalize validateOnchain p r _ = res at hres hp ⊢
      cases res with
      | ok nb => exact absurd rfl (hres nb)
      | unknown l => exact g.mono ht
      | err t => exact g.mono ht
      | panic => exact absurd rfl hp

open VlsModel.Props.C12 in
/-- **C08 (velocity)**: under a limited fee velocity control (`limit < u64::MAX`), for every history of
    on-chain checks with non-decreasing clock readings, the fees (non-beneficial value, msat) of the accepted
    transactions within any window of `(n−1)·bucket_interval` seconds sum to at most the limit. -/
theorem C08_velocity (p : Policy) (hf : p.flt.feeRange = true) (limit bi n : Nat) (hbi : 0 < bi) (hn : 0 < n)
    (hlim : limit < U64.MAX) (reqs : List (Nat × Req)) (hs : SortedReqs 0 reqs) (vc : VC) (log : Log)
    (hrun : runChecks p (VC.newWithIntervals limit bi n) [] reqs = some (vc, log)) (lo : Nat) :
    windowSum log lo (lo + (n - 1) * bi) ≤ limit := by
  suffices H : ∀ (reqs : List (Nat × Req)) (vc0 : VC) (log0 : Log) (T : Nat), Good limit bi n T vc0 log0 →
      SortedReqs T reqs → ∀ vc log, runChecks p vc0 log0 reqs = some (vc, log) → ∃ T', Good limit bi n T' vc log by
    obtain ⟨T', g⟩ := H reqs _ _ 0 (good_init limit bi n hbi) hs vc log hrun
    exact g.hwin lo
  intro reqs
  induction reqs with
  | nil => intro vc0 log0 T g _ vc log h; simp [runChecks] at h; exact ⟨T, h.1 ▸ h.2 ▸ g⟩
  | cons q rest ih =>
    intro vc0 log0 T g hsr vc log h
    obtain ⟨now, r⟩ := q
    obtain ⟨ht, hsr'⟩ := hsr
    unfold runChecks at h
    cases hc : checkOnchain p vc0 now r with
    | mk vc' res =>
      simp only [hc] at h
      by_cases hp : res = .panic
      · subst hp; simp at h
      · have gs := check_step p hf hn hlim vc0 log0 g now r ht vc' res hc hp
        have h' : runChecks p vc' (logOf res now log0) rest = some (vc, log) := by
          cases res with
          | panic => exact absurd rfl hp
          | ok nb => simpa using h
          | unknown l => simpa using h
          | err t => simpa using h
        exact ih vc' _ now gs hsr' vc log h'

/-- the generated defaults satisfy the hypotheses of `C08_value` / `C08_velocity` -/
theorem C08_gen_defaults_ok :
    Gen.Onchain.mainnetMaxFeerate ≤ U32.MAX ∧ Gen.Onchain.testnetMaxFeerate ≤ U32.MAX ∧
    Gen.Onchain.defaultFeeVelocityLimitMsat < U64.MAX ∧ Gen.Onchain.defaultFeeVelocityIntervalCode ≠ 2 ∧
    Gen.Onchain.beneficialFeerateIsExact = true ∧ 0 < Gen.Onchain.witnessWeightConst := by decide

/-! ### The hypotheses are necessary (refutations of the statement without them) -/

/-- with the permissive filter an output that matches nothing is dropped silently and the tx is accepted -/
theorem C08_value_needs_filter :
    ∃ (p : Policy) (r : Req) (w nb : Nat), p.devDisable = false ∧
      validateOnchain p r w = .ok nb ∧ ¬ (∀ o ∈ r.outs, Accepted o) := by
  refine ⟨⟨333333, false, ⟨false, false, false, false, false, false, false, false, false, false⟩⟩,
    ⟨2, 100, 400, 1, [true], [1000], [], 1, [⟨1000, 1, some false, false, .no, none⟩]⟩, 400, 1000,
    rfl, by decide, ?_⟩
  intro h
  have := h _ (List.mem_singleton.mpr rfl)
  simp [Accepted, classify] at this

/-- since fix 3751e9c `max_feerate_per_kw = u32::MAX` is a real bound: the fee that the clamped estimate let
    through (10^16 sat over weight 400) is refused (before the fix this was `ok`; the former theorem
    `C08_value_needs_max_lt` is gone because the hypothesis is no longer needed) -/
theorem C08_max_u32_is_a_bound :
    validateOnchain ⟨U32.MAX, false, Filter.default⟩
      ⟨2, 100, 400, 1, [true], [10000000000000000], [], 0, []⟩ 400 = .err .feeRange := by decide

/-- with the dev flag `disable_beneficial_balance_checks` any fee passes (the other documented opt-out) -/
theorem C08_value_needs_dev_off :
    ∃ (r : Req) (nb : Nat), validateOnchain ⟨253, true, Filter.default⟩ r 400 = .ok nb ∧
      ¬ ((nb * 1000 + 999) / 400 ≤ 253) := by
  refine ⟨⟨2, 100, 400, 1, [true], [1000000], [], 0, []⟩, 1000000, by decide, by decide⟩

/-! ### Non-vacuity -/

example : Filter.default.Strict := by decide

/-- a funding transaction: wallet change + a validated channel + an allowlisted script, fee 1000 sat -/
example : validateOnchain ⟨333333, false, Filter.default⟩
    ⟨2, 200, 800, 1, [true], [5001000], [], 3,
      [⟨1999000, 1, some true, false, .no, none⟩,
       ⟨3000000, 0, some false, false, .no, some ⟨3000000, true, true, 0, 1⟩⟩,
       ⟨1000, 0, some false, true, .no, none⟩]⟩ 800 = .ok 1000 := by decide

/-- the same with an unknown fourth output is reported, listing exactly index 3 -/
example : validateOnchain ⟨333333, false, Filter.default⟩
    ⟨2, 200, 800, 1, [true], [5001000], [], 4,
      [⟨1999000, 1, some true, false, .no, none⟩,
       ⟨3000000, 0, some false, false, .no, some ⟨3000000, true, true, 0, 1⟩⟩,
       ⟨1000, 0, some false, true, .no, none⟩,
       ⟨500, 0, some false, false, .no, none⟩]⟩ 800 = .unknown [3] := by decide

/-- a pushed / inbound / not yet counter-signed channel is refused -/
example : validateOnchain ⟨333333, false, Filter.default⟩
    ⟨2, 200, 800, 1, [true], [3001000], [], 1,
      [⟨3000000, 0, some false, false, .no, some ⟨3000000, true, true, 5000000, 1⟩⟩]⟩ 800 = .err .noChannelPush
  ∧ validateOnchain ⟨333333, false, Filter.default⟩
    ⟨2, 200, 800, 1, [true], [3001000], [], 1,
      [⟨3000000, 0, some false, false, .no, some ⟨3000000, true, true, 0, 0⟩⟩]⟩ 800 = .err .initialCountersigned := by
  decide

/-- the fee that wrapped to a small feerate before the saturating fix (≈ 2^32 sat/kw) is refused -/
example : validateOnchain ⟨333333, false, Filter.default⟩
    ⟨2, 100, 437, 1, [true], [1876901000], [], 1, [⟨1000, 1, some true, false, .no, none⟩]⟩ 437 = .err .feeRange := by
  decide

/-- the flow: funding a validated channel + an unknown destination from a segwit input is reported and, once
    the approver accepts, signed; the same with a non-segwit input is refused whatever the approver says -/
example :
    (flowOnchain ⟨333333, false, Filter.default⟩ (VC.ofSpec ⟨1000000000, .daily⟩) 1600000000
      ⟨2, 200, 800, 1, [true], [3501000], [], 2,
        [⟨3000000, 0, some false, false, .no, some ⟨3000000, true, true, 0, 1⟩⟩,
         ⟨500000, 0, some false, false, .no, none⟩]⟩ true).2 = .signed
  ∧ (flowOnchain ⟨333333, false, Filter.default⟩ (VC.ofSpec ⟨1000000000, .daily⟩) 1600000000
      ⟨2, 200, 800, 1, [false], [3501000], [], 2,
        [⟨3000000, 0, some false, false, .no, some ⟨3000000, true, true, 0, 1⟩⟩,
         ⟨500000, 0, some false, false, .no, none⟩]⟩ true).2 = .refused .nonMalleable := by decide

/-! ## Which scripts are credited: `Wallet::can_spend` / `allowlist_contains` as decision logic (Model/Wallet.lean)

Until round 8 the three wallet facts of an output (`canSpend`, `scriptAllow`, `xpub`) were inputs of the model.  Here they
are *computed* from the structure of the script (which address form of which derived key), the output's derivation path,
the key-derivation style and the allowlist, by the model of `impl Wallet for Node` (`Onchain.outOfScript`; the driver model uses it too: the harness sends script
descriptors, not facts); the harness group `C08Wallet` runs the wallet model against the real `Node`.  `C08_credited_scripts` then says what an accepted transaction can pay to. -/
section WalletLogic
open VlsModel.Wallet

/-- **C08 (destinations)**: an output classified *wallet* pays one of the three segwit forms of the node's own key at
    the output's path (of the length the style admits); *xpubAllow* pays a p2wpkh / p2pkh / p2tr child, at that path, of
    an allowlisted extended key; *scriptAllow* pays a listed script.  Nothing else is credited without being a validated
    channel (`C08_channel`). -/
theorem C08_credited_scripts (style : Style) (allow : List Allowable) (value : Nat) (path : List Nat) (s : Script)
    (chan : Option ChanFacts) :
    (classify (outOfScript style allow value path s chan) = .wallet →
        path ≠ [] ∧ PathFits style path ∧ SpendableForm s (.account path)) ∧
    (classify (outOfScript style allow value path s chan) = .xpubAllow →
        path ≠ [] ∧ path.any hardened = false ∧ ∃ j, .xpub j ∈ allow ∧ XpubForm s (xpubKey j path)) ∧
    (classify (outOfScript style allow value path s chan) = .scriptAllow → .script s ∈ allow) := by
  unfold classify outOfScript
  by_cases hp : 0 < path.length
  · have hne : path ≠ [] := by intro h; simp [h] at hp
    simp only [hp, if_true]
    cases hcs : canSpend style path s with
    | none => simp
    | some b =>
      cases b with
      | true =>
        refine ⟨fun _ => (canSpend_true style path s).mp hcs, by simp, by simp⟩
      | false =>
        cases hsa : allow.contains (Allowable.script s) with
        | true => simp only [if_true]; refine ⟨by simp, by simp, fun _ => by simpa using hsa⟩
        | false =>
          simp only [Bool.false_eq_true, if_false]
          cases hx : xpubLoop path s allow with
          | yes =>
            refine ⟨by simp, fun _ => ?_, by simp⟩
            obtain ⟨h1, h2⟩ := (xpubLoop_yes path s allow).mp hx
            exact ⟨hne, h1, h2⟩
          | no => simp
          | panic => simp
  · simp only [hp, if_false]
    cases hsa : allow.contains (Allowable.script s) with
    | true => simp only [if_true]; refine ⟨by simp, by simp, fun _ => by simpa using hsa⟩
    | false => cases chan <;> simp

/-- the theorem is not vacuous: a change output at path [7] (native style), an allowlisted xpub child and a listed
    script are classified as such; p2pkh to the own key with a path is a bogus destination -/
example :
    classify (outOfScript .native [] 1000 [7] (.addr .p2wpkh (.account [7])) none) = .wallet
    ∧ classify (outOfScript .native [.xpub 1] 1000 [7] (.addr .p2pkh (.xpub 1 [7])) none) = .xpubAllow
    ∧ classify (outOfScript .native [.script (.other 3)] 1000 [] (.other 3) none) = .scriptAllow
    ∧ classify (outOfScript .native [] 1000 [7] (.addr .p2pkh (.account [7])) none) = .bogusPath
    ∧ classify (outOfScript .native [] 1000 [] (.addr .p2wpkh (.account [7])) none) = .unknown := by decide

/-- an output as the request presents it: value, derivation path, script, and the channel found for its outpoint -/
structure OutDesc where
  value : Nat
  path : List Nat
  script : Script
  chan : Option ChanFacts

def OutDesc.facts (style : Style) (allow : List Allowable) (d : OutDesc) : Out :=
  outOfScript style allow d.value d.path d.script d.chan

/-- what the property allows an output of an accepted transaction to be -/
def OutDesc.PaysOk (style : Style) (allow : List Allowable) (d : OutDesc) : Prop :=
  (d.path ≠ [] ∧ PathFits style d.path ∧ SpendableForm d.script (.account d.path)) ∨
  .script d.script ∈ allow ∨
  (d.path ≠ [] ∧ d.path.any hardened = false ∧ ∃ j, .xpub j ∈ allow ∧ XpubForm d.script (xpubKey j d.path)) ∨
  (∃ c, d.chan = some c ∧ ChanOk (d.facts style allow) c)

theorem classify_channel (o : Out) (c : ChanFacts) (h : classify o = .channel c) : o.chan = some c := by
  unfold classify at h
  split at h
  · split at h <;> try cases h
    split at h <;> try cases h
    split at h <;> cases h
  · split at h
    · cases h
    · split at h
      · rename_i c' hc; cases h; exact hc
      · cases h

/-- **C08 (value, at the level of scripts)**: when `validate_onchain_tx` returns `Ok` under a strict filter, every output
    pays a segwit form of the node's own key at its path, a listed script, a child of an allowlisted extended key, or is
    the funding output of a validated channel — and the fee bound of `C08_value` holds -/
theorem C08_value_scripts (p : Policy) (r : Req) (w nb : Nat) (hs : p.flt.Strict) (hdev : p.devDisable = false)
    (style : Style) (allow : List Allowable) (ds : List OutDesc) (hr : r.outs = ds.map (OutDesc.facts style allow))
    (h : validateOnchain p r w = .ok nb) :
    (∀ d ∈ ds, d.PaysOk style allow) ∧ 0 < w ∧ (nb * 1000 + 999) / w ≤ p.maxFeerate := by
  obtain ⟨hacc, _, _, hw, hq⟩ := C08_value p r w nb hs hdev h
  refine ⟨?_, hw, hq⟩
  intro d hd
  have ha : Accepted (d.facts style allow) := hacc _ (by rw [hr]; exact List.mem_map_of_mem hd)
  have hc := C08_credited_scripts style allow d.value d.path d.script d.chan
  unfold Accepted at ha
  unfold OutDesc.PaysOk
  cases hcl : classify (d.facts style allow) with
  | wallet => exact Or.inl (hc.1 hcl)
  | xpubAllow => exact Or.inr (Or.inr (Or.inl (hc.2.1 hcl)))
  | scriptAllow => exact Or.inr (Or.inl (hc.2.2 hcl))
  | channel c =>
    rw [hcl] at ha
    exact Or.inr (Or.inr (Or.inr ⟨c, classify_channel _ c hcl, ha⟩))
  | unknown => rw [hcl] at ha; exact absurd ha (by simp)
  | bogusPath => rw [hcl] at ha; exact absurd ha (by simp)
  | fault => rw [hcl] at ha; exact absurd ha (by simp)

/-- not vacuous: a change output to the own key at path [7] and a listed script, with a 1000 sat fee -/
example : validateOnchain ⟨333333, false, Filter.default⟩
    ⟨2, 100, 437, 1, [true], [101000], [], 2,
      [(⟨60000, [7], .addr .p2wpkh (.account [7]), none⟩ : OutDesc).facts .native [.script (.other 3)],
       (⟨40000, [], .other 3, none⟩ : OutDesc).facts .native [.script (.other 3)]]⟩ 437 = .ok 1000 := by decide

end WalletLogic

end VlsModel.Props.C08
