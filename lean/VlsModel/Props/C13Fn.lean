import VlsModel.Model.Tracker
import VlsModel.Props.C13
import VlsModel.Gen.FnTrackerC13
import VlsModel.Gen.FnTrackerWatch
import VlsModel.Lemmas.FnGen
/-
C13 — the deciding core of the chain tracker proved equal to the function bodies that `translate/rs2lean.py`
regenerates from `vls-core/src/chain/tracker.rs` on every run (`Gen/FnTrackerC13.lean`, targets
`translate/fn_targets/TrackerC13.b1315.json`):

  `ChainTracker::{validate_block, maybe_finish_decoding_block, do_add_block, do_remove_block}`.

Shape of the ties.  The generated bodies are polymorphic in the library types (`BlockHash`, `Target`, `FilterHeader`, the
listener type …) and take the library operations as explicit parameters (`ext_…`: block hash, target of the compact
bits, `validate_pow`, `max_target`, `validate_retarget`, the validator's `validate_block`, `TxoProof::filter_header`,
`BlockDecoder::finish`, the effect of `notify_listeners_add/remove` on the listener map, `DIFFCHANGE_INTERVAL`,
`MAX_REORG_SIZE`).  The model of `Model/Tracker.lean` is the instance in which a header is `(hash, prev, bits, time,
powOk)`, a filter header a number (`0` = all zero bytes) and a proof `(type, verifyOk, attested keys, …)`: `toGenHdr`,
`toGenHs`, `toGenProof`, `toGen` embed the model's values (injectively on headers, which the window check of
`do_remove_block` compares), `Ext` instantiates the externals with the model's own functions (`targetOfBits`,
`maxTarget`, `validateRetarget`, `proofOk` on the trusted keys **the generated code passes**, `mapListeners`), and the
theorems say: on these values the generated function *is* the model function — same outcome (`ok` / which error /
panic), same new tracker.

What the ties do not say: (1) the translator's outcome monad drops the state on `Err`, so "a refused request leaves the
tracker as it was" is a statement about the model (`C13_atomic_*`, `C13_reject_*` in `Props/C13.lean`) and about the
implementation through the correspondence harness — the generated `add_block` wrapper (which inspects the state after
an `Err`) is outside the translator's subset; (2) `u32` overflow of `height + 1` / `time + 20 min` is not in the model
(`Nat`): the ties carry `height + 1 ≤ u32::MAX`, `time + 1200 ≤ u32::MAX` as hypotheses; (3) `BlockDecoder::finish` is
assumed to succeed (the model has whole blocks only); its failure is `C13_fn_maybe_finish_decoder_error`.
-/
namespace VlsModel.Props.C13Fn
open VlsModel VlsModel.Tracker VlsModel.Monitor VlsModel.Gen.Chain
open VlsModel.Gen.FnTrackerC13 (ChainTracker BlockHeader BlockDecodeState ProofType TxoProof SpvProof ListenSlot)

abbrev GNet := Gen.FnTrackerC13.Network
/-- generated header with `BlockHash = CompactTarget = TxMerkleNode = Nat`, `Version = Bool` -/
abbrev GHdr := BlockHeader Nat Nat Bool Nat
abbrev GHs := GHdr × Nat
abbrev GProof := TxoProof Tx Unit
abbrev GTracker := ChainTracker Unit Nat Unit Nat Nat Bool Nat Nat Nat Listener

def toGenNet : Tracker.Network → GNet
  | .testnet => .Testnet
  | .regtest => .Regtest
  | .bitcoin => .Bitcoin

/-- `Signet` has no counterpart in the model (`max_target` treats it like mainnet); never reached from `toGenNet` -/
def ofGenNet : GNet → Tracker.Network
  | .Testnet => .testnet
  | .Regtest => .regtest
  | _ => .bitcoin

@[simp] theorem ofGen_toGenNet (n : Tracker.Network) : ofGenNet (toGenNet n) = n := by cases n <;> rfl

/-- the model header inside the six rust-bitcoin fields: the hash sits in `merkle_root`, `powOk` in `version`
    (an injective embedding: the code compares whole headers) -/
def toGenHdr (h : Header) : GHdr :=
  { version := h.powOk, prev_blockhash := h.prev, merkle_root := h.hash, time := h.time, bits := h.bits, nonce := 0 }

def ofGenHdr (g : GHdr) : Header := ⟨g.merkle_root, g.prev_blockhash, g.bits, g.time, g.version⟩

@[simp] theorem ofGen_toGenHdr (h : Header) : ofGenHdr (toGenHdr h) = h := rfl

theorem toGenHdr_inj {a b : Header} (h : toGenHdr a = toGenHdr b) : a = b := by
  have := congrArg ofGenHdr h; simpa using this

def toGenHs (h : Headers) : GHs := (toGenHdr h.hdr, h.fh)

theorem toGenHs_inj {a b : Headers} (h : toGenHs a = toGenHs b) : a = b := by
  cases a; cases b
  simp only [toGenHs, Prod.mk.injEq] at h
  obtain ⟨h1, h2⟩ := h
  simp only [Headers.mk.injEq]
  exact ⟨toGenHdr_inj h1, h2⟩

def toGenProof (p : Proof) : GProof :=
  { proof := match p.ptype with
      | .filter => .Filter [] { txs := p.txs }
      | .block => .Block ()
      | .external => .ExternalBlock }

def toGenLs (ls : List (Nat × Listener)) : List (Nat × (Listener × ListenSlot)) :=
  ls.map fun kl => (kl.1, (kl.2, ListenSlot.mk))

def ofGenLs (ls : List (Nat × (Listener × ListenSlot))) : List (Nat × Listener) :=
  ls.map fun kl => (kl.1, kl.2.1)

@[simp] theorem ofGen_toGenLs (ls : List (Nat × Listener)) : ofGenLs (toGenLs ls) = ls := by
  induction ls with
  | nil => rfl
  | cons a t ih => simp only [ofGenLs, toGenLs, List.map_cons, List.map_map] at ih ⊢; simp [ih]

/-- the tracker fields of the code (`ldec`, the monitors' own decode state, lives behind the listeners) -/
def toGen (t : Tracker) : GTracker :=
  { headers := t.headers.map toGenHs, tip := toGenHs t.tip, height := t.height, network := toGenNet t.network,
    listeners := toGenLs t.listeners, node_id := 0, validator_factory := (),
    decode_state := t.decoding.map fun h => { decoder := (), block_hash := h },
    trusted_oracle_pubkeys := t.trusted, allow_deep_reorgs := t.allowDeep }

def tag : ErrKind → String
  | .invalidChain => "Error::InvalidChain"
  | .orphan => "Error::OrphanBlock"
  | .invalidBlock => "Error::InvalidBlock"
  | .decodeError => "Error::BlockDecodeError"
  | .reorgTooDeep => "Error::ReorgTooDeep"
  | .invalidProof => "Error::InvalidProof"

/-- outcome of a checking function: `none` = accepted -/
def encOpt : Option ErrKind → Rs.M Unit
  | none => .ok ()
  | some e => .error (.err (tag e))

/-! ### the externals, instantiated with the model's functions -/

def xBlockHash (g : GHdr) : Nat := g.merkle_root
def xTarget (g : GHdr) : Nat := targetOfBits g.bits
def xValidatePow (g : GHdr) (_t : Nat) : Option Nat := if g.version then some g.merkle_root else none
def xMaxTarget (n : GNet) : Nat := maxTarget (ofGenNet n)
def xRetarget (pt t : Nat) (n : GNet) : Rs.M Unit := encOpt (validateRetarget pt t (ofGenNet n))
/-- `validator.validate_block(proof, …, &self.trusted_oracle_pubkeys)`: `TxoProof::verify` and the oracle majority over
    the trusted keys it is handed -/
def xValidate (p : Proof) (_v : Unit) (_pr : GProof) (_h : Nat) (_hdr : GHdr) (_e : Option Nat) (_f : Nat)
    (_w : List Unit) (trusted : List Nat) : Option Bool := if proofOk trusted p then some true else none
def xIsExternal (pt : ProofType Tx Unit) : Bool := match pt with | .ExternalBlock => true | _ => false
def xFinish (_d : Unit) : Option Bool := some true
/-- `proof.filter_header()`: panics without attestations / with inconsistent ones -/
def xFilterHeader (p : Proof) (_pr : GProof) : Rs.M Nat :=
  if p.attested.isEmpty || !p.fhConsistent then .error .panic else .ok p.fh
def encLs : Option (List (Nat × Listener)) → Rs.M (List (Nat × (Listener × ListenSlot)))
  | none => .error .panic
  | some ls => .ok (toGenLs ls)
/-- `notify_listeners_add`: every listener sees the transactions (of the proof, or — `None` — of the stream) -/
def xAfterAdd (p : Proof) (ls : List (Nat × (Listener × ListenSlot))) (txs : Option (List Tx)) (_h : Nat) :
    Rs.M (List (Nat × (Listener × ListenSlot))) :=
  encLs (mapListeners (·.add (txs.getD p.txs)) (ofGenLs ls))
def xAfterRemove (p : Proof) (ls : List (Nat × (Listener × ListenSlot))) (txs : Option (List Tx)) (_h : Nat) :
    Rs.M (List (Nat × (Listener × ListenSlot))) :=
  encLs (mapListeners (·.remove (txs.getD p.txs)) (ofGenLs ls))

/-- the generated `validate_block` on the model's instance; `bytes` is any encoding of filter headers whose all-zero
    value is exactly `0` -/
def gValidate (bytes : Nat → List Nat) (p : Proof) (t : GTracker) (height : Nat) (ebh : Option Nat) (prev cur : GHs)
    (isRemove : Bool) : Rs.M Unit :=
  ChainTracker.validate_block (Txid := Unit) (OutPoint := Unit) (Validator := Unit)
    (ext_BlockHeader_block_hash := xBlockHash) (ext_BlockHeader_target := xTarget)
    (ext_BlockHeader_validate_pow := xValidatePow) (ext_max_target := xMaxTarget)
    (ext_self_get_all_reverse_watches := ([], [])) (ext_self_get_all_forward_watches := ([], []))
    (ext_validator_factory_make_validator := fun _ _ _ => ()) (ext_FilterHeader_to_byte_array := bytes)
    (ext_Validator_validate_block := xValidate p) (ext_diffchange_interval := diffchangeInterval)
    (ext_validate_retarget := xRetarget) t height ebh prev cur (toGenProof p) isRemove

theorem toGenNet_testnet (n : Tracker.Network) : (toGenNet n == Gen.FnTrackerC13.Network.Testnet) = decide (n = .testnet) := by
  cases n <;> rfl

theorem toGenNet_ne_testnet (n : Tracker.Network) : (toGenNet n != Gen.FnTrackerC13.Network.Testnet) = decide (n ≠ .testnet) := by
  cases n <;> rfl

/-- **`ChainTracker::validate_block` = `Tracker.validateBlock`**: link, proof of work, the testnet 20-minute
    exception, retarget at `(height + 1) % DIFFCHANGE_INTERVAL == 0` / constant bits otherwise, the zero-filter-header
    bypass, and the proof check with **the tracker's own trusted oracle keys** — in this order, with these errors. -/
theorem C13_fn_validate_block (bytes : Nat → List Nat) (hb : ∀ f, (bytes f).all (fun x => x == 0) = (f == 0))
    (t : Tracker) (height : Nat) (ebh : Option Nat) (prev cur : Headers) (p : Proof) (isRemove : Bool)
    (hh : height + 1 ≤ Rs.U32_MAX) (ht : prev.hdr.time + 1200 ≤ Rs.U32_MAX) :
    gValidate bytes p (toGen t) height ebh (toGenHs prev) (toGenHs cur) isRemove
      = encOpt (validateBlock t height prev cur p) := by
  unfold gValidate ChainTracker.validate_block validateBlock headerCheck
  simp only [toGenHs, toGenHdr, toGen, xBlockHash, xTarget, xValidatePow, xMaxTarget, ofGen_toGenNet, hb,
    toGenNet_testnet, toGenNet_ne_testnet]
  have hu : Rs.uadd Rs.U32_MAX height 1 = .ok (height + 1) := by unfold Rs.uadd; rw [if_pos hh]; rfl
  have hu2 : Rs.uadd Rs.U32_MAX prev.hdr.time 1200 = .ok (prev.hdr.time + 1200) := by
    unfold Rs.uadd; rw [if_pos ht]; rfl
  have hr : Rs.urem (height + 1) diffchangeInterval = .ok ((height + 1) % diffchangeInterval) := by
    unfold Rs.urem; rw [if_neg (by decide)]; rfl
  simp only [hu, hu2, hr, Rs.bind_ok, Rs.pure_eq]
  by_cases h1 : cur.hdr.prev = prev.hdr.hash
  · simp only [h1, bne_self_eq_false, Bool.false_eq_true, if_false, ne_eq, not_true_eq_false]
    by_cases hp : cur.hdr.powOk = true
    · have hgap : testnetMinDifficultyGap = 1200 := rfl
      simp only [hp, if_true, Rs.okOr, Rs.bind_ok, Rs.pure_eq, Bool.not_true, Bool.false_eq_true, if_false, hgap,
        xRetarget, xValidate, ofGen_toGenNet]
      generalize validateRetarget (targetOfBits prev.hdr.bits) (targetOfBits cur.hdr.bits) t.network = vr
      cases vr <;>
      by_cases hn : t.network = .testnet <;>
      by_cases htg : targetOfBits cur.hdr.bits = maxTarget t.network <;>
      by_cases htime : cur.hdr.time > prev.hdr.time + 1200 <;>
      by_cases hre : (height + 1) % diffchangeInterval = 0 <;>
      by_cases hbits : cur.hdr.bits = prev.hdr.bits <;>
      by_cases hfh : prev.fh = 0 <;>
      cases hpo : proofOk t.trusted p <;>
      (try simp_all [encOpt, tag, Rs.fail, Rs.okOr]) <;>
      (try (split <;> (try simp_all) <;> (try omega)))
    · have hp' : cur.hdr.powOk = false := by simpa using hp
      simp [hp', Rs.okOr, Rs.fail, encOpt, tag]
  · have : (cur.hdr.prev != prev.hdr.hash) = true := by simpa using h1
    simp [this, h1, Rs.fail, encOpt, tag]

/-! ### `maybe_finish_decoding_block` -/

theorem xIsExternal_toGen (p : Proof) : xIsExternal (toGenProof p).proof = (p.ptype == .external) := by
  unfold toGenProof xIsExternal
  cases p.ptype <;> rfl

def gMaybeFinish (t : GTracker) (p : Proof) (expected : Nat) : Rs.M GTracker :=
  ChainTracker.maybe_finish_decoding_block (ext_proof_is_external := xIsExternal) (ext_BlockDecoder_finish := xFinish)
    t (toGenProof p) expected

/-- `none` = the `assert_eq!` fails; an error loses the state (see the header) -/
def encFinish : Option (Tracker × Option ErrKind) → Rs.M GTracker
  | none => .error .panic
  | some (t1, none) => .ok (toGen t1)
  | some (_, some e) => .error (.err (tag e))

/-- **`maybe_finish_decoding_block` = `Tracker.maybeFinish`**: the external-proof / decode-state `assert_eq!`, the
    decode state taken, the announced hash compared with the expected one. -/
theorem C13_fn_maybe_finish (t : Tracker) (p : Proof) (expected : Nat) :
    gMaybeFinish (toGen t) p expected = encFinish (maybeFinish t p expected) := by
  unfold gMaybeFinish ChainTracker.maybe_finish_decoding_block maybeFinish
  simp only [xIsExternal_toGen]
  cases hd : t.decoding with
  | none =>
    cases hpt : (p.ptype == PType.external)
    · simp [toGen, hd, Rs.assert, encFinish]
    · simp [toGen, hd, Rs.assert, encFinish, Rs.panic]
  | some h =>
    cases hpt : (p.ptype == PType.external)
    · simp [toGen, hd, Rs.assert, encFinish, Rs.panic]
    · by_cases he : h = expected
      · simp [toGen, hd, Rs.assert, encFinish, xFinish, Rs.okOr, he]
      · simp [toGen, hd, Rs.assert, encFinish, xFinish, Rs.okOr, he, Rs.fail, tag]

/-- the state `maybe_finish_decoding_block` leaves: the decode state is gone, nothing else changed -/
theorem maybeFinish_state {t t1 : Tracker} {p : Proof} {e : Nat} {oe : Option ErrKind}
    (h : maybeFinish t p e = some (t1, oe)) : t1 = { t with decoding := none } := by
  unfold maybeFinish at h
  split at h
  · cases h
  · cases hd : t.decoding with
    | none =>
      simp only [hd, Option.some.injEq, Prod.mk.injEq] at h
      obtain ⟨h1, _⟩ := h
      subst h1
      cases t; simp_all
    | some x =>
      simp only [hd, Option.some.injEq, Prod.mk.injEq] at h
      exact h.1.symm

/-- a failing `BlockDecoder::finish` (never produced by the model's whole-block streams) is a `BlockDecodeError` -/
theorem C13_fn_maybe_finish_decoder_error (t : Tracker) (p : Proof) (expected h : Nat)
    (hd : t.decoding = some h) (hx : p.ptype = .external) :
    ChainTracker.maybe_finish_decoding_block (ext_proof_is_external := xIsExternal)
      (ext_BlockDecoder_finish := fun (_ : Unit) => none) (toGen t) (toGenProof p) expected
      = .error (.err "Error::BlockDecodeError") := by
  unfold ChainTracker.maybe_finish_decoding_block
  simp [xIsExternal_toGen, hx, toGen, hd, Rs.assert, Rs.okOr, Rs.fail]

/-! ### `do_add_block` -/

def gDoAdd (bytes : Nat → List Nat) (p : Proof) (t : GTracker) (hdr : GHdr) : Rs.M GTracker :=
  ChainTracker.do_add_block (Txid := Unit) (OutPoint := Unit) (Validator := Unit)
    (ext_BlockHeader_block_hash := xBlockHash) (ext_proof_is_external := xIsExternal)
    (ext_BlockDecoder_finish := xFinish) (ext_TxoProof_filter_header := xFilterHeader p)
    (ext_BlockHeader_target := xTarget)
    (ext_BlockHeader_validate_pow := xValidatePow) (ext_max_target := xMaxTarget)
    (ext_self_get_all_reverse_watches := ([], [])) (ext_self_get_all_forward_watches := ([], []))
    (ext_validator_factory_make_validator := fun _ _ _ => ()) (ext_FilterHeader_to_byte_array := bytes)
    (ext_Validator_validate_block := xValidate p) (ext_diffchange_interval := diffchangeInterval)
    (ext_validate_retarget := xRetarget) (ext_listeners_after_add := xAfterAdd p)
    (ext_max_reorg_size := maxReorgSize) t hdr (toGenProof p)

/-- outcome of a request: the new tracker on `ok`, the error kind, or a panic (the state after an `Err` is not part
    of the translator's outcome monad) -/
def encOut : Tracker × Out → Rs.M GTracker
  | (t', .ok) => .ok (toGen t')
  | (_, .err e) => .error (.err (tag e))
  | (_, .panic) => .error .panic

/-- **`ChainTracker::do_add_block` = `Tracker.doAddBlock`**: finish the stream (hash of the message header), take the
    filter header of the proof, `validate_block` at `self.height` on top of `self.tip`, refuse `ProofType::Block`,
    notify the listeners, then — and only then — `headers.truncate(MAX_REORG_SIZE - 1)`, `push_front(tip)`, new tip,
    `height += 1`. -/
theorem C13_fn_do_add_block (bytes : Nat → List Nat) (hb : ∀ f, (bytes f).all (fun x => x == 0) = (f == 0))
    (t : Tracker) (hdr : Header) (p : Proof)
    (hh : t.height + 1 ≤ Rs.U32_MAX) (ht : t.tip.hdr.time + 1200 ≤ Rs.U32_MAX) :
    gDoAdd bytes p (toGen t) (toGenHdr hdr) = encOut (doAddBlock t hdr p) := by
  unfold gDoAdd ChainTracker.do_add_block doAddBlock
  have hmf := C13_fn_maybe_finish t p hdr.hash
  unfold gMaybeFinish at hmf
  have hbh : xBlockHash (toGenHdr hdr) = hdr.hash := rfl
  rw [hbh]
  simp only []
  rw [hmf]
  cases hm : maybeFinish t p hdr.hash with
  | none => rfl
  | some r =>
    obtain ⟨t1, oe⟩ := r
    have ht1 := maybeFinish_state hm
    cases oe with
    | some e => rfl
    | none =>
      simp only [encFinish, Rs.bind_ok]
      by_cases hfh : (p.attested.isEmpty || !p.fhConsistent) = true
      · simp only [xFilterHeader, hfh, if_true]
        rfl
      · simp only [xFilterHeader, hfh, if_false, Rs.bind_ok, Bool.false_eq_true]
        have hh1 : t1.height + 1 ≤ Rs.U32_MAX := by rw [ht1]; exact hh
        have ht1' : t1.tip.hdr.time + 1200 ≤ Rs.U32_MAX := by rw [ht1]; exact ht
        have hv := C13_fn_validate_block bytes hb t1 t1.height
          (if xIsExternal (toGenProof p).proof then some hdr.hash else none) t1.tip ⟨hdr, p.fh⟩ p false hh1 ht1'
        unfold gValidate at hv
        have hcur : ((toGenHdr hdr, p.fh) : GHs) = toGenHs ⟨hdr, p.fh⟩ := rfl
        have htip : (toGen t1).tip = toGenHs t1.tip := rfl
        have hhe : (toGen t1).height = t1.height := rfl
        rw [hcur, htip, hhe, hv]
        cases hvb : validateBlock t1 t1.height t1.tip ⟨hdr, p.fh⟩ p with
        | some e => rfl
        | none =>
          simp only [encOpt, Rs.bind_ok]
          have hsub : Rs.usub maxReorgSize 1 = .ok (maxReorgSize - 1) := rfl
          have hadd : Rs.uadd Rs.U32_MAX t1.height 1 = .ok (t1.height + 1) := by
            unfold Rs.uadd; rw [if_pos hh1]; rfl
          have hls : ofGenLs (toGen t1).listeners = t1.listeners := ofGen_toGenLs _
          cases hpt : p.ptype with
          | block => simp [toGenProof, hpt, Rs.fail, encOut, tag]
          | filter =>
            simp only [toGenProof, hpt, xAfterAdd, hls, Option.getD_some]
            cases hml : mapListeners (fun x => x.add p.txs) t1.listeners with
            | none => simp [encLs, encOut]
            | some ls =>
              simp only [encLs, Rs.bind_ok, hsub, hhe, hadd, Rs.pure_eq, encOut]
              simp [toGen, List.map_take]
          | external =>
            simp only [toGenProof, hpt, xAfterAdd, hls, Option.getD_none]
            cases hml : mapListeners (fun x => x.add p.txs) t1.listeners with
            | none => simp [encLs, encOut]
            | some ls =>
              simp only [encLs, Rs.bind_ok, hsub, hhe, hadd, Rs.pure_eq, encOut]
              simp [toGen, List.map_take]

/-! ### `do_remove_block` -/

def gDoRemove (bytes : Nat → List Nat) (p : Proof) (t : GTracker) (prev : GHs) : Rs.M (GTracker × GHdr) :=
  ChainTracker.do_remove_block (Txid := Unit) (OutPoint := Unit) (Validator := Unit)
    (ext_BlockHeader_block_hash := xBlockHash) (ext_proof_is_external := xIsExternal)
    (ext_BlockDecoder_finish := xFinish)
    (ext_BlockHeader_target := xTarget)
    (ext_BlockHeader_validate_pow := xValidatePow) (ext_max_target := xMaxTarget)
    (ext_self_get_all_reverse_watches := ([], [])) (ext_self_get_all_forward_watches := ([], []))
    (ext_validator_factory_make_validator := fun _ _ _ => ()) (ext_FilterHeader_to_byte_array := bytes)
    (ext_Validator_validate_block := xValidate p) (ext_diffchange_interval := diffchangeInterval)
    (ext_validate_retarget := xRetarget) (ext_listeners_after_remove := xAfterRemove p)
    t (toGenProof p) prev

/-- `remove_block` returns the header of the removed tip -/
def encOutR (old : Header) : Tracker × Out → Rs.M (GTracker × GHdr)
  | (t', .ok) => .ok (toGen t', toGenHdr old)
  | (_, .err e) => .error (.err (tag e))
  | (_, .panic) => .error .panic

theorem toGenHdr_bne (a b : Header) : (toGenHdr a != toGenHdr b) = (a != b) := by
  by_cases h : a = b
  · subst h; simp
  · have h2 : toGenHdr a ≠ toGenHdr b := fun e => h (toGenHdr_inj e)
    rw [bne_iff_ne.mpr h, bne_iff_ne.mpr h2]

/-- **`ChainTracker::do_remove_block` = `Tracker.doRemoveBlock`** for a tracker above height 0: the reorg-depth guard
    (`ReorgTooDeep` unless `allow_deep_reorgs`), the supplied previous block and filter headers compared with the
    remembered ones, the stream finished against **the tip's** hash, `validate_block` at `height - 1` of the tip on top
    of the supplied previous headers, listeners notified, and only then the window popped, the tip replaced and the
    height decremented; the removed tip's header is returned. -/
theorem C13_fn_do_remove_block (bytes : Nat → List Nat) (hb : ∀ f, (bytes f).all (fun x => x == 0) = (f == 0))
    (t : Tracker) (p : Proof) (prev : Headers)
    (hpos : 0 < t.height) (hh : t.height ≤ Rs.U32_MAX) (ht : prev.hdr.time + 1200 ≤ Rs.U32_MAX) :
    gDoRemove bytes p (toGen t) (toGenHs prev) = encOutR t.tip.hdr (doRemoveBlock t p prev) := by
  unfold gDoRemove ChainTracker.do_remove_block doRemoveBlock doRemoveBlock.removeCore
  have hmf := C13_fn_maybe_finish t p t.tip.hdr.hash
  unfold gMaybeFinish at hmf
  have hbh : xBlockHash (toGen t).tip.1 = t.tip.hdr.hash := rfl
  have hexp : (if removeExpectsTipHash = true then t.tip.hdr.hash else prev.hdr.hash) = t.tip.hdr.hash := rfl
  rw [hbh, hexp]
  simp only []
  rw [hmf]
  have hgh : (toGen t).headers = t.headers.map toGenHs := rfl
  have had : (toGen t).allow_deep_reorgs = t.allowDeep := rfl
  rw [hgh, had]
  cases hhs : t.headers with
  | nil =>
    cases hd : t.allowDeep
    · simp [encOutR, Rs.fail, tag]
    · simp only [List.map_nil, List.isEmpty_nil, if_true, Bool.not_true, Bool.false_eq_true, if_false,
        Bool.and_false]
      cases hm : maybeFinish t p t.tip.hdr.hash with
      | none => rfl
      | some r =>
        obtain ⟨t1, oe⟩ := r
        have ht1 := maybeFinish_state hm
        cases oe with
        | some e => rfl
        | none =>
          simp only [encFinish, Rs.bind_ok]
          have hhe : (toGen t1).height = t1.height := rfl
          have hteq : t1.height = t.height := by rw [ht1]
          have htip1 : t1.tip = t.tip := by rw [ht1]
          have hhd1 : t1.headers = t.headers := by rw [ht1]
          have h1pos : 1 ≤ t1.height := by omega
          have hsub : Rs.usub t1.height 1 = .ok (t1.height - 1) := by unfold Rs.usub; rw [if_pos h1pos]; rfl
          have hne : ¬ t1.height = 0 := by omega
          rw [hhe, hsub]
          simp only [Rs.bind_ok, hne, if_false]
          have hv := C13_fn_validate_block bytes hb t1 (t1.height - 1)
            (if xIsExternal (toGenProof p).proof then some t.tip.hdr.hash else none) prev t1.tip p true (by omega) ht
          unfold gValidate at hv
          have htip : (toGen t1).tip = toGenHs t1.tip := rfl
          rw [htip, hv]
          cases hvb : validateBlock t1 (t1.height - 1) prev t1.tip p with
          | some e => rfl
          | none =>
            simp only [encOpt, Rs.bind_ok]
            have hls : ofGenLs (toGen t1).listeners = t1.listeners := ofGen_toGenLs _
            cases hpt : p.ptype with
            | block => simp [toGenProof, hpt, Rs.fail, encOutR, tag]
            | filter =>
              simp only [toGenProof, hpt, xAfterRemove, hls, Option.getD_some]
              cases hml : mapListeners (fun x => x.remove p.txs) t1.listeners with
              | none => simp [encLs, encOutR]
              | some ls =>
                simp only [encLs, Rs.bind_ok, hsub, hhe, Rs.pure_eq, encOutR]
                simp [toGen, toGenHs, htip1, hhd1, hhs]
            | external =>
              simp only [toGenProof, hpt, xAfterRemove, hls, Option.getD_none]
              cases hml : mapListeners (fun x => x.remove p.txs) t1.listeners with
              | none => simp [encLs, encOutR]
              | some ls =>
                simp only [encLs, Rs.bind_ok, hsub, hhe, Rs.pure_eq, encOutR]
                simp [toGen, toGenHs, htip1, hhd1, hhs]
  | cons h0 rest =>
    simp only [List.map_cons, List.isEmpty_cons, Bool.false_eq_true, if_false, Bool.not_false, if_true,
      Bool.false_and, Rs.index, List.getElem?_cons_zero, Rs.pure_eq, Rs.bind_ok, toGenHs, toGenHdr_bne]
    by_cases e1 : prev.hdr = h0.hdr
    · by_cases e2 : prev.fh = h0.fh
      · simp only [e1, e2, bne_self_eq_false, Bool.false_eq_true, if_false, ne_eq, not_true_eq_false]
        rw [← e1, ← e2]
        have hprev : ((toGenHdr prev.hdr, prev.fh) : GHs) = toGenHs prev := rfl
        rw [hprev]
        cases hm : maybeFinish t p t.tip.hdr.hash with
        | none => rfl
        | some r =>
          obtain ⟨t1, oe⟩ := r
          have ht1 := maybeFinish_state hm
          cases oe with
          | some e => rfl
          | none =>
            simp only [encFinish, Rs.bind_ok]
            have hhe : (toGen t1).height = t1.height := rfl
            have hteq : t1.height = t.height := by rw [ht1]
            have htip1 : t1.tip = t.tip := by rw [ht1]
            have hhd1 : t1.headers = t.headers := by rw [ht1]
            have h1pos : 1 ≤ t1.height := by omega
            have hsub : Rs.usub t1.height 1 = .ok (t1.height - 1) := by unfold Rs.usub; rw [if_pos h1pos]; rfl
            have hne : ¬ t1.height = 0 := by omega
            rw [hhe, hsub]
            simp only [Rs.bind_ok, hne, if_false]
            have hv := C13_fn_validate_block bytes hb t1 (t1.height - 1)
              (if xIsExternal (toGenProof p).proof then some t.tip.hdr.hash else none) prev t1.tip p true (by omega) ht
            unfold gValidate at hv
            have htip : (toGen t1).tip = toGenHs t1.tip := rfl
            rw [htip, hv]
            cases hvb : validateBlock t1 (t1.height - 1) prev t1.tip p with
            | some e => rfl
            | none =>
              simp only [encOpt, Rs.bind_ok]
              have hls : ofGenLs (toGen t1).listeners = t1.listeners := ofGen_toGenLs _
              cases hpt : p.ptype with
              | block => simp [toGenProof, hpt, Rs.fail, encOutR, tag]
              | filter =>
                simp only [toGenProof, hpt, xAfterRemove, hls, Option.getD_some]
                cases hml : mapListeners (fun x => x.remove p.txs) t1.listeners with
                | none => simp [encLs, encOutR]
                | some ls =>
                  simp only [encLs, Rs.bind_ok, hsub, hhe, Rs.pure_eq, encOutR]
                  simp [toGen, toGenHs, htip1, hhd1, hhs]
              | external =>
                simp only [toGenProof, hpt, xAfterRemove, hls, Option.getD_none]
                cases hml : mapListeners (fun x => x.remove p.txs) t1.listeners with
                | none => simp [encLs, encOutR]
                | some ls =>
                  simp only [encLs, Rs.bind_ok, hsub, hhe, Rs.pure_eq, encOutR]
                  simp [toGen, toGenHs, htip1, hhd1, hhs]
      · have e2' : (prev.fh != h0.fh) = true := by simpa using e2
        simp [e1, e2, e2', encOutR, Rs.fail, tag]
    · have e1' : (prev.hdr != h0.hdr) = true := by simpa using e1
      simp [e1, e1', encOutR, Rs.fail, tag]

/-- at height 0 the model reports a panic after the stream was finished; the code's `self.height - 1` underflows there
    (panic in an overflow-checked build): neither accepts -/
theorem C13_fn_do_remove_block_height0 (t : Tracker) (p : Proof) (prev : Headers) (hz : t.height = 0) :
    (doRemoveBlock t p prev).2 ≠ .ok := by
  have key : (doRemoveBlock.removeCore t p prev).2 ≠ .ok := by
    unfold doRemoveBlock.removeCore
    split
    · simp
    · simp
    · rename_i t1 hm
      have ht1 := maybeFinish_state hm
      have h0 : t1.height = 0 := by rw [ht1]; exact hz
      simp [h0]
  unfold doRemoveBlock
  split
  · simp
  · split
    · split
      · simp
      · split
        · simp
        · exact key
    · exact key

/-! ### restart -/

/-- **`ChainTracker::restore_listener`** stores exactly the persisted entry — listener *and* the whole `ListenSlot`
    (`txid_watches`, `watches`, `seen`) — under the key: the watches a restarted signer validates proofs against
    (`get_all_forward/reverse_watches`) are the persisted ones. -/
theorem C13_fn_restore_listener {Key L PK VF BD BH CT V TM FH : Type} [DecidableEq Key]
    (t : Gen.FnTrackerC13.ChainTracker VF PK BD BH CT V TM FH Key L) (k : Key) (l : L)
    (slot : ListenSlot) :
    (t.restore_listener k l slot).listeners = Rs.omapInsert t.listeners k (l, slot) ∧
    (t.restore_listener k l slot).headers = t.headers ∧ (t.restore_listener k l slot).tip = t.tip ∧
    (t.restore_listener k l slot).height = t.height := ⟨rfl, rfl, rfl, rfl⟩

/-! ### non-vacuity -/

/-- the hypothesis on the filter-header encoding is satisfiable -/
example : ∀ f : Nat, ((fun f => [f]) f).all (fun x => x == 0) = (f == 0) := by intro f; simp

open VlsModel.Props.C13 in
/-- an accepted block through the generated `do_add_block` (2 of 3 trusted oracles), a refused one (1 of 3) -/
example :
    (gDoAdd (fun f => [f]) (exProof [1, 2]) (toGen exTracker) (toGenHdr exHeader)).toOption.map (·.height) = some 6 ∧
    gDoAdd (fun f => [f]) (exProof [1, 9]) (toGen exTracker) (toGenHdr exHeader)
      = .error (.err "Error::InvalidProof") := by
  rw [C13_fn_do_add_block _ (by intro f; simp) _ _ _ (by decide) (by decide),
      C13_fn_do_add_block _ (by intro f; simp) _ _ _ (by decide) (by decide)]
  exact ⟨by decide, rfl⟩

open VlsModel.Props.C13 in
/-- an accepted removal through the generated `do_remove_block`: the window is popped, the height decremented -/
example :
    (gDoRemove (fun f => [f]) (exProof [2, 3]) (toGen exTracker) (toGenHs ⟨⟨9, 8, 1, 0, true⟩, 2⟩)).toOption.map
      (fun r => (r.1.height, r.1.headers.length)) = some (4, 0) := by
  rw [C13_fn_do_remove_block _ (by intro f; simp) _ _ _ (by decide) (by decide) (by decide)]
  decide

/-! ### round 10 (b6): `set_allow_deep_reorgs`, `abort_streamed_block`, `tip_time`, the default `on_streamed_block_abort`
(targets `translate/fn_targets/TrackerC13.b6.json`, merged into the area `TrackerC13`) -/

/-- `ChainTracker::set_allow_deep_reorgs` sets the flag and nothing else -/
theorem C13_fn_set_allow_deep_reorgs (t : Tracker) (b : Bool) :
    (toGen t).set_allow_deep_reorgs b = toGen { t with allowDeep := b } := rfl

/-- **`ChainTracker::abort_streamed_block`** (the second half of the `add_block` / `remove_block` wrappers, and the entry a
    front end calls when it gives up on a stream): the tracker's decode state is dropped, the listeners are told to drop
    theirs (the external: the loop's effect on the map; the monitors' `BlockDecodeState` is the model's `ldec`), and
    headers, tip, height, network, trusted oracles stay.  With the listeners' own state behind the listener this is the
    model's `{ decoding := none, ldec := false }`. -/
theorem C13_fn_abort_streamed_block (t : Tracker) :
    ChainTracker.abort_streamed_block (fun ls => ls) (toGen t) = toGen { t with decoding := none, ldec := false } := rfl

/-- the model's wrapper `abortIfStreamed` is the generated `abort_streamed_block` applied to the tracker `do_add_block` /
    `do_remove_block` left behind, exactly when that call failed with a stream in progress -/
theorem C13_fn_abort_if_streamed (t : Tracker) (r : Tracker × Out) (k : ErrKind) (hr : r.2 = .err k)
    (hs : t.decoding.isSome) :
    toGen (abortIfStreamed t r).1 = ChainTracker.abort_streamed_block (fun ls => ls) (toGen r.1) ∧
    (abortIfStreamed t r).2 = r.2 := by
  unfold abortIfStreamed
  rw [hr]
  simp only [hs, if_true]
  constructor <;> first | rfl | trivial

/-- whatever the listeners do on abort: no header, tip, height, network or oracle set changes, the stream is forgotten -/
theorem C13_fn_abort_streamed_block_frame {VF PK BD BH CT V TM FH Key L : Type}
    (f : List (Key × (L × ListenSlot)) → List (Key × (L × ListenSlot)))
    (t : Gen.FnTrackerC13.ChainTracker VF PK BD BH CT V TM FH Key L) :
    (t.abort_streamed_block f).decode_state = none ∧ (t.abort_streamed_block f).headers = t.headers ∧
    (t.abort_streamed_block f).tip = t.tip ∧ (t.abort_streamed_block f).height = t.height ∧
    (t.abort_streamed_block f).trusted_oracle_pubkeys = t.trusted_oracle_pubkeys ∧
    (t.abort_streamed_block f).listeners = f t.listeners := ⟨rfl, rfl, rfl, rfl, rfl, rfl⟩

/-- **`ChainTracker::tip_time`** reads `self.headers[0]`, the first header *behind* the tip (`do_add_block` pushes the old
    tip to the front of `headers` and stores the new block in `tip`): it is the timestamp of the tip's parent, and `0`
    while the window is empty (a tracker fresh from genesis / a checkpoint, or after a restart that kept no window) —
    not "the header timestamp of the current chain tip" its doc comment promises.  Never ahead of the tip's own time
    by the median-time rules, so a clock derived from it only lags.  Recorded in `notes/C13-C15.md`. -/
theorem C13_fn_tip_time {D : Type} (f : Nat → D) (t : Tracker) :
    (toGen t).tip_time f = .ok (f (match t.headers with | [] => 0 | h :: _ => h.hdr.time)) := by
  unfold ChainTracker.tip_time
  cases hh : t.headers with
  | nil => simp [toGen, hh]
  | cons h tl => simp [toGen, hh, Rs.index, toGenHs, toGenHdr]

/-- the tip's own time does not enter -/
theorem C13_fn_tip_time_ignores_tip {D : Type} (f : Nat → D) (t : Tracker) (tip' : Headers) :
    (toGen { t with tip := tip' }).tip_time f = (toGen t).tip_time f := by
  rw [C13_fn_tip_time, C13_fn_tip_time]

/-- the default `ChainListener::on_streamed_block_abort` does nothing (a listener without decode state) -/
theorem C13_fn_on_streamed_block_abort_default {S : Type} (x : S) :
    Gen.FnTrackerC13.ChainListener.on_streamed_block_abort x = () := rfl

open VlsModel.Props.C13 in
/-- non-vacuity: on the example tracker with a stream in progress the abort clears it; `tip_time` of a tracker whose
    window holds one header with time 77 is 77 whatever the tip says -/
example : (ChainTracker.abort_streamed_block (fun ls => ls) (toGen { exTracker with decoding := some 5 })).decode_state = none ∧
    (toGen { exTracker with headers := [⟨⟨9, 8, 1, 77, true⟩, 2⟩] }).tip_time (fun n => n) = .ok 77 := by
  refine ⟨rfl, ?_⟩
  rw [C13_fn_tip_time]

/-! ### which watch set reaches the validator (clause "proof verifies for all watched outpoints") -/

section WatchSet
variable {VF PK BD BH CT V TM FH Key L Tx' Blk Tg Txid OP Vd : Type} [DecidableEq BH] [DecidableEq Tg] [DecidableEq CT]
  (xh : Gen.FnTrackerC13.BlockHeader BH CT V TM → BH) (xt : Gen.FnTrackerC13.BlockHeader BH CT V TM → Tg)
  (xp : Gen.FnTrackerC13.BlockHeader BH CT V TM → Tg → Option BH) (xm : Gen.FnTrackerC13.Network → Tg)
  (xmk : VF → Gen.FnTrackerC13.Network → PK → Vd) (xb : FH → List Nat)
  (xv : Vd → TxoProof Tx' Blk → Nat → Gen.FnTrackerC13.BlockHeader BH CT V TM → Option BH → FH → List OP → List PK → Option Bool)
  (xd : Nat) (xr : Tg → Tg → Gen.FnTrackerC13.Network → Rs.M Unit)
  (t : Gen.FnTrackerC13.ChainTracker VF PK BD BH CT V TM FH Key L) (height : Nat) (ebh : Option BH)
  (prev cur : Gen.FnTrackerC13.BlockHeader BH CT V TM × FH) (proof : TxoProof Tx' Blk)

/-- **Adding a block, `validate_block` hands the validator the *forward* watches** (`get_all_forward_watches`): whatever
    `get_all_reverse_watches` returns does not enter the outcome, for every instance of the library functions.  (The externals
    are passed by name: the generated parameter order follows the order of first use in the source.) -/
theorem C13_fn_validate_block_add_uses_forward (rev1 rev2 fwd : List Txid × List OP) :
    ChainTracker.validate_block (ext_BlockHeader_block_hash := xh) (ext_BlockHeader_target := xt)
      (ext_BlockHeader_validate_pow := xp) (ext_max_target := xm) (ext_self_get_all_reverse_watches := rev1)
      (ext_self_get_all_forward_watches := fwd) (ext_validator_factory_make_validator := xmk)
      (ext_FilterHeader_to_byte_array := xb) (ext_Validator_validate_block := xv) (ext_diffchange_interval := xd)
      (ext_validate_retarget := xr) t height ebh prev cur proof false =
    ChainTracker.validate_block (ext_BlockHeader_block_hash := xh) (ext_BlockHeader_target := xt)
      (ext_BlockHeader_validate_pow := xp) (ext_max_target := xm) (ext_self_get_all_reverse_watches := rev2)
      (ext_self_get_all_forward_watches := fwd) (ext_validator_factory_make_validator := xmk)
      (ext_FilterHeader_to_byte_array := xb) (ext_Validator_validate_block := xv) (ext_diffchange_interval := xd)
      (ext_validate_retarget := xr) t height ebh prev cur proof false := by
  unfold ChainTracker.validate_block
  simp only [Bool.false_eq_true, if_false]

/-- **Removing a block it hands it the *reverse* watches** (forward watches plus the outpoints seen spent): the forward
    set does not enter. -/
theorem C13_fn_validate_block_remove_uses_reverse (rev fwd1 fwd2 : List Txid × List OP) :
    ChainTracker.validate_block (ext_BlockHeader_block_hash := xh) (ext_BlockHeader_target := xt)
      (ext_BlockHeader_validate_pow := xp) (ext_max_target := xm) (ext_self_get_all_reverse_watches := rev)
      (ext_self_get_all_forward_watches := fwd1) (ext_validator_factory_make_validator := xmk)
      (ext_FilterHeader_to_byte_array := xb) (ext_Validator_validate_block := xv) (ext_diffchange_interval := xd)
      (ext_validate_retarget := xr) t height ebh prev cur proof true =
    ChainTracker.validate_block (ext_BlockHeader_block_hash := xh) (ext_BlockHeader_target := xt)
      (ext_BlockHeader_validate_pow := xp) (ext_max_target := xm) (ext_self_get_all_reverse_watches := rev)
      (ext_self_get_all_forward_watches := fwd2) (ext_validator_factory_make_validator := xmk)
      (ext_FilterHeader_to_byte_array := xb) (ext_Validator_validate_block := xv) (ext_diffchange_interval := xd)
      (ext_validate_retarget := xr) t height ebh prev cur proof true := by
  unfold ChainTracker.validate_block
  simp only [if_true]

/-- the txid watches never reach the validator -/
theorem C13_fn_validate_block_ignores_txid_watches (ra rb fa fb : List Txid) (ro fo : List OP) (b : Bool) :
    ChainTracker.validate_block (ext_BlockHeader_block_hash := xh) (ext_BlockHeader_target := xt)
      (ext_BlockHeader_validate_pow := xp) (ext_max_target := xm) (ext_self_get_all_reverse_watches := (ra, ro))
      (ext_self_get_all_forward_watches := (fa, fo)) (ext_validator_factory_make_validator := xmk)
      (ext_FilterHeader_to_byte_array := xb) (ext_Validator_validate_block := xv) (ext_diffchange_interval := xd)
      (ext_validate_retarget := xr) t height ebh prev cur proof b =
    ChainTracker.validate_block (ext_BlockHeader_block_hash := xh) (ext_BlockHeader_target := xt)
      (ext_BlockHeader_validate_pow := xp) (ext_max_target := xm) (ext_self_get_all_reverse_watches := (rb, ro))
      (ext_self_get_all_forward_watches := (fb, fo)) (ext_validator_factory_make_validator := xmk)
      (ext_FilterHeader_to_byte_array := xb) (ext_Validator_validate_block := xv) (ext_diffchange_interval := xd)
      (ext_validate_retarget := xr) t height ebh prev cur proof b := by
  unfold ChainTracker.validate_block
  cases b <;> simp only [Bool.false_eq_true, if_false, if_true]
end WatchSet

/-! ### the listener slots and the watch sets (area `TrackerWatch`, `translate/fn_targets/TrackerWatch.b6.json`):
`add_listener`, `add_listener_watches`, `get_all_watches`, `get_all_forward_watches`, `get_all_reverse_watches` -/

section SlotWatches
/-- what one slot contributes to the two accumulators of `get_all_watches` -/
def watchStep {Txid OP : Type} [DecidableEq Txid] [DecidableEq OP] (rev : Bool) (acc : List Txid × List OP)
    (slot : Gen.FnTrackerWatch.ListenSlot Txid OP) : List Txid × List OP :=
  (slot.txid_watches.foldl Rs.asetInsert acc.1,
   if rev then slot.seen.foldl Rs.asetInsert (slot.watches.foldl Rs.asetInsert acc.2)
   else slot.watches.foldl Rs.asetInsert acc.2)

theorem foldlM_pure {σ β : Type} (f : σ → β → Rs.M σ) (g : σ → β → σ) (hf : ∀ s x, f s x = .ok (g s x)) :
    ∀ (l : List β) (s : σ), List.foldlM f s l = .ok (l.foldl g s) := by
  intro l
  induction l with
  | nil => intro s; rfl
  | cons x xs ih => intro s; simp only [List.foldlM, hf, Rs.bind_ok, List.foldl]; exact ih _

variable {Key L Txid OP : Type} [DecidableEq Key] [DecidableEq Txid] [DecidableEq OP]

omit [DecidableEq Key] in
/-- **`get_all_watches`**: the union (insertion-ordered sets) of the slots' txid watches, of their outpoint watches and —
    only with `include_reverse` — of the outpoints they have seen spent; never fails. -/
theorem C13_fn_get_all_watches (f : List Txid → List Txid) (g : List OP → List OP)
    (t : Gen.FnTrackerWatch.ChainTracker Key L Txid OP) (rev : Bool) :
    t.get_all_watches f g rev =
      .ok (f ((t.listeners.map (·.2.2)).foldl (watchStep rev) ([], [])).1,
           g ((t.listeners.map (·.2.2)).foldl (watchStep rev) ([], [])).2) := by
  unfold Gen.FnTrackerWatch.ChainTracker.get_all_watches
  dsimp only
  rw [foldlM_pure _ (fun acc (kv : L × Gen.FnTrackerWatch.ListenSlot Txid OP) => watchStep rev acc kv.2)]
  · simp only [Rs.bind_ok, Rs.pure_eq, List.foldl_map]
  · intro s x
    obtain ⟨a, b⟩ := s
    obtain ⟨l, slot⟩ := x
    cases rev <;> rfl

omit [DecidableEq Key] in
/-- `get_all_forward_watches` = `get_all_watches(false)`, `get_all_reverse_watches` = `get_all_watches(true)` -/
theorem C13_fn_get_all_forward_reverse (f : List Txid → List Txid) (g : List OP → List OP)
    (t : Gen.FnTrackerWatch.ChainTracker Key L Txid OP) :
    t.get_all_forward_watches f g = t.get_all_watches f g false ∧
    t.get_all_reverse_watches f g = t.get_all_watches f g true := by
  unfold Gen.FnTrackerWatch.ChainTracker.get_all_forward_watches Gen.FnTrackerWatch.ChainTracker.get_all_reverse_watches
  rw [C13_fn_get_all_watches, C13_fn_get_all_watches]
  exact ⟨rfl, rfl⟩

omit [DecidableEq Txid] [DecidableEq OP] in
/-- **`add_listener`**: the slot of a new listener holds the given txid watches, no outpoint watch and nothing seen; it is
    stored under the listener's own key (replacing an entry of that key in place) -/
theorem C13_fn_add_listener (key : L → Key) (t : Gen.FnTrackerWatch.ChainTracker Key L Txid OP) (l : L) (ws : List Txid) :
    (t.add_listener key l ws).listeners =
      Rs.omapInsert t.listeners (key l) (l, { txid_watches := ws, watches := [], seen := [] }) := rfl

omit [DecidableEq Key] [DecidableEq Txid] in
theorem slot_fold (ws : List OP) (slot : Gen.FnTrackerWatch.ListenSlot Txid OP) :
    List.foldl (fun slot w => { slot with watches := Rs.asetInsert slot.watches w }) slot ws =
      { slot with watches := ws.foldl Rs.asetInsert slot.watches } := by
  induction ws generalizing slot with
  | nil => rfl
  | cons x xs ih => simp only [List.foldl]; rw [ih]

omit [DecidableEq Txid] in
/-- **`add_listener_watches`**: panics for an unknown key (the `expect`); otherwise the given outpoints are added to that
    slot's `watches` (set union), the listener, its txid watches and `seen` stay, no other entry changes -/
theorem C13_fn_add_listener_watches (t : Gen.FnTrackerWatch.ChainTracker Key L Txid OP) (k : Key) (ws : List OP) :
    t.add_listener_watches k ws =
      match Rs.omapGet t.listeners k with
      | none => .error .panic
      | some (l, slot) =>
        .ok { t with listeners := Rs.omapInsert t.listeners k (l, { slot with watches := ws.foldl Rs.asetInsert slot.watches }) } := by
  unfold Gen.FnTrackerWatch.ChainTracker.add_listener_watches
  cases h : Rs.omapGet t.listeners k with
  | none => rfl
  | some e =>
    obtain ⟨l, slot⟩ := e
    simp only [Rs.unwrap, Rs.bind_ok, Rs.pure_eq, slot_fold]

omit [DecidableEq Key] [DecidableEq Txid] in
theorem mem_asetInsert (l : List OP) (x y : OP) : y ∈ Rs.asetInsert l x ↔ y ∈ l ∨ y = x := by
  unfold Rs.asetInsert
  split
  · rename_i h
    constructor
    · intro hy; exact Or.inl hy
    · intro hy
      cases hy with
      | inl h1 => exact h1
      | inr h2 => subst h2; simpa using h
  · simp

omit [DecidableEq Key] [DecidableEq Txid] in
theorem mem_foldl_aset (ws l : List OP) (y : OP) : y ∈ ws.foldl Rs.asetInsert l ↔ y ∈ l ∨ y ∈ ws := by
  induction ws generalizing l with
  | nil => simp
  | cons x xs ih => simp only [List.foldl, ih, mem_asetInsert, List.mem_cons]; grind

omit [DecidableEq Key] in
/-- **the reverse watches are a superset of the forward watches** (before the set → vector conversion): every outpoint
    `get_all_watches(false)` accumulates is accumulated by `get_all_watches(true)` -/
theorem C13_fn_forward_subset_reverse (slots : List (Gen.FnTrackerWatch.ListenSlot Txid OP)) (a b : List Txid × List OP)
    (hab : ∀ y, y ∈ a.2 → y ∈ b.2) :
    ∀ y, y ∈ (slots.foldl (watchStep false) a).2 → y ∈ (slots.foldl (watchStep true) b).2 := by
  induction slots generalizing a b with
  | nil => exact hab
  | cons s ss ih =>
    simp only [List.foldl]
    apply ih
    intro y hy
    simp only [watchStep, Bool.false_eq_true, if_false, if_true, mem_foldl_aset] at hy ⊢
    grind

end SlotWatches

end VlsModel.Props.C13Fn
