import VlsModel.Model.Enforcement
import VlsModel.Gen.FnEnforce
import VlsModel.Gen.FnSimpleState
import VlsModel.Gen.FnChannelForceClose
import VlsModel.Gen.FnChannelRevoke
import VlsModel.Lemmas.FnGen
import VlsModel.Lemmas.EnforcementFn
import VlsModel.Lemmas.HandlerFn
import VlsModel.Props.C01Fn
/-
C02 — the guard that makes the CURRENT holder commitment the only one that can be signed for broadcast,
`Validator::get_current_holder_commitment_info` (`vls-core/src/policy/validator.rs:279`, mechanism
"get_current_holder_commitment_info requires n+1==next_holder_commit_num" of the property), as `translate/rs2lean.py`
regenerates it on every run (`Gen/FnEnforce.lean`).

The hand-written model inlines it at the head of `signHolder` (`sign_holder_commitment_tx_phase2`).  Proved here:

* `C02_fn_get_current_holder_commitment_info` — with `policy-other` kept an error the generated body is, on EVERY input,
  the model's decision list: `n + 1` overflows → overflow (debug-build panic), `n + 1 ≠ next` → `policy-other`,
  no current commitment → `unwrap()` panic, otherwise the current info, the state untouched;
* `C02_fn_signHolder` — the result class of the model's `signHolder` is the class of the generated guard, a signature
  is released exactly when the guard returns, and then `n + 1 = next`;
* `C02_fn_guard_returns_current` — under EVERY filter, what the guard returns is the stored current commitment and the
  state is unchanged; `C02_fn_guard_demoted` shows what a filter that demotes `policy-other` would do (the guard no
  longer ties `n` to the counter) — the reason the harness never demotes that tag and the model fixes the strict filter.
-/
namespace VlsModel.Props.C02Fn
open VlsModel VlsModel.Enforcement
open VlsModel.Gen.FnEnforce
open VlsModel.Lemmas.EnforcementFn

theorem C02_fn_get_current_holder_commitment_info (f : String → Bool) (hf : f "policy-other" = true)
    (c : Chan) (n : Nat) :
    Validator.get_current_holder_commitment_info f () (toES c) n
      = if n + 1 > Rs.U64_MAX then .error .overflow
        else if n + 1 ≠ c.next then .error (.err "policy-other")
        else match c.cur with
             | none => .error .panic
             | some i => .ok (toES c, i) := by
  unfold Validator.get_current_holder_commitment_info
  by_cases h : n + 1 ≤ Rs.U64_MAX
  · have h' : ¬ n + 1 > Rs.U64_MAX := by omega
    by_cases h1 : n + 1 = c.next
    · have hx : c.next ≤ Rs.U64_MAX := by omega
      have hx' : ¬ Rs.U64_MAX < c.next := by omega
      cases hc : c.cur <;> simp [toES, Rs.uadd, h, h', h1, hx, hx', hc, Rs.unwrap, Rs.panic]
    · simp [toES, Rs.uadd, h, h', h1, policyErr_keep f _ hf]
  · have h' : n + 1 > Rs.U64_MAX := by omega
    simp [toES, Rs.uadd, h, h', Rs.overflow]

/-- `sign_holder_commitment_tx_phase2`: the model's reply class is the class of the generated guard; a signature is
    released exactly when the guard returns -/
theorem C02_fn_signHolder (c : Chan) (n : Nat) :
    (signHolder c n).out.res = cls (Validator.get_current_holder_commitment_info strict () (toES c) n)
    ∧ ((signHolder c n).out.signed = some n ↔
        ∃ r, Validator.get_current_holder_commitment_info strict () (toES c) n = .ok r)
    ∧ ((signHolder c n).out.signed = none ∨ (signHolder c n).out.signed = some n) := by
  rw [C02_fn_get_current_holder_commitment_info strict rfl]
  have hm : U64.MAX = Rs.U64_MAX := by rfl
  unfold signHolder
  rw [hm]
  by_cases h : n + 1 > Rs.U64_MAX
  · simp [h, fail]
  · by_cases h1 : n + 1 = c.next
    · have hx' : ¬ Rs.U64_MAX < c.next := by omega
      cases hc : c.cur <;> simp [h, h1, hx', hc, fail]
    · simp [h, h1, fail]

/-- a signature for `n` means `n + 1 = next` and a current commitment exists -/
theorem C02_fn_signHolder_current (c : Chan) (n : Nat) (h : (signHolder c n).out.signed = some n) :
    n + 1 = c.next ∧ c.cur ≠ none := by
  obtain ⟨r, hr⟩ := (C02_fn_signHolder c n).2.1.mp h
  rw [C02_fn_get_current_holder_commitment_info strict rfl] at hr
  by_cases h0 : n + 1 > Rs.U64_MAX
  · simp [h0] at hr
  · by_cases h1 : n + 1 = c.next
    · have hx' : ¬ Rs.U64_MAX < c.next := by omega
      cases hc : c.cur
      · simp [h0, h1, hx', hc] at hr
      · exact ⟨h1, by simp⟩
    · simp [h0, h1] at hr

/-- under every filter: whatever the guard returns is the stored current commitment, and the state is untouched -/
theorem C02_fn_guard_returns_current (f : String → Bool) (c : Chan) (n : Nat) (e : ES) (i : Nat)
    (hok : Validator.get_current_holder_commitment_info f () (toES c) n = .ok (e, i)) :
    e = toES c ∧ c.cur = some i := by
  unfold Validator.get_current_holder_commitment_info at hok
  by_cases h : n + 1 ≤ Rs.U64_MAX
  · by_cases h1 : n + 1 = c.next
    · have hx : c.next ≤ Rs.U64_MAX := by omega
      cases hc : c.cur with
      | none => simp [toES, Rs.uadd, h, h1, hx, hc, Rs.unwrap, Rs.panic] at hok
      | some v =>
        simp [toES, Rs.uadd, h, h1, hx, hc, Rs.unwrap, Rs.panic] at hok
        obtain ⟨he, hi⟩ := hok
        subst hi
        exact ⟨by rw [← he]; simp [toES, hc], rfl⟩
    · cases hf : f "policy-other"
      · cases hc : c.cur with
        | none => simp [toES, Rs.uadd, h, h1, hc, Rs.unwrap, Rs.panic, policyErr_demoted f _ hf] at hok
        | some v =>
          simp [toES, Rs.uadd, h, h1, hc, Rs.unwrap, Rs.panic, policyErr_demoted f _ hf] at hok
          obtain ⟨he, hi⟩ := hok
          subst hi
          exact ⟨by rw [← he]; simp [toES, hc], rfl⟩
      · simp [toES, Rs.uadd, h, h1, policyErr_keep f _ hf] at hok
  · simp [toES, Rs.uadd, h, Rs.overflow] at hok

/-- what demoting `policy-other` would do: the guard returns the current commitment for a number that is not the
    current one (the caller would then sign the current content under the requested number's keys).  Never done by
    the harness' filters; the model fixes the strict filter. -/
theorem C02_fn_guard_demoted :
    Validator.get_current_holder_commitment_info (fun _ => false) ()
        (toES { slot := .ready, next := 5, cur := some 7 }) 1
      = .ok (toES { slot := .ready, next := 5, cur := some 7 }, 7) := by rfl

-- non-vacuity
example : Validator.get_current_holder_commitment_info strict () (toES { slot := .ready, next := 5, cur := some 7 }) 4
    = .ok (toES { slot := .ready, next := 5, cur := some 7 }, 7) := by rfl
example : Validator.get_current_holder_commitment_info strict () (toES { slot := .ready, next := 5, cur := some 7 }) 3
    = .error (.err "policy-other") := by rfl
example : (signHolder { slot := .ready, next := 5, cur := some 7 } 4).out.signed = some 4 := by rfl

/-! ### the state-dependent checks of `SimpleValidator::validate_holder_commitment_tx` (simple_validator.rs:833;
mechanisms "refuses a new state once channel_closed" :896 and "refuses revoked numbers" :884), generated:
`Gen/FnSimpleState.lean`.  The content rules `validate_commitment_tx` enter as the external `vct` (the model's
`policyOk`), the HTLC deltas are only logged. -/

/-- the model's `holderPolicy` IS the generated body (default filter): same reply class on every input in the 64-bit
    range — content rules, retry-same (`expect` panic without a current commitment), already revoked, closed -/
theorem C02_fn_validate_holder_commitment_tx
    (dO dR : Nat → Nat → Unit × Unit)
    (vct : Gen.FnSimpleState.EnforcementState Nat Nat → Nat → Nat → Unit → Gen.FnSimpleState.ChainState → Nat → Rs.M Unit)
    (c : Chan) (n pt info : Nat) (pk : Bool) (t0 : String)
    (hv : vct (toSV c) n pt () ⟨⟩ info = contentRules pk t0) (hn : n + 2 ≤ Rs.U64_MAX) :
    holderPolicy c n info pk
      = cls (Gen.FnSimpleState.SimpleValidator.validate_holder_commitment_tx dO dR vct strict ⟨⟩ (toSV c) n pt () ⟨⟩ info) := by
  obtain ⟨slot, next, cur, nextInfo, closed, m, r, curPt, prevPt, curInfo, prevInfo, secrets⟩ := c
  have hn1 : n + 1 ≤ Rs.U64_MAX := by omega
  unfold Gen.FnSimpleState.SimpleValidator.validate_holder_commitment_tx holderPolicy
  rw [hv]
  simp only [toSV, contentRules]
  cases pk
  · simp
  · simp only [if_true, Rs.bind_ok, Rs.uadd, hn, hn1, Rs.pure_eq, Bool.not_true, Bool.false_eq_true, if_false]
    by_cases a : n + 1 = next
    · subst a
      have a2 : ¬ n + 2 ≤ n + 1 := by omega
      have a3 : ¬ n = n + 1 := by omega
      cases cur with
      | none => simp [Rs.unwrap, Rs.panic]
      | some i =>
        by_cases b : info = i
        · subst b; simp [Rs.unwrap, a2, a3]
        · have b' : ¬ i = info := fun h => b h.symm
          simp [Rs.unwrap, b, b', policyErr_strict]
    · by_cases b : n + 2 ≤ next
      · simp [a, b, policyErr_strict]
      · by_cases d : n = next
        · subst d
          cases closed <;> simp [a, b, policyErr_strict]
        · simp [a, b, d]

/-- **redundant signing** (`sign_holder_commitment_tx_phase2_redundant`, one of the three ways a holder signature is
    released): the model's `signRedundant` is the generated point guard of `Channel::get_per_commitment_point` followed by
    the generated state checks of `validate_holder_commitment_tx`; a signature for `n` is released exactly when both pass -/
theorem C02_fn_signRedundant {K : Type} (ptf : Nat → Nat) (k : K)
    (dO dR : Nat → Nat → Unit × Unit)
    (vct : Gen.FnSimpleState.EnforcementState Nat Nat → Nat → Nat → Unit → Gen.FnSimpleState.ChainState → Nat → Rs.M Unit)
    (c : Chan) (n pt info : Nat) (pk : Bool) (t0 : String)
    (hs : c.slot = .ready) (hx : c.next + 1 ≤ Rs.U64_MAX)
    (hv : vct (toSV c) n pt () ⟨⟩ info = contentRules pk t0) (hn : n + 2 ≤ Rs.U64_MAX) :
    (signRedundant c n info pk).out.res
        = (if cls (Gen.FnChannel.Channel.get_per_commitment_point ptf (C01Fn.toCh c k) n) ≠ .ok then .errPolicy
           else cls (Gen.FnSimpleState.SimpleValidator.validate_holder_commitment_tx dO dR vct strict ⟨⟩ (toSV c) n pt () ⟨⟩ info))
    ∧ ((signRedundant c n info pk).out.signed = some n ↔
        cls (Gen.FnChannel.Channel.get_per_commitment_point ptf (C01Fn.toCh c k) n) = .ok
        ∧ cls (Gen.FnSimpleState.SimpleValidator.validate_holder_commitment_tx dO dR vct strict ⟨⟩ (toSV c) n pt () ⟨⟩ info) = .ok)
    ∧ ((signRedundant c n info pk).out.res ≠ .ok → (signRedundant c n info pk).c = c) := by
  rw [← (C01Fn.C01_fn_get_per_commitment_point ptf c k n hs hx).2,
      ← C02_fn_validate_holder_commitment_tx dO dR vct c n pt info pk t0 hv hn]
  unfold signRedundant
  by_cases g : getPoint c n ≠ .ok
  · simp [g, fail]
  · have g' : getPoint c n = .ok := by simpa using g
    simp only [g, if_false]
    cases hh : holderPolicy c n info pk <;> simp [fail, g']

/-- **the whole validate request** (`validate_holder_commitment_tx(_phase2)`) of the model: generated point guard, generated
    state checks, then the signature loop `checkSigs` (in the model since round 8) and the payment check; the commitment is
    recorded (`validated = some n`) exactly when all of them pass -/
theorem C02_fn_validate_request {K : Type} (ptf : Nat → Nat) (k : K)
    (dO dR : Nat → Nat → Unit × Unit)
    (vct : Gen.FnSimpleState.EnforcementState Nat Nat → Nat → Nat → Unit → Gen.FnSimpleState.ChainState → Nat → Rs.M Unit)
    (c : Chan) (n pt info : Nat) (pk : Bool) (t0 : String) (commitOk payOk : Bool) (nHtlc : Nat) (sigs : List Bool)
    (hs : c.slot = .ready) (hx : c.next + 1 ≤ Rs.U64_MAX)
    (hv : vct (toSV c) n pt () ⟨⟩ info = contentRules pk t0) (hn : n + 2 ≤ Rs.U64_MAX) :
    (validate c n info (sigFactOf commitOk nHtlc sigs payOk) pk).out.res
        = (if cls (Gen.FnChannel.Channel.get_per_commitment_point ptf (C01Fn.toCh c k) n) ≠ .ok then .errPolicy
           else match cls (Gen.FnSimpleState.SimpleValidator.validate_holder_commitment_tx dO dR vct strict ⟨⟩ (toSV c) n pt () ⟨⟩ info) with
                | .ok => (match checkSigs commitOk nHtlc sigs with
                          | .ok => if payOk then .ok else .errPolicy
                          | .panic => .panic
                          | _ => .errPolicy)
                | r => r)
    ∧ ((validate c n info (sigFactOf commitOk nHtlc sigs payOk) pk).out.validated = some n ↔
        cls (Gen.FnChannel.Channel.get_per_commitment_point ptf (C01Fn.toCh c k) n) = .ok
        ∧ cls (Gen.FnSimpleState.SimpleValidator.validate_holder_commitment_tx dO dR vct strict ⟨⟩ (toSV c) n pt () ⟨⟩ info) = .ok
        ∧ checkSigs commitOk nHtlc sigs = .ok ∧ payOk = true) := by
  rw [← (C01Fn.C01_fn_get_per_commitment_point ptf c k n hs hx).2,
      ← C02_fn_validate_holder_commitment_tx dO dR vct c n pt info pk t0 hv hn]
  unfold validate sigFactOf
  by_cases g : getPoint c n ≠ .ok
  · simp [g, fail]
  · have g' : getPoint c n = .ok := by simpa using g
    simp only [g, if_false]
    cases hh : holderPolicy c n info pk <;> simp only [fail, g'] <;> try simp
    rcases hcs : checkSigs commitOk nHtlc sigs with _ | _ | _ | _ | _ <;> cases payOk <;>
      (by_cases e : n = c.next <;> simp [e])

-- non-vacuity of the hypotheses of the composition theorems: next = 2, validate 2 with three HTLCs and three signatures
example :=
  C02_fn_validate_request (K := Unit) (fun n => n) () (fun _ _ => ((), ())) (fun _ _ => ((), ()))
    (fun _ _ _ _ _ _ => contentRules true "") { slot := .ready, next := 2, cur := some 1 } 2 0 6 true "" true true 3
    [true, true, true] rfl (by decide) rfl (by decide)
example :=
  C02_fn_signRedundant (K := Unit) (fun n => n) () (fun _ _ => ((), ())) (fun _ _ => ((), ()))
    (fun _ _ _ _ _ _ => contentRules true "") { slot := .ready, next := 2, cur := some 1 } 1 0 1 true "" rfl (by decide) rfl
    (by decide)

/-! ### Arms of the request handlers (vls-protocol-signer/src/handler.rs), round 9

`ChannelHandler::do_handle`'s arms `SignLocalCommitmentTx2`, `SignMutualCloseTx2` and `RootHandler::do_handle`'s arm
`SignCommitmentTx` (CLN: locktime 0 means "this is really a mutual close") as regenerated in `Gen/FnHandlerArms.lean`
(see the section of the same name in `Props/C01Fn.lean`), run on a model channel: the reply class is that of the
model's `signHolder` / `signMutualClose` request behind `Node::with_channel`'s refusal of a stub, a holder signature in
the reply is the one for the requested number, and the root handler's locktime test selects between the two. -/
section HandlerArms
open VlsModel.Secrets VlsModel.Lemmas.HandlerFn
open VlsModel.Gen.FnHandlerArms

/-- `SignLocalCommitmentTx2` -/
theorem C02_fn_handle_sign_local_commitment_tx2 (F : Nat → Bytes → Bytes) (c : Chan) (ver n : Nat) :
    let g := ChannelHandler.handle_sign_local_commitment_tx2 (Signature := Nat) readyChannel
               (fun ch k => resM (signHolder ch k).out.res k) (fun s => ⟨s, 1⟩) (handler c ver) ⟨n⟩
    let o := (chanStep F c (.signHolder n)).out
    o.res = hcls g ∧ (∀ r, g = .ok r → o.signed = some r.signature.signature) := by
  cases hs : c.slot
  · simp [ChannelHandler.handle_sign_local_commitment_tx2, handler, readyChannel, hs, chanStep, needReady, fail]
  · have h := signHolder_signed c n
    simp only [ChannelHandler.handle_sign_local_commitment_tx2, handler, readyChannel, hs, chanStep, needReady, Rs.bind_ok]
    generalize signHolder c n = r at h
    rcases r with ⟨c', ⟨res, sec, sg, vd⟩, p⟩
    cases res <;> simp_all [resM, hcls]

/-- `SignMutualCloseTx2` -/
theorem C02_fn_handle_sign_mutual_close_tx2 (F : Nat → Bytes → Bytes) (dp : Nat → Nat) (ts : Nat → Nat)
    (P : Nat → Nat → Nat → Nat → Nat → Bool) (c : Chan) (ver : Nat) (m : SignMutualCloseTx2 Nat Nat) :
    let g := ChannelHandler.handle_sign_mutual_close_tx2 (Signature := Nat) dp readyChannel ts
               (fun ch tl tr ls rs hint => resM (signMutualClose ch (P tl tr ls rs hint)).out.res 0)
               (fun s => ⟨s, 1⟩) (handler c ver) m
    (chanStep F c (.signMutualClose (P m.to_local_value_sat m.to_remote_value_sat (ts m.local_script)
        (ts m.remote_script) (dp m.local_wallet_path_hint)))).out.res = hcls g := by
  cases hs : c.slot <;>
    simp [ChannelHandler.handle_sign_mutual_close_tx2, handler, readyChannel, hs, chanStep, needReady, fail]
  generalize (signMutualClose c _).out.res = r
  cases r <;> simp [resM, hcls]

/-- `SignCommitmentTx` (root handler) -/
theorem C02_fn_handle_sign_commitment_tx (F : Nat → Bytes → Bytes) (tin : Nat → Nat) (tl : Nat → Nat) (pin : Nat → Nat)
    (op : Nat → List Nat) (P : Nat → List Nat → Bool) (c : Chan) (m : SignCommitmentTx Nat Nat) :
    let g := RootHandler.handle_sign_commitment_tx (Signature := Nat) (fun _ _ => ()) tin tl pin op readyChannel
               (fun ch tx ops => resM (signMutualClose ch (P tx ops)).out.res 0)
               (fun ch k => resM (signHolder ch k).out.res k) (fun s => ⟨s, 1⟩) ({ node := c } : RootHandler Chan) m
    let o := (chanStep F c (if tl (tin m.tx) = 0 then .signMutualClose (P (tin m.tx) (op (pin m.psbt)))
                            else .signHolder m.commitment_number)).out
    o.res = hcls g
    ∧ (∀ r, g = .ok r → tl (tin m.tx) ≠ 0 → o.signed = some r.signature.signature) := by
  by_cases hl : tl (tin m.tx) = 0
  · cases hs : c.slot <;>
      simp [RootHandler.handle_sign_commitment_tx, readyChannel, hs, chanStep, needReady, fail, hl]
    generalize (signMutualClose c _).out.res = r
    cases r <;> simp [resM, hcls]
  · cases hs : c.slot
    · simp [RootHandler.handle_sign_commitment_tx, readyChannel, hs, chanStep, needReady, fail, hl]
    · have h := signHolder_signed c m.commitment_number
      simp only [RootHandler.handle_sign_commitment_tx, readyChannel, hs, chanStep, needReady, Rs.bind_ok, hl, if_false,
        beq_iff_eq]
      generalize signHolder c m.commitment_number = r at h
      rcases r with ⟨c', ⟨res, sec, sg, vd⟩, p⟩
      cases res <;> simp_all [resM, hcls]

/-- non-vacuity: the current commitment 0 is signed through both handlers, a mutual close through the root handler -/
example :
    let c : Chan := { slot := .ready, next := 1, cur := some 11, curInfo := some 12 }
    hcls (ChannelHandler.handle_sign_local_commitment_tx2 (Signature := Nat) readyChannel
            (fun ch k => resM (signHolder ch k).out.res k) (fun s => ⟨s, 1⟩) (handler c 6) ⟨0⟩) = .ok
    ∧ hcls (RootHandler.handle_sign_commitment_tx (Signature := Nat) (DerivationPath := Nat) (fun _ _ => ()) id (fun t => t) id (fun _ => [])
            readyChannel (fun ch _ _ => resM (signMutualClose ch true).out.res 0)
            (fun ch k => resM (signHolder ch k).out.res k) (fun s => ⟨s, 1⟩) ({ node := c } : RootHandler Chan)
            { peer_id := 0, dbid := 1, tx := 0, psbt := 0, commitment_number := 5 }) = .ok
    ∧ hcls (RootHandler.handle_sign_commitment_tx (Signature := Nat) (DerivationPath := Nat) (fun _ _ => ()) id (fun t => t) id (fun _ => [])
            readyChannel (fun ch _ _ => resM (signMutualClose ch true).out.res 0)
            (fun ch k => resM (signHolder ch k).out.res k) (fun s => ⟨s, 1⟩) ({ node := c } : RootHandler Chan)
            { peer_id := 0, dbid := 1, tx := 7, psbt := 0, commitment_number := 5 }) = .errPolicy := by
  decide

end HandlerArms

/-! ### Round 10: the force-close signing entry points themselves (`Gen/FnChannelForceClose.lean`)

`Channel::sign_holder_commitment_tx_phase2` (channel.rs:1333) and `Channel::sign_holder_commitment_tx_phase2_redundant`
(channel.rs:1490) are regenerated from the source on every run (targets `translate/fn_targets/ChannelForceClose.b1.json`;
LDK's transaction building / signing and `Channel::persist` are declared externals, `persist()` as a function of the
enforcement state it writes).  The clause of C02 they carry, stated on the generated bodies: **a holder signature leaves
the function only after `channel_closed = true` has been set AND that very state went through `persist()`**; a store that
refuses the write means no signature — on EVERY call, in particular on a retried call on a channel whose in-memory flag is
already set (a write elided for "already closed" breaks these theorems: seeds C02-r5-2, C02-r7-1). -/
section ForceClose
open VlsModel.Gen.FnChannelForceClose (EnforcementState CommitmentInfo2 HTLCInfo2 HTLCOutputInCommitment ChannelPublicKeys ChannelSetup)

theorem fc_bind_ok {α β : Type} {x : Rs.M α} {f : α → Rs.M β} {b : β} (h : x >>= f = .ok b) :
    ∃ a, x = .ok a ∧ f a = .ok b := by
  cases x with
  | error e => cases h
  | ok a => exact ⟨a, rfl, h⟩

variable {InMemorySigner Signature Validator PublicKey TxCreationKeys PaymentHash CommitmentTransaction
  HolderCommitmentTransaction ChainState : Type}

/-- the generated point guard: a point is handed out only for `n ≤ next_holder_commit_num + 1` -/
theorem C02_fn_force_close_point_guard (unchecked : Nat → PublicKey)
    (self : Gen.FnChannelForceClose.Channel InMemorySigner) (n : Nat) (pt : PublicKey)
    (h : Gen.FnChannelForceClose.Channel.get_per_commitment_point unchecked self n = .ok pt) :
    n ≤ self.enforcement_state.next_holder_commit_num + 1 ∧ pt = unchecked n := by
  unfold Gen.FnChannelForceClose.Channel.get_per_commitment_point at h
  obtain ⟨t, ht, h⟩ := fc_bind_ok h
  have htv : t = self.enforcement_state.next_holder_commit_num + 1 := by
    unfold Rs.uadd at ht; split at ht
    · cases ht; rfl
    · cases ht
  by_cases hg : n > t
  · simp [hg, Rs.fail] at h
  · simp only [hg, decide_false] at h
    cases h
    exact ⟨by omega, rfl⟩

/-- **`sign_holder_commitment_tx_phase2`: no signature without the durable closed mark.**  If the generated body returns a
    signature then (1) the guard `get_current_holder_commitment_info` accepted the number on the state as it was,
    (2) the signature is LDK's for the transaction rebuilt from the STORED current commitment under that number,
    (3) the returned channel is the old one with `channel_closed = true` and nothing else changed, and
    (4) `persist()` was called on exactly that state and succeeded. -/
theorem C02_fn_sign_holder_commitment_tx_phase2
    (validator : Validator) (getCur : Validator → EnforcementState → Nat → Rs.M (CommitmentInfo2 PaymentHash))
    (unchecked : Nat → PublicKey) (mkKeys : PublicKey → TxCreationKeys)
    (mkTx : Nat → TxCreationKeys → Nat → Nat → Nat → List (HTLCOutputInCommitment PaymentHash) → CommitmentTransaction)
    (dummies : CommitmentTransaction → List Signature) (dummy : Signature)
    (pubkeys : InMemorySigner → ChannelPublicKeys PublicKey) (cpkeys : ChannelPublicKeys PublicKey)
    (wrap : CommitmentTransaction → Signature → List Signature → PublicKey → PublicKey → HolderCommitmentTransaction)
    (ldkSign : InMemorySigner → HolderCommitmentTransaction → Rs.M Signature)
    (persist : EnforcementState → Rs.M Unit)
    (self self' : Gen.FnChannelForceClose.Channel InMemorySigner) (n : Nat) (sig : Signature)
    (h : Gen.FnChannelForceClose.Channel.sign_holder_commitment_tx_phase2 validator getCur unchecked mkKeys mkTx dummies dummy
           pubkeys cpkeys wrap ldkSign persist self n = .ok (self', sig)) :
    ∃ info2 htlcs,
      getCur validator self.enforcement_state n = .ok info2 ∧
      Gen.FnChannelForceClose.Channel.htlcs_info2_to_oic info2.offered_htlcs info2.received_htlcs = .ok htlcs ∧
      n ≤ self.enforcement_state.next_holder_commit_num + 1 ∧
      (let rtx := mkTx n (mkKeys (unchecked n))
          (if Gen.FnChannelForceClose.ChannelSetup.is_zero_fee_htlc self.setup then 0 else info2.feerate_per_kw)
          info2.to_broadcaster_value_sat info2.to_countersigner_value_sat htlcs
       ldkSign self.keys (wrap rtx dummy (dummies rtx) (pubkeys self.keys).funding_pubkey cpkeys.funding_pubkey) = .ok sig) ∧
      self' = { self with enforcement_state := { self.enforcement_state with channel_closed := true } } ∧
      self'.enforcement_state.channel_closed = true ∧
      persist self'.enforcement_state = .ok () := by
  unfold Gen.FnChannelForceClose.Channel.sign_holder_commitment_tx_phase2 at h
  obtain ⟨info2, hcur, h⟩ := fc_bind_ok h
  obtain ⟨htlcs, hoic, h⟩ := fc_bind_ok h
  obtain ⟨pt, hpt, h⟩ := fc_bind_ok h
  obtain ⟨sg, hsig, h⟩ := fc_bind_ok h
  obtain ⟨u, hper, h⟩ := fc_bind_ok h
  obtain ⟨hle, hptv⟩ := C02_fn_force_close_point_guard unchecked self n pt hpt
  cases h
  subst hptv
  exact ⟨info2, htlcs, hcur, hoic, hle, hsig, rfl, rfl, by cases u; exact hper⟩

/-- a store that refuses the write of the closed state means no signature, whatever the in-memory flag was before
    (the retry after a failed first attempt included) -/
theorem C02_fn_sign_holder_phase2_no_signature_without_write
    (validator : Validator) (getCur : Validator → EnforcementState → Nat → Rs.M (CommitmentInfo2 PaymentHash))
    (unchecked : Nat → PublicKey) (mkKeys : PublicKey → TxCreationKeys)
    (mkTx : Nat → TxCreationKeys → Nat → Nat → Nat → List (HTLCOutputInCommitment PaymentHash) → CommitmentTransaction)
    (dummies : CommitmentTransaction → List Signature) (dummy : Signature)
    (pubkeys : InMemorySigner → ChannelPublicKeys PublicKey) (cpkeys : ChannelPublicKeys PublicKey)
    (wrap : CommitmentTransaction → Signature → List Signature → PublicKey → PublicKey → HolderCommitmentTransaction)
    (ldkSign : InMemorySigner → HolderCommitmentTransaction → Rs.M Signature)
    (persist : EnforcementState → Rs.M Unit)
    (self : Gen.FnChannelForceClose.Channel InMemorySigner) (n : Nat)
    (hrefuse : ∀ u, persist { self.enforcement_state with channel_closed := true } ≠ .ok u) :
    ∀ r, Gen.FnChannelForceClose.Channel.sign_holder_commitment_tx_phase2 validator getCur unchecked mkKeys mkTx dummies dummy
           pubkeys cpkeys wrap ldkSign persist self n ≠ .ok r := by
  intro ⟨self', sig⟩ h
  obtain ⟨_, _, _, _, _, _, hself, _, hper⟩ :=
    C02_fn_sign_holder_commitment_tx_phase2 validator getCur unchecked mkKeys mkTx dummies dummy pubkeys cpkeys wrap ldkSign
      persist self self' n sig h
  subst hself
  exact hrefuse () hper

/-- **`sign_holder_commitment_tx_phase2_redundant`**: a signature only after the point guard, the content built from the
    request passed `validate_holder_commitment_tx` on the state as it was, and the closed state was written. -/
theorem C02_fn_sign_holder_commitment_tx_phase2_redundant
    (unchecked : Nat → PublicKey)
    (mkInfo : Nat → Nat → List (HTLCInfo2 PaymentHash) → List (HTLCInfo2 PaymentHash) → Nat → Rs.M (CommitmentInfo2 PaymentHash))
    (validator : Validator) (chainState : ChainState)
    (validateHolder : Validator → EnforcementState → Nat → PublicKey → ChannelSetup → ChainState → CommitmentInfo2 PaymentHash → Rs.M Unit)
    (dummiesN : Nat → List Signature) (mkKeys : PublicKey → TxCreationKeys)
    (mkTx : Nat → TxCreationKeys → Nat → Nat → Nat → List (HTLCOutputInCommitment PaymentHash) → CommitmentTransaction)
    (dummy : Signature)
    (pubkeys : InMemorySigner → ChannelPublicKeys PublicKey) (cpkeys : ChannelPublicKeys PublicKey)
    (wrap : CommitmentTransaction → Signature → List Signature → PublicKey → PublicKey → HolderCommitmentTransaction)
    (ldkSign : InMemorySigner → HolderCommitmentTransaction → Rs.M Signature)
    (persist : EnforcementState → Rs.M Unit)
    (self self' : Gen.FnChannelForceClose.Channel InMemorySigner) (n feerate toHolder toCp : Nat)
    (off recv : List (HTLCInfo2 PaymentHash)) (sig : Signature)
    (h : Gen.FnChannelForceClose.Channel.sign_holder_commitment_tx_phase2_redundant unchecked mkInfo validator chainState
           validateHolder dummiesN mkKeys mkTx dummy pubkeys cpkeys wrap ldkSign persist self n feerate toHolder toCp off recv
         = .ok (self', sig)) :
    ∃ info2 htlcs,
      n ≤ self.enforcement_state.next_holder_commit_num + 1 ∧
      mkInfo toHolder toCp off recv feerate = .ok info2 ∧
      validateHolder validator self.enforcement_state n (unchecked n) self.setup chainState info2 = .ok () ∧
      Gen.FnChannelForceClose.Channel.htlcs_info2_to_oic off recv = .ok htlcs ∧
      (let tx := mkTx n (mkKeys (unchecked n))
          (if Gen.FnChannelForceClose.ChannelSetup.is_zero_fee_htlc self.setup then 0 else feerate) toHolder toCp htlcs
       ldkSign self.keys (wrap tx dummy (dummiesN htlcs.length) (pubkeys self.keys).funding_pubkey cpkeys.funding_pubkey) = .ok sig) ∧
      self' = { self with enforcement_state := { self.enforcement_state with channel_closed := true } } ∧
      self'.enforcement_state.channel_closed = true ∧
      persist self'.enforcement_state = .ok () := by
  unfold Gen.FnChannelForceClose.Channel.sign_holder_commitment_tx_phase2_redundant at h
  obtain ⟨pt, hpt, h⟩ := fc_bind_ok h
  obtain ⟨info2, hinfo, h⟩ := fc_bind_ok h
  obtain ⟨u0, hval, h⟩ := fc_bind_ok h
  obtain ⟨htlcs, hoic, h⟩ := fc_bind_ok h
  obtain ⟨sg, hsig, h⟩ := fc_bind_ok h
  obtain ⟨u, hper, h⟩ := fc_bind_ok h
  obtain ⟨hle, hptv⟩ := C02_fn_force_close_point_guard unchecked self n pt hpt
  cases h
  subst hptv
  exact ⟨info2, htlcs, hle, hinfo, by cases u0; exact hval, hoic, hsig, rfl, rfl, by cases u; exact hper⟩

theorem C02_fn_sign_holder_redundant_no_signature_without_write
    (unchecked : Nat → PublicKey)
    (mkInfo : Nat → Nat → List (HTLCInfo2 PaymentHash) → List (HTLCInfo2 PaymentHash) → Nat → Rs.M (CommitmentInfo2 PaymentHash))
    (validator : Validator) (chainState : ChainState)
    (validateHolder : Validator → EnforcementState → Nat → PublicKey → ChannelSetup → ChainState → CommitmentInfo2 PaymentHash → Rs.M Unit)
    (dummiesN : Nat → List Signature) (mkKeys : PublicKey → TxCreationKeys)
    (mkTx : Nat → TxCreationKeys → Nat → Nat → Nat → List (HTLCOutputInCommitment PaymentHash) → CommitmentTransaction)
    (dummy : Signature)
    (pubkeys : InMemorySigner → ChannelPublicKeys PublicKey) (cpkeys : ChannelPublicKeys PublicKey)
    (wrap : CommitmentTransaction → Signature → List Signature → PublicKey → PublicKey → HolderCommitmentTransaction)
    (ldkSign : InMemorySigner → HolderCommitmentTransaction → Rs.M Signature)
    (persist : EnforcementState → Rs.M Unit)
    (self : Gen.FnChannelForceClose.Channel InMemorySigner) (n feerate toHolder toCp : Nat)
    (off recv : List (HTLCInfo2 PaymentHash))
    (hrefuse : ∀ u, persist { self.enforcement_state with channel_closed := true } ≠ .ok u) :
    ∀ r, Gen.FnChannelForceClose.Channel.sign_holder_commitment_tx_phase2_redundant unchecked mkInfo validator chainState
           validateHolder dummiesN mkKeys mkTx dummy pubkeys cpkeys wrap ldkSign persist self n feerate toHolder toCp off recv
         ≠ .ok r := by
  intro ⟨self', sig⟩ h
  obtain ⟨_, _, _, _, _, _, _, hself, _, hper⟩ :=
    C02_fn_sign_holder_commitment_tx_phase2_redundant unchecked mkInfo validator chainState validateHolder dummiesN mkKeys mkTx
      dummy pubkeys cpkeys wrap ldkSign persist self self' n feerate toHolder toCp off recv sig h
  subst hself
  exact hrefuse () hper

/-- the hand-written model agrees on the write pattern: a signature of `signHolder` / `signRedundant` comes with
    `closed = true` in the new state and `persisted = true` -/
theorem C02_fn_model_sign_closes_durably (c : Chan) (n : Nat) (h : (signHolder c n).out.signed ≠ none) :
    (signHolder c n).c.closed = true ∧ (signHolder c n).persisted = true := by
  unfold signHolder at h ⊢
  by_cases h0 : n + 1 > U64.MAX
  · simp [h0, fail] at h
  · by_cases h1 : n + 1 ≠ c.next
    · simp [h0, h1, fail] at h
    · cases hc : c.cur
      · simp [h0, h1, hc, fail] at h
      · simp [h0, h1]

/-- non-vacuity: with a guard that accepts, a signer that signs and a store that writes, commitment 0 of a channel at
    `next = 1` is signed, the flag is set and written; with a store that refuses, the same request returns no signature -/
example :
    let self : Gen.FnChannelForceClose.Channel Nat :=
      { keys := 7, enforcement_state := { next_holder_commit_num := 1, channel_closed := false }, setup := { commitment_type := .Anchors } }
    let info : CommitmentInfo2 Nat :=
      { to_countersigner_value_sat := 1, to_broadcaster_value_sat := 2, offered_htlcs := [], received_htlcs := [], feerate_per_kw := 253 }
    let run (persist : EnforcementState → Rs.M Unit) :=
      Gen.FnChannelForceClose.Channel.sign_holder_commitment_tx_phase2 (Signature := Nat) (PublicKey := Nat) (TxCreationKeys := Nat)
        (CommitmentTransaction := Nat) (HolderCommitmentTransaction := Nat) ()
        (fun _ es n => if n + 1 = es.next_holder_commit_num then .ok info else Rs.fail "policy-other")
        (fun n => n) id (fun n _ _ _ _ _ => n) (fun _ => []) 0 (fun _ => ⟨1⟩) ⟨2⟩ (fun tx _ _ _ _ => tx) (fun _ tx => .ok (100 + tx))
        persist self 0
    (run (fun es => if es.channel_closed then .ok () else Rs.panic)
        = .ok ({ self with enforcement_state := { next_holder_commit_num := 1, channel_closed := true } }, 100))
    ∧ (∀ r, run (fun _ => Rs.fail "internal") ≠ .ok r) := by
  refine ⟨by rfl, ?_⟩
  intro r
  exact C02_fn_sign_holder_phase2_no_signature_without_write _ _ _ _ _ _ _ _ _ _ _ _ _ _ (by intro u; simp [Rs.fail]) r

end ForceClose

/-! ### Round 10: `Channel::revoke_previous_holder_commitment` itself (`Gen/FnChannelRevoke.lean`)

channel.rs:1246 with its helpers `advance_holder_commitment_state` (:1089), `release_commitment_secret` (:1109),
`get_per_commitment_secret`, `get_per_commitment_point`, regenerated on every run (targets
`translate/fn_targets/ChannelRevoke.b1.json`; payment summaries / `validate_payments` / `Validator::set_next_holder_commit_num`
/ `persist()` are declared externals).  Clauses of C02 (and C01) stated on the generated body, under a filter that keeps
the two guard tags errors: a closed channel never advances and discloses no NEW secret; the state advances only from a
staged commitment, after the payment re-check, and is written before the secret leaves; every disclosed secret `n-1`
satisfies the release guard `(n-1) + 2 ≤ next` on the state that is returned. -/
section Revoke
open VlsModel.Gen.FnChannelRevoke (EnforcementState CommitmentInfo2 ChannelSetup Channel)

variable {CommitmentSignatures InMemorySigner ChannelId PublicKey SecretKey Validator Secret32 PaymentSummary Node NodeState
  BalanceDelta : Type}
variable (unchecked : Nat → PublicKey) (validator : Validator) (f : String → Bool)
  (rel : InMemorySigner → Nat → Option Secret32) (fs : Secret32 → Option SecretKey)

/-- the release guard of the generated `get_per_commitment_secret`: a secret of `k` only when `k + 2 ≤ next` -/
theorem C02_fn_revoke_secret_guard (hf : f "policy-revoke-new-commitment-signed" = true)
    (self : Channel CommitmentSignatures InMemorySigner ChannelId) (k : Nat) (s : SecretKey)
    (h : Channel.get_per_commitment_secret validator f rel fs self k = .ok s) :
    k + 2 ≤ self.enforcement_state.next_holder_commit_num := by
  unfold Channel.get_per_commitment_secret at h
  by_cases hg : k + 2 ≤ self.enforcement_state.next_holder_commit_num
  · exact hg
  · exfalso
    dsimp only at h
    split at h
    · rename_i m hm
      split at h
      · obtain ⟨_, h1, _⟩ := fc_bind_ok h
        simp [Rs.policyErr, hf, Rs.fail] at h1
      · rename_i hd
        unfold Rs.ucheckedAdd at hm
        split at hm
        · cases hm; simp at hd; omega
        · cases hm
    · rw [if_pos rfl] at h
      obtain ⟨_, h1, _⟩ := fc_bind_ok h
      simp [Rs.policyErr, hf, Rs.fail] at h1

/-- the generated `release_commitment_secret`: the channel is returned unchanged; a secret in the reply is that of `n - 1`
    and passed the release guard (`n + 1 ≤ next`) -/
theorem C02_fn_release_commitment_secret (hf : f "policy-revoke-new-commitment-signed" = true)
    (self self' : Channel CommitmentSignatures InMemorySigner ChannelId) (n : Nat) (pt : PublicKey) (sec : Option SecretKey)
    (h : Channel.release_commitment_secret unchecked validator f rel fs self n = .ok (self', (pt, sec))) :
    self' = self ∧ (sec ≠ none → 1 ≤ n ∧ n + 1 ≤ self.enforcement_state.next_holder_commit_num) := by
  unfold Channel.release_commitment_secret at h
  obtain ⟨p, _, h⟩ := fc_bind_ok h
  by_cases hn : n ≥ 1
  · simp only [hn, decide_true, if_true] at h
    obtain ⟨k, hk, h⟩ := fc_bind_ok h
    obtain ⟨s, hs, h⟩ := fc_bind_ok h
    have hsub : Rs.usub n 1 = .ok (n - 1) := by simp [Rs.usub, hn]
    have hkv : n - 1 = k := Except.ok.inj (hsub.symm.trans hk)
    have hgd := C02_fn_revoke_secret_guard validator f rel fs hf self k s hs
    have h' : (self, p, some s) = (self', pt, sec) := Except.ok.inj h
    cases h'
    exact ⟨rfl, fun _ => ⟨hn, by omega⟩⟩
  · simp only [hn, decide_false] at h
    have h' : (self, p, (none : Option SecretKey)) = (self', pt, sec) := Except.ok.inj h
    cases h'
    exact ⟨rfl, fun hne => absurd rfl hne⟩

variable (incoming outgoing : EnforcementState CommitmentSignatures → Option CommitmentInfo2 → Option CommitmentInfo2 → PaymentSummary)
  (node : Node) (getState : Node → NodeState)
  (claimable : EnforcementState CommitmentSignatures → NodeState → Option CommitmentInfo2 → Option CommitmentInfo2 → ChannelSetup → Rs.M BalanceDelta)
  (validatePayments : NodeState → ChannelId → PaymentSummary → PaymentSummary → BalanceDelta → Validator → Rs.M Unit)
  (setNext : Validator → EnforcementState CommitmentSignatures → Nat → CommitmentInfo2 → CommitmentSignatures → Rs.M (EnforcementState CommitmentSignatures))
  (persist : EnforcementState CommitmentSignatures → Rs.M Unit)

/-- **`revoke_previous_holder_commitment` on its generated body.**  A reply is either the no-state-change path
    (`n ≠ next`: channel unchanged, nothing written, a secret only behind the release guard) or the advance
    (`n = next`): the channel was NOT closed, a validated commitment was staged, the payment re-check passed, the new state is
    `set_next_holder_commit_num(n + 1, staged)` of the state with the staging slot cleared, that state was written
    successfully, and the secret of `n - 1` passed the release guard on the new state. -/
theorem C02_fn_revoke_previous_holder_commitment
    (hc : f "policy-revoke-not-closed" = true) (hf : f "policy-revoke-new-commitment-signed" = true)
    (self self' : Channel CommitmentSignatures InMemorySigner ChannelId) (n : Nat) (pt : PublicKey) (sec : Option SecretKey)
    (h : Channel.revoke_previous_holder_commitment unchecked validator f rel fs incoming outgoing node getState claimable
           validatePayments setNext persist self n = .ok (self', (pt, sec))) :
    (n ≠ self.enforcement_state.next_holder_commit_num ∧ self' = self ∧
        (sec ≠ none → 1 ≤ n ∧ n + 1 ≤ self.enforcement_state.next_holder_commit_num))
    ∨ (n = self.enforcement_state.next_holder_commit_num ∧ self.enforcement_state.channel_closed = false ∧
        ∃ info sigs es',
          self.enforcement_state.next_holder_commit_info = some (info, sigs) ∧
          setNext validator { self.enforcement_state with next_holder_commit_info := none } (n + 1) info sigs = .ok es' ∧
          self' = { self with enforcement_state := es' } ∧
          persist es' = .ok () ∧
          (sec ≠ none → 1 ≤ n ∧ n + 1 ≤ es'.next_holder_commit_num)) := by
  unfold Channel.revoke_previous_holder_commitment at h
  by_cases hne : n = self.enforcement_state.next_holder_commit_num
  · right
    simp only [bne_iff_ne, ne_eq, hne, not_true_eq_false, if_false] at h
    have hcl : self.enforcement_state.channel_closed = false := by
      cases hcl : self.enforcement_state.channel_closed
      · rfl
      · rw [if_pos hcl] at h
        obtain ⟨_, hg2, _⟩ := fc_bind_ok h
        simp [Rs.policyErr, hc, Rs.fail] at hg2
    have hnc : ¬ (self.enforcement_state.channel_closed = true) := by simp [hcl]
    rw [if_neg hnc] at h
    cases hst : self.enforcement_state.next_holder_commit_info with
    | none =>
      rw [hst] at h
      obtain ⟨_, hg2, _⟩ := fc_bind_ok h
      simp [Rs.policyErr, hf, Rs.fail] at hg2
    | some st =>
      obtain ⟨info, sigs⟩ := st
      rw [hst] at h
      simp only [Option.isNone_some, Bool.false_eq_true, if_false] at h
      obtain ⟨t2, ht2, h⟩ := fc_bind_ok h
      have ht2v : (info, sigs) = t2 := Except.ok.inj ht2
      subst ht2v
      obtain ⟨delta, _, h⟩ := fc_bind_ok h
      obtain ⟨_, _, h⟩ := fc_bind_ok h
      obtain ⟨⟨s1, p1, ms⟩, hadv, h⟩ := fc_bind_ok h
      obtain ⟨u, hper, h⟩ := fc_bind_ok h
      have h' : (s1, p1, ms) = (self', pt, sec) := Except.ok.inj h
      cases h'
      unfold Channel.advance_holder_commitment_state at hadv
      obtain ⟨n1, hn1, hadv⟩ := fc_bind_ok hadv
      obtain ⟨es', hes, hadv⟩ := fc_bind_ok hadv
      have hn1v : n1 = self.enforcement_state.next_holder_commit_num + 1 := by
        unfold Rs.uadd at hn1; split at hn1
        · exact (Except.ok.inj hn1).symm
        · cases hn1
      obtain ⟨hs1, hsec⟩ := C02_fn_release_commitment_secret unchecked validator f rel fs hf _ self' _ pt sec hadv
      subst hs1
      refine ⟨hne, hcl, info, sigs, es', rfl, ?_, rfl, by cases u; exact hper, ?_⟩
      · rw [hne, ← hn1v]; exact hes
      · intro hs; have := hsec hs; rw [hne]; exact this
  · left
    have hb : (n != self.enforcement_state.next_holder_commit_num) = true := by simp [hne]
    simp only [hb, if_true] at h
    obtain ⟨hs, hsec⟩ := C02_fn_release_commitment_secret unchecked validator f rel fs hf self self' n pt sec h
    exact ⟨hne, hs, hsec⟩

/-- **C02 on the code: once a closing signature marked the channel closed, revocation never advances the state** —
    the channel comes back unchanged, nothing is written, and a secret in the reply is one the release guard already
    allowed (`(n-1) + 2 ≤ next`, i.e. revoked before the signature). -/
theorem C02_fn_revoke_closed_no_advance
    (hc : f "policy-revoke-not-closed" = true) (hf : f "policy-revoke-new-commitment-signed" = true)
    (self self' : Channel CommitmentSignatures InMemorySigner ChannelId) (n : Nat) (pt : PublicKey) (sec : Option SecretKey)
    (hclosed : self.enforcement_state.channel_closed = true)
    (h : Channel.revoke_previous_holder_commitment unchecked validator f rel fs incoming outgoing node getState claimable
           validatePayments setNext persist self n = .ok (self', (pt, sec))) :
    self' = self ∧ (sec ≠ none → 1 ≤ n ∧ (n - 1) + 2 ≤ self.enforcement_state.next_holder_commit_num) := by
  rcases C02_fn_revoke_previous_holder_commitment unchecked validator f rel fs incoming outgoing node getState claimable
      validatePayments setNext persist hc hf self self' n pt sec h with ⟨_, hs, hsec⟩ | ⟨_, hcl, _⟩
  · exact ⟨hs, fun hne => by have := hsec hne; omega⟩
  · rw [hclosed] at hcl; cases hcl

/-- a store that refuses the advanced state means no reply (no secret) on the advancing path -/
theorem C02_fn_revoke_no_secret_without_write
    (hc : f "policy-revoke-not-closed" = true) (hf : f "policy-revoke-new-commitment-signed" = true)
    (self : Channel CommitmentSignatures InMemorySigner ChannelId)
    (hrefuse : ∀ es u, persist es ≠ .ok u) :
    ∀ r, Channel.revoke_previous_holder_commitment unchecked validator f rel fs incoming outgoing node getState claimable
           validatePayments setNext persist self self.enforcement_state.next_holder_commit_num ≠ .ok r := by
  intro ⟨self', pt, sec⟩ h
  rcases C02_fn_revoke_previous_holder_commitment unchecked validator f rel fs incoming outgoing node getState claimable
      validatePayments setNext persist hc hf self self' _ pt sec h with ⟨hne, _⟩ | ⟨_, _, _, _, es', _, _, _, hper, _⟩
  · exact hne rfl
  · exact hrefuse es' () hper

/-- non-vacuity: an open channel at `next = 1` with a staged commitment advances to `next = 2`, writes, and discloses the
    secret of commitment 0; the same request on a closed channel is refused with `policy-revoke-not-closed` -/
example :
    let mk (closed : Bool) : Channel Nat Nat Nat :=
      { keys := 7, enforcement_state := { next_holder_commit_num := 1, next_holder_commit_info := some (⟨⟩, 5), channel_closed := closed },
        setup := ⟨⟩, id0 := 0 }
    let run (c : Channel Nat Nat Nat) (n : Nat) :=
      Channel.revoke_previous_holder_commitment (PublicKey := Nat) (SecretKey := Nat) (Validator := Unit) (Secret32 := Nat)
        (PaymentSummary := Unit) (Node := Unit) (NodeState := Unit) (BalanceDelta := Unit)
        (fun n => n) () (fun _ => true) (fun _ i => some i) (fun s => some s) (fun _ _ _ => ()) (fun _ _ _ => ()) () (fun _ => ())
        (fun _ _ _ _ _ => .ok ()) (fun _ _ _ _ _ _ => .ok ())
        (fun _ es n _ _ => .ok { es with next_holder_commit_num := n }) (fun _ => .ok ()) c n
    run (mk false) 1 = .ok ({ keys := 7, enforcement_state := { next_holder_commit_num := 2, next_holder_commit_info := none, channel_closed := false },
                              setup := ⟨⟩, id0 := 0 }, (2, some 281474976710655))
    ∧ run (mk true) 1 = .error (.err "policy-revoke-not-closed") :=
  ⟨rfl, rfl⟩

/-- **`activate_initial_commitment` on its generated body (channel.rs:2537).**  A reply means: the counter was 0, a validated
    commitment was staged, the new state is `set_next_holder_commit_num(1, staged)` of the state with the staging slot
    cleared, that state was written successfully, and the reply is the point of commitment 1 — no secret leaves here. -/
theorem C02_fn_activate_initial_commitment
    (setNextES : EnforcementState CommitmentSignatures → Nat → CommitmentInfo2 → CommitmentSignatures → EnforcementState CommitmentSignatures)
    (self self' : Channel CommitmentSignatures InMemorySigner ChannelId) (pt : PublicKey)
    (h : Channel.activate_initial_commitment setNextES persist unchecked self = .ok (self', pt)) :
    self.enforcement_state.next_holder_commit_num = 0 ∧
    ∃ info sigs,
      self.enforcement_state.next_holder_commit_info = some (info, sigs) ∧
      self' = { self with enforcement_state :=
                  setNextES { self.enforcement_state with next_holder_commit_info := none } 1 info sigs } ∧
      persist self'.enforcement_state = .ok () ∧ pt = unchecked 1 := by
  unfold Channel.activate_initial_commitment at h
  by_cases h0 : self.enforcement_state.next_holder_commit_num = 0
  · have hb : (self.enforcement_state.next_holder_commit_num != 0) = false := by simp [h0]
    rw [hb] at h
    simp only [Bool.false_eq_true, if_false] at h
    cases hst : self.enforcement_state.next_holder_commit_info with
    | none => rw [hst] at h; simp [Rs.fail] at h
    | some st =>
      obtain ⟨info, sigs⟩ := st
      rw [hst] at h
      dsimp only at h
      obtain ⟨u, hper, h⟩ := fc_bind_ok h
      have h' := Except.ok.inj h
      cases h'
      exact ⟨h0, info, sigs, rfl, rfl, by cases u; exact hper, rfl⟩
  · have hb : (self.enforcement_state.next_holder_commit_num != 0) = true := by simp [h0]
    rw [hb] at h
    simp [Rs.fail] at h

end Revoke

end VlsModel.Props.C02Fn
