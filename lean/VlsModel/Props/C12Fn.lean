import VlsModel.Model.Velocity
import VlsModel.Gen.FnVelocity
import VlsModel.Gen.FnPersistModel
import VlsModel.Gen.FnApprover
import VlsModel.Gen.FnApproveTrait
import VlsModel.Gen.FnNodeAdd
import VlsModel.Gen.FnNodeVelocity
import VlsModel.Gen.FnApproverMemo
import VlsModel.Gen.FnNodeStateNew
import VlsModel.Lemmas.FnGen
/-
C12 — the hand-written model `Model/Velocity.lean` proved equal to the function bodies that
`translate/rs2lean.py` regenerates from `vls-core/src/util/velocity.rs` on every run
(`Gen/FnVelocity.lean`).  A change of an operator, constant, guard or statement order in one of these Rust
functions changes the generated definition and breaks the theorem here.

`toVC` / `toSpec` only rename fields (generated structures carry the Rust field names).
-/
namespace VlsModel.Props.C12Fn
open VlsModel VlsModel.Velocity
open VlsModel.Gen.FnVelocity

def toVC (g : VelocityControl) : VC :=
  { start := g.start_sec, bi := g.bucket_interval, buckets := g.buckets, limit := g.limit }

def toIType : VelocityControlIntervalType → IntervalType
  | .Hourly => .hourly | .Daily => .daily | .Unlimited => .unlimited

def toSpec (s : VelocityControlSpec) : Spec := { limit := s.limit_msat, itype := toIType s.interval_type }

/-- result of a generated `&mut self` method, compared with the model's `Option` (`none` = panic) -/
def toRes (r : Rs.M (VelocityControl × Bool)) : Option (VC × Bool) :=
  match r with
  | .ok (g, b) => some (toVC g, b)
  | .error _ => none

theorem C12_fn_spec_to_triple (s : VelocityControlSpec) :
    VelocityControl.spec_to_triple s = (toSpec s).triple := by
  cases s with | mk l it => cases it <;> rfl

theorem C12_fn_is_unlimited (g : VelocityControl) : g.is_unlimited = (toVC g).isUnlimited := rfl

theorem C12_fn_spec_matches (g : VelocityControl) (s : VelocityControlSpec) :
    g.spec_matches s = (toVC g).specMatches (toSpec s) := by
  simp only [VelocityControl.spec_matches, VC.specMatches, C12_fn_spec_to_triple]
  rfl

theorem C12_fn_update_spec (g : VelocityControl) (s : VelocityControlSpec) :
    toVC (g.update_spec s) = (toVC g).updateSpec (toSpec s) := by
  simp only [VelocityControl.update_spec, VC.updateSpec, C12_fn_spec_matches, C12_fn_spec_to_triple]
  cases h : (toVC g).specMatches (toSpec s) <;> simp [toVC, VC.ofSpec, VC.newWithIntervals, Rs.vecResize]

theorem C12_fn_velocity (g : VelocityControl) : g.velocity = (toVC g).velocity := rfl

/-- `get_state` (what `load_from_state` / a persister that stores only the bucket state would keep): the
    start second and the buckets, nothing of the geometry -/
theorem C12_fn_get_state (g : VelocityControl) : g.get_state = (toVC g).getState := rfl

/-- `new_with_intervals`: the model's constructor is total; the code asserts a positive bucket interval and a
    positive bucket count (the only configurations `C12_main` speaks about) and panics otherwise -/
theorem C12_fn_new_with_intervals (l bi n : Nat) :
    (VelocityControl.new_with_intervals l bi n).map toVC
      = if 0 < bi ∧ 0 < n then .ok (VC.newWithIntervals l bi n) else .error .panic := by
  by_cases h : 0 < bi ∧ 0 < n
  · obtain ⟨h1, h2⟩ := h
    simp [VelocityControl.new_with_intervals, Rs.assert, h1, h2, toVC, VC.newWithIntervals, Rs.vecResize, Except.map]
  · have h' : (decide (bi > 0) && decide (n > 0)) = false := by
      simp only [Bool.and_eq_false_iff, decide_eq_false_iff_not]
      by_cases hb : 0 < bi
      · exact Or.inr (fun hn => h ⟨hb, hn⟩)
      · exact Or.inl hb
    simp [VelocityControl.new_with_intervals, Rs.assert, h', h, Rs.panic, Except.map]

/-- `new_unlimited`: the same with the limit `u64::MAX` -/
theorem C12_fn_new_unlimited (bi n : Nat) :
    (VelocityControl.new_unlimited bi n).map toVC
      = if 0 < bi ∧ 0 < n then .ok (VC.newWithIntervals U64.MAX bi n) else .error .panic := by
  by_cases h : 0 < bi ∧ 0 < n
  · obtain ⟨h1, h2⟩ := h
    simp [VelocityControl.new_unlimited, Rs.assert, h1, h2, toVC, VC.newWithIntervals, Rs.vecResize, Except.map]
    rfl
  · have h' : (decide (bi > 0) && decide (n > 0)) = false := by
      simp only [Bool.and_eq_false_iff, decide_eq_false_iff_not]
      by_cases hb : 0 < bi
      · exact Or.inr (fun hn => h ⟨hb, hn⟩)
      · exact Or.inl hb
    simp [VelocityControl.new_unlimited, Rs.assert, h', h, Rs.panic, Except.map]

/-- `new(spec)`: never panics (every row of `spec_to_triple` is well-formed) and is the model's `VC.ofSpec` -/
theorem C12_fn_new (s : VelocityControlSpec) :
    (VelocityControl.new s).map toVC = .ok (VC.ofSpec (toSpec s)) := by
  cases s with
  | mk l it =>
    cases it <;>
      simp [VelocityControl.new, VelocityControl.spec_to_triple, VelocityControl.new_with_intervals, Rs.assert,
        toVC, toSpec, toIType, VC.ofSpec, Spec.triple, VC.newWithIntervals, Rs.vecResize, Except.map] <;>
      first | exact ⟨rfl, rfl⟩ | exact ⟨rfl, rfl, rfl⟩

/-- `with_state`: start second and buckets are replaced, limit and bucket interval kept -/
theorem C12_fn_with_state (g : VelocityControl) (st : Nat × List Nat) :
    toVC (g.with_state st) = { toVC g with start := st.1, buckets := st.2 } := rfl

/-- `load_from_state(spec, state)` never panics and is the model's `VC.loadFromState`: limit and bucket interval
    of the spec, start second and *bucket vector* of the state — whatever its length (the control that
    `Props/C12`'s counter-example shows to forget too early when the state stems from another geometry) -/
theorem C12_fn_load_from_state (s : VelocityControlSpec) (st : Nat × List Nat) :
    (VelocityControl.load_from_state s st).map toVC = .ok (VC.loadFromState (toSpec s) st) := by
  have h := C12_fn_new s
  unfold VelocityControl.load_from_state
  cases hn : VelocityControl.new s with
  | error e => rw [hn] at h; cases h
  | ok g =>
    rw [hn] at h
    simp only [Except.map, Except.ok.injEq] at h
    simp [Except.map, bind, Except.bind, pure, Except.pure, VC.loadFromState, C12_fn_with_state, h]

/-- the shift loop of `insert` (`for _ in 0..nshift { self.buckets.insert(0, 0) }`) prepends `n` zeros -/
theorem C12_fn_shift_loop (n : Nat) : ∀ s : VelocityControl,
    Rs.iter (fun s : VelocityControl => { s with buckets := 0 :: s.buckets }) n s
      = { s with buckets := List.replicate n 0 ++ s.buckets } := by
  induction n with
  | zero => intro s; rfl
  | succ k ih => intro s; simp [Rs.iter, ih, List.replicate_succ', List.append_assoc]

/-- `insert`: the generated body and the model agree on every input, including which inputs panic
    (`current_sec < start_sec`: `-` overflows; `bucket_interval = 0`: division; empty bucket vector on the
    approving branch: `self.buckets[0]`). -/
theorem C12_fn_insert (g : VelocityControl) (now amt : Nat) :
    toRes (g.insert now amt) = (toVC g).insert now amt := by
  unfold VelocityControl.insert VC.insert
  by_cases h1 : now < g.start_sec
  · simp [toVC, h1, Rs.usub, Nat.not_le.mpr h1, toRes, Rs.overflow]
  · by_cases h2 : g.bucket_interval = 0
    · simp [toVC, h1, h2, Rs.usub, Nat.le_of_not_lt h1, Rs.udiv, toRes, Rs.panic]
    · have hle : g.start_sec ≤ now := Nat.le_of_not_lt h1
      simp only [toVC, h1, h2, Rs.usub, hle, Rs.udiv, Rs.urem, Nat.min_le_left, if_true, if_false, false_or,
        Rs.bind_ok, Rs.pure_eq]
      rw [Rs.foldlM_ok _ (fun s : VelocityControl => { s with buckets := 0 :: s.buckets })
        (by intro s x; simp [Rs.vecInsert_zero])]
      simp only [Rs.range_length, C12_fn_shift_loop, Rs.bind_ok, h2, if_false, Nat.mod_le, if_true, Nat.sub_zero]
      rw [Rs.vecResize_le _ _ _ (Nat.sub_le _ _)]
      have hB : ∀ k, shift g.buckets k = List.replicate k 0 ++ g.buckets.take (g.buckets.length - k) := fun _ => rfl
      simp only [hB]
      generalize List.replicate _ 0 ++ List.take _ g.buckets = B
      have hv : ∀ (a c : Nat) (b : List Nat) (l : Nat),
          (VelocityControl.velocity { start_sec := a, bucket_interval := c, buckets := b, limit := l })
            = (VC.velocity { start := a, bi := c, buckets := b, limit := l }) := fun _ _ _ _ => rfl
      have hs : ∀ a b, Rs.usatAdd Rs.U64_MAX a b = U64.satAdd a b := fun _ _ => rfl
      simp only [hv, hs]
      cases B with
      | nil =>
        simp only [Rs.index, List.getElem?_nil, Rs.panic, Rs.bind_err]
        split <;> simp_all [toRes, toVC]
      | cons x xs =>
        simp only [Rs.index, Rs.setIndex, List.getElem?_cons_zero, Rs.bind_ok, Rs.pure_eq, List.length_cons,
          Nat.zero_lt_succ, if_true, List.set_cons_zero]
        split <;> simp_all [toRes, toVC]


/-- **C12_fn_clear**: `VelocityControl::clear` (every bucket set to 0, nothing else touched) is the model's `VC.clear`. -/
theorem C12_fn_clear (g : VelocityControl) : toVC g.clear = (toVC g).clear := rfl

/-! ## The persisted form of a control (vls-persist/src/model.rs), translated from the source on every run

`impl From<CoreVelocityControl> for VelocityControl` is what `NodeStateEntry::from` applies to both controls of the node
before they are written, `impl From<VelocityControl> for CoreVelocityControl` what `get_nodes` applies to the stored entry
before `NodeState::restore` / `Node::new_full` hand it to `update_spec`. -/
section PersistedControl
open VlsModel.Gen

/-- the control of velocity.rs seen as the `CoreVelocityControl` of model.rs (the same Rust struct under its `use … as` name;
    both generated structures are read from `vls-core/src/util/velocity.rs`) -/
def toCore (g : VelocityControl) : FnPersistModel.CoreVelocityControl :=
  { start_sec := g.start_sec, bucket_interval := g.bucket_interval, buckets := g.buckets, limit := g.limit }
def ofCore (c : FnPersistModel.CoreVelocityControl) : VelocityControl :=
  { start_sec := c.start_sec, bucket_interval := c.bucket_interval, buckets := c.buckets, limit := c.limit }

/-- **C12_fn_persisted_control_roundtrip**: `restore ∘ persist = id` for a velocity control, on the conversions as they are
    in the source now — no field is dropped, defaulted or swapped in either direction, so the control a restarted signer
    hands to `update_spec` is the model control `toVC g` the running signer had (start, bucket interval, every bucket,
    limit): the amount already counted survives.  (The other direction: what is read back and written again is the same
    entry.) -/
theorem C12_fn_persisted_control_roundtrip (g : VelocityControl) (e : FnPersistModel.VelocityControl) :
    FnPersistModel.CoreVelocityControl.«from» (FnPersistModel.VelocityControl.«from» (toCore g)) = toCore g ∧
    toVC (ofCore (FnPersistModel.CoreVelocityControl.«from» (FnPersistModel.VelocityControl.«from» (toCore g)))) = toVC g ∧
    FnPersistModel.VelocityControl.«from» (FnPersistModel.CoreVelocityControl.«from» e) = e :=
  ⟨rfl, rfl, rfl⟩

/-- the persisted entry carries the four numbers of the model control, field by field -/
theorem C12_fn_persisted_control_fields (g : VelocityControl) :
    let e := FnPersistModel.VelocityControl.«from» (toCore g)
    e.start_sec = (toVC g).start ∧ e.bucket_interval = (toVC g).bi ∧ e.buckets = (toVC g).buckets ∧ e.limit = (toVC g).limit :=
  ⟨rfl, rfl, rfl, rfl⟩

/-- non-vacuity: a control with counted amounts comes back with them -/
example : toVC (ofCore (FnPersistModel.CoreVelocityControl.«from» (FnPersistModel.VelocityControl.«from»
    (toCore ⟨7200, 300, [5, 0, 900], 1000⟩)))) = ⟨7200, 300, [5, 0, 900], 1000⟩ := rfl
end PersistedControl



/-! ## `impl Approve for VelocityApprover` (vls-protocol-signer/src/approver.rs), translated from the source on every run

Target list `translate/fn_targets/Approver.b1012.json`.  The approver's control is a `VelocityControl` of velocity.rs: the
translator emits that struct and `insert` / `velocity` / `clear` again inside `Gen.FnApprover` (functions of another file are
translated on demand), so the three ties are re-proved here for this copy — the same source text, the same proofs.
Externals: the clock (`clock.now().as_secs()`), `Invoice::amount_milli_satoshis`, the delegate's three answers. -/
section Approver
open VlsModel.Gen
open VlsModel.Gen.FnApprover (VelocityApprover)

def toVCa (g : FnApprover.VelocityControl) : VC :=
  { start := g.start_sec, bi := g.bucket_interval, buckets := g.buckets, limit := g.limit }

def toResA (r : Rs.M (FnApprover.VelocityControl × Bool)) : Option (VC × Bool) :=
  match r with
  | .ok (g, b) => some (toVCa g, b)
  | .error _ => none

theorem C12_fn_appr_shift_loop (n : Nat) : ∀ s : FnApprover.VelocityControl,
    Rs.iter (fun s : FnApprover.VelocityControl => { s with buckets := 0 :: s.buckets }) n s
      = { s with buckets := List.replicate n 0 ++ s.buckets } := by
  induction n with
  | zero => intro s; rfl
  | succ k ih => intro s; simp [Rs.iter, ih, List.replicate_succ', List.append_assoc]

/-- the copy of `insert` inside `Gen.FnApprover` is the model's `VC.insert` (proof of `C12_fn_insert`) -/
theorem C12_fn_appr_insert (g : FnApprover.VelocityControl) (now amt : Nat) :
    toResA (g.insert now amt) = (toVCa g).insert now amt := by
  unfold FnApprover.VelocityControl.insert VC.insert
  by_cases h1 : now < g.start_sec
  · simp [toVCa, h1, Rs.usub, Nat.not_le.mpr h1, toResA, Rs.overflow]
  · by_cases h2 : g.bucket_interval = 0
    · simp [toVCa, h1, h2, Rs.usub, Nat.le_of_not_lt h1, Rs.udiv, toResA, Rs.panic]
    · have hle : g.start_sec ≤ now := Nat.le_of_not_lt h1
      simp only [toVCa, h1, h2, Rs.usub, hle, Rs.udiv, Rs.urem, Nat.min_le_left, if_true, if_false, false_or,
        Rs.bind_ok, Rs.pure_eq]
      rw [Rs.foldlM_ok _ (fun s : FnApprover.VelocityControl => { s with buckets := 0 :: s.buckets })
        (by intro s x; simp [Rs.vecInsert_zero])]
      simp only [Rs.range_length, C12_fn_appr_shift_loop, Rs.bind_ok, h2, if_false, Nat.mod_le, if_true, Nat.sub_zero]
      rw [Rs.vecResize_le _ _ _ (Nat.sub_le _ _)]
      have hB : ∀ k, shift g.buckets k = List.replicate k 0 ++ g.buckets.take (g.buckets.length - k) := fun _ => rfl
      simp only [hB]
      generalize List.replicate _ 0 ++ List.take _ g.buckets = B
      have hv : ∀ (a c : Nat) (b : List Nat) (l : Nat),
          (FnApprover.VelocityControl.velocity { start_sec := a, bucket_interval := c, buckets := b, limit := l })
            = (VC.velocity { start := a, bi := c, buckets := b, limit := l }) := fun _ _ _ _ => rfl
      have hs : ∀ a b, Rs.usatAdd Rs.U64_MAX a b = U64.satAdd a b := fun _ _ => rfl
      simp only [hv, hs]
      cases B with
      | nil =>
        simp only [Rs.index, List.getElem?_nil, Rs.panic, Rs.bind_err]
        split <;> simp_all [toResA, toVCa]
      | cons x xs =>
        simp only [Rs.index, Rs.setIndex, List.getElem?_cons_zero, Rs.bind_ok, Rs.pure_eq, List.length_cons,
          Nat.zero_lt_succ, if_true, List.set_cons_zero]
        split <;> simp_all [toResA, toVCa]

theorem C12_fn_appr_clear (g : FnApprover.VelocityControl) : toVCa g.clear = (toVCa g).clear := rfl

/-- result of a translated `approve_*` compared with the model's `VC.approve`: (control afterwards, approved) -/
def toApp {Clock A : Type} (r : Rs.M (VelocityApprover Clock A × Bool)) : Option (VC × Bool) :=
  match r with
  | .ok (s, b) => some (toVCa s.control, b)
  | .error _ => none

variable {Clock A Invoice Duration PaymentHash Transaction TxOut : Type}
  (now : Clock → Duration) (secs : Duration → Nat) (self : VelocityApprover Clock A)

/-- **C12_fn_approve_invoice**: `VelocityApprover::approve_invoice` as it is in the source now is the model's `VC.approve`
    on the approver's control, at the clock's second, with the invoice's amount and the delegate's answer: approved
    automatically iff the control accepts; otherwise the delegate is asked, and exactly a manual approval clears the
    control; it fails (panics) exactly when the control's `insert` does.  (`C12_approver` is proved on `VC.approve`.) -/
theorem C12_fn_approve_invoice (amt : Invoice → Nat) (dlg : A → Invoice → Bool) (inv : Invoice) :
    toApp (VelocityApprover.approve_invoice now secs amt dlg self inv)
      = ((toVCa self.control).approve (secs (now self.clock)) (amt inv) (dlg self.delegate inv)).map
          (fun (v, ok, _) => (v, ok)) := by
  unfold VelocityApprover.approve_invoice VC.approve
  rw [← C12_fn_appr_insert]
  cases hins : FnApprover.VelocityControl.insert self.control (secs (now self.clock)) (amt inv) with
  | error e => simp [toResA, toApp, bind, Except.bind]
  | ok res =>
    obtain ⟨c1, ok⟩ := res
    cases ok <;> cases hd : dlg self.delegate inv <;>
      simp [toResA, toApp, hd, bind, Except.bind, pure, Except.pure, C12_fn_appr_clear]

/-- **C12_fn_approve_keysend**: the same for `approve_keysend` (amount given directly). -/
theorem C12_fn_approve_keysend (dlg : A → PaymentHash → Nat → Bool) (ph : PaymentHash) (amt : Nat) :
    toApp (VelocityApprover.approve_keysend now secs dlg self ph amt)
      = ((toVCa self.control).approve (secs (now self.clock)) amt (dlg self.delegate ph amt)).map
          (fun (v, ok, _) => (v, ok)) := by
  unfold VelocityApprover.approve_keysend VC.approve
  rw [← C12_fn_appr_insert]
  cases hins : FnApprover.VelocityControl.insert self.control (secs (now self.clock)) amt with
  | error e => simp [toResA, toApp, bind, Except.bind]
  | ok res =>
    obtain ⟨c1, ok⟩ := res
    cases ok <;> cases hd : dlg self.delegate ph amt <;>
      simp [toResA, toApp, hd, bind, Except.bind, pure, Except.pure, C12_fn_appr_clear]

/-- non-vacuity: over the limit and approved by hand — the control comes back cleared -/
example : toApp (VelocityApprover.approve_keysend (Clock := Nat) (A := Bool) (PaymentHash := Unit) (Duration := Nat)
      (fun c => c) (fun d => d) (fun d _ _ => d) ⟨10, ⟨0, 300, [900, 0], 1000⟩, true⟩ () 200)
    = some (⟨0, 300, [0, 0], 1000⟩, true) := by decide

/-- **C12_fn_approve_onchain**: on-chain spends go to the delegate alone — the approver's control is neither consulted nor
    changed (the statement of C12 is about the node's fee control for L1, not this one); `set_control` replaces the control
    as a whole; `control()` (emitted as `control_fn`: it is named like the field) returns it. -/
theorem C12_fn_approve_onchain (dlg : A → Transaction → List TxOut → List Nat → Bool) (tx : Transaction) (po : List TxOut)
    (ui : List Nat) (c : FnApprover.VelocityControl) :
    VelocityApprover.approve_onchain dlg self tx po ui = dlg self.delegate tx po ui ∧
    VelocityApprover.control_fn self = self.control ∧
    (VelocityApprover.set_control self c).control = c ∧ (VelocityApprover.set_control self c).delegate = self.delegate :=
  ⟨rfl, rfl, rfl, rfl⟩

end Approver

/-! ## The node-level insertion sites behind an approver: `Approve::handle_proposed_invoice` / `handle_proposed_keysend`

Default methods of the trait `Approve` (approver.rs), translated with the trait's required methods (`approve_invoice`,
`approve_keysend`) and the `Node` methods they call as explicit parameters: the theorems hold for every approver and every
node.  `Node::add_invoice` / `add_keysend` are where the *node's* velocity control is consulted (`C12_main` on
`VelocityControl::insert`). -/
section InsertionSites
open VlsModel.Gen.FnApproveTrait

variable {SelfT Node Invoice PaymentHash PaymentState InvoiceHash PublicKey Clock Duration : Type}

/-- **C12_fn_handle_proposed_invoice**: an invoice is answered `Ok(true)` only if the node already holds this very payment
    (`has_payment`: counted when it was added) or `Node::add_invoice` — the node's velocity control — said so; the
    approver's (or the allowlist's) consent is necessary for a new invoice but never sufficient: no path approves past the
    node's control.  A declined approval answers `Ok(false)` without touching the node. -/
theorem C12_fn_handle_proposed_invoice
    (psi : Invoice → Rs.M (PaymentHash × PaymentState × InvoiceHash)) (has : Node → PaymentHash → InvoiceHash → Rs.M Bool)
    (payee : Invoice → PublicKey) (alc : Node → PublicKey → Bool) (addInv : Node → Invoice → Rs.M Bool)
    (appr : SelfT → Invoice → Bool) (self : SelfT) (node : Node) (inv : Invoice) :
    (Approve.handle_proposed_invoice psi has payee alc addInv appr self node inv = .ok true →
      ∃ ph ps ih, psi inv = .ok (ph, ps, ih) ∧
        (has node ph ih = .ok true ∨
         (has node ph ih = .ok false ∧ (alc node (payee inv) = true ∨ appr self inv = true) ∧ addInv node inv = .ok true))) ∧
    (∀ ph ps ih, psi inv = .ok (ph, ps, ih) → has node ph ih = .ok false → alc node (payee inv) = false → appr self inv = false →
      Approve.handle_proposed_invoice psi has payee alc addInv appr self node inv = .ok false) := by
  unfold Approve.handle_proposed_invoice
  constructor
  · intro h
    cases hp : psi inv with
    | error e => simp [hp, bind, Except.bind] at h
    | ok t =>
      obtain ⟨ph, ps, ih⟩ := t
      refine ⟨ph, ps, ih, rfl, ?_⟩
      cases hh : has node ph ih with
      | error e => simp [hp, hh, bind, Except.bind] at h
      | ok b =>
        cases b
        · right
          refine ⟨rfl, ?_⟩
          cases ha : alc node (payee inv) <;> cases hq : appr self inv <;>
            simp [hp, hh, ha, hq, bind, Except.bind, pure, Except.pure] at h ⊢ <;> exact h
        · left; rfl
  · intro ph ps ih hp hh ha hq
    simp [hp, hh, ha, hq, bind, Except.bind, pure, Except.pure]

/-- **C12_fn_handle_proposed_keysend**: the same for a keysend: `Ok(true)` only through `has_payment` or
    `Node::add_keysend` (after the approver's consent); the timestamp of the payment is the node's clock. -/
theorem C12_fn_handle_proposed_keysend
    (clk : Node → Clock) (now : Clock → Duration) (psk : PublicKey → PaymentHash → Nat → Duration → Rs.M (PaymentState × InvoiceHash))
    (has : Node → PaymentHash → InvoiceHash → Rs.M Bool) (appr : SelfT → PaymentHash → Nat → Bool)
    (addKs : Node → PublicKey → PaymentHash → Nat → Rs.M Bool) (self : SelfT) (node : Node) (payee : PublicKey)
    (ph : PaymentHash) (amt : Nat) :
    (Approve.handle_proposed_keysend clk now psk has appr addKs self node payee ph amt = .ok true →
      ∃ ps ih, psk payee ph amt (now (clk node)) = .ok (ps, ih) ∧
        (has node ph ih = .ok true ∨
         (has node ph ih = .ok false ∧ appr self ph amt = true ∧ addKs node payee ph amt = .ok true))) ∧
    (∀ ps ih, psk payee ph amt (now (clk node)) = .ok (ps, ih) → has node ph ih = .ok false → appr self ph amt = false →
      Approve.handle_proposed_keysend clk now psk has appr addKs self node payee ph amt = .ok false) := by
  unfold Approve.handle_proposed_keysend
  constructor
  · intro h
    cases hp : psk payee ph amt (now (clk node)) with
    | error e => simp [hp, bind, Except.bind] at h
    | ok t =>
      obtain ⟨ps, ih⟩ := t
      refine ⟨ps, ih, rfl, ?_⟩
      cases hh : has node ph ih with
      | error e => simp [hp, hh, bind, Except.bind] at h
      | ok b =>
        cases b
        · right
          refine ⟨rfl, ?_⟩
          cases hq : appr self ph amt <;> simp [hp, hh, hq, bind, Except.bind, pure, Except.pure] at h ⊢ <;> exact h
        · left; rfl
  · intro ps ih hp hh hq
    simp [hp, hh, hq, bind, Except.bind, pure, Except.pure]

/-- non-vacuity: a new keysend that the approver accepts and the node's control refuses is answered `Ok(false)` -/
example : Approve.handle_proposed_keysend (SelfT := Unit) (Node := Unit) (PublicKey := Unit) (PaymentHash := Nat) (Clock := Unit)
    (Duration := Nat) (PaymentState := Unit) (InvoiceHash := Nat)
    (fun _ => ()) (fun _ => 5) (fun _ h _ _ => .ok ((), h)) (fun _ _ _ => .ok false) (fun _ _ _ => true) (fun _ _ _ _ => .ok false)
    () () () 7 1000 = .ok false := rfl
end InsertionSites

/-! ## Round 10 (b4): `Node::add_invoice` / `Node::add_keysend` of vls-core/src/node.rs — the two places where the node's
payment velocity control is fed

Target list `translate/fn_targets/NodeAdd.b4.json` (area `NodeAdd`).  The two functions were outside the subset only for the
`defer! { trace_node_state!(..) }` statement (a log line at scope exit), `self.get_state()` (its body, `C06_fn_get_state`) and
`entry(k).or_insert_with(RoutedPayment::new)`; with these three declared normalisations the whole bodies are translated:
validator call, `payment_state_from_invoice` / `payment_state_from_keysend` (translated too), the `max_invoices` bound, the
already-have-it shortcut, the clock read under the lock, `velocity_control.insert`, the two registrations and the persist.
`VelocityControl::insert` / `velocity` of velocity.rs are translated a third time inside `Gen.FnNodeAdd`, hence
`C12_fn_add_insert` (the proof of `C12_fn_insert` over this copy).

The theorems are stated directly on the generated definitions: **every new registration of an approved amount goes through
`VC.insert` of the node's control at the clock's second with exactly the registered amount; a refusal registers nothing; the
shortcut for an amount already registered changes nothing** (that is what `C12_main` / `C12_restart` assume of the node: the
sequence of `insert` calls IS the sequence of approvals).  Seeds of this kind: C12-r2-2 (registration moved before the
`insert`), C12-r3-2 (boolean of `add_invoice` dropped: `C12_fn_handle_proposed_invoice`). -/
section NodeAdd
open VlsModel.Gen
open VlsModel.Gen.FnNodeAdd (Node NodeState PaymentState RoutedPayment PaymentType)

def toVCn (g : FnNodeAdd.VelocityControl) : VC :=
  { start := g.start_sec, bi := g.bucket_interval, buckets := g.buckets, limit := g.limit }

def toResN (r : Rs.M (FnNodeAdd.VelocityControl × Bool)) : Option (VC × Bool) :=
  match r with
  | .ok (g, b) => some (toVCn g, b)
  | .error _ => none

theorem C12_fn_add_shift_loop (n : Nat) : ∀ s : FnNodeAdd.VelocityControl,
    Rs.iter (fun s : FnNodeAdd.VelocityControl => { s with buckets := 0 :: s.buckets }) n s
      = { s with buckets := List.replicate n 0 ++ s.buckets } := by
  induction n with
  | zero => intro s; rfl
  | succ k ih => intro s; simp [Rs.iter, ih, List.replicate_succ', List.append_assoc]

/-- the copy of `insert` inside `Gen.FnNodeAdd` is the model's `VC.insert` (proof of `C12_fn_insert`) -/
theorem C12_fn_add_insert (g : FnNodeAdd.VelocityControl) (now amt : Nat) :
    toResN (g.insert now amt) = (toVCn g).insert now amt := by
  unfold FnNodeAdd.VelocityControl.insert VC.insert
  by_cases h1 : now < g.start_sec
  · simp [toVCn, h1, Rs.usub, Nat.not_le.mpr h1, toResN, Rs.overflow]
  · by_cases h2 : g.bucket_interval = 0
    · simp [toVCn, h1, h2, Rs.usub, Nat.le_of_not_lt h1, Rs.udiv, toResN, Rs.panic]
    · have hle : g.start_sec ≤ now := Nat.le_of_not_lt h1
      simp only [toVCn, h1, h2, Rs.usub, hle, Rs.udiv, Rs.urem, Nat.min_le_left, if_true, if_false, false_or,
        Rs.bind_ok, Rs.pure_eq]
      rw [Rs.foldlM_ok _ (fun s : FnNodeAdd.VelocityControl => { s with buckets := 0 :: s.buckets })
        (by intro s x; simp [Rs.vecInsert_zero])]
      simp only [Rs.range_length, C12_fn_add_shift_loop, Rs.bind_ok, h2, if_false, Nat.mod_le, if_true, Nat.sub_zero]
      rw [Rs.vecResize_le _ _ _ (Nat.sub_le _ _)]
      have hB : ∀ k, shift g.buckets k = List.replicate k 0 ++ g.buckets.take (g.buckets.length - k) := fun _ => rfl
      simp only [hB]
      generalize List.replicate _ 0 ++ List.take _ g.buckets = B
      have hv : ∀ (a c : Nat) (b : List Nat) (l : Nat),
          (FnNodeAdd.VelocityControl.velocity { start_sec := a, bucket_interval := c, buckets := b, limit := l })
            = (VC.velocity { start := a, bi := c, buckets := b, limit := l }) := fun _ _ _ _ => rfl
      have hs : ∀ a b, Rs.usatAdd Rs.U64_MAX a b = U64.satAdd a b := fun _ _ => rfl
      simp only [hv, hs]
      cases B with
      | nil =>
        simp only [Rs.index, List.getElem?_nil, Rs.panic, Rs.bind_err]
        split <;> simp_all [toResN, toVCn]
      | cons x xs =>
        simp only [Rs.index, Rs.setIndex, List.getElem?_cons_zero, Rs.bind_ok, Rs.pure_eq, List.length_cons,
          Nat.zero_lt_succ, if_true, List.set_cons_zero]
        split <;> simp_all [toResN, toVCn]

variable {Clock PaymentHash PublicKey Duration ChannelId PaymentPreimage Persist Invoice Validator Policy : Type}
  [DecidableEq PaymentHash]

/-- what a successful `add_*` call may have done to the node, for the payment `hash` with the state `ps` / invoice hash `ih`
    derived from the request, at the clock's second `now`: either the very same approval was registered before and nothing
    at all changes, or the hash was not registered, the node's control is the model's `VC.insert now ps.amount_msat` of the
    control before with the answer `b`, a refusal leaves invoices and payments as they were, and an acceptance registers
    exactly `ps` under `hash`, keeps an existing routed payment (or creates the empty one) and was persisted. -/
def AddOutcome (upd : Persist → PublicKey → NodeState PaymentHash PublicKey Duration ChannelId PaymentPreimage → Rs.M Unit)
    (nid : PublicKey) (self self' : Node Clock PaymentHash PublicKey Duration ChannelId PaymentPreimage Persist)
    (hash : PaymentHash) (ps : PaymentState PublicKey Duration) (ih : List Nat) (now : Nat) (b : Bool) : Prop :=
  (∃ old, Rs.omapGet self.state.invoices hash = some old ∧ old.invoice_hash = ih ∧ self' = self ∧ b = true) ∨
  (Rs.omapGet self.state.invoices hash = none ∧
    (toVCn self.state.velocity_control).insert now ps.amount_msat = some (toVCn self'.state.velocity_control, b) ∧
    self'.persister = self.persister ∧ self'.clock = self.clock ∧
    (b = false → self'.state.invoices = self.state.invoices ∧ self'.state.payments = self.state.payments) ∧
    (b = true → self'.state.invoices = Rs.omapInsert self.state.invoices hash ps ∧
      Rs.omapGet self'.state.payments hash = some ((Rs.omapGet self.state.payments hash).getD RoutedPayment.new) ∧
      upd self'.persister nid self'.state = .ok ()))

/-- the common tail of the two functions (from the `max_invoices` check on), proved once -/
theorem C12_fn_add_tail
    (upd : Persist → PublicKey → NodeState PaymentHash PublicKey Duration ChannelId PaymentPreimage → Rs.M Unit)
    (nid : PublicKey) (self self' : Node Clock PaymentHash PublicKey Duration ChannelId PaymentPreimage Persist)
    (hash : PaymentHash) (ps : PaymentState PublicKey Duration) (ih : List Nat) (now : Nat) (b : Bool) (maxInv : Nat)
    (h : (if (decide (self.state.invoices.length ≥ maxInv)) then (Rs.fail "failed-precondition" : Rs.M _) else
      match (Rs.omapGet self.state.invoices hash) with
      | some payment_state =>
          if (payment_state.invoice_hash == ih) then pure (self, true) else Rs.fail "failed-precondition"
      | _ => do
          let (s_3, r_4) ← FnNodeAdd.VelocityControl.insert self.state.velocity_control now ps.amount_msat
          let self := { self with state := { self.state with velocity_control := s_3 } }
          if (!r_4) then
            pure (self, false)
          else
            let self := { self with state := { self.state with invoices := (Rs.omapInsert self.state.invoices hash ps) } }
            let fresh : RoutedPayment ChannelId PaymentPreimage := (RoutedPayment.new)
            let self := (match (Rs.omapGet self.state.payments hash) with | some _ => self | _ => (let self := { self with state := { self.state with payments := (Rs.omapInsert self.state.payments hash fresh) } }; self))
            let _ ← Rs.unwrapOk (upd self.persister nid self.state)
            pure (self, true)) = .ok (self', b)) :
    self.state.invoices.length < maxInv ∧ AddOutcome upd nid self self' hash ps ih now b := by
  by_cases hlen : self.state.invoices.length ≥ maxInv
  · simp [hlen, Rs.fail] at h
  · refine ⟨Nat.lt_of_not_ge hlen, ?_⟩
    simp only [hlen, decide_false, Bool.false_eq_true, if_false] at h
    cases hget : Rs.omapGet self.state.invoices hash with
    | some old =>
      left
      simp only [hget] at h
      by_cases he : old.invoice_hash = ih
      · simp [he] at h
        exact ⟨old, hget, he, h.1.symm, h.2⟩
      · simp [he, Rs.fail] at h
    | none =>
      right
      simp only [hget] at h
      have hins := C12_fn_add_insert self.state.velocity_control now ps.amount_msat
      cases hi : FnNodeAdd.VelocityControl.insert self.state.velocity_control now ps.amount_msat with
      | error e => simp [hi, bind, Except.bind] at h
      | ok res =>
        obtain ⟨s3, r4⟩ := res
        rw [hi] at hins
        simp only [toResN] at hins
        simp only [hi, Rs.bind_ok] at h
        cases r4 with
        | false =>
          simp at h
          obtain ⟨h1, h2⟩ := h
          subst h1; subst h2
          refine ⟨hget, hins.symm, rfl, rfl, fun _ => ⟨rfl, rfl⟩, ?_⟩
          intro hb; cases hb
        | true =>
          simp only [Bool.not_true, Bool.false_eq_true, if_false] at h
          cases hp : Rs.omapGet self.state.payments hash with
          | some rp =>
            simp only [hp] at h
            generalize hu : upd _ nid _ = r at h
            cases r with
            | error e => cases e <;> simp [Rs.unwrapOk, bind, Except.bind, Rs.panic] at h
            | ok u =>
              simp [Rs.unwrapOk] at h
              obtain ⟨h1, h2⟩ := h
              subst h1; subst h2
              refine ⟨hget, hins.symm, rfl, rfl, ?_, fun _ => ⟨rfl, by simp [hp], hu⟩⟩
              intro hb; cases hb
          | none =>
            simp only [hp] at h
            generalize hu : upd _ nid _ = r at h
            cases r with
            | error e => cases e <;> simp [Rs.unwrapOk, bind, Except.bind, Rs.panic] at h
            | ok u =>
              simp [Rs.unwrapOk] at h
              obtain ⟨h1, h2⟩ := h
              subst h1; subst h2
              refine ⟨hget, hins.symm, rfl, rfl, ?_, fun _ => ⟨rfl, by simp [Rs.omapGet_omapInsert], hu⟩⟩
              intro hb; cases hb

/-- **C12_fn_add_invoice**: `Node::add_invoice` as it is in the source now.  Whenever it answers `Ok(b)`: the validator
    accepted the invoice at the clock's time, the node held fewer than `max_invoices` invoices, and — for the payment
    hash, amount and invoice hash that `payment_state_from_invoice` reads off the invoice — `AddOutcome`: a NEW
    registration happens only through the model's `VC.insert` of the node's payment velocity control, at the clock's
    second, with exactly the amount that is registered; the control's refusal (`Ok(false)`) registers nothing. -/
theorem C12_fn_add_invoice (vd : Validator) (now : Clock → Duration) (vinv : Validator → Invoice → Duration → Rs.M Unit)
    (ph : Invoice → PaymentHash) (ihf : Invoice → List Nat) (amt : Invoice → Nat) (payee : Invoice → PublicKey)
    (dse exp : Invoice → Duration) (pol : Policy) (maxInv : Policy → Nat) (secs : Duration → Nat) (nid : PublicKey)
    (upd : Persist → PublicKey → NodeState PaymentHash PublicKey Duration ChannelId PaymentPreimage → Rs.M Unit)
    (self self' : Node Clock PaymentHash PublicKey Duration ChannelId PaymentPreimage Persist) (invoice : Invoice) (b : Bool)
    (h : Node.add_invoice vd now vinv ph ihf amt payee dse exp pol maxInv secs nid upd self invoice = .ok (self', b)) :
    vinv vd invoice (now self.clock) = .ok () ∧ self.state.invoices.length < maxInv pol ∧
    AddOutcome upd nid self self' (ph invoice)
      { invoice_hash := ihf invoice, amount_msat := amt invoice, payee := payee invoice,
        duration_since_epoch := dse invoice, expiry_duration := exp invoice, is_fulfilled := false,
        payment_type := PaymentType.Invoice } (ihf invoice) (secs (now self.clock)) b := by
  unfold Node.add_invoice Node.payment_state_from_invoice at h
  cases hv : vinv vd invoice (now self.clock) with
  | error e => simp [hv, bind, Except.bind] at h
  | ok u =>
    simp only [hv, Rs.bind_ok, Rs.pure_eq] at h
    exact ⟨rfl, C12_fn_add_tail upd nid self self' _ _ _ _ b _ h⟩

/-- **C12_fn_add_keysend**: the same for `Node::add_keysend`; the registered state is the one
    `payment_state_from_keysend` builds (amount as given, invoice hash = the bytes of the payment hash, 60 s expiry from
    the clock's time). -/
theorem C12_fn_add_keysend (now : Clock → Duration) (bytes : PaymentHash → List Nat) (fromSecs : Nat → Duration)
    (pol : Policy) (maxInv : Policy → Nat) (secs : Duration → Nat) (nid : PublicKey)
    (upd : Persist → PublicKey → NodeState PaymentHash PublicKey Duration ChannelId PaymentPreimage → Rs.M Unit)
    (self self' : Node Clock PaymentHash PublicKey Duration ChannelId PaymentPreimage Persist)
    (payee : PublicKey) (hash : PaymentHash) (amount : Nat) (b : Bool)
    (h : Node.add_keysend now bytes fromSecs pol maxInv secs nid upd self payee hash amount = .ok (self', b)) :
    self.state.invoices.length < maxInv pol ∧
    AddOutcome upd nid self self' hash
      { invoice_hash := bytes hash, amount_msat := amount, payee := payee,
        duration_since_epoch := now self.clock, expiry_duration := fromSecs 60, is_fulfilled := false,
        payment_type := PaymentType.Keysend } (bytes hash) (secs (now self.clock)) b := by
  unfold Node.add_keysend Node.payment_state_from_keysend at h
  simp only [Rs.bind_ok, Rs.pure_eq] at h
  exact C12_fn_add_tail upd nid self self' _ _ _ _ b _ h

/-- the consequence used by `C12_main`: the control after any answered `add_invoice` accounts for the registered amount —
    if the hash is newly registered (`b = true`, not there before), the model's `insert` accepted exactly that amount -/
theorem C12_fn_add_invoice_counted (vd : Validator) (now : Clock → Duration) (vinv : Validator → Invoice → Duration → Rs.M Unit)
    (ph : Invoice → PaymentHash) (ihf : Invoice → List Nat) (amt : Invoice → Nat) (payee : Invoice → PublicKey)
    (dse exp : Invoice → Duration) (pol : Policy) (maxInv : Policy → Nat) (secs : Duration → Nat) (nid : PublicKey)
    (upd : Persist → PublicKey → NodeState PaymentHash PublicKey Duration ChannelId PaymentPreimage → Rs.M Unit)
    (self self' : Node Clock PaymentHash PublicKey Duration ChannelId PaymentPreimage Persist) (invoice : Invoice) (b : Bool)
    (h : Node.add_invoice vd now vinv ph ihf amt payee dse exp pol maxInv secs nid upd self invoice = .ok (self', b))
    (hnew : Rs.omapGet self.state.invoices (ph invoice) = none)
    (hreg : (Rs.omapGet self'.state.invoices (ph invoice)).isSome) :
    (toVCn self.state.velocity_control).insert (secs (now self.clock)) (amt invoice)
      = some (toVCn self'.state.velocity_control, true) ∧
    (Rs.omapGet self'.state.invoices (ph invoice)).map (·.amount_msat) = some (amt invoice) := by
  obtain ⟨_, _, hout⟩ := C12_fn_add_invoice vd now vinv ph ihf amt payee dse exp pol maxInv secs nid upd self self' invoice b h
  rcases hout with ⟨old, hold, _⟩ | ⟨_, hins, _, _, hf, ht⟩
  · rw [hnew] at hold; cases hold
  · cases b with
    | false =>
      rw [(hf rfl).1, hnew] at hreg; cases hreg
    | true =>
      refine ⟨hins, ?_⟩
      rw [(ht rfl).1, Rs.omapGet_omapInsert]; simp

/-- non-vacuity (keysend): limit 1000 per hour-window of 2 buckets, 900 counted; a new keysend of 200 at second 10 is
    answered `Ok(false)`, nothing is registered, the control is unchanged; a keysend of 100 is registered and counted -/
example : (Node.add_keysend (Clock := Nat) (PaymentHash := Nat) (PublicKey := Unit) (Duration := Nat) (ChannelId := Nat)
      (PaymentPreimage := Nat) (Persist := Unit) (Policy := Unit)
      (fun c => c) (fun h => [h]) (fun s => s) () (fun _ => 5) (fun d => d) () (fun _ _ _ => .ok ())
      ⟨(), 10, ⟨[], [], ⟨0, 300, [900, 0], 1000⟩⟩⟩ () 7 200)
    = .ok (⟨(), 10, ⟨[], [], ⟨0, 300, [900, 0], 1000⟩⟩⟩, false) := rfl

example : (Node.add_keysend (Clock := Nat) (PaymentHash := Nat) (PublicKey := Unit) (Duration := Nat) (ChannelId := Nat)
      (PaymentPreimage := Nat) (Persist := Unit) (Policy := Unit)
      (fun c => c) (fun h => [h]) (fun s => s) () (fun _ => 5) (fun d => d) () (fun _ _ _ => .ok ())
      ⟨(), 10, ⟨[], [], ⟨0, 300, [900, 0], 1000⟩⟩⟩ () 7 100)
    = .ok (⟨(), 10, ⟨[(7, ⟨[7], 100, (), 10, 60, false, .Keysend⟩)], [(7, RoutedPayment.new)], ⟨0, 300, [1000, 0], 1000⟩⟩⟩, true) := rfl

end NodeAdd

/-! ## Round 10 (b4): the plumbing of the node's two velocity controls (area `NodeVelocity`, `fn_targets/NodeVelocity.b4.json`)

`Node::new_full` (every construction of a `Node`: fresh and restored), `Node::update_velocity_controls`,
`NodeState::with_log_prefix`, `Node::make_velocity_control` / `make_fee_velocity_control`.  `new_full` was the gap of the
restart clause ("`Node::new_full` itself is not translated; its two `update_spec` calls are extracted syntactically"): with the
declared normalisations (`Mutex::new(x)` = `x`, the log prefix as an external string, the block under the non-default feature
`timeless_workaround` dropped) its whole body is translated.  Stated on the generated definitions: **the node that comes out of
a (re)start has, as payment control, `update_spec` of the control it was handed (the persisted one: `C11_fn_kvv_get_nodes`)
under the policy's `global_velocity_control()`, and as fee control `update_spec` of the handed fee control under
`fee_velocity_control()` — each in its own position — and everything else of the state as handed**; in model terms
`VC.restart` (`C12_restart`, `C12_restart_any_spec`).  `update_spec` / `spec_matches` / `spec_to_triple` / `new` are translated
once more inside this area (`C12_fn_nv_*`: the proofs of the velocity.rs ties over this copy). -/
section NodeVelocity
open VlsModel.Gen
open VlsModel.Gen.FnNodeVelocity (Node NodeState NodeServices NodeConfig)

def toVCv (g : FnNodeVelocity.VelocityControl) : VC :=
  { start := g.start_sec, bi := g.bucket_interval, buckets := g.buckets, limit := g.limit }

def toITypeV : FnNodeVelocity.VelocityControlIntervalType → IntervalType
  | .Hourly => .hourly | .Daily => .daily | .Unlimited => .unlimited

def toSpecV (s : FnNodeVelocity.VelocityControlSpec) : Spec := { limit := s.limit_msat, itype := toITypeV s.interval_type }

theorem C12_fn_nv_spec_to_triple (s : FnNodeVelocity.VelocityControlSpec) :
    FnNodeVelocity.VelocityControl.spec_to_triple s = (toSpecV s).triple := by
  cases s with | mk l it => cases it <;> rfl

theorem C12_fn_nv_spec_matches (g : FnNodeVelocity.VelocityControl) (s : FnNodeVelocity.VelocityControlSpec) :
    g.spec_matches s = (toVCv g).specMatches (toSpecV s) := by
  simp only [FnNodeVelocity.VelocityControl.spec_matches, VC.specMatches, C12_fn_nv_spec_to_triple]
  rfl

theorem C12_fn_nv_update_spec (g : FnNodeVelocity.VelocityControl) (s : FnNodeVelocity.VelocityControlSpec) :
    toVCv (g.update_spec s) = (toVCv g).updateSpec (toSpecV s) := by
  simp only [FnNodeVelocity.VelocityControl.update_spec, VC.updateSpec, C12_fn_nv_spec_matches, C12_fn_nv_spec_to_triple]
  cases h : (toVCv g).specMatches (toSpecV s) <;> simp [toVCv, VC.ofSpec, VC.newWithIntervals, Rs.vecResize]

theorem C12_fn_nv_new (s : FnNodeVelocity.VelocityControlSpec) :
    (FnNodeVelocity.VelocityControl.new s).map toVCv = .ok (VC.ofSpec (toSpecV s)) := by
  cases s with
  | mk l it =>
    cases it <;>
      simp [FnNodeVelocity.VelocityControl.new, FnNodeVelocity.VelocityControl.spec_to_triple,
        FnNodeVelocity.VelocityControl.new_with_intervals, Rs.assert,
        toVCv, toSpecV, toITypeV, VC.ofSpec, Spec.triple, VC.newWithIntervals, Rs.vecResize, Except.map] <;>
      first | exact ⟨rfl, rfl⟩ | exact ⟨rfl, rfl, rfl⟩

variable {PaymentHash ScriptBuf Xpub PublicKey Secp256k1 Network MyKeysManager ChannelId ChannelSlot ValidatorFactory Persist
  Clock ChainTracker Policy : Type}

/-- `with_log_prefix`: the two controls and the prefix are the given ones, `last_summary` is emptied, all else is kept -/
theorem C12_fn_with_log_prefix (emptyStr : String) (st : NodeState PaymentHash ScriptBuf Xpub PublicKey)
    (vc fvc : FnNodeVelocity.VelocityControl) (pre : String) :
    NodeState.with_log_prefix emptyStr st vc fvc pre
      = { st with velocity_control := vc, fee_velocity_control := fvc, log_prefix := pre, last_summary := emptyStr } := rfl

/-- **C12_fn_new_full**: see the section header.  `pol` is `validator_factory.policy(node_config.network)`. -/
theorem C12_fn_new_full (secp : Secp256k1) (prefixOf : PublicKey → String) (policyOf : ValidatorFactory → Network → Policy)
    (gspec fspec : Policy → FnNodeVelocity.VelocityControlSpec) (emptyStr : String)
    (cfg : NodeConfig Network) (sv : NodeServices Persist Clock ValidatorFactory)
    (st : NodeState PaymentHash ScriptBuf Xpub PublicKey) (km : MyKeysManager) (nid : PublicKey) (tr : ChainTracker) :
    let n : Node PaymentHash ScriptBuf Xpub PublicKey Secp256k1 Network MyKeysManager ChannelId ChannelSlot ValidatorFactory
        Persist Clock ChainTracker := Node.new_full secp prefixOf policyOf gspec fspec emptyStr cfg sv st km nid tr
    let pol := policyOf sv.validator_factory cfg.network
    n.state = { st with velocity_control := st.velocity_control.update_spec (gspec pol),
                        fee_velocity_control := st.fee_velocity_control.update_spec (fspec pol),
                        log_prefix := prefixOf nid, last_summary := emptyStr } ∧
    toVCv n.state.velocity_control = (toVCv st.velocity_control).restart (toSpecV (gspec pol)) ∧
    toVCv n.state.fee_velocity_control = (toVCv st.fee_velocity_control).restart (toSpecV (fspec pol)) ∧
    n.persister = sv.persister ∧ n.clock = sv.clock ∧ n.validator_factory = sv.validator_factory ∧ n.channels = [] := by
  refine ⟨rfl, ?_, ?_, rfl, rfl, rfl, rfl⟩
  · exact C12_fn_nv_update_spec _ _
  · exact C12_fn_nv_update_spec _ _

/-- **C12_fn_update_velocity_controls**: a policy change while running does to the two controls what a restart does
    (`update_spec` each under its own spec of the policy) and touches nothing else of the node. -/
theorem C12_fn_update_velocity_controls (pol : Policy) (gspec fspec : Policy → FnNodeVelocity.VelocityControlSpec)
    (n : Node PaymentHash ScriptBuf Xpub PublicKey Secp256k1 Network MyKeysManager ChannelId ChannelSlot ValidatorFactory
      Persist Clock ChainTracker) :
    Node.update_velocity_controls pol gspec fspec n
      = { n with state := { n.state with velocity_control := n.state.velocity_control.update_spec (gspec pol),
                                          fee_velocity_control := n.state.fee_velocity_control.update_spec (fspec pol) } } ∧
    toVCv (Node.update_velocity_controls pol gspec fspec n).state.velocity_control
      = (toVCv n.state.velocity_control).updateSpec (toSpecV (gspec pol)) ∧
    toVCv (Node.update_velocity_controls pol gspec fspec n).state.fee_velocity_control
      = (toVCv n.state.fee_velocity_control).updateSpec (toSpecV (fspec pol)) :=
  ⟨rfl, C12_fn_nv_update_spec _ _, C12_fn_nv_update_spec _ _⟩

/-- **C12_fn_make_velocity_control** / `make_fee_velocity_control` (a fresh node's controls): `VC.ofSpec` of the policy's
    `global_velocity_control()` resp. `fee_velocity_control()`; never a panic -/
theorem C12_fn_make_velocity_control (gspec : Policy → FnNodeVelocity.VelocityControlSpec) (pol : Policy) :
    (Node.make_velocity_control gspec pol).map toVCv = .ok (VC.ofSpec (toSpecV (gspec pol))) := by
  have := C12_fn_nv_new (gspec pol)
  unfold Node.make_velocity_control
  cases h : FnNodeVelocity.VelocityControl.new (gspec pol) <;> simp_all [Except.map, bind, Except.bind, pure, Except.pure]

theorem C12_fn_make_fee_velocity_control (fspec : Policy → FnNodeVelocity.VelocityControlSpec) (pol : Policy) :
    (Node.make_fee_velocity_control fspec pol).map toVCv = .ok (VC.ofSpec (toSpecV (fspec pol))) := by
  have := C12_fn_nv_new (fspec pol)
  unfold Node.make_fee_velocity_control
  cases h : FnNodeVelocity.VelocityControl.new (fspec pol) <;> simp_all [Except.map, bind, Except.bind, pure, Except.pure]

/-- `Node::network`, `Node::validator_factory` (the lock is the identity), `Node::get_id`: projections; **`Node::policy`** is
    `validator_factory().policy(network())` — the expression that the normalisation `b4_uvc_policy` of
    `update_velocity_controls` replaces by `self.policy()`, and, on a node that came out of `new_full`, the very policy
    `new_full` took the two specs from (same factory, same network). -/
theorem C12_fn_node_policy (polOf : ValidatorFactory → Network → Policy)
    (n : Node PaymentHash ScriptBuf Xpub PublicKey Secp256k1 Network MyKeysManager ChannelId ChannelSlot ValidatorFactory
      Persist Clock ChainTracker) :
    Node.network n = n.node_config.network ∧ Node.validator_factory_fn n = n.validator_factory ∧ Node.get_id n = n.node_id ∧
    Node.policy polOf n = polOf n.validator_factory n.node_config.network := ⟨rfl, rfl, rfl, rfl⟩

theorem C12_fn_node_policy_after_new_full (secp : Secp256k1) (prefixOf : PublicKey → String) (polOf : ValidatorFactory → Network → Policy)
    (gspec fspec : Policy → FnNodeVelocity.VelocityControlSpec) (emptyStr : String)
    (cfg : NodeConfig Network) (sv : NodeServices Persist Clock ValidatorFactory)
    (st : NodeState PaymentHash ScriptBuf Xpub PublicKey) (km : MyKeysManager) (nid : PublicKey) (tr : ChainTracker) :
    Node.policy polOf (Node.new_full (ChannelId := ChannelId) (ChannelSlot := ChannelSlot) secp prefixOf polOf gspec fspec emptyStr cfg sv st km nid tr)
      = polOf sv.validator_factory cfg.network ∧
    Node.get_id (Node.new_full (ChannelId := ChannelId) (ChannelSlot := ChannelSlot) secp prefixOf polOf gspec fspec emptyStr cfg sv st km nid tr) = nid :=
  ⟨rfl, rfl⟩

/-- non-vacuity: a node restored with 900 msat counted under an hourly limit of 1000, restarted under the same policy, keeps
    the 900 (payment control) while its fee control — persisted hourly, policy now daily — starts afresh; positions not swapped -/
example : ((Node.new_full (PaymentHash := Nat) (ScriptBuf := Nat) (Xpub := Nat) (PublicKey := Nat) (Secp256k1 := Unit)
      (Network := Unit) (MyKeysManager := Unit) (ChannelId := Nat) (ChannelSlot := Nat) (ValidatorFactory := Unit)
      (Persist := Unit) (Clock := Unit) (ChainTracker := Unit) (Policy := Unit)
      () (fun _ => "abcd") (fun _ _ => ()) (fun _ => ⟨1000, .Hourly⟩) (fun _ => ⟨5000, .Daily⟩) "" ⟨()⟩ ⟨(), (), ()⟩
      { invoices := [], issued_invoices := [], payments := [], excess_amount := 0, log_prefix := "", last_summary := "x",
        velocity_control := ⟨600, 300, [900, 0, 0, 0, 0, 0, 0, 0, 0, 0, 0, 0], 1000⟩,
        fee_velocity_control := ⟨600, 300, [70, 0, 0, 0, 0, 0, 0, 0, 0, 0, 0, 0], 5000⟩,
        dbid_high_water_mark := 0, allowlist := [] } () 1 ()).state.velocity_control.buckets.head?,
      (Node.new_full (PaymentHash := Nat) (ScriptBuf := Nat) (Xpub := Nat) (PublicKey := Nat) (Secp256k1 := Unit)
      (Network := Unit) (MyKeysManager := Unit) (ChannelId := Nat) (ChannelSlot := Nat) (ValidatorFactory := Unit)
      (Persist := Unit) (Clock := Unit) (ChainTracker := Unit) (Policy := Unit)
      () (fun _ => "abcd") (fun _ _ => ()) (fun _ => ⟨1000, .Hourly⟩) (fun _ => ⟨5000, .Daily⟩) "" ⟨()⟩ ⟨(), (), ()⟩
      { invoices := [], issued_invoices := [], payments := [], excess_amount := 0, log_prefix := "", last_summary := "x",
        velocity_control := ⟨600, 300, [900, 0, 0, 0, 0, 0, 0, 0, 0, 0, 0, 0], 1000⟩,
        fee_velocity_control := ⟨600, 300, [70, 0, 0, 0, 0, 0, 0, 0, 0, 0, 0, 0], 5000⟩,
        dbid_high_water_mark := 0, allowlist := [] } () 1 ()).state.fee_velocity_control.buckets.length)
    = (some 900, 24) := by decide
end NodeVelocity

/-! ## Round 10 (b4): `MemoApprover` (approver.rs) — the approver that remembers manual approvals (until now "not modelled")

Area `ApproverMemo` (`fn_targets/ApproverMemo.b4.json`): `new`, `approve`, `approve_invoice`, `approve_keysend`
(`approve_onchain` is tied by C08: `C08_fn_memo_approve_onchain`).  Stated on the generated definitions: a request is approved by
the memo iff a memorised approval of the same kind matches it EXACTLY (invoice hash; payment hash and amount), otherwise the
delegate (for vlsd: the velocity approver of `C12_fn_approve_invoice` / `_keysend`) decides; every request spends the whole memo
(`drain(..)`), so one manual approval approves at most one request and never changes an amount.  Approvals by the memo are the
user's manual approvals: for `C12_approver` they are delegate answers `true`, outside the automatic window bound. -/
section ApproverMemo
open VlsModel.Gen
open VlsModel.Gen.FnApproverMemo (MemoApprover Approval)
variable {A Invoice PaymentHash Transaction : Type}

theorem C12_fn_memo_loop {α ρ : Type} (hit : α → Bool) (r : ρ) (f : Unit → α → Rs.M (Rs.Flow Unit ρ))
    (hf : ∀ a, f () a = pure (if hit a then .ret r else .next ())) :
    ∀ l : List α, Rs.loopM l () f = pure (if l.any hit then .inr r else .inl ()) := by
  intro l
  induction l with
  | nil => rfl
  | cons a rest ih =>
    by_cases h : hit a = true
    · simp [Rs.loopM, hf, h, bind, Except.bind, pure, Except.pure]
    · have h' : hit a = false := by simpa using h
      simpa [Rs.loopM, hf, h', bind, Except.bind, pure, Except.pure] using ih

theorem C12_fn_memo_new (d : A) : (MemoApprover.new d : MemoApprover A Invoice PaymentHash Transaction) = ⟨d, []⟩ := rfl

theorem C12_fn_memo_approve (m : MemoApprover A Invoice PaymentHash Transaction) (l : List (Approval Invoice PaymentHash Transaction)) :
    m.approve l = ⟨m.delegate, l⟩ := rfl

def memoHitKeysend [DecidableEq PaymentHash] (ph : PaymentHash) (amt : Nat) : Approval Invoice PaymentHash Transaction → Bool
  | .KeySend h n => h == ph && n == amt
  | _ => false

def memoHitInvoice (ih : Invoice → List Nat) (inv : Invoice) : Approval Invoice PaymentHash Transaction → Bool
  | .Invoice i => ih i == ih inv
  | _ => false

theorem C12_fn_memo_approve_keysend [DecidableEq PaymentHash] (dlg : A → PaymentHash → Nat → Bool)
    (m : MemoApprover A Invoice PaymentHash Transaction) (ph : PaymentHash) (amt : Nat) :
    MemoApprover.approve_keysend dlg m ph amt
      = .ok (⟨m.delegate, []⟩, m.approvals.any (memoHitKeysend ph amt) || dlg m.delegate ph amt) := by
  unfold MemoApprover.approve_keysend
  dsimp only
  rw [C12_fn_memo_loop (memoHitKeysend ph amt) ((⟨m.delegate, []⟩ : MemoApprover A Invoice PaymentHash Transaction), true) _
    (by intro a; cases a <;> simp only [memoHitKeysend] <;> first | rfl | (split <;> simp_all))]
  by_cases hh : m.approvals.any (memoHitKeysend ph amt) = true
  · simp [hh, pure, Except.pure, bind, Except.bind]
  · have hh' : m.approvals.any (memoHitKeysend ph amt) = false := by simpa using hh
    simp [hh', pure, Except.pure, bind, Except.bind]

theorem C12_fn_memo_approve_invoice (ih : Invoice → List Nat) (dlg : A → Invoice → Bool)
    (m : MemoApprover A Invoice PaymentHash Transaction) (inv : Invoice) :
    MemoApprover.approve_invoice ih dlg m inv
      = .ok (⟨m.delegate, []⟩, m.approvals.any (memoHitInvoice ih inv) || dlg m.delegate inv) := by
  unfold MemoApprover.approve_invoice
  dsimp only
  rw [C12_fn_memo_loop (memoHitInvoice ih inv) ((⟨m.delegate, []⟩ : MemoApprover A Invoice PaymentHash Transaction), true) _
    (by intro a; cases a <;> simp only [memoHitInvoice] <;> first | rfl | (split <;> simp_all))]
  by_cases hh : m.approvals.any (memoHitInvoice ih inv) = true
  · simp [hh, pure, Except.pure, bind, Except.bind]
  · have hh' : m.approvals.any (memoHitInvoice ih inv) = false := by simpa using hh
    simp [hh', pure, Except.pure, bind, Except.bind]

/-- non-vacuity: a memorised keysend (hash 7, 500 msat) approves exactly that request under a declining delegate, not another
    amount, and is spent by either request -/
example : MemoApprover.approve_keysend (A := Unit) (Invoice := Unit) (PaymentHash := Nat) (Transaction := Unit)
      (fun _ _ _ => false) ⟨(), [.Invoice (), .KeySend 7 500]⟩ 7 500 = .ok (⟨(), []⟩, true)
    ∧ MemoApprover.approve_keysend (A := Unit) (Invoice := Unit) (PaymentHash := Nat) (Transaction := Unit)
      (fun _ _ _ => false) ⟨(), [.Invoice (), .KeySend 7 500]⟩ 7 501 = .ok (⟨(), []⟩, false) := ⟨rfl, rfl⟩
end ApproverMemo

/-! ## Round 10 (b4): `NodeState::new` (node.rs; area `NodeStateNew`, `fn_targets/NodeStateNew.b4.json`)

The constructor of a fresh node state: the two controls handed in (`make_velocity_control` / `make_fee_velocity_control`) go into
their own positions, everything else is empty.  (`NodeState::restore` translates with `collect()` externals but the generated closure
does not elaborate — left for the translator builder; its control positions stay with `C11_fn_kvv_get_nodes` + census.) -/
section NodeStateNew
open VlsModel.Gen
open VlsModel.Gen.FnNodeStateNew (NodeState Allowable)
variable {PaymentHash ScriptBuf Xpub PublicKey : Type}

theorem C12_fn_node_state_new (emptyStr : String) (setOf : List (Allowable ScriptBuf Xpub PublicKey) → List (Allowable ScriptBuf Xpub PublicKey))
    (vc fvc : FnNodeStateNew.VelocityControl) (al : List (Allowable ScriptBuf Xpub PublicKey)) :
    let st : NodeState PaymentHash ScriptBuf Xpub PublicKey := NodeState.new emptyStr setOf vc fvc al
    st.velocity_control = vc ∧ st.fee_velocity_control = fvc ∧ st.invoices = [] ∧ st.issued_invoices = [] ∧ st.payments = [] ∧
    st.excess_amount = 0 ∧ st.dbid_high_water_mark = 0 ∧ st.allowlist = setOf al :=
  ⟨rfl, rfl, rfl, rfl, rfl, rfl, rfl, rfl⟩

end NodeStateNew

end VlsModel.Props.C12Fn
