import VlsModel.Model.Sweep
import VlsModel.Lemmas.Sweep
import VlsModel.Lemmas.Wallet
/-
C09 — Sweep and second-level HTLC signatures only move funds back to the node.

Statement (properties.jsonl): the signer signs a delayed-output, counterparty-HTLC or justice sweep only
if every output of the sweep pays a wallet-derivable or allowlisted script and the version, locktime and
sequence are within the bounds implied by the channel's contest delay, the HTLC expiry and the current
chain height.  Through the requests that present a second-level HTLC transaction with its scripts, it
signs only the BOLT-3 transaction for that HTLC with the negotiated delay, revocation and delayed keys
and an in-range fee rate.

Model: `VlsModel/Model/Sweep.lean`.  The theorems are implications from "a signature was returned"
(`Res.ok`) over all transactions, heights, delays and policies; nothing is bounded.

Non-permissive-filter hypothesis: `validate_sweep` raises policy-sweep-destination-allowlisted through
`policy_err!`, so a policy filter that demotes this tag to a warning (e.g. `PolicyFilter::new_permissive()`)
lets any destination through; the theorems take `destFilter = true` ("the filter keeps the tag an error",
true for `PolicyFilter::default()`), and `C09_sweep_needs_filter` shows the hypothesis is necessary.
Likewise `C09_htlc` states the feerate / locktime conjuncts under the corresponding filter bits.
-/
namespace VlsModel.Props.C09
open VlsModel VlsModel.Sweep

/-- the output pays a script the wallet can spend at the request's path, or an allowlisted one -/
def DestOk (o : SweepOut) : Prop :=
  o.canSpend = some true ∨ (o.canSpend = some false ∧ o.allow = .yes)

/-- locktime within the bound `h`: a height-domain locktime not above `h`, or the one time-domain value
    that is in the past for every block (`Time::MIN` = 500_000_000; `is_satisfied_by` accepts exactly it) -/
def LocktimeWithin (locktime h : Nat) : Prop :=
  (locktime < lockTimeThreshold ∧ locktime ≤ h) ∨ locktime = lockTimeThreshold

theorem sweepOuts_ok (outs : List SweepOut) (h : sweepOutsF true outs = .ok) : ∀ o ∈ outs, DestOk o := by
  induction outs with
  | nil => intro o ho; cases ho
  | cons a rest ih =>
    intro o ho
    unfold sweepOutsF at h
    split at h
    · cases h
    · rename_i hc
      rcases List.mem_cons.mp ho with rfl | ho
      · exact Or.inl hc
      · exact ih h o ho
    · rename_i hc
      split at h
      · cases h
      · rename_i ha
        rcases List.mem_cons.mp ho with rfl | ho
        · exact Or.inr ⟨hc, ha⟩
        · exact ih h o ho
      · simp at h

theorem validateSweep_ok (tx : SweepTx) (h : validateSweep true tx = .ok) :
    tx.version = 2 ∧ ∀ o ∈ tx.outs, DestOk o := by
  unfold validateSweep at h
  split at h
  · cases h
  · rename_i hv
    exact ⟨by simpa using hv, sweepOuts_ok _ h⟩

theorem locktimeSatisfied_within (lt h : Nat) (hs : locktimeSatisfied lt h = true) : LocktimeWithin lt h := by
  unfold locktimeSatisfied at hs
  unfold LocktimeWithin
  split at hs
  · left; exact ⟨by assumption, by simpa using hs⟩
  · right
    have : lt ≤ lockTimeThreshold := by simpa using hs
    omega

theorem lagHeight_some (ch h : Nat) (hl : lagHeight ch = some h) :
    h = ch + Gen.Onchain.maxChainLag ∧ h < lockTimeThreshold := by
  unfold lagHeight at hl
  simp only at hl
  split at hl
  · cases hl
  · rename_i hn
    cases hl
    exact ⟨rfl, by omega⟩

/-- the three sweep requests -/
inductive SweepReq
  | delayed (tx : SweepTx) (input : Nat) (commitOk : Bool) (currentHeight cpSelectedDelay : Nat)
  | counterpartyHtlc (tx : SweepTx) (input : Nat) (script : HtlcScript) (anchors : Bool) (currentHeight : Nat)
  | justice (tx : SweepTx) (input : Nat) (currentHeight : Nat)

def SweepReq.tx : SweepReq → SweepTx
  | .delayed tx .. => tx | .counterpartyHtlc tx .. => tx | .justice tx .. => tx

def SweepReq.input : SweepReq → Nat
  | .delayed _ i .. => i | .counterpartyHtlc _ i .. => i | .justice _ i .. => i

def SweepReq.sign (destFilter : Bool) : SweepReq → Res
  | .delayed tx i c h d => signDelayedSweep destFilter tx i c h d
  | .counterpartyHtlc tx i s a h => signCounterpartyHtlcSweep destFilter tx i s a h
  | .justice tx i h => signJusticeSweep destFilter tx i h

/-- the locktime / sequence bounds of each sweep kind -/
def SweepReq.Bounds : SweepReq → Prop
  | .delayed tx _ _ h d =>
    LocktimeWithin tx.locktime (h + Gen.Onchain.maxChainLag) ∧ tx.seq0 = d
  | .counterpartyHtlc tx _ s a h =>
    (match s with
     | .received cltv => 0 ≤ cltv ∧ cltv ≤ (U32.MAX : Int) ∧ (tx.locktime : Int) ≤ cltv
     | .offered => LocktimeWithin tx.locktime (h + Gen.Onchain.maxChainLag)
     | .invalid => False) ∧
    tx.seq0 ∈ (if a then Gen.Onchain.anchorSeqs else Gen.Onchain.nonAnchorSeqs)
  | .justice tx _ h =>
    LocktimeWithin tx.locktime (h + Gen.Onchain.maxChainLag) ∧ tx.seq0 ∈ Gen.Onchain.nonAnchorSeqs

/-- **C09 (sweeps)**: a sweep signature is returned only if the signed input exists, the version is 2,
    **every** output is wallet-derivable or allowlisted, and locktime and `input[0].sequence` are within
    the bounds of that sweep kind. -/
theorem delayed_ok (tx : SweepTx) (i : Nat) (c : Bool) (ht d : Nat)
    (h : signDelayedSweep true tx i c ht d = .ok) :
    i < tx.nInputs ∧ validateSweep true tx = .ok ∧
      ∃ hh, lagHeight ht = some hh ∧ locktimeSatisfied tx.locktime hh = true ∧ tx.seq0 = d := by
  unfold signDelayedSweep at h
  grind

theorem justice_ok (tx : SweepTx) (i : Nat) (ht : Nat)
    (h : signJusticeSweep true tx i ht = .ok) :
    i < tx.nInputs ∧ validateSweep true tx = .ok ∧
      ∃ hh, lagHeight ht = some hh ∧ locktimeSatisfied tx.locktime hh = true ∧
        Gen.Onchain.nonAnchorSeqs.contains tx.seq0 = true := by
  unfold signJusticeSweep at h
  grind

theorem cphtlc_ok (tx : SweepTx) (i : Nat) (s : HtlcScript) (a : Bool) (ht : Nat)
    (h : signCounterpartyHtlcSweep true tx i s a ht = .ok) :
    i < tx.nInputs ∧ validateSweep true tx = .ok ∧
      (match s with
       | .received cltv => 0 ≤ cltv ∧ cltv ≤ (U32.MAX : Int) ∧ (tx.locktime : Int) ≤ cltv
       | .offered => ∃ hh, lagHeight ht = some hh ∧ locktimeSatisfied tx.locktime hh = true
       | .invalid => False) ∧
      (if a then Gen.Onchain.anchorSeqs else Gen.Onchain.nonAnchorSeqs).contains tx.seq0 = true := by
  unfold signCounterpartyHtlcSweep at h
  cases s <;> grind

/-- **C09 (sweeps)**: a sweep signature is returned only if the signed input exists, the version is 2,
    **every** output is wallet-derivable or allowlisted, and locktime and `input[0].sequence` are within
    the bounds of that sweep kind. -/
theorem C09_sweep (r : SweepReq) (h : r.sign true = .ok) :
    r.input < r.tx.nInputs ∧ r.tx.version = 2 ∧ (∀ o ∈ r.tx.outs, DestOk o) ∧ r.Bounds := by
  cases r with
  | delayed tx i c ht d =>
    obtain ⟨hi, hv, hh, hl, hlock, hseq⟩ := delayed_ok tx i c ht d h
    obtain ⟨hver, houts⟩ := validateSweep_ok tx hv
    obtain ⟨rfl, _⟩ := lagHeight_some _ _ hl
    exact ⟨hi, hver, houts, locktimeSatisfied_within _ _ hlock, hseq⟩
  | counterpartyHtlc tx i s a ht =>
    obtain ⟨hi, hv, hs, hseq⟩ := cphtlc_ok tx i s a ht h
    obtain ⟨hver, houts⟩ := validateSweep_ok tx hv
    refine ⟨hi, hver, houts, ?_, by simpa [List.contains_iff_mem] using hseq⟩
    cases s with
    | received cltv => exact hs
    | offered =>
      obtain ⟨hh, hl, hlock⟩ := hs
      obtain ⟨rfl, _⟩ := lagHeight_some _ _ hl
      exact locktimeSatisfied_within _ _ hlock
    | invalid => exact hs
  | justice tx i ht =>
    obtain ⟨hi, hv, hh, hl, hlock, hseq⟩ := justice_ok tx i ht h
    obtain ⟨hver, houts⟩ := validateSweep_ok tx hv
    obtain ⟨rfl, _⟩ := lagHeight_some _ _ hl
    exact ⟨hi, hver, houts, locktimeSatisfied_within _ _ hlock, by simpa [List.contains_iff_mem] using hseq⟩

/-- The destination conjunct needs the non-permissive filter: with the tag demoted to a warning a sweep
    to an unknown script is signed (full statement without the hypothesis is false). -/
theorem C09_sweep_needs_filter :
    ∃ r : SweepReq, r.sign false = .ok ∧ ¬ (∀ o ∈ r.tx.outs, DestOk o) := by
  refine ⟨.justice ⟨2, 0, 1, 0, [⟨some false, .no⟩]⟩ 0 100, by decide, ?_⟩
  intro h
  have := h ⟨some false, .no⟩ (by simp [SweepReq.tx])
  simp [DestOk] at this

/-- the generated constants are the ones the bounds above are stated with -/
theorem C09_gen_table_ok :
    Gen.Onchain.maxChainLag = 2 ∧ Gen.Onchain.anchorSeqs = [1] ∧
    Gen.Onchain.nonAnchorSeqs = [0, 4294967293, 4294967295] := by decide

/-! ### Second-level HTLC transactions -/

/-- what "the transaction is the BOLT-3 HTLC transaction `rtx`" means for the signature that is returned:
    without anchors (SIGHASH_ALL) the whole transaction; with anchors (SIGHASH_SINGLE|ANYONECANPAY, by BOLT-3
    design extra inputs/outputs may be attached) version, locktime, first input and first output. -/
def IsBolt3 (anchors : Bool) (tx rtx : HtlcTx) : Prop :=
  if anchors then
    tx.version = rtx.version ∧ tx.locktime = rtx.locktime ∧ tx.ins.head? = rtx.ins.head? ∧
      tx.outs.head? = rtx.outs.head?
  else tx = rtx

theorem sighashEq_bolt3 (anchors : Bool) (tx rtx : HtlcTx) (h : sighashEq anchors tx rtx = true) :
    IsBolt3 anchors tx rtx := by
  unfold sighashEq at h
  unfold IsBolt3
  cases anchors with
  | true => simpa [Bool.and_eq_true, and_assoc] using h
  | false => simpa using h

theorem validateHtlcTx_ok (pol : HtlcPolicy) (ct : CommitmentType) (offered : Bool) (cltv feerate : Nat)
    (h : validateHtlcTx pol ct offered cltv feerate = .ok) :
    (pol.fltFeeRange = true → feerate ≤ pol.maxFeerate ∧ (ct.isZeroFee = false → pol.minFeerate ≤ feerate)) ∧
    (pol.fltLocktime = true → offered = true → cltv ≠ 0) := by
  unfold validateHtlcTx at h
  grind

/-- **C09 (HTLC)**: `sign_holder_htlc_tx` / `sign_counterparty_htlc_tx` return a signature only if the
    redeemscript is an HTLC script and the transaction is the BOLT-3 HTLC transaction recomposed from its own
    first input's outpoint, a feerate, the negotiated `toSelfDelay` and the negotiated revocation / delayed
    keys (ids 0/0); the feerate is 0 for zero-fee-HTLC channels and otherwise within `[min, max]`, an offered
    HTLC has a non-zero locktime (the two policy conjuncts under their filter bits). -/
theorem C09_htlc (pol : HtlcPolicy) (ct : CommitmentType) (toSelfDelay : Nat) (tx : HtlcTx)
    (redeem : RedeemKind) (amountSat : Nat) (h : signHtlcTx pol ct toSelfDelay tx redeem amountSat = .ok) :
    redeem ≠ .invalid ∧
    ∃ in0 feerate rtx, tx.ins.head? = some in0 ∧
      recompose ct in0.txid in0.vout feerate toSelfDelay (redeem == .offered)
        (if (redeem == .offered) = true then tx.locktime else 0) amountSat 0 0 = some rtx ∧
      IsBolt3 ct.isAnchors tx rtx ∧
      (ct.isZeroFee = true → feerate = 0) ∧
      (pol.fltFeeRange = true → feerate ≤ pol.maxFeerate ∧ (ct.isZeroFee = false → pol.minFeerate ≤ feerate)) ∧
      (pol.fltLocktime = true → redeem = .offered → tx.locktime ≠ 0) := by
  unfold signHtlcTx at h
  cases hi : tx.ins with
  | nil => simp [hi] at h
  | cons in0 rest =>
    simp only [hi] at h
    by_cases hr : redeem = .invalid
    · simp [hr] at h
    · simp only [hr, if_false] at h
      cases ho : tx.outs with
      | nil => simp [ho] at h
      | cons out0 orest =>
        simp only [ho] at h
        cases hcs : U64.checkedSub amountSat out0.value with
        | none => simp [hcs] at h
        | some totalFee =>
          simp only [hcs] at h
          cases hcm : U64.checkedMul amountSat 1000 with
          | none => simp [hcm] at h
          | some v =>
            simp only [hcm] at h
            cases hrc : recompose ct in0.txid in0.vout (htlcFeerate ct (redeem == .offered) totalFee) toSelfDelay
                (redeem == .offered) (if (redeem == .offered) = true then tx.locktime else 0) amountSat 0 0 with
            | none => rw [hrc] at h; simp at h
            | some rtx =>
              rw [hrc] at h; simp only at h
              by_cases hs : sighashEq ct.isAnchors tx rtx = false
              · simp [hs] at h
              · simp only [hs] at h
                obtain ⟨h1, h2⟩ := validateHtlcTx_ok _ _ _ _ _ h
                refine ⟨hr, in0, _, rtx, by simp, hrc, sighashEq_bolt3 _ _ _ (by simpa using hs), ?_, h1, ?_⟩
                · intro hz; simp [htlcFeerate, hz]
                · intro hf hro
                  have := h2 hf (by simp [hro])
                  simpa [hro] using this

/-- **C09 (HTLC, field by field)**: the signed transaction has version 2, locktime 0 unless the HTLC is offered,
    its first input has sequence 1 (zero-fee anchors) or 0, its first output pays the revokeable script of the
    negotiated delay and keys (ids 0/0) exactly `amount − feerate·weight/1000` (`amount` for zero-fee channels)
    with the feerate in the policy range, and without anchors (SIGHASH_ALL) there is nothing else in it. -/
theorem C09_htlc_fields (pol : HtlcPolicy) (ct : CommitmentType) (toSelfDelay : Nat) (tx : HtlcTx)
    (redeem : RedeemKind) (amountSat : Nat) (h : signHtlcTx pol ct toSelfDelay tx redeem amountSat = .ok) :
    tx.version = 2 ∧ (redeem ≠ .offered → tx.locktime = 0) ∧
    ∃ in0 out0 feerate, tx.ins.head? = some in0 ∧ tx.outs.head? = some out0 ∧
      in0.sequence = (if ct.isZeroFee then 1 else 0) ∧
      out0.script = .revokeable 0 toSelfDelay 0 ∧
      out0.value + htlcFee ct (redeem == .offered) feerate = amountSat ∧
      (ct.isZeroFee = true → feerate = 0) ∧
      (pol.fltFeeRange = true → feerate ≤ pol.maxFeerate ∧ (ct.isZeroFee = false → pol.minFeerate ≤ feerate)) ∧
      (ct.isAnchors = false → tx.ins = [in0] ∧ tx.outs = [out0]) := by
  obtain ⟨_, in0, feerate, rtx, hin, hrec, hb, hz, hfr, _⟩ := C09_htlc pol ct toSelfDelay tx redeem amountSat h
  obtain ⟨hfee, hrtx⟩ := recompose_some _ _ _ _ _ _ _ _ _ _ _ hrec
  have hro : redeem ≠ .offered → (redeem == RedeemKind.offered) = false := by
    intro hr; cases redeem <;> simp_all
  have rv : rtx.version = 2 := by rw [hrtx]
  have rl : rtx.locktime = if (redeem == RedeemKind.offered) = true then
      (if (redeem == RedeemKind.offered) = true then tx.locktime else 0) else 0 := by rw [hrtx]
  have ri : rtx.ins = [({ txid := in0.txid, vout := in0.vout, sequence := if ct.isZeroFee then 1 else 0 } : TxIn)] := by
    rw [hrtx]
  have ro : rtx.outs = [TxOut.mk (amountSat - htlcFee ct (redeem == .offered) feerate)
      (.revokeable 0 toSelfDelay 0)] := by rw [hrtx]
  have hcore : tx.version = rtx.version ∧ tx.locktime = rtx.locktime ∧ tx.ins.head? = rtx.ins.head? ∧
      tx.outs.head? = rtx.outs.head? ∧ (ct.isAnchors = false → tx = rtx) := by
    unfold IsBolt3 at hb
    cases ha : ct.isAnchors with
    | true => simp only [ha, if_true] at hb; exact ⟨hb.1, hb.2.1, hb.2.2.1, hb.2.2.2, by intro hc; cases hc⟩
    | false =>
      have hb' : tx = rtx := by simpa [ha] using hb
      exact ⟨by rw [hb'], by rw [hb'], by rw [hb'], by rw [hb'], fun _ => hb'⟩
  obtain ⟨hv, hl, hi, ho, hall⟩ := hcore
  rw [rv] at hv
  rw [rl] at hl
  rw [ri, hin] at hi
  rw [ro] at ho
  simp only [List.head?_cons] at hi ho
  have hX := Option.some.inj hi
  have hseq := congrArg TxIn.sequence hX
  simp only at hseq
  refine ⟨hv, ?_, in0, _, feerate, hin, ho, hseq, rfl, ?_, hz, hfr, ?_⟩
  · intro hr; simpa [hro hr] using hl
  · simp only; omega
  · intro ha
    have ht := hall ha
    refine ⟨?_, ?_⟩
    · rw [ht, ri]; exact congrArg (fun x => [x]) hX.symm
    · rw [ht, ro]

/-! ### Non-vacuity -/

/-- a two-output delayed sweep to the wallet and an allowlisted script at `height + MAX_CHAIN_LAG` is signed -/
example : (SweepReq.delayed ⟨2, 102, 1, 7, [⟨some true, .no⟩, ⟨some false, .yes⟩]⟩ 0 true 100 7).sign true = .ok := by
  decide

/-- … and is refused when only the *second* output is unknown, or one block later -/
example : (SweepReq.delayed ⟨2, 102, 1, 7, [⟨some true, .no⟩, ⟨some false, .no⟩]⟩ 0 true 100 7).sign true = .errPolicy
    ∧ (SweepReq.delayed ⟨2, 103, 1, 7, [⟨some true, .no⟩]⟩ 0 true 100 7).sign true = .errFormat := by decide

/-- `input[0].sequence` must equal the contest delay on all 32 bits: the delay with the BIP68 disable flag
    (0x80000007), the time-units flag (0x00400007) or the high half set (0xffff0007) is refused
    (`C09_sweep` states `tx.seq0 = d` for the full value, not for its low 16 bits) -/
example : (SweepReq.delayed ⟨2, 0, 1, 2147483655, [⟨some true, .no⟩]⟩ 0 true 100 7).sign true = .errFormat
    ∧ (SweepReq.delayed ⟨2, 0, 1, 4194311, [⟨some true, .no⟩]⟩ 0 true 100 7).sign true = .errFormat
    ∧ (SweepReq.delayed ⟨2, 0, 1, 4294901767, [⟨some true, .no⟩]⟩ 0 true 100 7).sign true = .errFormat := by decide

/-- the time-domain value 500_000_000 passes the height check (it is in the past), 500_000_001 does not -/
example : (SweepReq.justice ⟨2, 500000000, 1, 0, [⟨some true, .no⟩]⟩ 0 100).sign true = .ok
    ∧ (SweepReq.justice ⟨2, 500000001, 1, 0, [⟨some true, .no⟩]⟩ 0 100).sign true = .errFormat := by decide

/-- the canonical HTLC-timeout of a static-remotekey channel at 1000 sat/kw (fee 663) is signed; a wrong
    delay in the output script is refused -/
example : signHtlcTx ⟨253, 333333, true, true⟩ .staticRemoteKey 7
      ⟨2, 131072, [⟨5, 0, 0⟩], [⟨9337, .revokeable 0 7 0⟩]⟩ .offered 10000 = .ok
    ∧ signHtlcTx ⟨253, 333333, true, true⟩ .staticRemoteKey 7
      ⟨2, 131072, [⟨5, 0, 0⟩], [⟨9337, .revokeable 0 6 0⟩]⟩ .offered 10000 = .errPolicy := by decide

/-- a zero-fee anchors HTLC-success with an attached fee input/output is signed (SIGHASH_SINGLE|ANYONECANPAY) -/
example : signHtlcTx ⟨253, 333333, true, true⟩ .anchorsZeroFee 6
      ⟨2, 0, [⟨5, 1, 1⟩, ⟨9, 0, 0⟩], [⟨10000, .revokeable 0 6 0⟩, ⟨500, .other 4⟩]⟩ .received 10000 = .ok := by decide

/-! ## Which scripts a sweep may pay: `Wallet::can_spend` / `allowlist_contains` as decision logic (Model/Wallet.lean) -/
section WalletLogic
open VlsModel.Wallet

/-- the two facts `validate_sweep` obtains from the wallet for one output, computed by the model of `impl Wallet for Node`
    (`Sweep.outOfScript`, which the driver model also uses: the harness sends script descriptors, not facts) -/
abbrev sweepOutOfScript := Sweep.outOfScript

/-- **C09 (destinations)**: an output that passes `validate_sweep` pays one of the three segwit forms of the node's own
    key at the request's wallet path, or a listed script, or a p2wpkh / p2pkh / p2tr child at that path of an allowlisted
    extended key -/
theorem C09_dest_scripts (style : Style) (allow : List Allowable) (path : List Nat) (s : Wallet.Script)
    (h : DestOk (sweepOutOfScript style allow path s)) :
    (path ≠ [] ∧ PathFits style path ∧ SpendableForm s (.account path)) ∨ .script s ∈ allow ∨
      (path ≠ [] ∧ path.any hardened = false ∧ ∃ j, .xpub j ∈ allow ∧ XpubForm s (xpubKey j path)) := by
  unfold DestOk sweepOutOfScript Sweep.outOfScript at h
  rcases h with h | ⟨_, h⟩
  · exact Or.inl ((canSpend_true style path s).mp h)
  · have hy : allowlistContains allow s path = .yes := by
      cases ha : allowlistContains allow s path <;> simp [ha] at h ⊢
    rcases (allowlistContains_yes allow s path).mp hy with h1 | h2
    · exact Or.inr (Or.inl h1)
    · exact Or.inr (Or.inr h2)

/-- every output of a signed sweep, at the level of scripts -/
theorem C09_sweep_scripts (style : Style) (allow : List Allowable) (path : List Nat) (scripts : List Wallet.Script)
    (tx : SweepTx) (htx : tx.outs = scripts.map (sweepOutOfScript style allow path))
    (h : validateSweep true tx = .ok) :
    ∀ s ∈ scripts,
      (path ≠ [] ∧ PathFits style path ∧ SpendableForm s (.account path)) ∨ .script s ∈ allow ∨
        (path ≠ [] ∧ path.any hardened = false ∧ ∃ j, .xpub j ∈ allow ∧ XpubForm s (xpubKey j path)) := by
  intro s hs
  have := (validateSweep_ok tx h).2 (sweepOutOfScript style allow path s) (by rw [htx]; exact List.mem_map_of_mem hs)
  exact C09_dest_scripts style allow path s this

example : DestOk (sweepOutOfScript .native [] [3] (.addr .p2tr (.account [3])))
    ∧ DestOk (sweepOutOfScript .native [.xpub 2] [3] (.addr .p2pkh (.xpub 2 [3])))
    ∧ ¬ DestOk (sweepOutOfScript .native [.xpub 2] [3] (.addr .p2wpkh (.foreign 1))) := by
  unfold DestOk; decide

end WalletLogic

end VlsModel.Props.C09
