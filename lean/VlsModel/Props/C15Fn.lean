import VlsModel.Model.Prune
import VlsModel.Gen.FnMonitor
import VlsModel.Lemmas.FnGen
/-
C15 — the prune predicate of the model (`Monitor.State.isDone`, used by `Prune.prune`) proved equal to the bodies
of `State::{depth_of, deep_enough_and_saw_node_forget, is_done}` that `translate/rs2lean.py` regenerates from
`vls-core/src/monitor.rs` (`Gen/FnMonitor.lean`).

The generated bodies keep the Rust `u32` arithmetic: `self.height + 1` overflows at `height = u32::MAX`
(panic in a debug build, wrap to 0 in a release build).  The hand-written model computes on `Nat` and has no such
outcome, so the equalities hold under the caller's guarantee `height < u32::MAX`; `C15_fn_depth_of_overflow`
states what the code does at the excluded height.
-/
namespace VlsModel.Props.C15Fn
open VlsModel VlsModel.Monitor

/-- the five fields of `monitor::State` that the prune predicate reads -/
def toGen (s : Monitor.State) : Gen.FnMonitor.State :=
  { height := s.height, funding_double_spent_height := s.dsHeight, mutual_closing_height := s.mutualHeight,
    closing_swept_height := s.closingSweptHeight, saw_forget_channel := s.sawForget }

theorem C15_fn_depth_of (s : Monitor.State) (h : Option Nat) (hh : s.height < Rs.U32_MAX) :
    (toGen s).depth_of h = .ok (s.depthOf h) := by
  have h1 : s.height + 1 ≤ Rs.U32_MAX := hh
  simp [Gen.FnMonitor.State.depth_of, toGen, Rs.uadd, h1, State.depthOf, Rs.usatSub]

/-- at the excluded height the Rust `+` overflows (whatever `other_height` is: the argument of `unwrap_or` is
    evaluated eagerly) -/
theorem C15_fn_depth_of_overflow (s : Monitor.State) (h : Option Nat) (hh : s.height = Rs.U32_MAX) :
    (toGen s).depth_of h = .error .overflow := by
  simp [Gen.FnMonitor.State.depth_of, toGen, Rs.uadd, hh, Rs.U32_MAX, Rs.overflow]

theorem C15_fn_deep_enough (s : Monitor.State) (h : Option Nat) (limit : Nat) (hh : s.height < Rs.U32_MAX) :
    (toGen s).deep_enough_and_saw_node_forget h limit = .ok (s.deepEnough h limit) := by
  unfold Gen.FnMonitor.State.deep_enough_and_saw_node_forget
  rw [C15_fn_depth_of s h hh]
  simp only [Rs.bind_ok, State.deepEnough]
  by_cases hd : s.depthOf h < limit <;> simp [hd, toGen]
  by_cases hs : s.sawForget = true
  · simp [hs]
  · have : s.sawForget = false := by simpa using hs
    simp [this]

/-- `State::is_done` = `State.isDone` with the depth constant that `x_chain.py` extracts (`MIN_DEPTH`) -/
theorem C15_fn_is_done (s : Monitor.State) (hh : s.height < Rs.U32_MAX) :
    (toGen s).is_done = .ok (s.isDone Gen.Chain.minDepth) := by
  unfold Gen.FnMonitor.State.is_done
  have e1 := C15_fn_deep_enough s s.dsHeight 100 hh
  have e2 := C15_fn_deep_enough s s.mutualHeight 100 hh
  have e3 := C15_fn_deep_enough s s.closingSweptHeight 100 hh
  simp only [toGen] at e1 e2 e3 ⊢
  rw [e1]; simp only [Rs.bind_ok]
  cases h1 : s.deepEnough s.dsHeight 100
  · rw [e2]; simp only [Rs.bind_ok]
    cases h2 : s.deepEnough s.mutualHeight 100
    · rw [e3]; simp only [Rs.bind_ok]
      cases h3 : s.deepEnough s.closingSweptHeight 100 <;>
        simp [State.isDone, Gen.Chain.minDepth, h1, h2, h3]
    · simp [State.isDone, Gen.Chain.minDepth, h1, h2]
  · simp [State.isDone, Gen.Chain.minDepth, h1]

/-! ### The monitor handles the node uses: `ChainMonitorBase::{forget_channel, forget_seen, is_done}`, `ChainMonitor::is_done`

`get_state()` (= `self.state.lock().expect("lock")`) is inlined by a declared normalisation so that the write through
the guard reaches `self`; the lock is the identity on the protected value. -/

/-- **`ChainMonitorBase::forget_channel`** sets the forget flag of the monitor state and nothing else
    (`Prune.setForget`) -/
theorem C15_fn_forget_channel (s : Monitor.State) :
    Gen.FnMonitor.ChainMonitorBase.forget_channel ⟨toGen s⟩ = ⟨toGen { s with sawForget := true }⟩ := rfl

theorem C15_fn_forget_seen (s : Monitor.State) :
    Gen.FnMonitor.ChainMonitorBase.forget_seen ⟨toGen s⟩ = s.sawForget := rfl

/-- **`ChainMonitorBase::is_done`** (what `Node::prune_channels` asks through `chan.monitor`) = `State.isDone` -/
theorem C15_fn_base_is_done (s : Monitor.State) (hh : s.height < Rs.U32_MAX) :
    Gen.FnMonitor.ChainMonitorBase.is_done ⟨toGen s⟩ = .ok (s.isDone Gen.Chain.minDepth) := by
  unfold Gen.FnMonitor.ChainMonitorBase.is_done
  simp only [C15_fn_is_done s hh, Rs.bind_ok, Rs.pure_eq]

theorem C15_fn_monitor_is_done (s : Monitor.State) (hh : s.height < Rs.U32_MAX) :
    Gen.FnMonitor.ChainMonitor.is_done ⟨toGen s⟩ = .ok (s.isDone Gen.Chain.minDepth) := by
  unfold Gen.FnMonitor.ChainMonitor.is_done
  simp only [C15_fn_is_done s hh, Rs.bind_ok, Rs.pure_eq]

/-- stated on the generated code: a monitor whose `forget_channel` was never called is not done, whatever the chain
    did — "only after the node has asked to forget it" -/
theorem C15_fn_not_done_before_forget (s : Monitor.State) (hh : s.height < Rs.U32_MAX) (hf : s.sawForget = false) :
    Gen.FnMonitor.ChainMonitorBase.is_done ⟨toGen s⟩ = .ok false := by
  rw [C15_fn_base_is_done s hh]
  simp [State.isDone, State.deepEnough, hf]

/-- stated on the generated code: after `forget_channel` the answer is the burial condition alone -/
theorem C15_fn_done_after_forget (s : Monitor.State) (hh : s.height < Rs.U32_MAX) :
    (Gen.FnMonitor.ChainMonitorBase.forget_channel ⟨toGen s⟩).is_done
      = .ok ({ s with sawForget := true }.isDone Gen.Chain.minDepth) := by
  rw [C15_fn_forget_channel]
  exact C15_fn_base_is_done _ hh

end VlsModel.Props.C15Fn
