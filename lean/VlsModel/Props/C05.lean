import VlsModel.Lemmas.Policy
/-
C05 — Accepted commitments satisfy every mandatory policy bound.

Statement (properties.jsonl): under a non-permissive policy, a counterparty or holder commitment is
accepted only if it is within all configured bounds: fee rate and implied fee within range, no output
or HTLC below the dust/trim limit, HTLC count and in-flight value within limits, HTLC expiries in
range, and the initial commitment has no HTLCs and gives a funding holder all but the pushed value.
A channel becomes usable only with a safe commitment type and both contest delays within policy, no
counterparty commitment is signed for a channel above the maximum size, and with the on-chain
validator no new commitment beyond the initial one is accepted while the funding output is
unconfirmed or after a close is seen on chain.

Model: `VlsModel/Model/Policy.lean` (bit-precise; overflow of a plain operator = `Kind.panic`, a refusal).
Reference predicate: `WithinBounds` below, over unbounded naturals, written without reference to the
decision procedure.  Only property theorems live here; helper lemmas are in `VlsModel/Lemmas/Policy.lean`.
-/
namespace VlsModel.Props.C05
open VlsModel VlsModel.Policy
open VlsModel.Gen.Policy (Action Rule CType RawPolicy)

/-! ### reference predicate -/

/-- BOLT-3 trim limit of an HTLC output: the dust limit plus the fee of its second-stage transaction
    at the commitment's feerate (zero-fee-HTLC anchors: the plain channel dust limit). -/
def trimLimit (zeroFee : Bool) (feerate htlcTxWeight : Nat) : Nat :=
  if zeroFee then Gen.Policy.minChanDustLimit else Gen.Policy.minDustLimit + feerate * htlcTxWeight / 1000

/-- Everything C05 demands of an accepted commitment `n` with content `i`, in unbounded arithmetic. -/
structure WithinBounds (p : Policy) (s : Setup) (c : ChainState) (n : Nat) (i : Info) : Prop where
  /-- main outputs are absent or above the channel dust limit -/
  toBroadcaster_not_dust : i.toBroadcaster = 0 ∨ Gen.Policy.minChanDustLimit ≤ i.toBroadcaster
  toCountersigner_not_dust : i.toCountersigner = 0 ∨ Gen.Policy.minChanDustLimit ≤ i.toCountersigner
  /-- HTLC count within the limit -/
  htlc_count : i.offered.length + i.received.length ≤ p.maxHtlcs
  /-- no HTLC below its trim limit -/
  offered_not_dust : ∀ h ∈ i.offered, trimLimit s.isZeroFeeHtlc i.feerate htlcTimeoutWeight ≤ h.value
  received_not_dust : ∀ h ∈ i.received, trimLimit s.isZeroFeeHtlc i.feerate htlcSuccessWeight ≤ h.value
  /-- in-flight value within the limit -/
  inflight : sumValues i.offered + sumValues i.received ≤ p.maxHtlcValue
  /-- expiries in range -/
  expiry : ∀ h ∈ i.offered ++ i.received, ExpiryOK p c h.expiry
  /-- the implied fee `channel value − Σ outputs` is non-negative and its rate on the expected weight
      lies in `[min_feerate_per_kw, max_feerate_per_kw]` -/
  fee : FeeInRange p s.channelValue i.total (commitmentWeight s.isAnchors (i.offered.length + i.received.length))
  /-- the initial commitment has no HTLCs and gives a funding holder all but the pushed value -/
  initial : n = 0 → i.offered = [] ∧ i.received = [] ∧ (s.isOutbound = true → i.toCounterparty * 1000 ≤ s.pushMsat)

/-- the tags `C05_main` relies on being errors -/
def commitmentTags : List Tag :=
  [.outputsTrimmed, .htlcCountLimit, .htlcCltvRange, .htlcInflightLimit, .commitmentFeeRange,
   .firstNoHtlcs, .initialFundingValue]

/-- "non-permissive" as far as commitments are concerned -/
def NonPermissive (p : Policy) : Prop := ∀ t ∈ commitmentTags, errs p t = true

/-- generated-table obligation: the weights extracted from the source are positive, so the division in
    `estimate_feerate_per_kw` is never by zero at its commitment call site -/
theorem C05_gen_weights_pos : 0 < Gen.Policy.commitmentBaseWeight ∧ 0 < Gen.Policy.commitmentBaseAnchorWeight ∧
    0 < Gen.Policy.mutualCloseWitnessWeight := by decide

/-- core: the common validator `validate_commitment_tx` -/
theorem validateCommitmentTx_within (p : Policy) (s : Setup) (c : ChainState) (n : Nat) (i : Info)
    (hf : NonPermissive p)
    (h : validateCommitmentTx p s c n i = .ok ()) : WithinBounds p s c n i := by
  have e1 := hf .outputsTrimmed (by simp [commitmentTags])
  have e2 := hf .htlcCountLimit (by simp [commitmentTags])
  have e3 := hf .htlcCltvRange (by simp [commitmentTags])
  have e4 := hf .htlcInflightLimit (by simp [commitmentTags])
  have e5 := hf .commitmentFeeRange (by simp [commitmentTags])
  have e6 := hf .firstNoHtlcs (by simp [commitmentTags])
  have e7 := hf .initialFundingValue (by simp [commitmentTags])
  unfold validateCommitmentTx at h
  obtain ⟨_, c1, h⟩ := bind_ok h
  obtain ⟨_, c2, h⟩ := bind_ok h
  obtain ⟨_, c3, h⟩ := bind_ok h
  obtain ⟨v1, l1, h⟩ := bind_ok h
  obtain ⟨v2, l2, h⟩ := bind_ok h
  obtain ⟨_, c4, h⟩ := bind_ok h
  obtain ⟨_, o1, h⟩ := bind_ok h
  obtain ⟨_, o2, h⟩ := bind_ok h
  obtain ⟨_, f1, h⟩ := bind_ok h
  have c1 := check_ok c1 e1
  have c2 := check_ok c2 e1
  have c3 := check_ok c3 e2
  have c4 := check_ok c4 e4
  obtain ⟨hv1, _, hd1, hx1⟩ := checkHtlcs_ok _ _ _ l1
  obtain ⟨hv2, _, hd2, hx2⟩ := checkHtlcs_ok _ _ _ l2
  have hfee := validateFee_ok f1 e5 (commitmentWeight_pos _ _)
  simp at c1 c2 c3 c4
  refine ⟨by omega, by omega, by omega, ?_, ?_, by omega, ?_, ?_, ?_⟩
  · intro x hx; exact hd1 e1 x hx
  · intro x hx; exact hd2 e1 x hx
  · intro x hx
    rcases List.mem_append.mp hx with hx | hx
    · exact hx1 e3 x hx
    · exact hx2 e3 x hx
  · have : i.total = i.toBroadcaster + i.toCountersigner + v2 := by
      unfold Info.total; omega
    rw [this]; exact hfee
  · intro hn
    simp only [hn, if_true] at h
    obtain ⟨_, g1, h⟩ := bind_ok h
    have g1 := of_decide_eq_false (check_ok g1 e6)
    refine ⟨List.eq_nil_of_length_eq_zero (by omega), List.eq_nil_of_length_eq_zero (by omega), ?_⟩
    intro ho
    simp only [ho, if_true] at h
    have g2 := of_decide_eq_false (check_ok h e7)
    exact Nat.le_trans (Nat.mul_le_mul_right 1000 (Nat.le_of_not_gt g2)) (Nat.div_mul_le_self s.pushMsat 1000)

/-- **C05 (main).**  For every policy whose filter keeps the commitment tags errors, every setup, chain
    state, enforcement state, commitment number and content (all naturals, in particular all 64-bit
    values, any number of HTLCs): if the validator (simple or on-chain, `use_chain_state` on or off, holder
    or counterparty commitment) accepts, the commitment is `WithinBounds`.  Full strength: since fix
    3751e9c `validate_fee` compares the exact rate, so no side condition on `max_feerate_per_kw` remains. -/
theorem C05_main (p : Policy) (s : Setup) (c : ChainState) (e : EState) (n : Nat) (i : Info) (point : Nat)
    (hf : NonPermissive p)
    (h : validateCommitment p s c e n i point = .ok ()) : WithinBounds p s c n i :=
  validateCommitmentTx_within p s c n i hf (validateCommitment_tx p s c e n i point h)

/-- The former counterexample (finding S1, fixed by 3751e9c): the testnet default with
    `max_feerate_per_kw = u32::MAX` and a raised channel-size cap … -/
def sentinelPolicy : Policy :=
  { Gen.Policy.defaultTestnet with maxFeerate := U32.MAX, maxChannelSize := 10000000000, onchain := false }
def sentinelSetup : Setup := ⟨false, 5000000000, 0, 6, 7, .staticRemoteKey, none, false, false⟩
def sentinelInfo : Info := ⟨true, 0, 0, [], [], 0⟩

/-- … a commitment leaving the whole 50 BTC channel as fee (6.9·10^9 sat/kw) is now refused with the
    fee-range class even though the bound is the largest representable one. -/
theorem C05_sentinel_refused :
    validateCommitment sentinelPolicy sentinelSetup ⟨0, 0, 0⟩ EState.init 0 sentinelInfo 0 = .error .fee := by
  rfl

/-! ### setup, size, on-chain -/

/-- **C05 (setup)**: `validate_setup_channel` (and hence `Node::setup_channel`) accepts only a safe
    commitment type and both contest delays within `[min_delay, max_delay]`. -/
theorem C05_setup (p : Policy) (s : Setup)
    (h1 : errs p .channelSafeType = true) (h2 : errs p .delayHolder = true) (h3 : errs p .delayCounterparty = true)
    (h : setupChannel p s = .ok ()) :
    s.ctype ∈ Gen.Policy.safeCommitmentTypes ∧
    (p.minDelay ≤ s.cpDelay ∧ s.cpDelay ≤ p.maxDelay) ∧ (p.minDelay ≤ s.holderDelay ∧ s.holderDelay ≤ p.maxDelay) := by
  have hv : validateSetupChannel p s = .ok () := by
    unfold setupChannel at h
    obtain ⟨_, _, h⟩ := bind_ok h
    exact h
  unfold validateSetupChannel validateDelay at hv
  obtain ⟨_, a1, hv⟩ := bind_ok hv
  obtain ⟨_, a2, hv⟩ := bind_ok hv
  obtain ⟨_, a3, hv⟩ := bind_ok hv
  obtain ⟨_, b1, b2⟩ := bind_ok a2
  obtain ⟨_, d1, d2⟩ := bind_ok a3
  have a1 := check_ok a1 h1
  have b1 := of_decide_eq_false (check_ok b1 h2)
  have b2 := of_decide_eq_false (check_ok b2 h2)
  have d1 := of_decide_eq_false (check_ok d1 h3)
  have d2 := of_decide_eq_false (check_ok d2 h3)
  refine ⟨?_, ⟨by omega, by omega⟩, ⟨by omega, by omega⟩⟩
  have : isSafeType s.ctype = true := by simpa using a1
  unfold isSafeType at this
  exact List.contains_iff_mem.mp this

/-- **C05 (size)**: a counterparty commitment is signed only for a channel within the maximum size. -/
theorem C05_size (p : Policy) (s : Setup) (c : ChainState) (e e' : EState) (n point : Nat) (i : Info) (ph1 : Bool)
    (hf : errs p .fundingMax = true)
    (h : signCounterparty p s c e n point i ph1 = .ok e') : s.channelValue ≤ p.maxChannelSize := by
  unfold signCounterparty at h
  obtain ⟨_, h1, _⟩ := bind_ok h
  have := of_decide_eq_false (check_ok h1 hf)
  omega

/-- **C05 (on-chain)**: with the on-chain validator no NEW commitment beyond the initial one is accepted
    while the funding output is unconfirmed (depth below `min_funding_depth`) or after a close is seen on
    chain.  "New" by the right counter for each side: *any* counterparty commitment `n > 0` (the code never
    skips the gate there), a holder commitment with `n ≥ next_holder_commit_num`.  The three corollaries
    below spell the sides out; `C05_onchain_holder_retry_same` shows that what skips the gate is a retry
    with identical content. -/
theorem C05_onchain (p : Policy) (s : Setup) (c : ChainState) (e : EState) (n : Nat) (i : Info) (point : Nat)
    (hoc : p.onchain = true) (hf : errs p .spendsActiveUtxo = true) (hn : 0 < n)
    (hnew : i.isCp = true ∨ e.nextHolder ≤ n)
    (h : validateCommitment p s c e n i point = .ok ()) :
    Gen.Policy.minFundingDepth ≤ c.fundingDepth ∧ c.closingDepth = 0 := by
  have key : ensureFundingBuried p c n = .ok () := by
    unfold validateCommitment at h
    split at h
    · unfold validateCounterparty at h
      obtain ⟨_, h0, _⟩ := bind_ok h
      exact whenE_ok h0 hoc
    · rename_i hcp
      have hle : e.nextHolder ≤ n := by
        rcases hnew with h1 | h1
        · exact absurd h1 hcp
        · exact h1
      unfold validateHolder at h
      obtain ⟨_, h0, _⟩ := bind_ok h
      exact whenE_ok h0 (by simp [hoc, hle])
  unfold ensureFundingBuried at key
  simp only [hn, if_true] at key
  obtain ⟨_, k1, k2⟩ := bind_ok key
  have k1 := of_decide_eq_false (check_ok k1 hf)
  have k2 := of_decide_eq_false (check_ok k2 hf)
  omega

/-- counterparty side, by the right counter — none: the code gates **every** counterparty commitment
    `n > 0`, new or retry, whatever the holder counter is.  (A guard by `next_holder_commit_num` here — the
    holder path's retry guard — would let a NEW counterparty commitment through after a close was seen
    whenever the holder side is ahead; with such a model this theorem is not provable.) -/
theorem C05_onchain_counterparty (p : Policy) (s : Setup) (c : ChainState) (e : EState) (n : Nat) (i : Info) (point : Nat)
    (hoc : p.onchain = true) (hf : errs p .spendsActiveUtxo = true) (hn : 0 < n) (hcp : i.isCp = true)
    (h : validateCommitment p s c e n i point = .ok ()) :
    Gen.Policy.minFundingDepth ≤ c.fundingDepth ∧ c.closingDepth = 0 :=
  C05_onchain p s c e n i point hoc hf hn (Or.inl hcp) h

/-- holder side: a NEW holder commitment (`n ≥ next_holder_commit_num`, the holder's own counter) beyond the
    initial one is accepted only with the funding buried and no close seen -/
theorem C05_onchain_holder_new (p : Policy) (s : Setup) (c : ChainState) (e : EState) (n : Nat) (i : Info)
    (hoc : p.onchain = true) (hf : errs p .spendsActiveUtxo = true) (hn : 0 < n) (hnew : e.nextHolder ≤ n)
    (h : validateCommitment p s c e n i = .ok ()) :
    Gen.Policy.minFundingDepth ≤ c.fundingDepth ∧ c.closingDepth = 0 :=
  C05_onchain p s c e n i 0 hoc hf hn (Or.inr hnew) h

/-- … and the only holder requests that skip the gate (`n < next_holder_commit_num`) are retries of the
    current holder commitment with **identical content**: nothing new is accepted through that path. -/
theorem C05_onchain_holder_retry_same (p : Policy) (s : Setup) (c : ChainState) (e : EState) (n : Nat) (i : Info)
    (hcp : i.isCp = false) (hold : n < e.nextHolder)
    (h1 : errs p .retrySame = true) (h2 : errs p .holderNotRevoked = true)
    (h : validateCommitment p s c e n i = .ok ()) :
    n + 1 = e.nextHolder ∧ e.curHolderInfo = some i := by
  unfold validateCommitment at h
  simp only [hcp] at h
  unfold validateHolder at h
  obtain ⟨_, _, h⟩ := bind_ok h
  obtain ⟨_, _, h⟩ := bind_ok h
  obtain ⟨n1, hn1, h⟩ := bind_ok h
  obtain ⟨_, hr, h⟩ := bind_ok h
  obtain ⟨n2, hn2, h⟩ := bind_ok h
  obtain ⟨_, hnr, _⟩ := bind_ok h
  obtain ⟨rfl, _⟩ := addU64_ok hn1
  obtain ⟨rfl, _⟩ := addU64_ok hn2
  have hnr := of_decide_eq_false (check_ok hnr h2)
  have heq : n + 1 = e.nextHolder := by omega
  refine ⟨heq, ?_⟩
  have hr := whenE_ok hr (by simp [heq])
  unfold holderRetry at hr
  cases hc : e.curHolderInfo with
  | none => simp [hc] at hr
  | some cur =>
    simp only [hc] at hr
    have := of_decide_eq_false (check_ok hr h1)
    simp at this
    rw [this]

/-- the phase-2 entry points return `Ok` only if the validator accepted (so the theorems above speak
    about `sign_counterparty_commitment_tx_phase2` / `validate_holder_commitment_tx_phase2`) -/
theorem C05_entry_counterparty (p : Policy) (s : Setup) (c : ChainState) (e e' : EState) (n point : Nat) (i : Info)
    (ph1 : Bool) (hcp : i.isCp = true) (h : signCounterparty p s c e n point i ph1 = .ok e') :
    validateCommitment p s c e n i point = .ok () := by
  unfold signCounterparty at h
  obtain ⟨_, _, h⟩ := bind_ok h
  obtain ⟨_, _, h⟩ := bind_ok h
  obtain ⟨⟨⟩, h1, _⟩ := bind_ok h
  unfold validateCommitment
  simp [hcp, h1]

theorem C05_entry_holder (p : Policy) (s : Setup) (c : ChainState) (e e' : EState) (n : Nat) (i : Info) (sigsOk : Bool)
    (hcp : i.isCp = false) (h : validateHolderPhase2 p s c e n i sigsOk = .ok e') :
    validateCommitment p s c e n i = .ok () := by
  unfold validateHolderPhase2 at h
  obtain ⟨_, _, h⟩ := bind_ok h
  obtain ⟨_, _, h⟩ := bind_ok h
  obtain ⟨⟨⟩, h1, _⟩ := bind_ok h
  unfold validateCommitment
  simp [hcp, h1]

/-! ### the hypotheses are satisfiable (generated default policies) and the theorems are not vacuous -/

def testnetPolicy (onchain : Bool) : Policy := { Gen.Policy.defaultTestnet with onchain := onchain }
def mainnetPolicy (onchain : Bool) : Policy := { Gen.Policy.defaultMainnet with onchain := onchain }

/-! #### the filter hypothesis, discharged for the default policies generated from the source

`Gen/Policy.lean` carries (regenerated on every run) the tags of all `policy_err!` sites on the modelled
paths and the rule list of `PolicyFilter::default()`, which both `make_default_simple_policy` branches use.
The three theorems below are evaluated by the kernel over those generated strings: a default downgrade added
in the source (a warn rule or prefix matching one of the tags), or a `policy_err!` tag the model does not
know, breaks an obligation. -/

/-- the tags the model relies on are exactly the tags the source uses on these paths -/
theorem C05_gen_tags_covered :
    (∀ s ∈ Gen.Policy.commitmentPathTags, s ∈ commitmentTags.map Tag.name) ∧
    (∀ t ∈ commitmentTags, t.name ∈ Gen.Policy.commitmentPathTags) ∧
    (∀ s ∈ Gen.Policy.setupPathTags, s ∈ [Tag.channelSafeType, .delayHolder, .delayCounterparty, .mutualDestinationAllowlisted].map Tag.name) ∧
    (∀ t ∈ [Tag.channelSafeType, .delayHolder, .delayCounterparty], t.name ∈ Gen.Policy.setupPathTags) ∧
    Gen.Policy.sizePathTags = [Tag.fundingMax.name] ∧
    Gen.Policy.onchainPathTags = [Tag.spendsActiveUtxo.name] := by
  decide +kernel

/-- **the default filter of both networks is strict** on every tag of the setup / size / commitment /
    on-chain paths (kernel evaluation of `PolicyFilter::filter` over the generated rule list) -/
theorem C05_default_filter_strict :
    ∀ s ∈ Gen.Policy.setupPathTags ++ Gen.Policy.sizePathTags ++ Gen.Policy.commitmentPathTags ++ Gen.Policy.onchainPathTags,
      filterEval Gen.Policy.defaultMainnet.filter s = .error ∧ filterEval Gen.Policy.defaultTestnet.filter s = .error := by
  decide +kernel

/-- hence `C05_main`'s hypothesis holds for the generated default policies (simple or on-chain validator) -/
theorem C05_default_nonpermissive (oc : Bool) : NonPermissive (testnetPolicy oc) ∧ NonPermissive (mainnetPolicy oc) := by
  have key : ∀ t ∈ commitmentTags, filterEval Gen.Policy.defaultMainnet.filter t.name = .error ∧
      filterEval Gen.Policy.defaultTestnet.filter t.name = .error := by
    intro t ht
    exact C05_default_filter_strict t.name (by
      simp only [List.mem_append]
      exact Or.inl (Or.inr (C05_gen_tags_covered.2.1 t ht)))
  constructor
  · intro t ht
    show (filterEval Gen.Policy.defaultTestnet.filter t.name == .error) = true
    rw [(key t ht).2]; rfl
  · intro t ht
    show (filterEval Gen.Policy.defaultMainnet.filter t.name == .error) = true
    rw [(key t ht).1]; rfl

/-- … and the setup / size / on-chain theorems' hypotheses likewise -/
theorem C05_default_errs_other (oc : Bool) (t : Tag)
    (ht : t ∈ [Tag.channelSafeType, .delayHolder, .delayCounterparty, .fundingMax, .spendsActiveUtxo]) :
    errs (testnetPolicy oc) t = true ∧ errs (mainnetPolicy oc) t = true := by
  have : t.name ∈ Gen.Policy.setupPathTags ++ Gen.Policy.sizePathTags ++ Gen.Policy.commitmentPathTags ++ Gen.Policy.onchainPathTags := by
    revert t; decide +kernel
  obtain ⟨h1, h2⟩ := C05_default_filter_strict t.name this
  constructor
  · show (filterEval Gen.Policy.defaultTestnet.filter t.name == .error) = true
    rw [h2]; rfl
  · show (filterEval Gen.Policy.defaultMainnet.filter t.name == .error) = true
    rw [h1]; rfl

example (oc : Bool) (t : Tag) : errs (testnetPolicy oc) t = true := by cases oc <;> rfl
/-- the permissive filter is excluded by the hypothesis, as C05 words it -/
example : ¬ NonPermissive { testnetPolicy false with filter := permissiveFilter } := by
  intro h
  have h1 := h .commitmentFeeRange (by simp [commitmentTags])
  have h2 : errs { testnetPolicy false with filter := permissiveFilter } .commitmentFeeRange = false := by
    simp [errs, filterEval, permissiveFilter, ruleMatches, String.isPrefixOf]
  rw [h2] at h1
  cases h1

def exSetup : Setup := ⟨true, 3000000, 0, 6, 7, .staticRemoteKey, none, false, false⟩
def exInfo : Info := ⟨true, 1000000, 1989000, [⟨10000, 500, 0⟩], [], 1000⟩

/-- a non-trivial accepted request: commitment 1 with one HTLC under the on-chain validator, funding buried -/
example : validateCommitment (testnetPolicy true) exSetup ⟨1000, 3, 0⟩ { EState.init with nextCp := 1, curCpPoint := some 0 } 1 exInfo 2 = .ok () := by
  rfl
/-- … and the same request is refused while the funding is unconfirmed -/
example : validateCommitment (testnetPolicy true) exSetup ⟨1000, 0, 0⟩ { EState.init with nextCp := 1, curCpPoint := some 0 } 1 exInfo 2 = .error .chain := by
  rfl
example : setupChannel (testnetPolicy false) exSetup = .ok () := by rfl
example : ∃ e', signCounterparty (testnetPolicy false) exSetup ⟨1000, 0, 0⟩ { EState.init with nextCp := 1, curCpPoint := some 0 } 1 2 exInfo false = .ok e' :=
  ⟨_, rfl⟩

end VlsModel.Props.C05
