import VlsModel.Model.Payments
import VlsModel.Gen.FnSimplePay
import VlsModel.Gen.FnEnforceVal
import VlsModel.Gen.FnNodePay
import VlsModel.Gen.FnApproverC06
import VlsModel.Gen.FnNodeApprove
import VlsModel.Gen.FnNodeAdd
import VlsModel.Gen.FnChanRestore
import VlsModel.Gen.FnNodePrune
import VlsModel.Lemmas.FnGen
import VlsModel.Lemmas.PaymentsFn
import VlsModel.Lemmas.PaymentsFnSummary
/-
C06 — pieces of the hand-written payments model (`Model/Payments.lean`) proved equal to the function bodies that
`translate/rs2lean.py` regenerates on every run from
  vls-core/src/policy/simple_validator.rs  (`validate_payment_balance`, `validate_payment_cltv`; area `SimplePay`),
  vls-core/src/policy/validator.rs         (`min_opt`),
  vls-core/src/node.rs                     (`RoutedPayment::{is_fulfilled, is_no_incoming, is_no_outgoing,
                                            updated_incoming_outgoing, incoming_outgoing, apply, get_cltv_bounds}`,
                                            `NodeState::is_forwarded_payment_prunable`; area `NodePay`).

The generated bodies return `Rs.M Unit` (`.err tag` / `.panic` / `.overflow`); the model returns `VRes`
(`ok | err | panic`) resp. a Boolean.  `relV` maps one to the other: any policy error is `err`, a panic or an
arithmetic overflow (debug build) is `panic`.  The model works under the default policy filter (every tag is an
error), hence the external `policy_filter_err` is instantiated with `fun _ => true`; what the code does under a
filter that demotes the tags is stated separately (`…_permissive`).
-/
namespace VlsModel.Props.C06Fn
open VlsModel VlsModel.Payments VlsModel.Payments.Fn
open VlsModel.Gen.FnSimplePay (SimpleValidator SimplePolicy)

/-- the `SimplePolicy` fields read by the two translated payment checks -/
def toV (p : Policy) : SimpleValidator :=
  { policy := { max_routing_fee_msat := p.maxFee, max_feerate_percentage := p.feePct, cltv_delta := p.cltvDelta } }

def relV : Rs.M Unit → VRes
  | .ok () => .ok
  | .error (.err _) => .err
  | .error _ => .panic

/-- every tag is an error (no policy filter entry demotes it): the default of both shipped policies -/
def errAll : String → Bool := fun _ => true

/-- `validate_payment_balance` = `balance` for every `u64` incoming amount, including which inputs overflow (debug
    build; `hin` is the range of the Rust parameter type, the model itself has no range on `inMsat`). -/
theorem C06_fn_validate_payment_balance (p : Policy) (inMsat outMsat : Nat) (inv : Option Nat) (hin : inMsat ≤ Rs.U64_MAX) :
    relV ((toV p).validate_payment_balance errAll inMsat outMsat inv) = balance p inMsat outMsat inv := by
  unfold SimpleValidator.validate_payment_balance balance
  have e : Rs.U64_MAX = 18446744073709551615 := rfl
  cases inv with
  | none =>
    simp only [Nat.add_zero, Rs.policyErr, errAll, if_true, Rs.pure_eq, Rs.bind_ok]
    have h0 : inMsat + 0 ≤ Rs.U64_MAX := hin
    rw [uadd_ok h0]
    by_cases h1 : inMsat < outMsat <;> simp [h1, relV, Rs.fail]
  | some a =>
    simp only [toV, Rs.policyErr, errAll, if_true, U64.MAX, U64.checkedMul, Rs.okOr, Rs.ucheckedMul, Rs.pure_eq,
      Rs.bind_ok]
    by_cases h0 : a + p.maxFee ≤ Rs.U64_MAX
    · have g0 : ¬ a + p.maxFee > 18446744073709551615 := by rw [e] at h0; omega
      rw [uadd_ok h0]
      simp only [Rs.bind_ok, g0, if_false]
      by_cases h1 : inMsat + (a + p.maxFee) ≤ Rs.U64_MAX
      · have g1 : ¬ inMsat + (a + p.maxFee) > 18446744073709551615 := by rw [e] at h1; omega
        rw [uadd_ok h1]
        simp only [Rs.bind_ok, g1, if_false]
        by_cases h2 : inMsat + (a + p.maxFee) < outMsat
        · simp [h2, relV, Rs.fail]
        · have h3 : a + inMsat ≤ Rs.U64_MAX := by rw [e] at *; omega
          have g3 : ¬ a + inMsat > 18446744073709551615 := by rw [e] at h3; omega
          rw [uadd_ok h3]
          simp only [h2, decide_false, Bool.false_eq_true, if_false, Rs.bind_ok, g3]
          by_cases h4 : a + inMsat > outMsat
          · simp [h4, relV]
          · have h5 : a ≤ outMsat := by omega
            have h6 : inMsat ≤ outMsat - a := by omega
            have h7 : max a 1 ≠ 0 := by omega
            rw [usub_ok h5]
            simp only [h4, decide_false, Bool.false_eq_true, if_false, Rs.bind_ok]
            rw [usub_ok h6]
            simp only [Rs.bind_ok]
            by_cases h8 : (outMsat - a - inMsat) * 100 ≤ Rs.U64_MAX
            · have g8 : (outMsat - a - inMsat) * 100 ≤ 18446744073709551615 := by rw [e] at h8; exact h8
              simp only [h8, g8, if_true, Rs.bind_ok, udiv_ok h7]
              by_cases h9 : (outMsat - a - inMsat) * 100 / max a 1 > p.feePct <;> simp [h9, relV, Rs.fail]
            · have g8 : ¬ (outMsat - a - inMsat) * 100 ≤ 18446744073709551615 := by rw [e] at h8; exact h8
              simp [h8, g8, relV, Rs.fail]
      · have g1 : inMsat + (a + p.maxFee) > 18446744073709551615 := by rw [e] at h1; omega
        rw [uadd_ov h1]
        simp [g1, relV]
    · have g0 : a + p.maxFee > 18446744073709551615 := by rw [e] at h0; omega
      rw [uadd_ov h0]
      simp [g0, relV]

/-- `validate_payment_cltv` accepts exactly when `cltvOk` says so; every refusal carries the cltv-delta tag and there
    is no panic under the default filter (the subtraction is guarded by the first check). -/
theorem C06_fn_validate_payment_cltv (p : Policy) (inc out : Nat) :
    (toV p).validate_payment_cltv errAll inc out
      = if cltvOk p inc out then .ok () else .error (.err "policy-routing-cltv-delta") := by
  unfold SimpleValidator.validate_payment_cltv cltvOk
  simp only [toV, Rs.usub, Rs.policyErr, errAll]
  by_cases h0 : inc ≤ out
  · simp [h0, Rs.fail, bind, Except.bind]
  · have h1 : out ≤ inc := by omega
    by_cases h2 : inc - out < p.cltvDelta <;>
      simp [h0, h1, h2, Rs.fail, bind, Except.bind, pure, Except.pure]

/-- under a filter that demotes `policy-routing-cltv-delta` to a warning the code goes on to `incoming - outgoing`,
    which underflows (debug build: panic) when the bounds are inverted — the model is only claimed for the default
    filter. -/
theorem C06_fn_validate_payment_cltv_permissive (p : Policy) (inc out : Nat) (h : inc < out) :
    (toV p).validate_payment_cltv (fun _ => false) inc out = .error .overflow := by
  unfold SimpleValidator.validate_payment_cltv
  have h0 : inc ≤ out := by omega
  have h1 : ¬ out ≤ inc := by omega
  simp [Rs.usub, Rs.policyErr, h0, h1, Rs.overflow, bind, Except.bind, pure, Except.pure]

/-- `min_opt` of `validator.rs` is the `optMerge min` of the model (the combinator the model uses for the cltv
    minimum of `RoutedPayment::apply`; the code uses `min_opt` itself in `claimable_balances`, which the model does not
    cover: `enforce_balance = false`). -/
theorem C06_fn_min_opt (a b : Option Nat) : Gen.FnEnforceVal.min_opt a b = optMerge min a b := by
  cases a <;> cases b <;> rfl


/-! ### `RoutedPayment` (vls-core/src/node.rs, area `NodePay`)

The generated structure keeps `incoming` / `outgoing` as association lists over the opaque `ChannelId` (instantiated
with channel numbers); the model keeps them as total functions `Chan → Nat` summed over `0 … nch-1`.  `abs` maps one
to the other; `WF` (distinct keys, every key a channel of the node) is what the Rust map type and the node's channel
table guarantee, and it is preserved by `apply` (`C06_fn_apply`). -/
open VlsModel.Gen.FnNodePay

/-- the generated `RoutedPayment` with channel ids = channel numbers and an uninterpreted preimage (type parameters by
    name: their order in the generated structure depends on the order of translation) -/
abbrev RP := RoutedPayment (ChannelId := Nat) (PaymentPreimage := Unit)

/-- the model's `Payment` a generated `RoutedPayment` stands for (channel ids = channel numbers, the preimage
    uninterpreted) -/
def abs (r : RP) : Payment :=
  ⟨toFun r.incoming, toFun r.outgoing, r.incoming_cltv_min, r.outgoing_cltv_max, r.preimage.isSome⟩

/-- both per-channel maps have distinct keys, all of them channels of the node -/
def WF (nch : Nat) (r : RP) : Prop := WFm nch r.incoming ∧ WFm nch r.outgoing

/-- `RoutedPayment::new()` is the model's empty entry -/
theorem C06_fn_new (nch : Nat) :
    abs (RoutedPayment.new : RP) = Payment.new
      ∧ WF nch (RoutedPayment.new : RP) := by
  constructor
  · have e : toFun [] = fun _ => 0 := by funext c; rfl
    simp [abs, RoutedPayment.new, Payment.new, e]
  · exact ⟨trivial, trivial⟩

theorem C06_fn_is_fulfilled (r : RP) : r.is_fulfilled = (abs r).pre := rfl

theorem C06_fn_get_cltv_bounds (pol : Policy) (r : RP) :
    cltvGate pol (abs r) = (match r.get_cltv_bounds with | some (a, b) => cltvOk pol a b | none => true) := by
  unfold cltvGate RoutedPayment.get_cltv_bounds abs
  cases r.incoming_cltv_min <;> cases r.outgoing_cltv_max <;> rfl

theorem C06_fn_apply (nch : Nat) (r : RP) (c ni no : Nat) (ic oc : Option Nat) :
    ∃ r', r.apply c ni no ic oc = Except.ok r' ∧ abs r' = (abs r).apply c ni no ic oc ∧
      (WF nch r → c < nch → WF nch r') := by
  unfold RoutedPayment.apply
  cases ic <;> cases oc <;> cases h1 : r.incoming_cltv_min <;> cases h2 : r.outgoing_cltv_max <;>
    refine ⟨_, rfl, ?_, ?_⟩ <;>
    first
      | (intro hw hc; exact ⟨WFm_insert _ _ _ hc hw.1, WFm_insert _ _ _ hc hw.2⟩)
      | (simp only [abs, Payment.apply, toFun_insert, h1, h2, optMerge])

theorem C06_fn_updated_incoming_outgoing (nch : Nat) (r : RP) (hw : WF nch r) (c ni no : Nat) :
    r.updated_incoming_outgoing c ni no
      = (match (abs r).updated nch c ni no with | some x => Except.ok x | none => Except.error .overflow) := by
  unfold RoutedPayment.updated_incoming_outgoing Payment.updated
  rw [upd_sum_k r.incoming hw.1 c ni]
  by_cases h1 : sumCh nch (toFun r.incoming) + ni ≤ U64.MAX
  · simp only [h1, if_true]
    rw [upd_sum_k r.outgoing hw.2 c no]
    by_cases h2 : sumCh nch (toFun r.outgoing) + no ≤ U64.MAX <;> simp [abs, h1, h2]
  · simp [abs, h1]

theorem C06_fn_is_no_incoming (nch : Nat) (r : RP) (hw : WF nch r) :
    r.is_no_incoming = if sumCh nch (abs r).inc ≤ U64.MAX then Except.ok (sumCh nch (abs r).inc == 0)
                       else Except.error .overflow := by
  unfold RoutedPayment.is_no_incoming
  rw [usum_values r.incoming hw.1]
  by_cases h : sumCh nch (toFun r.incoming) ≤ U64.MAX <;> simp [abs, h]

theorem C06_fn_is_no_outgoing (nch : Nat) (r : RP) (hw : WF nch r) :
    r.is_no_outgoing = if sumCh nch (abs r).out ≤ U64.MAX then Except.ok (sumCh nch (abs r).out == 0)
                       else Except.error .overflow := by
  unfold RoutedPayment.is_no_outgoing
  rw [usum_values r.outgoing hw.2]
  by_cases h : sumCh nch (toFun r.outgoing) ≤ U64.MAX <;> simp [abs, h]

theorem C06_fn_incoming_outgoing (nch : Nat) (r : RP) (hw : WF nch r)
    (hi : sumCh nch (abs r).inc ≤ U64.MAX) (ho : sumCh nch (abs r).out ≤ U64.MAX) :
    r.incoming_outgoing = Except.ok (sumCh nch (abs r).inc, sumCh nch (abs r).out) := by
  unfold RoutedPayment.incoming_outgoing
  rw [usum_values r.incoming hw.1, usum_values r.outgoing hw.2]
  simp only [abs] at hi ho
  simp [abs, hi, ho]

/-- `is_forwarded_payment_prunable` = the condition of `Node.fw` (no invoice, no issued invoice, nothing incoming,
    nothing outgoing), the two maps of `NodeState` being association lists over payment hashes -/
theorem C06_fn_is_forwarded_payment_prunable (nch : Nat) (r : RP) (hw : WF nch r)
    (hi : sumCh nch (abs r).inc ≤ U64.MAX) (ho : sumCh nch (abs r).out ≤ U64.MAX)
    (h : Hash) (invoices issued : List (Hash × PaymentState)) :
    NodeState.is_forwarded_payment_prunable h invoices issued r
      = Except.ok ((Rs.omapGet invoices h).isNone && (Rs.omapGet issued h).isNone
                    && sumCh nch (abs r).inc == 0 && sumCh nch (abs r).out == 0) := by
  unfold NodeState.is_forwarded_payment_prunable
  rw [C06_fn_is_no_incoming nch r hw, C06_fn_is_no_outgoing nch r hw]
  simp only [hi, ho, if_true]
  cases (Rs.omapGet invoices h).isNone <;> cases (Rs.omapGet issued h).isNone <;>
    cases (sumCh nch (abs r).inc == 0) <;> simp


end VlsModel.Props.C06Fn

/-! ### `EnforcementState::{summarize_payments, payments_summary, incoming_payments_summary}` (validator.rs, area `EnforcePay`)

The generated functions return maps over the payment hash (association lists, order not represented); the ties are
stated through `Rs.omapGet`.  `gl` turns a model HTLC list into the generated records, `ciOf (offered, received)` a
commitment info, `esOf curH curC` an enforcement state whose two current commitments exist (a channel before its first
commitments carries no HTLC; the model then uses `Info.empty`).  Proofs: `Lemmas/PaymentsFnSummary.lean`. -/
namespace VlsModel.Props.C06Fn
open VlsModel VlsModel.Payments VlsModel.Payments.Fn VlsModel.Payments.FnS
open VlsModel.Gen.FnEnforcePay

/-- `summarize_payments(htlcs)[h]` = `sumFor htlcs h` (absent for a hash that does not occur); it overflows exactly
    when the model's `sumsOkL` fails (`hv`: the values are `u64`) -/
theorem C06_fn_summarize_payments (l : List Htlc) (hv : ∀ y ∈ l, y.value ≤ U64.MAX) :
    (sumsOkL l = true → ∃ m, EnforcementState.summarize_payments (gl l) = Except.ok m ∧
        ∀ h, Rs.omapGet m h = if h ∈ hashes l then some (sumFor l h) else none) ∧
    (sumsOkL l = false → EnforcementState.summarize_payments (gl l) = Except.error .overflow) :=
  summarize_payments_main l hv

/-- `payments_summary(new_holder_tx, new_counterparty_tx)`: per hash the MAX of the two effective views, keys = the
    hashes of the effective views and of the current commitments (`outSpec`); overflow exactly when one summary does -/
theorem C06_fn_payments_summary (curH curC : List Htlc × List Htlc) (newH newC : Option (List Htlc × List Htlc))
    (hv1 : ∀ y ∈ (newH.getD curH).1, y.value ≤ U64.MAX) (hv2 : ∀ y ∈ (newC.getD curC).2, y.value ≤ U64.MAX) :
    (sumsOkL (newH.getD curH).1 = true → sumsOkL (newC.getD curC).2 = true →
      ∃ m, (esOf curH curC).payments_summary (newH.map ciOf) (newC.map ciOf) = Except.ok m ∧
        ∀ h, Rs.omapGet m h = outSpec (newH.getD curH).1 (newC.getD curC).2 curH.1 curC.2 h) ∧
    (sumsOkL (newH.getD curH).1 = false ∨ sumsOkL (newC.getD curC).2 = false →
      (esOf curH curC).payments_summary (newH.map ciOf) (newC.map ciOf) = Except.error .overflow) :=
  payments_summary_main curH curC newH newC hv1 hv2

/-- `incoming_payments_summary(..)`: per hash the MIN of the two effective views, keys = the hashes present in BOTH
    effective views plus the hashes of the current commitments (`inSpec`) -/
theorem C06_fn_incoming_payments_summary (curH curC : List Htlc × List Htlc)
    (newH newC : Option (List Htlc × List Htlc))
    (hv1 : ∀ y ∈ (newH.getD curH).2, y.value ≤ U64.MAX) (hv2 : ∀ y ∈ (newC.getD curC).1, y.value ≤ U64.MAX) :
    (sumsOkL (newH.getD curH).2 = true → sumsOkL (newC.getD curC).1 = true →
      ∃ m, (esOf curH curC).incoming_payments_summary (newH.map ciOf) (newC.map ciOf) = Except.ok m ∧
        ∀ h, Rs.omapGet m h = inSpec (newH.getD curH).2 (newC.getD curC).1 curH.2 curC.1 h) ∧
    (sumsOkL (newH.getD curH).2 = false ∨ sumsOkL (newC.getD curC).1 = false →
      (esOf curH curC).incoming_payments_summary (newH.map ciOf) (newC.map ciOf) = Except.error .overflow) :=
  incoming_payments_summary_main curH curC newH newC hv1 hv2

/-- `outSpec` / `inSpec` are the model: for effective views `hEff`, `cEff` and current views `hCur`, `cCur` (holder
    commitment: offered = outgoing, received = incoming; counterparty commitment: the reverse) the two summaries carry
    `outVal` / `inVal`, and a hash is a key of one of them iff it is in the model's `keys` -/
theorem C06_fn_summaries_are_the_model (hEff cEff hCur cCur : Info) (h : Hash) :
    outSpec hEff.out cEff.out hCur.out cCur.out h
        = (if h ∈ hashes hEff.out ++ hashes cEff.out ++ hashes hCur.out ++ hashes cCur.out
           then some (outVal hEff cEff h) else none) ∧
    inSpec hEff.inc cEff.inc hCur.inc cCur.inc h
        = (if h ∈ (hashes hEff.inc).filter (fun x => x ∈ hashes cEff.inc) ++ hashes hCur.inc ++ hashes cCur.inc
           then some (inVal hEff cEff h) else none) ∧
    (h ∈ keys hEff cEff hCur cCur ↔
      (inSpec hEff.inc cEff.inc hCur.inc cCur.inc h).isSome ∨ (outSpec hEff.out cEff.out hCur.out cCur.out h).isSome) := by
  unfold outSpec inSpec outVal inVal keys
  refine ⟨?_, ?_, ?_⟩
  · simp only [List.mem_append]
    by_cases a : (h ∈ hashes hEff.out ∨ h ∈ hashes cEff.out ∨ h ∈ hashes hCur.out ∨ h ∈ hashes cCur.out)
    · have : ((h ∈ hashes hEff.out ∨ h ∈ hashes cEff.out) ∨ h ∈ hashes hCur.out) ∨ h ∈ hashes cCur.out := by
        rcases a with a | a | a | a <;> simp [a]
      simp [a, this]
    · have : ¬ (((h ∈ hashes hEff.out ∨ h ∈ hashes cEff.out) ∨ h ∈ hashes hCur.out) ∨ h ∈ hashes cCur.out) := by
        intro b; apply a; rcases b with ((b | b) | b) | b <;> simp [b]
      simp [a, this]
  · simp only [List.mem_append, List.mem_filter, decide_eq_true_eq]
    by_cases a : ((h ∈ hashes hEff.inc ∧ h ∈ hashes cEff.inc) ∨ h ∈ hashes hCur.inc ∨ h ∈ hashes cCur.inc)
    · have : ((h ∈ hashes hEff.inc ∧ h ∈ hashes cEff.inc) ∨ h ∈ hashes hCur.inc) ∨ h ∈ hashes cCur.inc := by
        rcases a with a | a | a <;> simp [a]
      simp [a, this]
    · have : ¬ (((h ∈ hashes hEff.inc ∧ h ∈ hashes cEff.inc) ∨ h ∈ hashes hCur.inc) ∨ h ∈ hashes cCur.inc) := by
        intro b; apply a; rcases b with (b | b) | b <;> simp [b]
      simp [a, this]
  · simp only [List.mem_append, List.mem_filter, decide_eq_true_eq]
    by_cases a1 : h ∈ hashes hEff.inc <;> by_cases a2 : h ∈ hashes cEff.inc <;> by_cases a3 : h ∈ hashes hCur.inc <;>
      by_cases a4 : h ∈ hashes cCur.inc <;> by_cases b1 : h ∈ hashes hEff.out <;> by_cases b2 : h ∈ hashes cEff.out <;>
      by_cases b3 : h ∈ hashes hCur.out <;> by_cases b4 : h ∈ hashes cCur.out <;>
      simp [a1, a2, a3, a4, b1, b2, b3, b4]

end VlsModel.Props.C06Fn

/-! ### The loop body of `NodeState::validate_payments`, composed from the generated pieces

`validate_payments` itself is outside the translator's subset; `genCheckHash` transcribes its per-hash loop body by hand
using nothing but generated definitions, and `C06_fn_checkHash` shows that the model's `checkHash` is exactly that
composition (order: cltv gate on the stored bounds, `updated_incoming_outgoing`, the two `* 1000`, the balance check,
the TODO(331) tolerance), for every hash, entry and invoice. -/
namespace VlsModel.Props.C06Fn
open VlsModel VlsModel.Payments VlsModel.Payments.Fn
open VlsModel.Gen.FnNodePay
open VlsModel.Gen.FnSimplePay (SimpleValidator)

/-- The body of the preflight loop of `NodeState::validate_payments` for one hash, transcribed by hand (the function
    itself is outside the translator's subset: `dyn Validator`, an unordered set, `?` inside the loop) but built ONLY from
    the generated definitions: `get_cltv_bounds`, `validate_payment_cltv`, `updated_incoming_outgoing`, the two checked
    `* 1000`, `validate_payment_balance`.  `true` = balanced or tolerated (TODO(331)), `false` = pushed to `unbalanced`. -/
def genCheckHash (v : SimpleValidator) (inv : Option Nat) (pay : Option RP) (c ni no : Nat) : Rs.M Bool := do
  let io ← (match pay with
    | some p => do
        let _ ← (match p.get_cltv_bounds with
          | some (ic, oc) => v.validate_payment_cltv errAll ic oc
          | none => pure ())
        p.updated_incoming_outgoing c ni no
    | none => pure (ni, no))
  let i1000 ← Rs.umul Rs.U64_MAX io.1 1000
  let o1000 ← Rs.umul Rs.U64_MAX io.2 1000
  match v.validate_payment_balance errAll i1000 o1000 inv with
  | .ok () => pure true
  | .error (.err _) => pure (pay.isSome && inv.isNone)
  | .error f => .error f

def relC : Rs.M Bool → VRes
  | .ok true => .ok
  | .ok false => .err
  | .error (.err _) => .err
  | .error _ => .panic

theorem umul_ok {m a b : Nat} (h : a * b ≤ m) : Rs.umul m a b = .ok (a * b) := by simp [Rs.umul, h]
theorem umul_ov {m a b : Nat} (h : ¬ a * b ≤ m) : Rs.umul m a b = .error .overflow := by
  simp [Rs.umul, h, Rs.overflow]

/-- the part of the loop body after the totals are known -/
theorem checkHash_tail (pol : Policy) (i o : Nat) (inv : Option Nat) (b : Bool) :
    relC (do
      let i1000 ← Rs.umul Rs.U64_MAX i 1000
      let o1000 ← Rs.umul Rs.U64_MAX o 1000
      match (toV pol).validate_payment_balance errAll i1000 o1000 inv with
      | .ok () => pure true
      | .error (.err _) => pure b
      | .error f => .error f)
    = (if i * 1000 > U64.MAX ∨ o * 1000 > U64.MAX then VRes.panic else
        match balance pol (i * 1000) (o * 1000) inv with
        | .ok => .ok
        | .panic => .panic
        | .err => if b then .ok else .err) := by
  have e : Rs.U64_MAX = U64.MAX := rfl
  by_cases h1 : i * 1000 ≤ Rs.U64_MAX
  · by_cases h2 : o * 1000 ≤ Rs.U64_MAX
    · have g : ¬ (i * 1000 > U64.MAX ∨ o * 1000 > U64.MAX) := by rw [e] at h1 h2; omega
      rw [umul_ok h1, Rs.bind_ok, umul_ok h2, Rs.bind_ok]
      simp only [g, if_false]
      have hb := C06_fn_validate_payment_balance pol (i * 1000) (o * 1000) inv h1
      cases hr : (toV pol).validate_payment_balance errAll (i * 1000) (o * 1000) inv with
      | ok u =>
        rw [hr] at hb
        simp only [relV] at hb
        rw [← hb]
        rfl
      | error f =>
        rw [hr] at hb
        cases f with
        | err t =>
          simp only [relV] at hb
          rw [← hb]
          cases b <;> rfl
        | panic => simp only [relV] at hb; rw [← hb]; rfl
        | overflow => simp only [relV] at hb; rw [← hb]; rfl
    · have g : (i * 1000 > U64.MAX ∨ o * 1000 > U64.MAX) := by rw [e] at h2; omega
      rw [umul_ok h1, Rs.bind_ok, umul_ov h2, Rs.bind_err]
      simp [g, relC]
  · have g : (i * 1000 > U64.MAX ∨ o * 1000 > U64.MAX) := by rw [e] at h1; omega
    rw [umul_ov h1, Rs.bind_err]
    simp [g, relC]

theorem C06_fn_checkHash (invoices : Hash → Option Invoice) (payments : Hash → Option Payment) (pol : Policy)
    (nch c ni no : Nat) (h : Hash) (pay : Option RP)
    (hp : payments h = pay.map abs) (hw : ∀ p, pay = some p → WF nch p) :
    relC (genCheckHash (toV pol) ((invoices h).map (·.amount)) pay c ni no)
      = checkHash invoices payments pol nch c ni no h := by
  unfold genCheckHash checkHash
  cases pay with
  | none =>
    simp only [Option.map_none] at hp
    simp only [hp, Rs.pure_eq, Rs.bind_ok, Bool.not_true, Bool.false_eq_true, if_false, Option.isSome_none,
      Bool.false_and]
    exact checkHash_tail pol ni no _ false
  | some p =>
    simp only [Option.map_some] at hp
    have hwp := hw p rfl
    simp only [hp, C06_fn_get_cltv_bounds pol p]
    cases hb : p.get_cltv_bounds with
    | none =>
      simp only [Rs.pure_eq, Rs.bind_ok, Bool.not_true, Bool.false_eq_true, if_false,
        C06_fn_updated_incoming_outgoing nch p hwp c ni no]
      cases hu : (abs p).updated nch c ni no with
      | none => simp [Rs.bind_err, relC]
      | some io =>
        simp only [Rs.bind_ok, Option.isSome_some, Bool.true_and, Option.isNone_map]
        exact checkHash_tail pol io.1 io.2 _ _
    | some ab =>
      obtain ⟨a, b⟩ := ab
      simp only [C06_fn_validate_payment_cltv]
      by_cases hc : cltvOk pol a b = true
      · simp only [hc, if_true, Rs.bind_ok, Bool.not_true, Bool.false_eq_true, if_false,
          C06_fn_updated_incoming_outgoing nch p hwp c ni no]
        cases hu : (abs p).updated nch c ni no with
        | none => simp [Rs.bind_err, relC]
        | some io =>
          simp only [Rs.bind_ok, Option.isSome_some, Bool.true_and, Option.isNone_map]
          exact checkHash_tail pol io.1 io.2 _ _
      · have hc' : cltvOk pol a b = false := by simpa using hc
        simp [hc', Rs.bind_err, relC]

end VlsModel.Props.C06Fn

/-! ### `NodeState::validate_payments` itself (round 9): translated from the source, tied to the model's `validate`

Since round 9 the function is inside the translator's subset (area `NodePay`; `translate/fn_targets/C06.b06.json`):
the `UnorderedSet` of hashes is a list in ANY order (`any_order`; the theorems quantify over the list the two `extend`
loops produce, and the verdict is shown not to depend on it up to the `err`/`panic` ambiguity below), the validator's
three methods are declared externals, instantiated HERE with the generated `SimpleValidator::validate_payment_cltv` /
`validate_payment_balance` (`balExt`: `Err` = `none`, panics stay) and `enforce_balance = false`.  `genCheckHash` (the
hand transcription of the loop body of round 8) is now PROVED to be the generated loop body (`genValidate_eq`). -/
namespace VlsModel.Props.C06Fn
open VlsModel VlsModel.Payments VlsModel.Payments.Fn VlsModel.Payments.FnS
open VlsModel.Gen.FnNodePay
open VlsModel.Gen.FnSimplePay (SimpleValidator)

/-- `validator.validate_payment_balance(..)` as the declared external sees it: `Err(_)` = `none`, a panic / overflow
    inside stays an error of `Rs.M` -/
def balExt (v : SimpleValidator) (i o : Nat) (inv : Option Nat) : Rs.M (Option Unit) :=
  match v.validate_payment_balance errAll i o inv with
  | .ok () => .ok (some ())
  | .error (.err _) => .ok none
  | .error f => .error f

abbrev NS := NodeState (PaymentHash := Nat) (ChannelId := Nat) (PaymentPreimage := Unit)

/-- the generated `NodeState::validate_payments` with its externals instantiated by the generated validator functions -/
def genValidate (v : SimpleValidator) (enforce : Bool) (s : NS) (c : Nat) (inS outS : List (Nat × Nat))
    (bd : Nat × Nat) : Rs.M Unit :=
  NodeState.validate_payments (fun (v : SimpleValidator) a b => v.validate_payment_cltv errAll a b) balExt errAll
    (fun _ => enforce) s c inS outS bd v

def invOf (s : NS) (h : Nat) : Option Nat := (Rs.omapGet s.invoices h).map (fun i => i.amount_msat)
def getz (m : List (Nat × Nat)) (h : Nat) : Nat := (Rs.omapGet m h).getD 0

/-- one iteration of the generated loop -/
def genStep (v : SimpleValidator) (s : NS) (c : Nat) (inS outS : List (Nat × Nat)) (u : List Nat) (h : Nat) :
    Rs.M (List Nat) := do
  let b ← genCheckHash v (invOf s h) (Rs.omapGet s.payments h) c (getz inS h) (getz outS h)
  pure (if b then u else u ++ [h])

def hashSet (inS outS : List (Nat × Nat)) : List Nat :=
  List.foldl (fun hs k => Rs.asetInsert hs k) (List.foldl (fun hs k => Rs.asetInsert hs k) [] (inS.map (·.1))) (outS.map (·.1))

theorem genValidate_eq (v : SimpleValidator) (s : NS) (c : Nat) (inS outS : List (Nat × Nat)) (bd : Nat × Nat) :
    genValidate v false s c inS outS bd = (do
      let u ← List.foldlM (genStep v s c inS outS) [] (hashSet inS outS)
      if !u.isEmpty then Rs.policyErr errAll "policy-commitment-htlc-routing-balance" else pure ()) := by
  unfold genValidate NodeState.validate_payments
  simp only [Bool.false_eq_true, if_false]
  congr 1
  · congr 1
    funext u h
    unfold genStep genCheckHash invOf getz
    have hid : ∀ o : Option Nat, Option.map (fun a => a) o = o := fun o => by cases o <;> rfl
    simp only [hid]
    cases hp : Rs.omapGet s.payments h with
    | none =>
      simp only [Rs.pure_eq, Rs.bind_ok, Option.isSome_none, Bool.false_and]
      cases h9 : Rs.umul Rs.U64_MAX ((Rs.omapGet inS h).getD 0) 1000 with
      | error f => rfl
      | ok a =>
        simp only [Rs.bind_ok]
        cases h10 : Rs.umul Rs.U64_MAX ((Rs.omapGet outS h).getD 0) 1000 with
        | error f => rfl
        | ok b =>
          simp only [Rs.bind_ok, balExt]
          cases hb : v.validate_payment_balance errAll a b (Option.map (fun i => i.amount_msat) (Rs.omapGet s.invoices h)) with
          | ok x => rfl
          | error f => cases f <;> simp [Rs.bind_ok, Rs.bind_err]
    | some p =>
      simp only [Option.isSome_some, Bool.true_and]
      cases hc : p.get_cltv_bounds with
      | none =>
        simp only [Rs.bind_ok]
        cases hu : p.updated_incoming_outgoing c ((Rs.omapGet inS h).getD 0) ((Rs.omapGet outS h).getD 0) with
        | error f => rfl
        | ok io =>
          simp only [Rs.bind_ok, Rs.pure_eq]
          cases h9 : Rs.umul Rs.U64_MAX io.1 1000 with
          | error f => rfl
          | ok a =>
            simp only [Rs.bind_ok]
            cases h10 : Rs.umul Rs.U64_MAX io.2 1000 with
            | error f => rfl
            | ok b =>
              simp only [Rs.bind_ok, balExt]
              cases hb : v.validate_payment_balance errAll a b (Option.map (fun i => i.amount_msat) (Rs.omapGet s.invoices h)) with
              | ok x => rfl
              | error f => cases f <;> simp [Rs.bind_ok, Rs.bind_err]
      | some ab =>
        obtain ⟨ca, cb⟩ := ab
        simp only []
        cases hv : v.validate_payment_cltv errAll ca cb with
        | error f => rfl
        | ok x =>
          simp only [Rs.bind_ok]
          cases hu : p.updated_incoming_outgoing c ((Rs.omapGet inS h).getD 0) ((Rs.omapGet outS h).getD 0) with
          | error f => rfl
          | ok io =>
            simp only [Rs.bind_ok, Rs.pure_eq]
            cases h9 : Rs.umul Rs.U64_MAX io.1 1000 with
            | error f => rfl
            | ok a =>
              simp only [Rs.bind_ok]
              cases h10 : Rs.umul Rs.U64_MAX io.2 1000 with
              | error f => rfl
              | ok b =>
                simp only [Rs.bind_ok, balExt]
                cases hb : v.validate_payment_balance errAll a b (Option.map (fun i => i.amount_msat) (Rs.omapGet s.invoices h)) with
                | ok x => rfl
                | error f => cases f <;> simp [Rs.bind_ok, Rs.bind_err]

/-- the model's verdict over a key list: a panic wins, else all hashes must be balanced (`validate` after its `sumsOk`
    guard, for `ks` = the model's `keys`) -/
def modelLoop (r : Nat → VRes) (empty : Bool) (hs : List Nat) : VRes :=
  if hs.any (fun h => r h == .panic) then .panic
  else if empty && hs.all (fun h => r h == .ok) then .ok else .err

def finish (u : List Nat) : Rs.M Unit :=
  if !u.isEmpty then Rs.policyErr errAll "policy-commitment-htlc-routing-balance" else pure ()

theorem relV_finish (u : List Nat) : relV (finish u) = if u.isEmpty then .ok else .err := by
  unfold finish
  cases u <;> simp [relV, Rs.policyErr, errAll, Rs.fail]

/-- the generated loop against the model's verdict, for ANY order `hs` of the hash set: equal, except that a cltv refusal
    met before an overflowing hash answers `err` where the model answers `panic` (both refuse) -/
theorem loop_verdict (v : SimpleValidator) (s : NS) (c : Nat) (inS outS : List (Nat × Nat)) (hs : List Nat) (u : List Nat) :
    let r := fun h => relC (genCheckHash v (invOf s h) (Rs.omapGet s.payments h) c (getz inS h) (getz outS h))
    let g := relV (List.foldlM (genStep v s c inS outS) u hs >>= finish)
    g = modelLoop r u.isEmpty hs ∨ (g = .err ∧ modelLoop r u.isEmpty hs = .panic) := by
  intro r
  induction hs generalizing u with
  | nil =>
    left
    simp only [List.foldlM, Rs.pure_eq, Rs.bind_ok, relV_finish, modelLoop, List.any_nil, List.all_nil, Bool.and_true]
    cases u.isEmpty <;> simp
  | cons h t ih =>
    simp only [List.foldlM_cons]
    have hr : r h = relC (genCheckHash v (invOf s h) (Rs.omapGet s.payments h) c (getz inS h) (getz outS h)) := rfl
    unfold genStep
    cases hc : genCheckHash v (invOf s h) (Rs.omapGet s.payments h) c (getz inS h) (getz outS h) with
    | ok b =>
      cases b with
      | true =>
        have hr' : r h = .ok := by rw [hr, hc]; rfl
        have e : modelLoop r u.isEmpty (h :: t) = modelLoop r u.isEmpty t := by
          simp [modelLoop, hr']
        simp only [Rs.bind_ok, Rs.pure_eq, if_true, e]
        exact ih u
      | false =>
        have hr' : r h = .err := by rw [hr, hc]; rfl
        have e : modelLoop r u.isEmpty (h :: t) = modelLoop r (u ++ [h]).isEmpty t := by
          simp [modelLoop, hr']
        simp only [Rs.bind_ok, Rs.pure_eq, Bool.false_eq_true, if_false, e]
        exact ih (u ++ [h])
    | error f =>
      simp only [Rs.bind_err]
      cases f with
      | err tag =>
        have hr' : r h = .err := by rw [hr, hc]; rfl
        by_cases hp : t.any (fun h => r h == .panic) = true
        · right; simp [relV, modelLoop, hr', hp]
        · left; simp [relV, modelLoop, hr', hp]
      | panic =>
        have hr' : r h = .panic := by rw [hr, hc]; rfl
        left; simp [relV, modelLoop, hr']
      | overflow =>
        have hr' : r h = .panic := by rw [hr, hc]; rfl
        left; simp [relV, modelLoop, hr']

theorem mem_keys_omap (m : List (Nat × Nat)) (h : Nat) : h ∈ m.map (·.1) ↔ (Rs.omapGet m h).isSome = true := by
  induction m with
  | nil => simp [Rs.omapGet]
  | cons e m ih =>
    obtain ⟨k, x⟩ := e
    simp only [List.map_cons, List.mem_cons, Rs.omapGet]
    by_cases hk : k = h
    · simp [hk]
    · have : ¬ h = k := fun e => hk e.symm
      simp [hk, this, ih]

theorem mem_asetFold (ks acc : List Nat) (h : Nat) :
    h ∈ List.foldl (fun hs k => Rs.asetInsert hs k) acc ks ↔ h ∈ acc ∨ h ∈ ks := by
  induction ks generalizing acc with
  | nil => simp
  | cons k t ih =>
    rw [List.foldl_cons, ih]
    simp only [Rs.asetInsert, List.mem_cons]
    by_cases hc : acc.contains k = true
    · have : k ∈ acc := by simpa using hc
      simp only [hc, if_true]
      constructor
      · rintro (a | a); exact Or.inl a; exact Or.inr (Or.inr a)
      · rintro (a | a | a); exact Or.inl a; exact Or.inl (a ▸ this); exact Or.inr a
    · simp only [hc, Bool.false_eq_true, if_false, List.mem_append, List.mem_singleton]
      constructor
      · rintro ((a | a) | a); exact Or.inl a; exact Or.inr (Or.inl a); exact Or.inr (Or.inr a)
      · rintro (a | a | a); exact Or.inl (Or.inl a); exact Or.inl (Or.inr a); exact Or.inr a

theorem mem_hashSet (inS outS : List (Nat × Nat)) (h : Nat) :
    h ∈ hashSet inS outS ↔ (Rs.omapGet inS h).isSome = true ∨ (Rs.omapGet outS h).isSome = true := by
  unfold hashSet
  rw [mem_asetFold, mem_asetFold, mem_keys_omap, mem_keys_omap]
  simp

theorem any_congr_mem {l1 l2 : List Nat} (p : Nat → Bool) (hm : ∀ x, x ∈ l1 ↔ x ∈ l2) : l1.any p = l2.any p := by
  rw [Bool.eq_iff_iff, List.any_eq_true, List.any_eq_true]
  constructor
  · rintro ⟨x, a, b⟩; exact ⟨x, (hm x).1 a, b⟩
  · rintro ⟨x, a, b⟩; exact ⟨x, (hm x).2 a, b⟩

theorem all_congr_mem {l1 l2 : List Nat} (p : Nat → Bool) (hm : ∀ x, x ∈ l1 ↔ x ∈ l2) : l1.all p = l2.all p := by
  rw [Bool.eq_iff_iff, List.all_eq_true, List.all_eq_true]
  constructor
  · intro a x hx; exact a x ((hm x).2 hx)
  · intro a x hx; exact a x ((hm x).1 hx)

theorem getz_in (hEff cEff hCur cCur : Info) (inS : List (Nat × Nat))
    (hin : ∀ h, Rs.omapGet inS h = inSpec hEff.inc cEff.inc hCur.inc cCur.inc h) (h : Nat) :
    getz inS h = inVal hEff cEff h := by
  unfold getz
  rw [hin]
  unfold inSpec inVal
  by_cases a : (h ∈ hashes hEff.inc ∧ h ∈ hashes cEff.inc) ∨ h ∈ hashes hCur.inc ∨ h ∈ hashes cCur.inc
  · simp [a]
  · simp only [a, if_false, Option.getD_none]
    have : ¬ (h ∈ hashes hEff.inc ∧ h ∈ hashes cEff.inc) := fun b => a (Or.inl b)
    by_cases b : h ∈ hashes hEff.inc
    · have c : h ∉ hashes cEff.inc := fun c => this ⟨b, c⟩
      rw [sumFor_of_not_mem c]; omega
    · rw [sumFor_of_not_mem b]; omega

theorem getz_out (hEff cEff hCur cCur : Info) (outS : List (Nat × Nat))
    (hout : ∀ h, Rs.omapGet outS h = outSpec hEff.out cEff.out hCur.out cCur.out h) (h : Nat) :
    getz outS h = outVal hEff cEff h := by
  unfold getz
  rw [hout]
  unfold outSpec outVal
  by_cases a : h ∈ hashes hEff.out ∨ h ∈ hashes cEff.out ∨ h ∈ hashes hCur.out ∨ h ∈ hashes cCur.out
  · simp [a]
  · simp only [a, if_false, Option.getD_none]
    have b : h ∉ hashes hEff.out := fun b => a (Or.inl b)
    have c : h ∉ hashes cEff.out := fun c => a (Or.inr (Or.inl c))
    rw [sumFor_of_not_mem b, sumFor_of_not_mem c]; rfl

/-- **`NodeState::validate_payments` (generated from the source) against the model's `validate`.**  The node state `s` of
    the code stands for the model node `n` (`hinv`, `hpay`, `hwf`), the two summaries are what the generated
    `incoming_payments_summary` / `payments_summary` return (`hin`, `hout`: the conclusions of
    `C06_fn_incoming_payments_summary` / `C06_fn_payments_summary`), the validator is the generated `SimpleValidator` under
    the default filter, `enforce_balance = false` (both shipped policies).  Whatever the iteration order of the
    `UnorderedSet` of hashes: the generated function returns the model's verdict, except that it may answer `err` (a cltv
    refusal met first) where the model answers `panic` (an overflow on another hash) - both refuse. -/
theorem C06_fn_validate_payments (n : Node) (c : Chan) (hEff cEff : Info) (s : NS) (inS outS : List (Nat × Nat))
    (bd : Nat × Nat)
    (hinv : ∀ h, invOf s h = (n.invoices h).map (·.amount))
    (hpay : ∀ h, n.payments h = (Rs.omapGet s.payments h).map abs)
    (hwf : ∀ h p, Rs.omapGet s.payments h = some p → WF n.nch p)
    (hin : ∀ h, Rs.omapGet inS h = inSpec hEff.inc cEff.inc (n.chans c).hcur.inc (n.chans c).ccur.inc h)
    (hout : ∀ h, Rs.omapGet outS h = outSpec hEff.out cEff.out (n.chans c).hcur.out (n.chans c).ccur.out h)
    (hso : (sumsOk hEff && sumsOk cEff) = true) :
    let g := relV (genValidate (toV n.pol) false s c inS outS bd)
    g = validate n c hEff cEff ∨ (g = .err ∧ validate n c hEff cEff = .panic) := by
  intro g
  have hg : g = relV (List.foldlM (genStep (toV n.pol) s c inS outS) [] (hashSet inS outS) >>= finish) := by
    show relV (genValidate (toV n.pol) false s c inS outS bd) = _
    rw [genValidate_eq]; rfl
  have hr : ∀ h, relC (genCheckHash (toV n.pol) (invOf s h) (Rs.omapGet s.payments h) c (getz inS h) (getz outS h))
      = checkHash n.invoices n.payments n.pol n.nch c (inVal hEff cEff h) (outVal hEff cEff h) h := by
    intro h
    rw [hinv h, getz_in hEff cEff _ _ inS hin h, getz_out hEff cEff _ _ outS hout h]
    exact C06_fn_checkHash n.invoices n.payments n.pol n.nch c _ _ h _ (hpay h) (fun p hp => hwf h p hp)
  have hm : ∀ x, x ∈ hashSet inS outS ↔ x ∈ keys hEff cEff (n.chans c).hcur (n.chans c).ccur := by
    intro x
    rw [mem_hashSet, hin, hout]
    exact ((C06_fn_summaries_are_the_model hEff cEff (n.chans c).hcur (n.chans c).ccur x).2.2).symm
  have hv : validate n c hEff cEff = modelLoop
      (fun h => relC (genCheckHash (toV n.pol) (invOf s h) (Rs.omapGet s.payments h) c (getz inS h) (getz outS h)))
      true (hashSet inS outS) := by
    unfold validate modelLoop
    simp only [hso, Bool.not_true, Bool.false_eq_true, if_false, Bool.true_and, hr]
    rw [any_congr_mem _ hm, all_congr_mem _ hm]
  rw [hg, hv]
  exact loop_verdict (toV n.pol) s c inS outS (hashSet inS outS) []

/-- acceptance is exact: the generated `validate_payments` returns `Ok(())` iff the model's `validate` says `ok` -/
theorem C06_fn_validate_payments_accepts (n : Node) (c : Chan) (hEff cEff : Info) (s : NS) (inS outS : List (Nat × Nat))
    (bd : Nat × Nat)
    (hinv : ∀ h, invOf s h = (n.invoices h).map (·.amount))
    (hpay : ∀ h, n.payments h = (Rs.omapGet s.payments h).map abs)
    (hwf : ∀ h p, Rs.omapGet s.payments h = some p → WF n.nch p)
    (hin : ∀ h, Rs.omapGet inS h = inSpec hEff.inc cEff.inc (n.chans c).hcur.inc (n.chans c).ccur.inc h)
    (hout : ∀ h, Rs.omapGet outS h = outSpec hEff.out cEff.out (n.chans c).hcur.out (n.chans c).ccur.out h)
    (hso : (sumsOk hEff && sumsOk cEff) = true) :
    genValidate (toV n.pol) false s c inS outS bd = .ok () ↔ validate n c hEff cEff = .ok := by
  have h := C06_fn_validate_payments n c hEff cEff s inS outS bd hinv hpay hwf hin hout hso
  simp only at h
  constructor
  · intro e
    rw [e] at h
    rcases h with h | ⟨h, _⟩
    · exact h.symm
    · exact absurd h (by simp [relV])
  · intro e
    rw [e] at h
    rcases h with h | ⟨_, h⟩
    · cases hg : genValidate (toV n.pol) false s c inS outS bd with
      | ok u => rfl
      | error f => rw [hg] at h; cases f <;> simp [relV] at h
    · exact absurd h (by simp)

/-- with `enforce_balance()` the function goes on to the `excess_amount` check (outside the model: both shipped policies
    have `enforce_balance = false`): `excess + delta.1` overflowing is a panic, a shortfall the `policy-routing-balanced`
    error -/
theorem C06_fn_validate_payments_enforce (v : SimpleValidator) (s : NS) (c : Nat) (inS outS : List (Nat × Nat))
    (bd : Nat × Nat) :
    genValidate v true s c inS outS bd = (do
      genValidate v false s c inS outS bd
      let t ← Rs.unwrap (Rs.ucheckedAdd Rs.U64_MAX s.excess_amount bd.2)
      let _ ← Rs.okOr (Rs.ucheckedSub t bd.1) "policy-routing-balanced"
      pure ()) := by
  unfold genValidate NodeState.validate_payments
  simp only [Bool.false_eq_true, if_false, if_true, bind_assoc]
  congr 1
  funext u
  by_cases h : (!u.isEmpty) = true <;> simp [h, bind_assoc]

/-- non-vacuity: a node with one approved invoice (hash 7, 2 000 000 msat) and an update of channel 0 that puts 1 500 sat
    (within the approval) resp. 5 000 sat (beyond approval + fee allowance) in flight for it -/
def exNode : Node :=
  { Node.init 2 ⟨10000, 10, 5⟩ with invoices := fun h => if h = 7 then some ⟨2000000, 100, [0, 7]⟩ else none,
                                     payments := fun h => if h = 7 then some Payment.new else none }
def exState : NS :=
  { invoices := [(7, { amount_msat := 2000000, is_fulfilled := false })], issued_invoices := [],
    payments := [(7, RoutedPayment.new)], excess_amount := 0 }
def exEff (v : Nat) : Info := ⟨[], [⟨7, v, 500⟩]⟩

example (v : Nat) (hv : v ≤ 1000000) :
    let g := relV (genValidate (toV exNode.pol) false exState 0 [] [(7, v)] (0, 0))
    g = validate exNode 0 (exEff v) (exEff v) ∨ (g = .err ∧ validate exNode 0 (exEff v) (exEff v) = .panic) := by
  refine C06_fn_validate_payments exNode 0 (exEff v) (exEff v) exState [] [(7, v)] (0, 0) ?_ ?_ ?_ ?_ ?_ ?_
  · intro h
    by_cases e : h = 7
    · simp [invOf, exState, exNode, Rs.omapGet, e]
    · simp [invOf, exState, exNode, Rs.omapGet, e, Ne.symm e]
  · intro h
    by_cases e : h = 7
    · subst e
      simp only [exNode, exState, Rs.omapGet, if_true, Option.map_some, (C06_fn_new 2).1]
    · simp [exState, exNode, Rs.omapGet, e, Ne.symm e]
  · intro h p hp
    by_cases e : h = 7
    · subst e
      simp only [exState, Rs.omapGet, if_true, Option.some.injEq] at hp
      rw [← hp]; exact (C06_fn_new 2).2
    · simp [exState, Rs.omapGet, Ne.symm e] at hp
  · intro h; simp [inSpec, exEff, exNode, Node.init, ChanSt.init, Info.empty, hashes, Rs.omapGet]
  · intro h
    by_cases e : h = 7
    · simp [outSpec, exEff, exNode, Node.init, ChanSt.init, Info.empty, hashes, Rs.omapGet, sumFor, e]
    · simp [outSpec, exEff, exNode, Node.init, ChanSt.init, Info.empty, hashes, Rs.omapGet, e, Ne.symm e]
  · have e : (18446744073709551615 : Nat) = U64.MAX := rfl
    simp [sumsOk, sumsOkL, exEff, hashes, sumFor, U64.MAX]; omega

example : relV (genValidate (toV exNode.pol) false exState 0 [] [(7, 1500)] (0, 0)) = .ok := by decide
example : relV (genValidate (toV exNode.pol) false exState 0 [] [(7, 5000)] (0, 0)) = .err := by decide

/-- `NodeState::has_preimage` (the `PreimageMap` the balance computations consult) = the model's `pre` flag of the entry -/
theorem C06_fn_has_preimage (n : Node) (s : NS) (h : Hash) (hpay : n.payments h = (Rs.omapGet s.payments h).map abs) :
    s.has_preimage h = ((n.payments h).map (·.pre)).getD false := by
  unfold NodeState.has_preimage
  rw [hpay]
  cases Rs.omapGet s.payments h <;> rfl

end VlsModel.Props.C06Fn

namespace VlsModel.Props.C06Fn
open VlsModel VlsModel.Payments
open VlsModel.Gen.FnApproverC06

/-! ### The approvers and the proposal handlers of `vls-protocol-signer/src/approver.rs` (area `ApproverC06`, round 9)

`handle_proposed_invoice` / `handle_proposed_keysend` are default methods of the trait `Approve`: the generated
definitions take the required methods (`approve_invoice`, `approve_keysend`) and the `Node` methods they call as explicit
parameters.  `add_invoice` / `add_keysend` CHANGE the node; they are declared as externals only because the call is in
tail position (nothing of the node is read afterwards): the generated definition says which request a proposal turns
into and what is answered; the request itself is the model's `approve` op.  Below they are instantiated with the model:
`hasPay` (the reading of `Node::has_payment`: same invoice hash = `Ok(true)`, another one = `Err`, none = `Ok(false)`),
`addAns` (the answer of `Node.exec (.approve …)`).  The theorems show that the model's `proposalOp` - the mapping the
driver applies to every proposal line - followed by `Node.exec` gives exactly the answers of the generated handlers. -/

/-- the three shipped approvers answer constantly (the driver's `approverYes` flag) -/
theorem C06_fn_positive_approve_invoice {S I : Type} (s : S) (i : I) : PositiveApprover.approve_invoice s i = true := rfl
theorem C06_fn_positive_approve_keysend {S H : Type} (s : S) (h : H) (a : Nat) : PositiveApprover.approve_keysend s h a = true := rfl
theorem C06_fn_positive_approve_onchain {S T O : Type} (s : S) (t : T) (p : List O) (u : List Nat) :
    PositiveApprover.approve_onchain s t p u = true := rfl
theorem C06_fn_warning_approve_invoice {S I : Type} (s : S) (i : I) : WarningPositiveApprover.approve_invoice s i = true := rfl
theorem C06_fn_warning_approve_keysend {S H : Type} (s : S) (h : H) (a : Nat) :
    WarningPositiveApprover.approve_keysend s h a = true := rfl
theorem C06_fn_warning_approve_onchain {S T O : Type} (s : S) (t : T) (p : List O) (u : List Nat) :
    WarningPositiveApprover.approve_onchain s t p u = true := rfl
theorem C06_fn_negative_approve_invoice {S I : Type} (s : S) (i : I) : NegativeApprover.approve_invoice s i = false := rfl
theorem C06_fn_negative_approve_keysend {S H : Type} (s : S) (h : H) (a : Nat) : NegativeApprover.approve_keysend s h a = false := rfl
theorem C06_fn_negative_approve_onchain {S T O : Type} (s : S) (t : T) (p : List O) (u : List Nat) :
    NegativeApprover.approve_onchain s t p u = false := rfl

/-- `Node::has_payment(hash, invoice_hash)` as the model reads it -/
def hasPay (n : Node) (h : Hash) (id : List Nat) : Rs.M Bool :=
  match n.invoices h with
  | some old => if old.id = id then .ok true else .error (.err "failed-precondition")
  | none => .ok false

/-- the answer of a request the model executes: accepted = `Ok(true)`, not accepted = `Ok(false)` or `Err` (the model's
    Boolean does not separate them), `none` = panic -/
def addAns : Option (Node × Bool) → Rs.M Bool
  | some (_, b) => .ok b
  | none => .error .panic

/-- what the caller sees: `Err(_)` counts as "not accepted" -/
def ans : Rs.M Bool → Option Bool
  | .ok b => some b
  | .error (.err _) => some false
  | .error _ => none

theorem ans_addAns (x : Option (Node × Bool)) : ans (addAns x) = x.map (·.2) := by
  cases x with
  | none => rfl
  | some y => rfl
theorem ans_ok (b : Bool) : ans (Except.ok b) = some b := rfl
theorem ans_err (t : String) : ans (Except.error (.err t)) = some false := rfl

/-- **`handle_proposed_invoice`** (generated) = `Node.exec (proposalOp true allowlisted approverYes …)`: the `has_payment`
    shortcut, then the allowlist (WITHOUT asking the approver), then the approver -/
theorem C06_fn_handle_proposed_invoice (n : Node) (h : Hash) (inv : Invoice) (now : Nat) (allowlisted approverYes : Bool) :
    ans (Approve.handle_proposed_invoice (SelfT := Unit) (Node := Node) (Invoice := Invoice) (PaymentHash := Hash)
          (PaymentState := Unit) (InvoiceHash := List Nat) (PublicKey := Unit)
          (fun i => .ok (h, (), i.id)) hasPay (fun _ => ()) (fun _ _ => allowlisted)
          (fun n i => addAns (n.exec (.approve h i now))) (fun _ _ => approverYes) () n inv)
      = (n.exec (proposalOp true allowlisted approverYes h inv now)).map (·.2) := by
  unfold Approve.handle_proposed_invoice proposalOp hasPay
  cases hi : n.invoices h with
  | some old =>
    by_cases e : old.id = inv.id
    · cases allowlisted <;> cases approverYes <;>
        simp [e, hi, ans_ok, Node.exec, Node.approve, Node.proposeDeclined, Rs.bind_ok]
    · cases allowlisted <;> cases approverYes <;>
        simp [e, hi, ans_err, Node.exec, Node.approve, Node.proposeDeclined, Rs.bind_ok, Rs.bind_err]
  | none =>
    cases allowlisted <;> cases approverYes <;>
      simp only [Rs.bind_ok, Rs.pure_eq, Bool.false_eq_true, if_false, if_true, Bool.or_false, Bool.or_true,
        Bool.and_true, Bool.and_false] <;>
      simp [Node.exec, Node.proposeDeclined, hi, ans_addAns, ans_ok]

/-- **`handle_proposed_keysend`** (generated) = `Node.exec (proposalOp false allowlisted approverYes …)`: the allowlist is
    not consulted (TODO in the source), only the approver decides; the keysend's invoice hash is a function of
    payee, hash, amount and the clock reading -/
theorem C06_fn_handle_proposed_keysend (n : Node) (h : Hash) (inv : Invoice) (now : Nat) (allowlisted approverYes : Bool) :
    ans (Approve.handle_proposed_keysend (SelfT := Unit) (Node := Node) (PublicKey := Unit) (PaymentHash := Hash)
          (Duration := Nat) (PaymentState := Unit) (InvoiceHash := List Nat)
          (fun _ => now) (fun _ _ _ _ => .ok ((), inv.id)) hasPay (fun _ _ _ => approverYes)
          (fun n _ ph _ => addAns (n.exec (.approve ph inv now))) () n () h inv.amount)
      = (n.exec (proposalOp false allowlisted approverYes h inv now)).map (·.2) := by
  unfold Approve.handle_proposed_keysend proposalOp hasPay
  cases hi : n.invoices h with
  | some old =>
    by_cases e : old.id = inv.id
    · cases allowlisted <;> cases approverYes <;>
        simp [e, hi, ans_ok, Node.exec, Node.approve, Node.proposeDeclined, Rs.bind_ok]
    · cases allowlisted <;> cases approverYes <;>
        simp [e, hi, ans_err, Node.exec, Node.approve, Node.proposeDeclined, Rs.bind_ok, Rs.bind_err]
  | none =>
    cases allowlisted <;> cases approverYes <;>
      simp only [Rs.bind_ok, Rs.pure_eq, Bool.false_eq_true, if_false, if_true, Bool.or_false, Bool.or_true,
        Bool.and_true, Bool.and_false, Bool.false_and] <;>
      simp [Node.exec, Node.proposeDeclined, hi, ans_addAns, ans_ok]

/-- non-vacuity: an allowlisted payee's invoice is registered although the approver declines; the same proposal as a
    keysend is declined -/
example :
    let n := Node.init 2 ⟨10000, 10, 5⟩
    let inv : Invoice := ⟨2000000, 1600003660, [1, 2000000, 1600000000, 0]⟩
    (n.exec (proposalOp true true false 7 inv 1600000000)).map (·.2) = some true ∧
    (n.exec (proposalOp false true false 7 inv 1600000000)).map (·.2) = some false := by
  decide +kernel
end VlsModel.Props.C06Fn

/-! ### `Node::has_payment` (vls-core/src/node.rs, area `NodeApprove`, round 9): the shortcut of both proposal handlers -/
namespace VlsModel.Props.C06Fn
open VlsModel VlsModel.Payments

/-- the generated `Node::has_payment` is the reading `hasPay` used above, for every generated node whose invoice table
    carries the model's invoice ids (`invoice_hash`) -/
theorem C06_fn_has_payment (n : Node)
    (g : Gen.FnNodeApprove.Node (PaymentHash := Hash) (ScriptBuf := Unit) (Xpub := Unit) (PublicKey := Nat)) (h : Hash) (id : List Nat)
    (hinv : (Rs.omapGet g.state.invoices h).map (·.invoice_hash) = (n.invoices h).map (·.id)) :
    g.has_payment h id = hasPay n h id := by
  unfold Gen.FnNodeApprove.Node.has_payment hasPay
  cases hg : Rs.omapGet g.state.invoices h with
  | none =>
    rw [hg] at hinv
    cases hn : n.invoices h with
    | none => rfl
    | some o => rw [hn] at hinv; simp at hinv
  | some ps =>
    rw [hg] at hinv
    cases hn : n.invoices h with
    | none => rw [hn] at hinv; simp at hinv
    | some o =>
      rw [hn] at hinv
      simp only [Option.map_some, Option.some.injEq] at hinv
      by_cases e : o.id = id
      · simp [hinv, e]
      · simp [hinv, e, Rs.fail]
end VlsModel.Props.C06Fn

/-! ### `NodeState::apply_payments` itself (round 9): translated from the source, tied to the model's `applyPayments`

Normalisations (declared in `translate/fn_targets/C06.b06.json`, each must apply exactly once): the three write-through
accesses `payments.entry(h).or_insert_with(..)` / `get_mut(h)` are read - change the copy - `insert` at the same key.
Three loops over the same unordered hash set: (1) create missing entries and collect the issued invoices that became
fulfilled, (2) mark those, (3) `RoutedPayment::apply` per hash.  `genApply_eq` computes the result for a node without
issued invoices as two pure folds (`ens`, `stp3`); `C06_fn_apply_payments` reads the resulting table per hash. -/
namespace VlsModel.Props.C06Fn
open VlsModel VlsModel.Payments VlsModel.Payments.Fn VlsModel.Payments.FnS
open VlsModel.Gen.FnNodePay

/-- the generated `NodeState::apply_payments`, `enforce_balance = false` -/
def genApply (s : NS) (c : Nat) (inS outS : List (Nat × Nat)) (bd : Nat × Nat) (ci : Option (CommitmentInfo2 Nat)) : Rs.M NS :=
  NodeState.apply_payments (Validator := Unit) (fun _ => false) () s c inS outS bd () ci

/-- `payments.entry(hash).or_insert_with(RoutedPayment::new)` -/
def ens (m : List (Nat × RP)) (h : Nat) : List (Nat × RP) :=
  match Rs.omapGet m h with
  | some _ => m
  | none => Rs.omapInsert m h RoutedPayment.new

/-- the cltv bounds `apply_payments` takes from `commit_info` for one hash -/
def cltvOf (ci : Option (CommitmentInfo2 Nat)) (h : Nat) : Option Nat × Option Nat :=
  match ci with
  | some info =>
    let io := if info.is_counterparty_broadcaster then (info.offered_htlcs, info.received_htlcs)
              else (info.received_htlcs, info.offered_htlcs)
    (((io.1.filter (fun x => x.payment_hash == h)).map (fun x => x.cltv_expiry)).min?,
     ((io.2.filter (fun x => x.payment_hash == h)).map (fun x => x.cltv_expiry)).max?)
  | none => (none, none)

def applyP (p : RP) (c i o : Nat) (ic oc : Option Nat) : RP :=
  match p.apply c i o ic oc with
  | .ok r => r
  | .error _ => p

def stp3 (c : Nat) (inS outS : List (Nat × Nat)) (ci : Option (CommitmentInfo2 Nat)) (m : List (Nat × RP)) (h : Nat) :
    List (Nat × RP) :=
  match Rs.omapGet m h with
  | some p => Rs.omapInsert m h (applyP p c (getz inS h) (getz outS h) (cltvOf ci h).1 (cltvOf ci h).2)
  | none => m

def finalPay (m : List (Nat × RP)) (c : Nat) (inS outS : List (Nat × Nat)) (ci : Option (CommitmentInfo2 Nat)) :
    List (Nat × RP) :=
  List.foldl (stp3 c inS outS ci) (List.foldl ens m (hashSet inS outS)) (hashSet inS outS)

theorem foldlM_ok {σ α : Type} (f : σ → α → Rs.M σ) (g : σ → α → σ) (P : σ → List α → Prop)
    (hstep : ∀ s a l, P s (a :: l) → f s a = .ok (g s a) ∧ P (g s a) l) (l : List α) (s : σ) (h : P s l) :
    List.foldlM f s l = .ok (l.foldl g s) := by
  induction l generalizing s with
  | nil => rfl
  | cons a t ih =>
    obtain ⟨h1, h2⟩ := hstep s a t h
    simp only [List.foldlM_cons, h1, Rs.bind_ok, List.foldl_cons]
    exact ih _ h2

theorem omapGet_ens (m : List (Nat × RP)) (h k : Nat) :
    Rs.omapGet (ens m h) k = if k = h then some ((Rs.omapGet m h).getD RoutedPayment.new) else Rs.omapGet m k := by
  unfold ens
  cases hm : Rs.omapGet m h with
  | some p =>
    by_cases e : k = h
    · simp [e, hm]
    · simp [e]
  | none =>
    simp only [omapGet_insert, Option.getD_none]

theorem omapGet_foldl_ens (hs : List Nat) (m : List (Nat × RP)) (k : Nat) :
    Rs.omapGet (List.foldl ens m hs) k
      = if k ∈ hs then some ((Rs.omapGet m k).getD RoutedPayment.new) else Rs.omapGet m k := by
  induction hs generalizing m with
  | nil => simp
  | cons h t ih =>
    rw [List.foldl_cons, ih, omapGet_ens]
    by_cases e : k = h
    · subst e; simp
    · by_cases e2 : k ∈ t <;> simp [e, e2]

theorem omapGet_stp3 (c : Nat) (inS outS : List (Nat × Nat)) (ci : Option (CommitmentInfo2 Nat)) (m : List (Nat × RP))
    (h k : Nat) :
    Rs.omapGet (stp3 c inS outS ci m h) k
      = if k = h then (Rs.omapGet m h).map (fun p => applyP p c (getz inS h) (getz outS h) (cltvOf ci h).1 (cltvOf ci h).2)
        else Rs.omapGet m k := by
  unfold stp3
  cases hm : Rs.omapGet m h with
  | some p => simp only [omapGet_insert, Option.map_some]
  | none =>
    by_cases e : k = h
    · simp [e, hm]
    · simp [e]

theorem omapGet_foldl_stp3 (c : Nat) (inS outS : List (Nat × Nat)) (ci : Option (CommitmentInfo2 Nat)) (hs : List Nat)
    (hn : hs.Nodup) (m : List (Nat × RP)) (k : Nat) :
    Rs.omapGet (List.foldl (stp3 c inS outS ci) m hs) k
      = if k ∈ hs then (Rs.omapGet m k).map (fun p => applyP p c (getz inS k) (getz outS k) (cltvOf ci k).1 (cltvOf ci k).2)
        else Rs.omapGet m k := by
  induction hs generalizing m with
  | nil => simp
  | cons h t ih =>
    have hnt : t.Nodup := (List.nodup_cons.1 hn).2
    have hh : h ∉ t := (List.nodup_cons.1 hn).1
    rw [List.foldl_cons, ih hnt, omapGet_stp3]
    by_cases e : k = h
    · subst e; simp [hh]
    · by_cases e2 : k ∈ t <;> simp [e, e2]

theorem nodup_asetFold (ks acc : List Nat) (ha : acc.Nodup) :
    (List.foldl (fun hs k => Rs.asetInsert hs k) acc ks).Nodup := by
  induction ks generalizing acc with
  | nil => exact ha
  | cons k t ih =>
    rw [List.foldl_cons]
    apply ih
    unfold Rs.asetInsert
    by_cases hc : acc.contains k = true
    · have hm : k ∈ acc := by simpa using hc
      simp only [hc, if_true]; exact ha
    · have : k ∉ acc := by simpa using hc
      simp only [hc, Bool.false_eq_true, if_false]
      exact List.nodup_append.2 ⟨ha, by simp, by intro a ha' b hb; simp at hb; subst hb; exact fun e => this (e ▸ ha')⟩

theorem nodup_hashSet (inS outS : List (Nat × Nat)) : (hashSet inS outS).Nodup := by
  unfold hashSet
  exact nodup_asetFold _ _ (nodup_asetFold _ _ List.nodup_nil)

def g1 (x : NS × List Nat) (h : Nat) : NS × List Nat := ({ x.1 with payments := ens x.1.payments h }, x.2)
def g3 (c : Nat) (inS outS : List (Nat × Nat)) (ci : Option (CommitmentInfo2 Nat)) (s : NS) (h : Nat) : NS :=
  { s with payments := stp3 c inS outS ci s.payments h }

theorem foldl_g1 (hs : List Nat) (s : NS) (u : List Nat) :
    List.foldl g1 (s, u) hs = ({ s with payments := List.foldl ens s.payments hs }, u) := by
  induction hs generalizing s with
  | nil => rfl
  | cons h t ih => rw [List.foldl_cons, g1, ih]; rfl

theorem foldl_g3 (c : Nat) (inS outS : List (Nat × Nat)) (ci : Option (CommitmentInfo2 Nat)) (hs : List Nat) (s : NS) :
    List.foldl (g3 c inS outS ci) s hs = { s with payments := List.foldl (stp3 c inS outS ci) s.payments hs } := by
  induction hs generalizing s with
  | nil => rfl
  | cons h t ih => rw [List.foldl_cons, g3, ih]; rfl

theorem unwrap_some {α : Type} (x : α) : Rs.unwrap (some x) = .ok x := rfl

theorem genApply_eq (s : NS) (c : Nat) (inS outS : List (Nat × Nat)) (bd : Nat × Nat) (ci : Option (CommitmentInfo2 Nat))
    (hi : s.issued_invoices = []) :
    genApply s c inS outS bd ci = .ok { s with payments := finalPay s.payments c inS outS ci } := by
  unfold genApply NodeState.apply_payments
  simp only [Bool.false_eq_true, if_false]
  rw [foldlM_ok _ g1 (fun x _ => x.1.issued_invoices = []) ?_ _ _ hi]
  · rw [foldl_g1]
    simp only [Rs.bind_ok, List.foldlM_nil, Rs.pure_eq]
    rw [foldlM_ok _ (g3 c inS outS ci) (fun s l => ∀ h ∈ l, (Rs.omapGet s.payments h).isSome = true) ?_ _ _ ?_]
    · rw [foldl_g3]; rfl
    · intro s0 a l hP
      have ha := hP a (List.mem_cons_self)
      cases hp : Rs.omapGet s0.payments a with
      | none => rw [hp] at ha; simp at ha
      | some p =>
        obtain ⟨r', hr, _⟩ := C06_fn_apply 0 p c (getz inS a) (getz outS a) (cltvOf ci a).1 (cltvOf ci a).2
        have hid : ∀ o : Option Nat, Option.map (fun a => a) o = o := fun o => by cases o <;> rfl
        constructor
        · simp only [hid, unwrap_some, Rs.bind_ok]
          have hr' : p.apply c ((Rs.omapGet inS a).getD 0) ((Rs.omapGet outS a).getD 0) (cltvOf ci a).1 (cltvOf ci a).2
              = Except.ok r' := hr
          cases ci with
          | none =>
            simp only [cltvOf] at hr'
            simp only [hr', Rs.bind_ok, Rs.pure_eq, g3, stp3, hp, applyP, getz, cltvOf]
          | some info =>
            simp only [cltvOf] at hr'
            simp only [hr', Rs.bind_ok, Rs.pure_eq, g3, stp3, hp, applyP, getz, cltvOf]
        · intro h hh
          simp only [g3, omapGet_stp3]
          by_cases e : h = a
          · simp [e, hp]
          · simp only [e, if_false]; exact hP h (List.mem_cons_of_mem _ hh)
    · intro h hh
      simp only [omapGet_foldl_ens, hh, if_true, Option.isSome_some]
  · intro x a l hP
    obtain ⟨s0, u0⟩ := x
    simp only at hP
    constructor
    · cases hp : Rs.omapGet s0.payments a with
      | some p =>
        simp [hp, hP, Rs.omapGet, unwrap_some, g1, ens]
        cases s0; simp_all
      | none =>
        simp [hp, hP, Rs.omapGet, unwrap_some, g1, ens, omapGet_insert]
    · simp only [g1, hP]

theorem applyP_spec (nch : Nat) (p : RP) (c i o : Nat) (ic oc : Option Nat) :
    abs (applyP p c i o ic oc) = (abs p).apply c i o ic oc ∧ (WF nch p → c < nch → WF nch (applyP p c i o ic oc)) := by
  obtain ⟨r', hr, ha, hw⟩ := C06_fn_apply nch p c i o ic oc
  have e : applyP p c i o ic oc = r' := by simp [applyP, hr]
  rw [e]; exact ⟨ha, hw⟩

theorem omapGet_finalPay (m : List (Nat × RP)) (c : Nat) (inS outS : List (Nat × Nat)) (ci : Option (CommitmentInfo2 Nat))
    (k : Nat) :
    Rs.omapGet (finalPay m c inS outS ci) k
      = if k ∈ hashSet inS outS then
          some (applyP ((Rs.omapGet m k).getD RoutedPayment.new) c (getz inS k) (getz outS k) (cltvOf ci k).1 (cltvOf ci k).2)
        else Rs.omapGet m k := by
  unfold finalPay
  rw [omapGet_foldl_stp3 c inS outS ci _ (nodup_hashSet inS outS), omapGet_foldl_ens]
  by_cases e : k ∈ hashSet inS outS <;> simp [e]

/-- **`NodeState::apply_payments` (generated from the source) against the model's `applyPayments`.**  Node without issued
    invoices (the model does not carry their `is_fulfilled` flag), `enforce_balance = false`; the summaries are what the
    generated summary functions return (`hin`, `hout`), `hcl`: the cltv bounds the code takes from `commit_info` are the
    model's `minCltv` / `maxCltv` of the new commitment (`C06_fn_cltvOf`).  Whatever the iteration order of the hash set: the
    call succeeds, leaves the invoices alone, and the payment table it returns stands for the model's table - every hash of
    `keys` gets its channel entry replaced by `inVal` / `outVal` (a fresh entry if it had none) and its cltv bounds
    merged; all other entries are untouched; well-formedness of the per-channel maps is preserved. -/
theorem C06_fn_apply_payments (nch : Nat) (s : NS) (c : Chan) (hc : c < nch) (hEff cEff hCur cCur newInfo : Info)
    (inS outS : List (Nat × Nat)) (bd : Nat × Nat) (ci : Option (CommitmentInfo2 Nat))
    (hi : s.issued_invoices = [])
    (hwf : ∀ h p, Rs.omapGet s.payments h = some p → WF nch p)
    (hin : ∀ h, Rs.omapGet inS h = inSpec hEff.inc cEff.inc hCur.inc cCur.inc h)
    (hout : ∀ h, Rs.omapGet outS h = outSpec hEff.out cEff.out hCur.out cCur.out h)
    (hcl : ∀ h, cltvOf ci h = (minCltv newInfo.inc h, maxCltv newInfo.out h)) :
    ∃ s', genApply s c inS outS bd ci = .ok s' ∧ s'.invoices = s.invoices ∧
      (∀ h, (Rs.omapGet s'.payments h).map abs
          = applyPayments (fun h => (Rs.omapGet s.payments h).map abs) c hEff cEff hCur cCur newInfo h) ∧
      (∀ h p, Rs.omapGet s'.payments h = some p → WF nch p) := by
  refine ⟨_, genApply_eq s c inS outS bd ci hi, rfl, ?_, ?_⟩
  · intro h
    have hm : h ∈ hashSet inS outS ↔ h ∈ keys hEff cEff hCur cCur := by
      rw [mem_hashSet, hin, hout]
      exact ((C06_fn_summaries_are_the_model hEff cEff hCur cCur h).2.2).symm
    simp only [omapGet_finalPay, applyPayments]
    by_cases e : h ∈ hashSet inS outS
    · have e' := hm.1 e
      simp only [e, e', if_true, Option.map_some, (applyP_spec nch _ c _ _ _ _).1, hcl,
        getz_in hEff cEff hCur cCur inS hin h, getz_out hEff cEff hCur cCur outS hout h]
      cases Rs.omapGet s.payments h with
      | none => simp [(C06_fn_new nch).1]
      | some p => simp
    · have e' : ¬ h ∈ keys hEff cEff hCur cCur := fun x => e (hm.2 x)
      simp only [e, e', if_false]
  · intro h p hp
    simp only [omapGet_finalPay] at hp
    by_cases e : h ∈ hashSet inS outS
    · simp only [e, if_true, Option.some.injEq] at hp
      rw [← hp]
      refine (applyP_spec nch _ c _ _ _ _).2 ?_ hc
      cases hq : Rs.omapGet s.payments h with
      | none => exact (C06_fn_new nch).2
      | some q => exact hwf h q hq
    · simp only [e, if_false] at hp
      exact hwf h p hp

/-- a model HTLC list as the generated `HTLCInfo2` records (the fields `apply_payments` reads) -/
def gh (l : List Htlc) : List (HTLCInfo2 Nat) := l.map (fun x => { payment_hash := x.hash, cltv_expiry := x.cltv })

theorem min_gh (l : List Htlc) (h : Nat) :
    (((gh l).filter (fun x => x.payment_hash == h)).map (fun x => x.cltv_expiry)).min? = minCltv l h := by
  induction l with
  | nil => rfl
  | cons x xs ih =>
    unfold gh at ih ⊢
    simp only [List.map_cons, List.filter_cons, minCltv]
    by_cases e : x.hash = h
    · simp only [e, beq_self_eq_true, if_true, List.map_cons, List.min?_cons, ih]
      cases minCltv xs h <;> simp [optMerge]
    · have : (x.hash == h) = false := by simpa using e
      simp only [this, Bool.false_eq_true, if_false, e, ih]

theorem max_gh (l : List Htlc) (h : Nat) :
    (((gh l).filter (fun x => x.payment_hash == h)).map (fun x => x.cltv_expiry)).max? = maxCltv l h := by
  induction l with
  | nil => rfl
  | cons x xs ih =>
    unfold gh at ih ⊢
    simp only [List.map_cons, List.filter_cons, maxCltv]
    by_cases e : x.hash = h
    · simp only [e, beq_self_eq_true, if_true, List.map_cons, List.max?_cons, ih]
      cases maxCltv xs h <;> simp [optMerge]
    · have : (x.hash == h) = false := by simpa using e
      simp only [this, Bool.false_eq_true, if_false, e, ih]

/-- the cltv bounds of `apply_payments` are the model's: for a counterparty commitment offered = incoming and received =
    outgoing (`Info.ofCp`), for a holder commitment the reverse (`Info.ofHolder`) -/
theorem C06_fn_cltvOf (cpb : Bool) (offered received : List Htlc) (h : Nat) :
    cltvOf (some { is_counterparty_broadcaster := cpb, offered_htlcs := gh offered, received_htlcs := gh received }) h
      = (minCltv (if cpb then Info.ofCp offered received else Info.ofHolder offered received).inc h,
         maxCltv (if cpb then Info.ofCp offered received else Info.ofHolder offered received).out h) := by
  cases cpb <;> simp [cltvOf, min_gh, max_gh, Info.ofCp, Info.ofHolder]

/-- non-vacuity: an empty node, channel 0 of 2 signs a counterparty commitment with one received (= outgoing) HTLC of
    1 500 sat for hash 7: the generated function creates the entry the model creates -/
example :
    (genApply { invoices := [], issued_invoices := [], payments := [], excess_amount := 0 } 0 [] [(7, 1500)] (0, 0)
        (some { is_counterparty_broadcaster := true, offered_htlcs := [], received_htlcs := gh [⟨7, 1500, 500⟩] })).toOption.map
      (fun s' => (Rs.omapGet s'.payments 7).map (fun p => (p.outgoing, p.outgoing_cltv_max)))
      = some (some ([(0, 1500)], some 500)) := by decide
end VlsModel.Props.C06Fn

namespace VlsModel.Props.C06Fn
open VlsModel VlsModel.Payments
open VlsModel.Gen.FnNodeApprove (Allowable)

/-- `Node::get_state` is the protected `state` (the lock is the identity) -/
theorem C06_fn_get_state {H S X P : Type} (g : Gen.FnNodeApprove.Node H S X P) : g.get_state = g.state := rfl

/-- `Node::allowlist_contains_payee` (the `allowlisted` input of the model's `proposalOp`): membership of
    `Allowable::Payee(payee)` in the node's allowlist; entries of the two on-chain kinds never make a payee allowlisted -/
theorem C06_fn_allowlist_contains_payee {H S X P : Type} [DecidableEq S] [DecidableEq X] [DecidableEq P]
    (g : Gen.FnNodeApprove.Node H S X P) (payee : P) :
    g.allowlist_contains_payee payee = g.state.allowlist.contains (Allowable.Payee payee) ∧
    (g.allowlist_contains_payee payee = true ↔ ∃ a ∈ g.state.allowlist, a = Allowable.Payee payee) := by
  constructor
  · rfl
  · unfold Gen.FnNodeApprove.Node.allowlist_contains_payee Gen.FnNodeApprove.Node.get_state
    simp [List.contains_iff_mem]
/-! ## Round 10 (b4): where the *approved amount* of a hash comes from (area `NodeAdd`, `translate/fn_targets/NodeAdd.b4.json`)

`Node::payment_state_from_invoice` / `payment_state_from_keysend` build the `PaymentState` that `add_invoice` /
`add_keysend` register (tied in `Props/C12Fn.lean`: `C12_fn_add_invoice`, `C12_fn_add_keysend` — registration only through
the velocity control, a shortcut for an amount already registered, nothing on refusal = the model's `Node.approve`).  The
"approved amount" of the statement is `amount_msat` of that state: the invoice's `amount_milli_satoshis()` / the amount of
the keysend request, never fulfilled at registration. -/
section NodeAdd
open VlsModel.Gen.FnNodeAdd (Node PaymentState PaymentType)

theorem C06_fn_payment_state_from_invoice {Invoice PaymentHash PublicKey Duration : Type}
    (ph : Invoice → PaymentHash) (ihf : Invoice → List Nat) (amt : Invoice → Nat) (payee : Invoice → PublicKey)
    (dse exp : Invoice → Duration) (inv : Invoice) :
    Node.payment_state_from_invoice ph ihf amt payee dse exp inv
      = .ok (ph inv, { invoice_hash := ihf inv, amount_msat := amt inv, payee := payee inv, duration_since_epoch := dse inv,
                        expiry_duration := exp inv, is_fulfilled := false, payment_type := PaymentType.Invoice }, ihf inv) := rfl

theorem C06_fn_payment_state_from_keysend {PublicKey PaymentHash Duration : Type}
    (bytes : PaymentHash → List Nat) (fromSecs : Nat → Duration) (payee : PublicKey) (h : PaymentHash) (amount : Nat)
    (now : Duration) :
    Node.payment_state_from_keysend bytes fromSecs payee h amount now
      = .ok ({ invoice_hash := bytes h, amount_msat := amount, payee := payee, duration_since_epoch := now,
               expiry_duration := fromSecs 60, is_fulfilled := false, payment_type := PaymentType.Keysend }, bytes h) := rfl
end NodeAdd

/-! ## Round 10 (b4): `Channel::restore_payments` (channel.rs) — the restart clause ("… and the restarts in between")

Until now `restore_payments` was modelled by hand (`Node.restart` of `Model/Payments.lean`, tied by the correspondence group
only).  Area `ChanRestore` (`translate/fn_targets/ChanRestore.b4.json`) translates its whole body — with it, on demand,
`payments_summary` / `incoming_payments_summary` / `summarize_payments` of validator.rs and `RoutedPayment::{new, apply}` of
node.rs a further time.  Normalisations: the node's state (`self.get_node().get_state()`) as an explicit `&mut NodeState`
parameter, `extend(keys)` as the insert loop, the write through `entry().or_insert_with()` as insert-default / read / `apply` /
insert back.

`C06_fn_restore_payments`, stated directly on the generated definition: a restart never fails in `restore_payments` itself
(given the two summaries do not overflow), and afterwards for EVERY hash of either summary the node's entry for the hash carries,
under this channel's id, exactly `payments_summary(None, None)[hash]` outgoing (= max of the holder and the counterparty view:
`C06_fn_payments_summary`, `C06_fn_summaries_are_the_model` over the same source text) and `incoming_payments_summary(None,
None)[hash]` incoming (min of the views); entries of other hashes are untouched.  This is the amount `validate_payments`
compares with the approved amount after a restart; seed C06-r8-1 (outgoing amount restored from one view only) is of this kind. -/
section ChanRestore
open VlsModel.Gen.FnChanRestore (Channel NodeState RoutedPayment EnforcementState)
variable {H C P : Type} [DecidableEq H] [DecidableEq C]

theorem C06_fn_restore_apply (p : RoutedPayment C P) (id : C) (i o : Nat) (ci co : Option Nat) :
    ∃ p', RoutedPayment.apply p id i o ci co = .ok p' ∧ p'.incoming = Rs.omapInsert p.incoming id i ∧
      p'.outgoing = Rs.omapInsert p.outgoing id o ∧ p'.preimage = p.preimage := by
  unfold RoutedPayment.apply
  cases ci <;> cases co <;> exact ⟨_, rfl, rfl, rfl, rfl⟩

/-- the hashes `restore_payments` visits: the keys of the two summaries (insertion order, no repeats) -/
def restoreHashes (inS outS : List (H × Nat)) : List H :=
  List.foldl (fun hs k => Rs.asetInsert hs k) (List.foldl (fun hs k => Rs.asetInsert hs k) [] (inS.map (fun kv => kv.1)))
    (outS.map (fun kv => kv.1))

/-- one iteration of the loop of `restore_payments` (the generated body; the two cltv bounds as functions of the hash) -/
def restoreStep (id0 : C) (inS outS : List (H × Nat)) (minC maxC : H → Option Nat) (state : NodeState H C P) (hash : H) :
    Rs.M (NodeState H C P) := do
  let fresh : RoutedPayment C P := (RoutedPayment.new)
  let state := (match (Rs.omapGet state.payments hash) with | some _ => state | _ => (let state := { state with payments := (Rs.omapInsert state.payments hash fresh) }; state))
  let payment ← Rs.unwrap (Rs.omapGet state.payments hash)
  let incoming_sat := ((Option.map (fun a => a) (Rs.omapGet inS hash)).getD 0)
  let outgoing_sat := ((Option.map (fun a => a) (Rs.omapGet outS hash)).getD 0)
  let s_7 ← RoutedPayment.apply payment id0 incoming_sat outgoing_sat (minC hash) (maxC hash)
  let payment := s_7
  let state := { state with payments := (Rs.omapInsert state.payments hash payment) }
  pure state

/-- the generated `restore_payments` IS: the two summaries, then the fold of `restoreStep` over `restoreHashes` -/
theorem C06_fn_restore_payments_form (self : Channel H C) (state : NodeState H C P) :
    Channel.restore_payments self state = (do
      let inS ← EnforcementState.incoming_payments_summary self.enforcement_state none none
      let outS ← EnforcementState.payments_summary self.enforcement_state none none
      let state ← List.foldlM (restoreStep self.id0 inS outS
        (fun hash => (Option.or (Option.bind self.enforcement_state.current_holder_commit_info (fun info => ((info.received_htlcs.filter (fun h => (h.payment_hash == hash))).map (fun h => h.cltv_expiry)).min?)) (Option.bind self.enforcement_state.current_counterparty_commit_info (fun info => ((info.offered_htlcs.filter (fun h => (h.payment_hash == hash))).map (fun h => h.cltv_expiry)).min?))))
        (fun hash => (Option.or (Option.bind self.enforcement_state.current_holder_commit_info (fun info => ((info.offered_htlcs.filter (fun h => (h.payment_hash == hash))).map (fun h => h.cltv_expiry)).max?)) (Option.bind self.enforcement_state.current_counterparty_commit_info (fun info => ((info.received_htlcs.filter (fun h => (h.payment_hash == hash))).map (fun h => h.cltv_expiry)).max?)))))
        state (restoreHashes inS outS)
      pure state) := rfl

/-- what the entry of `hash` says about this channel after its iteration -/
def Restored (id0 : C) (inS outS : List (H × Nat)) (h : H) (p : RoutedPayment C P) : Prop :=
  Rs.omapGet p.outgoing id0 = some ((Rs.omapGet outS h).getD 0) ∧ Rs.omapGet p.incoming id0 = some ((Rs.omapGet inS h).getD 0)

theorem C06_fn_restore_step (id0 : C) (inS outS : List (H × Nat)) (minC maxC : H → Option Nat) (st : NodeState H C P) (h : H) :
    ∃ st', restoreStep id0 inS outS minC maxC st h = .ok st' ∧
      (∃ p, Rs.omapGet st'.payments h = some p ∧ Restored id0 inS outS h p) ∧
      ∀ h', h' ≠ h → Rs.omapGet st'.payments h' = Rs.omapGet st.payments h' := by
  unfold restoreStep
  cases hg : Rs.omapGet st.payments h with
  | some old =>
    obtain ⟨p', hp, hi, ho, _⟩ := C06_fn_restore_apply old id0 ((Rs.omapGet inS h).getD 0)
      ((Rs.omapGet outS h).getD 0) (minC h) (maxC h)
    refine ⟨{ st with payments := Rs.omapInsert st.payments h p' }, ?_, ⟨p', ?_, ?_⟩, ?_⟩
    · simp [hg, Rs.unwrap, hp]
    · simp [Rs.omapGet_omapInsert]
    · simp [Restored, hi, ho, Rs.omapGet_omapInsert]
    · intro h' hne; simp [Rs.omapGet_omapInsert, Ne.symm hne]
  | none =>
    obtain ⟨p', hp, hi, ho, _⟩ := C06_fn_restore_apply (RoutedPayment.new : RoutedPayment C P) id0
      ((Rs.omapGet inS h).getD 0) ((Rs.omapGet outS h).getD 0) (minC h) (maxC h)
    refine ⟨{ st with payments := Rs.omapInsert (Rs.omapInsert st.payments h RoutedPayment.new) h p' }, ?_, ⟨p', ?_, ?_⟩, ?_⟩
    · simp [hg, Rs.unwrap, hp, Rs.omapGet_omapInsert]
    · simp [Rs.omapGet_omapInsert]
    · simp [Restored, hi, ho, Rs.omapGet_omapInsert]
    · intro h' hne; simp [Rs.omapGet_omapInsert, Ne.symm hne]

theorem C06_fn_restore_fold (id0 : C) (inS outS : List (H × Nat)) (minC maxC : H → Option Nat) :
    ∀ (l : List H) (st : NodeState H C P), ∃ st', List.foldlM (restoreStep id0 inS outS minC maxC) st l = .ok st' ∧
      (∀ h ∈ l, ∃ p, Rs.omapGet st'.payments h = some p ∧ Restored id0 inS outS h p) ∧
      ∀ h', h' ∉ l → Rs.omapGet st'.payments h' = Rs.omapGet st.payments h' := by
  intro l
  induction l with
  | nil => intro st; exact ⟨st, rfl, by simp, fun _ _ => rfl⟩
  | cons a l ih =>
    intro st
    obtain ⟨st1, h1, hp1, ho1⟩ := C06_fn_restore_step id0 inS outS minC maxC st a
    obtain ⟨st', h2, hp2, ho2⟩ := ih st1
    refine ⟨st', by simp [List.foldlM, h1, h2], ?_, ?_⟩
    · intro h hm
      by_cases hl : h ∈ l
      · exact hp2 h hl
      · have : h = a := by simpa [hl] using hm
        subst this
        rw [ho2 h hl]; exact hp1
    · intro h' hn
      have hne : h' ≠ a := fun e => hn (by simp [e])
      have hnl : h' ∉ l := fun e => hn (by simp [e])
      rw [ho2 h' hnl, ho1 h' hne]

theorem C06_fn_mem_asetInsert (l : List H) (k x : H) : x ∈ Rs.asetInsert l k ↔ x ∈ l ∨ x = k := by
  unfold Rs.asetInsert
  by_cases hc : l.contains k
  · simp only [hc, if_true]
    constructor
    · exact Or.inl
    · rintro (h | h)
      · exact h
      · subst h; simpa using hc
  · have hc' : k ∉ l := by simpa using hc
    simp [hc']

theorem C06_fn_mem_fold_asetInsert (ks : List H) : ∀ (init : List H) (x : H),
    x ∈ List.foldl (fun hs k => Rs.asetInsert hs k) init ks ↔ x ∈ init ∨ x ∈ ks := by
  induction ks with
  | nil => intro init x; simp
  | cons k ks ih => intro init x; simp [List.foldl, ih, C06_fn_mem_asetInsert, or_assoc]

/-- **C06_fn_restore_payments** (see the section header). -/
theorem C06_fn_restore_payments (self : Channel H C) (st : NodeState H C P) (inS outS : List (H × Nat))
    (hin : EnforcementState.incoming_payments_summary self.enforcement_state none none = .ok inS)
    (hout : EnforcementState.payments_summary self.enforcement_state none none = .ok outS) :
    ∃ st', Channel.restore_payments self st = .ok st' ∧
      (∀ h, (h ∈ inS.map (fun kv => kv.1) ∨ h ∈ outS.map (fun kv => kv.1)) →
        ∃ p, Rs.omapGet st'.payments h = some p ∧
          Rs.omapGet p.outgoing self.id0 = some ((Rs.omapGet outS h).getD 0) ∧
          Rs.omapGet p.incoming self.id0 = some ((Rs.omapGet inS h).getD 0)) ∧
      (∀ h, ¬ (h ∈ inS.map (fun kv => kv.1) ∨ h ∈ outS.map (fun kv => kv.1)) →
        Rs.omapGet st'.payments h = Rs.omapGet st.payments h) := by
  rw [C06_fn_restore_payments_form]
  simp only [hin, hout, Rs.bind_ok]
  obtain ⟨st', h1, h2, h3⟩ := C06_fn_restore_fold (P := P) self.id0 inS outS _ _ (restoreHashes inS outS) st
  refine ⟨st', by rw [h1], ?_, ?_⟩
  · intro h hm
    exact h2 h (by simpa [restoreHashes, C06_fn_mem_fold_asetInsert] using hm)
  · intro h hm
    exact h3 h (by simpa [restoreHashes, C06_fn_mem_fold_asetInsert] using hm)

/-- non-vacuity: the counterparty commitment already carries a second part of hash 7 (600 + 400 received = outgoing), the
    holder commitment only the first (600 offered): the restart restores 1000 outgoing under the channel's id, not 600 -/
example : (Channel.restore_payments (PaymentPreimage := Nat)
      { enforcement_state := { current_holder_commit_info := some { offered_htlcs := [⟨600, 7, 500⟩], received_htlcs := [] },
                               current_counterparty_commit_info := some { offered_htlcs := [], received_htlcs := [⟨600, 7, 500⟩, ⟨400, 7, 500⟩] } },
        id0 := 3 } { payments := [] }).toOption.map (fun s => (Rs.omapGet s.payments 7).map (fun p => p.outgoing))
    = some (some [(3, 1000)]) := by decide
end ChanRestore

/-! ## Round 10 (b4): `NodeState::validate_and_apply_payments` (node.rs, the `#[cfg(test)]` composition used by the repo's own
unit tests) — validation first, and nothing applied when it refuses (own target file `fn_targets/NodePay.b4.json`, area `NodePay`) -/
section ValidateAndApply
open VlsModel.Gen.FnNodePay (NodeState)
variable {PH CI PP V : Type} [DecidableEq PH] [DecidableEq CI]

theorem C06_fn_validate_and_apply_payments (cl : V → Nat → Nat → Rs.M Unit) (bl : V → Nat → Nat → Option Nat → Rs.M (Option Unit))
    (pf : String → Bool) (eb : V → Bool) (dp : PP) (s : NodeState PH CI PP) (c : CI) (inS outS : List (PH × Nat))
    (bd : Nat × Nat) (v : V) :
    NodeState.validate_and_apply_payments cl bl pf eb dp s c inS outS bd v
      = (do let _ ← NodeState.validate_payments cl bl pf eb s c inS outS bd v
            NodeState.apply_payments eb dp s c inS outS bd v none) ∧
    (∀ e, NodeState.validate_payments cl bl pf eb s c inS outS bd v = .error e →
      NodeState.validate_and_apply_payments cl bl pf eb dp s c inS outS bd v = .error e) := by
  constructor
  · unfold NodeState.validate_and_apply_payments
    cases NodeState.validate_payments cl bl pf eb s c inS outS bd v with
    | error e => rfl
    | ok u =>
      simp only [Rs.bind_ok]
      cases NodeState.apply_payments eb dp s c inS outS bd v none <;> rfl
  · intro e he
    unfold NodeState.validate_and_apply_payments
    rw [he]; rfl
end ValidateAndApply

/-! ## Round 10 (b4): `NodeState::is_invoice_prunable` / `prune_time` (node.rs) — the pruning guard of approved invoices

Until now outside the subset (`Duration` arithmetic).  Area `NodePrune` (`fn_targets/NodePrune.b4.json`): `Duration` `+` and `>`
go through two declared externals (`dur_add`, panicking on overflow like `Duration::add`, and `dur_gt`), the two prune-time
constants are external constants (values regenerated by `x_payments.py`), the block under the non-default feature
`timeless_workaround` is dropped.  Stated on the generated definition: **an approved invoice / keysend is prunable only when
its routed payment is fulfilled or carries no outgoing value on any channel, and only strictly after creation + expiry + prune
time** — the guard of `Node.heartbeat` in `Model/Payments.lean` (`C06_step`; the known finding `C06_main_false_prune` is the
fulfilled-while-still-in-a-commitment side of it). -/
section NodePrune
open VlsModel.Gen.FnNodePrune (PaymentState RoutedPayment PaymentType)
variable {D PH PP CI : Type}

theorem C06_fn_prune_time (fs : Nat → D) (ipt kpt : D) (add : D → D → Rs.M D) (ps : PaymentState D) :
    Gen.FnNodePrune.NodeState.prune_time fs ipt kpt add ps
      = add (fs 0) (match ps.payment_type with | PaymentType.Invoice => ipt | PaymentType.Keysend => kpt) := by
  unfold Gen.FnNodePrune.NodeState.prune_time
  cases add (fs 0) (match ps.payment_type with | PaymentType.Invoice => ipt | PaymentType.Keysend => kpt) <;> rfl

theorem C06_fn_is_invoice_prunable (add : D → D → Rs.M D) (fs : Nat → D) (ipt kpt : D) (gt : D → D → Bool)
    (now : D) (hash : PH) (st : PaymentState D) (p : RoutedPayment PP CI)
    (h : Gen.FnNodePrune.NodeState.is_invoice_prunable add fs ipt kpt gt now hash st p = .ok true) :
    (p.is_fulfilled = true ∨ p.is_no_outgoing = .ok true) ∧
    ∃ t3 t4 t5, add st.duration_since_epoch st.expiry_duration = .ok t3 ∧
      add (fs 0) (match st.payment_type with | PaymentType.Invoice => ipt | PaymentType.Keysend => kpt) = .ok t4 ∧
      add t3 t4 = .ok t5 ∧ gt now t5 = true := by
  unfold Gen.FnNodePrune.NodeState.is_invoice_prunable at h
  rw [C06_fn_prune_time] at h
  cases h3 : add st.duration_since_epoch st.expiry_duration with
  | error e =>
    cases hf : p.is_fulfilled <;> cases hn : p.is_no_outgoing <;> simp [h3, hf, hn, bind, Except.bind, pure, Except.pure] at h
  | ok t3 =>
    cases h4 : add (fs 0) (match st.payment_type with | PaymentType.Invoice => ipt | PaymentType.Keysend => kpt) with
    | error e =>
      cases hf : p.is_fulfilled <;> cases hn : p.is_no_outgoing <;> simp [h3, h4, hf, hn, bind, Except.bind, pure, Except.pure] at h
    | ok t4 =>
      cases h5 : add t3 t4 with
      | error e =>
        cases hf : p.is_fulfilled <;> cases hn : p.is_no_outgoing <;> simp [h3, h4, h5, hf, hn, bind, Except.bind, pure, Except.pure] at h
      | ok t5 =>
        refine ⟨?_, t3, t4, t5, rfl, rfl, h5, ?_⟩
        · cases hf : p.is_fulfilled with
          | true => exact Or.inl rfl
          | false =>
            right
            cases hn : p.is_no_outgoing with
            | error e => simp [h3, h4, h5, hf, hn, bind, Except.bind, pure, Except.pure] at h
            | ok b =>
              simp [h3, h4, h5, hf, hn, bind, Except.bind, pure, Except.pure] at h
              rw [h.2]
        · cases hf : p.is_fulfilled <;> cases hn : p.is_no_outgoing <;>
            simp [h3, h4, h5, hf, hn, bind, Except.bind, pure, Except.pure] at h <;> simp [h]

/-- non-vacuity (durations as seconds): a keysend created at 1000 with 60 s expiry and 500 sat still outgoing is not prunable at
    2000; with nothing outgoing it is, and not yet at 1060 -/
example : Gen.FnNodePrune.NodeState.is_invoice_prunable (Duration := Nat) (PaymentHash := Nat) (PaymentPreimage := Nat) (ChannelId := Nat) (fun a b => .ok (a + b)) (fun s => s) 86400 0
      (fun a b => decide (a > b)) 2000 7 ⟨1000, 60, .Keysend⟩ ⟨[(0, 500)], none⟩ = .ok false
    ∧ Gen.FnNodePrune.NodeState.is_invoice_prunable (Duration := Nat) (PaymentHash := Nat) (PaymentPreimage := Nat) (ChannelId := Nat) (fun a b => .ok (a + b)) (fun s => s) 86400 0
      (fun a b => decide (a > b)) 2000 7 ⟨1000, 60, .Keysend⟩ ⟨[(0, 0)], none⟩ = .ok true
    ∧ Gen.FnNodePrune.NodeState.is_invoice_prunable (Duration := Nat) (PaymentHash := Nat) (PaymentPreimage := Nat) (ChannelId := Nat) (fun a b => .ok (a + b)) (fun s => s) 86400 0
      (fun a b => decide (a > b)) 1060 7 ⟨1000, 60, .Keysend⟩ ⟨[(0, 0)], none⟩ = .ok false := ⟨rfl, rfl, rfl⟩
end NodePrune

end VlsModel.Props.C06Fn
