/-
C18 — Channel keys are a stable function of seed and channel id.

"For the native and LDK key-derivation styles, a channel's basepoints, funding key, per-commitment
points and per-commitment secrets depend only on the node seed, network and channel id: they are the
same whatever other channels exist, in whatever order channels were created, before and after setup
and across restarts, and different channel ids give different keys.  The per-commitment secrets of a
channel form a BOLT-3 derivation tree, so the counterparty can store them compactly."

Model: `Model/Keys.lean`; generated parameter-use table: `Gen/KeyDeriveUse.lean`; helper lemmas:
`Lemmas/Keys.lean`.  Public keys (basepoints, per-commitment points) are secp256k1 images of the
secrets below; that step is not modelled (the harness checks it with the real library).
-/
import VlsModel.Model.Keys
import VlsModel.Lemmas.Keys
import VlsModel.Gen.ChanIdLayout

namespace VlsModel.Props.C18
open VlsModel.Keys VlsModel.Gen.KeyDeriveUse
open VlsModel.Sha256 (Bytes)

/-! ## Obligations on the generated table (what the source says now) -/

/-- `NativeKeyDerive::channel_keys` reads `keys_id` only -/
theorem C18_gen_native_use :
    nativeChanKeys = { seed := false, keysId := true, basepointIndex := false, masterKey := false, selfNetwork := false } := by
  decide

/-- `LdkKeyDerive::channel_keys` reads seed, keys id and master key, not the counter -/
theorem C18_gen_ldk_use :
    ldkChanKeys = { seed := true, keysId := true, basepointIndex := false, masterKey := true, selfNetwork := false } := by
  decide

/-- `keys_id` reads the channel id and the channel seed base only (all styles) -/
theorem C18_gen_keys_id_use :
    nativeKeysId = ⟨true, true, false⟩ ∧ ldkKeysId = ⟨true, true, false⟩ ∧ lndKeysId = ⟨true, true, false⟩ := by
  decide

/-- creation derives from the id, restore from the persisted id0, setup copies the stub's keys, the
channel value never reaches the key material, per-commitment requests use
`INITIAL_COMMITMENT_NUMBER - n`, the only counter handed to the derivation is `lnd_basepoint_index`,
and the manager has exactly the three counters of `KMState` -/
theorem C18_gen_flow :
    createDerivesFromId = true ∧ restoreDerivesFromId0 = true ∧ setupCopiesStubKeys = true ∧
    channelValueReachesKeys = false ∧ commitIndexIsInitialMinusN = true ∧
    basepointIndexIsLndCounter = true ∧ managerCounterCount = 3 := by
  decide

/-- the LDK keys id has its first four bytes cleared and bit 7 of the fifth -/
theorem C18_gen_ldk_mask :
    ldkKeysIdMask = [(0, 0), (1, 0), (2, 0), (3, 0), (4, 127)] ∧ nativeKeysIdMask = [] := by
  decide

/-! ## Statelessness -/

/-- the property's styles: the table says their `channel_keys` does not read the counter -/
theorem C18_styles_stateless (style : Style) (h : style = .native ∨ style = .ldk) :
    (useOf style).basepointIndex = false := by
  rcases h with h | h <;> subst h <;> decide

/-- **C18_stateless.** For Native and LDK the key material `get_channel_keys_with_id` produces is
independent of the keys manager's counters (for every choice of the derivation primitives). -/
theorem C18_stateless (P : Prims) (style : Style) (h : style = .native ∨ style = .ldk)
    (seed : Bytes) (net : Net) (id : Bytes) (st st' : KMState) :
    channelKeys P style seed net id st = channelKeys P style seed net id st' :=
  channelKeys_indep P style (C18_styles_stateless style h) seed net id st st'

/-- **C18_stateless_history.** After any history of creations (caller-chosen or random ids, in any
order, repeated), setups, commitment advances, other entropy use, restarts (every channel re-derived
from its persisted id0 by a fresh manager) and wipes, every channel of the node holds exactly
`keysOf seed net id`, a function of seed, network and id alone. -/
theorem C18_stateless_history (P : Prims) (style : Style) (h : style = .native ∨ style = .ldk)
    (seed : Bytes) (net : Net) (ops : List Op) :
    ∀ c ∈ (run P style seed net ops).chans, c.keys = keysOf P style seed net c.id :=
  keysInv_foldl (C18_styles_stateless style h) ops NodeSt.fresh (fun c hc => by simp [NodeSt.fresh] at hc)

/-- the same channel id in two arbitrary histories (other channels, other orders, before or after
setup, any number of restarts) has the same keys -/
theorem C18_history_independent (P : Prims) (style : Style) (h : style = .native ∨ style = .ldk)
    (seed : Bytes) (net : Net) (ops₁ ops₂ : List Op) (c₁ c₂ : Chan)
    (h₁ : c₁ ∈ (run P style seed net ops₁).chans) (h₂ : c₂ ∈ (run P style seed net ops₂).chans)
    (hid : c₁.id = c₂.id) : c₁.keys = c₂.keys := by
  rw [C18_stateless_history P style h seed net ops₁ c₁ h₁,
      C18_stateless_history P style h seed net ops₂ c₂ h₂, hid]

/-- hence every per-commitment secret (and the point, its secp256k1 image) is the same, for every
commitment number and every hash function -/
theorem C18_secrets_stable (P : Prims) (style : Style) (h : style = .native ∨ style = .ldk)
    (seed : Bytes) (net : Net) (ops₁ ops₂ : List Op) (c₁ c₂ : Chan)
    (h₁ : c₁ ∈ (run P style seed net ops₁).chans) (h₂ : c₂ ∈ (run P style seed net ops₂).chans)
    (hid : c₁.id = c₂.id) (H : Bytes → Bytes) (n : Nat) :
    holderSecret H c₁.keys n = holderSecret H c₂.keys n := by
  rw [C18_history_independent P style h seed net ops₁ ops₂ c₁ c₂ h₁ h₂ hid]

/-- the per-commitment secret number `k` of a channel is `commitSecret H seed' (INITIAL - k)` with
`seed'` the commitment seed of `keysOf seed net id` — no history, no counter, no `next` in it -/
theorem C18_holder_secret_eq (H : Bytes → Bytes) (k : KeyMaterial) (n : Nat) (hn : n ≤ INITIAL_COMMITMENT_NUMBER) :
    holderSecret H k n = some (commitSecret H k.commitmentSeed (INITIAL_COMMITMENT_NUMBER - n)) := by
  simp [holderSecret, hn]

/-- **C18_released_secret.** Whatever the history, and whatever `next_holder_commit_num` is at
release time: when `revoke_previous_holder_commitment(N)` is repeated for an already revoked
commitment, the secret it releases is the per-commitment secret `N - 1` of `keysOf seed net id`
(nothing for `N = 0`), and the next point it returns is the one of number `N + 1`. -/
theorem C18_released_secret (P : Prims) (style : Style) (h : style = .native ∨ style = .ldk)
    (seed : Bytes) (net : Net) (ops : List Op) (c : Chan) (hc : c ∈ (run P style seed net ops).chans)
    (H : Bytes → Bytes) (N : Nat) (r : Option Bytes × Option Bytes) (hr : revokeReply H c N = some r) :
    r.1 = (if N = 0 then none else holderSecret H (keysOf P style seed net c.id) (N - 1)) ∧
    r.2 = holderSecret H (keysOf P style seed net c.id) (N + 1) := by
  have hk := C18_stateless_history P style h seed net ops c hc
  unfold revokeReply at hr
  split at hr
  · injection hr with hr; subst hr; rw [hk]; exact ⟨rfl, rfl⟩
  · cases hr

/-- the same for the first release, at validate/revoke time (`N = next`) -/
theorem C18_advance_secret (P : Prims) (style : Style) (h : style = .native ∨ style = .ldk)
    (seed : Bytes) (net : Net) (ops : List Op) (c : Chan) (hc : c ∈ (run P style seed net ops).chans)
    (H : Bytes → Bytes) (r : Option Bytes × Option Bytes) (hr : advanceReply H c = some r) :
    r.1 = (if c.nextHolder = 0 then none else holderSecret H (keysOf P style seed net c.id) (c.nextHolder - 1)) ∧
    r.2 = holderSecret H (keysOf P style seed net c.id) (c.nextHolder + 1) := by
  have hk := C18_stateless_history P style h seed net ops c hc
  unfold advanceReply at hr
  split at hr
  · injection hr with hr; subst hr; rw [hk]; exact ⟨rfl, rfl⟩
  · cases hr

/-- first release and any later repetition of it agree: both are the secret of `N - 1` -/
theorem C18_rerevoke_same_secret (P : Prims) (style : Style) (h : style = .native ∨ style = .ldk)
    (seed : Bytes) (net : Net) (ops₁ ops₂ : List Op) (c₁ c₂ : Chan)
    (h₁ : c₁ ∈ (run P style seed net ops₁).chans) (h₂ : c₂ ∈ (run P style seed net ops₂).chans)
    (hid : c₁.id = c₂.id) (H : Bytes → Bytes) (r₁ r₂ : Option Bytes × Option Bytes)
    (hr₁ : advanceReply H c₁ = some r₁) (hr₂ : revokeReply H c₂ c₁.nextHolder = some r₂) : r₁ = r₂ := by
  obtain ⟨a1, a2⟩ := C18_advance_secret P style h seed net ops₁ c₁ h₁ H r₁ hr₁
  obtain ⟨b1, b2⟩ := C18_released_secret P style h seed net ops₂ c₂ h₂ H c₁.nextHolder r₂ hr₂
  rw [hid] at a1 a2
  exact Prod.ext (a1.trans b1.symm) (a2.trans b2.symm)

/-- and for the pre-v6 `GetPerCommitmentPoint(n)` reply: point `n`, secret `n - 2` -/
theorem C18_old_getpoint_secret (P : Prims) (style : Style) (h : style = .native ∨ style = .ldk)
    (seed : Bytes) (net : Net) (ops : List Op) (c : Chan) (hc : c ∈ (run P style seed net ops).chans)
    (H : Bytes → Bytes) (n : Nat) (r : Option Bytes × Option Bytes) (hr : oldGetPointReply H c n = some r) :
    r.1 = holderSecret H (keysOf P style seed net c.id) n ∧
    r.2 = (if n < 2 then none else holderSecret H (keysOf P style seed net c.id) (n - 2)) := by
  have hk := C18_stateless_history P style h seed net ops c hc
  unfold oldGetPointReply at hr
  split at hr
  · cases hr
  · split at hr
    · rename_i h2; injection hr with hr; subst hr; rw [hk]; simp [h2]
    · rename_i h2
      split at hr
      · injection hr with hr; subst hr; rw [hk]; simp [h2]
      · cases hr

/-- "is this your secret `n`?" is answered from `keysOf seed net id` alone: the same answer for the
same id in every history, before and after setup, whatever the channel's commitment counter is -/
theorem C18_future_secret_check (P : Prims) (style : Style) (h : style = .native ∨ style = .ldk)
    (seed : Bytes) (net : Net) (ops : List Op) (c : Chan) (hc : c ∈ (run P style seed net ops).chans)
    (H : Bytes → Bytes) (n : Nat) (s : Bytes) :
    checkFutureSecret H c n s = (holderSecret H (keysOf P style seed net c.id) n == some s) := by
  unfold checkFutureSecret
  rw [C18_stateless_history P style h seed net ops c hc]

/-- a restart keeps every channel (id, readiness, value, commitment counter) -/
theorem C18_restart_keeps_channels (P : Prims) (style : Style) (seed : Bytes) (net : Net) (s : NodeSt) :
    (step P style seed net s .restart).chans.map (fun c => (c.id, c.ready, c.value, c.nextHolder))
      = s.chans.map (fun c => (c.id, c.ready, c.value, c.nextHolder)) := by
  simp only [step]
  exact restoreChans_shape P style seed net s.chans KMState.fresh

/-! ## Re-derivation at sweep time -/

/-- what the source says now: signers are derived at creation and restore (from the id) and in the
two descriptor arms of `spend_spendable_outputs`, there from the descriptor's keys id through
`derive_channel_keys = get_channel_keys_with_keys_id`; nowhere else -/
theorem C18_gen_sweep : sweepRederivesFromKeysId = true := by decide

/-- **C18_sweep_rederive.** Whatever the history and whatever the manager's counters are at sweep
time, the signer `spend_spendable_outputs` re-derives from the `channel_keys_id` recorded by a
channel's signer holds exactly that channel's key material — the keys the channel reported at
creation, after setup and after every restart (`keysOf seed net id`). -/
theorem C18_sweep_rederive (P : Prims) (style : Style) (h : style = .native ∨ style = .ldk)
    (seed : Bytes) (net : Net) (ops : List Op) (c : Chan) (hc : c ∈ (run P style seed net ops).chans)
    (st : KMState) :
    sweepSigner P style seed net c st = c.keys ∧ sweepSigner P style seed net c st = keysOf P style seed net c.id := by
  have hk := C18_stateless_history P style h seed net ops c hc
  have hr : sweepSigner P style seed net c st = keysOf P style seed net c.id := by
    unfold sweepSigner
    rw [hk]
    exact rederive_from_recorded_keysId P style (C18_styles_stateless style h) seed net c.id KMState.fresh st
  exact ⟨hr.trans hk.symm, hr⟩

/-- Treating the recorded keys id as a channel *id* (deriving `keys_id` a second time) is a
different function: with primitives that make the inputs visible the two signers differ. -/
theorem C18_sweep_via_id_differs :
    ∃ (P : Prims) (c : Chan), c ∈ (run P .ldk [5] .testnet [.newChan [7]]).chans ∧
      channelKeys P .ldk [5] .testnet c.keys.keysId KMState.fresh ≠ c.keys := by
  refine ⟨{ hkdf32 := fun _ _ salt => 1 :: salt, chanKeys := fun _ i => ⟨i.keysId, [], [], [], [], []⟩, randomId := fun _ => [] },
    ⟨[7], ⟨[0, 0], [0, 0], [], [], [], [], []⟩, false, 0, 0⟩, ?_, ?_⟩
  · decide
  · decide

/-! The LND style is excluded by the property, and rightly so: with the table as generated
(`lndChanKeys.basepointIndex = true`) the model exhibits two creation orders that give one id
different keys. -/

/-- primitives that make every input visible in the output -/
def witnessPrims : Prims :=
  { hkdf32 := fun _ _ salt => salt,
    chanKeys := fun _ i => ⟨[UInt8.ofNat i.basepointIndex], i.keysId, [], [], [], []⟩,
    randomId := fun n => [UInt8.ofNat n, 255] }

theorem C18_lnd_order_dependent :
    ∃ (P : Prims) (ops₁ ops₂ : List Op) (c₁ c₂ : Chan),
      c₁ ∈ (run P .lnd [] .bitcoin ops₁).chans ∧ c₂ ∈ (run P .lnd [] .bitcoin ops₂).chans ∧
      c₁.id = c₂.id ∧ c₁.keys ≠ c₂.keys := by
  refine ⟨witnessPrims, [.newChan [1], .newChan [2]], [.newChan [2], .newChan [1]],
    ⟨[1], ⟨[1], [0], [1], [], [], [], []⟩, false, 0, 0⟩,
    ⟨[1], ⟨[1], [1], [1], [], [], [], []⟩, false, 0, 0⟩, ?_, ?_, rfl, ?_⟩
  · decide
  · decide
  · decide

/-! ## BOLT-3 derivation tree -/

/-- **C18_tree.** For every hash function `H` (indeed for every "flip bit `b`, then hash" step), the
secret of index `idx` is derivable from the secret of `idx` with its `b` low bits cleared by
`CounterpartyCommitmentSecrets::derive_secret(_, b, idx)`. -/
theorem C18_tree (H : Bytes → Bytes) (seed : Bytes) (idx b : Nat) (hb : b ≤ 48) :
    commitSecret H seed idx = derive H (commitSecret H seed (zeroLow idx b)) b idx := by
  unfold commitSecret derive
  have h48 : 48 = b + (48 - b) := by omega
  rw [h48]
  exact deriveWith_split _ b (48 - b) seed idx

/-- the check `provide_secret(idx, secret)` performs against an older entry `(old_secret, old_idx)`
of a lower bucket: if the new index is the old one with its `pos` low bits cleared, deriving from the
new secret reproduces the old one.  The same equation is what `get_secret` returns. -/
theorem C18_tree_store_consistent (H : Bytes → Bytes) (seed : Bytes) (idx oldIdx pos : Nat)
    (hpos : pos ≤ 48) (hsub : zeroLow oldIdx pos = idx) :
    derive H (commitSecret H seed idx) pos oldIdx = commitSecret H seed oldIdx := by
  rw [← hsub]; exact (C18_tree H seed oldIdx pos hpos).symm

/-- `zeroLow idx b` is `idx` with exactly the bits below `b` cleared (`idx & !((1 << b) - 1)`) -/
theorem C18_zeroLow_bits (idx b j : Nat) :
    (zeroLow idx b).testBit j = (decide (b ≤ j) && idx.testBit j) := testBit_zeroLow idx b j

/-- only the 48 low bits of the index matter to `build_commitment_secret` -/
theorem C18_secret_48_bits (H : Bytes → Bytes) (seed : Bytes) (i j : Nat)
    (h : ∀ k, k < 48 → i.testBit k = j.testBit k) : commitSecret H seed i = commitSecret H seed j := by
  unfold commitSecret derive
  exact deriveWith_congr _ 48 seed i j h

/-! ## The LDK keys id is always a valid hardened BIP32 index -/

/-- after the generated masks (`res[0..4] = 0`, `res[4] &= 0x7f`) the big-endian value of the first
eight bytes is below `2^31`, whatever HKDF returned … -/
theorem C18_ldk_keys_id_in_range (b0 b1 b2 b3 b4 b5 b6 b7 : UInt8) (rest : Bytes) :
    be64 (applyMask ldkKeysIdMask (b0 :: b1 :: b2 :: b3 :: b4 :: b5 :: b6 :: b7 :: rest)) < 2 ^ 31 := by
  have h4 : b4.toNat &&& 127 ≤ 127 := Nat.and_le_right
  have h5 := b5.toNat_lt
  have h6 := b6.toNat_lt
  have h7 := b7.toNat_lt
  simp [applyMask, ldkKeysIdMask, List.modify, be64, List.take, List.foldl]
  omega

/-- … so `LdkKeyDerive::channel_keys` never hits `assert!(chan_id <= u32::MAX)` nor the
`from_hardened_idx(..).expect("key space exhausted")` on a keys id produced by `keys_id` -/
theorem C18_ldk_no_panic (child : Bytes → Net → Nat → Bytes) (seed : Bytes) (net : Net) (bpi : Nat)
    (b0 b1 b2 b3 b4 b5 b6 b7 : UInt8) (rest : Bytes) :
    (ldkChanKeysFn child
      ⟨seed, net, applyMask ldkKeysIdMask (b0 :: b1 :: b2 :: b3 :: b4 :: b5 :: b6 :: b7 :: rest), bpi⟩).isSome = true := by
  have h := C18_ldk_keys_id_in_range b0 b1 b2 b3 b4 b5 b6 b7 rest
  unfold ldkChanKeysFn
  simp only [ge_iff_le, Nat.not_le.mpr h, if_false, Option.isSome_some]

/-! ## Distinct ids

Full-strength statement (what the property says):

  `∀ id₁ id₂, id₁ ≠ id₂ → keysOf P style seed net id₁ ≠ keysOf P style seed net id₂`

It cannot hold for arbitrary primitives (a constant `hkdf32`), and it does not even hold for the
real HKDF-SHA256: the channel id is used as the HKDF *salt*, i.e. as an HMAC key, and HMAC pads
its key with zero bytes (`C18_distinct_full_false`, known finding).  What holds is the statement
under an explicit injectivity hypothesis on the (masked) HKDF. -/

/-- **C18_distinct_partial.** If (masked, for LDK) `hkdf_sha256(base, "per-peer seed", ·)` is
injective in the channel id, distinct ids get distinct `keys_id`, hence distinct key material, in
whatever manager states they are derived. -/
theorem C18_distinct_partial (P : Prims) (style : Style) (seed : Bytes) (net : Net)
    (hinj : ∀ a b,
      applyMask (maskOf style) (P.hkdf32 (channelSeedBase P seed) infoPerPeerSeed a)
        = applyMask (maskOf style) (P.hkdf32 (channelSeedBase P seed) infoPerPeerSeed b) → a = b)
    (id₁ id₂ : Bytes) (hne : id₁ ≠ id₂) (st₁ st₂ : KMState) :
    keysIdOf P style (channelSeedBase P seed) id₁ ≠ keysIdOf P style (channelSeedBase P seed) id₂ ∧
    channelKeys P style seed net id₁ st₁ ≠ channelKeys P style seed net id₂ st₂ := by
  have hk : keysIdOf P style (channelSeedBase P seed) id₁ ≠ keysIdOf P style (channelSeedBase P seed) id₂ :=
    fun he => hne (hinj id₁ id₂ he)
  refine ⟨hk, fun he => hk ?_⟩
  have := congrArg KeyMaterial.keysId he
  simpa [channelKeys, channelKeysFromKeysId] using this

/-- **Refutation of the unconditional statement for the real HKDF-SHA256**: the ids `[]` and `[0]`
(more generally `id` and `id ++ [0]` for `id` shorter than 64 bytes) get the same keys, for every
seed, network, style and BIP32 oracle. -/
theorem C18_distinct_full_false :
    ∃ id₁ id₂ : Bytes, id₁ ≠ id₂ ∧
      ∀ (child : Bytes → Net → Nat → Bytes) (style : Style) (seed : Bytes) (net : Net),
        keysOf (concretePrims child) style seed net id₁ = keysOf (concretePrims child) style seed net id₂ := by
  refine ⟨[], [0], by decide, ?_⟩
  intro child style seed net
  have hk : ∀ base, keysIdOf (concretePrims child) style base [0] = keysIdOf (concretePrims child) style base [] := by
    intro base
    simp only [keysIdOf, concretePrims, hkdfSha256]
    rw [show ([0] : Bytes) = [] ++ [0] from rfl, hmac_key_zero_pad [] base (by decide)]
  simp only [keysOf, channelKeys, hk]

/-- the general shape of the collision at the level of `keys_id` -/
theorem C18_keys_id_zero_padding (child : Bytes → Net → Nat → Bytes) (style : Style) (base id : Bytes)
    (h : id.length < 64) :
    keysIdOf (concretePrims child) style base (id ++ [0]) = keysIdOf (concretePrims child) style base id := by
  simp only [keysIdOf, concretePrims, hkdfSha256]
  rw [hmac_key_zero_pad id base h]

/-! ## Distinct ids, for the ids the node API builds

The refutation above needs ids of *different lengths* (or longer than the HMAC block).  `Node::new_channel` builds
`ChannelId::new_from_peer_id_and_oid(peer_id, dbid)` (33 + 8 bytes, dbid ≠ 0), `new_channel_with_random_id` and the
LDK `new_from_oid` build 32-byte ids.  For those the zero-padding cannot collide: distinct ids have distinct HMAC key
blocks (`C18_node_ids_distinct_blocks`, `C18_node_id_vs_32_byte_id`, `C18_32_byte_ids_distinct_blocks`), so the only
hypothesis left for distinct keys is that HKDF does not collide on *different blocks* (`C18_distinct_node_ids`), which
the finding does not refute; conversely equal blocks always give equal keys (`C18_block_collision_same_keys`), so the
hypothesis cannot be weakened further. -/

/-- **C18_gen_chanid.** the model's `ChannelId` constructors and accessors have the byte layout that
`translate/x_chanid.py` reads off channel.rs (`Gen/ChanIdLayout.lean`): buffer lengths, where the peer id and the
oid bytes go, little-endian on the way in and out, `oid()` reading the last 8 bytes, `ldk_channel_keys_id()`
demanding exactly 32 bytes -/
theorem C18_gen_chanid (p : Bytes) (o : Nat) (hp : p.length = Gen.ChanIdLayout.peerOidPeerTo - Gen.ChanIdLayout.peerOidPeerFrom) :
    Gen.ChanIdLayout.peerOidLittleEndian = true ∧ Gen.ChanIdLayout.oidLittleEndian = true ∧
    Gen.ChanIdLayout.oidReadLittleEndian = true ∧ Gen.ChanIdLayout.peerOidPeerFrom = 0 ∧
    (chanIdOfPeerOid p o).length = Gen.ChanIdLayout.peerOidLen ∧
    (chanIdOfPeerOid p o).take Gen.ChanIdLayout.peerOidPeerTo = p ∧
    (chanIdOfPeerOid p o).drop Gen.ChanIdLayout.peerOidOidFrom = le64 o ∧
    (chanIdOfOid o).length = Gen.ChanIdLayout.oidLen ∧
    (chanIdOfOid o).take Gen.ChanIdLayout.oidOidFrom = List.replicate Gen.ChanIdLayout.oidOidFrom 0 ∧
    (chanIdOfOid o).drop Gen.ChanIdLayout.oidOidFrom = le64 o ∧
    (∀ id : Bytes, chanIdOid id = if id.length < Gen.ChanIdLayout.oidReadTail then none
        else some (le64Val (id.drop (id.length - Gen.ChanIdLayout.oidReadTail)))) ∧
    (∀ id : Bytes, chanIdLdkKeysId id = if id.length = Gen.ChanIdLayout.ldkKeysIdLen then some id else none) := by
  have hp' : p.length = 33 := by simpa [Gen.ChanIdLayout.peerOidPeerTo, Gen.ChanIdLayout.peerOidPeerFrom] using hp
  refine ⟨by decide, by decide, by decide, by decide, ?_, ?_, ?_, ?_, ?_, ?_, fun _ => rfl, fun _ => rfl⟩
  · simp [chanIdOfPeerOid, le64_length, hp', Gen.ChanIdLayout.peerOidLen]
  · show (p ++ le64 o).take 33 = p
    rw [← hp']; exact List.take_left
  · show (p ++ le64 o).drop 33 = le64 o
    rw [← hp']; exact List.drop_left
  · simp [chanIdOfOid, le64_length, Gen.ChanIdLayout.oidLen]
  · show (List.replicate 24 (0 : UInt8) ++ le64 o).take 24 = List.replicate 24 0
    exact List.take_left' (by simp)
  · show (List.replicate 24 (0 : UInt8) ++ le64 o).drop 24 = le64 o
    exact List.drop_left' (by simp)

/-- `oid()` returns what the constructors were given; both constructors are injective -/
theorem C18_chanid_oid_roundtrip (peer : Bytes) (oid : Nat) (h : oid < 2 ^ 64) :
    chanIdOid (chanIdOfPeerOid peer oid) = some oid ∧ chanIdOid (chanIdOfOid oid) = some oid ∧
    (chanIdOfPeerOid peer oid).length = peer.length + 8 ∧ chanIdLdkKeysId (chanIdOfOid oid) = some (chanIdOfOid oid) := by
  refine ⟨chanIdOid_of_suffix peer oid h, chanIdOid_of_suffix _ oid h, ?_, ?_⟩
  · simp [chanIdOfPeerOid, le64_length]
  · simp [chanIdLdkKeysId, chanIdOfOid, le64_length]

theorem C18_chanid_injective (p p' : Bytes) (o o' : Nat) (hl : p.length = p'.length)
    (ho : o < 2 ^ 64) (ho' : o' < 2 ^ 64) (h : chanIdOfPeerOid p o = chanIdOfPeerOid p' o') : p = p' ∧ o = o' := by
  have := List.append_inj h hl
  exact ⟨this.1, le64_inj o o' ho ho' this.2⟩

/-- the finding in general form: equal HMAC key blocks ⇒ equal `keys_id` (every style, seed base, oracle) -/
theorem C18_block_collision_same_keys (child : Bytes → Net → Nat → Bytes) (style : Style) (base a b : Bytes)
    (h : hmacKeyBlock a = hmacKeyBlock b) :
    keysIdOf (concretePrims child) style base a = keysIdOf (concretePrims child) style base b := by
  simp only [keysIdOf, concretePrims, hkdfSha256]
  rw [hmac_of_block a b base h]

/-- two different (peer id, dbid) requests never share an HMAC key block -/
theorem C18_node_ids_distinct_blocks (p p' : Bytes) (o o' : Nat) (hp : p.length = 33) (hp' : p'.length = 33)
    (ho : o < 2 ^ 64) (ho' : o' < 2 ^ 64) (hne : ¬ (p = p' ∧ o = o')) :
    hmacKeyBlock (chanIdOfPeerOid p o) ≠ hmacKeyBlock (chanIdOfPeerOid p' o') := by
  intro h
  have hl : (chanIdOfPeerOid p o).length = (chanIdOfPeerOid p' o').length := by
    simp [chanIdOfPeerOid, le64_length, hp, hp']
  have h64 : (chanIdOfPeerOid p o).length ≤ 64 := by simp [chanIdOfPeerOid, le64_length, hp]
  exact hne (C18_chanid_injective p p' o o' (by omega) ho ho' (hmacKeyBlock_inj_same_len _ _ hl h64 h))

/-- two different 32-byte ids (random ids, LDK `new_from_oid` ids) never share a block -/
theorem C18_32_byte_ids_distinct_blocks (r r' : Bytes) (hr : r.length = 32) (hr' : r'.length = 32) (hne : r ≠ r') :
    hmacKeyBlock r ≠ hmacKeyBlock r' :=
  fun h => hne (hmacKeyBlock_inj_same_len r r' (by omega) (by omega) h)

/-- a CLN-style id with a non-zero dbid (`new_channel` refuses dbid 0) never shares a block with a 32-byte id:
bytes 33..40 of its block are the dbid, those of the other block are padding -/
theorem C18_node_id_vs_32_byte_id (p r : Bytes) (o : Nat) (hp : p.length = 33) (hr : r.length = 32)
    (ho : o < 2 ^ 64) (h0 : o ≠ 0) : hmacKeyBlock (chanIdOfPeerOid p o) ≠ hmacKeyBlock r := by
  intro h
  rw [hmacKeyBlock_short _ (by simp [chanIdOfPeerOid, le64_length, hp]), hmacKeyBlock_short r (by omega)] at h
  have h2 := congrArg (fun l => (l.drop 33).take 8) h
  have e1 : (((chanIdOfPeerOid p o) ++ List.replicate (64 - (chanIdOfPeerOid p o).length) (0 : UInt8)).drop 33).take 8
      = le64 o := by
    have : (chanIdOfPeerOid p o) ++ List.replicate (64 - (chanIdOfPeerOid p o).length) (0 : UInt8)
        = p ++ (le64 o ++ List.replicate (64 - (chanIdOfPeerOid p o).length) 0) := by
      simp [chanIdOfPeerOid, List.append_assoc]
    rw [this, ← hp, List.drop_left, ← le64_length o, List.take_left]
  have e2 : ((r ++ List.replicate (64 - r.length) (0 : UInt8)).drop 33).take 8 = List.replicate 8 0 := by
    have : r ++ List.replicate (64 - r.length) (0 : UInt8) = (r ++ [0]) ++ List.replicate 31 0 := by
      rw [hr]; simp [List.replicate_succ]
    have hl : (r ++ [(0 : UInt8)]).length = 33 := by simp [hr]
    rw [this, ← hl, List.drop_left]
    decide
  simp only [e1, e2] at h2
  rw [← le64_zero] at h2
  exact h0 (le64_inj o 0 ho (by decide) h2)

/-- **C18_distinct_by_block.** If the (masked) HKDF separates different HMAC key blocks — the only collisions
HMAC's key handling forces are excluded from the hypothesis — ids with different blocks get different `keys_id`
and different key material, in whatever manager states they are derived. -/
theorem C18_distinct_by_block (P : Prims) (style : Style) (seed : Bytes) (net : Net)
    (hinj : ∀ a b,
      applyMask (maskOf style) (P.hkdf32 (channelSeedBase P seed) infoPerPeerSeed a)
        = applyMask (maskOf style) (P.hkdf32 (channelSeedBase P seed) infoPerPeerSeed b) →
      hmacKeyBlock a = hmacKeyBlock b)
    (id₁ id₂ : Bytes) (hne : hmacKeyBlock id₁ ≠ hmacKeyBlock id₂) (st₁ st₂ : KMState) :
    keysIdOf P style (channelSeedBase P seed) id₁ ≠ keysIdOf P style (channelSeedBase P seed) id₂ ∧
    channelKeys P style seed net id₁ st₁ ≠ channelKeys P style seed net id₂ st₂ := by
  have hk : keysIdOf P style (channelSeedBase P seed) id₁ ≠ keysIdOf P style (channelSeedBase P seed) id₂ :=
    fun he => hne (hinj id₁ id₂ he)
  refine ⟨hk, fun he => hk ?_⟩
  have := congrArg KeyMaterial.keysId he
  simpa [channelKeys, channelKeysFromKeysId] using this

/-- **C18_distinct_node_ids.** "Different channel ids give different keys" for the ids `Node::new_channel` builds:
two different (peer id, dbid) pairs get different key material under the block-separation hypothesis alone. -/
theorem C18_distinct_node_ids (P : Prims) (style : Style) (seed : Bytes) (net : Net)
    (hinj : ∀ a b,
      applyMask (maskOf style) (P.hkdf32 (channelSeedBase P seed) infoPerPeerSeed a)
        = applyMask (maskOf style) (P.hkdf32 (channelSeedBase P seed) infoPerPeerSeed b) →
      hmacKeyBlock a = hmacKeyBlock b)
    (p p' : Bytes) (o o' : Nat) (hp : p.length = 33) (hp' : p'.length = 33)
    (ho : o < 2 ^ 64) (ho' : o' < 2 ^ 64) (hne : ¬ (p = p' ∧ o = o')) (st₁ st₂ : KMState) :
    channelKeys P style seed net (chanIdOfPeerOid p o) st₁ ≠ channelKeys P style seed net (chanIdOfPeerOid p' o') st₂ :=
  (C18_distinct_by_block P style seed net hinj _ _
    (C18_node_ids_distinct_blocks p p' o o' hp hp' ho ho' hne) st₁ st₂).2

/-- … and against / among the 32-byte ids (random ids, LDK oids) -/
theorem C18_distinct_node_and_random_ids (P : Prims) (style : Style) (seed : Bytes) (net : Net)
    (hinj : ∀ a b,
      applyMask (maskOf style) (P.hkdf32 (channelSeedBase P seed) infoPerPeerSeed a)
        = applyMask (maskOf style) (P.hkdf32 (channelSeedBase P seed) infoPerPeerSeed b) →
      hmacKeyBlock a = hmacKeyBlock b)
    (p r r' : Bytes) (o : Nat) (hp : p.length = 33) (hr : r.length = 32) (hr' : r'.length = 32)
    (ho : o < 2 ^ 64) (h0 : o ≠ 0) (st₁ st₂ : KMState) :
    channelKeys P style seed net (chanIdOfPeerOid p o) st₁ ≠ channelKeys P style seed net r st₂ ∧
    (r ≠ r' → channelKeys P style seed net r st₁ ≠ channelKeys P style seed net r' st₂) :=
  ⟨(C18_distinct_by_block P style seed net hinj _ _ (C18_node_id_vs_32_byte_id p r o hp hr ho h0) st₁ st₂).2,
   fun hne => (C18_distinct_by_block P style seed net hinj _ _
     (C18_32_byte_ids_distinct_blocks r r' hr hr' hne) st₁ st₂).2⟩

/-- **C18_history_distinct_node_ids.** the clause "different channel ids give different keys" at the level of
histories: after any op history of a Native or Ldk node — and even across two *different* histories of the same seed —
two channels whose ids were built from different `(peer_id, dbid)` requests hold different key material (and hence, by
`C18_secrets_stable`'s function `keysOf`, are different functions of their commitment numbers), under the
block-separation hypothesis alone. -/
theorem C18_history_distinct_node_ids (P : Prims) (style : Style) (hs : style = .native ∨ style = .ldk)
    (seed : Bytes) (net : Net)
    (hinj : ∀ a b,
      applyMask (maskOf style) (P.hkdf32 (channelSeedBase P seed) infoPerPeerSeed a)
        = applyMask (maskOf style) (P.hkdf32 (channelSeedBase P seed) infoPerPeerSeed b) →
      hmacKeyBlock a = hmacKeyBlock b)
    (ops₁ ops₂ : List Op) (c₁ c₂ : Chan)
    (h₁ : c₁ ∈ (run P style seed net ops₁).chans) (h₂ : c₂ ∈ (run P style seed net ops₂).chans)
    (p p' : Bytes) (o o' : Nat) (hp : p.length = 33) (hp' : p'.length = 33) (ho : o < 2 ^ 64) (ho' : o' < 2 ^ 64)
    (hid₁ : c₁.id = chanIdOfPeerOid p o) (hid₂ : c₂.id = chanIdOfPeerOid p' o') (hne : ¬ (p = p' ∧ o = o')) :
    c₁.keys ≠ c₂.keys := by
  rw [C18_stateless_history P style hs seed net ops₁ c₁ h₁, C18_stateless_history P style hs seed net ops₂ c₂ h₂,
    hid₁, hid₂]
  exact C18_distinct_node_ids P style seed net hinj p p' o o' hp hp' ho ho' hne KMState.fresh KMState.fresh

/-! ## Non-vacuity -/

/-- the block-separation hypothesis of `C18_distinct_by_block` is satisfiable (an "HKDF" that returns the block),
and with it a CLN-style id and its zero-extended 42-byte variant — the shape of the finding — are *not* separated:
the hypothesis does not contradict the finding -/
example : (∀ a b : Bytes, applyMask (maskOf .native) (hmacKeyBlock a) = applyMask (maskOf .native) (hmacKeyBlock b) →
      hmacKeyBlock a = hmacKeyBlock b) ∧
    hmacKeyBlock (chanIdOfPeerOid (List.replicate 33 2) 7) = hmacKeyBlock (chanIdOfPeerOid (List.replicate 33 2) 7 ++ [0]) := by
  refine ⟨?_, by decide⟩
  intro a b h
  simpa [maskOf, nativeKeysIdMask, applyMask] using h

/-- `C18_history_distinct_node_ids` is not vacuous: its hypothesis holds for `witnessPrims` (an "HKDF" that returns its
salt), and a history with a restart holds two channels of one peer with different dbids -/
example : ∀ a b : Bytes,
    applyMask (maskOf .native) (witnessPrims.hkdf32 (channelSeedBase witnessPrims [5]) infoPerPeerSeed a)
      = applyMask (maskOf .native) (witnessPrims.hkdf32 (channelSeedBase witnessPrims [5]) infoPerPeerSeed b) →
    hmacKeyBlock a = hmacKeyBlock b := by
  intro a b h
  have : a = b := by simpa [maskOf, nativeKeysIdMask, applyMask, witnessPrims] using h
  rw [this]

example : ((run witnessPrims .native [5] .testnet
      [.newChan (chanIdOfPeerOid (List.replicate 33 2) 1), .newChan (chanIdOfPeerOid (List.replicate 33 2) 2), .restart]).chans.map
        (fun c => c.keys.keysId))
    = [chanIdOfPeerOid (List.replicate 33 2) 1, chanIdOfPeerOid (List.replicate 33 2) 2] := by decide

example : chanIdOfPeerOid [1, 2, 3] 258 = [1, 2, 3, 2, 1, 0, 0, 0, 0, 0, 0] ∧ chanIdOid [1, 2, 3, 2, 1, 0, 0, 0, 0, 0, 0] = some 258
    ∧ chanIdOid [1, 2, 3] = none ∧ chanIdLdkKeysId [1, 2, 3] = none := by decide

/-- a non-trivial history: two channels, a random one, setup, advances, entropy use, two restarts -/
def sampleOps : List Op :=
  [.newChan [7], .entropy, .newChan [9], .newRandom, .setup [7] 1000, .advance [7], .advance [7], .sweep,
   .restart, .newChan [8], .advance [7], .restart]

example : ((run witnessPrims .native [5] .testnet sampleOps).chans.map (fun c => (c.id, c.ready, c.nextHolder)))
    = [([7], true, 3), ([9], false, 0), ([0, 255], false, 0), ([8], false, 0)] := by decide

example : (run witnessPrims .native [5] .testnet sampleOps).km = ⟨4, 5, 4⟩ := by decide

/-- `C18_stateless_history` applies to it, and the keys are not trivial -/
example : ∀ c ∈ (run witnessPrims .native [5] .testnet sampleOps).chans,
    c.keys = keysOf witnessPrims .native [5] .testnet c.id :=
  C18_stateless_history witnessPrims .native (Or.inl rfl) [5] .testnet sampleOps

example : keysOf witnessPrims .native [5] .testnet [7] ≠ keysOf witnessPrims .native [5] .testnet [9] := by decide

/-- re-revoking commitment 0 (N = 1) on the sample history's channel [7] (next = 3) is answered -/
example : ((run witnessPrims .native [5] .testnet sampleOps).chans.head?.bind
    (fun c => revokeReply (fun s => 9 :: s) c 1)).isSome = true := by decide

/-- the injectivity hypothesis of `C18_distinct_partial` is satisfiable, for Native … -/
example : ∀ a b, applyMask (maskOf .native) (witnessPrims.hkdf32 (channelSeedBase witnessPrims [5]) infoPerPeerSeed a)
    = applyMask (maskOf .native) (witnessPrims.hkdf32 (channelSeedBase witnessPrims [5]) infoPerPeerSeed b) → a = b := by
  intro a b h
  simpa [maskOf, nativeKeysIdMask, applyMask, witnessPrims] using h

/-- … and for LDK (an HKDF whose first five output bytes are already clear) -/
example : ∀ a b, applyMask (maskOf .ldk) (([0, 0, 0, 0, 0] : Bytes) ++ a) = applyMask (maskOf .ldk) ([0, 0, 0, 0, 0] ++ b) → a = b := by
  intro a b h
  simpa [maskOf, ldkKeysIdMask, applyMask, List.modify] using h

/-- the tree law on concrete numbers with a visible "hash": index 0b1101 from its prefix 0b1100 -/
example : commitSecret (fun s => 9 :: s) [0, 0, 0, 0, 0, 0] 13
    = derive (fun s => 9 :: s) (commitSecret (fun s => 9 :: s) [0, 0, 0, 0, 0, 0] 12) 2 13 :=
  C18_tree _ _ 13 2 (by decide)

example : zeroLow 13 2 = 12 := by decide

example : commitSecret (fun s => 9 :: s) [0, 0, 0, 0, 0, 0] 13 = [9, 8, 13, 8, 0, 0, 0, 0, 0] := by decide

end VlsModel.Props.C18
