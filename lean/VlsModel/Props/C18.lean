/-
C18 — Channel keys are a stable function of seed and channel id.

"For the native and LDK key-derivation styles, a channel's basepoints, funding key, per-commitment
points and per-commitment secrets depend only on the node seed, network and channel id: they are the
same whatever other channels exist, in whatever order channels were created, before and after setup
and across restarts, and different channel ids give different keys.  The per-commitment secrets of a
channel form a BOLT-3 derivation tree, so the counterparty can store them compactly."

Model: `Model/Keys.lean`; generated parameter-use table: `Gen/KeyDeriveUse.lean`; helper lemmas:
`Lemmas/Keys.lean`.  Public keys (basepoints, per-commitment points) are secp256k1 images of the
secrets below; that step is not modelled (the harness checks it with the real library).
-/
import VlsModel.Model.Keys
import VlsModel.Lemmas.Keys

namespace VlsModel.Props.C18
open VlsModel.Keys VlsModel.Gen.KeyDeriveUse
open VlsModel.Sha256 (Bytes)

/-! ## Obligations on the generated table (what the source says now) -/

/-- `NativeKeyDerive::channel_keys` reads `keys_id` only -/
theorem C18_gen_native_use :
    nativeChanKeys = { seed := false, keysId := true, basepointIndex := false, masterKey := false, selfNetwork := false } := by
  decide

/-- `LdkKeyDerive::channel_keys` reads seed, keys id and master key, not the counter -/
theorem C18_gen_ldk_use :
    ldkChanKeys = { seed := true, keysId := true, basepointIndex := false, masterKey := true, selfNetwork := false } := by
  decide

/-- `keys_id` reads the channel id and the channel seed base only (all styles) -/
theorem C18_gen_keys_id_use :
    nativeKeysId = ⟨true, true, false⟩ ∧ ldkKeysId = ⟨true, true, false⟩ ∧ lndKeysId = ⟨true, true, false⟩ := by
  decide

/-- creation derives from the id, restore from the persisted id0, setup copies the stub's keys, the
channel value never reaches the key material, per-commitment requests use
`INITIAL_COMMITMENT_NUMBER - n`, the only counter handed to the derivation is `lnd_basepoint_index`,
and the manager has exactly the three counters of `KMState` -/
theorem C18_gen_flow :
    createDerivesFromId = true ∧ restoreDerivesFromId0 = true ∧ setupCopiesStubKeys = true ∧
    channelValueReachesKeys = false ∧ commitIndexIsInitialMinusN = true ∧
    basepointIndexIsLndCounter = true ∧ managerCounterCount = 3 := by
  decide

/-- the LDK keys id has its first four bytes cleared and bit 7 of the fifth -/
theorem C18_gen_ldk_mask :
    ldkKeysIdMask = [(0, 0), (1, 0), (2, 0), (3, 0), (4, 127)] ∧ nativeKeysIdMask = [] := by
  decide

/-! ## Statelessness -/

/-- the property's styles: the table says their `channel_keys` does not read the counter -/
theorem C18_styles_stateless (style : Style) (h : style = .native ∨ style = .ldk) :
    (useOf style).basepointIndex = false := by
  rcases h with h | h <;> subst h <;> decide

/-- **C18_stateless.** For Native and LDK the key material `get_channel_keys_with_id` produces is
independent of the keys manager's counters (for every choice of the derivation primitives). -/
theorem C18_stateless (P : Prims) (style : Style) (h : style = .native ∨ style = .ldk)
    (seed : Bytes) (net : Net) (id : Bytes) (st st' : KMState) :
    channelKeys P style seed net id st = channelKeys P style seed net id st' :=
  channelKeys_indep P style (C18_styles_stateless style h) seed net id st st'

/-- **C18_stateless_history.** After any history of creations (caller-chosen or random ids, in any
order, repeated), setups, commitment advances, other entropy use, restarts (every channel re-derived
from its persisted id0 by a fresh manager) and wipes, every channel of the node holds exactly
`keysOf seed net id`, a function of seed, network and id alone. -/
theorem C18_stateless_history (P : Prims) (style : Style) (h : style = .native ∨ style = .ldk)
    (seed : Bytes) (net : Net) (ops : List Op) :
    ∀ c ∈ (run P style seed net ops).chans, c.keys = keysOf P style seed net c.id :=
  keysInv_foldl (C18_styles_stateless style h) ops NodeSt.fresh (fun c hc => by simp [NodeSt.fresh] at hc)

/-- the same channel id in two arbitrary histories (other channels, other orders, before or after
setup, any number of restarts) has the same keys -/
theorem C18_history_independent (P : Prims) (style : Style) (h : style = .native ∨ style = .ldk)
    (seed : Bytes) (net : Net) (ops₁ ops₂ : List Op) (c₁ c₂ : Chan)
    (h₁ : c₁ ∈ (run P style seed net ops₁).chans) (h₂ : c₂ ∈ (run P style seed net ops₂).chans)
    (hid : c₁.id = c₂.id) : c₁.keys = c₂.keys := by
  rw [C18_stateless_history P style h seed net ops₁ c₁ h₁,
      C18_stateless_history P style h seed net ops₂ c₂ h₂, hid]

/-- hence every per-commitment secret (and the point, its secp256k1 image) is the same, for every
commitment number and every hash function -/
theorem C18_secrets_stable (P : Prims) (style : Style) (h : style = .native ∨ style = .ldk)
    (seed : Bytes) (net : Net) (ops₁ ops₂ : List Op) (c₁ c₂ : Chan)
    (h₁ : c₁ ∈ (run P style seed net ops₁).chans) (h₂ : c₂ ∈ (run P style seed net ops₂).chans)
    (hid : c₁.id = c₂.id) (H : Bytes → Bytes) (n : Nat) :
    holderSecret H c₁.keys n = holderSecret H c₂.keys n := by
  rw [C18_history_independent P style h seed net ops₁ ops₂ c₁ c₂ h₁ h₂ hid]

/-- the per-commitment secret number `k` of a channel is `commitSecret H seed' (INITIAL - k)` with
`seed'` the commitment seed of `keysOf seed net id` — no history, no counter, no `next` in it -/
theorem C18_holder_secret_eq (H : Bytes → Bytes) (k : KeyMaterial) (n : Nat) (hn : n ≤ INITIAL_COMMITMENT_NUMBER) :
    holderSecret H k n = some (commitSecret H k.commitmentSeed (INITIAL_COMMITMENT_NUMBER - n)) := by
  simp [holderSecret, hn]

/-- **C18_released_secret.** Whatever the history, and whatever `next_holder_commit_num` is at
release time: when `revoke_previous_holder_commitment(N)` is repeated for an already revoked
commitment, the secret it releases is the per-commitment secret `N - 1` of `keysOf seed net id`
(nothing for `N = 0`), and the next point it returns is the one of number `N + 1`. -/
theorem C18_released_secret (P : Prims) (style : Style) (h : style = .native ∨ style = .ldk)
    (seed : Bytes) (net : Net) (ops : List Op) (c : Chan) (hc : c ∈ (run P style seed net ops).chans)
    (H : Bytes → Bytes) (N : Nat) (r : Option Bytes × Option Bytes) (hr : revokeReply H c N = some r) :
    r.1 = (if N = 0 then none else holderSecret H (keysOf P style seed net c.id) (N - 1)) ∧
    r.2 = holderSecret H (keysOf P style seed net c.id) (N + 1) := by
  have hk := C18_stateless_history P style h seed net ops c hc
  unfold revokeReply at hr
  split at hr
  · injection hr with hr; subst hr; rw [hk]; exact ⟨rfl, rfl⟩
  · cases hr

/-- the same for the first release, at validate/revoke time (`N = next`) -/
theorem C18_advance_secret (P : Prims) (style : Style) (h : style = .native ∨ style = .ldk)
    (seed : Bytes) (net : Net) (ops : List Op) (c : Chan) (hc : c ∈ (run P style seed net ops).chans)
    (H : Bytes → Bytes) (r : Option Bytes × Option Bytes) (hr : advanceReply H c = some r) :
    r.1 = (if c.nextHolder = 0 then none else holderSecret H (keysOf P style seed net c.id) (c.nextHolder - 1)) ∧
    r.2 = holderSecret H (keysOf P style seed net c.id) (c.nextHolder + 1) := by
  have hk := C18_stateless_history P style h seed net ops c hc
  unfold advanceReply at hr
  split at hr
  · injection hr with hr; subst hr; rw [hk]; exact ⟨rfl, rfl⟩
  · cases hr

/-- first release and any later repetition of it agree: both are the secret of `N - 1` -/
theorem C18_rerevoke_same_secret (P : Prims) (style : Style) (h : style = .native ∨ style = .ldk)
    (seed : Bytes) (net : Net) (ops₁ ops₂ : List Op) (c₁ c₂ : Chan)
    (h₁ : c₁ ∈ (run P style seed net ops₁).chans) (h₂ : c₂ ∈ (run P style seed net ops₂).chans)
    (hid : c₁.id = c₂.id) (H : Bytes → Bytes) (r₁ r₂ : Option Bytes × Option Bytes)
    (hr₁ : advanceReply H c₁ = some r₁) (hr₂ : revokeReply H c₂ c₁.nextHolder = some r₂) : r₁ = r₂ := by
  obtain ⟨a1, a2⟩ := C18_advance_secret P style h seed net ops₁ c₁ h₁ H r₁ hr₁
  obtain ⟨b1, b2⟩ := C18_released_secret P style h seed net ops₂ c₂ h₂ H c₁.nextHolder r₂ hr₂
  rw [hid] at a1 a2
  exact Prod.ext (a1.trans b1.symm) (a2.trans b2.symm)

/-- and for the pre-v6 `GetPerCommitmentPoint(n)` reply: point `n`, secret `n - 2` -/
theorem C18_old_getpoint_secret (P : Prims) (style : Style) (h : style = .native ∨ style = .ldk)
    (seed : Bytes) (net : Net) (ops : List Op) (c : Chan) (hc : c ∈ (run P style seed net ops).chans)
    (H : Bytes → Bytes) (n : Nat) (r : Option Bytes × Option Bytes) (hr : oldGetPointReply H c n = some r) :
    r.1 = holderSecret H (keysOf P style seed net c.id) n ∧
    r.2 = (if n < 2 then none else holderSecret H (keysOf P style seed net c.id) (n - 2)) := by
  have hk := C18_stateless_history P style h seed net ops c hc
  unfold oldGetPointReply at hr
  split at hr
  · cases hr
  · split at hr
    · rename_i h2; injection hr with hr; subst hr; rw [hk]; simp [h2]
    · rename_i h2
      split at hr
      · injection hr with hr; subst hr; rw [hk]; simp [h2]
      · cases hr

/-- "is this your secret `n`?" is answered from `keysOf seed net id` alone: the same answer for the
same id in every history, before and after setup, whatever the channel's commitment counter is -/
theorem C18_future_secret_check (P : Prims) (style : Style) (h : style = .native ∨ style = .ldk)
    (seed : Bytes) (net : Net) (ops : List Op) (c : Chan) (hc : c ∈ (run P style seed net ops).chans)
    (H : Bytes → Bytes) (n : Nat) (s : Bytes) :
    checkFutureSecret H c n s = (holderSecret H (keysOf P style seed net c.id) n == some s) := by
  unfold checkFutureSecret
  rw [C18_stateless_history P style h seed net ops c hc]

/-- a restart keeps every channel (id, readiness, value, commitment counter) -/
theorem C18_restart_keeps_channels (P : Prims) (style : Style) (seed : Bytes) (net : Net) (s : NodeSt) :
    (step P style seed net s .restart).chans.map (fun c => (c.id, c.ready, c.value, c.nextHolder))
      = s.chans.map (fun c => (c.id, c.ready, c.value, c.nextHolder)) := by
  simp only [step]
  exact restoreChans_shape P style seed net s.chans KMState.fresh

/-! ## Re-derivation at sweep time -/

/-- what the source says now: signers are derived at creation and restore (from the id) and in the
two descriptor arms of `spend_spendable_outputs`, there from the descriptor's keys id through
`derive_channel_keys = get_channel_keys_with_keys_id`; nowhere else -/
theorem C18_gen_sweep : sweepRederivesFromKeysId = true := by decide

/-- **C18_sweep_rederive.** Whatever the history and whatever the manager's counters are at sweep
time, the signer `spend_spendable_outputs` re-derives from the `channel_keys_id` recorded by a
channel's signer holds exactly that channel's key material — the keys the channel reported at
creation, after setup and after every restart (`keysOf seed net id`). -/
theorem C18_sweep_rederive (P : Prims) (style : Style) (h : style = .native ∨ style = .ldk)
    (seed : Bytes) (net : Net) (ops : List Op) (c : Chan) (hc : c ∈ (run P style seed net ops).chans)
    (st : KMState) :
    sweepSigner P style seed net c st = c.keys ∧ sweepSigner P style seed net c st = keysOf P style seed net c.id := by
  have hk := C18_stateless_history P style h seed net ops c hc
  have hr : sweepSigner P style seed net c st = keysOf P style seed net c.id := by
    unfold sweepSigner
    rw [hk]
    exact rederive_from_recorded_keysId P style (C18_styles_stateless style h) seed net c.id KMState.fresh st
  exact ⟨hr.trans hk.symm, hr⟩

/-- Treating the recorded keys id as a channel *id* (deriving `keys_id` a second time) is a
different function: with primitives that make the inputs visible the two signers differ. -/
theorem C18_sweep_via_id_differs :
    ∃ (P : Prims) (c : Chan), c ∈ (run P .ldk [5] .testnet [.newChan [7]]).chans ∧
      channelKeys P .ldk [5] .testnet c.keys.keysId KMState.fresh ≠ c.keys := by
  refine ⟨{ hkdf32 := fun _ _ salt => 1 :: salt, chanKeys := fun _ i => ⟨i.keysId, [], [], [], [], []⟩, randomId := fun _ => [] },
    ⟨[7], ⟨[0, 0], [0, 0], [], [], [], [], []⟩, false, 0, 0⟩, ?_, ?_⟩
  · decide
  · decide

/-! The LND style is excluded by the property, and rightly so: with the table as generated
(`lndChanKeys.basepointIndex = true`) the model exhibits two creation orders that give one id
different keys. -/

/-- primitives that make every input visible in the output -/
def witnessPrims : Prims :=
  { hkdf32 := fun _ _ salt => salt,
    chanKeys := fun _ i => ⟨[UInt8.ofNat i.basepointIndex], i.keysId, [], [], [], []⟩,
    randomId := fun n => [UInt8.ofNat n, 255] }

theorem C18_lnd_order_dependent :
    ∃ (P : Prims) (ops₁ ops₂ : List Op) (c₁ c₂ : Chan),
      c₁ ∈ (run P .lnd [] .bitcoin ops₁).chans ∧ c₂ ∈ (run P .lnd [] .bitcoin ops₂).chans ∧
      c₁.id = c₂.id ∧ c₁.keys ≠ c₂.keys := by
  refine ⟨witnessPrims, [.newChan [1], .newChan [2]], [.newChan [2], .newChan [1]],
    ⟨[1], ⟨[1], [0], [1], [], [], [], []⟩, false, 0, 0⟩,
    ⟨[1], ⟨[1], [1], [1], [], [], [], []⟩, false, 0, 0⟩, ?_, ?_, rfl, ?_⟩
  · decide
  · decide
  · decide

/-! ## BOLT-3 derivation tree -/

/-- **C18_tree.** For every hash function `H` (indeed for every "flip bit `b`, then hash" step), the
secret of index `idx` is derivable from the secret of `idx` with its `b` low bits cleared by
`CounterpartyCommitmentSecrets::derive_secret(_, b, idx)`. -/
theorem C18_tree (H : Bytes → Bytes) (seed : Bytes) (idx b : Nat) (hb : b ≤ 48) :
    commitSecret H seed idx = derive H (commitSecret H seed (zeroLow idx b)) b idx := by
  unfold commitSecret derive
  have h48 : 48 = b + (48 - b) := by omega
  rw [h48]
  exact deriveWith_split _ b (48 - b) seed idx

/-- the check `provide_secret(idx, secret)` performs against an older entry `(old_secret, old_idx)`
of a lower bucket: if the new index is the old one with its `pos` low bits cleared, deriving from the
new secret reproduces the old one.  The same equation is what `get_secret` returns. -/
theorem C18_tree_store_consistent (H : Bytes → Bytes) (seed : Bytes) (idx oldIdx pos : Nat)
    (hpos : pos ≤ 48) (hsub : zeroLow oldIdx pos = idx) :
    derive H (commitSecret H seed idx) pos oldIdx = commitSecret H seed oldIdx := by
  rw [← hsub]; exact (C18_tree H seed oldIdx pos hpos).symm

/-- `zeroLow idx b` is `idx` with exactly the bits below `b` cleared (`idx & !((1 << b) - 1)`) -/
theorem C18_zeroLow_bits (idx b j : Nat) :
    (zeroLow idx b).testBit j = (decide (b ≤ j) && idx.testBit j) := testBit_zeroLow idx b j

/-- only the 48 low bits of the index matter to `build_commitment_secret` -/
theorem C18_secret_48_bits (H : Bytes → Bytes) (seed : Bytes) (i j : Nat)
    (h : ∀ k, k < 48 → i.testBit k = j.testBit k) : commitSecret H seed i = commitSecret H seed j := by
  unfold commitSecret derive
  exact deriveWith_congr _ 48 seed i j h

/-! ## The LDK keys id is always a valid hardened BIP32 index -/

/-- after the generated masks (`res[0..4] = 0`, `res[4] &= 0x7f`) the big-endian value of the first
eight bytes is below `2^31`, whatever HKDF returned … -/
theorem C18_ldk_keys_id_in_range (b0 b1 b2 b3 b4 b5 b6 b7 : UInt8) (rest : Bytes) :
    be64 (applyMask ldkKeysIdMask (b0 :: b1 :: b2 :: b3 :: b4 :: b5 :: b6 :: b7 :: rest)) < 2 ^ 31 := by
  have h4 : b4.toNat &&& 127 ≤ 127 := Nat.and_le_right
  have h5 := b5.toNat_lt
  have h6 := b6.toNat_lt
  have h7 := b7.toNat_lt
  simp [applyMask, ldkKeysIdMask, List.modify, be64, List.take, List.foldl]
  omega

/-- … so `LdkKeyDerive::channel_keys` never hits `assert!(chan_id <= u32::MAX)` nor the
`from_hardened_idx(..).expect("key space exhausted")` on a keys id produced by `keys_id` -/
theorem C18_ldk_no_panic (child : Bytes → Net → Nat → Bytes) (seed : Bytes) (net : Net) (bpi : Nat)
    (b0 b1 b2 b3 b4 b5 b6 b7 : UInt8) (rest : Bytes) :
    (ldkChanKeysFn child
      ⟨seed, net, applyMask ldkKeysIdMask (b0 :: b1 :: b2 :: b3 :: b4 :: b5 :: b6 :: b7 :: rest), bpi⟩).isSome = true := by
  have h := C18_ldk_keys_id_in_range b0 b1 b2 b3 b4 b5 b6 b7 rest
  unfold ldkChanKeysFn
  simp only [ge_iff_le, Nat.not_le.mpr h, if_false, Option.isSome_some]

/-! ## Distinct ids

Full-strength statement (what the property says):

  `∀ id₁ id₂, id₁ ≠ id₂ → keysOf P style seed net id₁ ≠ keysOf P style seed net id₂`

It cannot hold for arbitrary primitives (a constant `hkdf32`), and it does not even hold for the
real HKDF-SHA256: the channel id is used as the HKDF *salt*, i.e. as an HMAC key, and HMAC pads
its key with zero bytes (`C18_distinct_full_false`, known finding).  What holds is the statement
under an explicit injectivity hypothesis on the (masked) HKDF. -/

/-- **C18_distinct_partial.** If (masked, for LDK) `hkdf_sha256(base, "per-peer seed", ·)` is
injective in the channel id, distinct ids get distinct `keys_id`, hence distinct key material, in
whatever manager states they are derived. -/
theorem C18_distinct_partial (P : Prims) (style : Style) (seed : Bytes) (net : Net)
    (hinj : ∀ a b,
      applyMask (maskOf style) (P.hkdf32 (channelSeedBase P seed) infoPerPeerSeed a)
        = applyMask (maskOf style) (P.hkdf32 (channelSeedBase P seed) infoPerPeerSeed b) → a = b)
    (id₁ id₂ : Bytes) (hne : id₁ ≠ id₂) (st₁ st₂ : KMState) :
    keysIdOf P style (channelSeedBase P seed) id₁ ≠ keysIdOf P style (channelSeedBase P seed) id₂ ∧
    channelKeys P style seed net id₁ st₁ ≠ channelKeys P style seed net id₂ st₂ := by
  have hk : keysIdOf P style (channelSeedBase P seed) id₁ ≠ keysIdOf P style (channelSeedBase P seed) id₂ :=
    fun he => hne (hinj id₁ id₂ he)
  refine ⟨hk, fun he => hk ?_⟩
  have := congrArg KeyMaterial.keysId he
  simpa [channelKeys, channelKeysFromKeysId] using this

/-- **Refutation of the unconditional statement for the real HKDF-SHA256**: the ids `[]` and `[0]`
(more generally `id` and `id ++ [0]` for `id` shorter than 64 bytes) get the same keys, for every
seed, network, style and BIP32 oracle. -/
theorem C18_distinct_full_false :
    ∃ id₁ id₂ : Bytes, id₁ ≠ id₂ ∧
      ∀ (child : Bytes → Net → Nat → Bytes) (style : Style) (seed : Bytes) (net : Net),
        keysOf (concretePrims child) style seed net id₁ = keysOf (concretePrims child) style seed net id₂ := by
  refine ⟨[], [0], by decide, ?_⟩
  intro child style seed net
  have hk : ∀ base, keysIdOf (concretePrims child) style base [0] = keysIdOf (concretePrims child) style base [] := by
    intro base
    simp only [keysIdOf, concretePrims, hkdfSha256]
    rw [show ([0] : Bytes) = [] ++ [0] from rfl, hmac_key_zero_pad [] base (by decide)]
  simp only [keysOf, channelKeys, hk]

/-- the general shape of the collision at the level of `keys_id` -/
theorem C18_keys_id_zero_padding (child : Bytes → Net → Nat → Bytes) (style : Style) (base id : Bytes)
    (h : id.length < 64) :
    keysIdOf (concretePrims child) style base (id ++ [0]) = keysIdOf (concretePrims child) style base id := by
  simp only [keysIdOf, concretePrims, hkdfSha256]
  rw [hmac_key_zero_pad id base h]

/-! ## Non-vacuity -/

/-- a non-trivial history: two channels, a random one, setup, advances, entropy use, two restarts -/
def sampleOps : List Op :=
  [.newChan [7], .entropy, .newChan [9], .newRandom, .setup [7] 1000, .advance [7], .advance [7], .sweep,
   .restart, .newChan [8], .advance [7], .restart]

example : ((run witnessPrims .native [5] .testnet sampleOps).chans.map (fun c => (c.id, c.ready, c.nextHolder)))
    = [([7], true, 3), ([9], false, 0), ([0, 255], false, 0), ([8], false, 0)] := by decide

example : (run witnessPrims .native [5] .testnet sampleOps).km = ⟨4, 5, 4⟩ := by decide

/-- `C18_stateless_history` applies to it, and the keys are not trivial -/
example : ∀ c ∈ (run witnessPrims .native [5] .testnet sampleOps).chans,
    c.keys = keysOf witnessPrims .native [5] .testnet c.id :=
  C18_stateless_history witnessPrims .native (Or.inl rfl) [5] .testnet sampleOps

example : keysOf witnessPrims .native [5] .testnet [7] ≠ keysOf witnessPrims .native [5] .testnet [9] := by decide

/-- re-revoking commitment 0 (N = 1) on the sample history's channel [7] (next = 3) is answered -/
example : ((run witnessPrims .native [5] .testnet sampleOps).chans.head?.bind
    (fun c => revokeReply (fun s => 9 :: s) c 1)).isSome = true := by decide

/-- the injectivity hypothesis of `C18_distinct_partial` is satisfiable, for Native … -/
example : ∀ a b, applyMask (maskOf .native) (witnessPrims.hkdf32 (channelSeedBase witnessPrims [5]) infoPerPeerSeed a)
    = applyMask (maskOf .native) (witnessPrims.hkdf32 (channelSeedBase witnessPrims [5]) infoPerPeerSeed b) → a = b := by
  intro a b h
  simpa [maskOf, nativeKeysIdMask, applyMask, witnessPrims] using h

/-- … and for LDK (an HKDF whose first five output bytes are already clear) -/
example : ∀ a b, applyMask (maskOf .ldk) (([0, 0, 0, 0, 0] : Bytes) ++ a) = applyMask (maskOf .ldk) ([0, 0, 0, 0, 0] ++ b) → a = b := by
  intro a b h
  simpa [maskOf, ldkKeysIdMask, applyMask, List.modify] using h

/-- the tree law on concrete numbers with a visible "hash": index 0b1101 from its prefix 0b1100 -/
example : commitSecret (fun s => 9 :: s) [0, 0, 0, 0, 0, 0] 13
    = derive (fun s => 9 :: s) (commitSecret (fun s => 9 :: s) [0, 0, 0, 0, 0, 0] 12) 2 13 :=
  C18_tree _ _ 13 2 (by decide)

example : zeroLow 13 2 = 12 := by decide

example : commitSecret (fun s => 9 :: s) [0, 0, 0, 0, 0, 0] 13 = [9, 8, 13, 8, 0, 0, 0, 0, 0] := by decide

end VlsModel.Props.C18
