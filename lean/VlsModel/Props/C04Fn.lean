import VlsModel.Model.Bolt3Htlc
import VlsModel.Gen.FnTxUtil
import VlsModel.Gen.FnTxInfo
import VlsModel.Gen.FnChannel
import VlsModel.Gen.FnChannelOic
import VlsModel.Gen.FnChannelCommit
import VlsModel.Gen.FnSimpleDecode
import VlsModel.Gen.FnTxInfo2
import VlsModel.Model.Bolt3Parse
import VlsModel.Gen.FnFilterC04
import VlsModel.Model.Bolt3Filter
import VlsModel.Lemmas.FnGen
import VlsModel.Gen.FnTxParse
import VlsModel.Gen.FnTxBalance
import VlsModel.Gen.FnTxDelta
/-
C04 — `Bolt3.estimateFeerate` (the feerate the signer infers for a second-level HTLC transaction,
`Model/Bolt3Htlc.lean`) proved equal to the body of `estimate_feerate_per_kw` that `translate/rs2lean.py`
regenerates from `vls-core/src/util/transaction_utils.rs` (`Gen/FnTxUtil.lean`): saturating `* 1000`, saturating
`+ 999`, division by the weight, clamp into `u32`.  The division panics for a zero weight (the model's `Nat`
division would give 0); the only callers pass LDK's `htlc_timeout_tx_weight`/`htlc_success_tx_weight` (663/703) or
the weight of a transaction with an input.
-/
namespace VlsModel.Props.C04Fn
open VlsModel

theorem C04_fn_estimate_feerate (fee weight : Nat) (hw : weight ≠ 0) :
    Gen.FnTxUtil.estimate_feerate_per_kw fee weight = .ok (Bolt3.estimateFeerate fee weight) := by
  unfold Gen.FnTxUtil.estimate_feerate_per_kw Bolt3.estimateFeerate
  simp only [Rs.udiv, hw, if_false, Rs.bind_ok, Rs.pure_eq, Rs.usatAdd, Rs.usatMul, Rs.utryFrom, Rs.U64_MAX, Rs.U32_MAX]
  have key : ∀ q m : Nat, (if q ≤ m then some q else none).getD m = min q m := by
    intro q m; by_cases h : q ≤ m <;> simp [h, Nat.min_def]
  simp
  exact key _ _

theorem C04_fn_estimate_feerate_weight_zero (fee : Nat) :
    Gen.FnTxUtil.estimate_feerate_per_kw fee 0 = .error .panic := by
  simp [Gen.FnTxUtil.estimate_feerate_per_kw, Rs.udiv, Rs.panic, bind, Except.bind]

/-! ## `ChannelSetup::{is_static_remotekey, is_anchors, is_zero_fee_htlc}` (channel.rs) = the model's `CType` predicates

The decoder (`handle_output`, the HTLC templates), the validator and `features()` branch on these; the model's
`CType.isAnchors` / `isZeroFee` are proved equal to the bodies regenerated from `vls-core/src/channel.rs`
(`Gen/FnChannel.lean`; the generated `CommitmentType` lists the enum's variants in declaration order). -/

def toGenCType : Bolt3.CType → Gen.FnChannel.CommitmentType
  | .legacy => .Legacy
  | .staticRemoteKey => .StaticRemoteKey
  | .anchors => .Anchors
  | .anchorsZeroFee => .AnchorsZeroFeeHtlc

/-- every variant of the source's enum is the image of a model type: the model misses no commitment type -/
theorem C04_fn_ctype_surjective (g : Gen.FnChannel.CommitmentType) : ∃ t, toGenCType t = g := by
  cases g
  · exact ⟨.legacy, rfl⟩
  · exact ⟨.staticRemoteKey, rfl⟩
  · exact ⟨.anchors, rfl⟩
  · exact ⟨.anchorsZeroFee, rfl⟩

theorem C04_fn_is_anchors (t : Bolt3.CType) :
    Gen.FnChannel.ChannelSetup.is_anchors ⟨toGenCType t⟩ = t.isAnchors := by
  cases t <;> rfl

theorem C04_fn_is_zero_fee_htlc (t : Bolt3.CType) :
    Gen.FnChannel.ChannelSetup.is_zero_fee_htlc ⟨toGenCType t⟩ = t.isZeroFee := by
  cases t <;> rfl

/-- `is_static_remotekey` = "not Legacy" (the model's `canon` builds the same p2wpkh to_remote for Legacy and
    StaticRemoteKey: the payment key is an input of the model, `Keys.cPayment`) -/
theorem C04_fn_is_static_remotekey (t : Bolt3.CType) :
    Gen.FnChannel.ChannelSetup.is_static_remotekey ⟨toGenCType t⟩ = decide (t ≠ .legacy) := by
  cases t <;> rfl

/-! ## `CommitmentInfo::{new, has_to_broadcaster, has_to_countersigner}` (tx.rs) and the model's `Info`

The model's `Info` is an abstraction of the decoder's accumulator `CommitmentInfo`: one flag per side instead of the
optional key / address, counters instead of the HTLC lists.  `absInfo` is that abstraction, defined on the structure
regenerated from the source (`Gen/FnTxInfo.lean`, all twelve fields: `new` writes them all); the singularity tests of
`handle_output` read `has_to_broadcaster` / `has_to_countersigner`. -/

def absInfo {A P : Type} (g : Gen.FnTxInfo.CommitmentInfo A P) : Bolt3.Info :=
  { hasCs := g.to_countersigner_address.isSome || g.to_countersigner_pubkey.isSome,
    csVal := g.to_countersigner_value_sat,
    hasBc := g.to_broadcaster_delayed_pubkey.isSome,
    bcVal := g.to_broadcaster_value_sat,
    anchorsB := g.to_broadcaster_anchor_count,
    anchorsC := g.to_countersigner_anchor_count,
    nOffered := g.offered_htlcs.length,
    nReceived := g.received_htlcs.length }

/-- `CommitmentInfo::new(_)` is the model's initial accumulator -/
theorem C04_fn_commitment_info_new (A P : Type) (b : Bool) :
    absInfo (Gen.FnTxInfo.CommitmentInfo.new b : Gen.FnTxInfo.CommitmentInfo A P) = Bolt3.Info.init := by
  rfl

theorem C04_fn_has_to_broadcaster {A P : Type} (g : Gen.FnTxInfo.CommitmentInfo A P) :
    Gen.FnTxInfo.CommitmentInfo.has_to_broadcaster g = (absInfo g).hasBc := by
  rfl

/-- to_remote is recorded as an address (p2wpkh) *or* a key (delayed to_remote): either one makes a second one refused -/
theorem C04_fn_has_to_countersigner {A P : Type} (g : Gen.FnTxInfo.CommitmentInfo A P) :
    Gen.FnTxInfo.CommitmentInfo.has_to_countersigner g = (absInfo g).hasCs := by
  rfl

/-! ## `Channel::htlcs_info2_to_oic` (channel.rs): the HTLC lists handed to LDK's builder

Both entry points turn the (offered, received) `HTLCInfo2` lists into `HTLCOutputInCommitment`s with this function:
offered first, `amount_msat = value_sat * 1000` (plain `*`: overflow-checked), the `offered` flag per list.  The model's
`rawElems` maps `htlcElem · true` over the offered and `htlcElem · false` over the received list in the same order, and
`buildPanics` is exactly the overflow of this function. -/

def toGenHtlc (h : Bolt3.Htlc) : Gen.FnChannelOic.HTLCInfo2 Nat := ⟨h.value, h.hash, h.cltv⟩

def oicOf (offered : Bool) (h : Bolt3.Htlc) : Gen.FnChannelOic.HTLCOutputInCommitment Nat :=
  { offered := offered, amount_msat := h.value * 1000, cltv_expiry := h.cltv, payment_hash := h.hash,
    transaction_output_index := none }

def mkOic (b : Bool) (t : Nat) (x : Gen.FnChannelOic.HTLCInfo2 Nat) : Gen.FnChannelOic.HTLCOutputInCommitment Nat :=
  { offered := b, amount_msat := t, cltv_expiry := x.cltv_expiry, payment_hash := x.payment_hash,
    transaction_output_index := none }

theorem foldlM_push {α β : Type} (f : List β → α → Rs.M (List β)) (v : α → Nat) (mk : Nat → α → β)
    (hf : ∀ acc x, f acc x = (Rs.umul Rs.U64_MAX (v x) 1000 >>= fun t => pure (acc ++ [mk t x]))) :
    ∀ (l : List α) (acc : List β),
      List.foldlM f acc l =
        if l.all (fun x => decide (v x * 1000 ≤ Rs.U64_MAX)) then .ok (acc ++ l.map (fun x => mk (v x * 1000) x))
        else .error .overflow := by
  intro l
  induction l with
  | nil => intro acc; simp [List.foldlM]
  | cons x xs ih =>
    intro acc
    rw [List.foldlM_cons, hf]
    by_cases hx : v x * 1000 ≤ Rs.U64_MAX
    · simp [Rs.umul, hx, ih, List.all_cons, List.append_assoc]
    · simp [Rs.umul, hx, Rs.overflow, List.all_cons]

theorem oic_two_folds {α β : Type} (f g : List β → α → Rs.M (List β)) (v : α → Nat) (mk1 mk2 : Nat → α → β)
    (hf : ∀ acc x, f acc x = (Rs.umul Rs.U64_MAX (v x) 1000 >>= fun t => pure (acc ++ [mk1 t x])))
    (hg : ∀ acc x, g acc x = (Rs.umul Rs.U64_MAX (v x) 1000 >>= fun t => pure (acc ++ [mk2 t x])))
    (l1 l2 : List α) :
    (List.foldlM f [] l1 >>= fun h => List.foldlM g h l2) =
      if (l1 ++ l2).all (fun x => decide (v x * 1000 ≤ Rs.U64_MAX)) then
        .ok (l1.map (fun x => mk1 (v x * 1000) x) ++ l2.map (fun x => mk2 (v x * 1000) x))
      else .error .overflow := by
  rw [foldlM_push f v mk1 hf]
  by_cases h1 : l1.all (fun x => decide (v x * 1000 ≤ Rs.U64_MAX)) = true
  · simp only [h1, if_true, Rs.bind_ok, List.nil_append]
    rw [foldlM_push g v mk2 hg]
    by_cases h2 : l2.all (fun x => decide (v x * 1000 ≤ Rs.U64_MAX)) = true
    · simp [h1, h2, List.all_append]
    · simp [h1, h2, List.all_append]
  · simp [h1, List.all_append]

theorem C04_fn_htlcs_info2_to_oic (off recv : List Bolt3.Htlc) :
    Gen.FnChannelOic.Channel.htlcs_info2_to_oic (off.map toGenHtlc) (recv.map toGenHtlc) =
      if (off ++ recv).all (fun h => decide (h.value * 1000 ≤ Rs.U64_MAX)) then
        .ok (off.map (oicOf true) ++ recv.map (oicOf false))
      else .error .overflow := by
  unfold Gen.FnChannelOic.Channel.htlcs_info2_to_oic
  refine (oic_two_folds _ _ (fun x => x.value_sat) (mkOic true) (mkOic false) ?_ ?_
    (off.map toGenHtlc) (recv.map toGenHtlc)).trans ?_
  · intro acc x; rfl
  · intro acc x; rfl
  · generalize Rs.U64_MAX = M
    have e1 : ∀ l : List Bolt3.Htlc, (l.map toGenHtlc).all (fun x => decide (x.value_sat * 1000 ≤ M))
        = l.all (fun h => decide (h.value * 1000 ≤ M)) := by
      intro l; induction l with
      | nil => rfl
      | cons a l ih => simp only [List.map_cons, List.all_cons, ih, toGenHtlc]
    have e2 : ∀ (b : Bool) (l : List Bolt3.Htlc),
        (l.map toGenHtlc).map (fun x => mkOic b (x.value_sat * 1000) x) = l.map (oicOf b) := by
      intro b l; induction l with
      | nil => rfl
      | cons a l ih => simp only [List.map_cons, ih]; rfl
    rw [List.all_append, List.all_append, e1, e1, e2, e2]

/-- the overflow of `htlcs_info2_to_oic` is the HTLC part of the model's `buildPanics` (the other part is
    `INITIAL_COMMITMENT_NUMBER - commitment_number`), and each converted entry carries the HTLC's fields -/
theorem C04_fn_oic_buildPanics (c : Bolt3.Content) :
    (Gen.FnChannelOic.Channel.htlcs_info2_to_oic (c.offered.map toGenHtlc) (c.received.map toGenHtlc) = .error .overflow)
      ↔ (c.offered ++ c.received).any (fun h => decide (h.value * 1000 ≥ Bolt3.U64_LIMIT)) = true := by
  rw [C04_fn_htlcs_info2_to_oic]
  have key : (c.offered ++ c.received).all (fun h => decide (h.value * 1000 ≤ Rs.U64_MAX)) =
      !(c.offered ++ c.received).any (fun h => decide (h.value * 1000 ≥ Bolt3.U64_LIMIT)) := by
    have e : ∀ h : Bolt3.Htlc, (!decide (h.value * 1000 ≤ Rs.U64_MAX)) = decide (h.value * 1000 ≥ Bolt3.U64_LIMIT) := by
      intro h
      by_cases hh : h.value * 1000 ≤ Rs.U64_MAX
      · have : ¬ (h.value * 1000 ≥ Bolt3.U64_LIMIT) := by simp only [Rs.U64_MAX, Bolt3.U64_LIMIT] at *; omega
        simp [hh, this]
      · have : (h.value * 1000 ≥ Bolt3.U64_LIMIT) := by simp only [Rs.U64_MAX, Bolt3.U64_LIMIT] at *; omega
        simp [hh, this]
    rw [List.all_eq_not_any_not]
    simp only [e]
  rw [key]
  cases (c.offered ++ c.received).any (fun h => decide (h.value * 1000 ≥ Bolt3.U64_LIMIT)) <;> simp

theorem C04_fn_oic_fields (b : Bool) (h : Bolt3.Htlc) :
    (oicOf b h).offered = b ∧ (oicOf b h).amount_msat / 1000 = h.value ∧ (oicOf b h).cltv_expiry = h.cltv ∧
    (oicOf b h).payment_hash = h.hash := by
  refine ⟨rfl, ?_, rfl, rfl⟩
  simp [oicOf]

/-! ## `PolicyFilter::filter` (policy/filter.rs) = the model's `filterIsError`

`policy_err!(validator, "policy-commitment", "recomposed tx mismatch")` returns the error iff the node's filter maps the
tag to `FilterResult::Error`; the model's `Env.mismatchIsError` is `filterIsError rules "policy-commitment"`.  The loop
with early `return` of the source (`Rs.loopM`) is proved equal to the model's first-match recursion, for every rule
list and every tag. -/

def toGenRule (r : Bolt3.FRule) : Gen.FnFilterC04.FilterRule :=
  { tag := r.tag, is_prefix := r.isPrefix, action := if r.warn then .Warn else .Error }

theorem C04_fn_policy_filter (rules : List Bolt3.FRule) (tag : String) :
    Gen.FnFilterC04.PolicyFilter.filter ⟨rules.map toGenRule⟩ tag =
      .ok (if Bolt3.filterIsError rules tag then .Error else .Warn) := by
  unfold Gen.FnFilterC04.PolicyFilter.filter
  induction rules with
  | nil => simp [Bolt3.filterIsError]
  | cons r rs ih =>
    simp only [List.map_cons, Rs.loopM, toGenRule, Bolt3.filterIsError, Bolt3.FRule.matchesTag] at ih ⊢
    by_cases hm : (if r.isPrefix = true then r.tag.isPrefixOf tag else tag == r.tag) = true
    · by_cases hw : r.warn = true <;> simp [hm, hw]
    · simp only [hm, Bool.false_eq_true, if_false, Rs.bind_ok, Rs.pure_eq] at ih ⊢
      exact ih

/-- `PolicyFilter::new_permissive()` demotes every tag, `policy-commitment` included (the documented opt-out) -/
theorem C04_fn_policy_filter_permissive (tag : String) :
    Gen.FnFilterC04.PolicyFilter.filter Gen.FnFilterC04.PolicyFilter.new_permissive tag = .ok .Warn := by
  have h : Gen.FnFilterC04.PolicyFilter.new_permissive = ⟨[⟨"", true, true⟩].map toGenRule⟩ := rfl
  rw [h, C04_fn_policy_filter]
  simp [Bolt3.filterIsError, Bolt3.FRule.matchesTag, String.isPrefixOf]

/-- with no rule at all (`PolicyFilter::default()`, the default policy) every tag is an error -/
theorem C04_fn_policy_filter_default (tag : String) :
    Gen.FnFilterC04.PolicyFilter.filter ⟨[]⟩ tag = .ok .Error :=
  C04_fn_policy_filter [] tag

/-- rules that do not match `policy-commitment` leave the equality test of the raw entry point an error — in
    particular exact rules for *other* tags (`policy-commitment-fee-range`, …), whatever their action -/
theorem C04_fn_policy_filter_unmatched (rules : List Bolt3.FRule) (tag : String)
    (h : ∀ r ∈ rules, r.matchesTag tag = false) : Bolt3.filterIsError rules tag = true := by
  induction rules with
  | nil => rfl
  | cons r rs ih =>
    have h1 := h r (List.mem_cons_self ..)
    simp only [Bolt3.filterIsError, h1, Bool.false_eq_true, if_false]
    exact ih (fun r' hr' => h r' (List.mem_cons_of_mem _ hr'))

theorem C04_fn_exact_rule_other_tag (r : Bolt3.FRule) (tag : String) (hp : r.isPrefix = false) (hne : tag ≠ r.tag) :
    r.matchesTag tag = false := by
  simp [Bolt3.FRule.matchesTag, hp, hne]

/-! ## Round 9: the commitment builders and the raw entry point of `channel.rs`, translated with declared externals

`Gen/FnChannelCommit.lean` (targets `translate/fn_targets/ChannelCommit.b04.json`) holds the bodies of
`ChannelSetup::features`, `Channel::make_channel_parameters`, `make_tx_keys`, `make_counterparty_tx_keys`,
`make_counterparty_commitment_tx(_with_keys)`, `build_counterparty_commitment_info` and
`sign_counterparty_commitment_tx` (phase 1), regenerated from the current source on every run.  LDK, the validator,
the node state and secp are *declared externals* (explicit function parameters); the theorems below quantify over
**all** of them, so they state what the VLS code itself decides: which parameters, keys, balances and HTLCs go into
the transaction that is built, and that the signature returned by the raw entry point is the signature of that
recomposed transaction and of nothing the caller supplied. -/

section Commit
open Gen.FnChannelCommit

/-- the source's `CommitmentType` (as regenerated in this area) ↦ the model's `CType` -/
def toCType : CommitmentType → Bolt3.CType
  | .Legacy => .legacy | .StaticRemoteKey => .staticRemoteKey | .Anchors => .anchors | .AnchorsZeroFeeHtlc => .anchorsZeroFee

/-- `ChannelTypeFeatures::empty()` in the three-bit view -/
def featuresEmpty : ChannelTypeFeatures := ⟨false, false, false⟩

variable {InMemorySigner Txid DelayedPaymentBasepoint HtlcBasepoint RevocationBasepoint PublicKey Secp256k1
  EnforcementState ChannelId Transaction PaymentHash Signature Validator Node NodeState BalanceDelta PaymentSummary ChainState
  TxCreationKeys DirectedChannelTransactionParameters CommitmentTransaction ScriptBuf SecretKey : Type}

/-- `ChannelSetup::features` (current source): static_remote_key always; the zero-fee bit exactly for
    `AnchorsZeroFeeHtlc`, the non-zero-fee bit exactly for `Anchors` — never both (seed C04-r3-1 set both). -/
theorem C04_fn_features (s : ChannelSetup Txid DelayedPaymentBasepoint HtlcBasepoint RevocationBasepoint PublicKey) :
    ChannelSetup.features featuresEmpty s =
      .ok ⟨true, s.commitment_type == .AnchorsZeroFeeHtlc, s.commitment_type == .Anchors⟩ := by
  unfold ChannelSetup.features ChannelSetup.is_anchors ChannelSetup.is_zero_fee_htlc featuresEmpty
  cases s.commitment_type <;> rfl

/-- … and that is the model: LDK's builder looks at `supports_anchors_zero_fee_htlc_tx` (= `CType.isZeroFee`, the
    switch of `Bolt3.canon`), the decoder at `is_anchors`; for the deprecated `Anchors` they differ (known finding). -/
theorem C04_fn_features_model (s : ChannelSetup Txid DelayedPaymentBasepoint HtlcBasepoint RevocationBasepoint PublicKey) :
    ∃ f, ChannelSetup.features featuresEmpty s = .ok f ∧
      f.anchors_zero_fee_htlc_tx = (toCType s.commitment_type).isZeroFee ∧
      (f.anchors_zero_fee_htlc_tx || f.anchors_nonzero_fee_htlc_tx) = (toCType s.commitment_type).isAnchors ∧
      f.static_remote_key = true := by
  refine ⟨_, C04_fn_features s, ?_, ?_, rfl⟩ <;> (cases s.commitment_type <;> rfl)

/-- `Channel::make_channel_parameters` (current source): which negotiated value goes where.  The *holder's* selected
    delay and keys stay the holder's, the counterparty's stay the counterparty's; the funding output index is the
    `vout` truncated to 16 bits; the features are those of `features()`. -/
theorem C04_fn_make_channel_parameters
    (pubkeys : InMemorySigner → ChannelPublicKeys DelayedPaymentBasepoint HtlcBasepoint RevocationBasepoint PublicKey)
    (self : Channel InMemorySigner Txid DelayedPaymentBasepoint HtlcBasepoint RevocationBasepoint PublicKey Secp256k1 EnforcementState ChannelId) :
    Channel.make_channel_parameters pubkeys featuresEmpty self = .ok
      { holder_pubkeys := pubkeys self.keys
        holder_selected_contest_delay := self.setup.holder_selected_contest_delay
        is_outbound_from_holder := self.setup.is_outbound
        counterparty_parameters := some { pubkeys := self.setup.counterparty_points,
                                          selected_contest_delay := self.setup.counterparty_selected_contest_delay }
        funding_outpoint := some { txid := self.setup.funding_outpoint.txid,
                                   index := self.setup.funding_outpoint.vout % 65536 }
        channel_type_features := ⟨true, self.setup.commitment_type == .AnchorsZeroFeeHtlc,
                                   self.setup.commitment_type == .Anchors⟩ } := by
  unfold Channel.make_channel_parameters
  rw [C04_fn_features]
  rfl

/-- `make_tx_keys`: `a` = broadcaster (delayed, htlc), `b` = countersignatory (revocation, htlc) -/
theorem C04_fn_make_tx_keys
    (derive : Secp256k1 → PublicKey → DelayedPaymentBasepoint → HtlcBasepoint → RevocationBasepoint → HtlcBasepoint → TxCreationKeys)
    (self : Channel InMemorySigner Txid DelayedPaymentBasepoint HtlcBasepoint RevocationBasepoint PublicKey Secp256k1 EnforcementState ChannelId)
    (pt : PublicKey) (a b : ChannelPublicKeys DelayedPaymentBasepoint HtlcBasepoint RevocationBasepoint PublicKey) :
    Channel.make_tx_keys derive self pt a b =
      derive self.secp_ctx pt a.delayed_payment_basepoint a.htlc_basepoint b.revocation_basepoint b.htlc_basepoint := rfl

/-- `make_counterparty_tx_keys`: the broadcaster of a counterparty commitment is the *counterparty*
    (its delayed and HTLC basepoints), the holder contributes revocation and HTLC basepoints; panics iff the
    signer has no counterparty keys (channel not readied). -/
theorem C04_fn_make_counterparty_tx_keys
    (pubkeys : InMemorySigner → ChannelPublicKeys DelayedPaymentBasepoint HtlcBasepoint RevocationBasepoint PublicKey)
    (cpkeys : InMemorySigner → Option (ChannelPublicKeys DelayedPaymentBasepoint HtlcBasepoint RevocationBasepoint PublicKey))
    (derive : Secp256k1 → PublicKey → DelayedPaymentBasepoint → HtlcBasepoint → RevocationBasepoint → HtlcBasepoint → TxCreationKeys)
    (self : Channel InMemorySigner Txid DelayedPaymentBasepoint HtlcBasepoint RevocationBasepoint PublicKey Secp256k1 EnforcementState ChannelId)
    (pt : PublicKey) :
    Channel.make_counterparty_tx_keys pubkeys cpkeys derive self pt =
      match cpkeys self.keys with
      | some cp => .ok (derive self.secp_ctx pt cp.delayed_payment_basepoint cp.htlc_basepoint
                          (pubkeys self.keys).revocation_basepoint (pubkeys self.keys).htlc_basepoint)
      | none => .error .panic := by
  unfold Channel.make_counterparty_tx_keys Channel.counterparty_pubkeys
  cases h : cpkeys self.keys <;> rfl

theorem bind_eq_ok {α β : Type} {x : Rs.M α} {f : α → Rs.M β} {b : β} (h : x >>= f = .ok b) :
    ∃ a, x = .ok a ∧ f a = .ok b := by
  cases x with
  | error e => cases h
  | ok a => exact ⟨a, rfl, h⟩

/-- `build_counterparty_commitment_info`: `CommitmentInfo2::new(true, to_holder, to_counterparty, …)` — the
    counterparty is the broadcaster, the holder's value is the *countersigner's*; HTLC lists and feerate pass through. -/
theorem C04_fn_build_counterparty_commitment_info
    (mk : Bool → Nat → Nat → List (HTLCInfo2 PaymentHash) → List (HTLCInfo2 PaymentHash) → Nat → CommitmentInfo2 PaymentHash)
    (self : Channel InMemorySigner Txid DelayedPaymentBasepoint HtlcBasepoint RevocationBasepoint PublicKey Secp256k1 EnforcementState ChannelId)
    (toHolder toCp : Nat) (off recv : List (HTLCInfo2 PaymentHash)) (feerate : Nat) :
    Channel.build_counterparty_commitment_info mk self toHolder toCp off recv feerate
      = .ok (mk true toHolder toCp off recv feerate) := rfl

/-- `make_counterparty_commitment_tx_with_keys` (current source): the one call of LDK's
    `CommitmentTransaction::new_with_auxiliary_htlc_data`, with
    * the backwards-counting number `INITIAL_COMMITMENT_NUMBER − n` (overflow-panic iff `n > 2^48 − 1`),
    * `to_broadcaster := to_counterparty`, `to_countersignatory := to_holder` (in this order),
    * broadcaster funding key = the counterparty's, countersignatory funding key = the holder's,
    * every HTLC handed in, in the order given, none dropped or added,
    * the parameters of `make_channel_parameters`, seen as the counterparty's broadcastable. -/
theorem C04_fn_make_counterparty_commitment_tx_with_keys
    (pubkeys : InMemorySigner → ChannelPublicKeys DelayedPaymentBasepoint HtlcBasepoint RevocationBasepoint PublicKey)
    (cpkeys : InMemorySigner → Option (ChannelPublicKeys DelayedPaymentBasepoint HtlcBasepoint RevocationBasepoint PublicKey))
    (asCp : ChannelTransactionParameters DelayedPaymentBasepoint HtlcBasepoint RevocationBasepoint PublicKey Txid → DirectedChannelTransactionParameters)
    (ldkNew : Nat → Nat → Nat → PublicKey → PublicKey → TxCreationKeys → Nat → List (HTLCOutputInCommitment PaymentHash × Unit) → DirectedChannelTransactionParameters → Rs.M CommitmentTransaction)
    (self : Channel InMemorySigner Txid DelayedPaymentBasepoint HtlcBasepoint RevocationBasepoint PublicKey Secp256k1 EnforcementState ChannelId)
    (keys : TxCreationKeys) (n feerate toHolder toCp : Nat) (htlcs : List (HTLCOutputInCommitment PaymentHash))
    (cp : ChannelPublicKeys DelayedPaymentBasepoint HtlcBasepoint RevocationBasepoint PublicKey)
    (hcp : cpkeys self.keys = some cp) (hn : n ≤ 281474976710655)
    (params : ChannelTransactionParameters DelayedPaymentBasepoint HtlcBasepoint RevocationBasepoint PublicKey Txid)
    (hparams : Channel.make_channel_parameters pubkeys featuresEmpty self = .ok params) :
    Channel.make_counterparty_commitment_tx_with_keys pubkeys featuresEmpty asCp cpkeys ldkNew self keys n feerate toHolder toCp htlcs
      = ldkNew (281474976710655 - n) toCp toHolder cp.funding_pubkey (pubkeys self.keys).funding_pubkey keys feerate
          (htlcs.map (fun h => (h, ()))) (asCp params) := by
  unfold Channel.make_counterparty_commitment_tx_with_keys Channel.counterparty_pubkeys
  rw [hparams]
  simp only [Rs.bind_ok, Rs.usub, hn, if_true, Rs.pure_eq, hcp, Rs.unwrap]

theorem C04_fn_make_counterparty_commitment_tx_with_keys_overflow
    (pubkeys : InMemorySigner → ChannelPublicKeys DelayedPaymentBasepoint HtlcBasepoint RevocationBasepoint PublicKey)
    (cpkeys : InMemorySigner → Option (ChannelPublicKeys DelayedPaymentBasepoint HtlcBasepoint RevocationBasepoint PublicKey))
    (asCp : ChannelTransactionParameters DelayedPaymentBasepoint HtlcBasepoint RevocationBasepoint PublicKey Txid → DirectedChannelTransactionParameters)
    (ldkNew : Nat → Nat → Nat → PublicKey → PublicKey → TxCreationKeys → Nat → List (HTLCOutputInCommitment PaymentHash × Unit) → DirectedChannelTransactionParameters → Rs.M CommitmentTransaction)
    (self : Channel InMemorySigner Txid DelayedPaymentBasepoint HtlcBasepoint RevocationBasepoint PublicKey Secp256k1 EnforcementState ChannelId)
    (keys : TxCreationKeys) (n feerate toHolder toCp : Nat) (htlcs : List (HTLCOutputInCommitment PaymentHash))
    (hn : ¬ n ≤ 281474976710655) :
    Channel.make_counterparty_commitment_tx_with_keys pubkeys featuresEmpty asCp cpkeys ldkNew self keys n feerate toHolder toCp htlcs
      = .error .overflow := by
  unfold Channel.make_counterparty_commitment_tx_with_keys
  rw [C04_fn_make_channel_parameters]
  simp only [Rs.bind_ok, Rs.usub, hn, if_false]
  rfl

/-- `make_counterparty_commitment_tx` = keys of the *request's* per-commitment point, then the builder above -/
theorem C04_fn_make_counterparty_commitment_tx
    (pubkeys : InMemorySigner → ChannelPublicKeys DelayedPaymentBasepoint HtlcBasepoint RevocationBasepoint PublicKey)
    (cpkeys : InMemorySigner → Option (ChannelPublicKeys DelayedPaymentBasepoint HtlcBasepoint RevocationBasepoint PublicKey))
    (derive : Secp256k1 → PublicKey → DelayedPaymentBasepoint → HtlcBasepoint → RevocationBasepoint → HtlcBasepoint → TxCreationKeys)
    (asCp : ChannelTransactionParameters DelayedPaymentBasepoint HtlcBasepoint RevocationBasepoint PublicKey Txid → DirectedChannelTransactionParameters)
    (ldkNew : Nat → Nat → Nat → PublicKey → PublicKey → TxCreationKeys → Nat → List (HTLCOutputInCommitment PaymentHash × Unit) → DirectedChannelTransactionParameters → Rs.M CommitmentTransaction)
    (self : Channel InMemorySigner Txid DelayedPaymentBasepoint HtlcBasepoint RevocationBasepoint PublicKey Secp256k1 EnforcementState ChannelId)
    (pt : PublicKey) (n feerate toHolder toCp : Nat) (htlcs : List (HTLCOutputInCommitment PaymentHash))
    (cp : ChannelPublicKeys DelayedPaymentBasepoint HtlcBasepoint RevocationBasepoint PublicKey)
    (hcp : cpkeys self.keys = some cp) (hn : n ≤ 281474976710655) :
    ∃ params, Channel.make_channel_parameters pubkeys featuresEmpty self = .ok params ∧
    Channel.make_counterparty_commitment_tx pubkeys cpkeys derive featuresEmpty asCp ldkNew self pt n feerate toHolder toCp htlcs
      = ldkNew (281474976710655 - n) toCp toHolder cp.funding_pubkey (pubkeys self.keys).funding_pubkey
          (derive self.secp_ctx pt cp.delayed_payment_basepoint cp.htlc_basepoint
              (pubkeys self.keys).revocation_basepoint (pubkeys self.keys).htlc_basepoint)
          feerate (htlcs.map (fun h => (h, ()))) (asCp params) := by
  refine ⟨_, C04_fn_make_channel_parameters pubkeys self, ?_⟩
  unfold Channel.make_counterparty_commitment_tx
  rw [C04_fn_make_counterparty_tx_keys, hcp]
  simp only [Rs.bind_ok]
  rw [C04_fn_make_counterparty_commitment_tx_with_keys pubkeys cpkeys asCp ldkNew self _ n feerate toHolder toCp htlcs cp hcp hn _
        (C04_fn_make_channel_parameters pubkeys self)]

/-! ### The raw entry point `Channel::sign_counterparty_commitment_tx` (phase 1), body from the current source -/

section Phase1
variable [DecidableEq Transaction]
  (txOutLen : Transaction → Nat) (validator : Validator)
  (validateChannelValue : Validator → ChannelSetup Txid DelayedPaymentBasepoint HtlcBasepoint RevocationBasepoint PublicKey → Rs.M Unit)
  (decode : Validator → InMemorySigner → ChannelSetup Txid DelayedPaymentBasepoint HtlcBasepoint RevocationBasepoint PublicKey → Bool → Transaction → List (List Nat) → Rs.M CommitmentInfo)
  (mkInfo2 : Bool → Nat → Nat → List (HTLCInfo2 PaymentHash) → List (HTLCInfo2 PaymentHash) → Nat → CommitmentInfo2 PaymentHash)
  (node : Node) (getState : Node → NodeState)
  (claimable : EnforcementState → NodeState → Option (CommitmentInfo2 PaymentHash) → Option (CommitmentInfo2 PaymentHash) → ChannelSetup Txid DelayedPaymentBasepoint HtlcBasepoint RevocationBasepoint PublicKey → Rs.M BalanceDelta)
  (incoming : EnforcementState → Option (CommitmentInfo2 PaymentHash) → Option (CommitmentInfo2 PaymentHash) → PaymentSummary)
  (chainState : ChainState)
  (validateCp : Validator → EnforcementState → Nat → PublicKey → ChannelSetup Txid DelayedPaymentBasepoint HtlcBasepoint RevocationBasepoint PublicKey → ChainState → CommitmentInfo2 PaymentHash → Rs.M Unit)
  (pubkeys : InMemorySigner → ChannelPublicKeys DelayedPaymentBasepoint HtlcBasepoint RevocationBasepoint PublicKey)
  (cpkeys : InMemorySigner → Option (ChannelPublicKeys DelayedPaymentBasepoint HtlcBasepoint RevocationBasepoint PublicKey))
  (derive : Secp256k1 → PublicKey → DelayedPaymentBasepoint → HtlcBasepoint → RevocationBasepoint → HtlcBasepoint → TxCreationKeys)
  (asCp : ChannelTransactionParameters DelayedPaymentBasepoint HtlcBasepoint RevocationBasepoint PublicKey Txid → DirectedChannelTransactionParameters)
  (ldkNew : Nat → Nat → Nat → PublicKey → PublicKey → TxCreationKeys → Nat → List (HTLCOutputInCommitment PaymentHash × Unit) → DirectedChannelTransactionParameters → Rs.M CommitmentTransaction)
  (builtTx : CommitmentTransaction → Transaction)
  (filterErr : String → Bool)
  (numOf : CommitmentTransaction → Nat) (pointOf : CommitmentTransaction → PublicKey)
  (redeem : PublicKey → PublicKey → ScriptBuf) (fundingKey : InMemorySigner → SecretKey)
  (sign : CommitmentTransaction → SecretKey → ScriptBuf → Nat → Rs.M Signature)
  (outgoing : EnforcementState → Option (CommitmentInfo2 PaymentHash) → Option (CommitmentInfo2 PaymentHash) → PaymentSummary)
  (validatePayments : NodeState → ChannelId → PaymentSummary → PaymentSummary → BalanceDelta → Validator → Rs.M Unit)
  (setNext : Validator → EnforcementState → Nat → PublicKey → CommitmentInfo2 PaymentHash → Rs.M EnforcementState)
  (persist : Rs.M Unit)

/-- the generated phase 1 with the externals of this section -/
abbrev phase1Gen
    (self : Channel InMemorySigner Txid DelayedPaymentBasepoint HtlcBasepoint RevocationBasepoint PublicKey Secp256k1 EnforcementState ChannelId)
    (tx : Transaction) (ws : List (List Nat)) (pt : PublicKey) (n feerate : Nat)
    (off recv : List (HTLCInfo2 PaymentHash)) :=
  Channel.sign_counterparty_commitment_tx txOutLen validator validateChannelValue decode mkInfo2 node getState claimable incoming
    chainState validateCp pubkeys cpkeys derive featuresEmpty asCp ldkNew builtTx filterErr numOf pointOf redeem fundingKey sign
    outgoing validatePayments setNext persist self tx ws pt n feerate off recv

/-- **What the raw entry point signs** (proved on the body regenerated from `channel.rs`, for every validator,
    LDK, node state and secp behind the declared externals).  If `sign_counterparty_commitment_tx` returns a
    signature, then
    * the supplied transaction was decoded (`info`) and only its two *balances* are taken from it; HTLCs and feerate
      come from the request's arguments; the content `info2` is `CommitmentInfo2::new(true, …)` of these;
    * that very content passed `validate_counterparty_commitment_tx` for the request's number and point;
    * `rtx` is `make_counterparty_commitment_tx` of the **content** (countersigner value as `to_holder`, broadcaster value
      as `to_counterparty`, the HTLCs of `htlcs_info2_to_oic info2`) — by the theorems above: of the channel's own
      parameters, keys and funding outpoint;
    * the signature is LDK's `sign_counterparty_commitment` of `rtx` under the channel's **own funding key**, the
      2-of-2 redeem script of the two funding keys and the negotiated channel value: the supplied `tx` does not occur;
    * if the policy filter keeps `policy-commitment` an error, the supplied transaction **equals** the built one;
    * the new enforcement state is `set_next_counterparty_commit_num(INITIAL − number_of(rtx) + 1, point_of(rtx), info2)`. -/
theorem C04_fn_phase1_signs_recomposed
    (self self' : Channel InMemorySigner Txid DelayedPaymentBasepoint HtlcBasepoint RevocationBasepoint PublicKey Secp256k1 EnforcementState ChannelId)
    (tx : Transaction) (ws : List (List Nat)) (pt : PublicKey) (n feerate : Nat)
    (off recv : List (HTLCInfo2 PaymentHash)) (sig : Signature)
    (h : phase1Gen txOutLen validator validateChannelValue decode mkInfo2 node getState claimable incoming chainState validateCp
           pubkeys cpkeys derive asCp ldkNew builtTx filterErr numOf pointOf redeem fundingKey sign outgoing
           validatePayments setNext persist self tx ws pt n feerate off recv = .ok (self', sig)) :
    ∃ info htlcs rtx es',
      txOutLen tx = ws.length ∧
      decode validator self.keys self.setup true tx ws = .ok info ∧
      let info2 := mkInfo2 true info.to_countersigner_value_sat info.to_broadcaster_value_sat off recv feerate
      validateCp validator self.enforcement_state n pt self.setup chainState info2 = .ok () ∧
      Channel.htlcs_info2_to_oic info2.offered_htlcs info2.received_htlcs = .ok htlcs ∧
      Channel.make_counterparty_commitment_tx pubkeys cpkeys derive featuresEmpty asCp ldkNew self pt n feerate
          info2.to_countersigner_value_sat info2.to_broadcaster_value_sat htlcs = .ok rtx ∧
      sign rtx (fundingKey self.keys)
          (redeem (pubkeys self.keys).funding_pubkey self.setup.counterparty_points.funding_pubkey)
          self.setup.channel_value_sat = .ok sig ∧
      (filterErr "policy-commitment" = true → builtTx rtx = tx) ∧
      numOf rtx ≤ 281474976710655 ∧
      setNext validator self.enforcement_state (281474976710655 - numOf rtx + 1) (pointOf rtx) info2 = .ok es' ∧
      self' = { self with enforcement_state := es' } := by
  unfold phase1Gen Channel.sign_counterparty_commitment_tx at h
  split at h
  · cases h
  · rename_i hlen
    obtain ⟨_, _, h⟩ := bind_eq_ok h
    obtain ⟨info, hinfo, h⟩ := bind_eq_ok h
    obtain ⟨info2, hinfo2, h⟩ := bind_eq_ok h
    cases hinfo2
    obtain ⟨delta, _, h⟩ := bind_eq_ok h
    obtain ⟨u, hval, h⟩ := bind_eq_ok h
    obtain ⟨htlcs, hoic, h⟩ := bind_eq_ok h
    obtain ⟨rtx, hrtx, h⟩ := bind_eq_ok h
    by_cases hb : (builtTx rtx != tx) = true
    case' pos =>
      simp only [hb, ↓reduceIte] at h
      obtain ⟨_, hpe, h⟩ := bind_eq_ok h
      have himp : filterErr "policy-commitment" = true → builtTx rtx = tx := by
        intro hf; simp [Rs.policyErr, hf, Rs.fail] at hpe
    case' neg =>
      simp only [hb, ↓reduceIte] at h
      have himp : filterErr "policy-commitment" = true → builtTx rtx = tx := fun _ => by simpa using hb
    all_goals
      obtain ⟨cn, hcn, h⟩ := bind_eq_ok h
      obtain ⟨sg, hsig, h⟩ := bind_eq_ok h
      obtain ⟨_, _, h⟩ := bind_eq_ok h
      obtain ⟨cn1, hcn1, h⟩ := bind_eq_ok h
      obtain ⟨es', hes, h⟩ := bind_eq_ok h
      obtain ⟨_, _, h⟩ := bind_eq_ok h
      have hle : numOf rtx ≤ 281474976710655 := by
        unfold Rs.usub at hcn; split at hcn
        · assumption
        · cases hcn
      have hcnv : cn = 281474976710655 - numOf rtx := by
        unfold Rs.usub at hcn; rw [if_pos hle] at hcn; cases hcn; rfl
      have hcn1v : cn1 = cn + 1 := by
        unfold Rs.uadd at hcn1; split at hcn1
        · cases hcn1; rfl
        · cases hcn1
      cases h
      refine ⟨info, htlcs, rtx, es', ?_, hinfo, ?_, hoic, hrtx, hsig, himp, hle, ?_, rfl⟩
      · simpa using hlen
      · cases u; exact hval
      · rw [← hcnv, ← hcn1v]; exact hes

/-! Non-vacuity of `C04_fn_phase1_signs_recomposed`: a toy instance of the externals (every opaque type `Nat`, a
    "commitment transaction" = the list of its output values, LDK's builder = `[to_broadcaster, to_countersignatory] ++
    HTLC amounts`) on which the regenerated phase 1 accepts the canonical transaction and — under a strict filter —
    refuses the same transaction with one output value changed. -/
section NonVacuity
private def toyChan : Channel Nat Nat Nat Nat Nat Nat Nat Nat Nat :=
  { secp_ctx := 0, keys := 5, enforcement_state := 0, id0 := 0,
    setup := { is_outbound := true, channel_value_sat := 1000, funding_outpoint := ⟨7, 65537⟩,
               holder_selected_contest_delay := 6, counterparty_points := ⟨1, 2, 3, 4⟩,
               counterparty_selected_contest_delay := 7, commitment_type := .AnchorsZeroFeeHtlc } }

private def toyPhase1 (strict : Bool) (tx : List Nat) :=
  phase1Gen (Validator := Nat) (Node := Nat) (NodeState := Nat) (BalanceDelta := Nat) (PaymentSummary := Nat)
    (ChainState := Nat) (TxCreationKeys := Nat) (DirectedChannelTransactionParameters := Nat)
    (CommitmentTransaction := List Nat) (Transaction := List Nat) (ScriptBuf := Nat) (SecretKey := Nat) (Signature := Nat) (PaymentHash := Nat)
    List.length 0 (fun _ _ => .ok ()) (fun _ _ _ _ _ _ => .ok ⟨10, 20⟩) (fun _ a b o r _ => ⟨a, b, o, r⟩) 0 id
    (fun _ _ _ _ _ => .ok 0) (fun _ _ _ => 0) 0 (fun _ _ _ _ _ _ _ => .ok ())
    (fun k => ⟨k, k + 1, k + 2, k + 3⟩) (fun _ => some ⟨1, 2, 3, 4⟩) (fun _ pt a b c d => pt + a + b + c + d) (fun _ => 0)
    (fun _ tb tc _ _ _ _ hs _ => .ok ([tb, tc] ++ hs.map (·.1.amount_msat))) id (fun _ => strict)
    (fun _ => 281474976710655 - 42) (fun _ => 9) (fun a b => a + b) (fun k => k + 100)
    (fun rtx k sc v => .ok (rtx.sum + k + sc + v)) (fun _ _ _ => 0) (fun _ _ _ _ _ _ => .ok ())
    (fun _ _ n _ _ => .ok n) (.ok ()) toyChan tx [[], [], []] 9 42 253 [⟨3, 7, 9⟩] []

example : (toyPhase1 true [20, 10, 3000]).toOption.map (fun r => (r.1.enforcement_state, r.2)) = some (43, 4141) := by decide
example : toyPhase1 true [20, 10, 3001] = .error (.err "policy-commitment") := rfl
/-- with the tag demoted the mutated transaction is let through — and the signature is the *same* one, over the
    recomposed transaction (4141), not over what the caller supplied -/
example : (toyPhase1 false [20, 10, 3001]).toOption.map (·.2) = some 4141 := by decide

end NonVacuity

/-- **End to end, on the regenerated bodies**: what reaches LDK's builder when the raw entry point returns a signature.
    For a readied channel (`counterparty_pubkeys = Some cp`) and `n ≤ 2^48 − 1` the signed `rtx` is the result of the single call
    `CommitmentTransaction::new_with_auxiliary_htlc_data(INITIAL − n, to_broadcaster = decoded broadcaster value,
    to_countersignatory = decoded countersigner value, counterparty funding key, own funding key,
    TxCreationKeys::derive_new(request's point, counterparty delayed/HTLC basepoints, own revocation/HTLC basepoints), feerate of the
    request, the HTLCs of the validated content (offered first, `amount_msat = value_sat * 1000`), the channel parameters of
    `make_channel_parameters` as the counterparty's broadcastable)` — negotiated parameters, funding outpoint and validated content,
    nothing else. -/
theorem C04_fn_phase1_ldk_call
    (self self' : Channel InMemorySigner Txid DelayedPaymentBasepoint HtlcBasepoint RevocationBasepoint PublicKey Secp256k1 EnforcementState ChannelId)
    (tx : Transaction) (ws : List (List Nat)) (pt : PublicKey) (n feerate : Nat)
    (off recv : List (HTLCInfo2 PaymentHash)) (sig : Signature)
    (cp : ChannelPublicKeys DelayedPaymentBasepoint HtlcBasepoint RevocationBasepoint PublicKey)
    (hcp : cpkeys self.keys = some cp) (hn : n ≤ 281474976710655)
    (h : phase1Gen txOutLen validator validateChannelValue decode mkInfo2 node getState claimable incoming chainState validateCp
           pubkeys cpkeys derive asCp ldkNew builtTx filterErr numOf pointOf redeem fundingKey sign outgoing
           validatePayments setNext persist self tx ws pt n feerate off recv = .ok (self', sig)) :
    ∃ info htlcs rtx params,
      decode validator self.keys self.setup true tx ws = .ok info ∧
      let info2 := mkInfo2 true info.to_countersigner_value_sat info.to_broadcaster_value_sat off recv feerate
      Channel.htlcs_info2_to_oic info2.offered_htlcs info2.received_htlcs = .ok htlcs ∧
      Channel.make_channel_parameters pubkeys featuresEmpty self = .ok params ∧
      ldkNew (281474976710655 - n) info2.to_broadcaster_value_sat info2.to_countersigner_value_sat
          cp.funding_pubkey (pubkeys self.keys).funding_pubkey
          (derive self.secp_ctx pt cp.delayed_payment_basepoint cp.htlc_basepoint
              (pubkeys self.keys).revocation_basepoint (pubkeys self.keys).htlc_basepoint)
          feerate (htlcs.map (fun h => (h, ()))) (asCp params) = .ok rtx ∧
      sign rtx (fundingKey self.keys)
          (redeem (pubkeys self.keys).funding_pubkey self.setup.counterparty_points.funding_pubkey)
          self.setup.channel_value_sat = .ok sig ∧
      (filterErr "policy-commitment" = true → builtTx rtx = tx) := by
  obtain ⟨info, htlcs, rtx, es', _, hinfo, _, hoic, hrtx, hsig, himp, _, _, _⟩ :=
    C04_fn_phase1_signs_recomposed txOutLen validator validateChannelValue decode mkInfo2 node getState claimable incoming chainState
      validateCp pubkeys cpkeys derive asCp ldkNew builtTx filterErr numOf pointOf redeem fundingKey sign outgoing validatePayments
      setNext persist self self' tx ws pt n feerate off recv sig h
  obtain ⟨params, hparams, hcall⟩ :=
    C04_fn_make_counterparty_commitment_tx pubkeys cpkeys derive asCp ldkNew self pt n feerate
      (mkInfo2 true info.to_countersigner_value_sat info.to_broadcaster_value_sat off recv feerate).to_countersigner_value_sat
      (mkInfo2 true info.to_countersigner_value_sat info.to_broadcaster_value_sat off recv feerate).to_broadcaster_value_sat
      htlcs cp hcp hn
  rw [hcall] at hrtx
  exact ⟨info, htlcs, rtx, params, hinfo, hoic, hparams, hrtx, hsig, himp⟩

/-! ### The semantic entry point `sign_counterparty_commitment_tx_phase2`, body from the current source -/

/-- the generated phase 2 with the externals of this section (`ldkSign` = LDK's
    `InMemorySigner::sign_counterparty_commitment`: commitment signature and HTLC signatures of the built transaction) -/
abbrev phase2Gen (ldkSign : InMemorySigner → CommitmentTransaction → Rs.M (Signature × List Signature))
    (self : Channel InMemorySigner Txid DelayedPaymentBasepoint HtlcBasepoint RevocationBasepoint PublicKey Secp256k1 EnforcementState ChannelId)
    (pt : PublicKey) (n feerate toHolder toCp : Nat) (off recv : List (HTLCInfo2 PaymentHash)) :=
  Channel.sign_counterparty_commitment_tx_phase2 validator validateChannelValue mkInfo2 node getState claimable incoming
    chainState validateCp pubkeys cpkeys derive featuresEmpty asCp ldkNew ldkSign outgoing validatePayments setNext persist
    self pt n feerate toHolder toCp off recv

/-- **What the semantic entry point signs.**  If phase 2 returns signatures then the content
    `CommitmentInfo2::new(true, to_holder, to_counterparty, offered, received, feerate)` passed
    `validate_counterparty_commitment_tx` for the request's number and point, and the signatures are LDK's for
    `make_counterparty_commitment_tx` of **exactly the request's values** — balances as given, every HTLC of the two
    argument lists (offered first), none trimmed, merged or added; the recorded state is `(n + 1, point, content)`. -/
theorem C04_fn_phase2_signs_built
    (ldkSign : InMemorySigner → CommitmentTransaction → Rs.M (Signature × List Signature))
    (self self' : Channel InMemorySigner Txid DelayedPaymentBasepoint HtlcBasepoint RevocationBasepoint PublicKey Secp256k1 EnforcementState ChannelId)
    (pt : PublicKey) (n feerate toHolder toCp : Nat) (off recv : List (HTLCInfo2 PaymentHash))
    (sig : Signature) (hsigs : List Signature)
    (h : phase2Gen validator validateChannelValue mkInfo2 node getState claimable incoming chainState validateCp
           pubkeys cpkeys derive asCp ldkNew outgoing validatePayments setNext persist ldkSign
           self pt n feerate toHolder toCp off recv = .ok (self', (sig, hsigs))) :
    ∃ htlcs rtx es',
      let info2 := mkInfo2 true toHolder toCp off recv feerate
      validateCp validator self.enforcement_state n pt self.setup chainState info2 = .ok () ∧
      Channel.htlcs_info2_to_oic off recv = .ok htlcs ∧
      Channel.make_counterparty_commitment_tx pubkeys cpkeys derive featuresEmpty asCp ldkNew self pt n feerate
          toHolder toCp htlcs = .ok rtx ∧
      ldkSign self.keys rtx = .ok (sig, hsigs) ∧
      setNext validator self.enforcement_state (n + 1) pt info2 = .ok es' ∧
      self' = { self with enforcement_state := es' } := by
  unfold phase2Gen Channel.sign_counterparty_commitment_tx_phase2 at h
  obtain ⟨_, _, h⟩ := bind_eq_ok h
  obtain ⟨info2, hinfo2, h⟩ := bind_eq_ok h
  cases hinfo2
  obtain ⟨delta, _, h⟩ := bind_eq_ok h
  obtain ⟨u, hval, h⟩ := bind_eq_ok h
  obtain ⟨htlcs, hoic, h⟩ := bind_eq_ok h
  obtain ⟨rtx, hrtx, h⟩ := bind_eq_ok h
  obtain ⟨⟨sg, hs⟩, hsig, h⟩ := bind_eq_ok h
  obtain ⟨_, _, h⟩ := bind_eq_ok h
  obtain ⟨n1, hn1, h⟩ := bind_eq_ok h
  obtain ⟨es', hes, h⟩ := bind_eq_ok h
  obtain ⟨_, _, h⟩ := bind_eq_ok h
  have hn1v : n1 = n + 1 := by
    unfold Rs.uadd at hn1; split at hn1
    · cases hn1; rfl
    · cases hn1
  cases h
  refine ⟨htlcs, rtx, es', ?_, hoic, hrtx, hsig, ?_, rfl⟩
  · cases u; exact hval
  · rw [← hn1v]; exact hes

/-- end to end for the semantic entry point: the one call of LDK's builder behind the signatures of phase 2 — the request's
    own balances (`to_broadcaster = to_counterparty`, `to_countersignatory = to_holder`), the request's HTLC lists as given
    (offered first), its feerate, number and point, the channel's negotiated parameters -/
theorem C04_fn_phase2_ldk_call
    (ldkSign : InMemorySigner → CommitmentTransaction → Rs.M (Signature × List Signature))
    (self self' : Channel InMemorySigner Txid DelayedPaymentBasepoint HtlcBasepoint RevocationBasepoint PublicKey Secp256k1 EnforcementState ChannelId)
    (pt : PublicKey) (n feerate toHolder toCp : Nat) (off recv : List (HTLCInfo2 PaymentHash))
    (sig : Signature) (hsigs : List Signature)
    (cp : ChannelPublicKeys DelayedPaymentBasepoint HtlcBasepoint RevocationBasepoint PublicKey)
    (hcp : cpkeys self.keys = some cp) (hn : n ≤ 281474976710655)
    (h : phase2Gen validator validateChannelValue mkInfo2 node getState claimable incoming chainState validateCp
           pubkeys cpkeys derive asCp ldkNew outgoing validatePayments setNext persist ldkSign
           self pt n feerate toHolder toCp off recv = .ok (self', (sig, hsigs))) :
    ∃ htlcs rtx params,
      Channel.htlcs_info2_to_oic off recv = .ok htlcs ∧
      Channel.make_channel_parameters pubkeys featuresEmpty self = .ok params ∧
      ldkNew (281474976710655 - n) toCp toHolder cp.funding_pubkey (pubkeys self.keys).funding_pubkey
          (derive self.secp_ctx pt cp.delayed_payment_basepoint cp.htlc_basepoint
              (pubkeys self.keys).revocation_basepoint (pubkeys self.keys).htlc_basepoint)
          feerate (htlcs.map (fun h => (h, ()))) (asCp params) = .ok rtx ∧
      ldkSign self.keys rtx = .ok (sig, hsigs) := by
  obtain ⟨htlcs, rtx, es', _, hoic, hrtx, hsig, _, _⟩ :=
    C04_fn_phase2_signs_built validator validateChannelValue mkInfo2 node getState claimable incoming chainState validateCp
      pubkeys cpkeys derive asCp ldkNew outgoing validatePayments setNext persist ldkSign self self' pt n feerate toHolder toCp
      off recv sig hsigs h
  obtain ⟨params, hparams, hcall⟩ :=
    C04_fn_make_counterparty_commitment_tx pubkeys cpkeys derive asCp ldkNew self pt n feerate toHolder toCp htlcs cp hcp hn
  rw [hcall] at hrtx
  exact ⟨htlcs, rtx, params, hoic, hparams, hrtx, hsig⟩

/-- **Both entry points build the same transaction for the same content** (generated bodies, all externals).
    Phase 2 accepted `(toHolder, toCp, off, recv)`.  If the raw entry point, given *any* transaction that decodes
    to these two balances, gets as far as building, it builds with the request's own number, point and feerate the
    transaction of `oic(sorted lists)` where phase 2 built that of `oic(lists as given)`: the two coincide exactly when
    LDK's builder does not depend on the order of the HTLC arguments — which is `Bolt3.canon_congr`
    (`C04_phase_agree`) in the model.  Here: when `CommitmentInfo2::new` leaves the lists as they are (already sorted
    arguments), the two built transactions are *equal*. -/
theorem C04_fn_phases_build_same
    (self : Channel InMemorySigner Txid DelayedPaymentBasepoint HtlcBasepoint RevocationBasepoint PublicKey Secp256k1 EnforcementState ChannelId)
    (pt : PublicKey) (n feerate toHolder toCp : Nat) (off recv : List (HTLCInfo2 PaymentHash))
    (hsorted : (mkInfo2 true toHolder toCp off recv feerate).offered_htlcs = off ∧
               (mkInfo2 true toHolder toCp off recv feerate).received_htlcs = recv)
    (hbal : (mkInfo2 true toHolder toCp off recv feerate).to_countersigner_value_sat = toHolder ∧
            (mkInfo2 true toHolder toCp off recv feerate).to_broadcaster_value_sat = toCp) :
    let info2 := mkInfo2 true toHolder toCp off recv feerate
    (Channel.htlcs_info2_to_oic info2.offered_htlcs info2.received_htlcs >>= fun htlcs =>
      Channel.make_counterparty_commitment_tx pubkeys cpkeys derive featuresEmpty asCp ldkNew self pt n feerate
        info2.to_countersigner_value_sat info2.to_broadcaster_value_sat htlcs)
    = (Channel.htlcs_info2_to_oic off recv >>= fun htlcs =>
      Channel.make_counterparty_commitment_tx pubkeys cpkeys derive featuresEmpty asCp ldkNew self pt n feerate
        toHolder toCp htlcs) := by
  simp only [hsorted.1, hsorted.2, hbal.1, hbal.2]

/-! ### The raw second-stage entry point `sign_counterparty_htlc_tx` → `sign_htlc_tx`, bodies from the current source -/

section HtlcRaw
variable {EcdsaSighashType SegwitV0Sighash Message : Type}
  (decodeHtlc : Validator → Bool → ChannelSetup Txid DelayedPaymentBasepoint HtlcBasepoint RevocationBasepoint PublicKey →
      TxCreationKeys → Transaction → ScriptBuf → Nat → ScriptBuf →
      Rs.M (Nat × HTLCOutputInCommitment PaymentHash × SegwitV0Sighash × EcdsaSighashType))
  (validateHtlc : Validator → ChannelSetup Txid DelayedPaymentBasepoint HtlcBasepoint RevocationBasepoint PublicKey →
      ChainState → Bool → HTLCOutputInCommitment PaymentHash → Nat → Rs.M Unit)
  (htlcBaseKey : InMemorySigner → SecretKey) (derivePriv : Secp256k1 → PublicKey → SecretKey → SecretKey)
  (msgOf : SegwitV0Sighash → Message) (ecdsa : Secp256k1 → Message → SecretKey → Signature)

/-- **What the raw HTLC entry point signs** (generated bodies, all externals).  If `sign_counterparty_htlc_tx` returns
    a signature then the validator decoded the supplied second-stage transaction under the `TxCreationKeys` of the
    **request's** per-commitment point (counterparty = broadcaster) and handed back `(feerate, htlc, sighash, type)`;
    the signature is ECDSA over *that* sighash — the one `decode_and_validate_htlc_tx` recomposed (C09's
    `C09_fn_decode_and_validate_htlc_tx`), never one computed here from the supplied `tx` — under the channel's own HTLC
    base key tweaked by the **request's** point (nothing cached in the enforcement state: seed C04-r6-1), with the
    sighash type the validator returned. -/
theorem C04_fn_htlc_raw_key_and_sighash
    (self : Channel InMemorySigner Txid DelayedPaymentBasepoint HtlcBasepoint RevocationBasepoint PublicKey Secp256k1 EnforcementState ChannelId)
    (tx : Transaction) (pt : PublicKey) (redeemscript ws : ScriptBuf) (amount : Nat)
    (ts : TypedSignature Signature EcdsaSighashType)
    (h : Channel.sign_counterparty_htlc_tx pubkeys cpkeys derive validator decodeHtlc chainState validateHtlc htlcBaseKey
           derivePriv msgOf ecdsa self tx pt redeemscript amount ws = .ok ts) :
    ∃ cp feerate htlc sighash ty,
      cpkeys self.keys = some cp ∧
      decodeHtlc validator true self.setup
          (derive self.secp_ctx pt cp.delayed_payment_basepoint cp.htlc_basepoint
              (pubkeys self.keys).revocation_basepoint (pubkeys self.keys).htlc_basepoint)
          tx redeemscript amount ws = .ok (feerate, htlc, sighash, ty) ∧
      validateHtlc validator self.setup chainState true htlc feerate = .ok () ∧
      ts = { sig := ecdsa self.secp_ctx (msgOf sighash) (derivePriv self.secp_ctx pt (htlcBaseKey self.keys)), typ := ty } := by
  unfold Channel.sign_counterparty_htlc_tx at h
  rw [C04_fn_make_counterparty_tx_keys] at h
  cases hcp : cpkeys self.keys with
  | none => rw [hcp] at h; cases h
  | some cp =>
    rw [hcp] at h
    simp only [Rs.bind_ok] at h
    unfold Channel.sign_htlc_tx at h
    obtain ⟨⟨feerate, htlc, sighash, ty⟩, hdec, h⟩ := bind_eq_ok h
    obtain ⟨u, hval, h⟩ := bind_eq_ok h
    cases h
    exact ⟨cp, feerate, htlc, sighash, ty, rfl, hdec, by cases u; exact hval, rfl⟩

end HtlcRaw

end Phase1

end Commit

/-! ## Round 9: `SimpleValidator::decode_commitment_tx` (the loop around `handle_output`), body from the current source -/

section Decode

theorem foldlM_range_zip_aux {σ α β : Type} (f : σ → α → β → Rs.M σ) :
    ∀ (xs : List α) (ys : List β) (px : List α) (py : List β) (s : σ),
      xs.length = ys.length → px.length = py.length →
      List.foldlM (fun s i => do
          let x ← Rs.index (px ++ xs) i
          let y ← Rs.index (py ++ ys) i
          f s x y) s (List.range' px.length xs.length)
      = List.foldlM (fun s (p : α × β) => f s p.1 p.2) s (xs.zip ys) := by
  intro xs
  induction xs with
  | nil => intro ys px py s h _; cases ys <;> simp_all
  | cons x xs ih =>
    intro ys px py s h hp
    cases ys with
    | nil => simp at h
    | cons y ys =>
      have hx : Rs.index (px ++ x :: xs) px.length = .ok x := by simp [Rs.index]
      have hy : Rs.index (py ++ y :: ys) px.length = .ok y := by simp [Rs.index, hp]
      simp only [List.length_cons, List.range'_succ, List.foldlM_cons, List.zip_cons_cons, hx, hy, Rs.bind_ok]
      congr 1
      funext s'
      have h' : xs.length = ys.length := by simpa using h
      have := ih ys (px ++ [x]) (py ++ [y]) s' h' (by simp [hp])
      simpa [List.append_assoc] using this

theorem bind_ok_id {α : Type} (x : Rs.M α) : (x >>= fun t => (Except.ok t : Rs.M α)) = x := by
  cases x <;> rfl

/-- a loop `for i in 0..xs.len() { s = f(s, xs[i], ys[i])? }` over two equally long vectors is the fold over their zip -/
theorem foldlM_range_zip {σ α β : Type} (f : σ → α → β → Rs.M σ) (xs : List α) (ys : List β) (s : σ)
    (h : xs.length = ys.length) :
    List.foldlM (fun s i => do
        let x ← Rs.index xs i
        let y ← Rs.index ys i
        f s x y) s (Rs.range 0 xs.length)
    = List.foldlM (fun s (p : α × β) => f s p.1 p.2) s (xs.zip ys) := by
  have := foldlM_range_zip_aux f xs ys [] [] s h rfl
  simpa [Rs.range] using this

open Gen.FnSimpleDecode in
/-- `decode_commitment_tx` (current source): the version test — `policy-commitment-version`, the one *filterable*
    check of the decoder — then the outputs **in order, output `i` with witness script `i`**, folded through
    `handle_output` from `CommitmentInfo::new(is_counterparty)`; nothing else is read from the transaction (inputs,
    locktime, sequence are left to the equality test of the caller).  This is the shape of `Bolt3.decode`
    (`version = 2`, then `decodeOuts` over the zipped outputs); `handle_output` itself is tied by `C04_gen_classify`. -/
theorem C04_fn_decode_commitment_tx {InMemorySigner ChannelSetup TxOut CommitmentInfo : Type}
    (filterErr : String → Bool) (mk : Bool → CommitmentInfo)
    (handle : CommitmentInfo → InMemorySigner → ChannelSetup → TxOut → List Nat → Rs.M CommitmentInfo)
    (v : SimpleValidator) (keys : InMemorySigner) (setup : ChannelSetup) (isCp : Bool)
    (tx : Transaction TxOut) (ws : List (List Nat)) (hlen : tx.output.length = ws.length) :
    SimpleValidator.decode_commitment_tx filterErr mk handle v keys setup isCp tx ws =
      if tx.version ≠ 2 ∧ filterErr "policy-commitment-version" = true then .error (.err "policy-commitment-version")
      else List.foldlM (fun info (p : TxOut × List Nat) => handle info keys setup p.1 p.2) (mk isCp) (tx.output.zip ws) := by
  unfold SimpleValidator.decode_commitment_tx
  have hfold := foldlM_range_zip (fun info o w => handle info keys setup o w) tx.output ws (mk isCp) hlen
  by_cases hv : tx.version = 2
  · simp only [hv, bne_self_eq_false, Bool.false_eq_true, if_false, Rs.bind_ok, Rs.pure_eq, ne_eq, not_true_eq_false, false_and]
    rw [← hfold]
    simp only [bind_ok_id]
  · have hb : (tx.version != (2 : Int)) = true := by simpa using hv
    by_cases hf : filterErr "policy-commitment-version" = true
    · simp [hb, hf, hv, Rs.policyErr, Rs.fail]
    · simp only [hb, if_true, Rs.policyErr, hf, Bool.false_eq_true, if_false, Rs.bind_ok, Rs.pure_eq, ne_eq, hv, not_false_eq_true, and_false]
      rw [← hfold]
      simp only [bind_ok_id]

/-- a missing witness script is a panic (`output_witscripts[ind]`), not a refusal — the callers test the lengths first
    (`len(tx.output) != len(witscripts)` in `C04_fn_phase1_signs_recomposed`) -/
example : Gen.FnSimpleDecode.SimpleValidator.decode_commitment_tx (fun _ => true) (fun _ => (0 : Nat))
    (fun i (_ _ : Unit) (o : Nat) w => .ok (i + o + w.length)) ⟨⟩ () () true ⟨2, [5, 7]⟩ [[1]] = .error .panic := rfl
example : Gen.FnSimpleDecode.SimpleValidator.decode_commitment_tx (fun _ => true) (fun _ => (0 : Nat))
    (fun i (_ _ : Unit) (o : Nat) w => .ok (i + o + w.length)) ⟨⟩ () () true ⟨2, [5, 7]⟩ [[1], [1, 1]] = .ok 15 := rfl

end Decode

/-! ## Round 9: `CommitmentInfo2::new` (tx.rs), body from the current source; `Vec::sort` is the declared external -/

section Info2
open Gen.FnTxInfo2

/-- `CommitmentInfo2::new` (current source): both HTLC lists go through the *same* sort, each into its own field;
    the broadcaster flag, the two balances and the feerate are stored as given. -/
theorem C04_fn_commitment_info2_new (sort : List HTLCInfo2 → List HTLCInfo2) (isCp : Bool) (toCs toBc : Nat)
    (off recv : List HTLCInfo2) (feerate : Nat) :
    CommitmentInfo2.new sort isCp toCs toBc off recv feerate = ⟨isCp, toCs, toBc, sort off, sort recv, feerate⟩ := rfl

/-- … which is the model's `Info2.mk'` (`isort Htlc.le` on both lists) for every reading `abs` of the source's HTLC
    values as model HTLCs under which the source's sort is the model's (`Htlc.le` = `impl Ord for HTLCInfo2`:
    `C04_gen_htlc_order`; the algorithm does not matter: `isort_eq_of_perm`).  (No translated function of `tx.rs` reads the
    three fields of `HTLCInfo2` — `cmp` is outside the subset — so the generated `HTLCInfo2` carries no field and the
    element reading stays a parameter.) -/
theorem C04_fn_commitment_info2_new_model (sort : List HTLCInfo2 → List HTLCInfo2) (abs : List HTLCInfo2 → List Bolt3.Htlc)
    (habs : ∀ l, abs (sort l) = Bolt3.isort Bolt3.Htlc.le (abs l))
    (toCs toBc : Nat) (off recv : List HTLCInfo2) (feerate : Nat) :
    let g := CommitmentInfo2.new sort true toCs toBc off recv feerate
    (⟨g.to_countersigner_value_sat, g.to_broadcaster_value_sat, abs g.offered_htlcs, abs g.received_htlcs, g.feerate_per_kw⟩ : Bolt3.Info2)
      = Bolt3.Info2.mk' toCs toBc (abs off) (abs recv) feerate := by
  simp only [C04_fn_commitment_info2_new, habs, Bolt3.Info2.mk']

end Info2

/-! ## Round 9: the five `handle_*_output` functions of `tx.rs` (what happens after a script template matched), bodies
    from the current source, proved equal to the model's `handleParsed` followed by `Info.apply`

`Gen/FnTxInfo.lean` now also holds `handle_to_broadcaster_output`, `handle_to_countersigner_delayed_output`,
`handle_received_htlc_output`, `handle_offered_htlc_output`, `handle_anchor_output`.  Externals: `PublicKey::from_slice`
(`pk`), the two funding keys of the signer, the value of `ANCHOR_SAT` (instantiated with the extracted `Gen.Bolt3.anchorSat`).
Each theorem: *accepts or refuses exactly like the model, and the accumulator it returns abstracts (`absInfo`) to the
model's* — on **every** parsed tuple (negative / oversized delays, non-point keys, wrong hash width, wrong anchor value,
foreign anchor key, a second to_local / to_remote), not only on canonical scripts.  Model and code differ only where
the theorem says so: the anchor counters are `u16` (the 65536th anchor of one side is an overflow panic in the code). -/

section Handle
open Gen.FnTxInfo

def toN (b : List UInt8) : List Nat := b.map (·.toNat)

theorem C04_fn_handle_to_broadcaster_output {A P : Type} [DecidableEq P] (pk : List Nat → Option P) (bF cF : P)
    (g : CommitmentInfo A P) {SB : Type} (out : TxOut SB) (rev delayed : List UInt8) (delay : Int) :
    (CommitmentInfo.handle_to_broadcaster_output pk g out (toN rev, delay, toN delayed)).toOption.map absInfo
      = (Bolt3.handleParsed (fun b => pk (toN b)) bF cF out.value (.toBroadcaster rev delay delayed)).bind (absInfo g).apply := by
  unfold CommitmentInfo.handle_to_broadcaster_output Bolt3.handleParsed Bolt3.Info.apply
  simp only [C04_fn_has_to_broadcaster, Gen.Bolt3.maxDelay]
  rcases Option.eq_none_or_eq_some (pk (toN delayed)) with hd | ⟨dk, hd⟩ <;>
  rcases Option.eq_none_or_eq_some (pk (toN rev)) with hr | ⟨rk, hr⟩ <;>
  cases hb : (absInfo g).hasBc <;> by_cases h1 : delay < 0 <;> by_cases h2 : delay > 2016 <;>
      simp [hd, hr, h1, h2, Rs.okOr, Rs.fail, Except.toOption, absInfo, bind, Except.bind, pure, Except.pure] <;> simp_all [absInfo]

theorem C04_fn_handle_to_countersigner_delayed_output {A P : Type} [DecidableEq P] (pk : List Nat → Option P) (bF cF : P)
    (g : CommitmentInfo A P) {SB : Type} (out : TxOut SB) (key : List UInt8) :
    (CommitmentInfo.handle_to_countersigner_delayed_output pk g out (toN key)).toOption.map absInfo
      = (Bolt3.handleParsed (fun b => pk (toN b)) bF cF out.value (.toCountersignerDelayed key)).bind (absInfo g).apply := by
  unfold CommitmentInfo.handle_to_countersigner_delayed_output Bolt3.handleParsed Bolt3.Info.apply
  simp only [C04_fn_has_to_countersigner]
  rcases Option.eq_none_or_eq_some (pk (toN key)) with hd | ⟨dk, hd⟩ <;>
  cases hb : (absInfo g).hasCs <;>
      simp [hd, Rs.okOr, Rs.fail, Except.toOption, absInfo, bind, Except.bind, pure, Except.pure] <;> simp_all [absInfo]

theorem C04_fn_handle_received_htlc_output {A P : Type} [DecidableEq P] (pk : List UInt8 → Option P) (bF cF : P)
    (g : CommitmentInfo A P) {SB : Type} (out : TxOut SB) (a b payHash c : List UInt8) (cltv : Int) :
    (CommitmentInfo.handle_received_htlc_output g out (toN a, toN b, toN payHash, toN c, cltv)).toOption.map absInfo
      = (Bolt3.handleParsed pk bF cF out.value (.received a b payHash c cltv)).bind (absInfo g).apply := by
  unfold CommitmentInfo.handle_received_htlc_output Bolt3.handleParsed Bolt3.Info.apply
  by_cases h1 : payHash.length = 20 <;> by_cases h2 : cltv < 0 <;>
    simp [toN, h1, h2, Gen.Bolt3.paymentHashHashLen, Rs.fail, Except.toOption, absInfo, bind, Except.bind, pure, Except.pure]

theorem C04_fn_handle_offered_htlc_output {A P : Type} [DecidableEq P] (pk : List UInt8 → Option P) (bF cF : P)
    (g : CommitmentInfo A P) {SB : Type} (out : TxOut SB) (a b c payHash : List UInt8) :
    (CommitmentInfo.handle_offered_htlc_output g out (toN a, toN b, toN c, toN payHash)).toOption.map absInfo
      = (Bolt3.handleParsed pk bF cF out.value (.offered a b c payHash)).bind (absInfo g).apply := by
  unfold CommitmentInfo.handle_offered_htlc_output Bolt3.handleParsed Bolt3.Info.apply
  by_cases h1 : payHash.length = 20 <;>
    simp [toN, h1, Gen.Bolt3.paymentHashHashLen, Rs.fail, Except.toOption, absInfo, bind, Except.bind, pure, Except.pure]

theorem C04_fn_handle_anchor_output {A P S : Type} [DecidableEq P] (pk : List Nat → Option P)
    (cpk : S → Option (ChannelPublicKeys P)) (hk : S → ChannelPublicKeys P)
    (g : CommitmentInfo A P) (keys : S) {SB : Type} (out : TxOut SB) (key : List UInt8) (cp : ChannelPublicKeys P)
    (hcp : cpk keys = some cp)
    (hb : g.to_broadcaster_anchor_count < 65535) (hc : g.to_countersigner_anchor_count < 65535) :
    (CommitmentInfo.handle_anchor_output pk cpk hk Gen.Bolt3.anchorSat g keys out (toN key)).toOption.map absInfo
      = (Bolt3.handleParsed (fun b => pk (toN b))
            (if g.is_counterparty_broadcaster then cp.funding_pubkey else (hk keys).funding_pubkey)
            (if g.is_counterparty_broadcaster then (hk keys).funding_pubkey else cp.funding_pubkey)
            out.value (.anchor key)).bind (absInfo g).apply := by
  unfold CommitmentInfo.handle_anchor_output Bolt3.handleParsed Bolt3.Info.apply
  have hb' : g.to_broadcaster_anchor_count + 1 ≤ Rs.U16_MAX := by simp [Rs.U16_MAX]; omega
  have hc' : g.to_countersigner_anchor_count + 1 ≤ Rs.U16_MAX := by simp [Rs.U16_MAX]; omega
  rcases Option.eq_none_or_eq_some (pk (toN key)) with hd | ⟨dk, hd⟩
  · simp [hd, Rs.okOr, Rs.fail, Except.toOption, bind, Except.bind]
  · cases hbr : g.is_counterparty_broadcaster <;>
    by_cases hv : out.value = Gen.Bolt3.anchorSat <;>
    by_cases e1 : dk = cp.funding_pubkey <;> by_cases e2 : dk = (hk keys).funding_pubkey <;>
      simp [hd, hcp, hbr, hv, e1, e2, Rs.okOr, Rs.unwrap, Rs.uadd, hb', hc', Rs.fail, Except.toOption, absInfo, bind,
            Except.bind, pure, Except.pure] <;> simp_all [absInfo]


/-- the `u16` counter: the 65536th anchor of the broadcaster's side is an overflow panic in the code (the model counts in `Nat`) -/
example : CommitmentInfo.handle_anchor_output (Address := Unit) (fun l => some l.length) (fun (_ : Unit) => some ⟨3⟩) (fun _ => ⟨4⟩)
    Gen.Bolt3.anchorSat { CommitmentInfo.new true with to_broadcaster_anchor_count := 65535 } () (⟨330, ()⟩ : TxOut Unit) [1, 2, 3] = .error .overflow := rfl
example : (CommitmentInfo.handle_anchor_output (Address := Unit) (fun l => some l.length) (fun (_ : Unit) => some ⟨3⟩) (fun _ => ⟨4⟩)
    Gen.Bolt3.anchorSat (CommitmentInfo.new true) () (⟨330, ()⟩ : TxOut Unit) [1, 2, 3]).toOption.map (·.to_broadcaster_anchor_count) = some 1 := rfl
example : CommitmentInfo.handle_to_broadcaster_output (Address := Unit) (fun l => some l.length) (CommitmentInfo.new true) (⟨5, ()⟩ : TxOut Unit) ([1], 2017, [2])
    = .error (.err "script-format") := rfl

end Handle

/-! ### `CommitmentInfo::handle_output` itself: the dispatch on the script_pubkey kind, the p2wsh pre-checks, the template
    attempts in the source's order, the call of the matching `handle_*_output` — body from the current source.
    (`C04_gen_classify` pins the same function textually and ties the *templates*; here the control flow is the kernel's.) -/

section HandleOutput
open Gen.FnTxInfo
variable {A P S CS SB : Type} [DecidableEq P] [DecidableEq SB]
  (isWpkh isWsh : SB → Bool) (isAnchors : CS → Bool) (addrOf : SB → Option A) (scriptOf : List Nat → SB) (toWsh : SB → SB)
  (pBc : SB → Option (List UInt8 × Int × List UInt8))
  (pRecv : SB → Bool → Option (List UInt8 × List UInt8 × List UInt8 × List UInt8 × Int))
  (pOff : SB → Bool → Option (List UInt8 × List UInt8 × List UInt8 × List UInt8))
  (pAnchor pCsd : SB → Option (List UInt8))
  (pk : List Nat → Option P) (cpk : S → Option (ChannelPublicKeys P)) (hk : S → ChannelPublicKeys P)

/-- the template attempts of `handle_output` in the source's order, as one `Option Parsed` (first success wins;
    the delayed to_remote template is only tried with anchors) -/
def parsedOf (anchors : Bool) (sc : SB) : Option Bolt3.Parsed :=
  match pBc sc with
  | some (r, d, k) => some (.toBroadcaster r d k)
  | none =>
  match pRecv sc anchors with
  | some (a, b, h, c, t) => some (.received a b h c t)
  | none =>
  match pOff sc anchors with
  | some (a, b, c, h) => some (.offered a b c h)
  | none =>
  match pAnchor sc with
  | some k => some (.anchor k)
  | none => if anchors then (pCsd sc).map .toCountersignerDelayed else none

/-- the generated `handle_output` with byte-valued parsers behind the parse externals -/
abbrev handleOutputGen (g : CommitmentInfo A P) (keys : S) (setup : CS) (out : TxOut SB) (ws : List Nat) :=
  CommitmentInfo.handle_output isWpkh isAnchors addrOf isWsh scriptOf toWsh
    (fun s => (pBc s).map fun (r, d, k) => (toN r, d, toN k)) pk
    (fun s a => (pRecv s a).map fun (a, b, h, c, t) => (toN a, toN b, toN h, toN c, t))
    (fun s a => (pOff s a).map fun (a, b, c, h) => (toN a, toN b, toN c, toN h))
    (fun s => (pAnchor s).map toN) cpk hk Gen.Bolt3.anchorSat (fun s => (pCsd s).map toN) g keys setup out ws

theorem C04_fn_handle_output (g : CommitmentInfo A P) (keys : S) (setup : CS) (out : TxOut SB) (ws : List Nat)
    (cp : ChannelPublicKeys P) (hcp : cpk keys = some cp)
    (hb : g.to_broadcaster_anchor_count < 65535) (hc : g.to_countersigner_anchor_count < 65535)
    (haddr : isWpkh out.script_pubkey = true → (addrOf out.script_pubkey).isSome = true) :
    (handleOutputGen isWpkh isWsh isAnchors addrOf scriptOf toWsh pBc pRecv pOff pAnchor pCsd pk cpk hk g keys setup out ws).toOption.map absInfo
    = (if isWpkh out.script_pubkey then (if isAnchors setup then none else some (Bolt3.Role.toCs out.value))
       else if isWsh out.script_pubkey then
         (if ws.isEmpty then none else if out.script_pubkey ≠ toWsh (scriptOf ws) then none
          else (parsedOf pBc pRecv pOff pAnchor pCsd (isAnchors setup) (scriptOf ws)).bind
                 (Bolt3.handleParsed (fun b => pk (toN b))
                    (if g.is_counterparty_broadcaster then cp.funding_pubkey else (hk keys).funding_pubkey)
                    (if g.is_counterparty_broadcaster then (hk keys).funding_pubkey else cp.funding_pubkey) out.value))
       else none).bind (absInfo g).apply := by
  unfold handleOutputGen CommitmentInfo.handle_output
  by_cases h1 : isWpkh out.script_pubkey = true
  · have ha := haddr h1
    cases han : isAnchors setup <;> cases hcs : (absInfo g).hasCs <;>
      simp [h1, han, C04_fn_has_to_countersigner, hcs, Rs.fail, Except.toOption, Bolt3.Info.apply, pure, Except.pure] <;>
      simp_all [absInfo]
  · by_cases h2 : isWsh out.script_pubkey = true
    · by_cases h3 : ws.isEmpty = true
      · simp [h1, h2, h3, Rs.fail, Except.toOption]
      · by_cases h4 : out.script_pubkey = toWsh (scriptOf ws)
        · simp only [h1, h2, h3, Bool.false_eq_true, if_false, if_true, ← h4, bne_self_eq_false, ne_eq, not_true_eq_false]
          unfold parsedOf
          rcases hbc : pBc (scriptOf ws) with _ | ⟨r, d, k⟩
          · rcases hrc : pRecv (scriptOf ws) (isAnchors setup) with _ | ⟨a, b, h, c, t⟩
            · rcases hof : pOff (scriptOf ws) (isAnchors setup) with _ | ⟨a, b, c, h⟩
              · rcases han : pAnchor (scriptOf ws) with _ | k
                · cases hanc : isAnchors setup
                  · simp [Rs.fail, Except.toOption]
                  · rcases hcsd : pCsd (scriptOf ws) with _ | k
                    · simp [Rs.fail, Except.toOption]
                    · simpa using C04_fn_handle_to_countersigner_delayed_output pk _ _ g out k
                · simpa using C04_fn_handle_anchor_output pk cpk hk g keys out k cp hcp hb hc
              · simpa using C04_fn_handle_offered_htlc_output (fun b => pk (toN b)) _ _ g out a b c h
            · simpa using C04_fn_handle_received_htlc_output (fun b => pk (toN b)) _ _ g out a b h c t
          · simpa using C04_fn_handle_to_broadcaster_output pk _ _ g out r k d
        · have : (out.script_pubkey != toWsh (scriptOf ws)) = true := by simpa using h4
          simp [h1, h2, h3, this, h4, Rs.fail, Except.toOption]
    · simp [h1, h2, Rs.fail, Except.toOption]

end HandleOutput

/-! ## Round 9: the remaining translated functions of `tx.rs` — `CommitmentInfo2::{htlcs_is_empty, htlc_balance}`, the test-only
    constructors, the anchor values of the decoder's accumulator -/

theorem foldlM_checked_add_panic {α : Type} (max : Nat) (f : α → Nat) :
    ∀ (l : List α) (acc : Nat), acc ≤ max →
      List.foldlM (fun acc x => Rs.unwrap (Rs.ucheckedAdd max acc (f x))) acc l
      = if acc + (l.map f).sum ≤ max then (.ok (acc + (l.map f).sum) : Rs.M Nat) else .error .panic := by
  intro l
  induction l with
  | nil => intro acc h; simp [List.foldlM, h]
  | cons x xs ih =>
    intro acc hacc
    simp only [List.foldlM_cons, List.map_cons, List.sum_cons]
    by_cases h : acc + f x ≤ max
    · simp only [Rs.ucheckedAdd, h, if_true, Rs.unwrap, Rs.pure_eq, Rs.bind_ok]
      have := ih (acc + f x) h
      simp only [Rs.ucheckedAdd, Rs.unwrap, Rs.pure_eq] at this
      rw [this]
      simp [Nat.add_assoc]
    · have : ¬ acc + (f x + (xs.map f).sum) ≤ max := by omega
      simp only [Rs.ucheckedAdd, h, if_false, Rs.unwrap, this]
      rfl

section Info2b
open Gen.FnTxInfo2

theorem C04_fn_htlcs_is_empty (g : CommitmentInfo2) :
    CommitmentInfo2.htlcs_is_empty g = (g.offered_htlcs.isEmpty && g.received_htlcs.isEmpty) := rfl

/-- `htlc_balance`: the sums and counts of the two lists *from the holder's point of view* (for a counterparty
    commitment "offered" of the transaction is received by us); an overflowing sum is a panic (`checked_add().expect`),
    the counts are truncated to `u32`. -/
theorem C04_fn_htlc_balance (g : CommitmentInfo2) :
    CommitmentInfo2.htlc_balance g =
      let off := if g.is_counterparty_broadcaster then g.received_htlcs else g.offered_htlcs
      let recv := if g.is_counterparty_broadcaster then g.offered_htlcs else g.received_htlcs
      if (off.map (·.value_sat)).sum ≤ Rs.U64_MAX ∧ (recv.map (·.value_sat)).sum ≤ Rs.U64_MAX then
        .ok ((recv.map (·.value_sat)).sum, (off.map (·.value_sat)).sum, recv.length % 2 ^ 32, off.length % 2 ^ 32)
      else .error .panic := by
  unfold CommitmentInfo2.htlc_balance
  have e1 := foldlM_checked_add_panic Rs.U64_MAX (fun (h : HTLCInfo2) => h.value_sat)
  simp only [Rs.pure_eq, bind_ok_id]
  cases hb : g.is_counterparty_broadcaster <;>
    simp only [Bool.false_eq_true, if_false, if_true, e1 _ 0 (Nat.zero_le _), Nat.zero_add] <;>
    (split <;> rename_i h1) <;>
    first
      | (simp only [Rs.bind_err]; simp [h1])
      | (simp only [Rs.bind_ok]; split <;> rename_i h2 <;> simp [h1, h2, Rs.utrunc, Rs.U32_MAX])

end Info2b

section InfoMore
open Gen.FnTxInfo

/-- test-only constructors (`#[cfg(test)]`) -/
theorem C04_fn_new_for_holder (A P : Type) :
    (CommitmentInfo.new_for_holder : CommitmentInfo A P) = CommitmentInfo.new false := rfl
theorem C04_fn_new_for_counterparty (A P : Type) :
    (CommitmentInfo.new_for_counterparty : CommitmentInfo A P) = CommitmentInfo.new true := rfl

/-- the value the decoder attributes to the anchors of one side: `ANCHOR_SAT` for **exactly one** anchor, 0 otherwise
    (two anchors of one side count as none here; the equality test of phase 1 refuses such a transaction: `Bolt3.canon`
    has at most one per side) — in terms of the model's counters -/
theorem C04_fn_to_broadcaster_anchor_value_sat {A P : Type} (g : CommitmentInfo A P) :
    CommitmentInfo.to_broadcaster_anchor_value_sat Gen.Bolt3.anchorSat g
      = if (absInfo g).anchorsB = 1 then Gen.Bolt3.anchorSat else 0 := by
  unfold CommitmentInfo.to_broadcaster_anchor_value_sat absInfo
  by_cases h : g.to_broadcaster_anchor_count = 1 <;> simp [h]
theorem C04_fn_to_countersigner_anchor_value_sat {A P : Type} (g : CommitmentInfo A P) :
    CommitmentInfo.to_countersigner_anchor_value_sat Gen.Bolt3.anchorSat g
      = if (absInfo g).anchorsC = 1 then Gen.Bolt3.anchorSat else 0 := by
  unfold CommitmentInfo.to_countersigner_anchor_value_sat absInfo
  by_cases h : g.to_countersigner_anchor_count = 1 <;> simp [h]
end InfoMore

/-! ## Round 9: the third clause of C04 on the regenerated bodies — "on every commitment the semantic entry point accepts, the raw
    entry point accepts the canonical transaction and returns the same signature"

`C04_fn_phase_agree_gen`: run the **generated** phase 2 on a content; take the transaction it built (`builtTx rtx`) and its witness
scripts; then the **generated** phase 1 on that transaction, with the same number, point, feerate and HTLC arguments, returns the *same
commitment signature* and leaves the channel in the *same state* — for all externals that satisfy five explicitly stated facts about
LDK and the decoder, each the counterpart of a lemma of the structured model: the decoder reads the two balances back
(`C04_decode_canon`), `CommitmentInfo2::new` keeps the balances and LDK's builder ignores the order of the HTLC arguments
(`canon_congr`), LDK's accessors return the number and point the transaction was built from, LDK's signer uses the funding key, the
2-of-2 script and the channel value.  Everything VLS itself does between these facts is the kernel's, on the current source. -/

section Agree
open Gen.FnChannelCommit
variable {InMemorySigner Txid DelayedPaymentBasepoint HtlcBasepoint RevocationBasepoint PublicKey Secp256k1
  EnforcementState ChannelId Transaction PaymentHash Signature Validator Node NodeState BalanceDelta PaymentSummary ChainState
  TxCreationKeys DirectedChannelTransactionParameters CommitmentTransaction ScriptBuf SecretKey : Type}
  [DecidableEq Transaction]

theorem C04_fn_phase_agree_gen
  (txOutLen : Transaction → Nat) (validator : Validator)
  (validateChannelValue : Validator → ChannelSetup Txid DelayedPaymentBasepoint HtlcBasepoint RevocationBasepoint PublicKey → Rs.M Unit)
  (decode : Validator → InMemorySigner → ChannelSetup Txid DelayedPaymentBasepoint HtlcBasepoint RevocationBasepoint PublicKey → Bool → Transaction → List (List Nat) → Rs.M CommitmentInfo)
  (mkInfo2 : Bool → Nat → Nat → List (HTLCInfo2 PaymentHash) → List (HTLCInfo2 PaymentHash) → Nat → CommitmentInfo2 PaymentHash)
  (node : Node) (getState : Node → NodeState)
  (claimable : EnforcementState → NodeState → Option (CommitmentInfo2 PaymentHash) → Option (CommitmentInfo2 PaymentHash) → ChannelSetup Txid DelayedPaymentBasepoint HtlcBasepoint RevocationBasepoint PublicKey → Rs.M BalanceDelta)
  (incoming : EnforcementState → Option (CommitmentInfo2 PaymentHash) → Option (CommitmentInfo2 PaymentHash) → PaymentSummary)
  (chainState : ChainState)
  (validateCp : Validator → EnforcementState → Nat → PublicKey → ChannelSetup Txid DelayedPaymentBasepoint HtlcBasepoint RevocationBasepoint PublicKey → ChainState → CommitmentInfo2 PaymentHash → Rs.M Unit)
  (pubkeys : InMemorySigner → ChannelPublicKeys DelayedPaymentBasepoint HtlcBasepoint RevocationBasepoint PublicKey)
  (cpkeys : InMemorySigner → Option (ChannelPublicKeys DelayedPaymentBasepoint HtlcBasepoint RevocationBasepoint PublicKey))
  (derive : Secp256k1 → PublicKey → DelayedPaymentBasepoint → HtlcBasepoint → RevocationBasepoint → HtlcBasepoint → TxCreationKeys)
  (asCp : ChannelTransactionParameters DelayedPaymentBasepoint HtlcBasepoint RevocationBasepoint PublicKey Txid → DirectedChannelTransactionParameters)
  (ldkNew : Nat → Nat → Nat → PublicKey → PublicKey → TxCreationKeys → Nat → List (HTLCOutputInCommitment PaymentHash × Unit) → DirectedChannelTransactionParameters → Rs.M CommitmentTransaction)
  (builtTx : CommitmentTransaction → Transaction) (filterErr : String → Bool)
  (numOf : CommitmentTransaction → Nat) (pointOf : CommitmentTransaction → PublicKey)
  (redeem : PublicKey → PublicKey → ScriptBuf) (fundingKey : InMemorySigner → SecretKey)
  (sign : CommitmentTransaction → SecretKey → ScriptBuf → Nat → Rs.M Signature)
  (outgoing : EnforcementState → Option (CommitmentInfo2 PaymentHash) → Option (CommitmentInfo2 PaymentHash) → PaymentSummary)
  (validatePayments : NodeState → ChannelId → PaymentSummary → PaymentSummary → BalanceDelta → Validator → Rs.M Unit)
  (setNext : Validator → EnforcementState → Nat → PublicKey → CommitmentInfo2 PaymentHash → Rs.M EnforcementState)
  (persist : Rs.M Unit)
  (ldkSign : InMemorySigner → CommitmentTransaction → Rs.M (Signature × List Signature))
  (wsOf : CommitmentTransaction → List (List Nat))
  (self self2 : Channel InMemorySigner Txid DelayedPaymentBasepoint HtlcBasepoint RevocationBasepoint PublicKey Secp256k1 EnforcementState ChannelId)
  (pt : PublicKey) (n feerate toHolder toCp : Nat) (off recv : List (HTLCInfo2 PaymentHash))
  (sig : Signature) (hsigs : List Signature)
  (h2 : phase2Gen validator validateChannelValue mkInfo2 node getState claimable incoming chainState validateCp
          pubkeys cpkeys derive asCp ldkNew outgoing validatePayments setNext persist ldkSign
          self pt n feerate toHolder toCp off recv = .ok (self2, (sig, hsigs)))
  -- the decoder reads the two balances back from the built transaction and its witness scripts (model: `C04_decode_canon`)
  (hdec : ∀ htlcs rtx, Channel.htlcs_info2_to_oic off recv = .ok htlcs →
      Channel.make_counterparty_commitment_tx pubkeys cpkeys derive featuresEmpty asCp ldkNew self pt n feerate toHolder toCp htlcs = .ok rtx →
      txOutLen (builtTx rtx) = (wsOf rtx).length ∧
      decode validator self.keys self.setup true (builtTx rtx) (wsOf rtx) = .ok ⟨toHolder, toCp⟩)
  -- `CommitmentInfo2::new` keeps the balances, and LDK's builder does not depend on the order of the HTLC arguments (model: `canon_congr`)
  (hcs : (mkInfo2 true toHolder toCp off recv feerate).to_countersigner_value_sat = toHolder)
  (hbc : (mkInfo2 true toHolder toCp off recv feerate).to_broadcaster_value_sat = toCp)
  (hperm : (Channel.htlcs_info2_to_oic (mkInfo2 true toHolder toCp off recv feerate).offered_htlcs
                (mkInfo2 true toHolder toCp off recv feerate).received_htlcs >>= fun htlcs =>
              Channel.make_counterparty_commitment_tx pubkeys cpkeys derive featuresEmpty asCp ldkNew self pt n feerate toHolder toCp htlcs)
           = (Channel.htlcs_info2_to_oic off recv >>= fun htlcs =>
              Channel.make_counterparty_commitment_tx pubkeys cpkeys derive featuresEmpty asCp ldkNew self pt n feerate toHolder toCp htlcs))
  -- LDK's accessors of the built transaction return what it was built from
  (hnum : ∀ htlcs rtx, Channel.make_counterparty_commitment_tx pubkeys cpkeys derive featuresEmpty asCp ldkNew self pt n feerate toHolder toCp htlcs = .ok rtx →
      numOf rtx = 281474976710655 - n ∧ pointOf rtx = pt)
  (hn : n ≤ 281474976710655)
  -- LDK's signer signs the commitment with the funding key over the 2-of-2 script and the channel value
  (hsign : ∀ rtx hs, ldkSign self.keys rtx = .ok (sig, hs) →
      sign rtx (fundingKey self.keys) (redeem (pubkeys self.keys).funding_pubkey self.setup.counterparty_points.funding_pubkey)
        self.setup.channel_value_sat = .ok sig) :
  ∃ rtx, phase1Gen txOutLen validator validateChannelValue decode mkInfo2 node getState claimable incoming chainState validateCp
           pubkeys cpkeys derive asCp ldkNew builtTx filterErr numOf pointOf redeem fundingKey sign outgoing
           validatePayments setNext persist self (builtTx rtx) (wsOf rtx) pt n feerate off recv = .ok (self2, sig) := by
  unfold phase2Gen Channel.sign_counterparty_commitment_tx_phase2 at h2
  obtain ⟨_, hvcv, h2⟩ := bind_eq_ok h2
  obtain ⟨info2, hinfo2, h2⟩ := bind_eq_ok h2
  cases hinfo2
  obtain ⟨delta, hdelta, h2⟩ := bind_eq_ok h2
  obtain ⟨u, hval, h2⟩ := bind_eq_ok h2
  obtain ⟨htlcs, hoic, h2⟩ := bind_eq_ok h2
  obtain ⟨rtx, hrtx, h2⟩ := bind_eq_ok h2
  obtain ⟨⟨sg, hs⟩, hsig, h2⟩ := bind_eq_ok h2
  obtain ⟨u2, hvp, h2⟩ := bind_eq_ok h2
  obtain ⟨n1, hn1, h2⟩ := bind_eq_ok h2
  obtain ⟨es', hes, h2⟩ := bind_eq_ok h2
  obtain ⟨u3, hper, h2⟩ := bind_eq_ok h2
  cases h2
  obtain ⟨hlen, hd⟩ := hdec htlcs rtx hoic hrtx
  obtain ⟨hnumv, hptv⟩ := hnum htlcs rtx hrtx
  have hs1 := hsign rtx _ hsig
  have hbuild : (Channel.htlcs_info2_to_oic (mkInfo2 true toHolder toCp off recv feerate).offered_htlcs
                (mkInfo2 true toHolder toCp off recv feerate).received_htlcs >>= fun htlcs =>
              Channel.make_counterparty_commitment_tx pubkeys cpkeys derive featuresEmpty asCp ldkNew self pt n feerate toHolder toCp htlcs)
           = .ok rtx := by rw [hperm, hoic]; exact hrtx
  obtain ⟨htlcs1, hoic1, hrtx1⟩ := bind_eq_ok hbuild
  refine ⟨rtx, ?_⟩
  unfold phase1Gen Channel.sign_counterparty_commitment_tx
  have hsub : 281474976710655 - (281474976710655 - n) = n := by omega
  have hn1' : Rs.uadd Rs.U64_MAX n 1 = .ok n1 := hn1
  simp only [hlen, bne_self_eq_false, Bool.false_eq_true, if_false, hvcv, Rs.bind_ok, hd,
    Channel.build_counterparty_commitment_info, Rs.pure_eq, hdelta, hval, hoic1, hcs, hbc, hrtx1,
    hnumv, hptv, Rs.usub, Nat.sub_le, if_true, hsub, hs1, hvp, hn1', hes, hper]

end Agree

/-- the toy instance of the non-vacuity section: phase 2 on the content (to_holder 10, to_counterparty 20, one offered HTLC of 3 sat)
    returns 4141 — the signature phase 1 returns for the built transaction `[20, 10, 3000]` (examples above) -/
example : (phase2Gen (Validator := Nat) (Node := Nat) (NodeState := Nat) (BalanceDelta := Nat) (PaymentSummary := Nat)
    (ChainState := Nat) (TxCreationKeys := Nat) (DirectedChannelTransactionParameters := Nat)
    (CommitmentTransaction := List Nat) (Signature := Nat) (PaymentHash := Nat)
    0 (fun _ _ => .ok ()) (fun _ a b o r _ => ⟨a, b, o, r⟩) 0 id
    (fun _ _ _ _ _ => .ok 0) (fun _ _ _ => 0) 0 (fun _ _ _ _ _ _ _ => .ok ())
    (fun k => ⟨k, k + 1, k + 2, k + 3⟩) (fun _ => some ⟨1, 2, 3, 4⟩) (fun _ pt a b c d => pt + a + b + c + d) (fun _ => 0)
    (fun _ tb tc _ _ _ _ hs _ => .ok ([tb, tc] ++ hs.map (·.1.amount_msat))) (fun _ _ _ => 0) (fun _ _ _ _ _ _ => .ok ())
    (fun _ _ n _ _ => .ok n) (.ok ()) (fun k rtx => .ok (rtx.sum + (k + 100) + (k + 1) + 1000, []))
    toyChan 9 42 253 10 20 [⟨3, 7, 9⟩] []).toOption.map (fun r => (r.1.enforcement_state, r.2.1)) = some (43, 4141) := by decide


/-! ## Round 10 (b2): the six script parsers of tx.rs (`parse_*`) translated by rs2lean (`Gen/FnTxParse.lean`)

`translate/fn_targets/TxParse.b2.json`: `Instructions` is an opaque type, `expect_op / expect_data / expect_number /
expect_script_end` of tx/script.rs are declared receiver-updating externals, opcodes are their consensus bytes.  The
externals are instantiated with the steps of the model's template interpreter (`Bolt3.runToks`, lemmas `x*_runToks`),
and each generated parser is proved to accept the instruction list of its BOLT-3 template with exactly the captured
values the model's decoder uses (`C04_fn_parse_*`; re-proved against the source on every run: an opcode, the order
of the expectations or the returned tuple changed in tx.rs breaks them).  Not proved here: that nothing else is
accepted (that direction rests on `Gen.Bolt3.tpl*` + `C04_gen_classify` and the `C04Parse` correspondence). -/
namespace ParseTie
open Bolt3 Gen.Bolt3

set_option linter.unusedSimpArgs false
abbrev It := List Instr
def mis : Rs.Fail := .err "mismatch"
def nat (d : Bytes) : List Nat := d.map UInt8.toNat
def xInstrs (s : List Instr) : It := s
def xOp (is : It) (c : Nat) : Rs.M It :=
  match is with
  | .op c' :: is' => if c = c' then .ok is' else .error mis
  | _ => .error mis
def xData (is : It) : Rs.M (It × List Nat) :=
  match is with
  | .push d :: is' => .ok (is', nat d)
  | _ => .error mis
def xNum (is : It) : Rs.M (It × Int) :=
  match is with
  | i :: is' => match expectNumber i with
    | some n => .ok (is', n)
    | none => .error mis
  | [] => .error mis
def xEnd (is : It) : Rs.M It := if is.isEmpty then .ok [] else .error mis


end ParseTie
open ParseTie Bolt3 Gen.Bolt3

set_option linter.unusedSimpArgs false
/-! the four instantiated externals are the steps of the model's template interpreter `Bolt3.runToks` (the
    interpreter the byte-level correspondence group `C04Parse` runs against the real `decode_commitment_tx`) -/
theorem xOp_runToks (a : Bool) (c : Nat) (ts : List Tok) (is : List Instr) (acc : List Val) :
    runToks a (.op c :: ts) is acc = (match xOp is c with | .ok v => runToks a ts v acc | .error _ => none) := by
  rcases is with _ | ⟨⟨c'⟩ | d | _, is⟩ <;> simp only [runToks, xOp]
  split <;> rfl
theorem xData_runToks (a : Bool) (ts : List Tok) (is : List Instr) (acc : List Val) :
    (runToks a (.data :: ts) is acc).isSome → (xData is).toOption.isSome := by
  rcases is with _ | ⟨⟨c'⟩ | d | _, is⟩ <;> simp [runToks, xData, Except.toOption]
theorem xNum_runToks (a : Bool) (ts : List Tok) (is : List Instr) (acc : List Val) :
    runToks a (.num :: ts) is acc = (match xNum is with | .ok (v, n) => runToks a ts v (.num n :: acc) | .error _ => none) := by
  rcases is with _ | ⟨i, is⟩ <;> simp only [runToks, xNum]
  cases expectNumber i <;> rfl
theorem xEnd_runToks (a : Bool) (ts : List Tok) (is : List Instr) (acc : List Val) :
    runToks a (.endS :: ts) is acc = (match xEnd is with | .ok v => runToks a ts v acc | .error _ => none) := by
  simp only [runToks, xEnd]; split <;> rfl

theorem C04_fn_parse_to_countersigner_delayed_script (ci : Gen.FnTxParse.CommitmentInfo) (k : Bytes) :
    Gen.FnTxParse.CommitmentInfo.parse_to_countersigner_delayed_script (ext_Script_instructions := xInstrs) (ext_Instructions_expect_op := xOp) (ext_Instructions_expect_data := xData) (ext_Instructions_expect_script_end := xEnd) ci
      [.push k, .op 0xad, .op 0x51, .op 0xb2] = .ok (nat k) := by
  simp [Gen.FnTxParse.CommitmentInfo.parse_to_countersigner_delayed_script, xInstrs, xOp, xData, xNum, xEnd, bind, Except.bind, pure, Except.pure]

theorem C04_fn_parse_anchor_script (ci : Gen.FnTxParse.CommitmentInfo) (k : Bytes) :
    Gen.FnTxParse.CommitmentInfo.parse_anchor_script (ext_Script_instructions := xInstrs) (ext_Instructions_expect_op := xOp) (ext_Instructions_expect_data := xData) (ext_Instructions_expect_script_end := xEnd) ci
      [.push k, .op 0xac, .op 0x73, .op 0x64, .op 0x60, .op 0xb2, .op 0x68] = .ok (nat k) := by
  simp [Gen.FnTxParse.CommitmentInfo.parse_anchor_script, xInstrs, xOp, xData, xNum, xEnd, bind, Except.bind, pure, Except.pure]

theorem C04_fn_parse_to_broadcaster_script (ci : Gen.FnTxParse.CommitmentInfo) (rk dk : Bytes) (i : Instr) (n : Int)
    (hn : expectNumber i = some n) :
    Gen.FnTxParse.CommitmentInfo.parse_to_broadcaster_script (ext_Script_instructions := xInstrs) (ext_Instructions_expect_op := xOp) (ext_Instructions_expect_data := xData) (ext_Instructions_expect_script_end := xEnd) (ext_Instructions_expect_number := xNum) ci
      [.op 0x63, .push rk, .op 0x67, i, .op 0xb2, .op 0x75, .push dk, .op 0x68, .op 0xac] = .ok (nat rk, n, nat dk) := by
  simp [Gen.FnTxParse.CommitmentInfo.parse_to_broadcaster_script, xInstrs, xOp, xData, xNum, xEnd, bind, Except.bind, pure, Except.pure, hn]

theorem C04_fn_parse_revokeable_redeemscript (a : Bool) (rk dk : Bytes) (i : Instr) (n : Int)
    (hn : expectNumber i = some n) :
    Gen.FnTxParse.parse_revokeable_redeemscript (ext_Script_instructions := xInstrs) (ext_Instructions_expect_op := xOp) (ext_Instructions_expect_data := xData) (ext_Instructions_expect_script_end := xEnd) (ext_Instructions_expect_number := xNum)
      [.op 0x63, .push rk, .op 0x67, i, .op 0xb2, .op 0x75, .push dk, .op 0x68, .op 0xac] a = .ok (nat rk, n, nat dk) := by
  simp [Gen.FnTxParse.parse_revokeable_redeemscript, xInstrs, xOp, xData, xNum, xEnd, bind, Except.bind, pure, Except.pure, hn]

/-- the anchors tail of the two HTLC templates -/
def csvTail (a : Bool) : List Instr := if a then [.op 0x51, .op 0xb2, .op 0x75] else []

theorem C04_fn_parse_received_htlc_script (a : Bool) (rh k1 ph k2 : Bytes) (i32 ic : Instr) (cltv : Int)
    (h32 : expectNumber i32 = some 32) (hc : expectNumber ic = some cltv) :
    Gen.FnTxParse.parse_received_htlc_script (ext_Script_instructions := xInstrs) (ext_Instructions_expect_op := xOp) (ext_Instructions_expect_data := xData) (ext_Instructions_expect_script_end := xEnd) (ext_Instructions_expect_number := xNum)
      ([.op 0x76, .op 0xa9, .push rh, .op 0x87, .op 0x63, .op 0xac, .op 0x67, .push k1, .op 0x7c, .op 0x82, i32, .op 0x87,
        .op 0x63, .op 0xa9, .push ph, .op 0x88, .op 0x52, .op 0x7c, .push k2, .op 0x52, .op 0xae, .op 0x67, .op 0x75, ic,
        .op 0xb1, .op 0x75, .op 0xac, .op 0x68] ++ csvTail a ++ [.op 0x68]) a
      = .ok (nat rh, nat k1, nat ph, nat k2, cltv) := by
  cases a <;> simp [Gen.FnTxParse.parse_received_htlc_script, csvTail, xInstrs, xOp, xData, xNum, xEnd, bind, Except.bind, pure, Except.pure, h32, hc]

theorem C04_fn_parse_offered_htlc_script (a : Bool) (rh k1 ph k2 : Bytes) (i32 : Instr)
    (h32 : expectNumber i32 = some 32) :
    Gen.FnTxParse.parse_offered_htlc_script (ext_Script_instructions := xInstrs) (ext_Instructions_expect_op := xOp) (ext_Instructions_expect_data := xData) (ext_Instructions_expect_script_end := xEnd) (ext_Instructions_expect_number := xNum)
      ([.op 0x76, .op 0xa9, .push rh, .op 0x87, .op 0x63, .op 0xac, .op 0x67, .push k1, .op 0x7c, .op 0x82, i32, .op 0x87,
        .op 0x64, .op 0x75, .op 0x52, .op 0x7c, .push k2, .op 0x52, .op 0xae, .op 0x67, .op 0xa9, .push ph, .op 0x88, .op 0xac,
        .op 0x68] ++ csvTail a ++ [.op 0x68]) a
      = .ok (nat rh, nat k1, nat k2, nat ph) := by
  cases a <;> simp [Gen.FnTxParse.parse_offered_htlc_script, csvTail, xInstrs, xOp, xData, xNum, xEnd, bind, Except.bind, pure, Except.pure, h32]

/-- a wrong number where `32` is expected is refused (the `thirty_two != 32` branch) -/
theorem C04_fn_parse_received_htlc_script_not32 (a : Bool) (rh k1 : Bytes) (i32 : Instr) (m : Int) (rest : List Instr)
    (h32 : expectNumber i32 = some m) (hm : m ≠ 32) :
    Gen.FnTxParse.parse_received_htlc_script (ext_Script_instructions := xInstrs) (ext_Instructions_expect_op := xOp) (ext_Instructions_expect_data := xData) (ext_Instructions_expect_script_end := xEnd) (ext_Instructions_expect_number := xNum)
      ([.op 0x76, .op 0xa9, .push rh, .op 0x87, .op 0x63, .op 0xac, .op 0x67, .push k1, .op 0x7c, .op 0x82, i32] ++ rest) a
      = .error (.err "mismatch") := by
  simp [Gen.FnTxParse.parse_received_htlc_script, xInstrs, xOp, xData, xNum, xEnd, bind, Except.bind, pure, Except.pure, Rs.fail, h32, hm]


/-! ### Only the template is accepted (round 10, b2)

`x*_ok_iff`: the instantiated externals succeed exactly on the instruction they expect.  `C04_fn_parse_*_only`: if the
generated parser returns `Ok r`, the instruction list IS the instance of its BOLT-3 template (every opcode at its
place, nothing before / between / after, `32` where the size is checked, the CSV tail exactly with anchors) and `r` the
captured values.  With `C04_fn_parse_*` above (the instance is accepted) this characterises the accepted scripts of
each of the six parsers of tx.rs on the generated code: a dropped / reordered / changed `expect_*` call, a changed
opcode or a changed return tuple in the source breaks one of the two directions at the next run. -/
set_option linter.unusedSimpArgs false
theorem bind_ok_iff {α β} (x : Rs.M α) (f : α → Rs.M β) (r : β) :
    (x >>= f) = .ok r ↔ ∃ a, x = .ok a ∧ f a = .ok r := by
  cases x <;> simp [bind, Except.bind]
theorem xOp_ok_iff (is v : It) (c : Nat) : xOp is c = .ok v ↔ is = .op c :: v := by
  rcases is with _ | ⟨⟨c'⟩ | d | _, is⟩ <;> simp only [xOp]
  · simp
  · by_cases h : c = c'
    · subst h; rw [if_pos rfl]; constructor
      · intro e; cases e; rfl
      · intro e; cases e; rfl
    · rw [if_neg h]; constructor
      · intro e; cases e
      · intro e; cases e; exact absurd rfl h
  · simp
  · simp
theorem xData_ok_iff (is s : It) (v : List Nat) : xData is = .ok (s, v) ↔ ∃ d, is = .push d :: s ∧ v = nat d := by
  rcases is with _ | ⟨⟨c'⟩ | d | _, is⟩ <;> simp only [xData]
  · simp
  · simp
  · constructor
    · intro e; cases e; exact ⟨d, rfl, rfl⟩
    · rintro ⟨d', e1, e2⟩; cases e1; subst e2; rfl
  · simp
theorem xNum_ok_iff (is s : It) (v : Int) : xNum is = .ok (s, v) ↔ ∃ i, is = i :: s ∧ expectNumber i = some v := by
  rcases is with _ | ⟨i, is⟩ <;> simp only [xNum]
  · simp
  · cases h : expectNumber i with
    | none =>
      constructor
      · intro e; cases e
      · rintro ⟨j, e1, e2⟩; cases e1; rw [h] at e2; cases e2
    | some n =>
      constructor
      · intro e; cases e; exact ⟨i, rfl, h⟩
      · rintro ⟨j, e1, e2⟩; cases e1; rw [h] at e2; cases e2; rfl
theorem xEnd_ok_iff (is v : It) : xEnd is = .ok v ↔ is = [] ∧ v = [] := by
  cases is <;> simp [xEnd] <;> exact eq_comm

theorem ite_fail_ok_iff {α} (b : Bool) (t : String) (x : Rs.M α) (r : α) :
    (if b = true then Rs.fail t else x) = .ok r ↔ b = false ∧ x = .ok r := by
  cases b <;> simp [Rs.fail]

/-- only the template: an accepted instruction list IS the template instance, the result its captures -/
theorem C04_fn_parse_revokeable_redeemscript_only (a : Bool) (is : List Instr) (r : List Nat × Int × List Nat)
    (h : Gen.FnTxParse.parse_revokeable_redeemscript (ext_Script_instructions := xInstrs) (ext_Instructions_expect_op := xOp) (ext_Instructions_expect_data := xData) (ext_Instructions_expect_script_end := xEnd) (ext_Instructions_expect_number := xNum) is a = .ok r) :
    ∃ (rk : Bytes) (i_n : Instr) (n : Int) (dk : Bytes), is = [.op 0x63, .push rk, .op 0x67, i_n, .op 0xb2, .op 0x75, .push dk, .op 0x68, .op 0xac] ∧ expectNumber i_n = some n ∧ r = (nat rk, n, nat dk) := by
  simp only [Gen.FnTxParse.parse_revokeable_redeemscript, xInstrs, bind_ok_iff, Prod.exists, xOp_ok_iff, xData_ok_iff, xNum_ok_iff, xEnd_ok_iff, pure, Except.pure, Except.ok.injEq] at h
  obtain ⟨_, rfl, _, _, ⟨rk, rfl, rfl⟩, _, rfl, _, _, ⟨i_n, rfl, h_n⟩, _, rfl, _, rfl, _, _, ⟨dk, rfl, rfl⟩, _, rfl, _, rfl, _, ⟨rfl, rfl⟩, rfl⟩ := h
  exact ⟨_, _, _, _, rfl, h_n, rfl⟩

/-- only the template: an accepted instruction list IS the template instance, the result its captures -/
theorem C04_fn_parse_to_broadcaster_script_only (ci : Gen.FnTxParse.CommitmentInfo) (is : List Instr) (r : List Nat × Int × List Nat)
    (h : Gen.FnTxParse.CommitmentInfo.parse_to_broadcaster_script (ext_Script_instructions := xInstrs) (ext_Instructions_expect_op := xOp) (ext_Instructions_expect_data := xData) (ext_Instructions_expect_script_end := xEnd) (ext_Instructions_expect_number := xNum) ci is = .ok r) :
    ∃ (rk : Bytes) (i_n : Instr) (n : Int) (dk : Bytes), is = [.op 0x63, .push rk, .op 0x67, i_n, .op 0xb2, .op 0x75, .push dk, .op 0x68, .op 0xac] ∧ expectNumber i_n = some n ∧ r = (nat rk, n, nat dk) := by
  simp only [Gen.FnTxParse.CommitmentInfo.parse_to_broadcaster_script, xInstrs, bind_ok_iff, Prod.exists, xOp_ok_iff, xData_ok_iff, xNum_ok_iff, xEnd_ok_iff, pure, Except.pure, Except.ok.injEq] at h
  obtain ⟨_, rfl, _, _, ⟨rk, rfl, rfl⟩, _, rfl, _, _, ⟨i_n, rfl, h_n⟩, _, rfl, _, rfl, _, _, ⟨dk, rfl, rfl⟩, _, rfl, _, rfl, _, ⟨rfl, rfl⟩, rfl⟩ := h
  exact ⟨_, _, _, _, rfl, h_n, rfl⟩

/-- only the template: an accepted instruction list IS the template instance, the result its captures -/
theorem C04_fn_parse_to_countersigner_delayed_script_only (ci : Gen.FnTxParse.CommitmentInfo) (is : List Instr) (r : List Nat)
    (h : Gen.FnTxParse.CommitmentInfo.parse_to_countersigner_delayed_script (ext_Script_instructions := xInstrs) (ext_Instructions_expect_op := xOp) (ext_Instructions_expect_data := xData) (ext_Instructions_expect_script_end := xEnd) ci is = .ok r) :
    ∃ (k : Bytes), is = [.push k, .op 0xad, .op 0x51, .op 0xb2] ∧ r = nat k := by
  simp only [Gen.FnTxParse.CommitmentInfo.parse_to_countersigner_delayed_script, xInstrs, bind_ok_iff, Prod.exists, xOp_ok_iff, xData_ok_iff, xNum_ok_iff, xEnd_ok_iff, pure, Except.pure, Except.ok.injEq] at h
  obtain ⟨_, _, ⟨k, rfl, rfl⟩, _, rfl, _, rfl, _, rfl, _, ⟨rfl, rfl⟩, rfl⟩ := h
  exact ⟨_, rfl, rfl⟩

/-- only the template: an accepted instruction list IS the template instance, the result its captures -/
theorem C04_fn_parse_anchor_script_only (ci : Gen.FnTxParse.CommitmentInfo) (is : List Instr) (r : List Nat)
    (h : Gen.FnTxParse.CommitmentInfo.parse_anchor_script (ext_Script_instructions := xInstrs) (ext_Instructions_expect_op := xOp) (ext_Instructions_expect_data := xData) (ext_Instructions_expect_script_end := xEnd) ci is = .ok r) :
    ∃ (k : Bytes), is = [.push k, .op 0xac, .op 0x73, .op 0x64, .op 0x60, .op 0xb2, .op 0x68] ∧ r = nat k := by
  simp only [Gen.FnTxParse.CommitmentInfo.parse_anchor_script, xInstrs, bind_ok_iff, Prod.exists, xOp_ok_iff, xData_ok_iff, xNum_ok_iff, xEnd_ok_iff, pure, Except.pure, Except.ok.injEq] at h
  obtain ⟨_, _, ⟨k, rfl, rfl⟩, _, rfl, _, rfl, _, rfl, _, rfl, _, rfl, _, rfl, _, ⟨rfl, rfl⟩, rfl⟩ := h
  exact ⟨_, rfl, rfl⟩

/-- only the template (both channel types): an accepted instruction list IS the template instance -/
theorem C04_fn_parse_received_htlc_script_only (a : Bool) (is : List Instr) (r : List Nat × List Nat × List Nat × List Nat × Int)
    (h : Gen.FnTxParse.parse_received_htlc_script (ext_Script_instructions := xInstrs) (ext_Instructions_expect_op := xOp) (ext_Instructions_expect_data := xData) (ext_Instructions_expect_script_end := xEnd) (ext_Instructions_expect_number := xNum) is a = .ok r) :
    ∃ (rh : Bytes) (k1 : Bytes) (i_32 : Instr) (ph : Bytes) (k2 : Bytes) (i_cltv : Instr) (cltv : Int), is = [.op 0x76, .op 0xa9, .push rh, .op 0x87, .op 0x63, .op 0xac, .op 0x67, .push k1, .op 0x7c, .op 0x82, i_32, .op 0x87, .op 0x63, .op 0xa9, .push ph, .op 0x88, .op 0x52, .op 0x7c, .push k2, .op 0x52, .op 0xae, .op 0x67, .op 0x75, i_cltv, .op 0xb1, .op 0x75, .op 0xac, .op 0x68] ++ csvTail a ++ [.op 0x68] ∧ expectNumber i_32 = some 32 ∧ expectNumber i_cltv = some cltv ∧ r = (nat rh, nat k1, nat ph, nat k2, cltv) := by
  cases a
  ·
    simp only [Gen.FnTxParse.parse_received_htlc_script, xInstrs, bind_ok_iff, Prod.exists, xOp_ok_iff, xData_ok_iff, xNum_ok_iff, xEnd_ok_iff, ite_fail_ok_iff, pure, Except.pure, Except.ok.injEq, if_true, if_false, Bool.false_eq_true] at h
    obtain ⟨_, rfl, _, rfl, _, _, ⟨rh, rfl, rfl⟩, _, rfl, _, rfl, _, rfl, _, rfl, _, _, ⟨k1, rfl, rfl⟩, _, rfl, _, rfl, _, v32, ⟨i_32, rfl, h_32⟩, hb, _, rfl, _, rfl, _, rfl, _, _, ⟨ph, rfl, rfl⟩, _, rfl, _, rfl, _, rfl, _, _, ⟨k2, rfl, rfl⟩, _, rfl, _, rfl, _, rfl, _, rfl, _, _, ⟨i_cltv, rfl, h_cltv⟩, _, rfl, _, rfl, _, rfl, _, rfl, _, rfl, _, rfl, _, ⟨rfl, rfl⟩, rfl⟩ := h
    have e32 : v32 = 32 := by simpa using hb
    subst e32
    exact ⟨_, _, _, _, _, _, _, rfl, h_32, h_cltv, rfl⟩
  ·
    simp only [Gen.FnTxParse.parse_received_htlc_script, xInstrs, bind_ok_iff, Prod.exists, xOp_ok_iff, xData_ok_iff, xNum_ok_iff, xEnd_ok_iff, ite_fail_ok_iff, pure, Except.pure, Except.ok.injEq, if_true, if_false, Bool.false_eq_true] at h
    obtain ⟨_, rfl, _, rfl, _, _, ⟨rh, rfl, rfl⟩, _, rfl, _, rfl, _, rfl, _, rfl, _, _, ⟨k1, rfl, rfl⟩, _, rfl, _, rfl, _, v32, ⟨i_32, rfl, h_32⟩, hb, _, rfl, _, rfl, _, rfl, _, _, ⟨ph, rfl, rfl⟩, _, rfl, _, rfl, _, rfl, _, _, ⟨k2, rfl, rfl⟩, _, rfl, _, rfl, _, rfl, _, rfl, _, _, ⟨i_cltv, rfl, h_cltv⟩, _, rfl, _, rfl, _, rfl, _, rfl, _, rfl, _, rfl, _, rfl, _, rfl, _, rfl, _, ⟨rfl, rfl⟩, rfl⟩ := h
    have e32 : v32 = 32 := by simpa using hb
    subst e32
    exact ⟨_, _, _, _, _, _, _, rfl, h_32, h_cltv, rfl⟩

/-- only the template (both channel types): an accepted instruction list IS the template instance -/
theorem C04_fn_parse_offered_htlc_script_only (a : Bool) (is : List Instr) (r : List Nat × List Nat × List Nat × List Nat)
    (h : Gen.FnTxParse.parse_offered_htlc_script (ext_Script_instructions := xInstrs) (ext_Instructions_expect_op := xOp) (ext_Instructions_expect_data := xData) (ext_Instructions_expect_script_end := xEnd) (ext_Instructions_expect_number := xNum) is a = .ok r) :
    ∃ (rh : Bytes) (k1 : Bytes) (i_32 : Instr) (k2 : Bytes) (ph : Bytes), is = [.op 0x76, .op 0xa9, .push rh, .op 0x87, .op 0x63, .op 0xac, .op 0x67, .push k1, .op 0x7c, .op 0x82, i_32, .op 0x87, .op 0x64, .op 0x75, .op 0x52, .op 0x7c, .push k2, .op 0x52, .op 0xae, .op 0x67, .op 0xa9, .push ph, .op 0x88, .op 0xac, .op 0x68] ++ csvTail a ++ [.op 0x68] ∧ expectNumber i_32 = some 32 ∧ r = (nat rh, nat k1, nat k2, nat ph) := by
  cases a
  ·
    simp only [Gen.FnTxParse.parse_offered_htlc_script, xInstrs, bind_ok_iff, Prod.exists, xOp_ok_iff, xData_ok_iff, xNum_ok_iff, xEnd_ok_iff, ite_fail_ok_iff, pure, Except.pure, Except.ok.injEq, if_true, if_false, Bool.false_eq_true] at h
    obtain ⟨_, rfl, _, rfl, _, _, ⟨rh, rfl, rfl⟩, _, rfl, _, rfl, _, rfl, _, rfl, _, _, ⟨k1, rfl, rfl⟩, _, rfl, _, rfl, _, v32, ⟨i_32, rfl, h_32⟩, hb, _, rfl, _, rfl, _, rfl, _, rfl, _, rfl, _, _, ⟨k2, rfl, rfl⟩, _, rfl, _, rfl, _, rfl, _, rfl, _, _, ⟨ph, rfl, rfl⟩, _, rfl, _, rfl, _, rfl, _, rfl, _, rfl, _, ⟨rfl, rfl⟩, rfl⟩ := h
    have e32 : v32 = 32 := by simpa using hb
    subst e32
    exact ⟨_, _, _, _, _, rfl, h_32, rfl⟩
  ·
    simp only [Gen.FnTxParse.parse_offered_htlc_script, xInstrs, bind_ok_iff, Prod.exists, xOp_ok_iff, xData_ok_iff, xNum_ok_iff, xEnd_ok_iff, ite_fail_ok_iff, pure, Except.pure, Except.ok.injEq, if_true, if_false, Bool.false_eq_true] at h
    obtain ⟨_, rfl, _, rfl, _, _, ⟨rh, rfl, rfl⟩, _, rfl, _, rfl, _, rfl, _, rfl, _, _, ⟨k1, rfl, rfl⟩, _, rfl, _, rfl, _, v32, ⟨i_32, rfl, h_32⟩, hb, _, rfl, _, rfl, _, rfl, _, rfl, _, rfl, _, _, ⟨k2, rfl, rfl⟩, _, rfl, _, rfl, _, rfl, _, rfl, _, _, ⟨ph, rfl, rfl⟩, _, rfl, _, rfl, _, rfl, _, rfl, _, rfl, _, rfl, _, rfl, _, rfl, _, ⟨rfl, rfl⟩, rfl⟩ := h
    have e32 : v32 = 32 := by simpa using hb
    subst e32
    exact ⟨_, _, _, _, _, rfl, h_32, rfl⟩



/-! ## Round 10 (b2): `CommitmentInfo2::claimable_balance` (tx.rs) translated (`Gen/FnTxBalance.lean`,
`fn_targets/TxBalance.b2.json`; the generic `T: PreimageMap` is an opaque type with the declared external
`T.has_preimage`) — both signing phases call it on the decoded / built commitment before validation. -/
set_option linter.unusedSimpArgs false
open Gen.FnTxBalance in
/-- `claimable_balance` (called by both signing phases BEFORE validation): for an outbound channel, a commitment whose
    outputs sum above the channel value is not refused but **panics** (`expect("channel_value should be >= total_value")`)
    — the observation recorded in notes/C04.md, now a theorem about the generated body. -/
theorem C04_fn_claimable_balance_panics_above_channel_value {PH T : Type} (hp : T → PH → Bool)
    (ci : CommitmentInfo2 PH) (pm : T) (cv tv : Nat)
    (ht : ci.total_value = .ok tv) (hlt : cv < tv) :
    ci.claimable_balance hp pm true cv = .error .panic := by
  simp [CommitmentInfo2.claimable_balance, ht, Rs.ucheckedSub, Rs.unwrap, bind, Except.bind, Rs.panic, Nat.not_le.mpr hlt]

open Gen.FnTxBalance in
/-- … and the sum overflowing `u64` is an overflow panic of `total_value` itself (debug build) -/
theorem C04_fn_claimable_balance_total_overflow {PH T : Type} (hp : T → PH → Bool)
    (ci : CommitmentInfo2 PH) (pm : T) (cv : Nat) (e : Rs.Fail)
    (ht : ci.total_value = .error e) :
    ci.claimable_balance hp pm true cv = .error e := by
  simp [CommitmentInfo2.claimable_balance, ht, bind, Except.bind]

open Gen.FnTxBalance in
/-- inbound channel, no HTLCs: the holder's main output (which side it is depends on the broadcaster) -/
theorem C04_fn_claimable_balance_no_htlcs {PH T : Type} (hp : T → PH → Bool) (pm : T) (cb : Bool) (a b cv : Nat) :
    (CommitmentInfo2.mk cb a b [] [] : CommitmentInfo2 PH).claimable_balance hp pm false cv
      = .ok (if cb then a else b) := by
  cases cb <;> simp [CommitmentInfo2.claimable_balance, CommitmentInfo2.value_to_parties, bind, Except.bind, pure, Except.pure]

open Gen.FnTxBalance in
/-- outbound channel, no HTLCs, outputs within the channel value: main output + the fee (`channel_value - total`) -/
theorem C04_fn_claimable_balance_outbound_no_htlcs {PH T : Type} (hp : T → PH → Bool) (pm : T) (cb : Bool) (a b cv : Nat)
    (hab : a + b ≤ cv) (hcv : cv ≤ Rs.U64_MAX) :
    (CommitmentInfo2.mk cb a b [] [] : CommitmentInfo2 PH).claimable_balance hp pm true cv
      = .ok ((if cb then a else b) + (cv - (b + a))) := by
  have h1 : b + a ≤ Rs.U64_MAX := by omega
  have h2 : b + a ≤ cv := by omega
  cases cb <;>
    simp [CommitmentInfo2.claimable_balance, CommitmentInfo2.value_to_parties, CommitmentInfo2.total_value, Rs.uadd, Rs.usum,
      Rs.ucheckedSub, Rs.ucheckedAdd, Rs.unwrap, bind, Except.bind, pure, Except.pure, h1, h2]
  · have h3 : b + (cv - (b + a)) ≤ Rs.U64_MAX := by omega
    simp [h3]
  · have h3 : a + (cv - (b + a)) ≤ Rs.U64_MAX := by omega
    simp [h3]

/-- the value `claimable_balance` adds for a list of HTLCs selected by `sel` -/
def selSum {PH : Type} (sel : PH → Bool) (l : List (Gen.FnTxBalance.HTLCInfo2 PH)) : Nat :=
  ((l.filter (fun h => sel h.payment_hash)).map (·.value_sat)).sum

theorem foldl_sel {PH : Type} (sel : PH → Bool) (f : Nat → Gen.FnTxBalance.HTLCInfo2 PH → Rs.M Nat)
    (hf : ∀ b o, f b o = if sel o.payment_hash then (if b + o.value_sat ≤ Rs.U64_MAX then .ok (b + o.value_sat) else .error .panic) else .ok b)
    (l : List (Gen.FnTxBalance.HTLCInfo2 PH)) (bal : Nat)
    (h : bal + selSum sel l ≤ Rs.U64_MAX) :
    List.foldlM f bal l = .ok (bal + selSum sel l) := by
  induction l generalizing bal with
  | nil => simp [selSum, pure, Except.pure]
  | cons x xs ih =>
    simp only [List.foldlM_cons, hf]
    by_cases hs : sel x.payment_hash
    · have e : selSum sel (x :: xs) = x.value_sat + selSum sel xs := by simp [selSum, hs]
      rw [e] at h ⊢
      have h1 : bal + x.value_sat ≤ Rs.U64_MAX := by omega
      simp only [hs, if_true, h1, bind, Except.bind]
      rw [ih (bal + x.value_sat) (by omega)]; congr 1; omega
    · have e : selSum sel (x :: xs) = selSum sel xs := by simp [selSum, hs]
      rw [e] at h ⊢
      simp only [hs, bind, Except.bind]
      exact ih bal h

open Gen.FnTxBalance in
/-- **closed form** (inbound channel, the case of a counterparty-funded channel): the holder's main output + the HTLCs the
    holder offers whose preimage is unknown + the HTLCs offered to the holder whose preimage is known; which list is
    "offered by the holder" flips with the broadcaster.  No panic as long as the sum fits `u64`. -/
theorem C04_fn_claimable_balance {PH T : Type} (hp : T → PH → Bool) (ci : CommitmentInfo2 PH) (pm : T) (cv : Nat)
    (hfit : ci.value_to_parties.1
      + selSum (fun h => !hp pm h) (if ci.is_counterparty_broadcaster then ci.received_htlcs else ci.offered_htlcs)
      + selSum (fun h => hp pm h) (if ci.is_counterparty_broadcaster then ci.offered_htlcs else ci.received_htlcs) ≤ Rs.U64_MAX) :
    ci.claimable_balance hp pm false cv = .ok (ci.value_to_parties.1
      + selSum (fun h => !hp pm h) (if ci.is_counterparty_broadcaster then ci.received_htlcs else ci.offered_htlcs)
      + selSum (fun h => hp pm h) (if ci.is_counterparty_broadcaster then ci.offered_htlcs else ci.received_htlcs)) := by
  unfold CommitmentInfo2.claimable_balance
  cases hb : ci.is_counterparty_broadcaster <;> simp only [hb, if_true, if_false, Bool.false_eq_true] at hfit ⊢
  all_goals
    simp only [Rs.pure_eq, Rs.bind_ok]
    rw [foldl_sel (fun h => !hp pm h) _ (by
      intro b o; by_cases hle : b + o.value_sat ≤ Rs.U64_MAX <;> cases hh : hp pm o.payment_hash <;>
        simp [hh, hle, Rs.ucheckedAdd, Rs.unwrap, Rs.panic, bind, Except.bind, pure, Except.pure]) _ ci.value_to_parties.1 (by omega)]
    simp only [Rs.pure_eq, Rs.bind_ok]
    rw [foldl_sel (fun h => hp pm h) _ (by
      intro b o; by_cases hle : b + o.value_sat ≤ Rs.U64_MAX <;> cases hh : hp pm o.payment_hash <;>
        simp [hh, hle, Rs.ucheckedAdd, Rs.unwrap, Rs.panic, bind, Except.bind, pure, Except.pure]) _ _ hfit]

/-- non-vacuity: holder main output 200, offers 10 (preimage 1 known) and 20 (unknown), is offered 5 (known) and 7 (unknown) -/
example : (Gen.FnTxBalance.CommitmentInfo2.mk false 100 200 [⟨10, 1⟩, ⟨20, 2⟩] [⟨5, 1⟩, ⟨7, 3⟩] :
      Gen.FnTxBalance.CommitmentInfo2 Nat).claimable_balance (fun (_ : Unit) h => h == 1) () false 1000 = .ok 225 := by rfl
/-- … and the same outputs on an outbound channel of 300 sat (< 342 = total): panic -/
example : (Gen.FnTxBalance.CommitmentInfo2.mk false 100 200 [⟨10, 1⟩, ⟨20, 2⟩] [⟨5, 1⟩, ⟨7, 3⟩] :
      Gen.FnTxBalance.CommitmentInfo2 Nat).claimable_balance (fun (_ : Unit) h => h == 1) () true 300 = .error .panic := by rfl

/-! ## Round 10 (b2): `CommitmentInfo2::delta_offered_htlcs / delta_received_htlcs` (tx.rs; `Gen/FnTxDelta.lean`,
`AddedItemsIter::new(from, to)` = "the elements of `to` that are not in `from`" as a declared external): for every such iterator,
the first component ranges over what the NEW commitment adds, the second over what it removes, on the list of the right
direction — an exchanged argument pair or list in the source breaks these. -/
theorem C04_fn_delta_offered_htlcs {I : Type} (added : List Gen.FnTxDelta.HTLCInfo2 → List Gen.FnTxDelta.HTLCInfo2 → I)
    (cur new : Gen.FnTxDelta.CommitmentInfo2) :
    cur.delta_offered_htlcs added new = (added cur.offered_htlcs new.offered_htlcs, added new.offered_htlcs cur.offered_htlcs)
    ∧ (cur.delta_offered_htlcs added new).2 = (new.delta_offered_htlcs added cur).1 := ⟨rfl, rfl⟩

theorem C04_fn_delta_received_htlcs {I : Type} (added : List Gen.FnTxDelta.HTLCInfo2 → List Gen.FnTxDelta.HTLCInfo2 → I)
    (cur new : Gen.FnTxDelta.CommitmentInfo2) :
    cur.delta_received_htlcs added new = (added cur.received_htlcs new.received_htlcs, added new.received_htlcs cur.received_htlcs)
    ∧ (cur.delta_received_htlcs added new).2 = (new.delta_received_htlcs added cur).1 := ⟨rfl, rfl⟩

end VlsModel.Props.C04Fn
