import VlsModel.Model.Bolt3Htlc
import VlsModel.Gen.FnTxUtil
import VlsModel.Lemmas.FnGen
/-
C04 — `Bolt3.estimateFeerate` (the feerate the signer infers for a second-level HTLC transaction,
`Model/Bolt3Htlc.lean`) proved equal to the body of `estimate_feerate_per_kw` that `translate/rs2lean.py`
regenerates from `vls-core/src/util/transaction_utils.rs` (`Gen/FnTxUtil.lean`): saturating `* 1000`, saturating
`+ 999`, division by the weight, clamp into `u32`.  The division panics for a zero weight (the model's `Nat`
division would give 0); the only callers pass LDK's `htlc_timeout_tx_weight`/`htlc_success_tx_weight` (663/703) or
the weight of a transaction with an input.
-/
namespace VlsModel.Props.C04Fn
open VlsModel

theorem C04_fn_estimate_feerate (fee weight : Nat) (hw : weight ≠ 0) :
    Gen.FnTxUtil.estimate_feerate_per_kw fee weight = .ok (Bolt3.estimateFeerate fee weight) := by
  unfold Gen.FnTxUtil.estimate_feerate_per_kw Bolt3.estimateFeerate
  simp only [Rs.udiv, hw, if_false, Rs.bind_ok, Rs.pure_eq, Rs.usatAdd, Rs.usatMul, Rs.utryFrom, Rs.U64_MAX, Rs.U32_MAX]
  have key : ∀ q m : Nat, (if q ≤ m then some q else none).getD m = min q m := by
    intro q m; by_cases h : q ≤ m <;> simp [h, Nat.min_def]
  simp
  exact key _ _

theorem C04_fn_estimate_feerate_weight_zero (fee : Nat) :
    Gen.FnTxUtil.estimate_feerate_per_kw fee 0 = .error .panic := by
  simp [Gen.FnTxUtil.estimate_feerate_per_kw, Rs.udiv, Rs.panic, bind, Except.bind]

end VlsModel.Props.C04Fn
