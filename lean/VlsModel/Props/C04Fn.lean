import VlsModel.Model.Bolt3Htlc
import VlsModel.Gen.FnTxUtil
import VlsModel.Gen.FnTxInfo
import VlsModel.Gen.FnChannel
import VlsModel.Gen.FnChannelOic
import VlsModel.Lemmas.FnGen
/-
C04 — `Bolt3.estimateFeerate` (the feerate the signer infers for a second-level HTLC transaction,
`Model/Bolt3Htlc.lean`) proved equal to the body of `estimate_feerate_per_kw` that `translate/rs2lean.py`
regenerates from `vls-core/src/util/transaction_utils.rs` (`Gen/FnTxUtil.lean`): saturating `* 1000`, saturating
`+ 999`, division by the weight, clamp into `u32`.  The division panics for a zero weight (the model's `Nat`
division would give 0); the only callers pass LDK's `htlc_timeout_tx_weight`/`htlc_success_tx_weight` (663/703) or
the weight of a transaction with an input.
-/
namespace VlsModel.Props.C04Fn
open VlsModel

theorem C04_fn_estimate_feerate (fee weight : Nat) (hw : weight ≠ 0) :
    Gen.FnTxUtil.estimate_feerate_per_kw fee weight = .ok (Bolt3.estimateFeerate fee weight) := by
  unfold Gen.FnTxUtil.estimate_feerate_per_kw Bolt3.estimateFeerate
  simp only [Rs.udiv, hw, if_false, Rs.bind_ok, Rs.pure_eq, Rs.usatAdd, Rs.usatMul, Rs.utryFrom, Rs.U64_MAX, Rs.U32_MAX]
  have key : ∀ q m : Nat, (if q ≤ m then some q else none).getD m = min q m := by
    intro q m; by_cases h : q ≤ m <;> simp [h, Nat.min_def]
  simp
  exact key _ _

theorem C04_fn_estimate_feerate_weight_zero (fee : Nat) :
    Gen.FnTxUtil.estimate_feerate_per_kw fee 0 = .error .panic := by
  simp [Gen.FnTxUtil.estimate_feerate_per_kw, Rs.udiv, Rs.panic, bind, Except.bind]

/-! ## `ChannelSetup::{is_static_remotekey, is_anchors, is_zero_fee_htlc}` (channel.rs) = the model's `CType` predicates

The decoder (`handle_output`, the HTLC templates), the validator and `features()` branch on these; the model's
`CType.isAnchors` / `isZeroFee` are proved equal to the bodies regenerated from `vls-core/src/channel.rs`
(`Gen/FnChannel.lean`; the generated `CommitmentType` lists the enum's variants in declaration order). -/

def toGenCType : Bolt3.CType → Gen.FnChannel.CommitmentType
  | .legacy => .Legacy
  | .staticRemoteKey => .StaticRemoteKey
  | .anchors => .Anchors
  | .anchorsZeroFee => .AnchorsZeroFeeHtlc

/-- every variant of the source's enum is the image of a model type: the model misses no commitment type -/
theorem C04_fn_ctype_surjective (g : Gen.FnChannel.CommitmentType) : ∃ t, toGenCType t = g := by
  cases g
  · exact ⟨.legacy, rfl⟩
  · exact ⟨.staticRemoteKey, rfl⟩
  · exact ⟨.anchors, rfl⟩
  · exact ⟨.anchorsZeroFee, rfl⟩

theorem C04_fn_is_anchors (t : Bolt3.CType) :
    Gen.FnChannel.ChannelSetup.is_anchors ⟨toGenCType t⟩ = t.isAnchors := by
  cases t <;> rfl

theorem C04_fn_is_zero_fee_htlc (t : Bolt3.CType) :
    Gen.FnChannel.ChannelSetup.is_zero_fee_htlc ⟨toGenCType t⟩ = t.isZeroFee := by
  cases t <;> rfl

/-- `is_static_remotekey` = "not Legacy" (the model's `canon` builds the same p2wpkh to_remote for Legacy and
    StaticRemoteKey: the payment key is an input of the model, `Keys.cPayment`) -/
theorem C04_fn_is_static_remotekey (t : Bolt3.CType) :
    Gen.FnChannel.ChannelSetup.is_static_remotekey ⟨toGenCType t⟩ = decide (t ≠ .legacy) := by
  cases t <;> rfl

/-! ## `CommitmentInfo::{new, has_to_broadcaster, has_to_countersigner}` (tx.rs) and the model's `Info`

The model's `Info` is an abstraction of the decoder's accumulator `CommitmentInfo`: one flag per side instead of the
optional key / address, counters instead of the HTLC lists.  `absInfo` is that abstraction, defined on the structure
regenerated from the source (`Gen/FnTxInfo.lean`, all twelve fields: `new` writes them all); the singularity tests of
`handle_output` read `has_to_broadcaster` / `has_to_countersigner`. -/

def absInfo {A P : Type} (g : Gen.FnTxInfo.CommitmentInfo A P) : Bolt3.Info :=
  { hasCs := g.to_countersigner_address.isSome || g.to_countersigner_pubkey.isSome,
    csVal := g.to_countersigner_value_sat,
    hasBc := g.to_broadcaster_delayed_pubkey.isSome,
    bcVal := g.to_broadcaster_value_sat,
    anchorsB := g.to_broadcaster_anchor_count,
    anchorsC := g.to_countersigner_anchor_count,
    nOffered := g.offered_htlcs.length,
    nReceived := g.received_htlcs.length }

/-- `CommitmentInfo::new(_)` is the model's initial accumulator -/
theorem C04_fn_commitment_info_new (A P : Type) (b : Bool) :
    absInfo (Gen.FnTxInfo.CommitmentInfo.new b : Gen.FnTxInfo.CommitmentInfo A P) = Bolt3.Info.init := by
  rfl

theorem C04_fn_has_to_broadcaster {A P : Type} (g : Gen.FnTxInfo.CommitmentInfo A P) :
    Gen.FnTxInfo.CommitmentInfo.has_to_broadcaster g = (absInfo g).hasBc := by
  rfl

/-- to_remote is recorded as an address (p2wpkh) *or* a key (delayed to_remote): either one makes a second one refused -/
theorem C04_fn_has_to_countersigner {A P : Type} (g : Gen.FnTxInfo.CommitmentInfo A P) :
    Gen.FnTxInfo.CommitmentInfo.has_to_countersigner g = (absInfo g).hasCs := by
  rfl

/-! ## `Channel::htlcs_info2_to_oic` (channel.rs): the HTLC lists handed to LDK's builder

Both entry points turn the (offered, received) `HTLCInfo2` lists into `HTLCOutputInCommitment`s with this function:
offered first, `amount_msat = value_sat * 1000` (plain `*`: overflow-checked), the `offered` flag per list.  The model's
`rawElems` maps `htlcElem · true` over the offered and `htlcElem · false` over the received list in the same order, and
`buildPanics` is exactly the overflow of this function. -/

def toGenHtlc (h : Bolt3.Htlc) : Gen.FnChannelOic.HTLCInfo2 Nat := ⟨h.value, h.hash, h.cltv⟩

def oicOf (offered : Bool) (h : Bolt3.Htlc) : Gen.FnChannelOic.HTLCOutputInCommitment Nat :=
  { offered := offered, amount_msat := h.value * 1000, cltv_expiry := h.cltv, payment_hash := h.hash,
    transaction_output_index := none }

def mkOic (b : Bool) (t : Nat) (x : Gen.FnChannelOic.HTLCInfo2 Nat) : Gen.FnChannelOic.HTLCOutputInCommitment Nat :=
  { offered := b, amount_msat := t, cltv_expiry := x.cltv_expiry, payment_hash := x.payment_hash,
    transaction_output_index := none }

theorem foldlM_push {α β : Type} (f : List β → α → Rs.M (List β)) (v : α → Nat) (mk : Nat → α → β)
    (hf : ∀ acc x, f acc x = (Rs.umul Rs.U64_MAX (v x) 1000 >>= fun t => pure (acc ++ [mk t x]))) :
    ∀ (l : List α) (acc : List β),
      List.foldlM f acc l =
        if l.all (fun x => decide (v x * 1000 ≤ Rs.U64_MAX)) then .ok (acc ++ l.map (fun x => mk (v x * 1000) x))
        else .error .overflow := by
  intro l
  induction l with
  | nil => intro acc; simp [List.foldlM]
  | cons x xs ih =>
    intro acc
    rw [List.foldlM_cons, hf]
    by_cases hx : v x * 1000 ≤ Rs.U64_MAX
    · simp [Rs.umul, hx, ih, List.all_cons, List.append_assoc]
    · simp [Rs.umul, hx, Rs.overflow, List.all_cons]

theorem oic_two_folds {α β : Type} (f g : List β → α → Rs.M (List β)) (v : α → Nat) (mk1 mk2 : Nat → α → β)
    (hf : ∀ acc x, f acc x = (Rs.umul Rs.U64_MAX (v x) 1000 >>= fun t => pure (acc ++ [mk1 t x])))
    (hg : ∀ acc x, g acc x = (Rs.umul Rs.U64_MAX (v x) 1000 >>= fun t => pure (acc ++ [mk2 t x])))
    (l1 l2 : List α) :
    (List.foldlM f [] l1 >>= fun h => List.foldlM g h l2) =
      if (l1 ++ l2).all (fun x => decide (v x * 1000 ≤ Rs.U64_MAX)) then
        .ok (l1.map (fun x => mk1 (v x * 1000) x) ++ l2.map (fun x => mk2 (v x * 1000) x))
      else .error .overflow := by
  rw [foldlM_push f v mk1 hf]
  by_cases h1 : l1.all (fun x => decide (v x * 1000 ≤ Rs.U64_MAX)) = true
  · simp only [h1, if_true, Rs.bind_ok, List.nil_append]
    rw [foldlM_push g v mk2 hg]
    by_cases h2 : l2.all (fun x => decide (v x * 1000 ≤ Rs.U64_MAX)) = true
    · simp [h1, h2, List.all_append]
    · simp [h1, h2, List.all_append]
  · simp [h1, List.all_append]

theorem C04_fn_htlcs_info2_to_oic (off recv : List Bolt3.Htlc) :
    Gen.FnChannelOic.Channel.htlcs_info2_to_oic (off.map toGenHtlc) (recv.map toGenHtlc) =
      if (off ++ recv).all (fun h => decide (h.value * 1000 ≤ Rs.U64_MAX)) then
        .ok (off.map (oicOf true) ++ recv.map (oicOf false))
      else .error .overflow := by
  unfold Gen.FnChannelOic.Channel.htlcs_info2_to_oic
  refine (oic_two_folds _ _ (fun x => x.value_sat) (mkOic true) (mkOic false) ?_ ?_
    (off.map toGenHtlc) (recv.map toGenHtlc)).trans ?_
  · intro acc x; rfl
  · intro acc x; rfl
  · generalize Rs.U64_MAX = M
    have e1 : ∀ l : List Bolt3.Htlc, (l.map toGenHtlc).all (fun x => decide (x.value_sat * 1000 ≤ M))
        = l.all (fun h => decide (h.value * 1000 ≤ M)) := by
      intro l; induction l with
      | nil => rfl
      | cons a l ih => simp only [List.map_cons, List.all_cons, ih, toGenHtlc]
    have e2 : ∀ (b : Bool) (l : List Bolt3.Htlc),
        (l.map toGenHtlc).map (fun x => mkOic b (x.value_sat * 1000) x) = l.map (oicOf b) := by
      intro b l; induction l with
      | nil => rfl
      | cons a l ih => simp only [List.map_cons, ih]; rfl
    rw [List.all_append, List.all_append, e1, e1, e2, e2]

/-- the overflow of `htlcs_info2_to_oic` is the HTLC part of the model's `buildPanics` (the other part is
    `INITIAL_COMMITMENT_NUMBER - commitment_number`), and each converted entry carries the HTLC's fields -/
theorem C04_fn_oic_buildPanics (c : Bolt3.Content) :
    (Gen.FnChannelOic.Channel.htlcs_info2_to_oic (c.offered.map toGenHtlc) (c.received.map toGenHtlc) = .error .overflow)
      ↔ (c.offered ++ c.received).any (fun h => decide (h.value * 1000 ≥ Bolt3.U64_LIMIT)) = true := by
  rw [C04_fn_htlcs_info2_to_oic]
  have key : (c.offered ++ c.received).all (fun h => decide (h.value * 1000 ≤ Rs.U64_MAX)) =
      !(c.offered ++ c.received).any (fun h => decide (h.value * 1000 ≥ Bolt3.U64_LIMIT)) := by
    have e : ∀ h : Bolt3.Htlc, (!decide (h.value * 1000 ≤ Rs.U64_MAX)) = decide (h.value * 1000 ≥ Bolt3.U64_LIMIT) := by
      intro h
      by_cases hh : h.value * 1000 ≤ Rs.U64_MAX
      · have : ¬ (h.value * 1000 ≥ Bolt3.U64_LIMIT) := by simp only [Rs.U64_MAX, Bolt3.U64_LIMIT] at *; omega
        simp [hh, this]
      · have : (h.value * 1000 ≥ Bolt3.U64_LIMIT) := by simp only [Rs.U64_MAX, Bolt3.U64_LIMIT] at *; omega
        simp [hh, this]
    rw [List.all_eq_not_any_not]
    simp only [e]
  rw [key]
  cases (c.offered ++ c.received).any (fun h => decide (h.value * 1000 ≥ Bolt3.U64_LIMIT)) <;> simp

theorem C04_fn_oic_fields (b : Bool) (h : Bolt3.Htlc) :
    (oicOf b h).offered = b ∧ (oicOf b h).amount_msat / 1000 = h.value ∧ (oicOf b h).cltv_expiry = h.cltv ∧
    (oicOf b h).payment_hash = h.hash := by
  refine ⟨rfl, ?_, rfl, rfl⟩
  simp [oicOf]

end VlsModel.Props.C04Fn
