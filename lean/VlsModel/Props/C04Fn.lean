import VlsModel.Model.Bolt3Htlc
import VlsModel.Gen.FnTxUtil
import VlsModel.Gen.FnTx
import VlsModel.Gen.FnChannel
import VlsModel.Lemmas.FnGen
/-
C04 — `Bolt3.estimateFeerate` (the feerate the signer infers for a second-level HTLC transaction,
`Model/Bolt3Htlc.lean`) proved equal to the body of `estimate_feerate_per_kw` that `translate/rs2lean.py`
regenerates from `vls-core/src/util/transaction_utils.rs` (`Gen/FnTxUtil.lean`): saturating `* 1000`, saturating
`+ 999`, division by the weight, clamp into `u32`.  The division panics for a zero weight (the model's `Nat`
division would give 0); the only callers pass LDK's `htlc_timeout_tx_weight`/`htlc_success_tx_weight` (663/703) or
the weight of a transaction with an input.
-/
namespace VlsModel.Props.C04Fn
open VlsModel

theorem C04_fn_estimate_feerate (fee weight : Nat) (hw : weight ≠ 0) :
    Gen.FnTxUtil.estimate_feerate_per_kw fee weight = .ok (Bolt3.estimateFeerate fee weight) := by
  unfold Gen.FnTxUtil.estimate_feerate_per_kw Bolt3.estimateFeerate
  simp only [Rs.udiv, hw, if_false, Rs.bind_ok, Rs.pure_eq, Rs.usatAdd, Rs.usatMul, Rs.utryFrom, Rs.U64_MAX, Rs.U32_MAX]
  have key : ∀ q m : Nat, (if q ≤ m then some q else none).getD m = min q m := by
    intro q m; by_cases h : q ≤ m <;> simp [h, Nat.min_def]
  simp
  exact key _ _

theorem C04_fn_estimate_feerate_weight_zero (fee : Nat) :
    Gen.FnTxUtil.estimate_feerate_per_kw fee 0 = .error .panic := by
  simp [Gen.FnTxUtil.estimate_feerate_per_kw, Rs.udiv, Rs.panic, bind, Except.bind]

/-! ## `ChannelSetup::{is_static_remotekey, is_anchors, is_zero_fee_htlc}` (channel.rs) = the model's `CType` predicates

The decoder (`handle_output`, the HTLC templates), the validator and `features()` branch on these; the model's
`CType.isAnchors` / `isZeroFee` are proved equal to the bodies regenerated from `vls-core/src/channel.rs`
(`Gen/FnChannel.lean`; the generated `CommitmentType` lists the enum's variants in declaration order). -/

def toGenCType : Bolt3.CType → Gen.FnChannel.CommitmentType
  | .legacy => .Legacy
  | .staticRemoteKey => .StaticRemoteKey
  | .anchors => .Anchors
  | .anchorsZeroFee => .AnchorsZeroFeeHtlc

/-- every variant of the source's enum is the image of a model type: the model misses no commitment type -/
theorem C04_fn_ctype_surjective (g : Gen.FnChannel.CommitmentType) : ∃ t, toGenCType t = g := by
  cases g
  · exact ⟨.legacy, rfl⟩
  · exact ⟨.staticRemoteKey, rfl⟩
  · exact ⟨.anchors, rfl⟩
  · exact ⟨.anchorsZeroFee, rfl⟩

theorem C04_fn_is_anchors (t : Bolt3.CType) :
    Gen.FnChannel.ChannelSetup.is_anchors ⟨toGenCType t⟩ = t.isAnchors := by
  cases t <;> rfl

theorem C04_fn_is_zero_fee_htlc (t : Bolt3.CType) :
    Gen.FnChannel.ChannelSetup.is_zero_fee_htlc ⟨toGenCType t⟩ = t.isZeroFee := by
  cases t <;> rfl

/-- `is_static_remotekey` = "not Legacy" (the model's `canon` builds the same p2wpkh to_remote for Legacy and
    StaticRemoteKey: the payment key is an input of the model, `Keys.cPayment`) -/
theorem C04_fn_is_static_remotekey (t : Bolt3.CType) :
    Gen.FnChannel.ChannelSetup.is_static_remotekey ⟨toGenCType t⟩ = decide (t ≠ .legacy) := by
  cases t <;> rfl

/-! ## `CommitmentInfo::{has_to_broadcaster, has_to_countersigner}` (tx.rs) = the model's `Info.hasBc / hasCs`

The singularity tests of `handle_output` read these.  The model keeps one flag per side; the code keeps
`to_broadcaster_delayed_pubkey`, and for the countersigner an address (p2wpkh) *or* a key (delayed to_remote):
`viaAddr` says which of the two the flag stands for. -/

def toGenInfo (d : Bolt3.Info) (viaAddr : Bool) : Gen.FnTx.CommitmentInfo Unit Unit :=
  { to_countersigner_address := if d.hasCs && viaAddr then some () else none,
    to_countersigner_pubkey := if d.hasCs && !viaAddr then some () else none,
    to_broadcaster_delayed_pubkey := if d.hasBc then some () else none }

theorem C04_fn_has_to_broadcaster (d : Bolt3.Info) (v : Bool) :
    Gen.FnTx.CommitmentInfo.has_to_broadcaster (toGenInfo d v) = d.hasBc := by
  cases h : d.hasBc <;> simp [Gen.FnTx.CommitmentInfo.has_to_broadcaster, toGenInfo, h]

theorem C04_fn_has_to_countersigner (d : Bolt3.Info) (v : Bool) :
    Gen.FnTx.CommitmentInfo.has_to_countersigner (toGenInfo d v) = d.hasCs := by
  cases h : d.hasCs <;> cases v <;> simp [Gen.FnTx.CommitmentInfo.has_to_countersigner, toGenInfo, h]

end VlsModel.Props.C04Fn
