import VlsModel.Gen.FnHandlerAcc
import VlsModel.Gen.FnNodeForget
import VlsModel.Gen.FnNodeNewChannel
/-
C10 — companion module: functions of `vls-protocol-signer/src/handler.rs` translated from the Rust source on every run
(`translate/rs2lean.py`, target list `translate/fn_targets/Handler.b1012.json`; methods named like a field of their struct
carry the suffix `_fn`).

The request arms of `RootHandler::do_handle` / `ChannelHandler::do_handle` are outside the translator's subset (their
check-before-effect shape is `C10_gen_arm_table` / `C10_gen_arm_frame`, from `translate/x_reqshape.py`).  What is translated
here is everything *around* the arms that a refused request also runs through: the accessors through which every arm
reaches the node, the logging helpers of `Handler::handle` (called before the arm, on its error and on its reply), and the
construction of the handlers, which fixes the protocol version the version-dependent arms branch on.  The theorems state
that none of it can change signer state: each is a function of the handler value alone, returning a field, a copy with
one field replaced, or `()`.
-/
namespace VlsModel.Props.C10Fn
open VlsModel VlsModel.Gen.FnHandlerAcc

/-- **C10_fn_handler_accessors**: `node()`, `client_id()`, `dbid()` of the three handlers are the corresponding fields — the
    `Arc<Node>` an arm works on is the one the handler was built with, whatever was refused before. -/
theorem C10_fn_handler_accessors {Node Approve : Type} (i : InitHandler Node Approve) (r : RootHandler Node Approve)
    (c : ChannelHandler Node) :
    i.node_fn = i.node ∧ r.node_fn = r.node ∧ r.client_id = r.id ∧ c.node_fn = c.node ∧ c.client_id = c.id ∧ c.dbid_fn = c.dbid :=
  ⟨rfl, rfl, rfl, rfl, rfl, rfl⟩

/-- **C10_fn_handler_log**: the logging helpers that `Handler::handle` wraps around `do_handle` (before the arm, on `Err`, on the
    reply) compute nothing: a refused request leaves through `log_error` without any effect of the wrapper's own. -/
theorem C10_fn_handler_log {Message SerBolt ProtocolError Status : Type} (m : Message) (rep : SerBolt) (e : Error ProtocolError Status) :
    log_request m = () ∧ log_error e = () ∧ log_reply rep = () := ⟨rfl, rfl, rfl⟩

/-- **C10_fn_init_handler**: an `InitHandler` starts without a negotiated protocol version; `reset` (a new `HsmdInit`
    negotiation) clears only that; `into()` panics unless a version was negotiated and otherwise makes the `RootHandler` of
    the same node, approver and id with exactly the negotiated version — the number the arms
    `ValidateCommitmentTx` / `ValidateCommitmentTx2` / `RevokeCommitmentTx` branch on (`C10_gen_arm_paths`). -/
theorem C10_fn_init_handler {Node Approve : Type} (id : Nat) (node : Node) (ap : Approve) (maxv : Nat) (h : InitHandler Node Approve) :
    (InitHandler.new id node ap maxv).protocol_version = none ∧ (InitHandler.new id node ap maxv).node = node ∧
    (InitHandler.new id node ap maxv).max_protocol_version = maxv ∧
    h.reset = { h with protocol_version := none } ∧
    (h.protocol_version = none → h.into = .error .panic) ∧
    (∀ v, h.protocol_version = some v → h.into = .ok { id := h.id, node := h.node, approver := h.approver, protocol_version := v }) := by
  refine ⟨rfl, rfl, rfl, rfl, ?_, ?_⟩
  · intro hn; simp [InitHandler.into, hn, Rs.unwrap, Rs.panic, bind, Except.bind]
  · intro v hv; simp [InitHandler.into, hv, Rs.unwrap, bind, Except.bind, pure, Except.pure]

/-- **C10_fn_handler_builder**: the builder's setters replace exactly their own field. -/
theorem C10_fn_handler_builder {Approve : Type} (b : HandlerBuilder Approve) (al : List String) (ap : Approve) (v : Nat) :
    b.allowlist_fn al = { b with allowlist := al } ∧ b.approver_fn ap = { b with approver := ap } ∧
    b.max_protocol_version_fn v = { b with max_protocol_version := v } := ⟨rfl, rfl, rfl⟩

/-- non-vacuity: a handler that negotiated version 4 becomes a root handler at version 4 -/
example : (InitHandler.into (Node := Nat) (Approve := Unit) ⟨0, 7, (), 6, some 4⟩) = .ok ⟨0, 7, (), 4⟩ := rfl

/-! ### Round 10 (builder b5): the refusal of `Node::forget_channel` (translated: `Gen.FnNodeForget`, tied for C11 by
    `C11Fn.C11_fn_forget_channel`) -/
section Forget
open VlsModel.Gen.FnNodeForget

/-- **C10_fn_forget_channel_refused**: the only refusal of `Node::forget_channel` — the ready channel's `forget()` returning an
    error — happens before any store write: the result is that error whatever the persister would have answered (a persister
    call evaluated before it could only turn the result into a panic), i.e. no `update_node` / `delete_channel` /
    `update_tracker` is reached.  And an id the channel map does not hold is `Ok` without any write. -/
theorem C10_fn_forget_channel_refused {ChannelId PublicKey ChainTracker Persist : Type} [DecidableEq ChannelId]
    (chs : Node ChannelId PublicKey ChainTracker Persist → List (ChannelId × ChannelSlot))
    (fg : Channel → Rs.M Unit) (st : Node ChannelId PublicKey ChainTracker Persist → NodeState)
    (oid : ChannelId → Nat) (updn : Persist → PublicKey → NodeState → Option Unit)
    (del : Persist → PublicKey → ChannelId → Option Unit) (updt : Persist → PublicKey → ChainTracker → Option Unit)
    (self : Node ChannelId PublicKey ChainTracker Persist) (id : ChannelId) :
    (∀ ch f, Rs.omapGet (chs self) id = some (.Ready ch) → fg ch = .error f →
      Node.forget_channel chs fg st oid updn del updt self id = .error f) ∧
    (Rs.omapGet (chs self) id = none → Node.forget_channel chs fg st oid updn del updt self id = .ok ()) := by
  constructor
  · intro ch f hg hf
    unfold Node.forget_channel
    simp only [hg, hf, bind, Except.bind]
  · intro hg
    unfold Node.forget_channel
    simp [hg, bind, Except.bind, pure, Except.pure]

/-- non-vacuity: a ready channel whose monitor refuses the forget, over a persister that fails every write -/
example :
    let node : Node Nat Nat Nat Nat := { channels := [(2, .Ready ⟨⟩)], persister := 0, tracker := 4, state := ⟨3⟩, node_id := 9 }
    Node.forget_channel (fun n => n.channels) (fun _ => Rs.fail "policy") (fun n => n.state) id (fun _ _ _ => none)
        (fun _ _ _ => none) (fun _ _ _ => none) node 2 = Rs.fail "policy" := by
  intro node; rfl

end Forget

section NewChannel
open VlsModel.Gen.FnNodeNewChannel
variable {ChannelId ChannelSlot PublicKey Persist Policy InMemorySigner WeakNode Secp256k1 : Type} [DecidableEq ChannelId]
  (bh : Node ChannelId ChannelSlot PublicKey Persist → Nat)
  (chs : Node ChannelId ChannelSlot PublicKey Persist → List (ChannelId × ChannelSlot))
  (pol : Policy) (maxc : Policy → Nat)
  (keys : ChannelId → Nat → Node ChannelId ChannelSlot PublicKey Persist → InMemorySigner)
  (dg : Node ChannelId ChannelSlot PublicKey Persist → WeakNode) (secp : Secp256k1)
  (mkStub : ChannelStub WeakNode Secp256k1 InMemorySigner ChannelId → ChannelSlot)
  (nc : Persist → PublicKey → ChannelStub WeakNode Secp256k1 InMemorySigner ChannelId → Option Unit)
  (self arc : Node ChannelId ChannelSlot PublicKey Persist) (cid : ChannelId)

/-- **C10_fn_find_or_create_channel_refused**: the two refusals of `Node::find_or_create_channel` (`new_channel`: a dbid at or
    below the high-water mark; a full channel map) are decided before the stub is built, inserted or written: the result is
    the refusal for EVERY persister `nc` (no `persister.new_channel` is reached), and an id the map already holds is
    answered with the existing slot, again without a write. -/
theorem C10_fn_find_or_create_channel_refused (mono : Option Nat) :
    (∀ dbid, mono = some dbid → self.state.dbid_high_water_mark ≥ dbid →
      Node.find_or_create_channel bh chs pol maxc keys dg secp mkStub nc self cid arc mono
        = VlsModel.Rs.fail "policy-channel-original-channel-id-reuse") ∧
    ((∀ dbid, mono = some dbid → self.state.dbid_high_water_mark < dbid) → (chs self).length ≥ maxc pol →
      Node.find_or_create_channel bh chs pol maxc keys dg secp mkStub nc self cid arc mono
        = VlsModel.Rs.fail "Status::failed_precondition") ∧
    ((∀ dbid, mono = some dbid → self.state.dbid_high_water_mark < dbid) → (chs self).length < maxc pol →
      ∀ slot, VlsModel.Rs.omapGet (chs self) cid = some slot →
      Node.find_or_create_channel bh chs pol maxc keys dg secp mkStub nc self cid arc mono = .ok (cid, some slot)) := by
  refine ⟨?_, ?_, ?_⟩
  · intro dbid hm hh
    subst hm
    unfold Node.find_or_create_channel
    simp [Node.get_state, hh]
  · intro hm hl
    unfold Node.find_or_create_channel
    cases mono with
    | none => simp [hl]
    | some d =>
      have := hm d rfl
      have h2 : ¬ (self.state.dbid_high_water_mark ≥ d) := by omega
      simp [Node.get_state, h2, hl]
  · intro hm hl slot hs
    unfold Node.find_or_create_channel
    have hl2 : ¬ ((chs self).length ≥ maxc pol) := by omega
    cases mono with
    | none => simp [hl2, hs, pure, Except.pure]
    | some d =>
      have := hm d rfl
      have h2 : ¬ (self.state.dbid_high_water_mark ≥ d) := by omega
      simp [Node.get_state, h2, hl2, hs, pure, Except.pure]

/-- **C10_fn_new_channel_refused**: `Node::new_channel` is `find_or_create_channel` on the id derived from (peer, dbid) with the
    dbid as the monotonic bound: a dbid at or below the high-water mark is refused for every persister. -/
theorem C10_fn_new_channel_refused (mkId : List Nat → Nat → ChannelId) (peer : List Nat) (dbid : Nat)
    (hh : self.state.dbid_high_water_mark ≥ dbid) :
    Node.new_channel mkId bh chs pol maxc keys dg secp mkStub nc self dbid peer arc
      = VlsModel.Rs.fail "policy-channel-original-channel-id-reuse" := by
  unfold Node.new_channel
  exact (C10_fn_find_or_create_channel_refused bh chs pol maxc keys dg secp mkStub nc self arc (mkId peer dbid) (some dbid)).1 dbid rfl hh

/-- non-vacuity: mark at 5, `new_channel` with dbid 5 over a persister that would fail: refused, not a panic -/
example :
    let node : Node Nat (Option (ChannelStub Nat Nat Nat Nat)) Nat Nat := { channels := [], persister := 0, state := ⟨5⟩, node_id := 9 }
    Node.new_channel (fun _ d => d) (fun _ => 7) (fun n => n.channels) (0 : Nat) (fun _ => 2) (fun _ _ _ => 0) (fun _ => 0) (0 : Nat)
      some (fun _ _ _ => none) node 5 [] node = VlsModel.Rs.fail "policy-channel-original-channel-id-reuse" := by
  intro node; rfl

end NewChannel

end VlsModel.Props.C10Fn
