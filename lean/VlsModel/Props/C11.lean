import VlsModel.Model.NodeReq
import VlsModel.Props.C10
import VlsModel.Props.C02
import VlsModel.Model.PersistConv
import VlsModel.Gen.PersistConv
/-
C11 — Every acknowledged state change is already durable.

Statement (properties.jsonl): at the moment any request returns, a signer restarted from its store
alone has the same commitment/revocation counters, commitment contents, counterparty points and
secrets and closed flag per channel, the same chain tip and channel monitors, the same allowlist,
approved invoices and channel-id high-water mark as the running signer.

Shape: refinement.  `view : Core → View` projects the fields the property lists, `s.disk` is what the
store decodes to; the invariant is `view s.disk = view s.mem` after every request, whatever its
outcome.  Proved here for the node-level requests of `Model/NodeReq.lean` (allowlist, invoices,
high-water mark, channel set, the monitors' forget flag).  The velocity buckets are deliberately not
part of the view: a refused `insert` shifts them in memory only, and `Props/C12.C12_restart` proves
that restarting from the older persisted copy does not change any later approval decision.  The
per-channel enforcement state is covered by the restart operations of `Props/C01`–`C03`.
The tie to the code is `harness/src/props/c11.rs`: after every request of the simulator a second
real `Node` is restored from a copy of the committed store and compared field by field.
-/
namespace VlsModel.Props.C11
open VlsModel VlsModel.NodeReq

/-- the durable fields the property lists (node level) -/
structure View where
  allow : List Nat
  invoices : Nat
  hwm : Nat
  stubs : List Nat
  forgetFlag : Bool
deriving DecidableEq, Repr

def view (c : Core) : View :=
  { allow := c.allow, invoices := c.invoices, hwm := c.hwm, stubs := c.stubs, forgetFlag := c.forgetFlag }

/-- refinement invariant: the store decodes to the running state -/
def Durable (s : St) : Prop := view s.disk = view s.mem

theorem durable_init (vc : Velocity.VC) : Durable (St.init vc) := rfl

/-- **C11 (one request)**: whatever the request and its outcome (accepted, refused, `Ok(false)`), if
    the store matched memory before, it matches memory when the request returns. -/
theorem C11_refine_step (c : Cfg) (s s' : St) (op : Op) (r : Res)
    (hd : Durable s) (h : step c s op = some (s', r)) : Durable s' := by
  unfold Durable view at *
  simp only [View.mk.injEq] at hd
  obtain ⟨ha, hi, hh, hs, hf⟩ := hd
  cases op <;> simp only [step, allowlistOp, keysend, newChannel, forgetChannel, signInvoice, restart, heartbeat, addBlocks, removeBlock,
    Core.updateNode, Core.updateAllowlist] at h
  all_goals (repeat' split at h)
  all_goals first
    | (cases h <;> simp_all)
    | (injection h with h; injection h with h1 h2; subst h1; simp_all)

/-- **C11 (all histories)**: after every request of every history the store alone determines the
    running state's durable view. -/
theorem C11_refine_run (c : Cfg) (ops : List Op) : ∀ (s sf : St) (rs : List Res),
    Durable s → C10.run c s ops = some (sf, rs) → Durable sf := by
  induction ops with
  | nil => intro s sf rs hd h; simp [C10.run] at h; obtain ⟨h1, _⟩ := h; subst h1; exact hd
  | cons op rest ih =>
    intro s sf rs hd h
    simp only [C10.run] at h
    cases hs : step c s op with
    | none => simp [hs] at h
    | some p =>
      obtain ⟨s1, r⟩ := p
      simp only [hs] at h
      cases hr : C10.run c s1 rest with
      | none => simp [hr] at h
      | some q =>
        obtain ⟨s2, rs2⟩ := q
        simp [hr] at h
        obtain ⟨h1, _⟩ := h
        subst h1
        exact ih s1 s2 rs2 (C11_refine_step c s s1 op r hd hs) hr

/-- **C11 (restart is the identity on the view)**: a crash/restart inserted after any request of any
    history leaves the durable view unchanged, so no acknowledged change is forgotten. -/
theorem C11_restart_equiv (c : Cfg) (ops : List Op) (s sf : St) (rs : List Res)
    (hd : Durable s) (h : C10.run c s ops = some (sf, rs)) :
    view (restart sf).1.mem = view sf.mem := by
  have := C11_refine_run c ops s sf rs hd h
  simpa [restart, Durable] using this

/-- Issued invoices are not one of the fields the property lists, and `sign_bolt11_invoice` does not persist:
    right after it the store does NOT determine them (first conjunct: a concrete history) — they become durable
    with the next request that rewrites the node entry (second conjunct, for every state). -/
theorem C11_issued_not_durable_until_update_node :
    (∃ s', step C10.cfg0 C10.s0 (.sinv 7 1000) = some (s', .ok) ∧ s'.mem.issued = [(7, 1000)] ∧ s'.disk.issued = []) ∧
    (∀ d m : Core, (d.updateNode m).issued = m.issued) :=
  ⟨⟨_, rfl, rfl, rfl⟩, fun _ _ => rfl⟩

/-- The refinement really depends on the persist calls: the model of `forget_channel` *before* fix
    2cdac39 (tracker entry not rewritten) breaks it — the recorded defect F12. -/
def forgetReadyUnfixed (s : St) : St :=
  { s with mem := { s.mem with forgetFlag := true } }

example : Durable C10.s0 ∧ ¬ Durable (forgetReadyUnfixed C10.s0) := by
  refine ⟨rfl, ?_⟩
  simp [Durable, view, forgetReadyUnfixed, C10.s0, St.init, Core.init]

/-! ### The channel-level instance

The same refinement for the per-channel enforcement state (commitment and revocation counters,
commitment contents, counterparty points and secrets, closed flag), proved on the enforcement model of
C01–C03, whose `step` records whether the request persisted the channel entry. -/

/-- **C11 for channel requests (one request)**: if the stored channel entry matched memory before, it
    matches memory when any request returns (accepted or refused); the only exception is a request
    that aborts the process, after which the signer is restarted from the store anyway. -/
theorem C11_channel_durable_step (F : Nat → Secrets.Bytes → Secrets.Bytes) (s s' : Enforcement.Sys)
    (op : Enforcement.Op) (o : Enforcement.Out) (hd : s.disk = s.mem)
    (hs : Enforcement.step F s op = (s', o)) (hp : o.res ≠ .panic) : s'.disk = s'.mem :=
  C02.Enforcement_durable_step F s s' op o hd hs hp

/-- **C11 for channel requests (all histories)**: after any request history without a process abort
    the store alone determines the channel's enforcement state, so a restart inserted anywhere is the
    identity on it. -/
theorem C11_channel_durable (F : Nat → Secrets.Bytes → Secrets.Bytes) (ops : List Enforcement.Op)
    (hnp : Enforcement.NoPanic (Enforcement.runH F Enforcement.init [] ops).2) :
    (Enforcement.runH F Enforcement.init [] ops).1.disk = (Enforcement.runH F Enforcement.init [] ops).1.mem
    ∧ (Enforcement.step F (Enforcement.runH F Enforcement.init [] ops).1 .restart).1
        = (Enforcement.runH F Enforcement.init [] ops).1 :=
  ⟨C02.Enforcement_durable_run F ops hnp, C02.Enforcement_restart_identity F ops hnp⟩

/-- non-vacuity: a history with accepted and refused requests and a restart in the middle -/
example : ∃ sf, C10.run C10.cfg0 C10.s0
    [.al .add [some 1], .ks 1000 false, .newch 3, .forget 1, .al .set [none], .restart, .forget 0, .newch 1]
      = some (sf, [.ok, .ok, .ok, .ok, .err, .ok, .ok, .err])
    ∧ view sf.mem = ⟨[1], 1, 3, [], true⟩ ∧ view sf.disk = view sf.mem := by
  refine ⟨_, rfl, ?_, ?_⟩ <;> decide


/-! ### Tie to the source: every mutation is followed by its persist call (translate/x_reqshape.py)

For every state-changing function of channel.rs and node.rs `Gen/ReqShape.lean` lists mutations and
persister calls in program order.  `C11_shape_durable` is the general statement: running an accepted
request of a given shape from a state whose store agrees with memory on the clean components ends in a
state whose store agrees with memory on every component the shape does not leave dirty.
`C11_gen_shape_persist` states which functions of the current sources leave a component dirty: only the
three helpers whose callers persist (checked by `C11_gen_shape_callers`).  Components without a persist
call of their own (issued invoices, fee velocity, the payments ledger) are outside the property's list of
durable fields (see the header of this file and DESIGN.md C11) and are exempt. -/

namespace Shape
open VlsModel.ReqShape

/-- memory and store, per component -/
structure DState (α : Type) where
  mem : Comp → α
  disk : Comp → α

/-- an accepted request of the given shape: every check passes, the i-th mutation applies an
    arbitrary function to its component, a persist call copies the components it covers to the store -/
def run {α : Type} (f : Nat → α → α) : Nat → List Ev → DState α → DState α
  | _, [], s => s
  | i, .check :: r, s => run f (i + 1) r s
  | i, .mutate c _ :: r, s => run f (i + 1) r { s with mem := fun x => if x = c then f i (s.mem c) else s.mem x }
  | i, .persist c :: r, s =>
    run f (i + 1) r { s with disk := fun x => if persistedBy x = some c then s.mem x else s.disk x }

end Shape

open VlsModel.ReqShape Shape in
theorem shape_run_durable {α : Type} (f : Nat → α → α) (evs : List Ev) :
    ∀ (i : Nat) (s : DState α) (d : Comp → Bool), (∀ x, d x = false → s.disk x = s.mem x) →
      ∀ x, dirtyAux d evs x = false → (run f i evs s).disk x = (run f i evs s).mem x := by
  induction evs with
  | nil => intro i s d h x hx; exact h x hx
  | cons e r ih =>
    intro i s d h x hx
    cases e with
    | check => exact ih (i + 1) s d h x hx
    | mutate c fl =>
      simp only [dirtyAux] at hx
      simp only [run]
      refine ih (i + 1) _ _ ?_ x hx
      intro y hy
      simp only [Bool.or_eq_false_iff, beq_eq_false_iff_ne, ne_eq] at hy
      simp only [hy.1, if_false]
      exact h y hy.2
    | persist c =>
      simp only [dirtyAux] at hx
      simp only [run]
      refine ih (i + 1) _ _ ?_ x hx
      intro y hy
      by_cases hp : persistedBy y = some c
      · simp [hp]
      · have hp' : (persistedBy y == some c) = false := by simpa using hp
        simp only [hp', Bool.false_eq_true, if_false] at hy
        simp only [hp, if_false]
        exact h y hy

/-- **C11 for every function of an extracted shape**: an accepted request that starts from a store
    equal to memory ends with the store equal to memory on every component its shape does not leave
    dirty — whatever its mutations do. -/
theorem C11_shape_durable {α : Type} (evs : List ReqShape.Ev) (f : Nat → α → α) (s : Shape.DState α)
    (h : ∀ x, s.disk x = s.mem x) (x : ReqShape.Comp) (hx : ReqShape.dirty evs x = false) :
    (Shape.run f 0 evs s).disk x = (Shape.run f 0 evs s).mem x :=
  shape_run_durable f evs 0 s (fun _ => false) (fun y _ => h y) x hx

/-- functions that leave a persisted component dirty: three helpers, whose callers persist -/
def expectedDirty : List (Gen.ReqShape.Fn × List ReqShape.Comp) :=
  [(.advance_holder_commitment_state, [.chan]),   -- called by revoke_previous_holder_commitment (persist .chan)
   (.funding_signed, [.monitor]),                  -- called by unchecked_sign_onchain_tx (persist .tracker)
   (.forget, [.monitor])]                          -- called by forget_channel (persist .tracker; fix 2cdac39)

/-- **C11_gen_shape_persist** (generated obligation): in the current sources every mutation of a
    component with a persist call of its own is followed by that call, in every state-changing function
    of channel.rs and node.rs except the listed helpers. -/
theorem C11_gen_shape_persist :
    (Gen.ReqShape.Fn.all.filterMap (fun f =>
      if ReqShape.leftDirty (Gen.ReqShape.evs f) = [] then none
      else some (f, ReqShape.leftDirty (Gen.ReqShape.evs f)))) = expectedDirty := by
  decide +kernel

/-- the callers of the three helpers write the component the helper leaves dirty, after calling it -/
theorem C11_gen_shape_callers :
    ReqShape.leftDirty (Gen.ReqShape.evs .revoke_previous_holder_commitment) = [] ∧
    ReqShape.Ev.mutate .chan true ∈ Gen.ReqShape.evs .revoke_previous_holder_commitment ∧
    ReqShape.leftDirty (Gen.ReqShape.evs .unchecked_sign_onchain_tx) = [] ∧
    ReqShape.Ev.mutate .monitor false ∈ Gen.ReqShape.evs .unchecked_sign_onchain_tx ∧
    ReqShape.leftDirty (Gen.ReqShape.evs .forget_channel) = [] ∧
    ReqShape.Ev.mutate .monitor true ∈ Gen.ReqShape.evs .forget_channel := by
  decide +kernel

/-- hence: for every other function, an accepted run leaves store = memory on chan, node, tracker, map
    and monitor -/
theorem C11_gen_shape_durable {α : Type} (fn : Gen.ReqShape.Fn) (hf : fn ∉ expectedDirty.map (·.1))
    (f : Nat → α → α) (s : Shape.DState α) (h : ∀ x, s.disk x = s.mem x)
    (x : ReqShape.Comp) (hx : (ReqShape.persistedBy x).isSome = true) :
    (Shape.run f 0 (Gen.ReqShape.evs fn) s).disk x = (Shape.run f 0 (Gen.ReqShape.evs fn) s).mem x := by
  apply C11_shape_durable _ _ _ h
  revert hf hx
  cases fn <;> cases x <;> decide +kernel

/-! #### Callees inlined, handler arms, conditional persist calls

(see `Props/C10.lean` for `evsFull` / `armEvs`.)  `condPersistFn` / `condPersistArm` list the persist calls that
sit inside a block which does not enclose an earlier mutation they cover — control can pass the mutation and
leave the function without passing the call — unless an unconditional call follows. -/

/-- **C11_gen_shape_persist_full** (generated obligation): with callees inlined the same three helpers, and only
    they, leave a persisted component dirty -/
theorem C11_gen_shape_persist_full :
    (Gen.ReqShape.Fn.all.filterMap (fun f =>
      if ReqShape.leftDirty (Gen.ReqShape.evsFull f) = [] then none
      else some (f, ReqShape.leftDirty (Gen.ReqShape.evsFull f)))) = expectedDirty := by
  decide +kernel

/-- **C11_gen_arm_persist** (generated obligation): no state-changing arm of the protocol handler leaves a
    persisted component dirty — in particular the `AddBlock` / `RemoveBlock` arms, which are the only place where
    an accepted block is written (`update_tracker`), and the composite `ValidateCommitmentTx*` arms. -/
theorem C11_gen_arm_persist : ∀ a ∈ Gen.ReqShape.Arm.all, ReqShape.leftDirty (Gen.ReqShape.armEvs a) = [] := by
  decide +kernel

/-- … so an accepted run of any arm, started with store = memory, ends with store = memory on every persisted
    component -/
theorem C11_gen_arm_durable {α : Type} (a : Gen.ReqShape.Arm)
    (f : Nat → α → α) (s : Shape.DState α) (h : ∀ x, s.disk x = s.mem x)
    (x : ReqShape.Comp) (hx : (ReqShape.persistedBy x).isSome = true) :
    (Shape.run f 0 (Gen.ReqShape.armEvs a) s).disk x = (Shape.run f 0 (Gen.ReqShape.armEvs a) s).mem x := by
  apply C11_shape_durable _ _ _ h
  revert hx
  cases a <;> cases x <;> decide +kernel

/-- **C11_gen_cond_persist** (generated obligation): the conditional persist calls of the current sources are
    exactly three, each guarded by a flag that is set in the very branch that mutates:
    `get_heartbeat` (`if pruned1 || pruned2 || pruned3 { update_node }`, the flags are the results of the three
    pruning calls), `forget_channel` (`if ready_found { update_tracker }`, set next to `chan.forget()?`; fix F12),
    `prune_channels` (`if tracker_modified { update_tracker }`, set next to `remove_listener`).  No handler arm
    has one: the tracker write of `AddBlock` / `RemoveBlock` is unconditional. -/
theorem C11_gen_cond_persist :
    Gen.ReqShape.condPersistFn =
      [(.get_heartbeat, [(.node, .node)]), (.forget_channel, [(.tracker, .monitor)]), (.prune_channels, [(.tracker, .tracker)])] ∧
    Gen.ReqShape.condPersistArm = [] := by decide

/-- non-vacuity: the F12 shape (`forget_channel` without the tracker write) leaves the monitor dirty;
    with the write nothing is left dirty -/
example :
    ReqShape.leftDirty [.mutate .monitor true, .mutate .node false, .persist .node, .persist .chan] = [.monitor] ∧
    ReqShape.leftDirty [.mutate .monitor true, .mutate .node false, .persist .node, .persist .chan, .persist .tracker] = [] := by
  decide


/-! ### Tie to the source: field census of the persist conversions (translate/x_persistconv.py)

The refinement above says *when* the store is written.  *What* a write puts there — and what a restart reads
back — are the conversions of `vls-persist/src/model.rs` / `kvv.rs` and the restore path of `node.rs`.
`Gen/PersistConv.lean` lists, re-extracted from the sources on every run, for every persisted entry the
in-memory fields each persisted field is computed from (`save`) and for every field of the restored object the
persisted fields it is computed from (`load`).  The theorems below state that every field the durable view of
the property names goes out and comes back (`roundTrips`), and list exactly the fields that do not, so that a
new in-memory field that is not persisted, a dropped field of an entry, a `serde(skip)`, or a restore path
that stops reading a field reaches a proof obligation. -/

section Census
open VlsModel.PersistConv VlsModel.Gen.PersistConv

/-- a field that round-trips is recovered from what was written: through the most informative conversions
    with the extracted dependencies, the restored field is exactly the value that was in memory -/
theorem C11_census_roundtrip {M E α : Type} [DecidableEq M] (c : Conv M E) (f : M)
    (h : c.roundTrips f = true) (m : M → α) : c.restore (c.persist m) f = [[m f]] := by
  unfold Conv.roundTrips at h
  unfold Conv.restore Conv.persist
  split at h
  · rename_i e he
    have h' : c.save e = [f] := by simpa using h
    simp [he, h']
  · cases h

/-- a field that no persisted field is computed from cannot survive a restart: two memories that differ
    only there are written to the same entry (so everything the property calls durable must be in the census) -/
theorem C11_census_unsaved_lost {M E α : Type} (c : Conv M E) (f : M)
    (h : ∀ e, f ∉ c.save e) (m m' : M → α) (hm : ∀ g, g ≠ f → m g = m' g) :
    c.persist m = c.persist m' := by
  funext e
  unfold Conv.persist
  apply List.map_congr_left
  intro g hg
  exact hm g (fun hgf => h e (hgf ▸ hg))

def nodeConv : Conv NodeStateF NodeEntryF := ⟨nodeSave, nodeLoad⟩
def channelConv : Conv ChannelF ChannelEntryF := ⟨channelSave, channelLoad⟩
def stubConv : Conv StubF ChannelEntryF := ⟨stubSave, stubLoad⟩
def trackerConv : Conv TrackerF TrackerEntryF := ⟨trackerSave, trackerLoad⟩

/-- the node-level fields the property names: "the same allowlist, approved invoices and channel-id
    high-water mark" -/
def durableNode : List NodeStateF := [.allowlist, .invoices, .dbid_high_water_mark]

/-- **C11_gen_census_node** (generated obligation): each of them is written to its entry
    (`NodeStateEntry` / the allowlist entry) and read back into the same field by `get_nodes` →
    `NodeState::restore` → `Node::new_full`. -/
theorem C11_gen_census_node : ∀ f ∈ durableNode, nodeConv.roundTrips f = true := by decide

/-- … and these are all the fields of `NodeState` that do not come back: the excess accumulator (restored as
    the literal 0) and two log-only strings.  (`payments` comes back as its preimages only — the ledger is
    re-derived from the channels by `restore_payments`; issued invoices and both velocity controls round-trip,
    see `Props/C12.C12_gen_census_velocity`.) -/
theorem C11_gen_census_node_lost :
    NodeStateF.all.filter (fun f => !nodeConv.roundTrips f) = [.excess_amount, .log_prefix, .last_summary] := by
  decide

/-- nothing is persisted that is not restored: every field of the two node entries is read by the restore path -/
theorem C11_gen_census_node_entry_read :
    ∀ e ∈ NodeEntryF.all, NodeStateF.all.any (fun f => (nodeLoad f).contains e) = true := by decide

/-- the per-channel fields the property names: "the same commitment and revocation counters, commitment
    contents, counterparty points and secrets and closed flag" -/
def durableEnforcement : List EnforcementF :=
  [.next_holder_commit_num, .next_counterparty_commit_num, .next_counterparty_revoke_num,
   .current_holder_commit_info, .next_holder_commit_info, .current_counterparty_signatures,
   .current_counterparty_commit_info, .previous_counterparty_commit_info,
   .current_counterparty_point, .previous_counterparty_point, .counterparty_secrets, .channel_closed]

/-- **C11_gen_census_enforcement** (generated obligation): `EnforcementState` derives its serialized form
    and no field is skipped — in particular none of the fields the property names … -/
theorem C11_gen_census_enforcement :
    (∀ f, enforcementSerialized f = true) ∧ (∀ f ∈ durableEnforcement, enforcementSerialized f = true) := by
  constructor
  · intro f; cases f <;> rfl
  · decide

/-- … and the only field of `EnforcementState` the property does not name is the initial holder value -/
theorem C11_gen_census_enforcement_rest :
    EnforcementF.all.filter (fun f => !durableEnforcement.contains f) = [.initial_holder_value] := by decide

/-- **C11_gen_census_channel** (generated obligation): `Channel::persist` → `update_channel` writes the whole
    enforcement state, the setup and the permanent id, and `new_from_persistence` builds the restored `Channel`
    from them; the remaining fields are rebuilt (back-pointer, context, keys from seed + id + channel value, the
    initial id from the store key, the monitor from the tracker entry). -/
theorem C11_gen_census_channel :
    ChannelF.all.filter (fun f => channelConv.roundTrips f) = [.enforcement_state, .setup, .id_] := by decide

/-- a stub's birth height (which decides when the heartbeat prunes it) round-trips too -/
theorem C11_gen_census_stub : StubF.all.filter (fun f => stubConv.roundTrips f) = [.blockheight] := by decide

/-- the chain-tracking fields the property names: "the same chain tip and channel monitors" (the monitors'
    state is the listeners' state inside the tracker entry) -/
def durableTracker : List TrackerF := [.tip, .height, .headers, .listeners]

/-- **C11_gen_census_tracker** (generated obligation) -/
theorem C11_gen_census_tracker :
    (∀ f ∈ durableTracker, trackerConv.roundTrips f = true) ∧
    TrackerF.all.filter (fun f => trackerConv.roundTrips f) = [.headers, .tip, .height, .network, .listeners] := by
  decide

/-! #### The node-request model writes what the source writes

`Model/NodeReq.lean` abstracts `update_node` as `Core.updateNode` and `update_node_allowlist` as
`Core.updateAllowlist`.  Which of the model's fields each of them copies is pinned to the census. -/

inductive CoreF | allow | invoices | issued | vc | hwm | stubs | forgetFlag
  deriving DecidableEq, Repr

def CoreF.all : List CoreF := [.allow, .invoices, .issued, .vc, .hwm, .stubs, .forgetFlag]

/-- the `NodeState` field a field of the model's `Core` stands for (`none`: the channel entries / the tracker
    entry, written by `new_channel` / `delete_channel` / `update_tracker`) -/
def coreField : CoreF → Option NodeStateF
  | .allow => some .allowlist
  | .invoices => some .invoices
  | .issued => some .issued_invoices
  | .vc => some .velocity_control
  | .hwm => some .dbid_high_water_mark
  | .stubs => none
  | .forgetFlag => none

/-- what the model's two node-level persist calls do, field by field -/
theorem updateNode_spec (d m : Core) :
    (d.updateNode m).invoices = m.invoices ∧ (d.updateNode m).issued = m.issued ∧ (d.updateNode m).vc = m.vc ∧
    (d.updateNode m).hwm = m.hwm ∧
    (d.updateNode m).allow = d.allow ∧ (d.updateNode m).stubs = d.stubs ∧ (d.updateNode m).forgetFlag = d.forgetFlag :=
  ⟨rfl, rfl, rfl, rfl, rfl, rfl, rfl⟩

theorem updateAllowlist_spec (d m : Core) :
    (d.updateAllowlist m).allow = m.allow ∧ (d.updateAllowlist m).invoices = d.invoices ∧ (d.updateAllowlist m).vc = d.vc ∧
    (d.updateAllowlist m).hwm = d.hwm ∧ (d.updateAllowlist m).stubs = d.stubs ∧ (d.updateAllowlist m).forgetFlag = d.forgetFlag ∧
    (d.updateAllowlist m).issued = d.issued :=
  ⟨rfl, rfl, rfl, rfl, rfl, rfl, rfl⟩

/-- **C11_gen_model_update_node** (generated obligation): the model fields copied by `Core.updateNode`
    (`updateNode_spec`: invoices, issued invoices, vc, hwm) are exactly the modelled fields that the source's `NodeStateEntry`
    is computed from, and `Core.updateAllowlist` copies exactly the one kept in the allowlist entry. -/
theorem C11_gen_model_update_node :
    CoreF.all.filter (fun x => match coreField x with
      | some f => NodeEntryF.all.any (fun e => e != .allowlist_item && (nodeSave e).contains f)
      | none => false) = [.invoices, .issued, .vc, .hwm] ∧
    CoreF.all.filter (fun x => match coreField x with
      | some f => (nodeSave .allowlist_item).contains f
      | none => false) = [.allow] := by decide

/-- non-vacuity: a field that round-trips, one that is written but comes back as a projection, one that is
    not written at all -/
example : nodeConv.roundTrips .invoices = true ∧ nodeConv.reaches .payments = true ∧
    nodeConv.unsaved NodeEntryF.all .excess_amount = true ∧ nodeConv.roundTrips .excess_amount = false := by decide

end Census

end VlsModel.Props.C11
