import VlsModel.Model.NodeReq
import VlsModel.Props.C10
import VlsModel.Props.C02
/-
C11 — Every acknowledged state change is already durable.

Statement (properties.jsonl): at the moment any request returns, a signer restarted from its store
alone has the same commitment/revocation counters, commitment contents, counterparty points and
secrets and closed flag per channel, the same chain tip and channel monitors, the same allowlist,
approved invoices and channel-id high-water mark as the running signer.

Shape: refinement.  `view : Core → View` projects the fields the property lists, `s.disk` is what the
store decodes to; the invariant is `view s.disk = view s.mem` after every request, whatever its
outcome.  Proved here for the node-level requests of `Model/NodeReq.lean` (allowlist, invoices,
high-water mark, channel set, the monitors' forget flag).  The velocity buckets are deliberately not
part of the view: a refused `insert` shifts them in memory only, and `Props/C12.C12_restart` proves
that restarting from the older persisted copy does not change any later approval decision.  The
per-channel enforcement state is covered by the restart operations of `Props/C01`–`C03`.
The tie to the code is `harness/src/props/c11.rs`: after every request of the simulator a second
real `Node` is restored from a copy of the committed store and compared field by field.
-/
namespace VlsModel.Props.C11
open VlsModel VlsModel.NodeReq

/-- the durable fields the property lists (node level) -/
structure View where
  allow : List Nat
  invoices : Nat
  hwm : Nat
  stubs : List Nat
  forgetFlag : Bool
deriving DecidableEq, Repr

def view (c : Core) : View :=
  { allow := c.allow, invoices := c.invoices, hwm := c.hwm, stubs := c.stubs, forgetFlag := c.forgetFlag }

/-- refinement invariant: the store decodes to the running state -/
def Durable (s : St) : Prop := view s.disk = view s.mem

theorem durable_init (vc : Velocity.VC) : Durable (St.init vc) := rfl

/-- **C11 (one request)**: whatever the request and its outcome (accepted, refused, `Ok(false)`), if
    the store matched memory before, it matches memory when the request returns. -/
theorem C11_refine_step (c : Cfg) (s s' : St) (op : Op) (r : Res)
    (hd : Durable s) (h : step c s op = some (s', r)) : Durable s' := by
  unfold Durable view at *
  simp only [View.mk.injEq] at hd
  obtain ⟨ha, hi, hh, hs, hf⟩ := hd
  cases op <;> simp only [step, allowlistOp, keysend, newChannel, forgetChannel, restart] at h
  all_goals (repeat' split at h)
  all_goals first
    | (cases h <;> simp_all)
    | (injection h with h; injection h with h1 h2; subst h1; simp_all)

/-- **C11 (all histories)**: after every request of every history the store alone determines the
    running state's durable view. -/
theorem C11_refine_run (c : Cfg) (ops : List Op) : ∀ (s sf : St) (rs : List Res),
    Durable s → C10.run c s ops = some (sf, rs) → Durable sf := by
  induction ops with
  | nil => intro s sf rs hd h; simp [C10.run] at h; obtain ⟨h1, _⟩ := h; subst h1; exact hd
  | cons op rest ih =>
    intro s sf rs hd h
    simp only [C10.run] at h
    cases hs : step c s op with
    | none => simp [hs] at h
    | some p =>
      obtain ⟨s1, r⟩ := p
      simp only [hs] at h
      cases hr : C10.run c s1 rest with
      | none => simp [hr] at h
      | some q =>
        obtain ⟨s2, rs2⟩ := q
        simp [hr] at h
        obtain ⟨h1, _⟩ := h
        subst h1
        exact ih s1 s2 rs2 (C11_refine_step c s s1 op r hd hs) hr

/-- **C11 (restart is the identity on the view)**: a crash/restart inserted after any request of any
    history leaves the durable view unchanged, so no acknowledged change is forgotten. -/
theorem C11_restart_equiv (c : Cfg) (ops : List Op) (s sf : St) (rs : List Res)
    (hd : Durable s) (h : C10.run c s ops = some (sf, rs)) :
    view (restart sf).1.mem = view sf.mem := by
  have := C11_refine_run c ops s sf rs hd h
  simpa [restart, Durable] using this

/-- The refinement really depends on the persist calls: the model of `forget_channel` *before* fix
    2cdac39 (tracker entry not rewritten) breaks it — the recorded defect F12. -/
def forgetReadyUnfixed (s : St) : St :=
  { s with mem := { s.mem with forgetFlag := true } }

example : Durable C10.s0 ∧ ¬ Durable (forgetReadyUnfixed C10.s0) := by
  refine ⟨rfl, ?_⟩
  simp [Durable, view, forgetReadyUnfixed, C10.s0, St.init, Core.init]

/-! ### The channel-level instance

The same refinement for the per-channel enforcement state (commitment and revocation counters,
commitment contents, counterparty points and secrets, closed flag), proved on the enforcement model of
C01–C03, whose `step` records whether the request persisted the channel entry. -/

/-- **C11 for channel requests (one request)**: if the stored channel entry matched memory before, it
    matches memory when any request returns (accepted or refused); the only exception is a request
    that aborts the process, after which the signer is restarted from the store anyway. -/
theorem C11_channel_durable_step (F : Nat → Secrets.Bytes → Secrets.Bytes) (s s' : Enforcement.Sys)
    (op : Enforcement.Op) (o : Enforcement.Out) (hd : s.disk = s.mem)
    (hs : Enforcement.step F s op = (s', o)) (hp : o.res ≠ .panic) : s'.disk = s'.mem :=
  C02.Enforcement_durable_step F s s' op o hd hs hp

/-- **C11 for channel requests (all histories)**: after any request history without a process abort
    the store alone determines the channel's enforcement state, so a restart inserted anywhere is the
    identity on it. -/
theorem C11_channel_durable (F : Nat → Secrets.Bytes → Secrets.Bytes) (ops : List Enforcement.Op)
    (hnp : Enforcement.NoPanic (Enforcement.runH F Enforcement.init [] ops).2) :
    (Enforcement.runH F Enforcement.init [] ops).1.disk = (Enforcement.runH F Enforcement.init [] ops).1.mem
    ∧ (Enforcement.step F (Enforcement.runH F Enforcement.init [] ops).1 .restart).1
        = (Enforcement.runH F Enforcement.init [] ops).1 :=
  ⟨C02.Enforcement_durable_run F ops hnp, C02.Enforcement_restart_identity F ops hnp⟩

/-- non-vacuity: a history with accepted and refused requests and a restart in the middle -/
example : ∃ sf, C10.run C10.cfg0 C10.s0
    [.al .add [some 1], .ks 1000 false, .newch 3, .forget 1, .al .set [none], .restart, .forget 0, .newch 1]
      = some (sf, [.ok, .ok, .ok, .ok, .err, .ok, .ok, .err])
    ∧ view sf.mem = ⟨[1], 1, 3, [], true⟩ ∧ view sf.disk = view sf.mem := by
  refine ⟨_, rfl, ?_, ?_⟩ <;> decide

end VlsModel.Props.C11
