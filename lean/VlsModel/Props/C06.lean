import VlsModel.Lemmas.Payments
/-
C06 — Approved invoices are never overpaid in flight; unbacked payments are refused.

Statement (properties.jsonl): after every accepted commitment update, for every payment hash with an
approved invoice or keysend, the total value the node has in flight towards that hash across all its
channels does not exceed the value in flight to the node for that hash plus the approved amount plus
the configured routing-fee allowance, whatever the split into parts, the channels used, the retries
and the restarts in between.  An outgoing HTLC whose hash has no approved invoice and for which the
signer has seen no HTLC before is refused unless it is covered by incoming value for the same hash in
the same update.

Model: `VlsModel/Model/Payments.lean` (the repaired code: `revoke_previous_holder_commitment`
re-validates before it applies).  Ghost ledger: `outL n c h` / `inL n c h` are the outgoing / incoming
values for hash `h` on channel `c` computed from the *current* commitments only (max / min of the holder
and counterparty views); `totalOut` / `totalIn` sum them over the channels.  Helper lemmas, the invariant
`Inv` and its per-request preservation are in `VlsModel/Lemmas/Payments.lean`.

Result.  The literal statement is FALSE for the code (`C06_main_false`, two witness histories, both
replayed on the real code by the harness): `add_keysend`/`add_invoice` approve a hash without looking at
what is already in flight for it.  (1) a routed payment whose incoming part was removed first (tolerated
out of balance, TODO(331) branch) and is then approved with a small amount; (2) a fulfilled keysend that
`prune_invoices` drops together with its payment entry while its HTLC is still in the commitments, and
that is then approved and paid again on another channel.  `C06_partial` proves the conservation law
for all histories in which a hash is newly approved only while nothing is outgoing in flight for it.

Definitions used by the statements (in `Lemmas/Payments.lean`):
  `run n ops : Option Node`      — execute a request list (`none` = the implementation panicked);
  `FreshRun n ops`               — every *new* approval along the run happens while nothing is outgoing
                                   in flight for that hash (`FreshApproval`);
  `Conserved n`                  — ∀ h inv, n.invoices h = some inv →
                                   totalOut n h * 1000 ≤ totalIn n h * 1000 + inv.amount + n.pol.maxFee;
  `Inv n`                        — ledger synchronisation (node's incoming ≤ ledger incoming for every hash;
                                   ledger outgoing ≤ node's outgoing for every approved hash), `Conserved`,
                                   persisted invoices = invoices, finite support;
  `overpaid n h : Bool`          — decidable negation of the inequality for one hash.
Only property theorems (and their non-vacuity examples) live in this file.
-/
namespace VlsModel.Props.C06
open VlsModel VlsModel.Payments

/-- **Per-request preservation** of the node-wide invariant (ledger synchronisation + conservation):
    every request — counterparty signing (validate+apply), holder validation (validate only),
    revocation (validate+apply), counterparty revocation, approval, preimage, heartbeat pruning,
    restart — accepted or refused, keeps `Inv`, provided a new approval is fresh. -/
theorem C06_step {n n' : Node} {op : Op} {acc : Bool} (hI : Inv n) (hf : FreshApproval n op)
    (hs : n.step op = some (n', acc)) : Inv n' :=
  step_preserves hI hf hs

/-- **C06 (conservation), proved part.**  For every number of channels, policy and request history
    (commitment updates on any channels in any order, multi-part splits, retries, approvals, preimages,
    pruning, restarts) in which a hash is newly approved only while no outgoing value is in flight for
    it: after every request the total outgoing value in flight for an approved hash is at most the
    incoming value in flight plus the approved amount plus the routing-fee allowance.
    (A prefix of such a history is such a history, so this is "after every accepted update".) -/
theorem C06_partial (nch : Nat) (pol : Policy) (ops : List Op) (n : Node)
    (hf : FreshRun (Node.init nch pol) ops) (hr : run (Node.init nch pol) ops = some n) : Conserved n :=
  fun h inv hi => (inv_run ops _ _ (init_inv nch pol) hf hr).bal h inv hi

/-- The literal statement of C06 (no freshness hypothesis). -/
def C06_main_statement : Prop :=
  ∀ (nch : Nat) (pol : Policy) (ops : List Op) (n : Node), run (Node.init nch pol) ops = some n → Conserved n

def pol0 : Policy := ⟨222000, 10, 6⟩

/-- Witness 1 (issue-331 tolerance): a payment routed from channel 0 to channel 1, the incoming HTLC
    removed first (tolerated), then the hash approved for 1 sat, then an unrelated accepted update. -/
def witness331 : List Op :=
  [ .hValidate 0 false (Info.ofHolder [] [⟨0, 100000, 600⟩]), .revoke 0,
    .cpSign 0 false (Info.ofCp [⟨0, 100000, 600⟩] []),
    .cpSign 1 false (Info.ofCp [] [⟨0, 100000, 500⟩]),
    .hValidate 0 false (Info.ofHolder [] []), .revoke 0,
    .approve 0 ⟨1000, 1600000060, [0, 0]⟩ 1600000000,
    .cpSign 2 false (Info.ofCp [] []) ]

/-- Witness 2 (pruned while in flight): keysend approved, paid on channel 0, preimage seen, invoice and
    payment entry pruned by the heartbeat while the HTLC is still in the commitment, approved again,
    paid again on channel 1. -/
def witnessPrune : List Op :=
  [ .approve 0 ⟨100000000, 1600000060, [0, 0]⟩ 1600000000,
    .cpSign 0 false (Info.ofCp [] [⟨0, 100000, 500⟩]),
    .fulfill 0, .heartbeat 1600000061,
    .approve 0 ⟨100000000, 1600000121, [0, 0]⟩ 1600000061,
    .cpSign 1 false (Info.ofCp [] [⟨0, 100000, 500⟩]) ]

theorem witness331_overpaid : (run (Node.init 3 pol0) witness331).map (overpaid · 0) = some true := by
  decide +kernel

theorem witnessPrune_overpaid : (run (Node.init 2 pol0) witnessPrune).map (overpaid · 0) = some true := by
  decide +kernel

/-- **The literal statement is false for the code**: approval does not look at what is already in flight. -/
theorem C06_main_false : ¬ C06_main_statement := by
  intro H
  cases hr : run (Node.init 3 pol0) witness331 with
  | none => have := witness331_overpaid; rw [hr] at this; cases this
  | some n =>
    have := witness331_overpaid
    rw [hr] at this
    simp only [Option.map_some, Option.some.injEq] at this
    exact not_conserved_of_overpaid this (H 3 pol0 witness331 n hr)

/-- the second, independent way the literal statement fails (pruning of a fulfilled but still in-flight keysend) -/
theorem C06_main_false_prune : ∃ n, run (Node.init 2 pol0) witnessPrune = some n ∧ ¬ Conserved n := by
  cases hr : run (Node.init 2 pol0) witnessPrune with
  | none => have := witnessPrune_overpaid; rw [hr] at this; cases this
  | some n =>
    have := witnessPrune_overpaid
    rw [hr] at this
    simp only [Option.map_some, Option.some.injEq] at this
    exact ⟨n, rfl, not_conserved_of_overpaid this⟩

/-- **C06 (unbacked outgoing refused).**  Whenever a commitment request on channel `c` passes
    `validate_payments` with effective holder/counterparty views `hEff`/`cEff`, every hash that has no
    approved invoice and no payment entry (the signer has seen no HTLC for it) carries at most as much
    outgoing as incoming value in that update. Holds for all three call sites (next three theorems). -/
theorem C06_unbacked_validate {n : Node} {c : Nat} {hEff cEff : Info}
    (hv : validate n c hEff cEff = .ok) (h : Hash) (hi : n.invoices h = none) (hp : n.payments h = none) :
    outVal hEff cEff h ≤ inVal hEff cEff h := by
  by_cases hk : h ∈ keys hEff cEff (n.chans c).hcur (n.chans c).ccur
  · exact checkHash_ok_unseen (validate_ok hv h hk) hi hp
  · have := not_mem_keys hk; omega

theorem C06_unbacked {n n' : Node} {c : Nat} {r : Bool} {info : Info} (h : Hash)
    (hi : n.invoices h = none) (hp : n.payments h = none) :
    (n.cpSign c r info = (n', .ok) → outVal (n.chans c).hcur info h ≤ inVal (n.chans c).hcur info h) ∧
    (n.hValidate c r info = (n', .ok) → outVal info (n.chans c).ccur h ≤ inVal info (n.chans c).ccur h) ∧
    (n.revoke c = (n', .ok) → outL n' c h ≤ inL n' c h) := by
  refine ⟨fun hs => C06_unbacked_validate (validate_of_cpSign hs) h hi hp,
          fun hs => C06_unbacked_validate (validate_of_hValidate hs) h hi hp, ?_⟩
  intro hs
  unfold Node.revoke at hs
  dsimp only at hs
  by_cases hc : c ≥ n.nch
  · simp [hc] at hs
  · simp only [hc, if_false] at hs
    cases hnx : (n.chans c).hnext with
    | none => simp [hnx] at hs
    | some info' =>
      simp only [hnx] at hs
      cases hv : validate n c info' (n.chans c).ccur with
      | ok =>
        simp only [hv] at hs
        cases hs
        have := C06_unbacked_validate hv h hi hp
        simpa [outL, inL, upd] using this
      | err => simp [hv] at hs
      | panic => simp [hv] at hs

/-- **C06 (a refused approval backs nothing).**  When the velocity control refuses an approval
    (`Ok(false)`), no invoice and no payment entry is registered — the hash stays exactly as unapproved
    and as unseen as before, so by `C06_unbacked` an outgoing HTLC for it is still refused unless covered;
    and a retried identical approval meets the velocity control again (it is not "already approved"). -/
theorem C06_declined {n n' : Node} {h : Hash} {inv : Invoice} {now : Nat}
    (hd : n.approve h inv now = (n', .declined)) :
    n'.invoices = n.invoices ∧ n'.payments = n.payments ∧ n'.disk = n.disk ∧ n'.chans = n.chans ∧
    n.invoices h = none := by
  unfold Node.approve at hd
  cases hinv : n.invoices h with
  | some old =>
    simp only [hinv] at hd
    split at hd <;> cases hd
  | none =>
    simp only [hinv] at hd
    cases hvi : n.vc.mem.insert now inv.amount with
    | none => simp [hvi] at hd
    | some res =>
      obtain ⟨v, okv⟩ := res
      cases okv with
      | false => simp only [hvi] at hd; cases hd; exact ⟨rfl, rfl, rfl, rfl, rfl⟩
      | true => simp only [hvi] at hd; cases hd

/-- **C06 (an issued invoice backs nothing).**  An invoice the node merely ISSUED (receiving side) neither
    approves its hash nor makes it "seen": issuing changes neither `invoices` nor `payments`, and a restart gives a
    hash a payment entry only if it has a persisted APPROVED invoice, a persisted preimage, or HTLCs in a current
    commitment — whatever is in the persisted issued invoices.  Together with `C06_unbacked`: an outgoing HTLC
    for the hash of an issued invoice is refused unless covered, before and after a restart. -/
theorem C06_issued_backs_nothing (n : Node) (h : Hash) (inv : Invoice) :
    ((n.issue h inv).1.invoices = n.invoices ∧ (n.issue h inv).1.payments = n.payments) ∧
    (n.disk.invoices h = none → n.disk.pre h = false →
      (∀ c, c < n.nch → h ∉ keys (n.chans c).hcur (n.chans c).ccur (n.chans c).hcur (n.chans c).ccur) →
      n.restart.invoices h = none ∧ n.restart.payments h = none) := by
  constructor
  · unfold Node.issue
    split
    · exact ⟨rfl, rfl⟩
    · cases n.issued h with
      | some old => exact ⟨rfl, rfl⟩
      | none => simp only; split <;> exact ⟨rfl, rfl⟩
  · intro h1 h2 h3
    refine ⟨h1, ?_⟩
    show restoreAll n.chans n.nch _ h = none
    apply restoreAll_none _ _ _ _ _ h3
    simp [h1, h2]

/-- **The issued-invoice table limit** (`sign_bolt11_invoice`: `issued_invoices.len() >= policy.max_invoices()` answers
    first, also for a repeat): with a full table nothing is issued and nothing changes (round 9; the escalated search met
    it in the `m1` worlds). -/
theorem C06_issued_table_full (n : Node) (h : Hash) (inv : Invoice)
    (hf : (n.known.eraseDups.filter (fun x => (n.issued x).isSome)).length ≥ n.maxInv) :
    n.issue h inv = (n, false) := by
  simp [Node.issue, hf]

/-- non-vacuity: limit 1, the second issued invoice is refused, so is a repeat of the first -/
example :
    let n0 := Node.init 2 pol0 ⟨0, .unlimited⟩ ⟨0, 0⟩ 1
    let r := run n0 [.issue 1 ⟨2000000, 1600003721, [1, 2000000, 1600000061, 0]⟩]
    (r.bind (fun n => n.step (.issue 2 ⟨2000000, 1600003782, [1, 2000000, 1600000122, 1]⟩))).map (·.2) = some false ∧
    (r.bind (fun n => n.step (.issue 1 ⟨2000000, 1600003721, [1, 2000000, 1600000061, 0]⟩))).map (·.2) = some false := by
  decide +kernel

/-- **C06 (an approval recorded as zero).**  An amountless BOLT-11 invoice and a keysend of 0 msat are recorded
    with amount 0.  For such a hash `validate_payment_balance` accepts only what incoming value covers: the
    routing-fee allowance bounds the excess from above, and the fee-percentage bound (relative to `max(0, 1)`)
    refuses every excess of 1 msat or more as long as the configured percentage is below 100. -/
theorem C06_zero_approval {pol : Policy} {i o : Nat} (hp : pol.feePct < 100)
    (hb : balance pol i o (some 0) = .ok) : o ≤ i := by
  unfold balance at hb
  simp only [Nat.zero_add] at hb
  by_cases h1 : pol.maxFee > U64.MAX
  · simp [h1] at hb
  · by_cases h2 : i + pol.maxFee > U64.MAX
    · simp [h1, h2] at hb
    · by_cases h3 : i + pol.maxFee < o
      · simp [h1, h2, h3] at hb
      · by_cases h4 : i > U64.MAX
        · simp [h1, h2, h3, h4] at hb
        · by_cases h5 : i > o
          · omega
          · simp only [h1, h2, h3, h4, h5, if_false, Nat.sub_zero, U64.checkedMul] at hb
            by_cases h6 : (o - i) * 100 ≤ U64.MAX
            · simp only [h6, if_true] at hb
              have e : max 0 1 = 1 := rfl
              rw [e, Nat.div_one] at hb
              by_cases h7 : (o - i) * 100 > pol.feePct
              · simp [h7] at hb
              · omega
            · simp [h6] at hb

/-- **The allowlist branch of the approver.**  The invoice of an allowlisted payee is an approval whatever the approver
    says (`handle_proposed_invoice` adds it without asking): it is registered with its amount and is then bounded by
    `C06_step` / `C06_partial` like any approval.  A keysend to an allowlisted payee is NOT approved by the allowlist
    (`handle_proposed_keysend` does not look at it): with a declining approver nothing is registered. -/
theorem C06_allowlisted_payee (h : Hash) (inv : Invoice) (now : Nat) (n : Node) :
    proposalOp true true false h inv now = .approve h inv now ∧
    proposalOp false true false h inv now = .decline h inv ∧
    proposalOp true false false h inv now = .decline h inv ∧
    (n.exec (.decline h inv)).map (·.1.invoices h) = some (n.invoices h) := by
  refine ⟨rfl, rfl, rfl, rfl⟩

/-- **The invoice table limit.**  With `policy.max_invoices()` entries in the table a NEW approval is refused and
    changes nothing (`Err("too many invoices")`); nothing is registered, so nothing new is backed. -/
theorem C06_table_full (n : Node) (h : Hash) (inv : Invoice) (now : Nat)
    (hf : n.full = true) (hn : n.invoices h = none) :
    n.exec (.approve h inv now) = some (n, false) := by
  simp [Node.exec, hf, hn]

/-- non-vacuity: with a limit of 2 the third hash is refused, a repeat of the first is still answered -/
example :
    let n0 := Node.init 2 pol0 ⟨0, .unlimited⟩ ⟨0, 0⟩ 2
    let r := run n0 [.approve 0 ⟨1000, 1600000060, [0, 0]⟩ 1600000000, .approve 1 ⟨1000, 1600000060, [0, 1]⟩ 1600000000]
    r.map (·.full) = some true ∧
    (r.bind (fun n => n.step (.approve 2 ⟨1000, 1600000060, [0, 2]⟩ 1600000000))).map (·.2) = some false ∧
    (r.bind (fun n => n.step (.approve 0 ⟨1000, 1600000060, [0, 0]⟩ 1600000000))).map (·.2) = some true := by
  decide +kernel

/-- **Small parts cannot escape the accounting.**  A commitment request that LISTS an HTLC below the trim threshold of
    its direction (`policy-commitment-outputs-trimmed` of `validate_commitment_tx`, which runs before
    `validate_payments`) is refused and changes nothing, on both kinds of commitment. -/
theorem C06_trimmed_refused (n : Node) (c : Nat) (r : Bool) (i : Info) :
    (untrimmed n.dust i.inc i.out = false → n.exec (.cpSign c r i) = some (n, false)) ∧
    (untrimmed n.dust i.out i.inc = false → n.exec (.hValidate c r i) = some (n, false)) := by
  constructor <;> intro h <;> simp [Node.exec, h]

/-- Hence every HTLC listed by an ACCEPTED counterparty-commitment request is at or above the threshold of its
    direction, and all of them are counted (`sumFor` runs over the whole lists: `C06_step` / `C06_partial`). -/
theorem C06_accepted_untrimmed {n n' : Node} {c : Nat} {r : Bool} {i : Info}
    (h : n.exec (.cpSign c r i) = some (n', true)) :
    (∀ x ∈ i.inc, n.dust.off ≤ x.value) ∧ (∀ x ∈ i.out, n.dust.rcv ≤ x.value) := by
  cases hd : untrimmed n.dust i.inc i.out with
  | false => simp [Node.exec, hd] at h
  | true =>
    simp only [untrimmed, Bool.and_eq_true, List.all_eq_true, Bool.not_eq_true', decide_eq_false_iff_not,
      Nat.not_lt] at hd
    exact hd

/-- non-vacuity: at the harness feerate (253 sat/kw, weights 663 / 703) the thresholds are 497 / 507 sat; an incoming
    part of 496 sat and an outgoing part of 506 sat are refused, 497 sat incoming is accepted -/
example :
    let n0 := Node.init 2 pol0 ⟨0, .unlimited⟩ ⟨dustLimit 330 253 663, dustLimit 330 253 703⟩
    n0.dust = ⟨497, 507⟩ ∧
    (n0.exec (.cpSign 0 false (Info.ofCp [⟨2, 496, 600⟩] []))).map (·.2) = some false ∧
    (n0.exec (.cpSign 0 false (Info.ofCp [] [⟨2, 506, 500⟩]))).map (·.2) = some false ∧
    (n0.exec (.cpSign 0 false (Info.ofCp [⟨2, 497, 600⟩] []))).map (·.2) = some true ∧
    (n0.exec (.hValidate 0 false (Info.ofHolder [⟨2, 496, 500⟩] []))).map (·.2) = some false := by
  decide +kernel

/-- **C06 (restart).**  A restart (persisted invoices and preimages, payments rebuilt by
    `restore_payments` from the current commitments of every channel) keeps the invariant, leaves the
    ghost ledger and the approvals unchanged, and leaves the node's per-channel amounts exactly equal to
    the ledger — so conservation holds right after it and keeps being enforced by the next requests. -/
theorem C06_restart {n : Node} (hI : Inv n) :
    Inv n.restart ∧ Conserved n.restart ∧
    (∀ h c, outL n.restart c h = outL n c h ∧ inL n.restart c h = inL n c h) ∧
    (∀ h, n.restart.invoices h = n.invoices h) ∧
    (∀ h c, c < n.nch → getIn (n.restart.payments h) c = inL n c h ∧ getOut (n.restart.payments h) c = outL n c h) :=
  ⟨restart_preserves hI, fun h inv hi => (restart_preserves hI).bal h inv hi,
   fun _ _ => ⟨rfl, rfl⟩, fun h => hI.disk h, fun h c hc => restart_sync n h c hc⟩

/-! ### non-vacuity -/

instance (n : Node) (op : Op) : Decidable (FreshApproval n op) := by
  cases op <;> unfold FreshApproval <;> infer_instance

instance freshRunDec : (n : Node) → (ops : List Op) → Decidable (FreshRun n ops)
  | _, [] => isTrue trivial
  | n, op :: ops =>
    match hs : n.step op with
    | none => decidable_of_iff (FreshApproval n op) (by simp [FreshRun, hs])
    | some (n', _) =>
      have := freshRunDec n' ops
      decidable_of_iff (FreshApproval n op ∧ FreshRun n' ops) (by simp [FreshRun, hs])

/-- a fresh history with a multi-part payment over three channels up to amount + fee allowance, the F2
    shape (pending holder commitment on 0, signing on 1, revocation on 0 refused), a restart and a retry -/
def sample : List Op :=
  [ .approve 1 ⟨100000000, 1600000060, [0, 1]⟩ 1600000000,
    .hValidate 0 false (Info.ofHolder [⟨1, 50000, 500⟩] []),
    .cpSign 1 false (Info.ofCp [] [⟨1, 50000, 500⟩]),
    .cpSign 2 false (Info.ofCp [] [⟨1, 50222, 500⟩]),
    .revoke 0,
    .restart,
    .cpSign 1 true (Info.ofCp [] [⟨1, 50000, 500⟩]),
    .cpSign 0 false (Info.ofCp [] [⟨1, 1000, 500⟩]) ]

/-- the hypotheses of `C06_partial` are satisfiable by a non-trivial history: it is fresh, it runs, the
    approved hash ends with exactly amount + fee allowance in flight, and the revocation was refused -/
example : FreshRun (Node.init 3 pol0) sample ∧
    (run (Node.init 3 pol0) sample).map (fun n => (totalOut n 1, (n.chans 0).hnext.isSome)) = some (100222, true) := by
  decide +kernel

/-- `Inv` (hypothesis of `C06_step` / `C06_restart`) holds in a non-trivial reachable state -/
example : ∃ n, run (Node.init 3 pol0) sample = some n ∧ Inv n ∧ totalOut n 1 = 100222 := by
  cases hr : run (Node.init 3 pol0) sample with
  | none =>
    have : (run (Node.init 3 pol0) sample).isSome = true := by decide +kernel
    rw [hr] at this; cases this
  | some n =>
    have h2 : (run (Node.init 3 pol0) sample).map (fun n => totalOut n 1) = some 100222 := by decide +kernel
    rw [hr] at h2
    simp only [Option.map_some, Option.some.injEq] at h2
    exact ⟨n, rfl, inv_run sample _ _ (init_inv 3 pol0) (by decide +kernel) hr, h2⟩

/-- the hypotheses of `C06_unbacked` are satisfiable: an unseen hash with incoming cover is accepted,
    the same without cover is refused -/
example :
    ((Node.init 2 pol0).hValidate 0 false (Info.ofHolder [] [⟨2, 2000, 600⟩])).2 = .ok ∧
    ((Node.init 2 pol0).cpSign 0 false (Info.ofCp [] [⟨2, 2000, 500⟩])).2 = .err := by
  decide +kernel

/-- `C06_declined` is not vacuous: under an hourly limit of 150 000 sat a second 100 000 sat approval is
    declined, the outgoing HTLC for its hash is then refused, and the retried approval is declined again -/
example :
    let n0 := Node.init 2 pol0 ⟨150000000, .hourly⟩
    let n1 := (n0.approve 0 ⟨100000000, 1600000060, [0, 0]⟩ 1600000000).1
    let r2 := n1.approve 1 ⟨100000000, 1600000060, [0, 1]⟩ 1600000000
    r2.2 = .declined ∧
    (r2.1.cpSign 0 false (Info.ofCp [] [⟨1, 100000, 500⟩])).2 = .err ∧
    (r2.1.approve 1 ⟨100000000, 1600000060, [0, 1]⟩ 1600000000).2 = .declined := by
  decide +kernel

/-- `C06_issued_backs_nothing` is not vacuous: issue an invoice for hash 2, persist the node state through an
    approval of hash 0, restart: the outgoing HTLC for hash 2 is refused before and after -/
example :
    let n0 := Node.init 2 pol0
    let n1 := (n0.issue 2 ⟨50000000, 1600090000, [1, 2]⟩).1
    let n2 := (n1.approve 0 ⟨1000, 1600000060, [0, 0]⟩ 1600000000).1
    let n3 := n2.restart
    (n1.cpSign 0 false (Info.ofCp [] [⟨2, 10000, 500⟩])).2 = .err ∧
    (n3.issued 2).isSome = true ∧ (n3.payments 2).isNone = true ∧
    (n3.cpSign 0 false (Info.ofCp [] [⟨2, 10000, 500⟩])).2 = .err := by
  decide +kernel

end VlsModel.Props.C06
