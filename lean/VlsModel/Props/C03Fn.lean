import VlsModel.Model.Enforcement
import VlsModel.Gen.FnEnforce
import VlsModel.Lemmas.FnGen
import VlsModel.Lemmas.EnforcementFn
import VlsModel.Lemmas.HandlerFn
import VlsModel.Gen.FnEnforceTest
import VlsModel.Lemmas.SecretsFn
import VlsModel.Lemmas.SecretsSound
import VlsModel.Props.C03
/-
C03 — the enforcement-state updates and selectors that the hand-written model `Model/Enforcement.lean` inlines
in `signCp`, `revokeCp`, `revoke` and `prevPoint`, proved equal to the bodies of
`EnforcementState::{set_next_holder_commit_num, set_next_counterparty_commit_num, get_previous_counterparty_point,
get_previous_counterparty_commit_info, set_next_counterparty_revoke_num}` that `translate/rs2lean.py` regenerates
from `vls-core/src/policy/validator.rs` (`Gen/FnEnforce.lean`) on every run.

`toES` (now in `Lemmas/EnforcementFn.lean`, shared with `C01Fn.lean` / `C02Fn.lean`) reads a model channel as the
nine translated fields of `EnforcementState`.

Each theorem is stated under exactly the guard under which the model performs the update (the guards are the
`Validator::set_next_*` checks that precede the call), plus the 64-bit range of the counters; the companion
`…_panic` / `…_overflow` theorems state what the code does outside.
-/
namespace VlsModel.Props.C03Fn
open VlsModel VlsModel.Enforcement
open VlsModel.Gen.FnEnforce
open VlsModel.Lemmas.EnforcementFn

/-- `advance_holder_commitment_state` in `revoke`: `set_next_holder_commit_num(next + 1, info, sigs)` -/
theorem C03_fn_set_next_holder_commit_num (c : Chan) (info : Nat) (h : c.next + 1 ≤ Rs.U64_MAX) :
    (toES c).set_next_holder_commit_num (c.next + 1) info info
      = .ok (toES { c with next := c.next + 1, cur := some info }) := by
  simp [EnforcementState.set_next_holder_commit_num, toES, Rs.uadd, h, Rs.assert]

/-- any other number trips `assert_eq!(num, current + 1)` -/
theorem C03_fn_set_next_holder_commit_num_panic (c : Chan) (num info sig : Nat)
    (h : c.next + 1 ≤ Rs.U64_MAX) (hn : num ≠ c.next + 1) :
    (toES c).set_next_holder_commit_num num info sig = .error .panic := by
  simp [EnforcementState.set_next_holder_commit_num, toES, Rs.uadd, h, Rs.assert, hn, Rs.panic, bind, Except.bind]

/-- `signCp`, normal progression (`num = cpCommit + 1`): current moves to previous, the new point and info
    become current -/
theorem C03_fn_set_next_counterparty_commit_num (c : Chan) (pt info : Nat) (h : c.cpCommit + 1 ≤ Rs.U64_MAX) :
    (toES c).set_next_counterparty_commit_num (c.cpCommit + 1) pt info
      = .ok (toES { c with prevPt := c.curPt, prevInfo := c.curInfo, curPt := some pt, curInfo := some info,
                           cpCommit := c.cpCommit + 1 }) := by
  simp [EnforcementState.set_next_counterparty_commit_num, toES, Rs.uadd, h, Rs.assert]

/-- `signCp`, retry (`num = cpCommit`, `num ≥ 1`): nothing moves -/
theorem C03_fn_set_next_counterparty_commit_num_retry (c : Chan) (pt info : Nat)
    (h : c.cpCommit + 1 ≤ Rs.U64_MAX) (h0 : c.cpCommit > 0) :
    (toES c).set_next_counterparty_commit_num c.cpCommit pt info = .ok (toES c) := by
  have h1 : ¬ c.cpCommit = c.cpCommit + 1 := by omega
  have h2 : ¬ c.cpCommit + 1 < c.cpCommit := by omega
  have h3 : ¬ c.cpCommit + 1 ≤ c.cpCommit := by omega
  simp [EnforcementState.set_next_counterparty_commit_num, toES, Rs.uadd, h, Rs.assert, h0, h1, h2, h3]

/-- `assert!(num > 0)` -/
theorem C03_fn_set_next_counterparty_commit_num_panic (c : Chan) (pt info : Nat) :
    (toES c).set_next_counterparty_commit_num 0 pt info = .error .panic := by
  simp [EnforcementState.set_next_counterparty_commit_num, Rs.assert, Rs.panic, bind, Except.bind]

theorem C03_fn_get_previous_counterparty_point (c : Chan) (n : Nat) (h : n + 2 ≤ Rs.U64_MAX) :
    (toES c).get_previous_counterparty_point n = .ok (prevPoint c n) := by
  have h1 : n + 1 ≤ Rs.U64_MAX := by omega
  unfold EnforcementState.get_previous_counterparty_point prevPoint
  simp only [toES, Rs.uadd, h, h1, if_true, Rs.bind_ok, Rs.pure_eq]
  by_cases a : n + 1 = c.cpCommit <;> by_cases b : n + 2 = c.cpCommit <;> simp [a, b]

/-- the same selector on the commitment infos (`signCp` compares a retry against `curInfo`) -/
theorem C03_fn_get_previous_counterparty_commit_info (c : Chan) (n : Nat) (h : n + 2 ≤ Rs.U64_MAX) :
    (toES c).get_previous_counterparty_commit_info n
      = .ok (if n + 1 = c.cpCommit then c.curInfo else if n + 2 = c.cpCommit then c.prevInfo else none) := by
  have h1 : n + 1 ≤ Rs.U64_MAX := by omega
  unfold EnforcementState.get_previous_counterparty_commit_info
  simp only [toES, Rs.uadd, h, h1, if_true, Rs.bind_ok, Rs.pure_eq]
  by_cases a : n + 1 = c.cpCommit <;> by_cases b : n + 2 = c.cpCommit <;> simp [a, b]

/-- the selectors use a plain `+`: at `num = u64::MAX` the code overflows before it compares -/
theorem C03_fn_get_previous_counterparty_point_overflow (c : Chan) :
    (toES c).get_previous_counterparty_point Rs.U64_MAX = .error .overflow := by
  simp [EnforcementState.get_previous_counterparty_point, Rs.uadd, Rs.U64_MAX, Rs.overflow, bind, Except.bind]

/-- `revokeCp`: `set_next_counterparty_revoke_num(num)` for `num ≥ 1` drops the previous info exactly when
    `num + 1 ≥ cpCommit` and sets the counter -/
theorem C03_fn_set_next_counterparty_revoke_num (c : Chan) (num : Nat) (h0 : num ≠ 0) (h : num + 1 ≤ Rs.U64_MAX) :
    (toES c).set_next_counterparty_revoke_num num
      = .ok (toES { c with prevInfo := if num + 1 ≥ c.cpCommit then none else c.prevInfo, cpRevoke := num }) := by
  unfold EnforcementState.set_next_counterparty_revoke_num
  by_cases a : num + 1 ≥ c.cpCommit <;> simp [toES, Rs.uadd, h, Rs.assert, h0, a]

/-- `assert_ne!(num, 0)` -/
theorem C03_fn_set_next_counterparty_revoke_num_panic (c : Chan) :
    (toES c).set_next_counterparty_revoke_num 0 = .error .panic := by
  simp [EnforcementState.set_next_counterparty_revoke_num, Rs.assert, Rs.panic, bind, Except.bind]

/-! ### the guards in front of the setters: default methods of `trait Validator` (validator.rs:301 / :342) -/

/-- `Validator::set_next_counterparty_commit_num(n + 1, pt, info)` with the tags kept errors is, on every input in
    the 64-bit range, the decision list that the model's `signCp` inlines after the `SimpleValidator` checks:
    window relative to the revocation counter (`delta` = 1 for the initial commitment, else 2), progression
    `num ∈ {current, current + 1}`, then the setter (progression moves current to previous, a retry moves nothing) -/
theorem C03_fn_validator_set_next_counterparty_commit_num (f : String → Bool)
    (hf : f "policy-commitment-previous-revoked" = true) (c : Chan) (n pt info : Nat)
    (hr : c.cpRevoke + 2 ≤ Rs.U64_MAX) (hc : c.cpCommit + 1 ≤ Rs.U64_MAX) :
    Validator.set_next_counterparty_commit_num f () (toES c) (n + 1) pt info
      = if n + 1 < c.cpRevoke + (if n + 1 = 1 then 1 else 2) then .error (.err "policy-commitment-previous-revoked")
        else if n + 1 ≠ c.cpCommit ∧ n + 1 ≠ c.cpCommit + 1 then .error (.err "policy-commitment-previous-revoked")
        else if n + 1 = c.cpCommit + 1 then
          .ok (toES { c with prevPt := c.curPt, prevInfo := c.curInfo, curPt := some pt, curInfo := some info,
                             cpCommit := n + 1 })
        else .ok (toES c) := by
  obtain ⟨slot, next, cur, nextInfo, closed, m, r, curPt, prevPt, curInfo, prevInfo, secrets⟩ := c
  simp only [Rs.U64_MAX] at hr hc ⊢
  have hr1 : r + 1 ≤ 18446744073709551615 := by omega
  have hm0 : m ≤ 18446744073709551615 := by omega
  unfold Validator.set_next_counterparty_commit_num EnforcementState.set_next_counterparty_commit_num
  simp only [toES, policyErr_keep f _ hf, Rs.uadd, Rs.U64_MAX, Rs.assert]
  by_cases h1 : n = 0
  · subst h1
    by_cases a : r = 0
    · subst a
      by_cases b : m = 1
      · subst b; simp
      · by_cases b' : m = 0
        · subst b'; simp
        · have b1 : ¬ 1 = m := fun h => b h.symm
          have b2 : ¬ 1 = m + 1 := by omega
          simp [b, b', b1, b2, hc]
    · have a' : 1 < r + 1 := by omega
      simp [a', hr1]
  · have h1' : ¬ n + 1 = 1 := by omega
    simp only [h1', if_false]
    by_cases a : n + 1 < r + 2
    · simp [a, hr, h1]
    · by_cases b : n + 1 = m
      · subst b
        have b2 : ¬ n + 1 = n + 1 + 1 := by omega
        have c1 : ¬ n + 1 < n := by omega
        have c2 : ¬ n + 1 ≤ n := by omega
        simp [a, hr, hc, h1, hm0, c1, c2]
      · by_cases b' : n = m
        · subst b'
          simp [a, hr, hc, h1, hm0]
        · have b2 : ¬ n + 1 = m + 1 := by omega
          simp [a, b, b', b2, hr, hc, h1, hm0]

/-- the model's `signCp` after the `SimpleValidator::validate_counterparty_commitment_tx` checks IS this call:
    same result class, and on success the model's new state read as an `EnforcementState` is the generated one -/
theorem C03_fn_signCp_tail (c : Chan) (n pt info : Nat)
    (hr : c.cpRevoke + 2 ≤ Rs.U64_MAX) (hc : c.cpCommit + 1 ≤ Rs.U64_MAX)
    (h0 : ¬ n > c.cpRevoke + 1) (h1 : ¬ (n + 1 = c.cpCommit ∧ c.curPt ≠ some pt))
    (h2 : ¬ (n + 1 = c.cpCommit ∧ c.curInfo ≠ some info)) :
    (signCp c n pt info true).out.res
        = cls (Validator.set_next_counterparty_commit_num strict () (toES c) (n + 1) pt info)
    ∧ (∀ e, Validator.set_next_counterparty_commit_num strict () (toES c) (n + 1) pt info = .ok e →
          toES (signCp c n pt info true).c = e)
    ∧ ((signCp c n pt info true).out.res ≠ .ok → (signCp c n pt info true).c = c) := by
  rw [C03_fn_validator_set_next_counterparty_commit_num strict rfl c n pt info hr hc]
  unfold signCp
  simp only [Bool.not_true, Bool.false_eq_true, if_false, h0, h1, h2]
  by_cases a : n + 1 < c.cpRevoke + (if n + 1 = 1 then 1 else 2)
  · simp only [if_pos a, fail, cls_err]; simp
  · simp only [if_neg a]
    by_cases b : n + 1 ≠ c.cpCommit ∧ n + 1 ≠ c.cpCommit + 1
    · simp only [if_pos b, fail, cls_err]; simp
    · simp only [if_neg b]
      by_cases d : n + 1 = c.cpCommit + 1
      · simp only [if_pos d, cls_ok]; simp
      · simp only [if_neg d, cls_ok]; simp

/-- `Validator::set_next_counterparty_revoke_num(n + 1)` with the tags kept errors is the decision list that the
    model's `revokeCp` inlines after the secret-store step: not too small / not too large relative to the signing
    counter, progression `num ∈ {current, current + 1}`, then the setter -/
theorem C03_fn_validator_set_next_counterparty_revoke_num (f : String → Bool)
    (hf : f "policy-commitment-previous-revoked" = true) (c : Chan) (n : Nat)
    (hn : n + 3 ≤ Rs.U64_MAX) (hr : c.cpRevoke + 1 ≤ Rs.U64_MAX) :
    Validator.set_next_counterparty_revoke_num f () (toES c) (n + 1)
      = if n + 1 + 2 < c.cpCommit then .error (.err "policy-commitment-previous-revoked")
        else if n + 1 + 1 > c.cpCommit then .error (.err "policy-commitment-previous-revoked")
        else if n + 1 ≠ c.cpRevoke ∧ n + 1 ≠ c.cpRevoke + 1 then .error (.err "policy-commitment-previous-revoked")
        else .ok (toES { c with prevInfo := if n + 1 + 1 ≥ c.cpCommit then none else c.prevInfo,
                                cpRevoke := n + 1 }) := by
  obtain ⟨slot, next, cur, nextInfo, closed, m, r, curPt, prevPt, curInfo, prevInfo, secrets⟩ := c
  simp only [Rs.U64_MAX] at hn hr ⊢
  have hn2 : n + 1 + 2 ≤ 18446744073709551615 := by omega
  have hn1 : n + 1 + 1 ≤ 18446744073709551615 := by omega
  unfold Validator.set_next_counterparty_revoke_num EnforcementState.set_next_counterparty_revoke_num
  simp only [toES, policyErr_keep f _ hf, Rs.uadd, Rs.U64_MAX, Rs.assert]
  by_cases a : n + 1 + 2 < m
  · simp [a, hn2]
  · by_cases b : n + 1 + 1 > m
    · have b' : m < n + 1 + 1 := b
      simp [a, b, b', hn2, hn1]
    · have b' : ¬ m < n + 1 + 1 := b
      by_cases d1 : n + 1 = r
      · subst d1
        by_cases e : m ≤ n + 1 + 1
        · have e' : n + 1 + 1 ≥ m := e
          simp [a, b, b', hn2, hn1, hr, e, e']
        · have e' : ¬ n + 1 + 1 ≥ m := e
          simp [a, b, b', hn2, hn1, hr, e, e']
      · by_cases d2 : n = r
        · subst d2
          by_cases e : m ≤ n + 1 + 1
          · have e' : n + 1 + 1 ≥ m := e
            simp [a, b, b', hn2, hn1, hr, e, e']
          · have e' : ¬ n + 1 + 1 ≥ m := e
            simp [a, b, b', hn2, hn1, hr, e, e']
        · have d3 : ¬ n + 1 = r + 1 := by omega
          simp [a, b, b', d1, d2, d3, hn2, hn1, hr]

/-- whatever the policy filter, the two `assert`s of the setters stand behind the guards: `num = 0` never returns
    a state (a demoted `policy-other` only turns the refusal into a panic) -/
theorem C03_fn_validator_zero_never_ok (f : String → Bool) (c : Chan) (pt info : Nat) (e : ES) :
    Validator.set_next_counterparty_revoke_num f () (toES c) 0 ≠ .ok e
    ∧ Validator.set_next_counterparty_commit_num f () (toES c) 0 pt info ≠ .ok e := by
  constructor
  · intro h
    unfold Validator.set_next_counterparty_revoke_num EnforcementState.set_next_counterparty_revoke_num at h
    cases hf : f "policy-other"
    · cases hf2 : f "policy-commitment-previous-revoked" <;>
        simp [Rs.policyErr, Rs.fail, hf, hf2, Rs.uadd, Rs.U64_MAX, Rs.assert, Rs.panic, toES, bind, Except.bind,
              pure, Except.pure] at h <;> (repeat (split at h <;> try cases h))
    · simp [Rs.policyErr, Rs.fail, hf, bind, Except.bind] at h
  · intro h
    unfold Validator.set_next_counterparty_commit_num EnforcementState.set_next_counterparty_commit_num at h
    cases hf : f "policy-other"
    · cases hf2 : f "policy-commitment-previous-revoked" <;>
        simp [Rs.policyErr, Rs.fail, hf, hf2, Rs.uadd, Rs.assert, Rs.panic, toES, bind, Except.bind,
              pure, Except.pure] at h <;> (repeat (split at h <;> try cases h))
    · simp [Rs.policyErr, Rs.fail, hf, bind, Except.bind] at h

-- non-vacuity: commit 4 / revoke 2 (two unrevoked commitments 2 and 3)
example : Validator.set_next_counterparty_commit_num strict ()
    (toES { slot := .ready, cpCommit := 4, cpRevoke := 2, curPt := some 13, prevPt := some 12 }) 6 14 1
    = .error (.err "policy-commitment-previous-revoked") := by
  simp [Validator.set_next_counterparty_commit_num, toES, Rs.uadd, Rs.U64_MAX, policyErr_strict]
example : Validator.set_next_counterparty_revoke_num strict ()
    (toES { slot := .ready, cpCommit := 4, cpRevoke := 2, curPt := some 13, prevPt := some 12 }) 3
    = .ok (toES { slot := .ready, cpCommit := 4, cpRevoke := 3, curPt := some 13, prevPt := some 12 }) := by rfl
example : Validator.set_next_counterparty_commit_num strict ()
    (toES { slot := .ready, cpCommit := 4, cpRevoke := 3, curPt := some 13, prevPt := some 12 }) 5 14 1
    = .ok (toES { slot := .ready, cpCommit := 5, cpRevoke := 3, curPt := some 14, prevPt := some 13,
                  curInfo := some 1 }) := by rfl

/-! ### the compact secret store `CounterpartyCommitmentSecrets` (validator.rs:571-660), generated: `Gen/FnSecrets.lean`

The hand-written generic store `Model/Secrets.lean` (for which `Secrets_store_sound`, `Secrets_store_complete`,
`Secrets_size`, `C03_chain` are proved for every derivation step) instantiated with byte lists and the step
`stepN h tb` = "flip the bit, then the external hash" IS the generated code, function by function. -/
section Secrets
open VlsModel.Secrets VlsModel.Lemmas.SecretsFn
open VlsModel.Gen.FnSecrets (CounterpartyCommitmentSecrets)

theorem C03_fn_secrets_new : CounterpartyCommitmentSecrets.new = { old_secrets := ([] : Store (List Nat)) } := rfl

/-- `place_secret` = number of trailing zero bits capped at 48 (`Secrets.place`); never fails -/
theorem C03_fn_place_secret (idx : Nat) :
    CounterpartyCommitmentSecrets.place_secret idx = .ok (place idx) := by
  have e : CounterpartyCommitmentSecrets.place_secret idx
      = (Rs.loopM (ρ := Nat) (Rs.range 0 48) () (placeStep idx) >>= fun lr =>
          match lr with | .inl () => pure 48 | .inr rv => pure rv) := rfl
  rw [e, range_zero, place_loop idx 48 0 (by omega)]
  unfold place
  rw [placeFrom_eq]
  cases firstBit idx 0 48 <;> rfl

/-- `get_min_seen_secret` = `Secrets.minSeen` (the start value `1 << 48` is the generated constant `N48`) -/
theorem C03_fn_get_min_seen_secret (st : Store (List Nat)) :
    CounterpartyCommitmentSecrets.get_min_seen_secret { old_secrets := st } = .ok (minSeen st) := by
  unfold CounterpartyCommitmentSecrets.get_min_seen_secret minSeen
  rw [shl_one 48 (by omega), ← pow48]
  simp only [Rs.bind_ok]
  generalize (2 : Nat) ^ 48 = m
  induction st generalizing m with
  | nil => simp
  | cons x xs ih =>
    obtain ⟨s, i⟩ := x
    simp only [List.foldlM_cons, List.foldl_cons, Rs.bind_ok, Rs.pure_eq]
    by_cases c : i < m
    · simpa [c] using ih i
    · simpa [c] using ih m

/-- `derive_secret(secret, bits, idx)` on a 32-byte secret with `bits ≤ 64` (callers pass a slot number ≤ 48) never
    fails and is `Secrets.derive` over the step "flip the bit, hash" -/
theorem C03_fn_derive_secret {H : Type} (h : List Nat → H) (tb : H → List Nat) (hh : ∀ l, (tb (h l)).length = 32)
    (s : List Nat) (bits idx : Nat) (hs : s.length = 32) (hb : bits ≤ 64) :
    CounterpartyCommitmentSecrets.derive_secret h tb s bits idx = .ok (derive (stepN h tb) s bits idx) :=
  derive_secret_eq h tb hh s bits idx hs hb

/-- **`provide_secret`** = `Secrets.provide` on every store, index and 32-byte secret: `Err(())` exactly when the model
    refuses (slot beyond the store, or a lower slot is not derivable from the new secret), otherwise the model's store -/
theorem C03_fn_provide_secret {H : Type} (h : List Nat → H) (tb : H → List Nat) (hh : ∀ l, (tb (h l)).length = 32)
    (st : Store (List Nat)) (idx : Nat) (secret : List Nat) (hs : secret.length = 32) :
    CounterpartyCommitmentSecrets.provide_secret h tb { old_secrets := st } idx secret
      = match provide (stepN h tb) st idx secret with
        | some st' => .ok { old_secrets := st' }
        | none => .error (.err "()") := by
  have hp : place idx ≤ 48 := place_le idx
  unfold CounterpartyCommitmentSecrets.provide_secret provide
  rw [C03_fn_place_secret]
  simp only [Rs.bind_ok]
  by_cases a : place idx > st.length
  · simp [a, Rs.fail]
  · simp only [a, decide_false, Bool.false_eq_true, if_false]
    rw [range_zero, loop_check st (fun e => decide (derive (stepN h tb) secret (place idx) e.2 = e.1)) "()"
          (place idx) 0 _ ?hf (by omega)]
    case hf =>
      intro i hi
      have hidx : st[i]? = some st[i] := List.getElem?_eq_getElem hi
      rcases hx : st[i] with ⟨os, oi⟩
      simp only [Rs.index, hidx, hx, Rs.bind_ok, Rs.pure_eq,
        derive_secret_eq h tb hh secret (place idx) oi hs (by omega)]
      by_cases c : derive (stepN h tb) secret (place idx) oi = os
      · simp [c]
      · simp [c, Rs.fail]
    rw [List.drop_zero, ← checkLower_eq_allFrom]
    by_cases c : checkLower (stepN h tb) secret (place idx) st (place idx) = true
    · simp only [c, if_true, Rs.bind_ok, C03_fn_get_min_seen_secret, Bool.not_true, Bool.false_eq_true, if_false]
      by_cases d : minSeen st ≤ idx
      · simp [d]
      · by_cases e : place idx < st.length
        · simp [d, e, Rs.setIndex]
        · simp [d, e]
    · simp [c]

/-- **`get_secret`** = `Secrets.get` (a store of at most 64 entries — `Secrets_size`: at most 49 — whose secrets have 32
    bytes, a `u64` index): the derived secret, `None`, or the `assert!` panic -/
theorem C03_fn_get_secret {H : Type} (h : List Nat → H) (tb : H → List Nat) (hh : ∀ l, (tb (h l)).length = 32)
    (st : Store (List Nat)) (idx : Nat) (hidx : idx < 2 ^ 64) (hlen : st.length ≤ 64)
    (hall : ∀ e ∈ st, e.1.length = 32) :
    CounterpartyCommitmentSecrets.get_secret h tb { old_secrets := st } idx
      = match Secrets.get (stepN h tb) st idx with
        | .some s => .ok (some s)
        | .none => .ok none
        | .panic => .error .panic := by
  unfold CounterpartyCommitmentSecrets.get_secret Secrets.get
  rw [range_zero, loop_find st (fun i e => decide (hi i idx = e.2))
        (fun i e => some (derive (stepN h tb) e.1 i idx)) st.length 0 _ ?hf (by omega)]
  case hf =>
    intro i hlt
    have hi64 : i < 64 := by omega
    have hidx' : st[i]? = some st[i] := List.getElem?_eq_getElem hlt
    have hmem : st[i] ∈ st := List.getElem_mem hlt
    have hl := hall _ hmem
    have hpos : 1 ≤ 2 ^ i := Nat.one_le_two_pow
    have hsub : Rs.usub (2 ^ i) 1 = .ok (2 ^ i - 1) := by simp [Rs.usub, hpos]
    have htr : Rs.utrunc Rs.U8_MAX i = i := by
      unfold Rs.utrunc Rs.U8_MAX
      exact Nat.mod_eq_of_lt (by omega)
    simp only [shl_one i hi64, Rs.bind_ok, hsub, Rs.index, hidx', Rs.pure_eq, hi_eq idx i hidx hi64, htr,
      derive_secret_eq h tb hh st[i].1 i idx hl (by omega)]
    by_cases c : hi i idx = st[i].2
    · simp [c]
    · simp [c]
  rw [List.drop_zero, findFrom_some, ← getFrom_eq_findFrom]
  cases hg : getFrom (stepN h tb) idx st 0 with
  | some s => simp
  | none =>
    simp only [Option.map_none, Rs.bind_ok, C03_fn_get_min_seen_secret]
    by_cases d : idx < minSeen st
    · simp [d, Rs.assert]
    · simp [d, Rs.assert, Rs.panic]

/-! #### store soundness of the GENERATED code

`Secrets_store_sound` is proved for every derivation step; with the ties above it transfers to the generated bodies: feed
the generated `provide_secret` the secrets of consecutive descending indices from 2^48−1 (what `validate_counterparty_revocation`
does), all accepted — then the generated `get_secret` returns every one of them, whatever the hash function is. -/

/-- the generated `provide_secret` applied to `ss` at the indices `m − 1, m − 2, …` -/
def genProvideDesc {H : Type} (h : List Nat → H) (tb : H → List Nat) :
    CounterpartyCommitmentSecrets → Nat → List (List Nat) → Rs.M CounterpartyCommitmentSecrets
  | st, _, [] => .ok st
  | _, 0, _ :: _ => .error (.err "()")
  | st, m + 1, s :: rest =>
    match CounterpartyCommitmentSecrets.provide_secret h tb st m s with
    | .ok st' => genProvideDesc h tb st' m rest
    | .error e => .error e

/-- invariant of the stores the generated code builds from 32-byte secrets -/
def GoodStore (st : Store (List Nat)) : Prop := st.length ≤ 49 ∧ ∀ e ∈ st, e.1.length = 32

theorem goodStore_provide {H : Type} (h : List Nat → H) (tb : H → List Nat) {st st' : Store (List Nat)} {idx : Nat}
    {secret : List Nat} (hg : GoodStore st) (hs : secret.length = 32)
    (hp : provide (stepN h tb) st idx secret = some st') : GoodStore st' := by
  refine ⟨provide_length _ hp hg.1, ?_⟩
  obtain ⟨_, _, h3⟩ := provide_some _ hp
  rcases h3 with rfl | ⟨_, rfl⟩ | ⟨_, rfl⟩
  · exact hg.2
  · intro e he
    rcases List.mem_or_eq_of_mem_set he with he | rfl
    · exact hg.2 e he
    · exact hs
  · intro e he
    rcases List.mem_append.mp he with he | he
    · exact hg.2 e he
    · simp at he; subst he; exact hs

theorem genProvideDesc_eq {H : Type} (h : List Nat → H) (tb : H → List Nat) (hh : ∀ l, (tb (h l)).length = 32) :
    ∀ (ss : List (List Nat)) (m : Nat) (st : Store (List Nat)), (∀ s ∈ ss, s.length = 32) →
      genProvideDesc h tb { old_secrets := st } m ss
        = match provideDesc (stepN h tb) st m ss with
          | some st' => .ok { old_secrets := st' }
          | none => .error (.err "()")
  | [], m, st, _ => by simp [genProvideDesc, provideDesc]
  | s :: rest, 0, st, _ => by simp [genProvideDesc, provideDesc]
  | s :: rest, m + 1, st, hs => by
    have h32 : s.length = 32 := hs s (by simp)
    simp only [genProvideDesc, provideDesc, C03_fn_provide_secret h tb hh st m s h32]
    cases provide (stepN h tb) st m s with
    | none => rfl
    | some st1 =>
      simp only
      exact genProvideDesc_eq h tb hh rest m st1 (fun x hx => hs x (by simp [hx]))

theorem goodStore_provideDesc {H : Type} (h : List Nat → H) (tb : H → List Nat) :
    ∀ (ss : List (List Nat)) (m : Nat) (st st' : Store (List Nat)), GoodStore st → (∀ s ∈ ss, s.length = 32) →
      provideDesc (stepN h tb) st m ss = some st' → GoodStore st'
  | [], m, st, st', hg, _, hp => by simp [provideDesc] at hp; subst hp; exact hg
  | s :: rest, 0, st, st', _, _, hp => by simp [provideDesc] at hp
  | s :: rest, m + 1, st, st', hg, hs, hp => by
    simp only [provideDesc] at hp
    cases hq : provide (stepN h tb) st m s with
    | none => simp [hq] at hp
    | some st1 =>
      simp only [hq] at hp
      exact goodStore_provideDesc h tb rest m st1 st' (goodStore_provide h tb hg (hs s (by simp)) hq)
        (fun x hx => hs x (by simp [hx])) hp

/-- **store soundness of the generated code**, for every hash function returning 32 bytes -/
theorem C03_fn_store_sound {H : Type} (h : List Nat → H) (tb : H → List Nat) (hh : ∀ l, (tb (h l)).length = 32)
    (ss : List (List Nat)) (hs : ∀ s ∈ ss, s.length = 32) (st' : CounterpartyCommitmentSecrets)
    (hrun : genProvideDesc h tb CounterpartyCommitmentSecrets.new N48 ss = .ok st') (k : Nat) (hk : k < ss.length) :
    CounterpartyCommitmentSecrets.get_secret h tb st' (N48 - 1 - k) = .ok (some ss[k]) := by
  rw [C03_fn_secrets_new, genProvideDesc_eq h tb hh ss N48 [] hs] at hrun
  cases hp : provideDesc (stepN h tb) [] N48 ss with
  | none => simp [hp] at hrun
  | some st1 =>
    simp only [hp] at hrun
    have hst : st' = { old_secrets := st1 } := (Except.ok.inj hrun).symm
    subst hst
    have hg : GoodStore st1 := goodStore_provideDesc h tb ss N48 [] st1 ⟨by simp, by simp⟩ hs hp
    have hsound := VlsModel.Props.C03.Secrets_store_sound (stepN h tb) ss st1 hp k hk
    have hidx : N48 - 1 - k < 2 ^ 64 := by
      have : N48 = 281474976710656 := by decide
      omega
    rw [C03_fn_get_secret h tb hh st1 (N48 - 1 - k) hidx (by have := hg.1; omega) hg.2, hsound]

-- non-vacuity: slot of index 8 is 3; a two-entry store; a constant 32-byte "hash"
example : CounterpartyCommitmentSecrets.place_secret 8 = .ok 3 := by
  rw [C03_fn_place_secret]; exact congrArg _ (by decide)
example : CounterpartyCommitmentSecrets.get_min_seen_secret { old_secrets := [([1], 40), ([2], 12)] } = .ok 12 := by
  rw [C03_fn_get_min_seen_secret]; exact congrArg _ (by decide)
example : ∃ st', genProvideDesc (fun l => l) (fun _ => List.replicate 32 0) CounterpartyCommitmentSecrets.new N48
    [List.replicate 32 7] = .ok st' ∧ st'.old_secrets.length = 1 := by
  refine ⟨{ old_secrets := [(List.replicate 32 7, N48 - 1)] }, ?_, rfl⟩
  rw [C03_fn_secrets_new, genProvideDesc_eq (fun l => l) (fun _ => List.replicate 32 0) (by simp) _ _ _ (by simp)]
  have : provideDesc (stepN (fun l => l) fun _ => List.replicate 32 0) [] N48 [List.replicate 32 7]
      = some [(List.replicate 32 7, N48 - 1)] := by decide
  rw [this]

end Secrets

/-! ### the state-dependent checks of `SimpleValidator::validate_counterparty_commitment_tx` (simple_validator.rs:721) and
`validate_counterparty_revocation` (:910), generated: `Gen/FnSimpleState.lean`.  The two `EnforcementState` selectors
are externals there; the theorems instantiate them with the generated selectors of `Gen/FnEnforce.lean`. -/
section SimpleState
open VlsModel.Gen.FnSimpleState (SimpleValidator)

/-- `validate_counterparty_commitment_tx` = the head of the model's `signCp`: content rules, `commit_num ≤ revoke + 1`,
    a retry must carry the signed point and the signed content -/
theorem C03_fn_validate_counterparty_commitment_tx
    (dO dR : Nat → Nat → Unit × Unit)
    (vct : Gen.FnSimpleState.EnforcementState Nat Nat → Nat → Nat → Unit → Gen.FnSimpleState.ChainState → Nat → Rs.M Unit)
    (gi : Gen.FnSimpleState.EnforcementState Nat Nat → Nat → Rs.M (Option Nat))
    (c : Chan) (n pt info : Nat) (pk : Bool) (t0 : String)
    (hv : vct (toSV c) n pt () ⟨⟩ info = contentRules pk t0)
    (hgi : gi (toSV c) n = (toES c).get_previous_counterparty_commit_info n)
    (hr : c.cpRevoke + 1 ≤ Rs.U64_MAX) (hn : n + 2 ≤ Rs.U64_MAX) :
    cls (SimpleValidator.validate_counterparty_commitment_tx dO dR vct strict gi ⟨⟩ (toSV c) n pt () ⟨⟩ info)
      = if !pk then .errPolicy
        else if n > c.cpRevoke + 1 then .errPolicy
        else if n + 1 = c.cpCommit ∧ c.curPt ≠ some pt then .errPolicy
        else if n + 1 = c.cpCommit ∧ c.curInfo ≠ some info then .errPolicy
        else .ok := by
  have hsel := C03_fn_get_previous_counterparty_commit_info c n hn
  rw [hsel] at hgi
  obtain ⟨slot, next, cur, nextInfo, closed, m, r, curPt, prevPt, curInfo, prevInfo, secrets⟩ := c
  have hn1 : n + 1 ≤ Rs.U64_MAX := by omega
  unfold SimpleValidator.validate_counterparty_commitment_tx
  rw [hv, hgi]
  simp only [toSV, contentRules] at hr ⊢
  cases pk
  · simp
  · simp only [if_true, Rs.bind_ok, Rs.uadd, hr, hn1, Rs.pure_eq, Bool.not_true, Bool.false_eq_true, if_false]
    by_cases a : n > r + 1
    · simp [a, policyErr_strict]
    · by_cases b : n + 1 = m
      · subst b
        cases curPt with
        | none => simp [a, policyErr_strict]
        | some p =>
          by_cases e : pt = p
          · subst e
            cases curInfo with
            | none => simp [a, policyErr_strict]
            | some i =>
              by_cases g : info = i
              · subst g; simp [a]
              · have g' : ¬ i = info := fun h => g h.symm
                simp [a, g, g', policyErr_strict]
          · have e' : ¬ p = pt := fun h => e h.symm
            simp [a, e, e', policyErr_strict]
      · simp [a, b]

/-- `validate_counterparty_revocation` = the head of the model's `revokeCp`: only the expected number or a retry, and the
    point of the secret (`fsk`: secp, opaque) must be the point signed for that number -/
theorem C03_fn_validate_counterparty_revocation
    (fsk : Unit → Nat → Nat)
    (gp : Gen.FnSimpleState.EnforcementState Nat Nat → Nat → Rs.M (Option Nat))
    (c : Chan) (n sec : Nat)
    (hgp : gp (toSV c) n = (toES c).get_previous_counterparty_point n)
    (hn : n + 2 ≤ Rs.U64_MAX) :
    cls (SimpleValidator.validate_counterparty_revocation () strict fsk gp ⟨⟩ (toSV c) n sec)
      = if n ≠ c.cpRevoke ∧ n + 1 ≠ c.cpRevoke then .errPolicy
        else if prevPoint c n ≠ some (fsk () sec) then .errPolicy
        else .ok := by
  rw [C03_fn_get_previous_counterparty_point c n hn] at hgp
  have hn1 : n + 1 ≤ Rs.U64_MAX := by omega
  unfold SimpleValidator.validate_counterparty_revocation
  rw [hgp]
  simp only [toSV, Rs.bind_ok, Rs.uadd, hn1, if_true, Rs.pure_eq]
  by_cases a : n = c.cpRevoke
  · cases hp : prevPoint c n with
    | none => simp [a, policyErr_strict]
    | some p =>
      by_cases e : fsk () sec = p
      · simp [a, e]
      · have e' : ¬ p = fsk () sec := fun h => e h.symm
        simp [a, e, e', policyErr_strict]
  · by_cases b : n + 1 = c.cpRevoke
    · cases hp : prevPoint c n with
      | none => simp [a, b, policyErr_strict]
      | some p =>
        by_cases e : fsk () sec = p
        · simp [a, b, e]
        · have e' : ¬ p = fsk () sec := fun h => e h.symm
          simp [a, b, e, e', policyErr_strict]
    · simp [a, b, policyErr_strict]

/-- **the whole `signCp` request** of the model is the composition of the two generated bodies that
    `Channel::sign_counterparty_commitment_tx(_phase2)` calls in this order — `SimpleValidator::validate_counterparty_commitment_tx`
    (state checks; content rules external) and `Validator::set_next_counterparty_commit_num` (window + setter): same reply
    class on every input in the 64-bit range, on success the model's new state is the generated one, on refusal nothing
    changes -/
theorem C03_fn_signCp
    (dO dR : Nat → Nat → Unit × Unit)
    (vct : Gen.FnSimpleState.EnforcementState Nat Nat → Nat → Nat → Unit → Gen.FnSimpleState.ChainState → Nat → Rs.M Unit)
    (gi : Gen.FnSimpleState.EnforcementState Nat Nat → Nat → Rs.M (Option Nat))
    (c : Chan) (n pt info : Nat) (pk : Bool) (t0 : String)
    (hv : vct (toSV c) n pt () ⟨⟩ info = contentRules pk t0)
    (hgi : gi (toSV c) n = (toES c).get_previous_counterparty_commit_info n)
    (hr : c.cpRevoke + 2 ≤ Rs.U64_MAX) (hc : c.cpCommit + 1 ≤ Rs.U64_MAX) (hn : n + 2 ≤ Rs.U64_MAX) :
    (signCp c n pt info pk).out.res
        = cls (SimpleValidator.validate_counterparty_commitment_tx dO dR vct strict gi ⟨⟩ (toSV c) n pt () ⟨⟩ info >>= fun _ =>
                Validator.set_next_counterparty_commit_num strict () (toES c) (n + 1) pt info)
    ∧ (∀ e, (SimpleValidator.validate_counterparty_commitment_tx dO dR vct strict gi ⟨⟩ (toSV c) n pt () ⟨⟩ info >>= fun _ =>
                Validator.set_next_counterparty_commit_num strict () (toES c) (n + 1) pt info) = .ok e →
          toES (signCp c n pt info pk).c = e)
    ∧ ((signCp c n pt info pk).out.res ≠ .ok → (signCp c n pt info pk).c = c) := by
  have hhead := C03_fn_validate_counterparty_commitment_tx dO dR vct gi c n pt info pk t0 hv hgi (by omega) hn
  by_cases good : pk = true ∧ ¬ n > c.cpRevoke + 1 ∧ ¬ (n + 1 = c.cpCommit ∧ c.curPt ≠ some pt)
      ∧ ¬ (n + 1 = c.cpCommit ∧ c.curInfo ≠ some info)
  · obtain ⟨hpk, h0, h1, h2⟩ := good
    subst hpk
    simp only [Bool.not_true, Bool.false_eq_true, if_false, h0, h1, h2] at hhead
    obtain ⟨u, hu⟩ := (cls_ok_iff _).mp hhead
    rw [hu]
    simp only [Rs.bind_ok]
    exact C03_fn_signCp_tail c n pt info hr hc h0 h1 h2
  · have hbad : cls (SimpleValidator.validate_counterparty_commitment_tx dO dR vct strict gi ⟨⟩ (toSV c) n pt () ⟨⟩ info)
        = .errPolicy := by
      rw [hhead]
      cases pk
      · simp
      · by_cases a : n > c.cpRevoke + 1
        · simp [a]
        · by_cases b : n + 1 = c.cpCommit ∧ c.curPt ≠ some pt
          · simp [a, b]
          · by_cases d : n + 1 = c.cpCommit ∧ c.curInfo ≠ some info
            · simp [a, b, d]
            · exact absurd ⟨rfl, a, b, d⟩ good
    have hcomp := cls_bind_errPolicy _ (fun _ => Validator.set_next_counterparty_commit_num strict () (toES c) (n + 1) pt info) hbad
    have hs : signCp c n pt info pk = fail c .errPolicy := by
      unfold signCp
      cases pk
      · simp
      · by_cases a : n > c.cpRevoke + 1
        · simp [a]
        · by_cases b : n + 1 = c.cpCommit ∧ c.curPt ≠ some pt
          · simp [a, b]
          · by_cases d : n + 1 = c.cpCommit ∧ c.curInfo ≠ some info
            · simp [a, b, d]
            · exact absurd ⟨rfl, a, b, d⟩ good
    refine ⟨by rw [hs, hcomp]; rfl, ?_, by rw [hs]; intro _; rfl⟩
    intro e he
    rw [he] at hcomp
    simp [cls] at hcomp

/-- **the whole `revokeCp` request** of the model follows the generated bodies that `Channel::validate_counterparty_revocation`
    calls in this order: `SimpleValidator::validate_counterparty_revocation` (head), the secret store step (the model's
    `provide`, which is the generated `provide_secret` by `C03_fn_provide_secret`), `Validator::set_next_counterparty_revoke_num`
    (tail).  `fsk` = point of the secret (secp), `pt` the harness-supplied point id. -/
theorem C03_fn_revokeCp (F : Nat → Secrets.Bytes → Secrets.Bytes)
    (fsk : Unit → Nat → Nat) (gp : Gen.FnSimpleState.EnforcementState Nat Nat → Nat → Rs.M (Option Nat))
    (c : Chan) (n sec pt : Nat) (secret : Secrets.Bytes)
    (hgp : gp (toSV c) n = (toES c).get_previous_counterparty_point n) (hpt : fsk () sec = pt)
    (hn : n + 3 ≤ Rs.U64_MAX) (hr : c.cpRevoke + 1 ≤ Rs.U64_MAX) :
    -- head refused: refused, nothing changes
    (cls (SimpleValidator.validate_counterparty_revocation () strict fsk gp ⟨⟩ (toSV c) n sec) ≠ .ok →
        revokeCp F c n secret pt = fail c .errPolicy)
    ∧ (cls (SimpleValidator.validate_counterparty_revocation () strict fsk gp ⟨⟩ (toSV c) n sec) = .ok →
        -- `INITIAL_COMMITMENT_NUMBER - revoke_num` underflows
        (n > INITIAL → revokeCp F c n secret pt = fail c .panic)
        ∧ (n ≤ INITIAL →
            -- the store refuses the secret (does not chain): refused, nothing changes
            (∀ st, c.secrets = some st → Secrets.provide F st (INITIAL - n) secret = none →
                revokeCp F c n secret pt = fail c .errPolicy)
            -- otherwise the tail decides, and on success its state is the model's (plus the new store)
            ∧ (∀ ns, (c.secrets = none ∧ ns = none ∨ ∃ st st', c.secrets = some st ∧
                        Secrets.provide F st (INITIAL - n) secret = some st' ∧ ns = some st') →
                (revokeCp F c n secret pt).out.res
                    = cls (Validator.set_next_counterparty_revoke_num strict () (toES c) (n + 1))
                ∧ (∀ e, Validator.set_next_counterparty_revoke_num strict () (toES c) (n + 1) = .ok e →
                      toES (revokeCp F c n secret pt).c = e ∧ (revokeCp F c n secret pt).c.secrets = ns)
                ∧ ((revokeCp F c n secret pt).out.res ≠ .ok → (revokeCp F c n secret pt).c = c)))) := by
  have hhead := C03_fn_validate_counterparty_revocation fsk gp c n sec hgp (by omega)
  rw [hpt] at hhead
  have htail := C03_fn_validator_set_next_counterparty_revoke_num strict rfl c n hn hr
  have hm : U64.MAX = Rs.U64_MAX := by decide
  have hov : ¬ (n ≠ c.cpRevoke ∧ n + 1 > U64.MAX) := by rw [hm]; intro h; omega
  constructor
  · intro hne
    rw [hhead] at hne
    unfold revokeCp
    by_cases a : n ≠ c.cpRevoke ∧ n + 1 ≠ c.cpRevoke
    · rw [if_neg hov, if_pos a]
    · by_cases b : prevPoint c n ≠ some pt
      · rw [if_neg hov, if_neg a, if_pos b]
      · simp [a, b] at hne
  · intro hok
    rw [hhead] at hok
    have a : ¬ (n ≠ c.cpRevoke ∧ n + 1 ≠ c.cpRevoke) := by
      intro a; simp [a] at hok
    have b : ¬ prevPoint c n ≠ some pt := by
      intro b; simp [a, b] at hok
    constructor
    · intro hbig
      unfold revokeCp
      rw [if_neg hov, if_neg a, if_neg b, if_pos hbig]
    · intro hsmall
      have hbig : ¬ n > INITIAL := by omega
      constructor
      · intro st hst hprov
        unfold revokeCp
        rw [if_neg hov, if_neg a, if_neg b, if_neg hbig]
        simp only [hst, hprov]
      · intro ns hns
        rw [htail]
        unfold revokeCp
        rw [if_neg hov, if_neg a, if_neg b, if_neg hbig]
        rcases hns with ⟨h1, h2⟩ | ⟨st, st', h1, h2, h3⟩
        · subst h2
          simp only [h1]
          by_cases t1 : n + 1 + 2 < c.cpCommit
          · simp only [if_pos t1]; simp [fail]
          · by_cases t2 : n + 1 + 1 > c.cpCommit
            · simp only [if_neg t1, if_pos t2]; simp [fail]
            · by_cases t3 : n + 1 ≠ c.cpRevoke ∧ n + 1 ≠ c.cpRevoke + 1
              · simp only [if_neg t1, if_neg t2, if_pos t3]; simp [fail]
              · simp only [if_neg t1, if_neg t2, if_neg t3]; simp [toES]
        · subst h3
          simp only [h1, h2]
          by_cases t1 : n + 1 + 2 < c.cpCommit
          · simp only [if_pos t1]; simp [fail]
          · by_cases t2 : n + 1 + 1 > c.cpCommit
            · simp only [if_neg t1, if_pos t2]; simp [fail]
            · by_cases t3 : n + 1 ≠ c.cpRevoke ∧ n + 1 ≠ c.cpRevoke + 1
              · simp only [if_neg t1, if_neg t2, if_pos t3]; simp [fail]
              · simp only [if_neg t1, if_neg t2, if_neg t3]; simp [toES]

-- non-vacuity of the hypotheses of the composition theorems: commit 4 / revoke 3, sign 4 with point 14; revoke 3
example :=
  C03_fn_signCp (fun _ _ => ((), ())) (fun _ _ => ((), ())) (fun _ _ _ _ _ _ => contentRules true "")
    (fun _ n => (toES { slot := .ready, cpCommit := 4, cpRevoke := 3, curPt := some 13, prevPt := some 12 }).get_previous_counterparty_commit_info n)
    { slot := .ready, cpCommit := 4, cpRevoke := 3, curPt := some 13, prevPt := some 12 } 4 14 1 true "" rfl rfl
    (by decide) (by decide) (by decide)
example :=
  C03_fn_revokeCp Secrets.shaF (fun _ s => s + 10)
    (fun _ n => (toES { slot := .ready, cpCommit := 5, cpRevoke := 3, curPt := some 14, prevPt := some 13 }).get_previous_counterparty_point n)
    { slot := .ready, cpCommit := 5, cpRevoke := 3, curPt := some 14, prevPt := some 13 } 3 3 13 [] rfl rfl
    (by decide) (by decide)

/-! #### the window invariant on the generated functions

`C03_window` (model, all histories) says `revoke + 1 ≤ commit ≤ revoke + 2` once anything was signed.  Read off the
GENERATED decision lists alone: whenever the generated `Validator::set_next_counterparty_commit_num` /
`…_revoke_num` return a state, that state has the window — whatever the state before was (no invariant needed: the two
guards establish it), for every 64-bit input. -/

/-- window of an `EnforcementState` (generated structure) -/
def WindowES (e : ES) : Prop :=
  e.next_counterparty_revoke_num + 1 ≤ e.next_counterparty_commit_num
  ∧ e.next_counterparty_commit_num ≤ e.next_counterparty_revoke_num + 2

theorem C03_fn_window_after_sign (c : Chan) (n pt info : Nat) (e : ES)
    (hr : c.cpRevoke + 2 ≤ Rs.U64_MAX) (hc : c.cpCommit + 1 ≤ Rs.U64_MAX)
    (hpre : n ≤ c.cpRevoke + 1)      -- the check of `validate_counterparty_commitment_tx` (`C03_fn_validate_counterparty_commitment_tx`)
    (hok : Validator.set_next_counterparty_commit_num strict () (toES c) (n + 1) pt info = .ok e) :
    WindowES e := by
  rw [C03_fn_validator_set_next_counterparty_commit_num strict rfl c n pt info hr hc] at hok
  by_cases a : n + 1 < c.cpRevoke + (if n + 1 = 1 then 1 else 2)
  · rw [if_pos a] at hok; cases hok
  · rw [if_neg a] at hok
    by_cases b : n + 1 ≠ c.cpCommit ∧ n + 1 ≠ c.cpCommit + 1
    · rw [if_pos b] at hok; cases hok
    · rw [if_neg b] at hok
      have hd : (if n + 1 = 1 then 1 else 2) ≥ 1 := by split <;> omega
      by_cases d : n + 1 = c.cpCommit + 1
      · rw [if_pos d] at hok
        have he := (Except.ok.inj hok).symm
        subst he
        simp only [WindowES, toES]
        omega
      · rw [if_neg d] at hok
        have he := (Except.ok.inj hok).symm
        subst he
        simp only [WindowES, toES]
        have : n + 1 = c.cpCommit := by
          by_cases x : n + 1 = c.cpCommit
          · exact x
          · exact absurd ⟨x, d⟩ b
        omega

theorem C03_fn_window_after_revoke (c : Chan) (n : Nat) (e : ES)
    (hn : n + 3 ≤ Rs.U64_MAX) (hr : c.cpRevoke + 1 ≤ Rs.U64_MAX)
    (hok : Validator.set_next_counterparty_revoke_num strict () (toES c) (n + 1) = .ok e) :
    WindowES e := by
  rw [C03_fn_validator_set_next_counterparty_revoke_num strict rfl c n hn hr] at hok
  by_cases a : n + 1 + 2 < c.cpCommit
  · rw [if_pos a] at hok; cases hok
  · rw [if_neg a] at hok
    by_cases b : n + 1 + 1 > c.cpCommit
    · rw [if_pos b] at hok; cases hok
    · rw [if_neg b] at hok
      by_cases d : n + 1 ≠ c.cpRevoke ∧ n + 1 ≠ c.cpRevoke + 1
      · rw [if_pos d] at hok; cases hok
      · rw [if_neg d] at hok
        have he := (Except.ok.inj hok).symm
        subst he
        simp only [WindowES, toES]
        omega

end SimpleState

/-! ### Arms of `ChannelHandler::do_handle` (vls-protocol-signer/src/handler.rs), round 9

The arms `ValidateRevocation`, `SignRemoteCommitmentTx`, `SignRemoteCommitmentTx2` as regenerated in
`Gen/FnHandlerArms.lean` (see the section of the same name in `Props/C01Fn.lean`), run on a model channel: the reply
class is that of the model's `revokeCp` / `signCp` request behind `Node::with_channel`'s refusal of a stub; an
unparsable secret / point crashes the handler before the channel is touched; the counterparty's HTLC lists reach
`sign_counterparty_commitment_tx(_phase2)` flipped (first component of `extract_htlcs` as `offered`). -/
section HandlerArms
open VlsModel.Secrets VlsModel.Lemmas.HandlerFn
open VlsModel.Gen.FnHandlerArms

/-- `ValidateRevocation` -/
theorem C03_fn_handle_validate_revocation (F : Nat → Bytes → Bytes) (fs : Nat → Option (Bytes × Nat)) (c : Chan)
    (ver n wire : Nat) :
    let g := ChannelHandler.handle_validate_revocation fs readyChannel
               (fun ch num (sk : Bytes × Nat) => resM (revokeCp F ch num sk.1 sk.2).out.res ()) (handler c ver) ⟨n, wire⟩
    (fs wire = none → g = .error .panic)
    ∧ (∀ s pt, fs wire = some (s, pt) → (chanStep F c (.revokeCp n s pt)).out.res = hcls g) := by
  refine ⟨?_, ?_⟩
  · intro h
    simp [ChannelHandler.handle_validate_revocation, h, Rs.unwrap, Rs.panic]
  · intro s pt h
    cases hs : c.slot <;>
      simp [ChannelHandler.handle_validate_revocation, h, Rs.unwrap, handler, readyChannel, hs, chanStep, needReady, fail]
    generalize (revokeCp F c n s pt).out.res = r
    cases r <;> simp [resM, hcls]

/-- `SignRemoteCommitmentTx2` -/
theorem C03_fn_handle_sign_remote_commitment_tx2 (F : Nat → Bytes → Bytes) (pfs : Nat → Option Nat)
    (ex : Nat → List Nat × List Nat) (I : Nat → Nat → Nat → List Nat → List Nat → Nat)
    (P : Nat → Nat → Nat → List Nat → List Nat → Bool) (c : Chan) (ver : Nat)
    (m : SignRemoteCommitmentTx2 Nat Nat) :
    let g := ChannelHandler.handle_sign_remote_commitment_tx2 (Signature := Nat) pfs ex readyChannel
               (fun ch pt num fee tl tr off rcv =>
                  resM (signCp ch num pt (I fee tl tr off rcv) (P fee tl tr off rcv)).out.res (0, ([] : List Nat)))
               (fun s => ⟨s, 1⟩) (fun _ => 0) (handler c ver) m
    (pfs m.remote_per_commitment_point = none → g = .error .panic)
    ∧ (∀ pt, pfs m.remote_per_commitment_point = some pt →
        (chanStep F c (.signCp m.commitment_number pt
            (I m.feerate m.to_local_value_sat m.to_remote_value_sat (ex m.htlcs).1 (ex m.htlcs).2)
            (P m.feerate m.to_local_value_sat m.to_remote_value_sat (ex m.htlcs).1 (ex m.htlcs).2))).out.res = hcls g) := by
  refine ⟨?_, ?_⟩
  · intro h
    simp [ChannelHandler.handle_sign_remote_commitment_tx2, h, Rs.unwrap, Rs.panic]
  · intro pt h
    cases hs : c.slot <;>
      simp [ChannelHandler.handle_sign_remote_commitment_tx2, h, Rs.unwrap, handler, readyChannel, hs, chanStep,
        needReady, fail]
    generalize (signCp c m.commitment_number pt _ _).out.res = r
    cases r <;> simp [resM, hcls]

/-- `SignRemoteCommitmentTx` -/
theorem C03_fn_handle_sign_remote_commitment_tx (F : Nat → Bytes → Bytes) (pfs : Nat → Option Nat)
    (ex : Nat → List Nat × List Nat) (pin : Nat → Nat) (wit : Nat → List Nat) (tin : Nat → Nat)
    (I : Nat → List Nat → Nat → List Nat → List Nat → Nat)
    (P : Nat → List Nat → Nat → List Nat → List Nat → Bool) (c : Chan) (ver : Nat)
    (m : SignRemoteCommitmentTx Nat Nat Nat) :
    let g := ChannelHandler.handle_sign_remote_commitment_tx (Signature := Nat) pin wit tin pfs ex readyChannel
               (fun ch tx ws pt num fee off rcv =>
                  resM (signCp ch num pt (I tx ws fee off rcv) (P tx ws fee off rcv)).out.res 0)
               (fun s => ⟨s, 1⟩) (handler c ver) m
    (pfs m.remote_per_commitment_point = none → g = .error .panic)
    ∧ (∀ pt, pfs m.remote_per_commitment_point = some pt →
        (chanStep F c (.signCp m.commitment_number pt
            (I (tin m.tx) (wit (pin m.psbt)) m.feerate (ex m.htlcs).1 (ex m.htlcs).2)
            (P (tin m.tx) (wit (pin m.psbt)) m.feerate (ex m.htlcs).1 (ex m.htlcs).2))).out.res = hcls g) := by
  refine ⟨?_, ?_⟩
  · intro h
    simp [ChannelHandler.handle_sign_remote_commitment_tx, h, Rs.unwrap, Rs.panic]
  · intro pt h
    cases hs : c.slot <;>
      simp [ChannelHandler.handle_sign_remote_commitment_tx, h, Rs.unwrap, handler, readyChannel, hs, chanStep,
        needReady, fail]
    generalize (signCp c m.commitment_number pt _ _).out.res = r
    cases r <;> simp [resM, hcls]
/-- non-vacuity: on a fresh ready channel `SignRemoteCommitmentTx2` for commitment 0 is signed, on a stub it is refused -/
example :
    let m : SignRemoteCommitmentTx2 Nat Nat :=
      { remote_per_commitment_point := 5, commitment_number := 0, feerate := 253, to_local_value_sat := 1,
        to_remote_value_sat := 2, htlcs := 0 }
    let ext := fun (ch : Chan) (pt num _fee _tl _tr : Nat) (_o _r : List Nat) =>
      resM (signCp ch num pt 7 true).out.res (0, ([] : List Nat))
    hcls (ChannelHandler.handle_sign_remote_commitment_tx2 (Signature := Nat) (fun p => some p) (fun _ => ([], []))
            readyChannel ext (fun s => ⟨s, 1⟩) (fun _ => 0) (handler { slot := .ready } 6) m) = .ok
    ∧ hcls (ChannelHandler.handle_sign_remote_commitment_tx2 (Signature := Nat) (fun p => some p) (fun _ => ([], []))
            readyChannel ext (fun s => ⟨s, 1⟩) (fun _ => 0) (handler { } 6) m) = .errInvalid := by
  decide

end HandlerArms

/-! ### The unguarded counterparty setters (round 9)

`EnforcementState::set_next_counterparty_{commit,revoke}_num_for_testing` (validator.rs:858/874) write the counterparty counters
(and shift the point) without the window / retry guards tied above, for EVERY number.  Compiled only under `cfg(test)` /
feature `test_utils`; the model has no request for them. -/
theorem C03_fn_set_next_counterparty_commit_num_for_testing {P : Type} (e : Gen.FnEnforceTest.EnforcementState P)
    (num : Nat) (pt : P) :
    e.set_next_counterparty_commit_num_for_testing num pt
      = { e with next_counterparty_commit_num := num, current_counterparty_point := some pt,
                 previous_counterparty_point := e.current_counterparty_point } := by
  rfl

theorem C03_fn_set_next_counterparty_revoke_num_for_testing {P : Type} (e : Gen.FnEnforceTest.EnforcementState P)
    (num : Nat) :
    e.set_next_counterparty_revoke_num_for_testing num = { e with next_counterparty_revoke_num := num } := by
  rfl

end VlsModel.Props.C03Fn
