import VlsModel.Model.Enforcement
import VlsModel.Gen.FnEnforce
import VlsModel.Lemmas.FnGen
/-
C03 — the enforcement-state updates and selectors that the hand-written model `Model/Enforcement.lean` inlines
in `signCp`, `revokeCp`, `revoke` and `prevPoint`, proved equal to the bodies of
`EnforcementState::{set_next_holder_commit_num, set_next_counterparty_commit_num, get_previous_counterparty_point,
get_previous_counterparty_commit_info, set_next_counterparty_revoke_num}` that `translate/rs2lean.py` regenerates
from `vls-core/src/policy/validator.rs` (`Gen/FnEnforce.lean`) on every run.

`toES` reads a model channel as the nine translated fields of `EnforcementState`; the opaque Rust types
(`PublicKey`, `CommitmentInfo2`, `CommitmentSignatures`) are instantiated with the model's identifiers (`Nat`).
The model keeps one field `cur` for `current_holder_commit_info` + `current_counterparty_signatures` (they are
always written together), so `toES` copies it into both.

Each theorem is stated under exactly the guard under which the model performs the update (the guards are the
`Validator::set_next_*` checks that precede the call), plus the 64-bit range of the counters; the companion
`…_panic` / `…_overflow` theorems state what the code does outside.
-/
namespace VlsModel.Props.C03Fn
open VlsModel VlsModel.Enforcement
open VlsModel.Gen.FnEnforce (EnforcementState)

abbrev ES := EnforcementState Nat Nat Nat

def toES (c : Chan) : ES :=
  { next_holder_commit_num := c.next, next_counterparty_commit_num := c.cpCommit,
    next_counterparty_revoke_num := c.cpRevoke, current_counterparty_point := c.curPt,
    previous_counterparty_point := c.prevPt, current_holder_commit_info := c.cur,
    current_counterparty_signatures := c.cur, current_counterparty_commit_info := c.curInfo,
    previous_counterparty_commit_info := c.prevInfo }

/-- `advance_holder_commitment_state` in `revoke`: `set_next_holder_commit_num(next + 1, info, sigs)` -/
theorem C03_fn_set_next_holder_commit_num (c : Chan) (info : Nat) (h : c.next + 1 ≤ Rs.U64_MAX) :
    (toES c).set_next_holder_commit_num (c.next + 1) info info
      = .ok (toES { c with next := c.next + 1, cur := some info }) := by
  simp [EnforcementState.set_next_holder_commit_num, toES, Rs.uadd, h, Rs.assert]

/-- any other number trips `assert_eq!(num, current + 1)` -/
theorem C03_fn_set_next_holder_commit_num_panic (c : Chan) (num info sig : Nat)
    (h : c.next + 1 ≤ Rs.U64_MAX) (hn : num ≠ c.next + 1) :
    (toES c).set_next_holder_commit_num num info sig = .error .panic := by
  simp [EnforcementState.set_next_holder_commit_num, toES, Rs.uadd, h, Rs.assert, hn, Rs.panic, bind, Except.bind]

/-- `signCp`, normal progression (`num = cpCommit + 1`): current moves to previous, the new point and info
    become current -/
theorem C03_fn_set_next_counterparty_commit_num (c : Chan) (pt info : Nat) (h : c.cpCommit + 1 ≤ Rs.U64_MAX) :
    (toES c).set_next_counterparty_commit_num (c.cpCommit + 1) pt info
      = .ok (toES { c with prevPt := c.curPt, prevInfo := c.curInfo, curPt := some pt, curInfo := some info,
                           cpCommit := c.cpCommit + 1 }) := by
  simp [EnforcementState.set_next_counterparty_commit_num, toES, Rs.uadd, h, Rs.assert]

/-- `signCp`, retry (`num = cpCommit`, `num ≥ 1`): nothing moves -/
theorem C03_fn_set_next_counterparty_commit_num_retry (c : Chan) (pt info : Nat)
    (h : c.cpCommit + 1 ≤ Rs.U64_MAX) (h0 : c.cpCommit > 0) :
    (toES c).set_next_counterparty_commit_num c.cpCommit pt info = .ok (toES c) := by
  have h1 : ¬ c.cpCommit = c.cpCommit + 1 := by omega
  have h2 : ¬ c.cpCommit + 1 < c.cpCommit := by omega
  have h3 : ¬ c.cpCommit + 1 ≤ c.cpCommit := by omega
  simp [EnforcementState.set_next_counterparty_commit_num, toES, Rs.uadd, h, Rs.assert, h0, h1, h2, h3]

/-- `assert!(num > 0)` -/
theorem C03_fn_set_next_counterparty_commit_num_panic (c : Chan) (pt info : Nat) :
    (toES c).set_next_counterparty_commit_num 0 pt info = .error .panic := by
  simp [EnforcementState.set_next_counterparty_commit_num, Rs.assert, Rs.panic, bind, Except.bind]

theorem C03_fn_get_previous_counterparty_point (c : Chan) (n : Nat) (h : n + 2 ≤ Rs.U64_MAX) :
    (toES c).get_previous_counterparty_point n = .ok (prevPoint c n) := by
  have h1 : n + 1 ≤ Rs.U64_MAX := by omega
  unfold EnforcementState.get_previous_counterparty_point prevPoint
  simp only [toES, Rs.uadd, h, h1, if_true, Rs.bind_ok, Rs.pure_eq]
  by_cases a : n + 1 = c.cpCommit <;> by_cases b : n + 2 = c.cpCommit <;> simp [a, b]

/-- the same selector on the commitment infos (`signCp` compares a retry against `curInfo`) -/
theorem C03_fn_get_previous_counterparty_commit_info (c : Chan) (n : Nat) (h : n + 2 ≤ Rs.U64_MAX) :
    (toES c).get_previous_counterparty_commit_info n
      = .ok (if n + 1 = c.cpCommit then c.curInfo else if n + 2 = c.cpCommit then c.prevInfo else none) := by
  have h1 : n + 1 ≤ Rs.U64_MAX := by omega
  unfold EnforcementState.get_previous_counterparty_commit_info
  simp only [toES, Rs.uadd, h, h1, if_true, Rs.bind_ok, Rs.pure_eq]
  by_cases a : n + 1 = c.cpCommit <;> by_cases b : n + 2 = c.cpCommit <;> simp [a, b]

/-- the selectors use a plain `+`: at `num = u64::MAX` the code overflows before it compares -/
theorem C03_fn_get_previous_counterparty_point_overflow (c : Chan) :
    (toES c).get_previous_counterparty_point Rs.U64_MAX = .error .overflow := by
  simp [EnforcementState.get_previous_counterparty_point, Rs.uadd, Rs.U64_MAX, Rs.overflow, bind, Except.bind]

/-- `revokeCp`: `set_next_counterparty_revoke_num(num)` for `num ≥ 1` drops the previous info exactly when
    `num + 1 ≥ cpCommit` and sets the counter -/
theorem C03_fn_set_next_counterparty_revoke_num (c : Chan) (num : Nat) (h0 : num ≠ 0) (h : num + 1 ≤ Rs.U64_MAX) :
    (toES c).set_next_counterparty_revoke_num num
      = .ok (toES { c with prevInfo := if num + 1 ≥ c.cpCommit then none else c.prevInfo, cpRevoke := num }) := by
  unfold EnforcementState.set_next_counterparty_revoke_num
  by_cases a : num + 1 ≥ c.cpCommit <;> simp [toES, Rs.uadd, h, Rs.assert, h0, a]

/-- `assert_ne!(num, 0)` -/
theorem C03_fn_set_next_counterparty_revoke_num_panic (c : Chan) :
    (toES c).set_next_counterparty_revoke_num 0 = .error .panic := by
  simp [EnforcementState.set_next_counterparty_revoke_num, Rs.assert, Rs.panic, bind, Except.bind]

end VlsModel.Props.C03Fn
