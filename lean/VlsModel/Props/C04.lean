import VlsModel.Lemmas.Bolt3
import VlsModel.Lemmas.Bolt3Bytes
import VlsModel.Model.Bolt3Htlc
/-
C04 — Commitment signatures bind to the BOLT-3 transaction of the validated content.

Statement (properties.jsonl): every signature returned for a counterparty commitment (and its HTLC
transactions) verifies, under the channel's own funding or HTLC key, against exactly the BOLT-3
transaction determined by the negotiated channel parameters, the funding outpoint and the semantic
content that passed validation, and against no transaction the caller merely supplied.  The
raw-transaction entry point accepts a transaction only if it is byte for byte that canonical
transaction, and on every commitment the semantic entry point accepts, the raw entry point accepts the
canonical transaction and returns the same signature.

Model: `VlsModel/Model/Bolt3.lean` — structured transactions, `canon` (LDK's builder as VLS calls it),
`decode` (`decode_commitment_tx`/`handle_output`), `phase1`, `phase2`.  P2WSH is an abstract function
`wsh : Script → H`, the byte order of script_pubkeys an abstract `okey : Spk H → Nat`, the signature an
abstract `sign key (sighash tx)`; the validator around the builder is an arbitrary `Env` (all theorems
hold for every validator).  Injectivity of `wsh` (SHA-256 collision freedom) and of `okey` (distinct
byte strings are ordered) are *hypotheses* of the theorems that need them, never axioms.

`C04_partial` — what is NOT proved here, only validated on every run by the correspondence harness
(`harness/src/props/c04.rs`, translation validation): that the structured `canon` serialises to the
bytes LDK's `CommitmentTransaction` builder produces (compared field by field for random setups and
contents, and re-serialised by an independent serializer), that the template parsers of `tx.rs` /
`script.rs` recognise exactly the byte strings of the templates (byte-level mutations of every script),
the BIP143 sighash, ECDSA, and key derivation.  The theorems below are unbounded statements about the
structured layer.
-/
namespace VlsModel.Props.C04
open VlsModel VlsModel.Bolt3

variable {H M S : Type} [DecidableEq H]
variable (wsh : Script → H) (okey : Spk H → Nat) (cr : Crypto H M S)

/-- The content phase 1 validates for a decoded transaction: balances from the transaction, HTLCs and
    feerate from the arguments. -/
def decodedContent (info : Info) (commitNum feerate : Nat) (offered received : List Htlc) : Content :=
  (Info2.mk' info.csVal info.bcVal offered received feerate).content commitNum

/-- **C04_phase1_accepts_only_canon.**  Whatever phase 1 signs is the canonical transaction of the
    content it decoded and validated — the signature is `sign fundingKey (sighash canon channelValue)`, nothing
    caller-supplied is signed (this part needs no assumption on the policy filter) — and, when the
    filter treats `policy-commitment` as an error, the submitted transaction *is* that canonical
    transaction. -/
theorem C04_phase1_accepts_only_canon (env : Env) (s : Setup) (k : Keys) (tx : CTx H)
    (ws : List (Option Script)) (commitNum feerate : Nat) (offered received : List Htlc) (sig : S)
    (h : phase1 wsh okey cr env s k tx ws commitNum feerate offered received = .ok sig) :
    ∃ info rtx,
      decode wsh s k tx ws = some info ∧
      canon wsh okey s k (decodedContent info commitNum feerate offered received) = some rtx ∧
      sig = cr.sign env.fundingKey (cr.sighash rtx s.channelValue) ∧
      (env.mismatchIsError = true → tx = rtx) := by
  unfold phase1 at h
  split at h
  · cases h
  split at h
  · cases h
  split at h
  · cases h
  rename_i info hdec
  simp only at h
  split at h
  · cases h
  split at h
  · cases h
  rename_i rtx hcanon
  split at h
  · cases h
  rename_i hne
  split at h
  · cases h
  refine ⟨info, rtx, hdec, hcanon, ?_, ?_⟩
  · injection h with h; exact h.symm
  · intro hm
    by_cases hEq : rtx = tx
    · exact hEq.symm
    · exact absurd ⟨hEq, hm⟩ hne

/-- **C04_decode_canon.**  For well-formed `(setup, keys, content)` (`wf`, decidable) the decoder
    recognises every output of the canonical transaction and extracts exactly the content's balances
    (`canonInfo`). -/
theorem C04_decode_canon (s : Setup) (k : Keys) (c : Content) (tx : CTx H)
    (hwf : wf s k c = true) (hc : canon wsh okey s k c = some tx) :
    decode wsh s k tx (canonWs wsh okey s k c) = some (canonInfo s c) := by
  unfold canon at hc
  split at hc
  · cases hc
  injection hc with hc
  subst hc
  simp only [decode, ne_eq, not_true_eq_false, ↓reduceIte]
  rw [zip_canon]
  exact decodeOuts_canon wsh okey s k c hwf

/-- **C04_phase_agree.**  On every content phase 2 accepts, phase 1 accepts the canonical transaction
    (with its witness scripts and the same HTLC lists) and returns the same signature. -/
theorem C04_phase_agree (hw : Function.Injective wsh) (hk : Function.Injective okey)
    (env : Env) (s : Setup) (k : Keys) (c : Content) (hwf : wf s k c = true) (sig : S) (hsigs : List S)
    (h : phase2 wsh okey cr env s k c = .ok (sig, hsigs)) :
    ∃ tx, canon wsh okey s k c = some tx ∧
      phase1 wsh okey cr env s k tx (canonWs wsh okey s k c) c.commitNum c.feerate c.offered c.received
        = .ok sig := by
  unfold phase2 at h
  split at h
  · cases h
  rename_i hchan
  simp only at h
  split at h
  · cases h
  rename_i hpre
  split at h
  · cases h
  rename_i rtx hcanon
  split at h
  · cases h
  split at h
  · cases h
  rename_i hpost
  injection h with h
  injection h with hsig _
  refine ⟨rtx, hcanon, ?_⟩
  have hdec := C04_decode_canon wsh okey s k c rtx hwf hcanon
  -- the content phase 1 reconstructs is the same up to the order of the HTLC lists
  have hcong := canon_congr wsh okey hw hk s k c
    ((Info2.mk' (canonInfo s c).csVal (canonInfo s c).bcVal c.offered c.received c.feerate).content c.commitNum)
    rfl rfl rfl (isort_perm _ _) (isort_perm _ _)
  have hlen : rtx.outputs.length = (canonWs wsh okey s k c).length := by
    unfold canon at hcanon
    split at hcanon
    · cases hcanon
    injection hcanon with hcanon
    subst hcanon
    simp [canonWs]
  unfold phase1
  simp only [hlen, ne_eq, not_true_eq_false, ↓reduceIte, hchan, hdec]
  have hi2 : Info2.mk' (canonInfo s c).csVal (canonInfo s c).bcVal c.offered c.received c.feerate
      = Info2.mk' c.toCs c.toBc c.offered c.received c.feerate := rfl
  rw [hi2] at hcong ⊢
  simp only [hpre, hcong.1, hcanon, hpost, hsig]
  simp

/-- **C04_mutation (transaction).**  For given arguments and decoded balances there is exactly one
    transaction phase 1 accepts: two accepted transactions that decode to the same balances are equal.
    Hence any change of an accepted transaction that leaves the two decoded balances alone — version,
    locktime, sequence, outpoint, an HTLC/anchor value, any script, output order, an extra or missing
    HTLC/anchor output — is refused; a change *of* a balance makes the transaction the canonical one of
    a different content or is refused as well (first theorem). -/
theorem C04_mutation (env : Env) (hm : env.mismatchIsError = true) (s : Setup) (k : Keys)
    (tx tx' : CTx H) (ws ws' : List (Option Script)) (commitNum feerate : Nat)
    (offered received : List Htlc) (sig sig' : S) (info info' : Info)
    (h : phase1 wsh okey cr env s k tx ws commitNum feerate offered received = .ok sig)
    (h' : phase1 wsh okey cr env s k tx' ws' commitNum feerate offered received = .ok sig')
    (hd : decode wsh s k tx ws = some info) (hd' : decode wsh s k tx' ws' = some info')
    (hsame : info'.csVal = info.csVal ∧ info'.bcVal = info.bcVal) :
    tx' = tx ∧ sig' = sig := by
  obtain ⟨i1, r1, d1, c1, s1, e1⟩ := C04_phase1_accepts_only_canon wsh okey cr env s k tx ws _ _ _ _ sig h
  obtain ⟨i2, r2, d2, c2, s2, e2⟩ := C04_phase1_accepts_only_canon wsh okey cr env s k tx' ws' _ _ _ _ sig' h'
  rw [hd] at d1; rw [hd'] at d2
  injection d1 with d1; injection d2 with d2
  subst d1; subst d2
  have : decodedContent info' commitNum feerate offered received
       = decodedContent info commitNum feerate offered received := by
    simp [decodedContent, hsame.1, hsame.2]
  rw [this, c1] at c2
  injection c2 with c2
  subst c2
  exact ⟨(e2 hm).trans (e1 hm).symm, s2.trans s1.symm⟩

/-- **C04_mutation (witness script).**  Given collision freedom of P2WSH, replacing the witness script
    supplied for a P2WSH output by any other script is refused. -/
theorem C04_mutation_witscript (hw : Function.Injective wsh) (env : Env) (s : Setup) (k : Keys)
    (tx : CTx H) (ws' : List (Option Script)) (commitNum feerate : Nat) (offered received : List Htlc)
    (i : Nat) (o : TxOut H) (sc sc' : Script)
    (ho : tx.outputs[i]? = some o) (hspk : o.spk = .p2wsh (wsh sc))
    (hws : ws'[i]? = some (some sc')) (hne : sc' ≠ sc) (sig : S) :
    phase1 wsh okey cr env s k tx ws' commitNum feerate offered received ≠ .ok sig := by
  intro h
  obtain ⟨info, _, hdec, _⟩ := C04_phase1_accepts_only_canon wsh okey cr env s k tx ws' _ _ _ _ sig h
  unfold decode at hdec
  split at hdec
  · cases hdec
  have hmem : (o, some sc') ∈ tx.outputs.zip ws' := by
    rw [List.mem_iff_getElem?]
    exact ⟨i, List.getElem?_zip_eq_some.mpr ⟨ho, hws⟩⟩
  have hcl : classify wsh s k (o, some sc').1 (o, some sc').2 = none := by
    have : wsh sc ≠ wsh sc' := fun e => hne (hw e).symm
    simp [classify, hspk, this]
  rw [decodeOuts_none_of_mem wsh s k _ _ hmem hcl] at hdec
  cases hdec

/-- **C04_htlc_sigs_canon.**  The HTLC signatures phase 2 returns are, in output order, signatures
    under the channel's HTLC key over exactly the second-level HTLC transactions of the canonical
    commitment: one per HTLC of the content, each spending the output of `canon c` at `vout` — which
    is that HTLC's output (value, P2WSH of its HTLC script) —, with the HTLC script as redeem script,
    the HTLC amount, locktime = cltv for offered / 0 for received, the type's sequence and sighash
    flag, the fee-reduced (or, zero-fee, full) value paid to the to_local script.
    (Phase 1, `sign_counterparty_commitment_tx`, returns the commitment signature only.) -/
theorem C04_htlc_sigs_canon (env : Env) (s : Setup) (k : Keys) (c : Content) (sig : S) (hsigs : List S)
    (h : phase2 wsh okey cr env s k c = .ok (sig, hsigs)) :
    ∃ rtx, canon wsh okey s k c = some rtx ∧
      sig = cr.sign env.fundingKey (cr.sighash rtx s.channelValue) ∧
      hsigs = (htlcTxs wsh okey s k c rtx).map (fun t => cr.sign env.htlcKey (cr.htlcSighash t)) ∧
      (htlcTxs wsh okey s k c rtx).length = c.offered.length + c.received.length ∧
      ∀ t ∈ htlcTxs wsh okey s k c rtx, t.parent = rtx ∧
        ∃ off hl, hl ∈ (if off then c.offered else c.received) ∧
          rtx.outputs[t.vout]? = some ⟨hl.value, .p2wsh (wsh (htlcScript s k off hl))⟩ ∧
          t.redeem = htlcScript s k off hl ∧ t.amount = hl.value ∧
          t.locktime = (if off then hl.cltv else 0) ∧ t.value = htlcTxValue s c.feerate off hl ∧
          t.value.isSome = true ∧
          t.outScript = toLocalScript s k ∧ t.sequence = (if s.ctype.ldkAnchors then 1 else 0) ∧
          t.singleAcp = s.ctype.ldkAnchors := by
  unfold phase2 at h
  split at h
  · cases h
  simp only at h
  split at h
  · cases h
  split at h
  · cases h
  rename_i rtx hcanon
  split at h
  · cases h
  rename_i hval
  split at h
  · cases h
  injection h with h
  injection h with hsig hh
  refine ⟨rtx, hcanon, hsig.symm, hh.symm, ?_, ?_⟩
  · unfold htlcTxs canonElems
    rw [htlcTxsAux_length, (isort_perm _ _).countP_eq, rawElems_countP]
  · intro t ht
    have hv : t.value.isSome = true := by
      simp only [List.any_eq_true, not_exists, not_and, Bool.not_eq_true] at hval
      have := hval t ht
      cases hx : t.value <;> simp_all
    obtain ⟨j, e, off, hl, hj, he, hvout, hpar, hred, ham, hlt, hvl, hos, hsq, hacp⟩ :=
      htlcTxsAux_spec s k c rtx _ 0 t ht
    have hmem : e ∈ rawElems wsh s k c :=
      (isort_perm _ _).subset (List.mem_of_getElem? hj)
    obtain ⟨heq, hin⟩ := rawElems_htlc wsh s k c e hmem off hl he
    refine ⟨hpar, off, hl, hin, ?_, hred, ham, hlt, hvl, hv, hos, hsq, hacp⟩
    unfold canon at hcanon
    split at hcanon
    · cases hcanon
    injection hcanon with hcanon
    subst hcanon
    simp only [hvout, Nat.zero_add, List.getElem?_map]
    rw [hj, heq]
    rfl

omit [DecidableEq H] in
/-- **C04_htlc_raw_signs_recomposed.**  The raw second-stage entry point (`sign_counterparty_htlc_tx`): whatever it
    signs is the BIP143 sighash of the BOLT-3 second-stage transaction *recomposed* from the content of the request
    (spent outpoint, cltv of an offered HTLC, value) with version 2, the type's sequence, locktime 0 for a received
    HTLC and a single output to the to_local script with the negotiated delay — and the supplied transaction has that
    very sighash.  No policy-filter parameter occurs in the statement: the refusal of a mismatch is unconditional. -/
theorem C04_htlc_raw_signs_recomposed {M' S' : Type} [DecidableEq M'] (crh : HtlcCrypto H M' S')
    (polOk : Nat → Bool → Nat → Bool) (htlcKey : Key) (s : Setup) (k : Keys)
    (tx : StageTx H) (redeem : Script) (amount : Nat) (sig : S')
    (h : htlcRaw wsh crh polOk htlcKey s k tx redeem amount = .ok sig) :
    ∃ offered i v,
      redeemSide s redeem = some offered ∧ tx.inputs.head? = some i ∧
      (∃ o, tx.outputs.head? = some o ∧ o.value ≤ amount ∧
        htlcTxValue s (htlcRate s offered (amount - o.value)) offered ⟨amount, 0, stageCltv offered tx.locktime⟩ = some v) ∧
      crh.sighash tx redeem amount s.ctype.isAnchors
        = crh.sighash (recomposeStage wsh s k i offered tx.locktime v) redeem amount s.ctype.isAnchors ∧
      sig = crh.sign htlcKey (crh.sighash (recomposeStage wsh s k i offered tx.locktime v) redeem amount s.ctype.isAnchors) := by
  unfold htlcRaw at h
  simp only at h
  split at h
  · cases h
  rename_i offered hside
  split at h
  · rename_i i _ o _ hin hout
    split at h
    · cases h
    rename_i hfee
    split at h
    · cases h
    rename_i v hv
    split at h
    · cases h
    rename_i heq
    split at h
    · cases h
    injection h with h
    refine ⟨offered, i, v, hside, by simp [hin], ⟨o, by simp [hout], by omega, hv⟩, ?_, h.symm⟩
    exact (Decidable.of_not_not heq).symm
  · cases h

omit [DecidableEq H] in
/-- **C04_htlc_raw_key_of_request.**  The signature the raw second-stage entry point returns is under the HTLC key
    derived from the per-commitment point *of the request* — the point whose keys the supplied transaction and its
    scripts were validated with — and over the recomposed BOLT-3 transaction of those keys; the points the enforcement
    state recorded for the commitments signed last play no role (two states, same result).  This is the clause
    "verifies under the channel's own HTLC key" for HTLC transactions of a commitment other than the last one signed. -/
theorem C04_htlc_raw_key_of_request {M' S' : Type} [DecidableEq M'] (crh : HtlcCrypto H M' S')
    (polOk : Nat → Bool → Nat → Bool) (keysOf : Nat → Keys) (htlcKeyOf : Nat → Key) (st st' : CpPoints)
    (s : Setup) (point : Nat) (tx : StageTx H) (redeem : Script) (amount : Nat) :
    signCounterpartyHtlcTx wsh crh polOk keysOf htlcKeyOf st s point tx redeem amount
      = signCounterpartyHtlcTx wsh crh polOk keysOf htlcKeyOf st' s point tx redeem amount ∧
    ∀ sig, signCounterpartyHtlcTx wsh crh polOk keysOf htlcKeyOf st s point tx redeem amount = .ok sig →
      ∃ offered i v, redeemSide s redeem = some offered ∧ tx.inputs.head? = some i ∧
        sig = crh.sign (htlcKeyOf point)
          (crh.sighash (recomposeStage wsh s (keysOf point) i offered tx.locktime v) redeem amount s.ctype.isAnchors) := by
  refine ⟨rfl, fun sig h => ?_⟩
  obtain ⟨offered, i, v, h1, h2, _, _, h5⟩ :=
    C04_htlc_raw_signs_recomposed wsh crh polOk (htlcKeyOf point) s (keysOf point) tx redeem amount sig h
  exact ⟨offered, i, v, h1, h2, h5⟩

/-- **C04_restart_same_sig.**  A restart does not change what is signed: persisting a channel and
    restoring it (`Node::new_from_persistence`: stored `ChannelSetup` + stored `channel_value_satoshis`)
    is the identity on the setup, so both entry points return, before and after a restart, the same
    result for the same keys and content — the signature is a function of setup, keys and content only,
    and in particular commits to the negotiated channel value (`sighash rtx s.channelValue`). -/
theorem C04_restart_same_sig (env : Env) (s : Setup) (k : Keys) (c : Content)
    (tx : CTx H) (ws : List (Option Script)) (commitNum feerate : Nat) (offered received : List Htlc) :
    restoreChannel (persistChannel s) = s ∧
    phase2 wsh okey cr env (restoreChannel (persistChannel s)) k c = phase2 wsh okey cr env s k c ∧
    phase1 wsh okey cr env (restoreChannel (persistChannel s)) k tx ws commitNum feerate offered received
      = phase1 wsh okey cr env s k tx ws commitNum feerate offered received := by
  have h : restoreChannel (persistChannel s) = s := rfl
  exact ⟨h, by rw [h], by rw [h]⟩

/-- **C04_resetup_keeps_setup.**  A second `setup_channel` on a ready channel is acknowledged only if it is identical
    to the setup the channel has (every field, the funding outpoint included), and whether acknowledged or refused
    the channel goes on signing for the setup it had: an acknowledged setup is always the one signatures bind to. -/
theorem C04_resetup_keeps_setup (cur new s' : Setup) (h : resetupReady cur new = .ok s') :
    new = cur ∧ s' = cur := by
  unfold resetupReady at h
  split at h
  · cases h
  · rename_i hne
    injection h with h
    exact ⟨(Decidable.of_not_not hne).symm, h.symm⟩

/-- What a restore with the wrong amount would do (the shape of a seeded defect): the commitment
    signature of phase 2 commits to that amount instead of the negotiated channel value. -/
theorem C04_restart_amount_matters (env : Env) (s : Setup) (k : Keys) (c : Content) (v : Nat) (sig : S) (hs : List S)
    (h : phase2 wsh okey cr env (restoreChannel ⟨s, v⟩) k c = .ok (sig, hs)) :
    ∃ rtx, sig = cr.sign env.fundingKey (cr.sighash rtx v) := by
  obtain ⟨rtx, _, h2, _⟩ := C04_htlc_sigs_canon wsh okey cr env (restoreChannel ⟨s, v⟩) k c sig hs h
  exact ⟨rtx, h2⟩

/-! ## Byte layer (`Model/Bolt3Bytes.lean`)

The byte-level instance of the model: `H := Nat` (256-bit P2WSH programs), `wshB env` = SHA-256 (executable,
`Prim/Sha256.lean`) of the real script bytes of the template, `okeyB env` = the lexicographic byte order
of script_pubkeys, `ser env` = the witness-less consensus serialisation.  The harness compares
`ser (canon c)` with the bytes of the transaction LDK really builds on every generated content.

What is proved: `ser` is injective on well-formed structured transactions, so "byte for byte equal"
and "structurally equal" coincide and the theorems above speak about bytes; `okeyB` is injective
(so that hypothesis of `C04_phase_agree` is discharged by this instance, given only that HASH160 does
not collide on the channel's finitely many keys — decidable, `wfEnv`).
What stays a hypothesis: `Function.Injective (wshB env)`, i.e. SHA-256 collision freedom on script
serialisations (no executable hash can be *proved* injective; it is false for any compressing function
and only computationally infeasible to refute). -/

section bytes
variable {M S : Type} (env : BEnv) (crB : Crypto Nat M S)

/-- **C04_ser_injective.**  On well-formed structured transactions, equal bytes ⇔ equal structure. -/
theorem C04_ser_injective (henv : wfEnv env = true) (a b : CTx Nat)
    (wa : wfTx env a = true) (wb : wfTx env b = true) : ser env a = ser env b ↔ a = b :=
  ⟨ser_injective env (wfEnv_iff env henv) a b wa wb, fun h => by rw [h]⟩

/-- The canonical transaction of a content that fits the wire widths is a well-formed structured tx. -/
theorem C04_canon_wfTx (s : Setup) (k : Keys) (c : Content) (tx : CTx Nat)
    (hf : fits env s k c = true) (hc : canon (wshB env) (okeyB env) s k c = some tx) :
    wfTx env tx = true := canon_wfTx env s k c tx hf hc

/-- **C04_phase1_accepts_only_canon_bytes.**  At the byte level: what phase 1 accepts serialises to
    exactly the bytes of the canonical transaction of the decoded content, and the signature is over
    that canonical transaction. -/
theorem C04_phase1_accepts_only_canon_bytes (e : Env) (hm : e.mismatchIsError = true) (s : Setup) (k : Keys)
    (tx : CTx Nat) (ws : List (Option Script)) (commitNum feerate : Nat) (offered received : List Htlc) (sig : S)
    (h : phase1 (wshB env) (okeyB env) crB e s k tx ws commitNum feerate offered received = .ok sig) :
    ∃ info rtx,
      decode (wshB env) s k tx ws = some info ∧
      canon (wshB env) (okeyB env) s k (decodedContent info commitNum feerate offered received) = some rtx ∧
      ser env tx = ser env rtx ∧ sig = crB.sign e.fundingKey (crB.sighash rtx s.channelValue) := by
  obtain ⟨info, rtx, h1, h2, h3, h4⟩ :=
    C04_phase1_accepts_only_canon (wshB env) (okeyB env) crB e s k tx ws commitNum feerate offered received sig h
  exact ⟨info, rtx, h1, h2, by rw [h4 hm], h3⟩

/-- **C04_equality_test_bytewise.**  The structural test `recomposed ≠ tx` of the model is the byte
    comparison of the implementation: for a well-formed submitted transaction it fails exactly when
    the serialisations differ. -/
theorem C04_equality_test_bytewise (henv : wfEnv env = true) (s : Setup) (k : Keys) (c : Content)
    (tx rtx : CTx Nat) (hf : fits env s k c = true) (hc : canon (wshB env) (okeyB env) s k c = some rtx)
    (wtx : wfTx env tx = true) : rtx ≠ tx ↔ ser env rtx ≠ ser env tx := by
  have := C04_ser_injective env henv rtx tx (canon_wfTx env s k c rtx hf hc) wtx
  exact not_congr this.symm

/-- **C04_phase_agree_bytes.**  Phase agreement at the byte-level instance: the order-key hypothesis
    is discharged (`okeyB_injective`); SHA-256 collision freedom remains the only cryptographic
    hypothesis. -/
theorem C04_phase_agree_bytes (henv : wfEnv env = true) (hsha : Function.Injective (wshB env))
    (e : Env) (s : Setup) (k : Keys) (c : Content) (hwf : wf s k c = true) (sig : S) (hsigs : List S)
    (h : phase2 (wshB env) (okeyB env) crB e s k c = .ok (sig, hsigs)) :
    ∃ tx, canon (wshB env) (okeyB env) s k c = some tx ∧
      phase1 (wshB env) (okeyB env) crB e s k tx (canonWs (wshB env) (okeyB env) s k c)
        c.commitNum c.feerate c.offered c.received = .ok sig :=
  C04_phase_agree (wshB env) (okeyB env) crB hsha (okeyB_injective env (wfEnv_iff env henv)) e s k c hwf sig hsigs h

/-- a concrete environment (7 channel keys with distinct HASH160 values): `wfEnv` holds by evaluation,
    hence `okeyB env0` is an injective order key — an instance, not an assumption -/
def env0 : BEnv :=
  { nKeys := 8, keyBytes := fun k => List.replicate 33 (UInt8.ofNat k), keyHash160 := fun k => 1000 + k,
    payHash160 := fun h => h }

example : wfEnv env0 = true := by decide
example : Function.Injective (okeyB env0) := okeyB_injective env0 (wfEnv_iff env0 (by decide))
/-- the sample content of the non-vacuity section fits the wire widths (hypothesis of `C04_canon_wfTx`) -/
example : fits env0 ⟨.staticRemoteKey, true, 6, 7, 2, 0, 3000000, 0x2bb038521914⟩ ⟨1, 2, 3, 4, 5, 6, 7⟩
    ⟨23, 1000, 1000000, 1979997, [⟨4000, 1, 131072⟩], [⟨5000, 3, 196608⟩, ⟨10003, 5, 262144⟩]⟩ = true := by decide

end bytes

/-! ## The full-strength agreement claim fails for the deprecated type `Anchors`

`ChannelSetup::is_anchors()` (decoder) and LDK's `supports_anchors_zero_fee_htlc_tx()` (builder) differ
for `CommitmentType::Anchors`: phase 2 signs a non-anchor transaction which the phase-1 decoder
refuses.  `validate_setup_channel` refuses such a channel under the default policy
(`policy-channel-safe-type`), so the witness is reachable only with that tag demoted; it is reported as
a known finding by the harness monitor (`phase-disagree-nonzero-fee-anchors`). -/

section witness
def wId : Script → Script := id
/-- an injective order key on concrete script_pubkeys is not needed for the witnesses below: they have
    outputs with pairwise different values -/
def kZero : Spk Script → Nat := fun _ => 0
def crX : Crypto Script (CTx Script × Nat) (Key × CTx Script × Nat) := ⟨fun t a => (t, a), fun t => (t.parent, t.amount), fun k m => (k, m)⟩
def envOk : Env := ⟨true, fun _ _ => .ok (), fun _ _ => true, true, 100, 101⟩
def keysX : Keys := ⟨1, 2, 3, 4, 5, 6, 7⟩
def setupOf (t : CType) : Setup := ⟨t, true, 6, 7, 2, 0, 3000000, 0x2bb038521914⟩
def contentX : Content :=
  ⟨23, 1000, 1000000, 1979997, [⟨4000, 1, 131072⟩], [⟨5000, 3, 196608⟩, ⟨10003, 5, 262144⟩]⟩

def isOk {α} : Except Kind α → Bool | .ok _ => true | .error _ => false

/-- full-strength agreement (without the well-formedness hypothesis) is false: -/
theorem C04_phase_agree_false_nonzero_fee_anchors :
    isOk (phase2 wId kZero crX envOk (setupOf .anchors) keysX contentX) = true ∧
    (match canon wId kZero (setupOf .anchors) keysX contentX with
     | some tx => isOk (phase1 wId kZero crX envOk (setupOf .anchors) keysX tx
                    (canonWs wId kZero (setupOf .anchors) keysX contentX) 23 1000
                    contentX.offered contentX.received)
     | none => true) = false := by
  decide

/-! ## Non-vacuity: the hypotheses of the theorems are satisfiable by a concrete commitment with HTLCs -/

example : wf (setupOf .anchorsZeroFee) keysX contentX = true := by decide
example : wf (setupOf .staticRemoteKey) keysX contentX = true := by decide

/-- phase 2 accepts the sample content (3 HTLC signatures) for a zero-fee-anchors channel … -/
example : (match phase2 wId kZero crX envOk (setupOf .anchorsZeroFee) keysX contentX with
           | .ok (_, hs) => hs.length == 3 | .error _ => false) = true := by decide

/-- … its canonical transaction has 7 outputs (2 anchors, 3 HTLCs, to_remote, to_local), carries the
    obscured commitment number in locktime/sequence … -/
example : (match canon wId kZero (setupOf .anchorsZeroFee) keysX contentX with
           | some tx => tx.outputs.length == 7 && tx.outputs.map (·.value) == [330, 330, 4000, 5000, 10003, 1000000, 1979997]
                          && tx.locktime == 0x20000000 + 0x521903 && tx.inputs.map (·.sequence) == [0x80000000 + 0x2bb038]
           | none => false) = true := by decide

/-- … phase 1 accepts it (hypothesis of C04_phase1_accepts_only_canon / C04_mutation) … -/
example : (match canon wId kZero (setupOf .anchorsZeroFee) keysX contentX with
           | some tx => isOk (phase1 wId kZero crX envOk (setupOf .anchorsZeroFee) keysX tx
                          (canonWs wId kZero (setupOf .anchorsZeroFee) keysX contentX) 23 1000
                          contentX.offered contentX.received)
           | none => false) = true := by decide

/-- … and refuses the same transaction with the to_local delay changed from 6 to 7 in both the
    script_pubkey and the witness script (a mutation the decoder alone lets through). -/
example : (match canon wId kZero (setupOf .staticRemoteKey) keysX contentX with
           | some tx =>
             let ws := canonWs wId kZero (setupOf .staticRemoteKey) keysX contentX
             let bad : Script := .toLocal 1 7 2
             let tx' := { tx with outputs := tx.outputs.set 4 ⟨1979997, .p2wsh bad⟩ }
             let ws' := ws.set 4 (some bad)
             (decode wId (setupOf .staticRemoteKey) keysX tx' ws').isSome &&
             !isOk (phase1 wId kZero crX envOk (setupOf .staticRemoteKey) keysX tx' ws' 23 1000
                      contentX.offered contentX.received)
           | none => false) = true := by decide

/-- non-vacuity of `C04_htlc_raw_signs_recomposed`: the raw second-stage entry point accepts the BOLT-3 HTLC-timeout
    transaction of a 4000 sat offered HTLC (fee 663 sat) and refuses the same transaction with sequence 1 -/
def crH : HtlcCrypto Script (StageTx Script × Script × Nat × Bool) (Key × StageTx Script × Script × Nat × Bool) :=
  ⟨fun t r a f => (t, r, a, f), fun k m => (k, m)⟩
def stageX : StageTx Script :=
  recomposeStage wId (setupOf .staticRemoteKey) keysX ⟨77, 0, 0, 0, 0⟩ true 131072 (4000 - 663)
example : isOk (htlcRaw wId crH (fun _ _ _ => true) 101 (setupOf .staticRemoteKey) keysX stageX
    (.htlcOffered false 1 4 3 1 20) 4000) = true := by decide
example : isOk (htlcRaw wId crH (fun _ _ _ => true) 101 (setupOf .staticRemoteKey) keysX
    { stageX with inputs := [⟨77, 0, 1, 0, 0⟩] } (.htlcOffered false 1 4 3 1 20) 4000) = false := by decide

end witness

end VlsModel.Props.C04
