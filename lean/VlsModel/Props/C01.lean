import VlsModel.Lemmas.Enforcement
import VlsModel.Lemmas.EnforcementSigs
/-
C01 — A holder commitment is revoked only after its successor is counter-signed.

Statement (properties.jsonl): the signer discloses the per-commitment secret of holder commitment n
only if, earlier in the same channel history, it accepted holder commitment n+1 together with
counterparty signatures that verify against the transaction it rebuilt for n+1.  No request
sequence, retry, protocol-version variant or restart obtains secret n otherwise, and a channel that
is not yet set up never discloses any secret.

Model: `VlsModel/Model/Enforcement.lean` (`step` on `Sys` = in-memory channel + persisted copy).
`Out.secret = some k`  : the reply contains the per-commitment secret of holder commitment `k`.
`Out.validated = some m`: the request's validation of holder commitment `m` succeeded, which in the
model requires `policyOk = true` and `sigs = .valid` (the latter is the harness-supplied fact
"the counterparty signatures verify on the recomposed transactions").
All request-supplied numbers are covered (the release guards use checked arithmetic since 0078200).
The hypothesis "the policy filter maps policy-revoke-new-commitment-signed to Error" is built into
the model (default, non-permissive filter; `SimpleValidatorFactory::new()`).
Only property theorems live here; helper lemmas are in `VlsModel/Lemmas/Enforcement.lean`.
-/
namespace VlsModel.Props.C01
open VlsModel VlsModel.Enforcement VlsModel.Secrets

/-- **C01_inv**: for every request list (any interleaving of the 18 request kinds, any numbers,
    valid or invalid signatures, restarts anywhere) the invariant holds: every holder commitment
    number below `next_holder_commit_num`, and a stored `next_holder_commit_info`, was accepted with
    verifying signatures earlier in the history — for the in-memory state and for the persisted one. -/
theorem C01_inv (F : Nat → Bytes → Bytes) (ops : List Op) :
    I (runH F init [] ops).1 (runH F init [] ops).2 :=
  (run_inv F ops init [] I_init trivial).1

/-- **C01_main**: in every history every disclosed secret `k` (from revoke, get-secret,
    get-secret-or-none, the old-protocol get-point and validate replies) is preceded by an accepted
    validation of `k+1` with verifying counterparty signatures. -/
theorem C01_main (F : Nat → Bytes → Bytes) (ops : List Op) :
    SecretsJustified (runH F init [] ops).2 :=
  (run_inv F ops init [] I_init trivial).2

/-- unfolded form of `C01_main` for one event anywhere in the history -/
theorem C01_main_event (F : Nat → Bytes → Bytes) (ops : List Op) (post pre : Hist) (e : Op × Out) (k : Nat)
    (hh : (runH F init [] ops).2 = post ++ e :: pre) (hk : e.2.secret = some k) :
    Accepted (e :: pre) (k + 1) := by
  have sj := C01_main F ops
  rw [hh] at sj
  clear hh
  induction post with
  | nil => exact sj.1 k hk
  | cons x xs ih => exact ih sj.2

/-- For every request other than the old-protocol validate composite the justification lies
    strictly before the disclosing request. -/
theorem C01_main_strict (F : Nat → Bytes → Bytes) (s : Sys) (h : Hist) (inv : I s h) (op : Op) (k : Nat)
    (hop : ∀ ver n info sv pk, op ≠ .hValidate ver n info sv pk)
    (hk : (step F s op).2.secret = some k) : Accepted h (k + 1) := by
  have st := (I_step F inv op).2 k hk
  rw [accepted_cons] at st
  rcases st with hv | a
  · exfalso
    -- only validate / hValidate set `validated`; validate never returns a secret
    by_cases hr : op = .restart
    · subst hr; simp [step] at hk
    · rw [step_eq F s hr] at hk hv
      dsimp only at hk hv
      cases op with
      | hValidate ver n info sv pk => exact hop _ _ _ _ _ rfl
      | validate n info sv pk =>
        simp only [chanStep, needReady] at hk
        split at hk
        · simp [fail] at hk
        · unfold validate fail at hk
          try dsimp only at hk
          repeat' split at hk
          all_goals simp at hk
      | setup => simp only [chanStep] at hv; split at hv <;> simp [fail] at hv
      | getPoint n => simp [chanStep, fail] at hv
      | getSecret n => simp [chanStep, getSecret_validated] at hv
      | getSecretOrNone n =>
        simp only [chanStep, getSecretOrNone] at hv
        repeat' split at hv
        all_goals simp at hv
      | revoke n po =>
        simp only [chanStep, needReady] at hv
        split at hv
        · simp [fail] at hv
        · simp [revokeP_validated] at hv
      | activate =>
        simp only [chanStep, needReady] at hv
        split at hv
        · simp [fail] at hv
        · simp [activate_validated] at hv
      | signHolder n =>
        simp only [chanStep, needReady, signHolder, fail] at hv
        repeat' split at hv
        all_goals simp at hv
      | signRecovery =>
        simp only [chanStep, needReady, signRecovery, fail] at hv
        repeat' split at hv
        all_goals simp at hv
      | signRedundant n info pk =>
        simp only [chanStep, needReady, signRedundant, fail] at hv
        repeat' split at hv
        all_goals simp at hv
      | signMutualClose pk =>
        simp only [chanStep, needReady, signMutualClose, fail] at hv
        repeat' split at hv
        all_goals simp at hv
      | signCp n pt info pk =>
        simp only [chanStep, needReady] at hv
        split at hv
        · simp [fail] at hv
        · simp [(signCp_frame _ n pt info pk).2.2.2.2.2.2.2] at hv
      | revokeCp n sec pt =>
        simp only [chanStep, needReady] at hv
        split at hv
        · simp [fail] at hv
        · simp [(revokeCp_frame F _ n sec pt).2.2.2.2.2.2.2] at hv
      | restart => exact hr rfl
      | hRevoke ver n po =>
        simp only [chanStep, needReady] at hv
        repeat' split at hv
        all_goals first
          | (simp [fail] at hv; done)
          | (simp [revokeP_validated] at hv; done)
      | hGetPoint ver n =>
        simp only [chanStep] at hv
        repeat' split at hv
        all_goals first
          | (simp [fail] at hv; done)
          | (simp [getSecret_validated] at hv; done)
      | hGetPoint2 n => simp [chanStep, fail] at hv
  · exact a

/-- **C01_stub**: a channel that is not yet set up never discloses any secret, whatever is asked. -/
theorem C01_stub (F : Nat → Bytes → Bytes) (s : Sys) (op : Op) (hs : s.mem.slot = .stub) :
    (step F s op).2.secret = none := by
  by_cases hr : op = .restart
  · subst hr; simp [step]
  · rw [step_eq F s hr]
    dsimp only
    cases op <;> simp [chanStep, needReady, hs, fail, getSecret, getSecretOrNone]
    all_goals first
      | done
      | (split <;> simp)
      | (repeat' split) <;> simp [fail, getSecret, hs]

/-- **C01_retry_restart**: a restart anywhere in the history does not help: the invariant and the
    justification of every secret hold for `ops₁ ++ restart :: ops₂` like for any other list
    (restart is one of the modelled requests; it re-installs the persisted copy, which satisfies the
    invariant on its own). -/
theorem C01_retry_restart (F : Nat → Bytes → Bytes) (ops₁ ops₂ : List Op) :
    I (runH F init [] (ops₁ ++ .restart :: ops₂)).1 (runH F init [] (ops₁ ++ .restart :: ops₂)).2 ∧
    SecretsJustified (runH F init [] (ops₁ ++ .restart :: ops₂)).2 :=
  run_inv F _ init [] I_init trivial

/-! ### The release guard is total (finding F13, fixed by 0078200)

Before the fix `get_per_commitment_secret` computed `commitment_number + 2 > next_holder_commit_num`
with a plain `+`: a debug build panicked for `commitment_number ≥ 2^64-2`, a release build wrapped,
passed the guard and returned a secret (for `u64::MAX` the commitment seed).  The code now uses
`checked_add` / `saturating_add`; the model has no `panic` outcome on these paths any more and
`C01_main` holds for every request-supplied number without a build-mode caveat. -/

/-- the release guard, for every number including those whose successor does not fit in `u64` -/
theorem C01_guard (c : Chan) (n k : Nat) (hk : (getSecret c n).secret = some k) :
    k = n ∧ n + 2 ≤ c.next ∧ n + 2 ≤ U64.MAX ∧ c.slot = .ready := by
  unfold getSecret at hk
  repeat' split at hk
  all_goals simp at hk
  rename_i hs h1 h2
  exact ⟨hk.symm, by omega, by omega, hs⟩

/-- the secret accessors never panic -/
theorem C01_guard_no_panic (c : Chan) (n : Nat) :
    (getSecret c n).res ≠ .panic ∧ (getSecretOrNone c n).res ≠ .panic ∧ (release c n).res ≠ .panic := by
  unfold release getSecret getSecretOrNone
  refine ⟨?_, ?_, ?_⟩
  all_goals (repeat' split) <;> simp

/-! ### Tie to the source: generated constants (translate/x_enforcement.py → Gen/Enforcement.lean)

`INITIAL_COMMITMENT_NUMBER`, the protocol-version thresholds and `1 << 48` are *used* by the model from the
generated file.  The guard offsets are literals in the model; the theorems below state each model guard in
terms of the offset extracted from the Rust expression (whose shape the translator pins), so a changed
offset in the source breaks this obligation. -/

/-- the secret-release guard of the model is the extracted `checked_add(releaseOffset) … n > next` -/
theorem C01_gen_release_guard (c : Chan) (n : Nat) (hs : c.slot = .ready) :
    ((getSecret c n).secret = some n ↔
      n + Gen.Enforcement.releaseOffset ≤ U64.MAX ∧ n + Gen.Enforcement.releaseOffset ≤ c.next) ∧
    ((getSecretOrNone c n).secret = some n ↔
      n + Gen.Enforcement.releaseOffset ≤ U64.MAX ∧ n + Gen.Enforcement.releaseOffset ≤ c.next) := by
  unfold getSecret getSecretOrNone Gen.Enforcement.releaseOffset
  simp only [hs]
  constructor <;> (repeat' split) <;> simp <;> omega

/-- the point guard of the model is the extracted `commitment_number > next + pointSlack` -/
theorem C01_gen_point_guard (c : Chan) (n : Nat) (hs : c.slot = .ready) :
    getPoint c n = .ok ↔ n ≤ c.next + Gen.Enforcement.pointSlack := by
  unfold getPoint Gen.Enforcement.pointSlack
  simp only [hs]
  split <;> simp <;> omega

/-- remaining offsets and widths the models use as literals -/
theorem C01_gen_ties :
    Gen.Enforcement.getPointSecretLag = 2 ∧ Gen.Enforcement.holderRevokedOffset = 2 ∧
    Gen.Enforcement.cpSignAhead = 1 ∧ Gen.Enforcement.cpDeltaFirst = 1 ∧ Gen.Enforcement.cpDelta = 2 ∧
    Gen.Enforcement.cpRevokeLow = 2 ∧ Gen.Enforcement.cpRevokeHigh = 1 ∧
    Gen.Enforcement.secretIndexBits = 48 ∧ Secrets.N48 = 2 ^ Gen.Enforcement.secretIndexBits ∧
    INITIAL + 1 = Secrets.N48 ∧ PROTOCOL_VERSION_REVOKE < PROTOCOL_VERSION_NO_SECRET := by decide

/-! ### "…counterparty signatures that verify against the transaction it rebuilt for n+1 (commitment and every HTLC)"

`check_holder_tx_signatures` is inside the model since round 8: the harness supplies one ECDSA fact per signature
(`commitOk`, and for the `i`-th supplied HTLC signature whether it verifies against the `i`-th HTLC transaction), the
number of HTLCs of the recomposed transaction and the verdict of the payment check; `sigFactOf` (= the loop of the
code: index panic on a short list, surplus signatures never looked at) computes what `validate` meets. -/

/-- **C01_main_sigs**: every disclosed secret `k` is preceded (in the same history, at or before the disclosing
    request) by a validate request for `k+1` — direct or through the handler — whose signature fact is `valid` and
    whose content passed the policy. -/
theorem C01_main_sigs (F : Nat → Bytes → Bytes) (ops : List Op) (post pre : Hist) (e : Op × Out) (k : Nat)
    (hh : (runH F init [] ops).2 = post ++ e :: pre) (hk : e.2.secret = some k) :
    ∃ e' ∈ e :: pre, (∃ info, e'.1 = .validate (k + 1) info .valid true) ∨
                     (∃ ver info, e'.1 = .hValidate ver (k + 1) info .valid true) := by
  have a := C01_main_event F ops post pre e k hh hk
  refine accepted_request F ops (e :: pre) (k + 1) ?_ a
  intro x hx
  rw [hh]
  exact List.mem_append_right _ hx

/-- **C01_every_htlc**: a validation computed from per-signature facts is accepted only if the commitment signature
    verifies and EVERY one of the `nHtlc` HTLCs of the rebuilt transaction has a verifying signature at its position
    (and the payment check and the content rules pass). -/
theorem C01_every_htlc (c : Chan) (n info m nHtlc : Nat) (commitOk payOk pk : Bool) (sigs : List Bool)
    (h : (validate c n info (sigFactOf commitOk nHtlc sigs payOk) pk).out.validated = some m) :
    m = n ∧ commitOk = true ∧ (∀ i, i < nHtlc → sigs[i]? = some true) ∧ payOk = true ∧ pk = true := by
  obtain ⟨h1, h2, h3⟩ := validate_validated h
  obtain ⟨a, b, d⟩ := (sigFactOf_valid_iff commitOk nHtlc sigs payOk).mp h2
  exact ⟨h1, a, b, d, h3⟩

/-- the loop's outcomes, as the code has them: `valid` ⇔ all verify; a short list is the index panic exactly when the
    commitment signature and every supplied signature verify; surplus signatures do not matter -/
theorem C01_sigs_cases (commitOk payOk : Bool) (nHtlc : Nat) (sigs : List Bool) :
    (sigFactOf commitOk nHtlc sigs payOk = .valid ↔
        commitOk = true ∧ (∀ i, i < nHtlc → sigs[i]? = some true) ∧ payOk = true) ∧
    (sigFactOf commitOk nHtlc sigs payOk = .oob ↔
        commitOk = true ∧ sigs.length < nHtlc ∧ ∀ i, i < sigs.length → sigs[i]? = some true) ∧
    (∀ extra, nHtlc ≤ sigs.length →
        sigFactOf commitOk nHtlc (sigs ++ extra) payOk = sigFactOf commitOk nHtlc sigs payOk) := by
  refine ⟨sigFactOf_valid_iff _ _ _ _, sigFactOf_oob_iff _ _ _ _, ?_⟩
  intro extra hle
  unfold sigFactOf checkSigs
  rw [checkHtlcSigs_surplus nHtlc sigs extra hle]

/-- a short list never validates: nothing is recorded, the reply is the panic (or an earlier refusal) -/
theorem C01_short_list_never_accepted (c : Chan) (n info nHtlc : Nat) (commitOk payOk pk : Bool) (sigs : List Bool)
    (hs : sigs.length < nHtlc) :
    (validate c n info (sigFactOf commitOk nHtlc sigs payOk) pk).out.validated = none := by
  cases hv : (validate c n info (sigFactOf commitOk nHtlc sigs payOk) pk).out.validated with
  | none => rfl
  | some m =>
    exfalso
    have := (C01_every_htlc c n info m nHtlc commitOk payOk pk sigs hv).2.2.1 sigs.length hs
    simp at this

/-! ### Non-vacuity: concrete histories -/

/-- validate 0, activate, validate 1, revoke 1 discloses secret 0; the history justifies it -/
example : ((runH shaF init [] [.setup, .validate 0 0 .valid true, .activate, .validate 1 1 .valid true,
    .revoke 1 true]).2.head?.map (·.2.secret)) = some (some 0) := by decide

/-- the same without the validation of 1 is refused -/
example : ((runH shaF init [] [.setup, .validate 0 0 .valid true, .activate, .validate 1 1 .invalid true,
    .revoke 1 true]).2.head?.map (·.2.res)) = some .errPolicy := by decide

/-- old protocol: one request validates 1 and discloses 0 -/
example : ((runH shaF init [] [.setup, .hValidate 4 0 0 .valid true, .hValidate 4 1 1 .valid true]).2.head?.map
    (fun e => (e.2.secret, e.2.validated))) = some (some 0, some 1) := by decide

/-- three HTLCs, three verifying signatures: accepted; the middle one wrong: refused; only two supplied: panic;
    a fourth (surplus, not verifying) one: accepted -/
example : sigFactOf true 3 [true, true, true] true = .valid ∧ sigFactOf true 3 [true, false, true] true = .invalid ∧
    sigFactOf true 3 [true, true] true = .oob ∧ sigFactOf true 3 [true, true, true, false] true = .valid ∧
    sigFactOf false 3 [true, true, true] true = .invalid ∧ sigFactOf true 3 [false, true] true = .invalid ∧
    sigFactOf true 0 [] false = .validUnpaid := by decide

example : ((runH shaF init [] [.setup, .validate 0 0 (sigFactOf true 0 [] true) true, .activate,
    .validate 1 5 (sigFactOf true 2 [true, true] true) true, .revoke 1 true]).2.head?.map (·.2.secret))
    = some (some 0) := by decide

end VlsModel.Props.C01
