import VlsModel.Lemmas.EnforcementC02
import VlsModel.Lemmas.EnforcementFrame
/-
C02 — No holder commitment is both signed for broadcast and revoked.

Statement (properties.jsonl): over the whole life of a channel, including signer restarts, there is
no holder commitment number n for which the signer both released its own funding signature on
commitment n (force-close, recovery or redundant signing) and disclosed the revocation secret of n,
in either order.  Consequently, once it has released a signature on one of its own commitments it
discloses no revocation secret that it had not already disclosed.

Model: `VlsModel/Model/Enforcement.lean` (the code after fix 208b946: `revoke_previous_holder_commitment`
refuses to advance when `channel_closed`, tag policy-revoke-not-closed).
Ghost sets over the history: `Signed h n` — some reply contained a holder signature on commitment
`n` (`sign_holder_commitment_tx_phase2`, `_for_recovery`, `_phase2_redundant`); `Revoked h k` — some
reply contained the per-commitment secret of `k` (any route).
Only property theorems live here; helper lemmas are in `VlsModel/Lemmas/EnforcementC02.lean`.
-/
namespace VlsModel.Props.C02
open VlsModel VlsModel.Enforcement VlsModel.Secrets

/-- the invariant behind C02 holds after every request list -/
theorem C02_inv (F : Nat → Bytes → Bytes) (ops : List Op) :
    K (runH F init [] ops).1 (runH F init [] ops).2 :=
  (runK F ops init [] K_init trivial).1

/-- **C02_main**: for all request lists (restarts included) `Signed ∩ Revoked = ∅`, whatever the
    order of the signature and the disclosure. -/
theorem C02_main (F : Nat → Bytes → Bytes) (ops : List Op) (n : Nat) :
    ¬ (Signed (runH F init [] ops).2 n ∧ Revoked (runH F init [] ops).2 n) := by
  rintro ⟨hs, hr⟩
  have inv := C02_inv F ops
  have a := (inv.signed n hs).2
  have b := (inv.revoked n).1 hr
  omega

/-- **C02_after_sign**: once a holder signature was released, every secret a later reply contains
    was already disclosed before that reply: the set `Revoked` no longer grows. -/
theorem C02_after_sign (F : Nat → Bytes → Bytes) (ops : List Op) :
    NoNewAfterSign (runH F init [] ops).2 :=
  (runK F ops init [] K_init trivial).2

/-- unfolded form for one event anywhere in the history -/
theorem C02_after_sign_event (F : Nat → Bytes → Bytes) (ops : List Op) (post pre : Hist) (e : Op × Out)
    (n k : Nat) (hh : (runH F init [] ops).2 = post ++ e :: pre) (hs : Signed pre n)
    (hk : e.2.secret = some k) : Revoked pre k := by
  have nn := C02_after_sign F ops
  rw [hh] at nn
  clear hh
  induction post with
  | nil => exact nn.1 ⟨n, hs⟩ k hk
  | cons x xs ih => exact ih nn.2

/-- what the signer has disclosed is exactly the secrets of the numbers two below the counter -/
theorem C02_revoked_exact (F : Nat → Bytes → Bytes) (ops : List Op) (k : Nat) :
    Revoked (runH F init [] ops).2 k ↔ k + 2 ≤ (runH F init [] ops).1.mem.next :=
  (C02_inv F ops).revoked k

/-! ### Frame: a refused request changes nothing (channel-level instance used by C10)

`Res.isErr` = the reply is an error status (`err:policy`, `err:invalid`, `err:internal`).  `panic` is not a
refusal (the process dies and is restored from the persisted copy).  The composites need an argument:
`ValidateCommitmentTx(2)` = validate, then revoke / get-point / activate in one request; when the validate
half stored the next commitment the second half can no longer be refused (`chanStep_frameE`). -/

/-- **Enforcement_frame** (channel level): a refused request leaves the channel state unchanged -/
theorem Enforcement_frame_chan (F : Nat → Bytes → Bytes) (c : Chan) (op : Op)
    (h : (chanStep F c op).out.res.isErr = true) : (chanStep F c op).c = c :=
  chanStep_frameE F c op h

/-- **Enforcement_frame** (process, memory): `step s op = (s', err _) → s'.mem = s.mem`, for every state -/
theorem Enforcement_frame_mem (F : Nat → Bytes → Bytes) (s s' : Sys) (op : Op) (o : Out)
    (hs : step F s op = (s', o)) (h : o.res.isErr = true) : s'.mem = s.mem := by
  have := step_frame_mem F s op (by rw [hs]; exact h)
  rw [hs] at this; exact this

/-- **Enforcement_frame**: `step s op = (s', err _) → s' = s` whenever the persisted copy is up to date
    (`s.disk = s.mem`, which every persisting request re-establishes) -/
theorem Enforcement_frame (F : Nat → Bytes → Bytes) (s s' : Sys) (op : Op) (o : Out) (hd : s.disk = s.mem)
    (hs : step F s op = (s', o)) (h : o.res.isErr = true) : s' = s := by
  have := step_frame F s op hd (by rw [hs]; exact h)
  rw [hs] at this; exact this

/-- the frame is not vacuous: refusals exist, and `panic` is really excluded (a panicking revoke at the
    u64 edge has dropped `next_holder_commit_info` in memory) -/
example : (step shaF (runH shaF init [] [.setup, .validate 0 0 .valid true, .activate]).1 (.revoke 5 true)).2.res.isErr = true := by
  decide

/-! ### Durability: what did not persist did not change (channel-level instance used by C11)

Every channel method of the model reports whether `persist()` ran.  `chanStep_np`: a reply that is not a
panic and did not persist left the channel state unchanged — for every one of the 18 request kinds, the
handler composites included (a refused composite whose validate half persisted has persisted).  The only
memory change without persist in the model is the `panic` of `advance_holder_commitment_state` at
`next = u64::MAX` (after `next_holder_commit_info = None`), see `Enforcement_no_advance_panic`. -/

/-- **Enforcement_durable_chan** -/
theorem Enforcement_durable_chan (F : Nat → Bytes → Bytes) (c : Chan) (op : Op)
    (h : (chanStep F c op).persisted = false) (hp : (chanStep F c op).out.res ≠ .panic) :
    (chanStep F c op).c = c :=
  chanStep_np F c op h hp

/-- **Enforcement_durable_step**: `s.disk = s.mem → step s op = (s', o) → o.res ≠ panic → s'.disk = s'.mem` -/
theorem Enforcement_durable_step (F : Nat → Bytes → Bytes) (s s' : Sys) (op : Op) (o : Out)
    (hd : s.disk = s.mem) (hs : step F s op = (s', o)) (hp : o.res ≠ .panic) : s'.disk = s'.mem := by
  have := step_durable F s op hd (by rw [hs]; exact hp)
  rw [hs] at this; exact this

/-- **Enforcement_durable_run**: from `init`, after any request list in which no reply is a panic, the
    persisted copy equals the in-memory channel state (counters, commitment infos, points, secret store,
    closed flag) — a restart inserted anywhere is the identity on it. -/
theorem Enforcement_durable_run (F : Nat → Bytes → Bytes) (ops : List Op)
    (hnp : NoPanic (runH F init [] ops).2) :
    (runH F init [] ops).1.disk = (runH F init [] ops).1.mem :=
  run_durable F ops init [] rfl hnp

/-- restart after such a history changes nothing -/
theorem Enforcement_restart_identity (F : Nat → Bytes → Bytes) (ops : List Op)
    (hnp : NoPanic (runH F init [] ops).2) :
    (step F (runH F init [] ops).1 .restart).1 = (runH F init [] ops).1 := by
  have hd := Enforcement_durable_run F ops hnp
  generalize (runH F init [] ops).1 = s at hd
  cases s with
  | mk mem disk => simp only at hd; subst hd; rfl

/-! ### The remaining `panic` path of the holder side is out of reach

`advance_holder_commitment_state` computes `new_current_commitment_number + 1` with a plain `+` after
`next_holder_commit_info = None`; in the model this is the `panic` outcome of `revoke` at
`next = u64::MAX`.  The counter grows by at most one per request, so the path needs a history of at least
2^64 - 1 requests; `next < 2^64 - 1` cannot be proved without such a bound (the model's counter is
unbounded, like the history). -/

/-- the holder counter never exceeds the number of requests served -/
theorem Enforcement_next_le_length (F : Nat → Bytes → Bytes) (ops : List Op) :
    (runH F init [] ops).1.mem.next ≤ ops.length := by
  have := run_next_le F ops init [] K_init trivial
  simpa [init] using this

/-- **Enforcement_no_advance_panic**: after fewer than 2^64 - 1 requests no revoke request panics -/
theorem Enforcement_no_advance_panic (F : Nat → Bytes → Bytes) (ops : List Op) (hb : ops.length < U64.MAX) (n : Nat) :
    (revoke (runH F init [] ops).1.mem n).out.res ≠ .panic := by
  intro h
  have h1 := revoke_panic_only_overflow _ n h
  have h2 := Enforcement_next_le_length F ops
  omega

/-! ### The pre-fix code violated the property (kept as documentation of F1)

Without the `channel_closed` check in `revoke_previous_holder_commitment` the history
validate 1, sign 0, revoke 1 returns the secret of the signed commitment 0; with the check the last
request is refused (second example).  The first example is the repaired model refusing. -/

example : ((runH shaF init [] [.setup, .validate 0 0 .valid true, .activate, .validate 1 1 .valid true,
    .signHolder 0, .revoke 1 true]).2.map (fun e => (e.2.res, e.2.secret, e.2.signed))).take 2 =
    [(.errPolicy, none, none), (.ok, none, some 0)] := by decide

/-! ### Non-vacuity -/

/-- a history with a signature and disclosed secrets, disjoint as the theorem says -/
example : ((runH shaF init [] [.setup, .validate 0 0 .valid true, .activate, .validate 1 1 .valid true,
    .revoke 1 true, .validate 2 2 .valid true, .revoke 2 true, .signHolder 2, .getSecret 0, .getSecret 1, .getSecret 2]).2.map
    (fun e => (e.2.res, e.2.secret, e.2.signed))).take 4 =
    [(.errPolicy, none, none), (.ok, some 1, none), (.ok, some 0, none), (.ok, none, some 2)] := by decide

/-- redundant signing of the not yet validated next commitment closes the channel; nothing is revoked later -/
example : ((runH shaF init [] [.setup, .validate 0 0 .valid true, .activate, .signRedundant 1 1 true,
    .validate 1 1 .valid true, .revoke 1 true]).2.map (fun e => (e.2.res, e.2.signed))).take 3 =
    [(.errPolicy, none), (.errPolicy, none), (.ok, some 1)] := by decide

end VlsModel.Props.C02
