import VlsModel.Model.Onchain
import VlsModel.Gen.FnSimple
import VlsModel.Lemmas.FnGen
/-
C08 — `Onchain.beneficialValue` (the fee bound of `sign_onchain_tx`) proved equal to the body of
`SimpleValidator::validate_beneficial_value` that `translate/rs2lean.py` regenerates from
`vls-core/src/policy/simple_validator.rs` (`Gen/FnSimple.lean`): same subtraction guard, same exact rate
`(nb·1000 + 999) / weight` in `u128`, same comparison against `max_feerate_per_kw`, same developer flag, same
filtered tag, and the same division panic for a zero weight.
-/
namespace VlsModel.Props.C08Fn
open VlsModel VlsModel.Onchain
open VlsModel.Gen.FnSimple (SimpleValidator SimplePolicy PolicyDevFlags)

/-- the fields of `SimplePolicy` the function reads; the others are irrelevant (0 / false) -/
def toV (p : Policy) : SimpleValidator :=
  { policy := { min_delay := 0, max_delay := 0, epsilon_sat := 0, use_chain_state := false,
                min_feerate_per_kw := 0, max_feerate_per_kw := p.maxFeerate,
                dev_flags := some { disable_beneficial_balance_checks := p.devDisable } } }

/-- the same policy with `dev_flags: None`: the code falls back to `DEFAULT_DEV_FLAGS` -/
def toVNoFlags (p : Policy) : SimpleValidator :=
  { policy := { (toV p).policy with dev_flags := none } }

/-- the external of `policy_err!` -/
def filt (p : Policy) : String → Bool := fun tag => if tag = Tag.feeRange.name then p.flt.feeRange else true

def rel : Rs.M Nat → Res
  | .ok nb => .ok nb
  | .error (.err s) => if s = Tag.feeRange.name then .err .feeRange else
                       if s = Tag.fmtStandard.name then .err .fmtStandard else .panic
  | .error _ => .panic

theorem C08_fn_validate_beneficial_value (p : Policy) (sumIn sumOut weight : Nat) (hin : sumIn ≤ Rs.U64_MAX) :
    rel ((toV p).validate_beneficial_value (filt p) sumIn sumOut weight) = beneficialValue p sumIn sumOut weight := by
  unfold SimpleValidator.validate_beneficial_value beneficialValue impliedFeerate U64.checkedSub
  simp only [Rs.okOr, Rs.ucheckedSub]
  by_cases h1 : sumOut ≤ sumIn
  · have hm := (Rs.fee_rate_fits (sumIn - sumOut) (Nat.le_trans (Nat.sub_le _ _) hin)).1
    have ha := (Rs.fee_rate_fits (sumIn - sumOut) (Nat.le_trans (Nat.sub_le _ _) hin)).2
    simp only [h1, if_true, Rs.umul, hm, Rs.uadd, ha, Rs.udiv, Rs.bind_ok, Rs.pure_eq]
    by_cases hw : weight = 0
    · simp [hw, rel, Rs.panic, bind, Except.bind]
    · simp only [hw, if_false, Rs.bind_ok]
      by_cases h2 : p.maxFeerate < ((sumIn - sumOut) * 1000 + 999) / weight
      · by_cases h3 : p.devDisable = true
        · simp [toV, h2, h3, rel]
        · have h3' : p.devDisable = false := by simpa using h3
          by_cases h4 : p.flt.feeRange = true
          · simp [toV, filt, h2, h3', h4, rel, Rs.policyErr, Rs.fail, Tag.name, bind, Except.bind]
          · have h4' : p.flt.feeRange = false := by simpa using h4
            simp [toV, filt, h2, h3', h4', rel, Rs.policyErr, Tag.name]
      · simp [toV, h2, rel]
  · simp [h1, rel, Rs.fail, Tag.name, bind, Except.bind]

/-- `dev_flags: None` behaves as `disable_beneficial_balance_checks = false` (the constant `DEFAULT_DEV_FLAGS` is
    read from the source) -/
theorem C08_fn_default_dev_flags (p : Policy) (hd : p.devDisable = false) (sumIn sumOut weight : Nat) :
    (toVNoFlags p).validate_beneficial_value (filt p) sumIn sumOut weight
      = (toV p).validate_beneficial_value (filt p) sumIn sumOut weight := by
  simp [SimpleValidator.validate_beneficial_value, toVNoFlags, toV, hd]

end VlsModel.Props.C08Fn
