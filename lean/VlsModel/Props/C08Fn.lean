import VlsModel.Gen.FnB3NodeFind
import VlsModel.Gen.FnB3NodeFindM
import VlsModel.Gen.FnB3NodeState
import VlsModel.Gen.FnB3Allowable
import VlsModel.Model.Onchain
import VlsModel.Gen.FnSimple
import VlsModel.Gen.FnOnchainTx
import VlsModel.Gen.FnTxUtilC08
import VlsModel.Gen.FnDerive
import VlsModel.Gen.FnNodeWallet
import VlsModel.Gen.FnApproverC08
import VlsModel.Gen.FnNodeOnchain
import VlsModel.Gen.FnHandlerPaths
import VlsModel.Gen.FnOnchainWrap
import VlsModel.Lemmas.NodeWalletFn
import VlsModel.Model.Wallet
import VlsModel.Lemmas.FnGen
/-
C08 — `Onchain.beneficialValue` (the fee bound of `sign_onchain_tx`) proved equal to the body of
`SimpleValidator::validate_beneficial_value` that `translate/rs2lean.py` regenerates from
`vls-core/src/policy/simple_validator.rs` (`Gen/FnSimple.lean`): same subtraction guard, same exact rate
`(nb·1000 + 999) / weight` in `u128`, same comparison against `max_feerate_per_kw`, same developer flag, same
filtered tag, and the same division panic for a zero weight.
-/
namespace VlsModel.Props.C08Fn
open VlsModel VlsModel.Onchain
open VlsModel.Gen.FnSimple (SimpleValidator SimplePolicy PolicyDevFlags)

/-- the fields of `SimplePolicy` the function reads; the others are irrelevant (0 / false) -/
def toV (p : Policy) : SimpleValidator :=
  { policy := { min_delay := 0, max_delay := 0, epsilon_sat := 0, use_chain_state := false,
                min_feerate_per_kw := 0, max_feerate_per_kw := p.maxFeerate,
                dev_flags := some { disable_beneficial_balance_checks := p.devDisable } } }

/-- the same policy with `dev_flags: None`: the code falls back to `DEFAULT_DEV_FLAGS` -/
def toVNoFlags (p : Policy) : SimpleValidator :=
  { policy := { (toV p).policy with dev_flags := none } }

/-- the external of `policy_err!` -/
def filt (p : Policy) : String → Bool := fun tag => if tag = Tag.feeRange.name then p.flt.feeRange else true

def rel : Rs.M Nat → Res
  | .ok nb => .ok nb
  | .error (.err s) => if s = Tag.feeRange.name then .err .feeRange else
                       if s = Tag.fmtStandard.name then .err .fmtStandard else .panic
  | .error _ => .panic

theorem C08_fn_validate_beneficial_value (p : Policy) (sumIn sumOut weight : Nat) (hin : sumIn ≤ Rs.U64_MAX) :
    rel ((toV p).validate_beneficial_value (filt p) sumIn sumOut weight) = beneficialValue p sumIn sumOut weight := by
  unfold SimpleValidator.validate_beneficial_value beneficialValue impliedFeerate U64.checkedSub
  simp only [Rs.okOr, Rs.ucheckedSub]
  by_cases h1 : sumOut ≤ sumIn
  · have hm := (Rs.fee_rate_fits (sumIn - sumOut) (Nat.le_trans (Nat.sub_le _ _) hin)).1
    have ha := (Rs.fee_rate_fits (sumIn - sumOut) (Nat.le_trans (Nat.sub_le _ _) hin)).2
    simp only [h1, if_true, Rs.umul, hm, Rs.uadd, ha, Rs.udiv, Rs.bind_ok, Rs.pure_eq]
    by_cases hw : weight = 0
    · simp [hw, rel, Rs.panic, bind, Except.bind]
    · simp only [hw, if_false, Rs.bind_ok]
      by_cases h2 : p.maxFeerate < ((sumIn - sumOut) * 1000 + 999) / weight
      · by_cases h3 : p.devDisable = true
        · simp [toV, h2, h3, rel]
        · have h3' : p.devDisable = false := by simpa using h3
          by_cases h4 : p.flt.feeRange = true
          · simp [toV, filt, h2, h3', h4, rel, Rs.policyErr, Rs.fail, Tag.name, bind, Except.bind]
          · have h4' : p.flt.feeRange = false := by simpa using h4
            simp [toV, filt, h2, h3', h4', rel, Rs.policyErr, Tag.name]
      · simp [toV, h2, rel]
  · simp [h1, rel, Rs.fail, Tag.name, bind, Except.bind]

/-- `dev_flags: None` behaves as `disable_beneficial_balance_checks = false` (the constant `DEFAULT_DEV_FLAGS` is
    read from the source) -/
theorem C08_fn_default_dev_flags (p : Policy) (hd : p.devDisable = false) (sumIn sumOut weight : Nat) :
    (toVNoFlags p).validate_beneficial_value (filt p) sumIn sumOut weight
      = (toV p).validate_beneficial_value (filt p) sumIn sumOut weight := by
  simp [SimpleValidator.validate_beneficial_value, toVNoFlags, toV, hd]

/-! ## `validate_onchain_tx` (the output classification loop, the sums, the final fee check) and `is_tx_non_malleable`

`Gen/FnOnchainTx.lean` is the body of `SimpleValidator::validate_onchain_tx` as regenerated from the source (after the
textual normalisations listed at the top of that file).  The library calls are explicit parameters; they are
instantiated here with the facts the model takes as inputs:

  `wallet.can_spend(opath, script)`            `Out.canSpend`  (`Err` ↦ `none`)
  `wallet.allowlist_contains(script, path)`    `Out.scriptAllow`, and for a non-empty path `Out.xpub` (`.panic` = the
                                               `derive_pub(..).unwrap()` panic)
  `opath.len()`, `DerivationPath::master()`    the length, 0
  `tx.base_size()`                             `Req.baseSize`
  `is_tx_non_malleable(tx, segwit_flags)`      the generated `Gen.FnTxUtilC08.is_tx_non_malleable` on `Req.nInputs` inputs
  `ChannelSlot::Ready(chan)`                   the generated enum `ChannelSlot` (Stub | Ready); the model only has Ready slots
                                               (a Stub slot reaches the `_ => panic!("this can't happen")` arm of the generated text)
  the channel's p2wsh funding script           equal to the output's script iff `ChanFacts.scriptMatch`
-/

def filtP (f : Filter) : String → Bool := fun tag =>
  if tag = Tag.fmtStandard.name then f.fmtStandard else
  if tag = Tag.maxSize.name then f.maxSize else
  if tag = Tag.nonMalleable.name then f.nonMalleable else
  if tag = Tag.noUnknown.name then f.noUnknown else
  if tag = Tag.matchCommitment.name then f.matchCommitment else
  if tag = Tag.outputScript.name then f.outputScript else
  if tag = Tag.initialCountersigned.name then f.initialCountersigned else
  if tag = Tag.noFundInbound.name then f.noFundInbound else
  if tag = Tag.noChannelPush.name then f.noChannelPush else
  if tag = Tag.feeRange.name then f.feeRange else true

def toVTx (p : Policy) : Gen.FnOnchainTx.SimpleValidator :=
  { policy := { max_feerate_per_kw := p.maxFeerate,
                dev_flags := some { disable_beneficial_balance_checks := p.devDisable } } }

def canSpendE : Unit → Nat → Out → Option Bool := fun _ _ o => o.canSpend

def allowE : Unit → Out → Nat → Rs.M Bool := fun _ o len =>
  if o.scriptAllow then pure true
  else if len = 0 then pure false
  else match o.xpub with
    | .yes => pure true
    | .no => pure false
    | .panic => Rs.panic

/-- some script different from `o` -/
def otherScript (o : Out) : Out := { o with value := o.value + 1 }

theorem otherScript_ne (o : Out) : (o != otherScript o) = true := by
  simp only [bne_iff_ne, ne_eq]
  intro h
  have := congrArg Out.value h
  simp [otherScript] at this

def toChan (o : Out) (c : ChanFacts) : Gen.FnOnchainTx.Channel Out :=
  { keys := if c.scriptMatch then o else otherScript o,
    enforcement_state := { next_holder_commit_num := c.nextHolderCommit },
    setup := { is_outbound := c.outbound, channel_value_sat := c.value, push_value_msat := c.pushMsat } }

def toTx (r : Req) : Gen.FnOnchainTx.Transaction Out :=
  { version := (r.version : Int), output := r.outs.map (fun o => { value := o.value, script_pubkey := o }) }

def channelsOf (r : Req) : List (Option (Gen.FnOnchainTx.ChannelSlot Out)) :=
  r.outs.map (fun o => o.chan.map (fun c => .Ready (toChan o c)))


def nonMalleableE (r : Req) : Gen.FnOnchainTx.Transaction Out → List Bool → Rs.M Bool :=
  fun _ flags => Gen.FnTxUtilC08.is_tx_non_malleable { input := List.replicate r.nInputs () } flags

/-- `opaths` has `nOpaths` entries, and where an output has an entry its length is the model's `pathLen` -/
def OpathsOf (r : Req) (opaths : List Nat) : Prop :=
  opaths.length = r.nOpaths ∧ ∀ i o, r.outs[i]? = some o → i < r.nOpaths → opaths[i]? = some o.pathLen

/-- the outcome the generated function must have for a result of the model -/
def enc : Res → Rs.M Nat
  | .ok nb => .ok nb
  | .unknown l => .error (.err ("unknown-destinations " ++ toString l))
  | .err t => .error (.err t.name)
  | .panic => .error .panic

/-- **`is_tx_non_malleable`**: the `assert_eq!` on the lengths, then all flags -/
theorem C08_fn_is_tx_non_malleable (n : Nat) (flags : List Bool) :
    Gen.FnTxUtilC08.is_tx_non_malleable { input := List.replicate n () } flags
      = if n = flags.length then (Except.ok (flags.all id) : Rs.M Bool) else Except.error Rs.Fail.panic := by
  unfold Gen.FnTxUtilC08.is_tx_non_malleable
  by_cases h : n = flags.length
  · simp [h, Rs.assert, List.all_eq, bind, Except.bind, pure, Except.pure]
  · simp [h, Rs.assert, Rs.panic, bind, Except.bind]

/-! ### the output loop -/

/-- one iteration, as the model has it, in the outcome monad; state = (beneficial_sum, unknowns oldest first) -/
def stepM (flt : Filter) (nOpaths : Nat) (st : Nat × List Nat) (i : Nat) (o : Out) : Rs.M (Nat × List Nat) :=
  if nOpaths ≤ i then Rs.panic else
  match classifyStep flt o with
  | .add v =>
    match U64.checkedAdd st.1 v with
    | none => Rs.fail Tag.feeRange.name
    | some s => pure (s, st.2)
  | .skip => pure st
  | .unknown => pure (st.1, st.2 ++ [i])
  | .err t => Rs.fail t.name
  | .panic => Rs.panic

def encLoop : LoopRes → Rs.M (Nat × List Nat)
  | .done s u => pure (s, u)
  | .err t => Rs.fail t.name
  | .panic => Rs.panic

theorem loop_eq (flt : Filter) (nOp : Nat) (f : Nat × List Nat → Nat → Rs.M (Nat × List Nat)) :
    ∀ (outs : List Out) (i sum : Nat) (unk : List Nat),
      (∀ st k o, outs[k]? = some o → f st (i + k) = stepM flt nOp st (i + k) o) →
      List.foldlM f (sum, unk.reverse) (List.range' i outs.length) = encLoop (outLoop flt nOp outs i sum unk) := by
  intro outs
  induction outs with
  | nil => intro i sum unk _; simp [outLoop, encLoop, pure, Except.pure]
  | cons o rest ih =>
    intro i sum unk hf
    have h0 := hf (sum, unk.reverse) 0 o (by simp)
    simp only [Nat.add_zero] at h0
    have hf' : ∀ st k o', rest[k]? = some o' → f st (i + 1 + k) = stepM flt nOp st (i + 1 + k) o' := by
      intro st k o' hk
      have := hf st (k + 1) o' (by simpa using hk)
      simpa [Nat.add_assoc, Nat.add_comm 1 k] using this
    simp only [List.length_cons, List.range'_succ, List.foldlM_cons, h0]
    unfold stepM outLoop
    by_cases hn : nOp ≤ i
    · simp [hn, encLoop, Rs.panic, bind, Except.bind]
    · simp only [hn, if_false]
      cases hc : classifyStep flt o with
      | add v =>
        simp only
        cases ha : U64.checkedAdd sum v with
        | none => simp [encLoop, Rs.fail, bind, Except.bind]
        | some s =>
          simp only [Rs.pure_eq, Rs.bind_ok]
          exact ih (i + 1) s unk hf'
      | skip =>
        simp only [Rs.pure_eq, Rs.bind_ok]
        exact ih (i + 1) sum unk hf'
      | unknown =>
        simp only [Rs.pure_eq, Rs.bind_ok]
        have := ih (i + 1) sum (i :: unk) hf'
        simpa using this
      | err t => simp [encLoop, Rs.fail, bind, Except.bind]
      | panic => simp [encLoop, Rs.panic, bind, Except.bind]

theorem loop_eq0 (flt : Filter) (nOp : Nat) (f : Nat × List Nat → Nat → Rs.M (Nat × List Nat)) (outs : List Out)
    (hf : ∀ st k o, outs[k]? = some o → f st k = stepM flt nOp st k o) :
    List.foldlM f (0, []) (List.range' 0 outs.length) = encLoop (outLoop flt nOp outs 0 0 []) := by
  have := loop_eq flt nOp f outs 0 0 [] (by intro st k o hk; simpa using hf st k o hk)
  simpa using this

/-- a `policy_err!` guard `if c { policy_err!(self, tag, ..) }` followed by the rest `k` -/
theorem policyErrIf_bind {α : Type} (flt : String → Bool) (tag : String) (c : Bool) (k : Unit → Rs.M α) :
    (Rs.policyErrIf flt tag c >>= k) = if c = true ∧ flt tag = true then Rs.fail tag else k () := by
  cases c <;> cases h : flt tag <;> simp [Rs.policyErrIf, Rs.policyErr, h, Rs.fail, bind, Except.bind, pure, Except.pure]

theorem keys_ne (o : Out) (c : ChanFacts) : (o != (toChan o c).keys) = !c.scriptMatch := by
  cases h : c.scriptMatch <;> simp [toChan, h, otherScript_ne]

theorem anyChannel_eq (r : Req) : ((channelsOf r).any fun c => c.isSome) = anyChannel r.outs := by
  simp [channelsOf, anyChannel, List.any_map, Function.comp_def]

theorem maxOnchainTxSize_gen : Gen.Onchain.maxOnchainTxSize = 32768 := by decide

theorem ucheckedAdd_eq (a b : Nat) : Rs.ucheckedAdd Rs.U64_MAX a b = U64.checkedAdd a b := rfl
theorem ucheckedSub_eq (a b : Nat) : Rs.ucheckedSub a b = U64.checkedSub a b := rfl

@[simp] theorem filtP_fmtStandard (f : Filter) : filtP f "policy-onchain-format-standard" = f.fmtStandard := by simp [filtP, Tag.name]
@[simp] theorem filtP_maxSize (f : Filter) : filtP f "policy-onchain-max-size" = f.maxSize := by simp [filtP, Tag.name]
@[simp] theorem filtP_nonMalleable (f : Filter) : filtP f "policy-onchain-funding-non-malleable" = f.nonMalleable := by simp [filtP, Tag.name]
@[simp] theorem filtP_noUnknown (f : Filter) : filtP f "policy-onchain-no-unknown-outputs" = f.noUnknown := by simp [filtP, Tag.name]
@[simp] theorem filtP_matchCommitment (f : Filter) : filtP f "policy-onchain-output-match-commitment" = f.matchCommitment := by simp [filtP, Tag.name]
@[simp] theorem filtP_outputScript (f : Filter) : filtP f "policy-onchain-output-scriptpubkey" = f.outputScript := by simp [filtP, Tag.name]
@[simp] theorem filtP_initialCountersigned (f : Filter) : filtP f "policy-onchain-initial-commitment-countersigned" = f.initialCountersigned := by simp [filtP, Tag.name]
@[simp] theorem filtP_noFundInbound (f : Filter) : filtP f "policy-onchain-no-fund-inbound" = f.noFundInbound := by simp [filtP, Tag.name]
@[simp] theorem filtP_noChannelPush (f : Filter) : filtP f "policy-onchain-no-channel-push" = f.noChannelPush := by simp [filtP, Tag.name]
@[simp] theorem filtP_feeRange (f : Filter) : filtP f "policy-onchain-fee-range" = f.feeRange := by simp [filtP, Tag.name]

/-- the sum of the input values -/
theorem sumInputs_eq (vals : List Nat) (acc : Nat) :
    List.foldlM (fun (sum_inputs : Nat) (val : Nat) => do
        let t_15 ← Rs.okOr (Rs.ucheckedAdd Rs.U64_MAX sum_inputs val) "policy-onchain-fee-range"
        let sum_inputs := t_15
        pure sum_inputs) acc vals
      = match sumInputs vals acc with
        | none => Rs.fail "policy-onchain-fee-range"
        | some s => pure s := by
  induction vals generalizing acc with
  | nil => simp [sumInputs, pure, Except.pure]
  | cons v vs ih =>
    rw [List.foldlM_cons]
    unfold sumInputs
    have hc : Rs.ucheckedAdd Rs.U64_MAX acc v = U64.checkedAdd acc v := rfl
    simp only [hc]
    cases h : U64.checkedAdd acc v with
    | none => simp [Rs.okOr, Rs.fail, bind, Except.bind]
    | some a =>
      simp only [Rs.okOr, Rs.pure_eq, Rs.bind_ok]
      exact ih a

theorem sumInputs_le (vals : List Nat) (acc s : Nat) (ha : acc ≤ U64.MAX) (h : sumInputs vals acc = some s) : s ≤ U64.MAX := by
  induction vals generalizing acc with
  | nil => simp [sumInputs] at h; omega
  | cons v vs ih =>
    simp only [sumInputs] at h
    cases hc : U64.checkedAdd acc v with
    | none => simp [hc] at h
    | some a =>
      simp only [hc] at h
      have : a ≤ U64.MAX := by
        unfold U64.checkedAdd at hc
        split at hc
        · cases hc; assumption
        · cases hc
      exact ih a this h

/-- `validate_beneficial_value` as translated inside this unit (same text as in `Gen/FnSimple.lean`) -/
theorem beneficial_eq (p : Policy) (sumIn sumOut weight : Nat) (hin : sumIn ≤ Rs.U64_MAX) :
    Gen.FnOnchainTx.SimpleValidator.validate_beneficial_value (policy_filter_err := filtP p.flt) (toVTx p) sumIn sumOut weight
      = enc (beneficialValue p sumIn sumOut weight) := by
  unfold Gen.FnOnchainTx.SimpleValidator.validate_beneficial_value beneficialValue impliedFeerate U64.checkedSub
  simp only [Rs.okOr, Rs.ucheckedSub]
  by_cases h1 : sumOut ≤ sumIn
  · have hm := (Rs.fee_rate_fits (sumIn - sumOut) (Nat.le_trans (Nat.sub_le _ _) hin)).1
    have ha := (Rs.fee_rate_fits (sumIn - sumOut) (Nat.le_trans (Nat.sub_le _ _) hin)).2
    simp only [h1, if_true, Rs.umul, hm, Rs.uadd, ha, Rs.udiv, Rs.bind_ok, Rs.pure_eq]
    by_cases hw : weight = 0
    · simp [hw, enc, Rs.panic, bind, Except.bind]
    · simp only [hw, if_false, Rs.bind_ok]
      by_cases h2 : p.maxFeerate < ((sumIn - sumOut) * 1000 + 999) / weight
      · by_cases h3 : p.devDisable = true
        · simp [toVTx, h2, h3, enc]
        · have h3' : p.devDisable = false := by simpa using h3
          by_cases h4 : p.flt.feeRange = true
          · simp [toVTx, h2, h3', h4, enc, Rs.policyErr, Rs.fail, Tag.name, bind, Except.bind]
          · have h4' : p.flt.feeRange = false := by simpa using h4
            simp [toVTx, h2, h3', h4', enc, Rs.policyErr, Tag.name]
      · simp [toVTx, h2, enc]
  · simp [h1, enc, Rs.fail, Tag.name, bind, Except.bind]

theorem sumInputs_eq_bind (vals : List Nat) (acc : Nat) :
    List.foldlM (fun (sum_inputs : Nat) (val : Nat) =>
        Rs.okOr (Rs.ucheckedAdd Rs.U64_MAX sum_inputs val) "policy-onchain-fee-range" >>= fun t_15 => pure t_15) acc vals
      = match sumInputs vals acc with
        | none => Rs.fail "policy-onchain-fee-range"
        | some s => pure s := sumInputs_eq vals acc

/-- everything behind the output loop: the unknown-destinations report, the input sum, the fee check -/
theorem tail_eq (p : Policy) (r : Req) (w : Nat) (L : LoopRes) :
    (do
      let __x ← encLoop L
      if decide (__x.snd.length > 0) = true then Rs.fail ("unknown-destinations " ++ toString __x.snd)
        else do
          let sum_inputs ←
            List.foldlM
                (fun sum_inputs val =>
                  Rs.okOr (Rs.ucheckedAdd Rs.U64_MAX sum_inputs val) "policy-onchain-fee-range" >>= fun t_15 => pure t_15)
                0 r.inValues
          Gen.FnOnchainTx.SimpleValidator.validate_beneficial_value (policy_filter_err := filtP p.flt) (toVTx p) sum_inputs __x.fst w)
      = enc (match L with
             | .panic => .panic
             | .err t => .err t
             | .done sumOut unk =>
               if unk ≠ [] then .unknown unk
               else match sumInputs r.inValues 0 with
                 | none => .err .feeRange
                 | some sumIn => beneficialValue p sumIn sumOut w) := by
  cases L with
  | panic => simp [encLoop, enc, Rs.panic, bind, Except.bind]
  | err t => simp [encLoop, enc, Rs.fail, bind, Except.bind]
  | done s u =>
    simp only [encLoop, pure_bind]
    by_cases hu : u = []
    · subst hu
      simp only [List.length_nil, Nat.lt_irrefl, decide_false, Bool.false_eq_true, if_false, ne_eq, not_true_eq_false,
        gt_iff_lt]
      rw [sumInputs_eq_bind]
      cases hs : sumInputs r.inValues 0 with
      | none => simp [enc, Rs.fail, Tag.name, bind, Except.bind]
      | some si =>
        have hle : si ≤ Rs.U64_MAX := sumInputs_le r.inValues 0 si (by decide) hs
        simp only [Rs.pure_eq, Rs.bind_ok]
        exact beneficial_eq p si s w hle
    · have hpos : decide (u.length > 0) = true := by
        simp only [gt_iff_lt, decide_eq_true_eq]
        exact List.length_pos_iff.mpr hu
      simp [hpos, hu, enc, Rs.fail]

/-- **`validate_onchain_tx` = `Onchain.validateOnchain`**, for every policy (filter, dev flag, max feerate), request
    (version, size, inputs, segwit flags, outputs with their wallet / allowlist / channel facts) and weight -/
theorem C08_fn_validate_onchain_tx (p : Policy) (r : Req) (w : Nat) (opaths : List Nat) (hop : OpathsOf r opaths) :
    Gen.FnOnchainTx.SimpleValidator.validate_onchain_tx (policy_filter_err := filtP p.flt) (ext_base_size := fun _ => r.baseSize)
        (ext_is_tx_non_malleable := nonMalleableE r) (ext_len := id) (ext_can_spend := canSpendE) (ext_allowlist_contains := allowE)
        (ext_master_path := 0) (ext_funding_script_pubkey := fun keys _ => keys) (toVTx p) () (channelsOf r) (toTx r) r.segwit r.inValues opaths w
      = enc (validateOnchain p r w) := by
  obtain ⟨hlen, hop⟩ := hop
  unfold Gen.FnOnchainTx.SimpleValidator.validate_onchain_tx
  have hrange : Rs.range 0 (toTx r).output.length = List.range' 0 r.outs.length := by simp [Rs.range, toTx]
  simp only [hrange, policyErrIf_bind, filtP_fmtStandard, filtP_maxSize, filtP_nonMalleable]
  rw [loop_eq0 p.flt r.nOpaths _ r.outs ?hf]
  case hf =>
    intro ⟨bs, unk⟩ k o hk
    have h_out : (toTx r).output[k]? = some { value := o.value, script_pubkey := o } := by simp [toTx, hk]
    have h_ch : (channelsOf r)[k]? = some (o.chan.map (fun c => .Ready (toChan o c))) := by simp [channelsOf, hk]
    simp only [Rs.index, h_out, h_ch, Rs.pure_eq, Rs.bind_ok]
    unfold stepM
    by_cases hn : r.nOpaths ≤ k
    · have : opaths[k]? = none := by simp [List.getElem?_eq_none_iff, hlen, hn]
      simp [this, hn, Rs.panic, bind, Except.bind]
    · have h_op : opaths[k]? = some o.pathLen := hop k o hk (by omega)
      simp only [h_op, hn, if_false, Rs.pure_eq, Rs.bind_ok, id]
      unfold classifyStep
      by_cases hp : 0 < o.pathLen
      · have hp' : decide (o.pathLen > 0) = true := by simpa using hp
        simp only [hp', hp, if_true]
        cases hcs : o.canSpend with
        | none => simp [canSpendE, hcs, Rs.okOr, Rs.fail, Tag.name, bind, Except.bind]
        | some b =>
          cases b with
          | true =>
            cases hadd : U64.checkedAdd bs o.value <;>
              simp [canSpendE, hcs, Rs.okOr, ucheckedAdd_eq, hadd, Rs.fail, Tag.name, bind, Except.bind, pure, Except.pure]
          | false =>
            have hp0 : ¬ o.pathLen = 0 := by omega
            cases hsa : o.scriptAllow with
            | true =>
              cases hadd : U64.checkedAdd bs o.value <;>
                simp [canSpendE, allowE, hcs, hsa, Rs.okOr, ucheckedAdd_eq, hadd, Rs.fail, Tag.name, bind, Except.bind, pure,
                  Except.pure]
            | false =>
              cases hx : o.xpub with
              | yes =>
                cases hadd : U64.checkedAdd bs o.value <;>
                  simp [canSpendE, allowE, hcs, hsa, hx, hp0, Rs.okOr, ucheckedAdd_eq, hadd, Rs.fail, Tag.name, bind,
                    Except.bind, pure, Except.pure]
              | no =>
                cases hfu : p.flt.noUnknown <;>
                  simp [canSpendE, allowE, hcs, hsa, hx, hp0, hfu, Rs.okOr, Rs.fail, Tag.name, bind, Except.bind, pure,
                    Except.pure]
              | panic =>
                simp [canSpendE, allowE, hcs, hsa, hx, hp0, Rs.okOr, Rs.panic, bind, Except.bind]
      · have hp' : decide (o.pathLen > 0) = false := by simpa using hp
        simp only [hp', hp, if_false, Bool.false_eq_true]
        cases hsa : o.scriptAllow with
        | true =>
          cases hadd : U64.checkedAdd bs o.value <;>
            simp [allowE, hsa, Rs.okOr, ucheckedAdd_eq, hadd, Rs.fail, Tag.name, bind, Except.bind, pure, Except.pure]
        | false =>
          cases hch : o.chan with
          | none => simp [allowE, hsa, bind, Except.bind, pure, Except.pure]
          | some c =>
            simp only [allowE, hsa, Bool.false_eq_true, if_false, if_true, Rs.pure_eq, Rs.bind_ok, Option.map_some,
              keys_ne, filtP_matchCommitment, filtP_outputScript, filtP_initialCountersigned, filtP_noFundInbound,
              filtP_noChannelPush, toChan, Rs.udiv]
            simp only [decide_false, Bool.false_eq_true, if_false]
            have hk2 : (o != if c.scriptMatch = true then o else otherScript o) = !c.scriptMatch := by
              cases h : c.scriptMatch <;> simp [otherScript_ne]
            rw [hk2]
            unfold chanStep
            by_cases g1 : o.value ≠ c.value ∧ p.flt.matchCommitment = true
            · have g1' : (o.value != c.value) = true ∧ p.flt.matchCommitment = true := by simpa using g1
              rw [if_pos g1', if_pos g1]; simp [Rs.fail, Tag.name]
            · have g1' : ¬((o.value != c.value) = true ∧ p.flt.matchCommitment = true) := by simpa using g1
              rw [if_neg g1', if_neg g1]
              by_cases g2 : c.scriptMatch = false ∧ p.flt.outputScript = true
              · have g2' : (!c.scriptMatch) = true ∧ p.flt.outputScript = true := by simpa using g2
                rw [if_pos g2', if_pos g2]; simp [Rs.fail, Tag.name]
              · have g2' : ¬((!c.scriptMatch) = true ∧ p.flt.outputScript = true) := by simpa using g2
                rw [if_neg g2', if_neg g2]
                by_cases g3 : c.nextHolderCommit ≠ 1 ∧ p.flt.initialCountersigned = true
                · have g3' : (c.nextHolderCommit != 1) = true ∧ p.flt.initialCountersigned = true := by simpa using g3
                  rw [if_pos g3', if_pos g3]; simp [Rs.fail, Tag.name]
                · have g3' : ¬((c.nextHolderCommit != 1) = true ∧ p.flt.initialCountersigned = true) := by simpa using g3
                  rw [if_neg g3', if_neg g3]
                  by_cases g4 : c.outbound = false ∧ p.flt.noFundInbound = true
                  · have g4' : (!c.outbound) = true ∧ p.flt.noFundInbound = true := by simpa using g4
                    rw [if_pos g4', if_pos g4]; simp [Rs.fail, Tag.name]
                  · have g4' : ¬((!c.outbound) = true ∧ p.flt.noFundInbound = true) := by simpa using g4
                    rw [if_neg g4', if_neg g4]
                    have h1000 : ¬ (1000 = 0) := by decide
                    simp only [h1000, if_false, Rs.bind_ok]
                    by_cases g5 : 0 < c.pushMsat / 1000 ∧ p.flt.noChannelPush = true
                    · have g5' : decide (c.pushMsat / 1000 > 0) = true ∧ p.flt.noChannelPush = true := by simpa using g5
                      rw [if_pos g5', if_pos g5]; simp [Rs.fail, Tag.name]
                    · have g5' : ¬(decide (c.pushMsat / 1000 > 0) = true ∧ p.flt.noChannelPush = true) := by simpa using g5
                      rw [if_neg g5', if_neg g5]
                      by_cases g6 : c.value < c.pushMsat / 1000
                      · have : ¬ c.pushMsat / 1000 ≤ c.value := by omega
                        simp [g6, Rs.ucheckedSub, this, Rs.okOr, Rs.fail, Tag.name, bind, Except.bind]
                      · have : c.pushMsat / 1000 ≤ c.value := by omega
                        cases hadd : U64.checkedAdd bs (c.value - c.pushMsat / 1000) <;>
                          simp [g6, Rs.ucheckedSub, this, Rs.okOr, ucheckedAdd_eq, hadd, Rs.fail, Tag.name, bind, Except.bind,
                            pure, Except.pure]
  -- the checks in front of the loop
  simp only [tail_eq]
  unfold validateOnchain
  by_cases c1 : r.version ≠ 2 ∧ p.flt.fmtStandard = true
  · have c1' : ((toTx r).version != 2) = true ∧ p.flt.fmtStandard = true := by
      refine ⟨?_, c1.2⟩
      simp only [toTx, bne_iff_ne, ne_eq]
      intro h; exact c1.1 (by exact_mod_cast h)
    rw [if_pos c1', if_pos c1]; simp [enc, Rs.fail, Tag.name]
  · have c1' : ¬(((toTx r).version != 2) = true ∧ p.flt.fmtStandard = true) := by
      intro h; apply c1; refine ⟨?_, h.2⟩
      have h1 := h.1
      simp only [toTx, bne_iff_ne, ne_eq] at h1
      intro h2; apply h1; exact_mod_cast h2
    rw [if_neg c1', if_neg c1]
    by_cases c2 : Gen.Onchain.maxOnchainTxSize < r.baseSize ∧ p.flt.maxSize = true
    · have c2' : decide (r.baseSize > 32768) = true ∧ p.flt.maxSize = true := by
        simpa [maxOnchainTxSize_gen] using c2
      rw [if_pos c2', if_pos c2]; simp [enc, Rs.fail, Tag.name]
    · have c2' : ¬(decide (r.baseSize > 32768) = true ∧ p.flt.maxSize = true) := by
        simpa [maxOnchainTxSize_gen] using c2
      rw [if_neg c2', if_neg c2]
      rw [anyChannel_eq]
      cases ha : anyChannel r.outs with
      | false =>
        simp only [Bool.false_eq_true, if_false, pure_bind, false_and] <;> rfl
      | true =>
        simp only [if_true, nonMalleableE, C08_fn_is_tx_non_malleable, true_and]
        by_cases c3 : r.nInputs = r.segwit.length
        · have c3' : ¬ r.nInputs ≠ r.segwit.length := by simpa using c3
          simp only [c3, if_true, c3', if_false, Rs.bind_ok, pure_bind, ne_eq, not_true_eq_false]
          cases hall : r.segwit.all id <;> cases hnm : p.flt.nonMalleable <;>
            simp only [Bool.not_true, Bool.not_false, Bool.false_eq_true, if_false, if_true, false_and, and_self, and_true,
              true_and, and_false, enc, Rs.fail, Tag.name] <;> rfl
        · simp [c3, enc, bind, Except.bind]


/-! ## `KeyDerivationStyle::get_key_path_len` (the path-length rule of `get_wallet_pubkey`, hence of `can_spend`) -/

def toStyle : Wallet.Style → Gen.FnDerive.KeyDerivationStyle
  | .native => .Native | .ldk => .Ldk | .lnd => .Lnd

theorem C08_fn_get_key_path_len (st : Wallet.Style) :
    Gen.FnDerive.KeyDerivationStyle.get_key_path_len (toStyle st) = st.keyPathLen := by
  cases st <;> rfl

/-! ## `impl Wallet for Node`: `can_spend`, `allowlist_contains` (+ `get_wallet_pubkey` / `get_wallet_privkey`), node.rs

`Gen/FnNodeWallet.lean` is the regenerated text of the four functions.  Instantiation of the externals: keys and scripts are
the structured values of `Model/Wallet.lean` (`account_privkey_at path` = `Key.account path`, `pubkey_of` = identity,
`xpub_child j path` = `xpubKey j path` unless the path has a hardened component (`derive_pub` fails), the four address
constructors = `Script.addr kind`, `script_pubkey()` = identity), `get_key_path_len` = `Style.keyPathLen` (itself tied to
derive.rs above).  The allowlist is a `BTreeSet` in the code; the generated loop runs over the representing list *as given* and
the theorem holds for every list, so the iteration order is immaterial. -/
section NodeWallet
open VlsModel.Wallet VlsModel.Wallet.Fn
open VlsModel.Gen.FnNodeWallet (Node)

/-- **`Node::can_spend` = `Wallet.canSpend`** (`Err` = the `invalid_argument` of `get_wallet_privkey`); proof in
    Lemmas/NodeWalletFn.lean -/
theorem C08_fn_can_spend (style : Style) (allow : List Wallet.Allowable) (path : List Nat) (s : Script) :
    Node.can_spend (ext_len := List.length) (ext_get_key_path_len := Style.keyPathLen)
        (ext_account_privkey_at := fun p => Key.account p) (ext_pubkey_of := fun k => k)
        (ext_addr_p2wpkh := fun k => Script.addr .p2wpkh k) (ext_addr_p2shwpkh := fun k => Script.addr .p2shwpkh k)
        (ext_addr_p2tr := fun k => Script.addr .p2tr k) (ext_script_pubkey := fun a => a)
        (toNode style allow) path s
      = match canSpend style path s with
        | some b => .ok b
        | none => .error (.err "invalid-argument") := can_spend_eq style allow path s

/-- **`Node::allowlist_contains` = `Wallet.allowlistContains`**, for every allowlist in every order -/
theorem C08_fn_allowlist_contains (style : Style) (allow : List Wallet.Allowable) (path : List Nat) (s : Script) :
    Node.allowlist_contains (ext_is_empty := List.isEmpty) (ext_xpub_child := xpubChildE)
        (ext_addr_p2wpkh := fun k => Script.addr .p2wpkh k) (ext_script_pubkey := fun a => a)
        (ext_addr_p2pkh := fun k => Script.addr .p2pkh k) (ext_addr_p2tr := fun k => Script.addr .p2tr k)
        (toNode style allow) s path
      = match allowlistContains allow s path with
        | .yes => .ok true
        | .no => .ok false
        | .panic => .error .panic := allowlist_contains_eq style allow path s

/-! ### Round 9: the key and address functions behind `can_spend` (same generated unit) -/

/-- the outcome of a `Result<_, Status>` whose only error is `invalid_argument` -/
def optRes {α : Type} : Option α → Rs.M α
  | some a => .ok a
  | none => .error (.err "invalid-argument")

/-- **`Node::get_wallet_privkey` = `Wallet.walletKey?`**: the account key at the path, refused (`invalid_argument`) exactly
    when the style prescribes a path length and the path has another one -/
theorem C08_fn_get_wallet_privkey (style : Style) (allow : List Wallet.Allowable) (path : List Nat) :
    Node.get_wallet_privkey (ext_get_key_path_len := Style.keyPathLen) (ext_len := List.length)
        (ext_account_privkey_at := fun p => Key.account p) (toNode style allow) path
      = optRes (walletKey? style path) := by
  unfold Node.get_wallet_privkey walletKey? optRes
  simp only [toNode]
  cases hk : style.keyPathLen with
  | none => simp [Rs.unwrap, bind, Except.bind, pure, Except.pure]
  | some n =>
    by_cases hl : path.length = n
    · simp [hl, Rs.unwrap, bind, Except.bind, pure, Except.pure]
    · simp [hl, Rs.unwrap, Rs.fail, bind, Except.bind, pure, Except.pure]

theorem C08_fn_get_wallet_pubkey (style : Style) (allow : List Wallet.Allowable) (path : List Nat) :
    Node.get_wallet_pubkey (ext_get_key_path_len := Style.keyPathLen) (ext_len := List.length)
        (ext_account_privkey_at := fun p => Key.account p) (ext_pubkey_of := fun k => k) (toNode style allow) path
      = optRes (walletKey? style path) := by
  unfold Node.get_wallet_pubkey
  rw [C08_fn_get_wallet_privkey]
  cases walletKey? style path <;> rfl

/-- the address of kind `k` at a wallet path: refused for the empty path and for a path of the wrong length -/
def walletAddr (k : Kind) (style : Style) (path : List Nat) : Option Script :=
  if path.length = 0 then none else (walletKey? style path).map (Script.addr k)

theorem C08_fn_get_native_address (style : Style) (allow : List Wallet.Allowable) (path : List Nat) :
    Node.get_native_address (ext_len := List.length) (ext_get_key_path_len := Style.keyPathLen)
        (ext_account_privkey_at := fun p => Key.account p) (ext_pubkey_of := fun k => k)
        (ext_addr_p2wpkh := fun k => Script.addr .p2wpkh k) (toNode style allow) path
      = optRes (walletAddr .p2wpkh style path) := by
  unfold Node.get_native_address walletAddr
  rw [C08_fn_get_wallet_pubkey]
  by_cases hp : path.length = 0
  · simp [hp, optRes, Rs.fail]
  · cases hw : walletKey? style path <;> simp [hp, hw, optRes, bind, Except.bind, pure, Except.pure]

theorem C08_fn_get_wrapped_address (style : Style) (allow : List Wallet.Allowable) (path : List Nat) :
    Node.get_wrapped_address (ext_len := List.length) (ext_get_key_path_len := Style.keyPathLen)
        (ext_account_privkey_at := fun p => Key.account p) (ext_pubkey_of := fun k => k)
        (ext_addr_p2shwpkh := fun k => Script.addr .p2shwpkh k) (toNode style allow) path
      = optRes (walletAddr .p2shwpkh style path) := by
  unfold Node.get_wrapped_address walletAddr
  rw [C08_fn_get_wallet_pubkey]
  by_cases hp : path.length = 0
  · simp [hp, optRes, Rs.fail]
  · cases hw : walletKey? style path <;> simp [hp, hw, optRes, bind, Except.bind, pure, Except.pure]

theorem C08_fn_get_taproot_address (style : Style) (allow : List Wallet.Allowable) (path : List Nat) :
    Node.get_taproot_address (ext_len := List.length) (ext_get_key_path_len := Style.keyPathLen)
        (ext_account_privkey_at := fun p => Key.account p) (ext_pubkey_of := fun k => k)
        (ext_addr_p2tr := fun k => Script.addr .p2tr k) (toNode style allow) path
      = optRes (walletAddr .p2tr style path) := by
  unfold Node.get_taproot_address walletAddr
  rw [C08_fn_get_wallet_pubkey]
  by_cases hp : path.length = 0
  · simp [hp, optRes, Rs.fail]
  · cases hw : walletKey? style path <;> simp [hp, hw, optRes, bind, Except.bind, pure, Except.pure]

/-- **every address the node hands out for a wallet path is one `can_spend` recognises at that path** (the three
    `get_*_address` functions and `can_spend` agree on key and form) -/
theorem C08_wallet_addresses_spendable (style : Style) (path : List Nat) (k : Kind) (s : Script)
    (hk : k = .p2wpkh ∨ k = .p2shwpkh ∨ k = .p2tr) (h : walletAddr k style path = some s) :
    canSpend style path s = some true := by
  unfold walletAddr at h
  unfold canSpend
  by_cases hp : path.length = 0
  · simp [hp] at h
  · simp only [hp, if_false] at h ⊢
    cases hw : walletKey? style path with
    | none => simp [hw] at h
    | some key =>
      simp only [hw, Option.map_some, Option.some.injEq] at h
      subst h
      rcases hk with rfl | rfl | rfl <;> simp

/-- `Node::allowlist_contains_payee` is membership of `Allowable::Payee(payee)` in the allowlist -/
theorem C08_fn_allowlist_contains_payee (style : Style) (allow : List Wallet.Allowable) (n : Nat) :
    Node.allowlist_contains_payee (toNode style allow) n = allow.contains (.payee n) := by
  unfold Node.allowlist_contains_payee Gen.FnNodeWallet.Node.get_state
  simp only [toNode]
  induction allow with
  | nil => rfl
  | cons a rest ih =>
    cases a <;> simp_all [toGenAllow, List.contains_cons]

example : walletAddr .p2wpkh .native [3] = some (.addr .p2wpkh (.account [3])) ∧ walletAddr .p2wpkh .native [] = none
    ∧ walletAddr .p2tr .native [1, 2] = none := by decide

/-- (round 10, b3) **`Node::check_wallet_pubkey`**: the submitted key is compared with the wallet key **at the submitted
    path** (`get_wallet_pubkey`, tied above): `Ok(true)` exactly for the account key of that path, `Ok(false)` for every other
    key (an xpub child, a foreign key, the account key of another path), `invalid_argument` for a path of the wrong length —
    never `true` without the comparison.  `a.0 == b.inner` is the external equality of the two key wrappers, here `=`. -/
theorem C08_fn_check_wallet_pubkey (style : Style) (allow : List Wallet.Allowable) (path : List Nat) (k : Key) :
    Node.check_wallet_pubkey (ext_get_key_path_len := Style.keyPathLen) (ext_len := List.length)
        (ext_account_privkey_at := fun p => Key.account p) (ext_pubkey_of := fun k => k)
        (ext_same_inner_key := fun a b => decide (a = b)) (toNode style allow) path k
      = optRes ((walletKey? style path).map (fun w => decide (w = k))) := by
  unfold Node.check_wallet_pubkey
  rw [C08_fn_get_wallet_pubkey]
  cases walletKey? style path <;> rfl

/-- … so an accepted key is the account key of the path, and of no other path -/
theorem C08_fn_check_wallet_pubkey_sound (style : Style) (allow : List Wallet.Allowable) (path : List Nat) (k : Key)
    (h : Node.check_wallet_pubkey (ext_get_key_path_len := Style.keyPathLen) (ext_len := List.length)
        (ext_account_privkey_at := fun p => Key.account p) (ext_pubkey_of := fun k => k)
        (ext_same_inner_key := fun a b => decide (a = b)) (toNode style allow) path k = .ok true) :
    k = .account path := by
  rw [C08_fn_check_wallet_pubkey] at h
  unfold walletKey? at h
  cases hk : style.keyPathLen with
  | none => simp [hk, optRes] at h; exact h.symm
  | some n =>
    by_cases hl : path.length = n
    · simp [hk, hl, optRes] at h; exact h.symm
    · simp [hk, hl, optRes] at h

end NodeWallet

/-! ## Round 9: `vls-protocol-signer/src/approver.rs` (`Gen/FnApproverC08.lean`) and the `OnchainValidator` wrapper

`Approve::handle_proposed_onchain` (the default method every approver inherits) = `Onchain.flowOnchain`; the approver
stack's `approve_onchain` = `Onchain.Approver.approveOnchain`.  The `Result<(), ValidationError>` of
`Node::check_onchain_tx` is read through the declared view `Option<Option<Vec<usize>>>` (normalisation rules
`hpo_*` of `translate/fn_targets/C0809.b0809.json`): `None` = `Ok(())`, `Some(Some(indices))` =
`UnknownDestinations(_, indices)`, `Some(None)` = any other kind. -/
section Approver
open VlsModel.Gen.FnApproverC08

/-- the declared view of what `Node::check_onchain_tx` returns -/
def checkView : Res → Rs.M (Option (Option (List Nat)))
  | .ok _ => .ok none
  | .unknown l => .ok (some (some l))
  | .err _ => .ok (some none)
  | .panic => .error .panic

/-- outcome of the generated `handle_proposed_onchain`, given what the check said (the `Status` only carries the message of
    the validation error: its tag is the one of the check's result) -/
def flowOut (res : Res) : Rs.M Bool → FlowRes
  | .ok true => .signed
  | .ok false => .declined
  | .error (.err s) =>
    if s = "Status::failed_precondition" then (match res with | .err t => .refused t | _ => .panic) else .panic
  | .error _ => .panic

/-- the answer the approver is asked for: only on `UnknownDestinations`, and exactly about the reported indices -/
def askedOf (res : Res) (approve : List Nat → Bool) : Bool :=
  match res with
  | .unknown l => approve l
  | _ => false

/-- **`Approve::handle_proposed_onchain` = `Onchain.flowOnchain`**: for every policy, velocity state, time and request, and
    every approver (a function of the unknown indices it is shown): `Ok(())` ⇒ sign without asking; `UnknownDestinations` ⇒
    the approver's answer about exactly those indices decides between signing and `Ok(false)`; every other validation
    error ⇒ `Err(failed_precondition)`; a panic of the check propagates. -/
theorem C08_fn_handle_proposed_onchain (p : Policy) (vc : Velocity.VC) (now : Nat) (r : Req) (approve : List Nat → Bool) :
    flowOut (checkOnchain p vc now r).2
        (Approve.handle_proposed_onchain
          (ext_Node_check_onchain_tx := fun (_ : Unit) (_ : Unit) _ (_ : List Unit) (_ : List (Option (Unit × List (List Nat)))) (_ : List Unit) =>
              checkView (checkOnchain p vc now r).2)
          (ext_approve_onchain := fun (_ : Unit) _ _ idx => approve idx)
          () () () [] [] [] [])
      = (flowOnchain p vc now r (askedOf (checkOnchain p vc now r).2 approve)).2 := by
  unfold Approve.handle_proposed_onchain flowOnchain
  rcases h : checkOnchain p vc now r with ⟨vc', res⟩
  cases res with
  | ok nb => simp [checkView, flowOut, bind, Except.bind, pure, Except.pure]
  | unknown l =>
    by_cases ha : approve l = true
    · simp [checkView, flowOut, askedOf, ha, bind, Except.bind, pure, Except.pure]
    · have ha' : approve l = false := by simpa using ha
      simp [checkView, flowOut, askedOf, ha', bind, Except.bind, pure, Except.pure]
  | err t => simp [checkView, flowOut, Rs.fail, bind, Except.bind]
  | panic => simp [checkView, flowOut, bind, Except.bind]

/-- the approver is not consulted at all unless the check reported unknown destinations -/
theorem C08_fn_handle_proposed_onchain_not_asked (p : Policy) (vc : Velocity.VC) (now : Nat) (r : Req)
    (a₁ a₂ : Unit → Unit → List Unit → List Nat → Bool) (h : ∀ l, (checkOnchain p vc now r).2 ≠ .unknown l) :
    Approve.handle_proposed_onchain
        (ext_Node_check_onchain_tx := fun (_ : Unit) (_ : Unit) _ (_ : List Unit) (_ : List (Option (Unit × List (List Nat)))) (_ : List Unit) =>
            checkView (checkOnchain p vc now r).2)
        (ext_approve_onchain := a₁) () () () [] [] [] []
      = Approve.handle_proposed_onchain
        (ext_Node_check_onchain_tx := fun (_ : Unit) (_ : Unit) _ (_ : List Unit) (_ : List (Option (Unit × List (List Nat)))) (_ : List Unit) =>
            checkView (checkOnchain p vc now r).2)
        (ext_approve_onchain := a₂) () () () [] [] [] [] := by
  unfold Approve.handle_proposed_onchain
  rcases h' : checkOnchain p vc now r with ⟨vc', res⟩
  cases res with
  | unknown l => exact absurd (by rw [h']) (h l)
  | ok nb => simp [checkView, bind, Except.bind]
  | err t => simp [checkView, bind, Except.bind]
  | panic => simp [checkView, bind, Except.bind]

variable {Tx O I P ρ' : Type} [DecidableEq Tx]

theorem C08_fn_positive_approve_onchain (tx : Tx) (po : List O) (idx : List Nat) :
    PositiveApprover.approve_onchain () tx po idx = (Approver.positive.approveOnchain tx).2 := rfl

theorem C08_fn_warning_positive_approve_onchain (tx : Tx) (po : List O) (idx : List Nat) :
    WarningPositiveApprover.approve_onchain () tx po idx = (Approver.warningPositive.approveOnchain tx).2 := rfl

theorem C08_fn_negative_approve_onchain (tx : Tx) (po : List O) (idx : List Nat) :
    NegativeApprover.approve_onchain () tx po idx = (Approver.negative.approveOnchain tx).2 := rfl

/-- the delegate's `approve_onchain` as the model computes it -/
def delegateE : Approver Tx → Tx → List O → List Nat → Bool := fun d tx _ _ => (d.approveOnchain tx).2

/-- `VelocityApprover::approve_onchain` is the delegate's answer (no velocity control on on-chain requests) -/
theorem C08_fn_velocity_approve_onchain (d : Approver Tx) (tx : Tx) (po : List O) (idx : List Nat) :
    VelocityApprover.approve_onchain (ext_delegate_approve_onchain := delegateE) ⟨d⟩ tx po idx
      = ((Approver.velocity d).approveOnchain tx).2 := rfl

/-- a memoized approval of the generated enum, as the model sees it -/
def memoOf : Approval I P Tx → Memo Tx
  | .Invoice _ => .invoice
  | .KeySend _ _ => .keysend
  | .Onchain t => .onchain t

/-- what the loop body of `MemoApprover::approve_onchain` does with one memoized approval -/
def memoStep (r : ρ') (tx : Tx) : Memo Tx → Rs.Flow Unit ρ'
  | .onchain t => if t == tx then .ret r else .next ()
  | _ => .next ()

theorem memo_loop (r : ρ') (tx : Tx) (f : Unit → Approval I P Tx → Rs.M (Rs.Flow Unit ρ'))
    (hf : ∀ a, f () a = .ok (memoStep r tx (memoOf a))) (l : List (Approval I P Tx)) :
    Rs.loopM l () f = .ok (if memoHit (l.map memoOf) tx then .inr r else .inl ()) := by
  induction l with
  | nil => simp [Rs.loopM, memoHit, pure, Except.pure]
  | cons a rest ih =>
    cases a with
    | Invoice i => simpa [Rs.loopM, hf, memoStep, memoHit, memoOf, bind, Except.bind, pure, Except.pure] using ih
    | KeySend h n => simpa [Rs.loopM, hf, memoStep, memoHit, memoOf, bind, Except.bind, pure, Except.pure] using ih
    | Onchain t =>
      by_cases ht : t = tx
      · simp [Rs.loopM, hf, memoStep, memoHit, memoOf, ht, bind, Except.bind, pure, Except.pure]
      · simpa [Rs.loopM, hf, memoStep, memoHit, memoOf, ht, bind, Except.bind, pure, Except.pure] using ih

/-- **`MemoApprover::approve_onchain` = `Approver.memo … .approveOnchain`**, for every memo list: a memoized
    `Approval::Onchain(t)` is consumed only by the *same* transaction (`approved_tx == *tx` on the whole transaction),
    otherwise the delegate decides; the memo list is empty afterwards in every case. -/
theorem C08_fn_memo_approve_onchain (d : Approver Tx) (appr : List (Approval I P Tx)) (tx : Tx) (po : List O) (idx : List Nat) :
    MemoApprover.approve_onchain (ext_delegate_approve_onchain := delegateE) ⟨d, appr⟩ tx po idx
      = .ok (⟨d, []⟩, ((Approver.memo (appr.map memoOf) d).approveOnchain tx).2) := by
  unfold MemoApprover.approve_onchain
  dsimp only
  rw [memo_loop (⟨d, []⟩, true) tx _ (by intro a; cases a <;> simp only [memoOf, memoStep] <;> first | rfl | (split <;> rfl)) appr]
  by_cases hh : memoHit (appr.map memoOf) tx = true
  · simp [Approver.approveOnchain, hh, pure, Except.pure, bind, Except.bind]
  · have hh' : memoHit (appr.map memoOf) tx = false := by simpa using hh
    simp [Approver.approveOnchain, hh', delegateE, pure, Except.pure, bind, Except.bind]

/-- (round 10, b3) `MemoApprover::new`: no memoized approval; `MemoApprover::approve(a)`: the memo list **is** `a` (an older memo
    is overwritten, not extended; the delegate is untouched) -/
theorem C08_fn_memo_new_approve (d : Approver Tx) (old appr : List (Approval I P Tx)) :
    (MemoApprover.new d : MemoApprover I P Tx (Approver Tx)) = ⟨d, []⟩
      ∧ MemoApprover.approve ⟨d, old⟩ appr = ⟨d, appr⟩ := ⟨rfl, rfl⟩

/-- … so the `approve_onchain` that follows `approve(a)` decides on exactly `a` (and on nothing memoized earlier), and a fresh
    memo approver decides as its delegate -/
theorem C08_fn_memo_approve_then_onchain (d : Approver Tx) (old appr : List (Approval I P Tx)) (tx : Tx) (po : List O)
    (idx : List Nat) :
    MemoApprover.approve_onchain (ext_delegate_approve_onchain := delegateE) (MemoApprover.approve ⟨d, old⟩ appr) tx po idx
        = .ok (⟨d, []⟩, ((Approver.memo (appr.map memoOf) d).approveOnchain tx).2)
      ∧ MemoApprover.approve_onchain (ext_delegate_approve_onchain := delegateE)
          (MemoApprover.new d : MemoApprover I P Tx (Approver Tx)) tx po idx
        = .ok (⟨d, []⟩, ((Approver.memo [] d).approveOnchain tx).2) :=
  ⟨C08_fn_memo_approve_onchain d appr tx po idx, C08_fn_memo_approve_onchain d [] tx po idx⟩

/-- non-vacuity: a memo for transaction 7 approves 7 and nothing else under a declining delegate; afterwards it is spent -/
example : ((Approver.memo [Memo.invoice, .onchain 7] .negative).approveOnchain 7).2 = true
    ∧ ((Approver.memo [Memo.invoice, .onchain 7] .negative).approveOnchain 8).2 = false
    ∧ ((((Approver.memo [Memo.onchain 7] .negative).approveOnchain 7).1).approveOnchain 7).2 = false := by decide

end Approver

section OnchainWrap
open VlsModel.Gen.FnOnchainWrap

/-- `OnchainValidator::validate_onchain_tx` is the inner validator's `validate_onchain_tx` on the same arguments (the
    external is passed **by name**: a wrapper that forwards to another method of the inner validator no longer
    elaborates) -/
theorem C08_fn_onchain_validate_onchain_tx {V W S T D : Type}
    (F : V → W → List (Option S) → T → List Bool → List Nat → List D → Nat → Rs.M Nat)
    (v : V) (w : W) (ch : List (Option S)) (tx : T) (sf : List Bool) (vals : List Nat) (op : List D) (weight : Nat) :
    OnchainValidator.validate_onchain_tx (ext_inner_validate_onchain_tx := F) ⟨v⟩ w ch tx sf vals op weight
      = F v w ch tx sf vals op weight := rfl

end OnchainWrap

/-! ## Round 9: `Node::check_onchain_tx` (node.rs) = `Onchain.checkOnchain`

`Gen/FnNodeOnchain.lean` is the regenerated body: the per-output channel lookup, the weight lower bound over
`uniclosekeys` (`prev_outs[idx]`, `SpendType::Invalid`, the witness stack sum, `2 + 1 + 1 + 72 + 1`, all in checked `usize`),
the values of the previous outputs, the call of `validate_onchain_tx` with that weight, `non_beneficial_sat * 1000` in checked
`u64`, the fee velocity insert — the **generated** `VelocityControl::insert` of velocity.rs, pulled into the unit with
`fns_from` and tied to `Velocity.VC.insert` here (`insert_n`, same proof as `C12_fn_insert`) — and the filtered
`policy-onchain-fee-range` error.  Normalisation rules `coc_*` (translate/fn_targets/C0809.b0809.json). -/
section CheckOnchain
open VlsModel.Velocity
open VlsModel.Gen.FnNodeOnchain (Node TxOut Transaction)
abbrev GVC := Gen.FnNodeOnchain.VelocityControl

def toVCn (g : GVC) : VC := { start := g.start_sec, bi := g.bucket_interval, buckets := g.buckets, limit := g.limit }
def ofVC (v : VC) : GVC := { start_sec := v.start, bucket_interval := v.bi, buckets := v.buckets, limit := v.limit }

theorem shift_loop_n (n : Nat) : ∀ s : GVC,
    Rs.iter (fun s : GVC => { s with buckets := 0 :: s.buckets }) n s
      = { s with buckets := List.replicate n 0 ++ s.buckets } := by
  induction n with
  | zero => intro s; rfl
  | succ k ih => intro s; simp [Rs.iter, ih, List.replicate_succ', List.append_assoc]

def toResN (r : Rs.M (GVC × Bool)) : Option (VC × Bool) :=
  match r with
  | .ok (g, b) => some (toVCn g, b)
  | .error _ => none

theorem insert_n (g : GVC) (now amt : Nat) :
    toResN (g.insert now amt) = (toVCn g).insert now amt := by
  unfold Gen.FnNodeOnchain.VelocityControl.insert VC.insert
  by_cases h1 : now < g.start_sec
  · simp [toVCn, h1, Rs.usub, Nat.not_le.mpr h1, toResN, Rs.overflow]
  · by_cases h2 : g.bucket_interval = 0
    · simp [toVCn, h1, h2, Rs.usub, Nat.le_of_not_lt h1, Rs.udiv, toResN, Rs.panic]
    · have hle : g.start_sec ≤ now := Nat.le_of_not_lt h1
      simp only [toVCn, h1, h2, Rs.usub, hle, Rs.udiv, Rs.urem, Nat.min_le_left, if_true, if_false, false_or,
        Rs.bind_ok, Rs.pure_eq]
      rw [Rs.foldlM_ok _ (fun s : GVC => { s with buckets := 0 :: s.buckets })
        (by intro s x; simp [Rs.vecInsert_zero])]
      simp only [Rs.range_length, shift_loop_n, Rs.bind_ok, h2, if_false, Nat.mod_le, if_true, Nat.sub_zero]
      rw [Rs.vecResize_le _ _ _ (Nat.sub_le _ _)]
      have hB : ∀ k, shift g.buckets k = List.replicate k 0 ++ g.buckets.take (g.buckets.length - k) := fun _ => rfl
      simp only [hB]
      generalize List.replicate _ 0 ++ List.take _ g.buckets = B
      have hv : ∀ (a c : Nat) (b : List Nat) (l : Nat),
          (Gen.FnNodeOnchain.VelocityControl.velocity { start_sec := a, bucket_interval := c, buckets := b, limit := l })
            = (VC.velocity { start := a, bi := c, buckets := b, limit := l }) := fun _ _ _ _ => rfl
      have hs : ∀ a b, Rs.usatAdd Rs.U64_MAX a b = U64.satAdd a b := fun _ _ => rfl
      simp only [hv, hs]
      cases B with
      | nil =>
        simp only [Rs.index, List.getElem?_nil, Rs.panic, Rs.bind_err]
        split <;> simp_all [toResN, toVCn]
      | cons x xs =>
        simp only [Rs.index, Rs.setIndex, List.getElem?_cons_zero, Rs.bind_ok, Rs.pure_eq, List.length_cons,
          Nat.zero_lt_succ, if_true, List.set_cons_zero]
        split <;> simp_all [toResN, toVCn]

/-! the weight lower bound -/
abbrev UKey := Option (Unit × List (List Nat))

def witLenOf (u : UKey) : Option Nat := u.map (fun ks => (ks.2.map (fun v => 1 + v.length)).sum)

/-- the `Uck` facts of the model computed from the actual arguments (`prev_outs` with the script seen as "spend type
    valid", `uniclosekeys` with their witness stacks), entry `i` onwards -/
def ucksFrom (pouts : List (TxOut Bool)) : Nat → List UKey → List Uck
  | _, [] => []
  | i, u :: us =>
    { inRange := decide (i < pouts.length),
      spendValid := (match pouts[i]? with | some o => o.script_pubkey | none => true),
      witLen := witLenOf u } :: ucksFrom pouts (i + 1) us

/-- upper bound of everything the loop can add (no `usize` overflow below it) -/
def ucksTotal : List UKey → Nat
  | [] => 0
  | u :: us => 77 + (witLenOf u).getD 33 + ucksTotal us

theorem mapM_ok {α β : Type} (f : α → Rs.M β) (g : α → β) : ∀ (l : List α), (∀ v ∈ l, f v = .ok (g v)) →
    List.mapM f l = .ok (l.map g) := by
  intro l
  induction l with
  | nil => intro _; rfl
  | cons v vs ih =>
    intro h
    have hv := h v (List.mem_cons_self ..)
    have hr := ih (fun x hx => h x (List.mem_cons_of_mem _ hx))
    rw [List.mapM_cons, hv, Rs.bind_ok, hr, Rs.bind_ok]; rfl

theorem sum_mem_le (l : List Nat) : ∀ x ∈ l, x ≤ l.sum := by
  induction l with
  | nil => intro x hx; cases hx
  | cons a as ih =>
    intro x hx
    simp only [List.sum_cons]
    rcases List.mem_cons.mp hx with rfl | h
    · omega
    · have := ih x h; omega

theorem mapM_len (stack : List (List Nat)) (h : (stack.map (fun v => 1 + v.length)).sum ≤ Rs.USIZE_MAX) :
    List.mapM (m := Rs.M) (fun v => do
        let t_5 ← Rs.uadd Rs.USIZE_MAX 1 v.length
        pure t_5) stack = .ok (stack.map (fun v => 1 + v.length)) := by
  apply mapM_ok
  intro v hv
  have h1 : 1 + v.length ≤ Rs.USIZE_MAX :=
    Nat.le_trans (sum_mem_le _ _ (List.mem_map_of_mem (f := fun v : List Nat => 1 + v.length) hv)) h
  simp [Rs.uadd, h1, bind, Except.bind, pure, Except.pure]

def wlbStep (pouts : List (TxOut Bool)) : Nat → Nat × UKey → Rs.M Nat := fun weight_lower_bound (idx, uck) => do
        let weight_lower_bound ← do
            let x_1 ← Rs.index pouts idx
            if ((fun b : Bool => !b) x_1.script_pubkey) then
              let t_2 ← Rs.uadd Rs.USIZE_MAX weight_lower_bound 0
              let weight_lower_bound := t_2
              pure weight_lower_bound
            else
              let wit_len ← do
                  match uck with
                  | some (_key, stack) =>
                      let l_6 ← List.mapM (fun v => do
                          let t_5 ← Rs.uadd Rs.USIZE_MAX 1 v.length
                          pure t_5) stack
                      let s_7 ← Rs.usum Rs.USIZE_MAX l_6
                      pure s_7
                  | none =>
                      pure 33
              let t_9 ← Rs.uadd Rs.USIZE_MAX 3 1
              let t_10 ← Rs.uadd Rs.USIZE_MAX t_9 72
              let t_11 ← Rs.uadd Rs.USIZE_MAX t_10 1
              let t_12 ← Rs.uadd Rs.USIZE_MAX t_11 wit_len
              let t_13 ← Rs.uadd Rs.USIZE_MAX weight_lower_bound t_12
              let weight_lower_bound := t_13
              pure weight_lower_bound
        pure weight_lower_bound

def optM {α : Type} : Option α → Rs.M α
  | some a => .ok a
  | none => .error .panic

theorem wlb_fold (pouts : List (TxOut Bool)) : ∀ (us : List UKey) (i w : Nat), w + ucksTotal us ≤ Rs.USIZE_MAX →
    List.foldlM (wlbStep pouts) w ((List.range' i us.length).zip us)
      = optM (weightLowerBound (ucksFrom pouts i us) w) := by
  intro us
  induction us with
  | nil => intro i w _; rfl
  | cons u rest ih =>
    intro i w hw
    simp only [ucksTotal] at hw
    simp only [List.length_cons, List.range'_succ, List.zip_cons_cons, List.foldlM_cons, ucksFrom, weightLowerBound,
      Gen.Onchain.witnessWeightConst, Gen.Onchain.witnessDefaultLen]
    cases hp : pouts[i]? with
    | none =>
      have hlt : ¬ i < pouts.length := by
        intro h; have := List.getElem?_eq_getElem h; simp [this] at hp
      simp [wlbStep, Rs.index, hp, hlt, Rs.panic, optM, bind, Except.bind]
    | some o =>
      have hlt : i < pouts.length := by
        rcases Nat.lt_or_ge i pouts.length with h | h
        · exact h
        · have := List.getElem?_eq_none_iff.mpr h; simp [this] at hp
      by_cases hv : o.script_pubkey = true
      · -- a spendable input: the witness weight is added
        have h0 : w + (77 + (witLenOf u).getD 33) ≤ Rs.USIZE_MAX := by omega
        have hstep : wlbStep pouts w (i, u) = .ok (w + 77 + (witLenOf u).getD 33) := by
          cases u with
          | none =>
            have e2 : w + 110 ≤ 18446744073709551615 := by
              simp only [witLenOf, Option.map_none, Option.getD_none, Rs.USIZE_MAX] at h0; omega
            simp [wlbStep, Rs.index, hp, hv, Rs.uadd, Rs.USIZE_MAX, witLenOf, e2, bind, Except.bind, pure, Except.pure]
          | some ks =>
            obtain ⟨k, stack⟩ := ks
            simp only [witLenOf, Option.map_some, Option.getD_some] at h0 ⊢
            have hs : (stack.map (fun v => 1 + v.length)).sum ≤ Rs.USIZE_MAX := by omega
            generalize hS : (stack.map (fun v => 1 + v.length)).sum = S at h0 hs
            have c1 : 77 + S ≤ 18446744073709551615 := by simp only [Rs.USIZE_MAX] at h0; omega
            have c2 : w + (77 + S) ≤ 18446744073709551615 := by simp only [Rs.USIZE_MAX] at h0; omega
            simp only [wlbStep, Rs.index, hp, hv, Bool.not_true, Bool.false_eq_true, if_false, mapM_len stack (hS ▸ hs),
              Rs.usum_eq, hS, hs, if_true, Rs.bind_ok, Rs.pure_eq]
            simp [Rs.uadd, Rs.USIZE_MAX, c1, c2, bind, Except.bind, pure, Except.pure]
            omega
        rw [hstep, Rs.bind_ok, ih (i + 1) _ (by omega)]
        simp [hlt, hv]
      · have hv' : o.script_pubkey = false := by simpa using hv
        have hstep : wlbStep pouts w (i, u) = .ok w := by
          have e : w ≤ Rs.USIZE_MAX := by omega
          simp [wlbStep, Rs.index, hp, hv', Rs.uadd, e, bind, Except.bind, pure, Except.pure]
        rw [hstep, Rs.bind_ok, ih (i + 1) _ (by omega)]
        simp [hlt, hv']

theorem wlb_fold_any (pouts : List (TxOut Bool)) (f : Nat → Nat × UKey → Rs.M Nat) (hf : ∀ w x, f w x = wlbStep pouts w x)
    (us : List UKey) (i w : Nat) (h : w + ucksTotal us ≤ Rs.USIZE_MAX) :
    List.foldlM f w ((List.range' i us.length).zip us) = optM (weightLowerBound (ucksFrom pouts i us) w) := by
  have : f = wlbStep pouts := funext fun w => funext fun x => hf w x
  subst this
  exact wlb_fold pouts us i w h

/-- how the outcome of the generated `check_onchain_tx` (its `Ok(())` forgets the non-beneficial value) compares with the
    model's result; where the model says `panic` the generated function fails (panic, or overflow in a checked build) -/
def agree : Res → Rs.M Unit → Prop
  | .ok _, .ok () => True
  | .unknown l, .error (.err s) => s = "unknown-destinations " ++ toString l
  | .err t, .error (.err s) => s = t.name
  | .panic, .error _ => True
  | _, _ => False

abbrev GNode := Node Unit Unit Nat

/-- the generated `Node::check_onchain_tx` with its externals instantiated (by name): the clock reads `now`, the spend
    type of a previous output is its flag, `validate_onchain_tx` is the model's `validateOnchain` on the weight it is
    handed — provided it is handed the segwit flags and the previous outputs' values —, the policy filter is the
    policy's -/
def checkOnchainGen (p : Policy) (vc : VC) (now : Nat) (r : Req) (pouts : List (TxOut Bool)) (ucs : List UKey)
    (tx : Transaction Bool) (find : List (Unit × Unit) → Gen.FnNodeOnchain.OutPoint Unit → Option Unit) : Rs.M GNode :=
  Node.check_onchain_tx (DerivationPath := Unit) (SecretKey := Unit)
    (ext_compute_txid := fun _ => ()) (ext_find_channel_with_funding_outpoint := find) (ext_self_validator := ())
    (ext_tx_weight := fun _ => r.txWeight) (ext_spend_type_invalid := fun b => !b)
    (ext_Validator_validate_onchain_tx := fun _ _ _ _ sf vals _ w =>
        if sf = r.segwit ∧ vals = r.inValues then enc (validateOnchain p r w) else .error .panic)
    (ext_clock_now_secs := fun c => c) (policy_filter_err := filt p)
    { channels := [], clock := now, state := { fee_velocity_control := ofVC vc } } tx r.segwit pouts ucs []

theorem toVCn_ofVC (vc : VC) : toVCn (ofVC vc) = vc := by cases vc; rfl

theorem C08_fn_check_onchain_tx (p : Policy) (vc : VC) (now : Nat) (r : Req) (pouts : List (TxOut Bool)) (ucs : List UKey)
    (tx : Transaction Bool) (find : List (Unit × Unit) → Gen.FnNodeOnchain.OutPoint Unit → Option Unit)
    (hu : r.ucks = ucksFrom pouts 0 ucs) (hv : r.inValues = pouts.map (fun o => o.value))
    (hfit : r.txWeight + ucksTotal ucs ≤ Rs.USIZE_MAX) :
    agree (checkOnchain p vc now r).2 ((checkOnchainGen p vc now r pouts ucs tx find).map fun _ => ())
    ∧ ∀ n, checkOnchainGen p vc now r pouts ucs tx find = .ok n →
        toVCn n.state.fee_velocity_control = (checkOnchain p vc now r).1 := by
  unfold checkOnchainGen Node.check_onchain_tx checkOnchain
  simp only [Rs.enumerate, List.range_eq_range']
  rw [wlb_fold_any pouts _ (by intro w x; obtain ⟨i, u⟩ := x; cases u <;> rfl) ucs 0 r.txWeight hfit, ← hu]
  cases hw : weightLowerBound r.ucks r.txWeight with
  | none => simp [optM, agree, bind, Except.bind, Except.map]
  | some w =>
    simp only [optM, Rs.bind_ok, ← hv, and_self, if_true]
    cases hvo : validateOnchain p r w with
    | unknown l => simp [enc, agree, bind, Except.bind, Except.map]
    | err t => simp [enc, agree, bind, Except.bind, Except.map]
    | panic => simp [enc, agree, bind, Except.bind, Except.map]
    | ok nb =>
      simp only [enc, Rs.bind_ok, Rs.umul, U64.checkedMul]
      by_cases hm : nb * 1000 ≤ U64.MAX
      · have hm' : nb * 1000 ≤ Rs.U64_MAX := hm
        have hi := insert_n (ofVC vc) now (nb * 1000)
        rw [toVCn_ofVC] at hi
        simp only [hm, hm', if_true, Rs.bind_ok, Rs.pure_eq]
        cases hg : Gen.FnNodeOnchain.VelocityControl.insert (ofVC vc) now (nb * 1000) with
        | error e =>
          rw [hg] at hi
          simp [toResN] at hi
          simp [← hi, agree, bind, Except.bind, Except.map]
        | ok gb =>
          obtain ⟨g', b⟩ := gb
          rw [hg] at hi
          simp only [toResN] at hi
          cases b with
          | true => simp [← hi, agree, bind, Except.bind, Except.map, pure, Except.pure]
          | false =>
            by_cases hf : p.flt.feeRange = true
            · simp [← hi, agree, hf, filt, Rs.policyErr, Rs.fail, Tag.name, bind, Except.bind, Except.map, pure, Except.pure]
            · have hf' : p.flt.feeRange = false := by simpa using hf
              simp [← hi, agree, hf', filt, Rs.policyErr, Tag.name, bind, Except.bind, Except.map, pure, Except.pure]
      · have hm' : ¬ nb * 1000 ≤ Rs.U64_MAX := hm
        simp [hm, hm', Rs.overflow, agree, bind, Except.bind, Except.map]

end CheckOnchain

/-- non-vacuity: a concrete request (two previous outputs, the second one not ours; one unilateral-close key with a
    two-element witness stack) satisfies the hypotheses of `C08_fn_check_onchain_tx`, and its bound is 400 + 77 + 5 -/
example : ucksFrom [⟨1000, true⟩, ⟨2000, false⟩] 0 [some ((), [[1, 2], [3]]), none]
      = [⟨true, true, some 5⟩, ⟨true, false, none⟩]
    ∧ weightLowerBound (ucksFrom [⟨1000, true⟩, ⟨2000, false⟩] 0 [some ((), [[1, 2], [3]]), none]) 400 = some 482
    ∧ 400 + ucksTotal [some ((), [[1, 2], [3]]), none] ≤ Rs.USIZE_MAX := by decide

/-! ## Round 9: the derivation path the handler claims for a PSBT output (`extract_output_path`, `extract_psbt_output_paths`,
handler.rs, `Gen/FnHandlerPaths.lean`)

`opaths` of `check_onchain_tx` / the wallet path of the sweeps come from here: the single BIP-32 derivation of the output if
there is one (more than one: `unimplemented!`), else the single taproot key origin without leaf hashes, else the master
(empty) path = "not ours".  `m.iter().next().unwrap()` is the external "first entry" (rules `hp_first_*`), instantiated
with the head of the representing list. -/
section HandlerPaths
open VlsModel.Gen.FnHandlerPaths

variable {PKh FP DPh XO TL : Type}

def firstE {α : Type} : List α → Rs.M α
  | x :: _ => .ok x
  | [] => .error .panic

/-- the path claimed for an output, as a function of its two PSBT maps -/
def claimedPath (master : DPh) (b : List (PKh × (FP × DPh))) (t : List (XO × (List TL × (FP × DPh)))) : Rs.M DPh :=
  match b with
  | [(_, (_, path))] => .ok path
  | _ :: _ :: _ => .error .panic
  | [] =>
    match t with
    | [(_, ([], (_, path)))] => .ok path
    | [(_, (_ :: _, _))] => .error .panic
    | _ :: _ :: _ => .error .panic
    | [] => .ok master

theorem C08_fn_extract_output_path (master : DPh) (b : List (PKh × (FP × DPh))) (t : List (XO × (List TL × (FP × DPh)))) :
    extract_output_path (ext_first_entry_bip32 := firstE) (ext_first_entry_tap := firstE) (ext_DerivationPath_master := master) b t
      = claimedPath master b t := by
  unfold extract_output_path claimedPath
  match b with
  | [] =>
    match t with
    | [] => rfl
    | [(x, ([], (f, path)))] => rfl
    | [(x, (h :: hs, src))] => rfl
    | _ :: _ :: _ => simp [Rs.panic, bind, Except.bind]
  | [(k, (f, path))] => rfl
  | _ :: _ :: _ => simp [Rs.panic, bind, Except.bind]

theorem C08_fn_extract_psbt_output_paths (master : DPh) (psbt : Psbt PKh FP DPh XO TL) :
    extract_psbt_output_paths (ext_first_entry_bip32 := firstE) (ext_first_entry_tap := firstE) (ext_DerivationPath_master := master) psbt
      = psbt.outputs.mapM (fun o => claimedPath master o.bip32_derivation o.tap_key_origins) := by
  unfold extract_psbt_output_paths
  have : (fun (o : PsbtOutput PKh FP DPh XO TL) => do
        let t_3 ← extract_output_path (ext_first_entry_bip32 := firstE) (ext_first_entry_tap := firstE) (ext_DerivationPath_master := master) o.bip32_derivation o.tap_key_origins
        pure t_3) = fun o => claimedPath master o.bip32_derivation o.tap_key_origins := by
    funext o; rw [C08_fn_extract_output_path]
  rw [this]

example : claimedPath (PKh := Nat) (FP := Nat) (XO := Nat) (TL := Nat) [] [(1, (2, [7, 8]))] [] = .ok [7, 8]
    ∧ claimedPath (PKh := Nat) (FP := Nat) (XO := Nat) (TL := Nat) ([] : List Nat) [] [] = .ok []
    ∧ claimedPath (PKh := Nat) (FP := Nat) (XO := Nat) (TL := Nat) [] [] [(1, ([], (2, [5])))] = .ok [5] := ⟨rfl, rfl, rfl⟩

end HandlerPaths

/-! ## (round 10, b3) the channel lookup of `check_onchain_tx` / `unchecked_sign_onchain_tx`: `find_channel_with_funding_outpoint`

`Gen.FnB3NodeFind` (node.rs, the free function and the `Node` method).  `check_onchain_tx` takes the lookup as the external
`find_channel_with_funding_outpoint` (`C08_fn_check_onchain_tx`); this is the external's body.  The map is iterated in the
order of the representing list, which the model does not know: the theorems hold for **every** list. -/

section NodeFind
open VlsModel.Gen.FnB3NodeFind

variable {K T : Type} [DecidableEq T]

/-- does this slot hold a Ready channel funded by `op`? -/
def fundedBy (op : OutPoint T) : ChannelSlot T → Bool
  | .Ready c => c.setup.funding_outpoint == op
  | .Stub _ => false

/-- the loop with the early `return` is `find?` on the slots: first Ready channel whose `setup.funding_outpoint` equals the
    outpoint; stubs are skipped; it never fails -/
theorem C08_fn_find_channel_with_funding_outpoint (chans : List (K × ChannelSlot T)) (op : OutPoint T) :
    find_channel_with_funding_outpoint chans op = .ok ((chans.map Prod.snd).find? (fundedBy op)) := by
  unfold find_channel_with_funding_outpoint
  induction chans with
  | nil => simp [Rs.loopM]
  | cons c cs ih =>
    obtain ⟨k, sl⟩ := c
    simp only [Rs.loopM] at ih ⊢
    cases sl with
    | Stub st => simpa [fundedBy] using ih
    | Ready ch =>
      by_cases h : (ch.setup.funding_outpoint == op) = true
      · simp [fundedBy, h]
      · simpa [fundedBy, h] using ih

/-- the `Node` method (`Gen.FnB3NodeFindM`; the free function of the same name is its external there) hands the node's own
    channel map and the outpoint to the free function and returns its answer unchanged -/
theorem C08_fn_node_find_channel_with_funding_outpoint {S O : Type} (ext : List (K × S) → O → Option S)
    (n : Gen.FnB3NodeFindM.Node K S) (op : O) :
    Gen.FnB3NodeFindM.Node.find_channel_with_funding_outpoint ext n op = ext n.channels op := rfl

/-- soundness: what the lookup returns is a slot of the map, Ready, funded by exactly this outpoint (txid **and** vout)
    — never a stub, never a channel with another funding outpoint -/
theorem C08_fn_find_channel_sound (chans : List (K × ChannelSlot T)) (op : OutPoint T) (sl : ChannelSlot T)
    (h : find_channel_with_funding_outpoint chans op = .ok (some sl)) :
    sl ∈ chans.map Prod.snd ∧ ∃ c, sl = .Ready c ∧ c.setup.funding_outpoint = op := by
  rw [C08_fn_find_channel_with_funding_outpoint] at h
  have h' : (chans.map Prod.snd).find? (fundedBy op) = some sl := by injection h
  refine ⟨List.mem_of_find?_eq_some h', ?_⟩
  have hp := List.find?_some h'
  cases sl with
  | Stub st => simp [fundedBy] at hp
  | Ready c => exact ⟨c, rfl, by simpa [fundedBy] using hp⟩

/-- completeness: `None` exactly when no Ready channel of the map is funded by this outpoint (a funded channel output is
    never treated as an unknown destination because the lookup missed it) -/
theorem C08_fn_find_channel_none (chans : List (K × ChannelSlot T)) (op : OutPoint T) :
    find_channel_with_funding_outpoint chans op = .ok none
      ↔ ∀ sl ∈ chans.map Prod.snd, fundedBy op sl = false := by
  rw [C08_fn_find_channel_with_funding_outpoint]
  constructor
  · intro h sl hm
    have h' : (chans.map Prod.snd).find? (fundedBy op) = none := by injection h
    have := List.find?_eq_none.mp h' sl hm
    simpa using this
  · intro h
    have : (chans.map Prod.snd).find? (fundedBy op) = none := List.find?_eq_none.mpr (fun sl hm => by simp [h sl hm])
    rw [this]

/-- independence of the (unknown) iteration order: when the Ready channels funded by `op` are all the same slot `sl` (funding
    outpoints are unique among ready channels), the lookup returns `sl` whatever the order of the map -/
theorem C08_fn_find_channel_any_order (chans : List (K × ChannelSlot T)) (op : OutPoint T) (sl : ChannelSlot T)
    (hin : sl ∈ chans.map Prod.snd) (hf : fundedBy op sl = true)
    (huniq : ∀ s ∈ chans.map Prod.snd, fundedBy op s = true → s = sl) :
    find_channel_with_funding_outpoint chans op = .ok (some sl) := by
  rw [C08_fn_find_channel_with_funding_outpoint]
  cases hr : (chans.map Prod.snd).find? (fundedBy op) with
  | none => exact absurd hf (by simpa using List.find?_eq_none.mp hr sl hin)
  | some s => rw [huniq s (List.mem_of_find?_eq_some hr) (List.find?_some hr)]

example : find_channel_with_funding_outpoint
    [(1, ChannelSlot.Stub ⟨⟩), (2, .Ready ⟨⟨⟨7, 1⟩⟩⟩), (3, .Ready ⟨⟨⟨7, 0⟩⟩⟩)] (⟨7, 0⟩ : OutPoint Nat)
    = .ok (some (.Ready ⟨⟨⟨7, 0⟩⟩⟩)) := by rw [C08_fn_find_channel_with_funding_outpoint]; rfl
example : find_channel_with_funding_outpoint [(1, ChannelSlot.Stub ⟨⟩), (2, .Ready ⟨⟨⟨7, 1⟩⟩⟩)] (⟨7, 0⟩ : OutPoint Nat)
    = .ok none := by rw [C08_fn_find_channel_with_funding_outpoint]; rfl

end NodeFind

/-! ## (round 10, b3) clause 5 across a restart: the constructors of `NodeState` (`Gen.FnB3NodeState`, node.rs)

`check_onchain_tx` inserts into `state.fee_velocity_control` (`C08_fn_check_onchain_tx`).  Where that control comes from:
`NodeState::new` (fresh node), `NodeState::restore` (vls-persist, from the persisted entry), then
`NodeState::with_log_prefix` in `Node::new_full`.  `VelocityControl` is an opaque type here, so the equalities below can
only hold because the argument is **passed through** into the field of its own name — the fee control is not replaced by a
fresh one, by the global control, or dropped.  The hash-table conversions of `restore` are the externals `inv`/`iss`/`pay`
(`expect("payment hash decode")` ⇒ partial), `OrderedSet::from_iter` is `setOf`. -/

section NodeStateCtor
open VlsModel.Gen.FnB3NodeState
variable {H VC S X P : Type}

/-- `NodeState::new`: empty tables, zero counters, both controls and the allowlist as given -/
theorem C08_fn_node_state_new (setOf : List (Allowable S X P) → List (Allowable S X P)) (vc fvc : VC)
    (al : List (Allowable S X P)) :
    (NodeState.new setOf vc fvc al : NodeState H VC S X P)
      = { invoices := [], issued_invoices := [], payments := [], excess_amount := 0, log_prefix := "",
          velocity_control := vc, fee_velocity_control := fvc, last_summary := "", dbid_high_water_mark := 0,
          allowlist := setOf al } := rfl

/-- `NodeState::restore`: fails only where a table conversion fails; otherwise every persisted component lands in the field
    of its own name -/
theorem C08_fn_node_state_restore
    (inv iss : List (List Nat × PaymentState) → Rs.M (List (H × PaymentState)))
    (pay : List (List Nat) → List (H × RoutedPayment)) (setOf : List (Allowable S X P) → List (Allowable S X P))
    (iv isv : List (List Nat × PaymentState)) (pre : List (List Nat)) (ex : Nat) (vc fvc : VC) (hw : Nat)
    (al : List (Allowable S X P)) :
    (NodeState.restore inv iss pay setOf iv isv pre ex vc fvc hw al : Rs.M (NodeState H VC S X P))
      = match inv iv with
        | .error e => .error e
        | .ok i => match iss isv with
          | .error e => .error e
          | .ok j => .ok { invoices := i, issued_invoices := j, payments := pay pre, excess_amount := ex, log_prefix := "",
                           velocity_control := vc, fee_velocity_control := fvc, last_summary := "",
                           dbid_high_water_mark := hw, allowlist := setOf al } := by
  unfold NodeState.restore
  cases inv iv <;> cases iss isv <;> rfl

/-- clause 5 across a restart: a restored state carries exactly the persisted fee control (and the persisted global
    control, high-water mark, excess amount) -/
theorem C08_fn_node_state_restore_fee_control
    (inv iss : List (List Nat × PaymentState) → Rs.M (List (H × PaymentState)))
    (pay : List (List Nat) → List (H × RoutedPayment)) (setOf : List (Allowable S X P) → List (Allowable S X P))
    (iv isv : List (List Nat × PaymentState)) (pre : List (List Nat)) (ex : Nat) (vc fvc : VC) (hw : Nat)
    (al : List (Allowable S X P)) (st : NodeState H VC S X P)
    (h : NodeState.restore inv iss pay setOf iv isv pre ex vc fvc hw al = .ok st) :
    st.fee_velocity_control = fvc ∧ st.velocity_control = vc ∧ st.dbid_high_water_mark = hw ∧ st.excess_amount = ex
      ∧ st.allowlist = setOf al := by
  rw [C08_fn_node_state_restore] at h
  cases h1 : inv iv with
  | error e => simp [h1] at h
  | ok i =>
    cases h2 : iss isv with
    | error e => simp [h1, h2] at h
    | ok j =>
      simp only [h1, h2] at h
      injection h with h
      subst h
      exact ⟨rfl, rfl, rfl, rfl, rfl⟩

/-- `with_log_prefix` (`Node::new_full`): the two controls handed in (the state's own, after `update_spec`) replace the old
    ones, each in its own field; tables, counters and allowlist are kept -/
theorem C08_fn_node_state_with_log_prefix (st : NodeState H VC S X P) (vc fvc : VC) (lp : String) :
    st.with_log_prefix vc fvc lp
      = { st with log_prefix := lp, velocity_control := vc, fee_velocity_control := fvc, last_summary := "" } := rfl

example : (NodeState.restore (PaymentHash := Nat) (ScriptBuf := Nat) (Xpub := Nat) (PublicKey := Nat) (fun _ => .ok []) (fun _ => .ok []) (fun _ => []) id
    [] [] [] 5 (10 : Nat) 20 7 [.Script 1]).map (fun st => (st.velocity_control, st.fee_velocity_control, st.dbid_high_water_mark))
    = .ok (10, 20, 7) := by rfl
example : (NodeState.restore (PaymentHash := Nat) (ScriptBuf := Nat) (Xpub := Nat) (PublicKey := Nat) (fun _ => .error .panic) (fun _ => .ok []) (fun _ => []) id
    [] [] [] 5 (10 : Nat) 20 7 []) = .error .panic := by rfl

end NodeStateCtor

/-! ## (round 10, b3) `Allowable::to_script` (`Gen.FnB3Allowable`, node.rs) -/

/-- only a `Script` entry of the allowlist is a destination script: an xpub or a Lightning payee entry is `Err(())`, never a
    script (an allowlisted payee key cannot be used as an on-chain destination through this conversion) -/
theorem C08_fn_allowable_to_script {S X P : Type} (a : Gen.FnB3Allowable.Allowable S X P) :
    a.to_script = match a with
      | .Script s => .ok s
      | .XPub _ => Rs.fail "()"
      | .Payee _ => Rs.fail "()" := by
  cases a <;> rfl

end VlsModel.Props.C08Fn
