import VlsModel.Lemmas.MutualClose
/-
C07 — Mutual close pays the holder its due to an owned or allowlisted destination.

Statement (properties.jsonl): the signer signs a cooperative close only if no HTLC is pending in either
current commitment, the fee is within the policy range, the side that does not pay the fee receives its
balance from both latest commitments within the configured epsilon, and any holder output goes to a
wallet-derivable or allowlisted script, which must be the upfront shutdown script if one was fixed.
The signature it returns is over the canonical closing transaction spending the channel's funding
outpoint, and afterwards the channel is marked closed.

Model: `VlsModel/Model/MutualClose.lean`.  Reference predicate `CloseOK` below (unbounded arithmetic).
The conjunct "the signature is over the canonical closing transaction on the funding outpoint" is proved
structurally (`C07_canonical_close`, `canonClose_wellformed`): both entry points sign `canonClose` of the
validated values on the channel's funding outpoint, whatever the caller supplied.  That LDK's
`ClosingTransaction::new` renders this structure to those bytes and the ECDSA signature itself are
*validated* on every accepted request by the harness (signature verified against a transaction built from
scratch, whose structured rendering is compared with `canonClose`).
-/
namespace VlsModel.Props.C07
open VlsModel VlsModel.Policy VlsModel.MutualClose
open VlsModel.Gen.Policy (Action Rule CType RawPolicy)

/-- `|x − y| ≤ eps` without subtraction -/
def Within (eps x y : Nat) : Prop := x ≤ y + eps ∧ y ≤ x + eps

/-- What C07 demands of a signed cooperative close with the reading `a` of its outputs. -/
def CloseOK (p : Policy) (s : Setup) (e : EState) (a : Args) : Prop :=
  ∃ h c, e.curHolderInfo = some h ∧ e.curCpInfo = some c ∧
    -- no HTLC pending in either current commitment
    (h.offered = [] ∧ h.received = [] ∧ c.offered = [] ∧ c.received = []) ∧
    -- fee = channel value − Σ outputs is non-negative and its rate on the closing weight is in range
    FeeInRange p s.channelValue (a.toHolder + a.toCounterparty) (closeWeight a) ∧
    -- the side that does not pay the fee gets its balance of BOTH latest commitments within ε
    (if s.isOutbound then Within p.epsilon a.toCounterparty c.toBroadcaster ∧ Within p.epsilon a.toCounterparty h.toCountersigner
     else Within p.epsilon a.toHolder h.toBroadcaster ∧ Within p.epsilon a.toHolder c.toCountersigner) ∧
    -- a holder output exists whenever the holder gets value, and goes to the wallet or the allowlist
    (0 < a.toHolder → a.holderScript.isSome) ∧
    (∀ o, a.holderScript = some o → o.canSpend = true ∨ o.allowlisted = true) ∧
    -- … and is the upfront shutdown script if one was fixed
    (∀ u, s.upfront = some u → 0 < a.toHolder → ∃ o, a.holderScript = some o ∧ o.sid = u)

def mutualTags : List Tag :=
  [.mutualDestinationAllowlisted, .mutualNoPendingHtlcs, .mutualFeeRange, .mutualValueMatches]

def NonPermissive (p : Policy) : Prop := ∀ t ∈ mutualTags, errs p t = true

theorem outsideEps_false {p : Policy} {x y : Nat} (h : outsideEps p x y = false) : Within p.epsilon x y := by
  unfold outsideEps at h
  unfold Within
  split at h
  · have := of_decide_eq_false h; omega
  · have := of_decide_eq_false h; omega

/-- core: `validate_mutual_close_tx` accepts only `CloseOK` requests -/
theorem validateMutualClose_ok (p : Policy) (s : Setup) (e : EState) (a : Args)
    (hf : NonPermissive p)
    (h : validateMutualClose p s e a = .ok ()) : CloseOK p s e a := by
  have e1 := hf .mutualDestinationAllowlisted (by simp [mutualTags])
  have e2 := hf .mutualNoPendingHtlcs (by simp [mutualTags])
  have e3 := hf .mutualFeeRange (by simp [mutualTags])
  have e4 := hf .mutualValueMatches (by simp [mutualTags])
  unfold validateMutualClose at h
  split at h
  · cases h
  · cases h
  · rename_i hinfo cinfo hh hc
    refine ⟨hinfo, cinfo, hh, hc, ?_⟩
    unfold validateMutualCloseWith at h
    obtain ⟨_, c1, h⟩ := bind_ok h
    obtain ⟨_, _, h⟩ := bind_ok h
    obtain ⟨_, c3, h⟩ := bind_ok h
    obtain ⟨_, c4, h⟩ := bind_ok h
    obtain ⟨_, _, h⟩ := bind_ok h
    obtain ⟨_, c6, h⟩ := bind_ok h
    obtain ⟨_, c7, c8⟩ := bind_ok h
    have c1 := check_ok c1 e1
    have c4 := check_ok c4 e2
    have hfee := validateFee_ok c6 e3 (closeWeight_pos a)
    refine ⟨?_, hfee, ?_, ?_, ?_, ?_⟩
    · simp at c4
      exact ⟨(htlcsEmpty_iff _ c4.1).1, (htlcsEmpty_iff _ c4.1).2, (htlcsEmpty_iff _ c4.2).1, (htlcsEmpty_iff _ c4.2).2⟩
    · unfold valueChecks at c7
      split at c7
      · rename_i ho
        obtain ⟨_, v1, v2⟩ := bind_ok c7
        simp only [ho, if_true]
        exact ⟨outsideEps_false (check_ok v1 e4), outsideEps_false (check_ok v2 e4)⟩
      · rename_i ho
        obtain ⟨_, v1, v2⟩ := bind_ok c7
        simp only [ho]
        exact ⟨outsideEps_false (check_ok v1 e4), outsideEps_false (check_ok v2 e4)⟩
    · intro hpos
      cases hs : a.holderScript with
      | some o => rfl
      | none => simp [hs, hpos] at c1
    · intro o ho
      unfold destCheck at c8
      rw [ho] at c8
      have := check_ok c8 e1
      cases hcs : o.canSpend <;> cases hal : o.allowlisted <;> simp [hcs, hal] at this ⊢
    · intro u hu hpos
      have c3' := whenE_ok c3 (by simp [hu, hpos])
      have := of_decide_eq_false (check_ok c3' e1)
      rw [hu] at this
      cases hs : a.holderScript with
      | none => simp [hs] at this
      | some o =>
        refine ⟨o, rfl, ?_⟩
        simp [hs] at this
        exact this

/-- **C07 (main), phase 2**: `sign_mutual_close_tx_phase2` returns a signature only for a `CloseOK`
    request (filter keeps the `policy-mutual-*` tags errors).  Full strength for the modelled conjuncts:
    since fix 3751e9c the fee conjunct needs no side condition on `max_feerate_per_kw`. -/
theorem C07_main (p : Policy) (s : Setup) (e e' : EState) (fo : Nat) (a : Args) (tx : ClosingTx)
    (hf : NonPermissive p)
    (h : signClose2 p s e fo a = .ok (e', tx)) : CloseOK p s e a := by
  unfold signClose2 at h
  obtain ⟨_, h1, _⟩ := bind_ok h
  exact validateMutualClose_ok p s e a hf h1

/-- The destination conjunct for the upfront case, spelled out: a fixed upfront shutdown script does not
    exempt the holder output from the wallet / allowlist test **at signing time** (`o.canSpend`,
    `o.allowlisted` are the wallet's answers when the close is requested, e.g. after the script was removed
    from the allowlist).  A model that skipped the test for the upfront script could not prove this. -/
theorem C07_upfront_checked_at_signing (p : Policy) (s : Setup) (e e' : EState) (fo : Nat) (a : Args) (tx : ClosingTx)
    (u : Nat) (hf : NonPermissive p) (hu : s.upfront = some u) (hpos : 0 < a.toHolder)
    (h : signClose2 p s e fo a = .ok (e', tx)) :
    ∃ o, a.holderScript = some o ∧ o.sid = u ∧ (o.canSpend = true ∨ o.allowlisted = true) := by
  obtain ⟨_, _, _, _, _, _, _, _, hdest, hup⟩ := C07_main p s e e' fo a tx hf h
  obtain ⟨o, ho, hsid⟩ := hup u hu hpos
  exact ⟨o, ho, hsid, hdest o ho⟩

/-- **C07 (both entry points)**: whatever phase 1 (`decode_and_validate_mutual_close_tx`) accepts, phase 2
    (`validate_mutual_close_tx`) accepts for the chosen assignment. -/
theorem C07_both_entry (p : Policy) (s : Setup) (e : EState) (fo : Nat) (tx : SuppliedTx) (a : Args)
    (h : decodeAndValidate p s e fo tx = .ok a) : validateMutualClose p s e a = .ok () := by
  unfold decodeAndValidate at h
  obtain ⟨_, _, h⟩ := bind_ok h
  obtain ⟨_, _, h⟩ := bind_ok h
  obtain ⟨_, _, h⟩ := bind_ok h
  obtain ⟨g, hg, h⟩ := bind_ok h
  obtain ⟨_, _, h⟩ := bind_ok h
  cases h
  exact (chooseAssignment_ok p s e tx.outs _ hg).1

/-- **C07 (main), phase 1**: `sign_mutual_close_tx` returns a signature only if one of the two
    readings of the outputs is `CloseOK`, at most two outputs were given, and (filter keeping
    `policy-onchain-format-standard` an error) the transaction handed over *is* the recomposed canonical
    closing transaction of the validated values. -/
theorem C07_main_phase1 (p : Policy) (s : Setup) (e e' : EState) (fo : Nat) (tx : SuppliedTx) (np : Nat)
    (a : Args) (signed : ClosingTx)
    (hf : NonPermissive p) (hfmt : errs p .onchainFormatStandard = true)
    (h : signClose1 p s e fo tx np = .ok (e', a, signed)) :
    CloseOK p s e a ∧ tx.outs.length ≤ 2 ∧ tx.render = canonClose fo a ∧
      ∃ l u, candidates p e tx.outs = some (l, u) ∧ (a = l ∨ a = u) := by
  unfold signClose1 at h
  obtain ⟨_, _, h⟩ := bind_ok h
  obtain ⟨a', hd, h⟩ := bind_ok h
  cases h
  have hv := C07_both_entry p s e fo tx a hd
  unfold decodeAndValidate at hd
  obtain ⟨_, f1, hd⟩ := bind_ok hd
  obtain ⟨_, _, hd⟩ := bind_ok hd
  obtain ⟨_, _, hd⟩ := bind_ok hd
  obtain ⟨g, hg, hd⟩ := bind_ok hd
  obtain ⟨_, f2, hd⟩ := bind_ok hd
  cases hd
  have f1 := of_decide_eq_false (hard_ok f1)
  have f2 := of_decide_eq_false (check_ok f2 hfmt)
  refine ⟨validateMutualClose_ok p s e a hf hv, by omega, Classical.not_not.mp f2, (chooseAssignment_ok p s e tx.outs a hg).2⟩

/-! ### the signed transaction -/

/-- outputs of a transaction are in LDK's canonical order -/
def SortedO : List TxO → Prop
  | [] => True
  | [_] => True
  | x :: y :: rest => txoLe x y = true ∧ SortedO (y :: rest)

theorem txoLe_total (x y : TxO) : txoLe x y = true ∨ txoLe y x = true := by
  unfold txoLe
  by_cases h1 : x.value < y.value
  · simp [h1]
  · by_cases h2 : y.value < x.value
    · simp [h2]
    · have : x.value = y.value := by omega
      by_cases h3 : x.rank ≤ y.rank
      · simp [this, h3]
      · have : y.rank ≤ x.rank := by omega
        simp [*]

/-- the canonical closing transaction is well formed: version 2, lock time 0, final sequence, spends the
    given outpoint, at most two outputs, none of value zero ("dust-free" in LDK's sense), sorted by value
    then script, and the outputs carry exactly the validated values -/
theorem canonClose_wellformed (fo : Nat) (a : Args) :
    let t := canonClose fo a
    t.version = 2 ∧ t.locktime = 0 ∧ t.sequence = 4294967295 ∧ t.outpoint = fo ∧
    t.outputs.length ≤ 2 ∧ (∀ o ∈ t.outputs, 0 < o.value) ∧ SortedO t.outputs ∧
    (t.outputs.map (·.value)).sum = a.toHolder + a.toCounterparty := by
  intro t
  refine ⟨rfl, rfl, rfl, rfl, ?_⟩
  show (canonOutputs a).length ≤ 2 ∧ (∀ o ∈ canonOutputs a, 0 < o.value) ∧ SortedO (canonOutputs a) ∧
    ((canonOutputs a).map (·.value)).sum = a.toHolder + a.toCounterparty
  simp only [canonOutputs]
  by_cases hc : a.toCounterparty > 0 <;> by_cases hh : a.toHolder > 0
  · simp only [hc, hh, if_true, List.singleton_append, sortO, List.foldr, insertO]
    have hcv : (txoOf a.toCounterparty a.cpScript).value = a.toCounterparty := by unfold txoOf; split <;> rfl
    have hhv : (txoOf a.toHolder a.holderScript).value = a.toHolder := by unfold txoOf; split <;> rfl
    split
    · rename_i hle
      refine ⟨by simp, ?_, ⟨hle, trivial⟩, by simp [hcv, hhv]; omega⟩
      intro o ho; simp at ho; rcases ho with rfl | rfl <;> omega
    · rename_i hle
      have := txoLe_total (txoOf a.toCounterparty a.cpScript) (txoOf a.toHolder a.holderScript)
      refine ⟨by simp, ?_, ⟨by simpa [hle] using this, trivial⟩, by simp [hcv, hhv]⟩
      intro o ho; simp at ho; rcases ho with rfl | rfl <;> omega
  · have hh0 : a.toHolder = 0 := by omega
    have hcv : (txoOf a.toCounterparty a.cpScript).value = a.toCounterparty := by unfold txoOf; split <;> rfl
    simp only [hc, hh, if_true, if_false, List.append_nil, sortO, List.foldr, insertO]
    refine ⟨by simp, ?_, trivial, by simp [hcv, hh0]⟩
    intro o ho; simp at ho; subst ho; omega
  · have hc0 : a.toCounterparty = 0 := by omega
    have hhv : (txoOf a.toHolder a.holderScript).value = a.toHolder := by unfold txoOf; split <;> rfl
    simp only [hc, hh, if_true, if_false, List.nil_append, sortO, List.foldr, insertO]
    refine ⟨by simp, ?_, trivial, by simp [hhv, hc0]⟩
    intro o ho; simp at ho; subst ho; omega
  · have hh0 : a.toHolder = 0 := by omega
    have hc0 : a.toCounterparty = 0 := by omega
    simp [sortO, SortedO, hh0, hc0]

/-- **C07 (canonical close)**: whatever transaction the caller supplied, what phase 1 signs is
    `canonClose(funding outpoint, to_holder, to_cp, holder_script, cp_script)` of the values it validated
    (and, the format tag being an error, the supplied transaction was that very transaction); phase 2 signs
    the same `canonClose` of the values it was given; hence both entry points sign the same transaction for
    the same values. -/
theorem C07_canonical_close (p : Policy) (s : Setup) (e : EState) (fo : Nat) :
    (∀ tx np e1 a signed, signClose1 p s e fo tx np = .ok (e1, a, signed) →
        signed = canonClose fo a ∧ (errs p .onchainFormatStandard = true → tx.render = signed)) ∧
    (∀ a e2 signed, signClose2 p s e fo a = .ok (e2, signed) → signed = canonClose fo a) ∧
    (∀ tx np e1 a s1 e2 s2, signClose1 p s e fo tx np = .ok (e1, a, s1) →
        signClose2 p s e fo a = .ok (e2, s2) → s1 = s2 ∧ e1 = e2) := by
  have k1 : ∀ tx np e1 a signed, signClose1 p s e fo tx np = .ok (e1, a, signed) →
      signed = canonClose fo a ∧ e1 = { e with closed := true } ∧
      (errs p .onchainFormatStandard = true → tx.render = signed) := by
    intro tx np e1 a signed h
    unfold signClose1 at h
    obtain ⟨_, _, h⟩ := bind_ok h
    obtain ⟨a', hd, h⟩ := bind_ok h
    cases h
    refine ⟨rfl, rfl, ?_⟩
    intro hfmt
    unfold decodeAndValidate at hd
    obtain ⟨_, _, hd⟩ := bind_ok hd
    obtain ⟨_, _, hd⟩ := bind_ok hd
    obtain ⟨_, _, hd⟩ := bind_ok hd
    obtain ⟨g, _, hd⟩ := bind_ok hd
    obtain ⟨_, f2, hd⟩ := bind_ok hd
    cases hd
    exact Classical.not_not.mp (of_decide_eq_false (check_ok f2 hfmt))
  have k2 : ∀ a e2 signed, signClose2 p s e fo a = .ok (e2, signed) →
      signed = canonClose fo a ∧ e2 = { e with closed := true } := by
    intro a e2 signed h
    unfold signClose2 at h
    obtain ⟨_, _, h⟩ := bind_ok h
    cases h
    exact ⟨rfl, rfl⟩
  refine ⟨fun tx np e1 a signed h => ⟨(k1 tx np e1 a signed h).1, (k1 tx np e1 a signed h).2.2⟩,
          fun a e2 signed h => (k2 a e2 signed h).1, ?_⟩
  intro tx np e1 a s1 e2 s2 h1 h2
  obtain ⟨r1, r2, _⟩ := k1 tx np e1 a s1 h1
  obtain ⟨r3, r4⟩ := k2 a e2 s2 h2
  exact ⟨by rw [r1, r3], by rw [r2, r4]⟩

/-- **C07 (closed)**: after either entry point returned a signature the channel is marked closed (and
    nothing else of the enforcement state changed). -/
theorem C07_closed (p : Policy) (s : Setup) (e e' : EState) (fo : Nat) :
    (∀ a tx, signClose2 p s e fo a = .ok (e', tx) → e' = { e with closed := true }) ∧
    (∀ tx np a signed, signClose1 p s e fo tx np = .ok (e', a, signed) → e' = { e with closed := true }) := by
  constructor
  · intro a tx h
    unfold signClose2 at h
    obtain ⟨_, _, h⟩ := bind_ok h
    cases h; rfl
  · intro tx np a signed h
    unfold signClose1 at h
    obtain ⟨_, _, h⟩ := bind_ok h
    obtain ⟨_, _, h⟩ := bind_ok h
    cases h; rfl

/-- consequence used by C02/C05: once closed, no *new* holder commitment is accepted any more -/
theorem C07_closed_blocks_new_commitment (p : Policy) (s : Setup) (c : ChainState) (e : EState) (i : Info)
    (hc : e.closed = true) (hf : errs p .spendsActiveUtxo = true) :
    validateHolder p s c e e.nextHolder i ≠ .ok () := by
  intro h
  unfold validateHolder at h
  obtain ⟨_, _, h⟩ := bind_ok h
  obtain ⟨_, _, h⟩ := bind_ok h
  obtain ⟨_, _, h⟩ := bind_ok h
  obtain ⟨_, _, h⟩ := bind_ok h
  obtain ⟨_, _, h⟩ := bind_ok h
  obtain ⟨_, _, h⟩ := bind_ok h
  have := of_decide_eq_false (check_ok h hf)
  exact this ⟨rfl, hc⟩

/-- The former counterexample (finding S1, fixed by 3751e9c): with `max_feerate_per_kw = u32::MAX` a
    funder holding 50 BTC asks for a close that pays nobody anything (the whole value is fee). -/
def sentinelPolicy : Policy :=
  { Gen.Policy.defaultTestnet with maxFeerate := U32.MAX, maxChannelSize := 10000000000, onchain := false }
def sentinelSetup : Setup := ⟨true, 5000000000, 0, 6, 7, .staticRemoteKey, none, false, false⟩
def sentinelState : EState :=
  { EState.init with curHolderInfo := some ⟨false, 0, 0, [], [], 0⟩, curCpInfo := some ⟨true, 0, 0, [], [], 0⟩,
                     nextHolder := 1, nextCp := 1 }

/-- … it is now refused with the fee-range class. -/
theorem C07_sentinel_refused :
    signClose2 sentinelPolicy sentinelSetup sentinelState 1 ⟨0, 0, none, none⟩ = .error .fee := by
  rfl

/-! ### hypotheses satisfiable, theorems not vacuous -/

def testnetPolicy : Policy := { Gen.Policy.defaultTestnet with onchain := false }
def mainnetPolicy : Policy := { Gen.Policy.defaultMainnet with onchain := false }

/-! #### the filter hypothesis, discharged for the generated default policies (see Props/C05 for the idea) -/

/-- the tags the model relies on are exactly the `policy_err!` tags of `validate_mutual_close_tx` /
    `decode_and_validate_mutual_close_tx` in the source -/
theorem C07_gen_tags_covered :
    (∀ s ∈ Gen.Policy.mutualPathTags, s ∈ mutualTags.map Tag.name) ∧
    (∀ t ∈ mutualTags, t.name ∈ Gen.Policy.mutualPathTags) ∧
    Gen.Policy.mutualPhase1PathTags = [Tag.mutualOther.name, Tag.onchainFormatStandard.name] := by
  decide +kernel

/-- **the default filter of both networks is strict** on every tag of the mutual-close paths -/
theorem C07_default_filter_strict :
    ∀ s ∈ Gen.Policy.mutualPathTags ++ Gen.Policy.mutualPhase1PathTags,
      filterEval Gen.Policy.defaultMainnet.filter s = .error ∧ filterEval Gen.Policy.defaultTestnet.filter s = .error := by
  decide +kernel

/-- hence the hypotheses of `C07_main` / `C07_main_phase1` hold for the generated default policies -/
theorem C07_default_nonpermissive :
    (NonPermissive testnetPolicy ∧ errs testnetPolicy .onchainFormatStandard = true) ∧
    (NonPermissive mainnetPolicy ∧ errs mainnetPolicy .onchainFormatStandard = true) := by
  have key : ∀ t : Tag, t.name ∈ Gen.Policy.mutualPathTags ++ Gen.Policy.mutualPhase1PathTags →
      errs testnetPolicy t = true ∧ errs mainnetPolicy t = true := by
    intro t ht
    obtain ⟨h1, h2⟩ := C07_default_filter_strict t.name ht
    constructor
    · show (filterEval Gen.Policy.defaultTestnet.filter t.name == .error) = true
      rw [h2]; rfl
    · show (filterEval Gen.Policy.defaultMainnet.filter t.name == .error) = true
      rw [h1]; rfl
  have hm : ∀ t ∈ mutualTags, t.name ∈ Gen.Policy.mutualPathTags ++ Gen.Policy.mutualPhase1PathTags := by
    intro t ht
    exact List.mem_append.mpr (Or.inl (C07_gen_tags_covered.2.1 t ht))
  have hfmt : Tag.onchainFormatStandard.name ∈ Gen.Policy.mutualPathTags ++ Gen.Policy.mutualPhase1PathTags := by
    decide +kernel
  exact ⟨⟨fun t ht => (key t (hm t ht)).1, (key _ hfmt).1⟩, ⟨fun t ht => (key t (hm t ht)).2, (key _ hfmt).2⟩⟩


def exSetup : Setup := ⟨true, 3000000, 0, 6, 7, .staticRemoteKey, none, false, false⟩
def exState : EState :=
  { EState.init with curHolderInfo := some ⟨false, 1999000, 1000000, [], [], 0⟩,
                     curCpInfo := some ⟨true, 1000000, 1999000, [], [], 0⟩, nextHolder := 2, nextCp := 2, nextRevoke := 1 }
def exHolderOut : Out := ⟨1998000, 3, 22, 5, true, false⟩
def exCpOut : Out := ⟨1000000, 20, 22, 9, false, false⟩
def exTx : ClosingTx := ⟨2, 0, 4294967295, 1, [⟨1000000, 20, 9⟩, ⟨1998000, 3, 5⟩]⟩

/-- a non-trivial signed close through phase 2 … -/
example : signClose2 testnetPolicy exSetup exState 1 ⟨1998000, 1000000, some exHolderOut, some exCpOut⟩
    = .ok ({ exState with closed := true }, exTx) := by rfl
/-- … and through phase 1 (outputs in canonical order: counterparty first), same reading chosen, same
    transaction signed -/
example : signClose1 testnetPolicy exSetup exState 1 ⟨2, 0, 4294967295, 1, [exCpOut, exHolderOut]⟩ 2
    = .ok ({ exState with closed := true }, ⟨1998000, 1000000, some exHolderOut, some exCpOut⟩, exTx) := by rfl
/-- the same outputs in the other order, a non-zero lock time, or another outpoint: refused (format) -/
example : signClose1 testnetPolicy exSetup exState 1 ⟨2, 0, 4294967295, 1, [exHolderOut, exCpOut]⟩ 2 = .error .format := by rfl
example : signClose1 testnetPolicy exSetup exState 1 ⟨2, 1, 4294967295, 1, [exCpOut, exHolderOut]⟩ 2 = .error .format := by rfl
example : signClose1 testnetPolicy exSetup exState 1 ⟨2, 0, 4294967295, 7, [exCpOut, exHolderOut]⟩ 2 = .error .format := by rfl
/-- the same close to a script that is neither wallet nor allowlisted is refused -/
example : signClose2 testnetPolicy exSetup exState 1 ⟨1998000, 1000000, some { exHolderOut with canSpend := false }, some exCpOut⟩
    = .error .dest := by rfl
/-- paying the counterparty ε+1 more than its balance is refused -/
example : signClose2 testnetPolicy exSetup exState 1 ⟨1987999, 1010001, some exHolderOut, some { exCpOut with value := 1010001 }⟩
    = .error .value := by rfl

end VlsModel.Props.C07
