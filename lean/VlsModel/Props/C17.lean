import VlsModel.Lemmas.Hmac
/-
C17 — Externally stored state is authenticated against tampering, swapping and replay.

Statement (properties.jsonl): a value fetched from external storage is accepted only if its content,
key and version are exactly those the signer wrote, and a response to a read is accepted only if it
authenticates under the fresh nonce of that request.  Two different sets of key-version-value records
never authenticate under the same tag.

Model: `VlsModel/Model/Hmac.lean` — the exact byte strings fed to HMAC-SHA256 by
`compute_shared_hmac` / `ExternalPersistHelper` (vls-core) and by `compute_hmac` of the
lightning-storage-server client library.  The MAC is a parameter; every theorem that needs it carries the
explicit hypothesis `MacInj mac secret` (the MAC is injective on the messages considered) and, where the
tag is cut off a stored value, `TagLen mac` (tags have 32 bytes).  Neither is an axiom, and neither holds
literally for HMAC-SHA256 (it is a computational assumption): the theorems say that *any* failure of
the property beyond the ones exhibited here would have to be a MAC collision.

The last conjunct of the statement is FALSE for the code as it is (finding F10): the inputs are
unframed concatenations.  `C17_full` states it, `C17_full_false` / `C17_value_full_false` refute it by
concrete witnesses, `C17_partial*` prove what does hold.
-/
namespace VlsModel.Props.C17
open VlsModel VlsModel.Hmac
open VlsModel.Sha256 (Bytes)

/-- explicit hypothesis: under key `secret` the MAC has no collisions -/
def MacInj (mac : Mac) (secret : Bytes) : Prop := ∀ m m', mac secret m = mac secret m' → m = m'

/-- explicit hypothesis: tags have 32 bytes -/
def TagLen (mac : Mac) : Prop := ∀ k m, (mac k m).length = 32

abbrev U64 (n : Nat) : Prop := n < 18446744073709551616

/-- the shape of a record list: the lengths of all keys and values -/
def shape (rs : List KVRec) : List (Nat × Nat) := rs.map (fun r => (r.key.length, r.val.length))

/-! ### the nonce -/

/-- A tag computed under nonce `n'` authenticates under a nonce `n` of the same length (all nonces
    handed out by `new_nonce` have 32 bytes) only if `n' = n`; and then the record bytes agree. -/
theorem C17_nonce (mac : Mac) (s n n' : Bytes) (rs rs' : List KVRec) (hinj : MacInj mac s)
    (hlen : n.length = n'.length) (h : sharedTag mac s n rs = sharedTag mac s n' rs') :
    n = n' ∧ encRecs rs = encRecs rs' := by
  have h1 := hinj _ _ h
  simp only [encShared, List.append_assoc] at h1
  have h2 := List.append_cancel_left h1
  exact List.append_inj h2 hlen

/-- `check_hmac` accepts a tag made for another request only under that request's own nonce:
    a replayed response (tag made under an older 32-byte nonce) is refused. -/
theorem C17_nonce_check (mac : Mac) (h : Helper) (n' : Bytes) (rs rs' : List KVRec)
    (hinj : MacInj mac h.secret) (hlen : h.lastNonce.length = n'.length)
    (hacc : h.checkHmac mac rs (sharedTag mac h.secret n' rs') = true) :
    n' = h.lastNonce ∧ encRecs rs' = encRecs rs := by
  simp only [Helper.checkHmac, accept, beq_iff_eq] at hacc
  have := C17_nonce mac h.secret n' h.lastNonce rs' rs hinj hlen.symm hacc
  exact this

/-! ### acceptance is exact -/

/-- the acceptance test is equality of byte lists: in particular the lengths agree -/
theorem accept_iff (received expected : Bytes) : accept received expected = true ↔ received = expected := by
  simp [accept]

/-- a received tag of any other length (empty, truncated, extended) is refused, whatever its bytes -/
theorem accept_length (received expected : Bytes) (h : received.length ≠ expected.length) :
    accept received expected = false := by
  cases hacc : accept received expected with
  | false => rfl
  | true => rw [accept_iff] at hacc; subst hacc; exact absurd rfl h

/-- **C17_accept_exact**: `check_hmac` accepts a received tag only if it is, byte for byte and in full
    length, the MAC of exactly the presented records under the helper's secret and *current* nonce (no
    hypothesis on the MAC).  With `MacInj` and `C17_nonce_check`: a tag made for another request, another
    nonce or other record bytes is refused. -/
theorem C17_accept_exact (mac : Mac) (h : Helper) (rs : List KVRec) (received : Bytes) :
    h.checkHmac mac rs received = true ↔ received = mac h.secret (encShared h.secret h.lastNonce rs) := by
  simp [Helper.checkHmac, accept, sharedTag]

/-- in particular nothing shorter or longer than the expected tag authenticates a reply — the empty tag
    included -/
theorem C17_accept_no_truncation (mac : Mac) (h : Helper) (rs : List KVRec) (received : Bytes)
    (hlen : received.length ≠ (mac h.secret (encShared h.secret h.lastNonce rs)).length) :
    h.checkHmac mac rs received = false := by
  simp only [Helper.checkHmac, sharedTag]
  exact accept_length _ _ hlen

/-- **C17_value_accept_exact**: `remove_and_check_hmac` accepts a stored value only if it is exactly
    `content ‖ MAC(secret, key ‖ be64 version ‖ content)` for the content it returns — the last 32 bytes are
    compared in full with the tag of the bytes before them. -/
theorem C17_value_accept_exact (mac : Mac) (s k stored x : Bytes) (v : Nat)
    (h : processValue mac s k v stored = some x) :
    stored = x ++ mac s (encValue k v x) ∧ 32 ≤ stored.length := by
  unfold processValue at h
  split at h
  · cases h
  · rename_i hlen
    simp only [] at h
    split at h
    · rename_i hacc
      cases h
      rw [accept_iff] at hacc
      refine ⟨?_, by omega⟩
      simp only [valueTag] at hacc
      rw [← hacc, List.take_append_drop]
    · cases h

/-! ### the stateful helper: a recorded reply is refused for a later request -/

/-- the nonce handed out for a request is the entropy source's output for *that* call; the helper's
    previous state does not enter -/
theorem C17_nonce_fresh (h : Helper) (e : Bytes) :
    (h.newNonce e).issued = e ∧ (h.newNonce e).lastNonce = e ∧ (h.newNonce e).secret = h.secret :=
  ⟨rfl, rfl, rfl⟩

/-- two consecutive requests whose entropy outputs differ get different nonces -/
theorem C17_nonce_not_reused (h : Helper) (e1 e2 : Bytes) (hne : e1 ≠ e2) :
    (h.newNonce e1).issued ≠ ((h.newNonce e1).newNonce e2).issued := hne

/-- **C17_replay_refused**: let a long-lived helper issue nonce `e1` for a first read and record any reply
    `(rs1, tag)` that authenticated for it; after the helper has advanced to a second read whose entropy
    output `e2` differs from `e1` (nonces of equal length — all have 32 bytes), the recorded tag is refused,
    whatever records it is presented with.  Under `MacInj`. -/
theorem C17_replay_refused (mac : Mac) (h : Helper) (e1 e2 : Bytes) (rs1 rs2 : List KVRec) (tag : Bytes)
    (hinj : MacInj mac h.secret) (hlen : e1.length = e2.length) (hne : e2 ≠ e1)
    (hacc1 : (h.newNonce e1).checkHmac mac rs1 tag = true) :
    ((h.newNonce e1).newNonce e2).checkHmac mac rs2 tag = false := by
  cases hacc2 : ((h.newNonce e1).newNonce e2).checkHmac mac rs2 tag with
  | false => rfl
  | true =>
    rw [C17_accept_exact] at hacc1 hacc2
    simp only [Helper.newNonce] at hacc1 hacc2
    have := C17_nonce mac h.secret e1 e2 rs1 rs2 hinj hlen (by simp only [sharedTag]; rw [← hacc1, ← hacc2])
    exact absurd this.1.symm hne

/-- the same along the state machine: whatever requests run in between, as long as the current nonce
    differs from (and is as long as) the one a recorded reply was made under, `check` refuses it -/
theorem C17_replay_refused_step (mac : Mac) (h : Helper) (n1 : Bytes) (rs1 rs2 : List KVRec)
    (hinj : MacInj mac h.secret) (hlen : n1.length = h.lastNonce.length) (hne : h.lastNonce ≠ n1) :
    (h.step mac (.check rs2 (sharedTag mac h.secret n1 rs1))).2 = .verdict false := by
  simp only [Helper.step]
  cases hacc : h.checkHmac mac rs2 (sharedTag mac h.secret n1 rs1) with
  | false => rfl
  | true =>
    have := C17_nonce_check mac h n1 rs2 rs1 hinj hlen.symm hacc
    exact absurd this.1.symm hne

/-- client and server tags over anything never coincide (domain bytes 0x01 / 0x02) -/
theorem C17_client_server_distinct (mac : Mac) (h : Helper) (rs rs' : List KVRec)
    (hinj : MacInj mac h.secret) : h.clientHmac mac rs ≠ h.serverHmac mac rs' := by
  intro heq
  have h1 := hinj _ _ heq
  simp only [encShared, List.append_assoc, clientNonce, serverNonce] at h1
  have h2 := List.append_cancel_left h1
  simp at h2

/-! ### same-shape modifications (covers every single-bit flip, key swap, version swap) -/

/-- stored value: any change of key, version or content that keeps the key length changes the MAC input -/
theorem C17_value_same_shape (k k' x x' : Bytes) (v v' : Nat) (hk : k.length = k'.length)
    (hv : U64 v) (hv' : U64 v') (h : encValue k v x = encValue k' v' x') :
    k = k' ∧ v = v' ∧ x = x' :=
  enc3_inj hk hv hv' h

/-- hence, reading back what `prepare_value_for_put` wrote under a key of the same length and any
    version succeeds only for exactly the key and version written, and returns the content written -/
theorem C17_value_accept (mac : Mac) (s k k' x x' : Bytes) (v v' : Nat) (hinj : MacInj mac s)
    (htag : TagLen mac) (hk : k.length = k'.length) (hv : U64 v) (hv' : U64 v')
    (h : processValue mac s k' v' (prepareValue mac s k v x) = some x') :
    k' = k ∧ v' = v ∧ x' = x := by
  unfold processValue prepareValue at h
  have hl : (valueTag mac s k v x).length = 32 := htag _ _
  split at h
  · cases h
  · simp only [List.length_append, hl, Nat.add_sub_cancel, List.take_left', List.drop_left'] at h
    split at h
    · rename_i heq
      cases h
      rw [accept_iff] at heq
      have := hinj _ _ heq.symm
      have := enc3_inj hk.symm hv' hv this
      exact this
    · cases h

/-- mutation lists: two lists of the same shape with the same MAC input are equal -/
theorem C17_partial (rs rs' : List KVRec) (hs : shape rs = shape rs')
    (hv : ∀ r ∈ rs, U64 r.ver) (hv' : ∀ r ∈ rs', U64 r.ver) (h : encRecs rs = encRecs rs') :
    rs = rs' := by
  induction rs generalizing rs' with
  | nil => cases rs' with
    | nil => rfl
    | cons r' rs' => simp [shape] at hs
  | cons r rs ih => cases rs' with
    | nil => simp [shape] at hs
    | cons r' rs' =>
      simp only [shape, List.map_cons, List.cons.injEq, Prod.mk.injEq] at hs
      obtain ⟨⟨hk, hx⟩, hs⟩ := hs
      simp only [encRecs, encRec] at h
      have hlen : (r.key ++ be64 r.ver ++ r.val).length = (r'.key ++ be64 r'.ver ++ r'.val).length := by
        simp [be64_length, hk, hx]
      obtain ⟨h1, h2⟩ := List.append_inj h hlen
      obtain ⟨e1, e2, e3⟩ := enc3_inj hk (hv r (by simp)) (hv' r' (by simp)) h1
      have := ih rs' hs (fun q hq => hv q (by simp [hq])) (fun q hq => hv' q (by simp [hq])) h2
      subst this
      cases r; cases r'; simp_all

/-- whole shared tag, same nonce length, same shape ⇒ same nonce and same records -/
theorem C17_partial_shared (mac : Mac) (s n n' : Bytes) (rs rs' : List KVRec) (hinj : MacInj mac s)
    (hlen : n.length = n'.length) (hs : shape rs = shape rs')
    (hv : ∀ r ∈ rs, U64 r.ver) (hv' : ∀ r ∈ rs', U64 r.ver)
    (h : sharedTag mac s n rs = sharedTag mac s n' rs') : n = n' ∧ rs = rs' := by
  obtain ⟨h1, h2⟩ := C17_nonce mac s n n' rs rs' hinj hlen h
  exact ⟨h1, C17_partial rs rs' hs hv hv' h2⟩

/-! ### the full statement and its refutation (finding F10) -/

/-- "Two different sets of key-version-value records never authenticate under the same tag":
    on the MAC-input level, the encoding of record lists is injective. -/
def C17_full : Prop :=
  ∀ rs rs' : List KVRec, (∀ r ∈ rs, U64 r.ver) → (∀ r ∈ rs', U64 r.ver) →
    encRecs rs = encRecs rs' → rs = rs'

/-- the same for a single stored value -/
def C17_value_full : Prop :=
  ∀ (k k' x x' : Bytes) (v v' : Nat), U64 v → U64 v' →
    encValue k v x = encValue k' v' x' → (k, v, x) = (k', v', x')

/-- DESIGN §3 C17 / notes/recon/exp_kv.rs: `[("k1",1,"v1"),("k2",2,"v2")]` -/
def witA : List KVRec := [⟨[0x6b, 0x31], 1, [0x76, 0x31]⟩, ⟨[0x6b, 0x32], 2, [0x76, 0x32]⟩]
/-- record merge: `[("k1",1,"v1" ‖ "k2" ‖ be64(2) ‖ "v2")]` -/
def witB : List KVRec := [⟨[0x6b, 0x31], 1, [0x76, 0x31, 0x6b, 0x32, 0, 0, 0, 0, 0, 0, 0, 2, 0x76, 0x32]⟩]

theorem wit_same_input : encRecs witA = encRecs witB := by decide
theorem wit_distinct : witA ≠ witB := by decide

/-- every MAC gives the two different record sets the same tag, under every secret and nonce -/
theorem C17_collision (mac : Mac) (s n : Bytes) : sharedTag mac s n witA = sharedTag mac s n witB := by
  simp only [sharedTag, encShared, wit_same_input]

theorem C17_full_false : ¬ C17_full := by
  intro h
  exact wit_distinct (h witA witB (by decide) (by decide) wit_same_input)

/-- field shift inside one stored value: ("k1", 1, "v1") and ("k", 0x31000000_00000000, 0x01 ‖ "v1") -/
theorem C17_value_full_false : ¬ C17_value_full := by
  intro h
  have := h [0x6b, 0x31] [0x6b] [0x76, 0x31] [0x01, 0x76, 0x31] 1 3530822107858468864
    (by decide) (by decide) (by decide)
  exact absurd this (by decide)

/-- and a boundary shift between two records of a list (value byte ↔ next key) -/
theorem C17_shift_collision :
    encRecs [⟨[0x61], 0, [0x62, 0x63]⟩, ⟨[0x64], 0, []⟩] = encRecs [⟨[0x61], 0, [0x62]⟩, ⟨[0x63, 0x64], 0, []⟩] := by
  decide

/-! ### non-vacuity -/

/-- the hypotheses of `C17_partial` are satisfiable by distinct non-trivial lists (and then the
    conclusion says their inputs differ) -/
example : shape witA = shape [⟨[0x6b, 0x32], 7, [0x00, 0x31]⟩, ⟨[0x6b, 0x31], 2, [0x76, 0x33]⟩] := by decide

/-- `MacInj`/`TagLen` are satisfiable together on a class of messages only computationally; the
    theorems use `MacInj` alone wherever possible.  `MacInj` itself is satisfiable: -/
example : MacInj (fun _ m => m) [] := fun _ _ h => h

/-- the acceptance path of `C17_value_accept` is reachable: a stored value is read back -/
example : processValue (fun _ _ => List.replicate 32 0) [1] [0x6b] 5 (prepareValue (fun _ _ => List.replicate 32 0) [1] [0x6b] 5 [9, 9]) = some [9, 9] := by
  decide

end VlsModel.Props.C17
