import VlsModel.Model.Hmac
import VlsModel.Gen.HmacFn
import VlsModel.Gen.FnPersistMod
import VlsModel.Gen.FnPersistMut
import VlsModel.Gen.FnPersistDflt
import VlsModel.Gen.FnLssFrontErr
import VlsModel.Gen.FnHmacRs
import VlsModel.Gen.FnLssUtil
import VlsModel.Gen.FnLssFront
import VlsModel.Gen.FnVlsdStore
import VlsModel.Gen.FnPersistDummy
import VlsModel.Lemmas.FnGen
/-
C17 — the hand-written HMAC-input model (`Model/Hmac.lean`: `encRec`, `encShared`, `sharedTag`, `valueTag`, `Helper`,
`prepareValue`, `processValue`) tied to the function bodies that `translate/x_hmac.py` regenerates from the current
source on every run (`Gen/HmacFn.lean`):

* `vls-core/src/persist/mod.rs`: `add_to_hmac`, `compute_shared_hmac`, `ExternalPersistHelper::{new, new_nonce,
  client_hmac, server_hmac, check_hmac}` (namespace `Core`);
* `lightning-storage-server/lib/src/util.rs`: `add_to_hmac`, `compute_hmac`, `compute_shared_hmac`,
  `append_hmac_to_value`, `remove_and_check_hmac`, `prepare_value_for_put`, `process_value_from_get` (namespace `Lss`);
* `lightning-storage-server/lib/src/client/driver.rs`: `remove_and_check_hmacs` (namespace `LssDrv`).

The MAC is the same parameter `mac` on both sides; the ChaCha20 layer `crypt_value` is an explicit parameter of the
generated definitions (not modelled).  LSS versions are `i64`: the model's `Nat` version is the `u64` with the same
bit pattern (`Rs.utruncI Rs.U64_MAX v`, equal to `v` itself for `0 ≤ v`).
-/
namespace VlsModel.Props.C17Fn
open VlsModel VlsModel.Hmac
open VlsModel.Gen.HmacFn

/-- byte strings (`Sha256.Bytes` of the model and `Hm.Bytes` of the generated code are both `List UInt8`) -/
abbrev Bytes := Hm.Bytes

/-- the generated record type of `Mutations` -/
def toGen (r : KVRec) : Hm.Bytes × (Nat × Hm.Bytes) := (r.key, (r.ver, r.val))

/-- the generated helper structure carries the Rust field names -/
def toGenH (h : Helper) : Core.ExternalPersistHelper := { shared_secret := h.secret, last_nonce := h.lastNonce }

/-- the `u64` with the bit pattern of an `i64` version -/
def verOf (v : Int) : Nat := Rs.utruncI Rs.U64_MAX v

/-- an LSS record `(key, Value { version, value })` as a model record -/
def ofLss (e : Hm.Bytes × Lss.Value) : KVRec := ⟨e.1, verOf e.2.version, e.2.value⟩

theorem verOf_nonneg (v : Int) (h0 : 0 ≤ v) (h1 : v ≤ 9223372036854775807) : verOf v = v.toNat := by
  unfold verOf Rs.utruncI Rs.U64_MAX
  omega

/-- `u64::to_be_bytes` as the translator's runtime library defines it (shifts) is the model's `be64` (divisions) -/
theorem C17_fn_be64 (n : Nat) : Hm.beBytes8 n = be64 n := by
  simp [Hm.beBytes8, be64, Nat.shiftRight_eq_div_pow]

theorem C17_fn_ibe64 (v : Int) : Hm.ibeBytes8 v = be64 (verOf v) := by
  simp [Hm.ibeBytes8, verOf, C17_fn_be64]

/-! ## vls-core -/

/-- `add_to_hmac` appends exactly `encRec` of the record to what the engine has been given, and keeps the key -/
theorem C17_fn_core_add_to_hmac (k : Bytes) (v : Nat) (x : Bytes) (e : Hm.Eng) :
    Core.add_to_hmac k v x e = ⟨e.key, e.msg ++ encRec ⟨k, v, x⟩⟩ := by
  simp [Core.add_to_hmac, Hm.Eng.input, encRec, C17_fn_be64, List.append_assoc]

theorem core_fold (rs : List KVRec) (e : Hm.Eng) :
    List.foldl (fun (eng : Hm.Eng) (r : Hm.Bytes × (Nat × Hm.Bytes)) => Core.add_to_hmac r.1 r.2.1 r.2.2 eng) e (rs.map toGen)
      = ⟨e.key, e.msg ++ encRecs rs⟩ := by
  induction rs generalizing e with
  | nil => simp [encRecs]
  | cons r rs ih =>
    simp only [List.map_cons, List.foldl_cons, toGen]
    rw [ih, C17_fn_core_add_to_hmac]
    simp [encRecs, List.append_assoc]

/-- `compute_shared_hmac` = the MAC keyed with the secret over `secret ‖ nonce ‖ records` -/
theorem C17_fn_core_compute_shared_hmac (mac : Mac) (secret nonce : Bytes) (rs : List KVRec) :
    Core.compute_shared_hmac mac secret nonce (rs.map toGen) = sharedTag mac secret nonce rs := by
  have h := core_fold rs ((Hm.Eng.new secret).input secret |>.input nonce)
  simp only [Core.compute_shared_hmac, sharedTag, encShared, Hm.Eng.finish]
  rw [show (fun (hmac_engine : Hm.Eng) (x : Hm.Bytes × (Nat × Hm.Bytes)) =>
        match x with
        | (key, (version, value)) => Core.add_to_hmac key version value hmac_engine)
      = (fun (eng : Hm.Eng) (r : Hm.Bytes × (Nat × Hm.Bytes)) => Core.add_to_hmac r.1 r.2.1 r.2.2 eng) from by
        funext e ⟨a, b, c⟩; rfl]
  rw [h]
  simp [Hm.Eng.new, Hm.Eng.input, List.append_assoc]

theorem C17_fn_helper_new (secret : Bytes) :
    Core.ExternalPersistHelper.new secret = toGenH (Helper.new secret) := by
  simp [Core.ExternalPersistHelper.new, toGenH, Helper.new]

/-- `new_nonce`: the entropy source's output becomes the stored nonce and is the nonce handed out -/
theorem C17_fn_helper_new_nonce (h : Helper) (e : Bytes) :
    Core.ExternalPersistHelper.new_nonce e (toGenH h) = (toGenH (h.newNonce e), (h.newNonce e).issued) := by
  simp [Core.ExternalPersistHelper.new_nonce, toGenH, Helper.newNonce, Helper.issued]

theorem C17_fn_helper_client_hmac (mac : Mac) (h : Helper) (rs : List KVRec) :
    Core.ExternalPersistHelper.client_hmac mac (toGenH h) (rs.map toGen) = h.clientHmac mac rs := by
  simp only [Core.ExternalPersistHelper.client_hmac, toGenH, Helper.clientHmac, clientNonce]
  exact C17_fn_core_compute_shared_hmac mac h.secret [1] rs

theorem C17_fn_helper_server_hmac (mac : Mac) (h : Helper) (rs : List KVRec) :
    Core.ExternalPersistHelper.server_hmac mac (toGenH h) (rs.map toGen) = h.serverHmac mac rs := by
  simp only [Core.ExternalPersistHelper.server_hmac, toGenH, Helper.serverHmac, serverNonce]
  exact C17_fn_core_compute_shared_hmac mac h.secret [2] rs

/-- `check_hmac`: the received tag compared, as a byte list, with the tag under the stored nonce -/
theorem C17_fn_helper_check_hmac (mac : Mac) (h : Helper) (rs : List KVRec) (received : Bytes) :
    Core.ExternalPersistHelper.check_hmac mac (toGenH h) (rs.map toGen) received = h.checkHmac mac rs received := by
  simp only [Core.ExternalPersistHelper.check_hmac, toGenH, Helper.checkHmac, accept]
  rw [C17_fn_core_compute_shared_hmac mac h.secret h.lastNonce rs]

/-! ## lightning-storage-server -/

theorem C17_fn_lss_add_to_hmac (k : Bytes) (v : Int) (x : Bytes) (e : Hm.Eng) :
    Lss.add_to_hmac k v x e = ⟨e.key, e.msg ++ encRec ⟨k, verOf v, x⟩⟩ := by
  simp [Lss.add_to_hmac, Hm.Eng.input, encRec, C17_fn_ibe64, List.append_assoc]

/-- `compute_hmac` = the stored-value tag over `key ‖ be64(version) ‖ value` -/
theorem C17_fn_lss_compute_hmac (mac : Mac) (secret key : Bytes) (v : Int) (x : Bytes) :
    Lss.compute_hmac mac secret key v x = valueTag mac secret key (verOf v) x := by
  simp [Lss.compute_hmac, C17_fn_lss_add_to_hmac, valueTag, encValue, encRec, Hm.Eng.finish, Hm.Eng.new]

theorem lss_fold (kvs : List (Hm.Bytes × Lss.Value)) (e : Hm.Eng) :
    List.foldl (fun (eng : Hm.Eng) (r : Hm.Bytes × Lss.Value) => Lss.add_to_hmac r.1 r.2.version r.2.value eng) e kvs
      = ⟨e.key, e.msg ++ encRecs (kvs.map ofLss)⟩ := by
  induction kvs generalizing e with
  | nil => simp [encRecs]
  | cons r rs ih =>
    simp only [List.map_cons, List.foldl_cons]
    rw [ih, C17_fn_lss_add_to_hmac]
    simp [encRecs, ofLss, List.append_assoc]

/-- the LSS copy of `compute_shared_hmac` assembles the same input as the vls-core one -/
theorem C17_fn_lss_compute_shared_hmac (mac : Mac) (secret nonce : Bytes) (kvs : List (Hm.Bytes × Lss.Value)) :
    Lss.compute_shared_hmac mac secret nonce kvs = sharedTag mac secret nonce (kvs.map ofLss) := by
  have h := lss_fold kvs ((Hm.Eng.new secret).input secret |>.input nonce)
  simp only [Lss.compute_shared_hmac, sharedTag, encShared, Hm.Eng.finish]
  rw [show (fun (hmac_engine : Hm.Eng) (x : Hm.Bytes × Lss.Value) =>
        match x with
        | (key, value) => Lss.add_to_hmac key value.version value.value hmac_engine)
      = (fun (eng : Hm.Eng) (r : Hm.Bytes × Lss.Value) => Lss.add_to_hmac r.1 r.2.version r.2.value eng) from by
        funext e ⟨a, b⟩; rfl]
  rw [h]
  simp [Hm.Eng.new, Hm.Eng.input, List.append_assoc]

theorem C17_fn_lss_append_hmac_to_value (mac : Mac) (secret key : Bytes) (v : Int) (x : Bytes) :
    Lss.append_hmac_to_value mac secret key v x = prepareValue mac secret key (verOf v) x := by
  simp [Lss.append_hmac_to_value, prepareValue, C17_fn_lss_compute_hmac]

/-- the model's `Option` outcome as the outcome of the code: `none` = `Err(())` -/
def outOf (o : Option Bytes) : Rs.M Hm.Bytes :=
  match o with
  | some v => .ok v
  | none => .error (.err "()")

/-- `remove_and_check_hmac`: too short → `Err(())`; else the last 32 bytes must be, as a byte list, the tag of the rest
    under exactly this key and version; the subtraction and `split_off` never panic behind the length guard -/
theorem C17_fn_lss_remove_and_check_hmac (mac : Mac) (secret key : Bytes) (v : Int) (stored : Bytes) :
    Lss.remove_and_check_hmac mac secret key v stored = outOf (processValue mac secret key (verOf v) stored) := by
  unfold Lss.remove_and_check_hmac processValue
  by_cases hl : stored.length < 32
  · simp [hl, outOf, Rs.fail]
  · have h32 : 32 ≤ stored.length := by omega
    have hle : stored.length - 32 ≤ stored.length := by omega
    simp only [hl, decide_false, Bool.false_eq_true, if_false, Rs.usub, h32, if_true, Hm.splitOff, hle,
      C17_fn_lss_compute_hmac, accept]
    by_cases ht : List.drop (stored.length - 32) stored
        = valueTag mac secret key (verOf v) (List.take (stored.length - 32) stored)
    · simp [ht, outOf, bind, Except.bind, pure, Except.pure]
    · have ht' : ¬ valueTag mac secret key (verOf v) (List.take (stored.length - 32) stored)
          = List.drop (stored.length - 32) stored := fun h => ht h.symm
      simp [ht, ht', outOf, bind, Except.bind, pure, Except.pure, Rs.fail]

/-- `prepare_value_for_put`: the authenticated value of the model, then the (unmodelled) cipher layer -/
theorem C17_fn_lss_prepare_value_for_put (mac : Mac) (crypt : Bytes → Bytes → Int → Bytes → Bytes)
    (secret key : Bytes) (val : Lss.Value) :
    Lss.prepare_value_for_put mac crypt secret key val
      = { val with value := crypt secret key val.version (prepareValue mac secret key (verOf val.version) val.value) } := by
  simp [Lss.prepare_value_for_put, C17_fn_lss_append_hmac_to_value]

/-- `process_value_from_get`: the cipher layer is removed first, then exactly the model's check -/
theorem C17_fn_lss_process_value_from_get (mac : Mac) (crypt : Bytes → Bytes → Int → Bytes → Bytes)
    (secret key : Bytes) (val : Lss.Value) :
    Lss.process_value_from_get mac crypt secret key val
      = (outOf (processValue mac secret key (verOf val.version) (crypt secret key val.version val.value))).map
          (fun x => { val with value := x }) := by
  simp only [Lss.process_value_from_get, C17_fn_lss_remove_and_check_hmac]
  cases processValue mac secret key (verOf val.version) (crypt secret key val.version val.value) <;>
    simp [outOf, bind, Except.bind, pure, Except.pure, Except.map]

/-- one entry of the list-level verifier -/
def entryStep (mac : Mac) (crypt : Bytes → Bytes → Int → Bytes → Bytes) (secret : Bytes)
    (e : Hm.Bytes × Lss.Value) : Rs.M (Hm.Bytes × Lss.Value) :=
  match processValue mac secret e.1 (verOf e.2.version) (crypt secret e.1 e.2.version e.2.value) with
  | some x => .ok (e.1, { e.2 with value := x })
  | none => .error (.err "ClientError::InvalidHmac")

/-- `remove_and_check_hmacs` is the entry check mapped over the list, stopping at the first failure -/
theorem C17_fn_lss_remove_and_check_hmacs (mac : Mac) (crypt : Bytes → Bytes → Int → Bytes → Bytes)
    (secret : Bytes) (kvs : List (Hm.Bytes × Lss.Value)) :
    LssDrv.remove_and_check_hmacs mac crypt secret kvs = kvs.mapM (entryStep mac crypt secret) := by
  simp only [LssDrv.remove_and_check_hmacs, bind_pure]
  congr 1
  funext ⟨k, val⟩
  simp only [C17_fn_lss_process_value_from_get, entryStep]
  cases processValue mac secret k (verOf val.version) (crypt secret k val.version val.value) <;>
    simp [outOf, bind, Except.bind, pure, Except.pure, Except.map, Except.mapError]

/-- entry-wise: every input entry is accepted and yields the output entry at the same position -/
inductive AllOk {α β : Type} (f : α → Rs.M β) : List α → List β → Prop
  | nil : AllOk f [] []
  | cons {a : α} {b : β} {as : List α} {bs : List β} : f a = .ok b → AllOk f as bs → AllOk f (a :: as) (b :: bs)

/-- hence a list is accepted only if **every** entry verifies (not just the last one), and the result has the
    authenticated contents of every entry in order -/
theorem C17_fn_lss_hmacs_all (mac : Mac) (crypt : Bytes → Bytes → Int → Bytes → Bytes)
    (secret : Bytes) (kvs out : List (Hm.Bytes × Lss.Value))
    (h : LssDrv.remove_and_check_hmacs mac crypt secret kvs = .ok out) :
    AllOk (entryStep mac crypt secret) kvs out := by
  rw [C17_fn_lss_remove_and_check_hmacs] at h
  induction kvs generalizing out with
  | nil =>
    simp [List.mapM_nil, pure, Except.pure] at h
    subst h; exact .nil
  | cons e es ih =>
    rw [List.mapM_cons] at h
    cases he : entryStep mac crypt secret e with
    | error f => simp [he, bind, Except.bind] at h
    | ok o =>
      cases hes : List.mapM (entryStep mac crypt secret) es with
      | error f => simp [he, hes, bind, Except.bind] at h
      | ok os =>
        simp [he, hes, bind, Except.bind, pure, Except.pure] at h
        subst h
        exact .cons he (ih os hes)

/-! ## vls-frontend: the conversions between `Mutations` and the LSS records (`external_persist/lss.rs`) -/

theorem verOf_itrunc (v : Nat) (hv : v ≤ 18446744073709551615) : verOf (Rs.itrunc 64 (Int.ofNat v)) = v := by
  unfold verOf Rs.utruncI Rs.itrunc Rs.U64_MAX
  simp only [Int.ofNat_eq_natCast, Int.reducePow, Nat.reduceSub]
  have h1 : ((v : Int)) % 18446744073709551616 = (v : Int) := by omega
  rw [h1]
  split
  · omega
  · omega

/-- `put`: `(k, (version, value)) ↦ (k, Value { version: version as i64, value })` — the record the LSS client
    authenticates is, read back through `ofLss` (the `u64` with the same bit pattern), exactly the signer's record -/
theorem C17_fn_frontend_put_conv (r : KVRec) (hv : r.ver ≤ 18446744073709551615) :
    ofLss (Frontend.Client.put_map (toGen r)) = r := by
  obtain ⟨k, v, x⟩ := r
  simp only [Frontend.Client.put_map, toGen, ofLss]
  rw [show Int.ofNat v = ((v : Nat) : Int) from rfl] at *
  have := verOf_itrunc v hv
  simp only [Int.ofNat_eq_natCast] at this
  rw [this]

/-- `get`: `(k, v) ↦ (k, (v.version as u64, v.value))` is `ofLss` in the record type of `Mutations` -/
theorem C17_fn_frontend_get_conv (e : Hm.Bytes × Lss.Value) :
    Frontend.Client.get_map e = toGen (ofLss e) := by
  obtain ⟨k, v⟩ := e
  simp [Frontend.Client.get_map, toGen, ofLss, verOf]

/-- what the signer wrote comes back unchanged through both conversions (key, version and value) -/
theorem C17_fn_frontend_roundtrip (r : KVRec) (hv : r.ver ≤ 18446744073709551615) :
    Frontend.Client.get_map (Frontend.Client.put_map (toGen r)) = toGen r := by
  rw [C17_fn_frontend_get_conv, C17_fn_frontend_put_conv r hv]

/-- and the shared tag the LSS client computes over the converted list is the tag of the signer's list -/
theorem C17_fn_frontend_tag (mac : Mac) (secret nonce : Bytes) (rs : List KVRec)
    (hv : ∀ r ∈ rs, r.ver ≤ 18446744073709551615) :
    Lss.compute_shared_hmac mac secret nonce ((rs.map toGen).map Frontend.Client.put_map)
      = Core.compute_shared_hmac mac secret nonce (rs.map toGen) := by
  rw [C17_fn_lss_compute_shared_hmac, C17_fn_core_compute_shared_hmac]
  congr 1
  induction rs with
  | nil => rfl
  | cons r rs ih =>
    simp only [List.map_cons]
    rw [C17_fn_frontend_put_conv r (hv r (by simp))]
    congr 1
    exact ih (fun x hx => hv x (by simp [hx]))

/-! ## vls-util: `ExternalPersistWithHelper::init_state` — the glue that acts on the verdict when the signer starts -/

/-- a raw record of a reply as a model record -/
def ofT (t : Hm.Bytes × (Nat × Hm.Bytes)) : KVRec := ⟨t.1, t.2.1, t.2.2⟩

theorem toGen_ofT (l : List (Hm.Bytes × (Nat × Hm.Bytes))) : (l.map ofT).map toGen = l := by
  induction l with
  | nil => rfl
  | cons t l ih => obtain ⟨k, v, x⟩ := t; simp [ofT, toGen, ih]

theorem foldlM_pure_state (l : List (Hm.Bytes × (Nat × Hm.Bytes))) (s : Glue.ExternalPersistWithHelper) :
    List.foldlM (m := Rs.M) (fun (self : Glue.ExternalPersistWithHelper) (x : Hm.Bytes × (Nat × Hm.Bytes)) =>
        match x with
        | (key, version_value) => (pure { self with state := Hm.bmapInsert self.state key version_value } : Rs.M _)) s l
      = .ok { s with state := l.foldl (fun st r => Hm.bmapInsert st r.1 r.2) s.state } := by
  induction l generalizing s with
  | nil => rfl
  | cons t l ih =>
    obtain ⟨k, vv⟩ := t
    simp only [List.foldlM_cons, List.foldl_cons, pure, Except.pure, bind, Except.bind]
    exact ih _

/-- `init_state`: the read request carries the nonce drawn in this very call (`e`, the entropy source's output); the
    records of the reply enter the signer's state **only if** the received tag is, as a byte list, the tag of exactly these
    records under the helper's secret and that nonce — otherwise the function panics (`assert!`) with the state
    untouched.  (A `debug_assert!` or a dropped check changes the generated definition: seed C17-r4-1.) -/
theorem C17_fn_init_state (mac : Mac) (e : Bytes)
    (get : Hm.Bytes → Hm.Bytes → (List (Hm.Bytes × (Nat × Hm.Bytes)) × Hm.Bytes))
    (s : Glue.ExternalPersistWithHelper) (h : Helper) (hh : s.helper = toGenH h) :
    Glue.ExternalPersistWithHelper.init_state mac e get s
      = if accept (get [] e).2 (sharedTag mac h.secret e ((get [] e).1.map ofT))
        then .ok { s with state := (get [] e).1.foldl (fun st r => Hm.bmapInsert st r.1 r.2) s.state }
        else .error .panic := by
  unfold Glue.ExternalPersistWithHelper.init_state
  simp only [hh, C17_fn_helper_new_nonce h e, Helper.issued, Helper.newNonce]
  cases hg : get [] e with
  | mk l tag =>
    have hc := C17_fn_helper_check_hmac mac (h.newNonce e) (l.map ofT) tag
    rw [toGen_ofT] at hc
    simp only [Helper.newNonce] at hc
    simp only [hc, Helper.checkHmac]
    by_cases ha : accept tag (sharedTag mac h.secret e (l.map ofT)) = true
    · simp only [ha, Rs.assert, if_true, Rs.pure_eq, Rs.bind_ok]
      have := foldlM_pure_state l s
      rw [hh] at this
      simpa [bind, Except.bind, pure, Except.pure] using this
    · have ha' : accept tag (sharedTag mac h.secret e (l.map ofT)) = false := by simpa using ha
      simp [ha', Rs.assert, Rs.panic, bind, Except.bind]

/-- hence a reply made for an earlier read (another nonce `e' ≠ e` of the same length) never enters the state, whatever
    records it carries — `C17_nonce_check` through the glue -/
theorem C17_fn_init_state_refuses (mac : Mac) (e : Bytes)
    (get : Hm.Bytes → Hm.Bytes → (List (Hm.Bytes × (Nat × Hm.Bytes)) × Hm.Bytes))
    (s : Glue.ExternalPersistWithHelper) (h : Helper) (hh : s.helper = toGenH h)
    (hbad : accept (get [] e).2 (sharedTag mac h.secret e ((get [] e).1.map ofT)) = false) :
    Glue.ExternalPersistWithHelper.init_state mac e get s = .error .panic := by
  rw [C17_fn_init_state mac e get s h hh, hbad]
  rfl

/-- non-vacuity: a one-record list and a stored value -/
example : Core.compute_shared_hmac (fun k m => k ++ m) [1] [2] ([⟨[3], 4, [5]⟩].map toGen)
    = [1, 1, 2, 3, 0, 0, 0, 0, 0, 0, 0, 4, 5] := by decide

/-! ## Round 9: `Mutations` and `ExternalPersistHelper::new` through rs2lean (`Gen/FnPersistMod.lean`)

`Mutations` is the newtype every record list passes through between the wire and the tag functions (`lss.rs::get` →
`Mutations::from_vec` → `check_hmac`; the commit log → `Mutations::from_vec` → `client_hmac`).  The tuple struct is read as
its component (target key `tuple_structs`), so the generated definitions say what the constructors and accessors do to
the **list**: nothing.  A constructor that sorts, deduplicates or truncates (seed C17-r3-1) changes the generated text
and these equalities stop holding — the tag would then be computed over a list other than the one received. -/

open VlsModel.Gen.FnPersistMod (Mutations.new Mutations.from_vec Mutations.add Mutations.inner Mutations.into_inner
  Mutations.is_empty Mutations.len)

/-- the record type of the rs2lean translation (keys as strings, bytes as `Nat`s) -/
abbrev RsRec := String × (Nat × List Nat)

theorem C17_fn_mutations_new : Mutations.new = ([] : List RsRec) := rfl

/-- `from_vec` keeps the list exactly: same records, same order, same multiplicity -/
theorem C17_fn_mutations_from_vec (l : List RsRec) : Mutations.from_vec l = l := rfl

/-- `add` appends exactly one record at the end -/
theorem C17_fn_mutations_add (m : List RsRec) (k : String) (v : Nat) (x : List Nat) :
    Mutations.add m k v x = m ++ [(k, (v, x))] := rfl

theorem C17_fn_mutations_inner (m : List RsRec) : Mutations.inner m = m := rfl
theorem C17_fn_mutations_into_inner (m : List RsRec) : Mutations.into_inner m = m := rfl
theorem C17_fn_mutations_is_empty (m : List RsRec) : Mutations.is_empty m = m.isEmpty := rfl
theorem C17_fn_mutations_len (m : List RsRec) : Mutations.len m = m.length := rfl

/-! Round 10 (b7): the three remaining accessors of `Mutations` (`Gen/FnPersistMut.lean`; the `impl Iterator<Item = …>` return
    types are normalised to the list of the yielded items, `&Self::Output` is written out).  `iter()` is what
    `compute_shared_hmac` folds over and `into_iter()` what `Client::put` converts: both yield exactly the records of
    the list, in the order of the list (no sorting, no deduplication); `m[i]` is the i-th record or a panic. -/
theorem C17_fn_mutations_iter (m : List RsRec) : Gen.FnPersistMut.Mutations.iter m = m := rfl
theorem C17_fn_mutations_into_iter (m : List RsRec) : Gen.FnPersistMut.Mutations.into_iter m = m := rfl
theorem C17_fn_mutations_index (m : List RsRec) (i : Nat) :
    Gen.FnPersistMut.Mutations.index m i = match m[i]? with | some r => .ok r | none => .error .panic := by
  unfold Gen.FnPersistMut.Mutations.index Rs.index
  cases m[i]? <;> rfl
example : Gen.FnPersistMut.Mutations.index [("b", (1, [2])), ("a", (0, []))] 1 = .ok ("a", (0, [])) := by
  rw [C17_fn_mutations_index]; rfl
example : Gen.FnPersistMut.Mutations.iter [("b", (1, [2])), ("a", (0, [])), ("b", (1, [2]))]
    = [("b", (1, [2])), ("a", (0, [])), ("b", (1, [2]))] := C17_fn_mutations_iter _

/-- what is taken out is what was put in, for every way of building the value: the list that reaches
    `compute_shared_hmac` (through `iter()` = the same component) is the list received / logged -/
theorem C17_fn_mutations_roundtrip (l : List RsRec) :
    Mutations.into_inner (Mutations.from_vec l) = l ∧ Mutations.inner (Mutations.from_vec l) = l
      ∧ Mutations.into_inner (l.foldl (fun m r => Mutations.add m r.1 r.2.1 r.2.2) Mutations.new) = l := by
  refine ⟨rfl, rfl, ?_⟩
  have : ∀ (acc : List RsRec), l.foldl (fun m r => Mutations.add m r.1 r.2.1 r.2.2) acc = acc ++ l := by
    induction l with
    | nil => intro acc; simp
    | cons r rs ih =>
      intro acc
      rw [List.foldl_cons, ih, C17_fn_mutations_add]
      simp
  simpa [C17_fn_mutations_into_inner, C17_fn_mutations_new] using this []

/-- the helper structure of the rs2lean translation against the model's (bytes as `Nat`s) -/
def toRsH (h : Helper) : Gen.FnPersistMod.ExternalPersistHelper :=
  { shared_secret := h.secret.map UInt8.toNat, last_nonce := h.lastNonce.map UInt8.toNat }

/-- `ExternalPersistHelper::new`: the secret as given and the all-zero 32-byte nonce — the same function as
    `C17_fn_helper_new` (byte-assembly translator), now also from rs2lean -/
theorem C17_fn_rs_helper_new (secret : Bytes) :
    Gen.FnPersistMod.ExternalPersistHelper.new (secret.map UInt8.toNat) = toRsH (Helper.new secret) := by
  simp [Gen.FnPersistMod.ExternalPersistHelper.new, toRsH, Helper.new]

example : Mutations.into_inner (Mutations.add (Mutations.from_vec [("b", (1, [2])), ("a", (0, []))]) "a" 3 [4])
    = [("b", (1, [2])), ("a", (0, [])), ("a", (3, [4]))] := by decide

/-! ## Round 9: the HMAC composition and the checks through rs2lean (`Gen/FnHmacRs.lean`, `Gen/FnLssUtil.lean`)

The same functions as above, now translated by the general translator `rs2lean.py` (same semantics library, same
translator differential as every other `Gen/Fn*.lean`) instead of the special-purpose byte-assembly translator.  The
bitcoin_hashes engine is a declared *view* `HmacEngine { key, msg }` (`new` stores the key, `input` appends to `msg`:
normalisation rules listed in the generated headers); what the engine finally computes is the uninterpreted external
`fin : HmacEngine → bytes`, tied to the model's `mac` by `FinOf`; `str::as_bytes` is the uninterpreted `sb`.  Bytes are
`Nat`s below 256 in rs2lean: `nb` embeds the model's byte strings. -/

open VlsModel.Gen

def nb (b : Bytes) : List Nat := b.map UInt8.toNat

theorem nb_append (a b : Bytes) : nb (a ++ b) = nb a ++ nb b := by simp [nb]

theorem nb_inj : ∀ (a b : Bytes), nb a = nb b → a = b := by
  intro a
  induction a with
  | nil => intro b h; cases b <;> simp_all [nb]
  | cons x xs ih =>
    intro b h
    cases b with
    | nil => simp [nb] at h
    | cons y ys =>
      simp only [nb, List.map_cons, List.cons.injEq] at h
      rw [UInt8.toNat_inj.mp h.1, ih ys h.2]

theorem nb_beq (a b : Bytes) : (nb a == nb b) = (a == b) := by
  by_cases h : a = b
  · subst h; simp
  · have : ¬ nb a = nb b := fun he => h (nb_inj a b he)
    have h1 : (a == b) = false := beq_eq_false_iff_ne.mpr h
    have h2 : (nb a == nb b) = false := beq_eq_false_iff_ne.mpr this
    rw [h1, h2]

/-- `u64::to_be_bytes` of rs2lean's runtime library (shifts, `Nat` bytes) is the model's `be64` -/
theorem C17_fn_rs_be64 (v : Nat) : Rs.toBeBytes 8 v = nb (be64 v) := by
  simp [Rs.toBeBytes, nb, be64, List.range, List.range.loop, Nat.shiftRight_eq_div_pow, UInt8.toNat_ofNat']

/-- the external `fin` (= `Hmac::from_engine(e).to_byte_array()`) computes the model's `mac` of the fed bytes under the key -/
def FinOf {E : Type} (mk : List Nat → List Nat → E) (mac : Mac) (fin : E → List Nat) : Prop :=
  ∀ k m : Bytes, fin (mk (nb k) (nb m)) = nb (mac k m)

/-- two lists related entry by entry -/
inductive Rel2 {α β : Type} (R : α → β → Prop) : List α → List β → Prop
  | nil : Rel2 R [] []
  | cons {a : α} {b : β} {as : List α} {bs : List β} : R a b → Rel2 R as bs → Rel2 R (a :: as) (b :: bs)

/-- a record of the code (`String` key through `sb`, `Nat` bytes) and the model's record -/
def RecRel (sb : String → List Nat) (r : String × (Nat × List Nat)) (m : KVRec) : Prop :=
  sb r.1 = nb m.key ∧ r.2.1 = m.ver ∧ r.2.2 = nb m.val

/-! ### vls-core (`persist/mod.rs`) -/

theorem C17_fn_rs_add_to_hmac (sb : String → List Nat) (s : String) (k : Bytes) (hk : sb s = nb k) (v : Nat) (x : Bytes)
    (key : List Nat) (m : Bytes) :
    FnHmacRs.add_to_hmac sb s v (nb x) ⟨key, nb m⟩ = ⟨key, nb (m ++ encRec ⟨k, v, x⟩)⟩ := by
  simp [FnHmacRs.add_to_hmac, hk, encRec, nb_append, C17_fn_rs_be64, List.append_assoc]

theorem rs_fold (sb : String → List Nat) (rs : List (String × (Nat × List Nat))) (ms : List KVRec)
    (h : Rel2 (RecRel sb) rs ms) (key : List Nat) (m : Bytes) :
    List.foldl (fun (e : FnHmacRs.HmacEngine) (r : String × (Nat × List Nat)) => FnHmacRs.add_to_hmac sb r.1 r.2.1 r.2.2 e)
        ⟨key, nb m⟩ rs = ⟨key, nb (m ++ encRecs ms)⟩ := by
  induction h generalizing m with
  | nil => simp [encRecs]
  | @cons r mr rs' ms' hr _ ih =>
    obtain ⟨s, v, x⟩ := r
    obtain ⟨h1, h2, h3⟩ := hr
    have h2' : v = mr.ver := h2
    have h3' : x = nb mr.val := h3
    have h1' : sb s = nb mr.key := h1
    subst h2'
    simp only [List.foldl_cons]
    rw [h3', C17_fn_rs_add_to_hmac sb s mr.key h1' mr.ver mr.val key m, ih]
    simp [encRecs, List.append_assoc]

/-- `compute_shared_hmac` = the MAC keyed with the secret over `secret ‖ nonce ‖ records` (no framing) -/
theorem C17_fn_rs_compute_shared_hmac (sb : String → List Nat) (mac : Mac) (fin : FnHmacRs.HmacEngine → List Nat)
    (hfin : FinOf FnHmacRs.HmacEngine.mk mac fin) (secret nonce : Bytes)
    (rs : List (String × (Nat × List Nat))) (ms : List KVRec) (h : Rel2 (RecRel sb) rs ms) :
    FnHmacRs.compute_shared_hmac sb fin (nb secret) (nb nonce) rs = nb (sharedTag mac secret nonce ms) := by
  have hf := rs_fold sb rs ms h (nb secret) (secret ++ nonce)
  simp only [FnHmacRs.compute_shared_hmac, sharedTag, encShared]
  rw [show (fun (hmac_engine : FnHmacRs.HmacEngine) (x : String × (Nat × List Nat)) =>
        match x with
        | (key, (version, value)) =>
          (let m_1 := FnHmacRs.add_to_hmac sb key version value hmac_engine; (let hmac_engine := m_1; hmac_engine)))
      = (fun (e : FnHmacRs.HmacEngine) (r : String × (Nat × List Nat)) => FnHmacRs.add_to_hmac sb r.1 r.2.1 r.2.2 e) from by
        funext e ⟨a, b, c⟩; rfl]
  have h0 : ({ key := nb secret, msg := [] ++ nb secret ++ nb nonce } : FnHmacRs.HmacEngine) = ⟨nb secret, nb (secret ++ nonce)⟩ := by
    simp [nb_append]
  simp only [h0, hf]
  rw [hfin]

theorem C17_fn_rs_client_hmac (sb : String → List Nat) (mac : Mac) (fin : FnHmacRs.HmacEngine → List Nat)
    (hfin : FinOf FnHmacRs.HmacEngine.mk mac fin) (hp : Helper)
    (rs : List (String × (Nat × List Nat))) (ms : List KVRec) (h : Rel2 (RecRel sb) rs ms) :
    FnHmacRs.ExternalPersistHelper.client_hmac sb fin ⟨nb hp.secret, nb hp.lastNonce⟩ rs = nb (hp.clientHmac mac ms) := by
  simp only [FnHmacRs.ExternalPersistHelper.client_hmac, Helper.clientHmac, clientNonce]
  exact C17_fn_rs_compute_shared_hmac sb mac fin hfin hp.secret [1] rs ms h

theorem C17_fn_rs_server_hmac (sb : String → List Nat) (mac : Mac) (fin : FnHmacRs.HmacEngine → List Nat)
    (hfin : FinOf FnHmacRs.HmacEngine.mk mac fin) (hp : Helper)
    (rs : List (String × (Nat × List Nat))) (ms : List KVRec) (h : Rel2 (RecRel sb) rs ms) :
    FnHmacRs.ExternalPersistHelper.server_hmac sb fin ⟨nb hp.secret, nb hp.lastNonce⟩ rs = nb (hp.serverHmac mac ms) := by
  simp only [FnHmacRs.ExternalPersistHelper.server_hmac, Helper.serverHmac, serverNonce]
  exact C17_fn_rs_compute_shared_hmac sb mac fin hfin hp.secret [2] rs ms h

/-- `check_hmac`: the received tag compared, as a byte list, with the tag of exactly these records under the **stored**
    nonce -/
theorem C17_fn_rs_check_hmac (sb : String → List Nat) (mac : Mac) (fin : FnHmacRs.HmacEngine → List Nat)
    (hfin : FinOf FnHmacRs.HmacEngine.mk mac fin) (hp : Helper)
    (rs : List (String × (Nat × List Nat))) (ms : List KVRec) (h : Rel2 (RecRel sb) rs ms) (received : Bytes) :
    FnHmacRs.ExternalPersistHelper.check_hmac sb fin ⟨nb hp.secret, nb hp.lastNonce⟩ rs (nb received)
      = hp.checkHmac mac ms received := by
  simp only [FnHmacRs.ExternalPersistHelper.check_hmac, Helper.checkHmac, accept]
  rw [C17_fn_rs_compute_shared_hmac sb mac fin hfin hp.secret hp.lastNonce rs ms h, nb_beq]

/-- `new_nonce`: the entropy source's output becomes the stored nonce and is the nonce handed out -/
theorem C17_fn_rs_new_nonce {Ent : Type} (get : Ent → List Nat) (src : Ent) (hp : Helper) (e : Bytes) (he : get src = nb e) :
    FnHmacRs.ExternalPersistHelper.new_nonce get ⟨nb hp.secret, nb hp.lastNonce⟩ src
      = (⟨nb (hp.newNonce e).secret, nb (hp.newNonce e).lastNonce⟩, nb (hp.newNonce e).issued) := by
  simp [FnHmacRs.ExternalPersistHelper.new_nonce, he, Helper.newNonce, Helper.issued]

/-! ### lightning-storage-server (`lib/src/util.rs`) -/

theorem C17_fn_rs_lss_add_to_hmac (sb : String → List Nat) (s : String) (k : Bytes) (hk : sb s = nb k) (v : Int) (x : Bytes)
    (key : List Nat) (m : Bytes) :
    FnLssUtil.add_to_hmac sb s v (nb x) ⟨key, nb m⟩ = ⟨key, nb (m ++ encRec ⟨k, verOf v, x⟩)⟩ := by
  simp [FnLssUtil.add_to_hmac, hk, encRec, nb_append, C17_fn_rs_be64, verOf, List.append_assoc]

/-- `compute_hmac` = the stored-value tag over `key ‖ be64(version) ‖ value` -/
theorem C17_fn_rs_lss_compute_hmac (sb : String → List Nat) (mac : Mac) (fin : FnLssUtil.HmacEngine → List Nat)
    (hfin : FinOf FnLssUtil.HmacEngine.mk mac fin) (secret : Bytes) (s : String) (k : Bytes) (hk : sb s = nb k)
    (v : Int) (x : Bytes) :
    FnLssUtil.compute_hmac sb fin (nb secret) s v (nb x) = nb (valueTag mac secret k (verOf v) x) := by
  have h : FnLssUtil.add_to_hmac sb s v (nb x) ⟨nb secret, []⟩ = ⟨nb secret, nb ([] ++ encRec ⟨k, verOf v, x⟩)⟩ :=
    C17_fn_rs_lss_add_to_hmac sb s k hk v x (nb secret) []
  simp only [FnLssUtil.compute_hmac, valueTag, encValue]
  rw [h, hfin]
  simp [encRec]

/-- an LSS record of the code against the model's record -/
def LssRel (sb : String → List Nat) (r : String × FnLssUtil.Value) (m : KVRec) : Prop :=
  sb r.1 = nb m.key ∧ verOf r.2.version = m.ver ∧ r.2.value = nb m.val

theorem rs_lss_fold (sb : String → List Nat) (rs : List (String × FnLssUtil.Value)) (ms : List KVRec)
    (h : Rel2 (LssRel sb) rs ms) (key : List Nat) (m : Bytes) :
    List.foldl (fun (e : FnLssUtil.HmacEngine) (r : String × FnLssUtil.Value) => FnLssUtil.add_to_hmac sb r.1 r.2.version r.2.value e)
        ⟨key, nb m⟩ rs = ⟨key, nb (m ++ encRecs ms)⟩ := by
  induction h generalizing m with
  | nil => simp [encRecs]
  | @cons r mr rs' ms' hr _ ih =>
    obtain ⟨s, val⟩ := r
    obtain ⟨h1, h2, h3⟩ := hr
    have h2' : verOf val.version = mr.ver := h2
    have h3' : val.value = nb mr.val := h3
    have h1' : sb s = nb mr.key := h1
    simp only [List.foldl_cons]
    rw [h3', C17_fn_rs_lss_add_to_hmac sb s mr.key h1' val.version mr.val key m, ih, h2']
    simp [encRecs, List.append_assoc]

/-- the LSS copy of `compute_shared_hmac` assembles the same input as the vls-core one -/
theorem C17_fn_rs_lss_compute_shared_hmac (sb : String → List Nat) (mac : Mac) (fin : FnLssUtil.HmacEngine → List Nat)
    (hfin : FinOf FnLssUtil.HmacEngine.mk mac fin) (secret nonce : Bytes)
    (rs : List (String × FnLssUtil.Value)) (ms : List KVRec) (h : Rel2 (LssRel sb) rs ms) :
    FnLssUtil.compute_shared_hmac sb fin (nb secret) (nb nonce) rs = nb (sharedTag mac secret nonce ms) := by
  have hf := rs_lss_fold sb rs ms h (nb secret) (secret ++ nonce)
  simp only [FnLssUtil.compute_shared_hmac, sharedTag, encShared]
  rw [show (fun (hmac_engine : FnLssUtil.HmacEngine) (x : String × FnLssUtil.Value) =>
        match x with
        | (key, value) =>
          (let m_1 := FnLssUtil.add_to_hmac sb key value.version value.value hmac_engine; (let hmac_engine := m_1; hmac_engine)))
      = (fun (e : FnLssUtil.HmacEngine) (r : String × FnLssUtil.Value) => FnLssUtil.add_to_hmac sb r.1 r.2.version r.2.value e) from by
        funext e ⟨a, b⟩; rfl]
  have h0 : ({ key := nb secret, msg := [] ++ nb secret ++ nb nonce } : FnLssUtil.HmacEngine) = ⟨nb secret, nb (secret ++ nonce)⟩ := by
    simp [nb_append]
  simp only [h0, hf]
  rw [hfin]

theorem C17_fn_rs_lss_append_hmac_to_value (sb : String → List Nat) (mac : Mac) (fin : FnLssUtil.HmacEngine → List Nat)
    (hfin : FinOf FnLssUtil.HmacEngine.mk mac fin) (secret : Bytes) (s : String) (k : Bytes) (hk : sb s = nb k)
    (v : Int) (x : Bytes) :
    FnLssUtil.append_hmac_to_value sb fin (nb secret) s v (nb x) = nb (prepareValue mac secret k (verOf v) x) := by
  simp [FnLssUtil.append_hmac_to_value, prepareValue, C17_fn_rs_lss_compute_hmac sb mac fin hfin secret s k hk, nb_append]

/-- `remove_and_check_hmac`: too short → `Err(())`; else the last 32 bytes must be, as a byte list, the tag of the rest
    under exactly this key and version (`split_off` = slice + truncate, neither can panic behind the length guard) -/
theorem C17_fn_rs_lss_remove_and_check_hmac (sb : String → List Nat) (mac : Mac) (fin : FnLssUtil.HmacEngine → List Nat)
    (hfin : FinOf FnLssUtil.HmacEngine.mk mac fin) (secret : Bytes) (s : String) (k : Bytes) (hk : sb s = nb k)
    (v : Int) (stored : Bytes) :
    FnLssUtil.remove_and_check_hmac sb fin (nb secret) s v (nb stored)
      = (outOf (processValue mac secret k (verOf v) stored)).map nb := by
  unfold FnLssUtil.remove_and_check_hmac processValue
  have hlen : (nb stored).length = stored.length := by simp [nb]
  by_cases hl : stored.length < 32
  · simp [hl, hlen, outOf, Rs.fail, Except.map]
  · have h32 : 32 ≤ stored.length := by omega
    have hle : stored.length - 32 ≤ stored.length := by omega
    have htake : (nb stored).take (stored.length - 32) = nb (stored.take (stored.length - 32)) := by simp [nb, List.map_take]
    have hdrop : (nb stored).drop (stored.length - 32) = nb (stored.drop (stored.length - 32)) := by simp [nb, List.map_drop]
    have hsl : Rs.slice (nb stored) (stored.length - 32) stored.length = .ok (nb (stored.drop (stored.length - 32))) := by
      simp only [Rs.slice, hlen, hle, Nat.le_refl, and_self, if_true]
      rw [hdrop]
      have : (nb (List.drop (stored.length - 32) stored)).length = stored.length - (stored.length - 32) := by simp [nb]
      rw [List.take_of_length_le (by omega)]
      rfl
    simp only [hlen, hl, decide_false, Bool.false_eq_true, if_false, Rs.usub, h32, if_true, Rs.pure_eq, Rs.bind_ok, hsl, htake,
      C17_fn_rs_lss_compute_hmac sb mac fin hfin secret s k hk, nb_beq, accept]
    by_cases ht : valueTag mac secret k (verOf v) (List.take (stored.length - 32) stored) = List.drop (stored.length - 32) stored
    · simp [ht, outOf, Except.map, pure, Except.pure]
    · have ht' : ¬ List.drop (stored.length - 32) stored = valueTag mac secret k (verOf v) (List.take (stored.length - 32) stored) :=
        fun h => ht h.symm
      simp [ht, ht', outOf, Except.map, Rs.fail]

/-- `prepare_value_for_put`: the authenticated value of the model, then the (uninterpreted) cipher layer -/
theorem C17_fn_rs_lss_prepare_value_for_put (sb : String → List Nat) (mac : Mac) (fin : FnLssUtil.HmacEngine → List Nat)
    (hfin : FinOf FnLssUtil.HmacEngine.mk mac fin) (crypt : List Nat → String → Int → List Nat → List Nat)
    (secret : Bytes) (s : String) (k : Bytes) (hk : sb s = nb k) (ver : Int) (x : Bytes) :
    FnLssUtil.prepare_value_for_put sb fin crypt (nb secret) s ⟨ver, nb x⟩
      = ⟨ver, crypt (nb secret) s ver (nb (prepareValue mac secret k (verOf ver) x))⟩ := by
  simp [FnLssUtil.prepare_value_for_put, C17_fn_rs_lss_append_hmac_to_value sb mac fin hfin secret s k hk]

/-- `process_value_from_get`: the cipher layer is removed first, then exactly `remove_and_check_hmac` under the same key
    and version; the value is replaced only on success -/
theorem C17_fn_rs_lss_process_value_from_get (sb : String → List Nat) (mac : Mac) (fin : FnLssUtil.HmacEngine → List Nat)
    (hfin : FinOf FnLssUtil.HmacEngine.mk mac fin) (crypt : List Nat → String → Int → List Nat → List Nat)
    (secret : Bytes) (s : String) (k : Bytes) (hk : sb s = nb k) (val : FnLssUtil.Value) (c : Bytes)
    (hc : crypt (nb secret) s val.version val.value = nb c) :
    FnLssUtil.process_value_from_get crypt sb fin (nb secret) s val
      = (outOf (processValue mac secret k (verOf val.version) c)).map (fun x => { val with value := nb x }) := by
  simp only [FnLssUtil.process_value_from_get, hc, C17_fn_rs_lss_remove_and_check_hmac sb mac fin hfin secret s k hk]
  cases processValue mac secret k (verOf val.version) c <;>
    simp [outOf, bind, Except.bind, pure, Except.pure, Except.map]

/-- non-vacuity: the concatenating "MAC" satisfies `FinOf`, and a one-record list is related to its model record -/
example : FnHmacRs.compute_shared_hmac (fun _ => [97]) (fun e => e.key ++ e.msg) [1] [2] [("a", (4, [5]))]
    = [1, 1, 2, 97, 0, 0, 0, 0, 0, 0, 0, 4, 5] := by
  simp [FnHmacRs.compute_shared_hmac, FnHmacRs.add_to_hmac, Rs.toBeBytes, List.range, List.range.loop]

/-! ### vls-frontend (`external_persist/lss.rs`): the whole of `Client::put` / `Client::get`

The async glue between the signer's `Mutations` and the LSS client, translated by rs2lean after the declared
normalisations (`.await` = run to completion, the tokio guard = the protected value; the transport `LssClient::put/get`
are the externals `cput` / `cget`, quantified over).  So far only the two conversion closures were generated
(`C17_fn_frontend_put_conv/_get_conv`, byte-assembly translator). -/

/-- `(k, (version, value)) ↦ (k, Value { version: version as i64, value })` -/
def putConv (r : String × (Nat × List Nat)) : String × FnLssFront.Value :=
  (r.1, { version := Rs.itrunc 64 (r.2.1 : Int), value := r.2.2 })

/-- `(k, v) ↦ (k, (v.version as u64, v.value))` -/
def getConv (e : String × FnLssFront.Value) : String × (Nat × List Nat) :=
  (e.1, (Rs.utruncI Rs.U64_MAX e.2.version, e.2.value))

/-- `put`: exactly the converted list — same keys, same values, same order, the version as the `i64` with the same bit
    pattern — is sent together with exactly the caller's tag; the server's answer is returned unchanged -/
theorem C17_fn_rs_frontend_put {C : Type} (cput : C → List (String × FnLssFront.Value) → List Nat → Rs.M (List Nat))
    (self : FnLssFront.Client C) (muts : List (String × (Nat × List Nat))) (tag : List Nat) :
    FnLssFront.Client.put cput self muts tag = cput self.client (muts.map putConv) tag := by
  simp only [FnLssFront.Client.put, bind_pure]
  congr 2

/-- `get`: the request carries exactly the caller's prefix and **nonce**; the reply's records are converted entry by entry
    in order (`Mutations::from_vec` is the identity: nothing is sorted, dropped or merged before the caller's `check_hmac`)
    and the received tag is handed on unchanged; a transport error stays an error -/
theorem C17_fn_rs_frontend_get {C : Type}
    (cget : C → String → List Nat → Rs.M (List (String × FnLssFront.Value) × List Nat))
    (self : FnLssFront.Client C) (pfx : String) (nonce : List Nat) :
    FnLssFront.Client.get cget self pfx nonce
      = (cget self.client pfx nonce).map (fun r => (r.1.map getConv, r.2)) := by
  simp only [FnLssFront.Client.get, FnLssFront.Mutations.from_vec]
  cases cget self.client pfx nonce with
  | error e => rfl
  | ok r =>
    obtain ⟨kvs, h⟩ := r
    simp only [bind, Except.bind, pure, Except.pure, Except.map]
    congr 3

/-- what the signer wrote comes back unchanged through both conversions (key, version and value) -/
theorem C17_fn_rs_frontend_roundtrip (r : String × (Nat × List Nat)) (hv : r.2.1 ≤ 18446744073709551615) :
    getConv (putConv r) = r := by
  obtain ⟨k, v, x⟩ := r
  have := verOf_itrunc v hv
  simp only [verOf, Int.ofNat_eq_natCast] at this
  simp only [getConv, putConv, this]

/-- and the converted record is, read as a model record (the `u64` with the same bit pattern), the signer's record:
    the LSS-side tag functions see the same `key ‖ be64(version) ‖ value` -/
theorem C17_fn_rs_frontend_put_rel (sb : String → List Nat) (r : String × (Nat × List Nat)) (m : KVRec)
    (h : RecRel sb r m) (hv : r.2.1 ≤ 18446744073709551615) :
    sb (putConv r).1 = nb m.key ∧ verOf (putConv r).2.version = m.ver ∧ (putConv r).2.value = nb m.val := by
  obtain ⟨k, v, x⟩ := r
  obtain ⟨h1, h2, h3⟩ := h
  have := verOf_itrunc v hv
  simp only [Int.ofNat_eq_natCast] at this
  exact ⟨h1, by simpa [putConv, this] using h2, h3⟩

example : (FnLssFront.Client.get (fun (_ : Unit) _ n => .ok ([("k", ⟨-1, [7]⟩)], n)) ⟨()⟩ "" [9])
    = .ok ([("k", (18446744073709551615, [7]))], [9]) := by
  rw [C17_fn_rs_frontend_get]; simp [Except.map, getConv, Rs.utruncI, Rs.U64_MAX]

/-! ### vlsd (`grpc/signer.rs`): `store_with_client`, the write path of the signer daemon -/

/-- a non-empty mutation list is sent together with `client_hmac` over **exactly that list** (the helper's method is the
    external `chm`, tied above as `C17_fn_rs_client_hmac`); nothing is sent for an empty list; the server's
    acknowledgement tag (the `Ok` value of `put`) is discarded by the code itself; a transport error is the result -/
theorem C17_fn_rs_store_with_client {P : Type} (chm : FnVlsdStore.ExternalPersistHelper → List (String × (Nat × List Nat)) → List Nat)
    (put : P → List (String × (Nat × List Nat)) → List Nat → Rs.M (List Nat))
    (muts : List (String × (Nat × List Nat))) (client : P) (helper : FnVlsdStore.ExternalPersistHelper) :
    FnVlsdStore.store_with_client chm put muts client helper
      = if muts.isEmpty then .ok () else (put client muts (chm helper muts)).map (fun _ => ()) := by
  unfold FnVlsdStore.store_with_client
  cases hm : muts.isEmpty with
  | true => simp [bind, Except.bind, pure, Except.pure]
  | false =>
    cases hp : put client muts (chm helper muts) <;> simp [hp, bind, Except.bind, pure, Except.pure, Except.map]

/-! ### The rest of `persist/mod.rs` that is inside the translator's subset (no clause of C16/C17 rests on these; they are
stated so that what the file's stand-in persisters do is read off the current source rather than assumed)

`DummyPersister` accepts every write and stores nothing (every read is empty; `signer_id` is `unimplemented!()`);
`DummySeedPersister` stores nothing; `MemorySeedPersister` holds exactly the seed it was made with and refuses `put`
(`unimplemented!()`); the `Persist` defaults never ask for an initial restore or a recovery. -/

open VlsModel.Gen.FnPersistDummy in
theorem C17_fn_persist_default_on_initial_restore {S : Type} (s : S) : Persist.on_initial_restore s = false := rfl
open VlsModel.Gen.FnPersistDummy in
theorem C17_fn_persist_default_recovery_required {S : Type} (s : S) : Persist.recovery_required s = false := rfl
open VlsModel.Gen.FnPersistDummy in
theorem C17_fn_dummy_new_node {S A B C : Type} (s : S) (a : A) (b : B) (c : C) : DummyPersister.new_node s a b c = .ok () := rfl
open VlsModel.Gen.FnPersistDummy in
theorem C17_fn_dummy_update_node {S A B : Type} (s : S) (a : A) (b : B) : DummyPersister.update_node s a b = .ok () := rfl
open VlsModel.Gen.FnPersistDummy in
theorem C17_fn_dummy_delete_node {S A : Type} (s : S) (a : A) : DummyPersister.delete_node s a = .ok () := rfl
open VlsModel.Gen.FnPersistDummy in
theorem C17_fn_dummy_new_channel {S A B : Type} (s : S) (a : A) (b : B) : DummyPersister.new_channel s a b = .ok () := rfl
open VlsModel.Gen.FnPersistDummy in
theorem C17_fn_dummy_delete_channel {S A B : Type} (s : S) (a : A) (b : B) : DummyPersister.delete_channel s a b = .ok () := rfl
open VlsModel.Gen.FnPersistDummy in
theorem C17_fn_dummy_new_tracker {S A B : Type} (s : S) (a : A) (b : B) : DummyPersister.new_tracker s a b = .ok () := rfl
open VlsModel.Gen.FnPersistDummy in
theorem C17_fn_dummy_update_tracker {S A B : Type} (s : S) (a : A) (b : B) : DummyPersister.update_tracker s a b = .ok () := rfl
open VlsModel.Gen.FnPersistDummy in
theorem C17_fn_dummy_update_channel {S A B : Type} (s : S) (a : A) (b : B) : DummyPersister.update_channel s a b = .ok () := rfl
open VlsModel.Gen.FnPersistDummy in
theorem C17_fn_dummy_get_node_channels {S A I E : Type} (s : S) (a : A) :
    DummyPersister.get_node_channels (ChannelId := I) (ChannelEntry := E) s a = .ok [] := rfl
open VlsModel.Gen.FnPersistDummy in
theorem C17_fn_dummy_update_node_allowlist {S A : Type} (s : S) (a : A) (l : List String) :
    DummyPersister.update_node_allowlist s a l = .ok () := rfl
open VlsModel.Gen.FnPersistDummy in
theorem C17_fn_dummy_get_node_allowlist {S A : Type} (s : S) (a : A) : DummyPersister.get_node_allowlist s a = .ok [] := rfl
open VlsModel.Gen.FnPersistDummy in
theorem C17_fn_dummy_get_nodes {S P E : Type} (s : S) : DummyPersister.get_nodes (PublicKey := P) (NodeEntry := E) s = .ok [] := rfl
open VlsModel.Gen.FnPersistDummy in
theorem C17_fn_dummy_clear_database {S : Type} (s : S) : DummyPersister.clear_database s = .ok () := rfl
open VlsModel.Gen.FnPersistDummy in
theorem C17_fn_dummy_signer_id {S : Type} (s : S) : DummyPersister.signer_id s = .error .panic := rfl
open VlsModel.Gen.FnPersistDummy in
theorem C17_fn_dummyseed_put {S : Type} (s : S) (k : String) (x : List Nat) : DummySeedPersister.put s k x = () := rfl
open VlsModel.Gen.FnPersistDummy in
theorem C17_fn_dummyseed_get {S : Type} (s : S) (k : String) : DummySeedPersister.get s k = none := rfl
open VlsModel.Gen.FnPersistDummy in
theorem C17_fn_dummyseed_list {S : Type} (s : S) : DummySeedPersister.list s = [] := rfl
open VlsModel.Gen.FnPersistDummy in
theorem C17_fn_memseed_new (seed : List Nat) : (MemorySeedPersister.new seed).seed = seed := rfl
open VlsModel.Gen.FnPersistDummy in
theorem C17_fn_memseed_put (s : MemorySeedPersister) (k : String) (x : List Nat) : s.put k x = .error .panic := rfl
open VlsModel.Gen.FnPersistDummy in
theorem C17_fn_memseed_get (s : MemorySeedPersister) (k : String) : s.get k = some s.seed := rfl
open VlsModel.Gen.FnPersistDummy in
theorem C17_fn_memseed_list (s : MemorySeedPersister) : s.list = [] := rfl
open VlsModel.Gen.FnPersistDummy in
theorem C17_fn_simple_entropy_new : SimpleEntropy.new = ({} : SimpleEntropy) := rfl

/-! ## Round 10 (b7): the remaining defaults of `Persist` and the two refusing getters of `DummyPersister` (`Gen/FnPersistDflt.lean`)

A persister that does not override them can neither take a batch of mutations outside a transaction nor start a
replication: both defaults **panic** (`unimplemented!`) for every receiver and argument — no mutation list is ever
accepted or produced silently by a non-KVV persister.  `DummyPersister::get_tracker/get_channel` refuse with
`Error::Internal` whatever is asked (the dummy persister never returns state it did not store). -/
theorem C17_fn_persist_default_put_batch_unlogged {S : Type} (s : S) (m : List RsRec) :
    Gen.FnPersistDflt.Persist.put_batch_unlogged s m = .error .panic := rfl
theorem C17_fn_persist_default_begin_replication {S : Type} (s : S) :
    Gen.FnPersistDflt.Persist.begin_replication s = .error .panic := rfl
theorem C17_fn_dummy_get_tracker {S P V T L : Type} (s : S) (n : P) (v : V) :
    Gen.FnPersistDflt.DummyPersister.get_tracker (ChainTracker := T) (ChainTrackerListenerEntry := L) s n v
      = .error (.err "Error::Internal") := rfl
theorem C17_fn_dummy_get_channel {S P I E : Type} (s : S) (n : P) (i : I) :
    Gen.FnPersistDflt.DummyPersister.get_channel (ChannelEntry := E) s n i = .error (.err "Error::Internal") := rfl
example : Gen.FnPersistDflt.Persist.put_batch_unlogged () [("a", (0, [1]))] = .error .panic :=
  C17_fn_persist_default_put_batch_unlogged () _

/-! ## Round 10 (b7): how an integrity failure of the LSS client surfaces in the front end (`impl From<ClientError> for Error`,
`vls-frontend/src/external_persist/lss.rs`, `Gen/FnLssFrontErr.lean`; `ClientError` is read from the current
`lightning-storage-server/lib/src/client/driver.rs`)

A value or a server reply that failed its HMAC check is **never** reported as "not available" (which callers may
retry or ignore) nor as a conflict: exactly `InvalidHmac` and `InvalidServerHmac` become `NotAuthorized`; transport and
format failures become `NotAvailable`; a put conflict keeps its keys, in order, with the `u64` bit pattern of the
version.  (The payload type of `Connect` is printed as the local `Error` by the translator — a name clash with
`transport::Error`; the payload is only logged and the theorem quantifies over it.) -/
open VlsModel.Gen.FnLssFrontErr in
theorem C17_fn_frontend_error_from {S : Type} (e : ClientError S) :
    Error.«from» e = match e with
      | .InvalidHmac _ _ => Error.NotAuthorized
      | .InvalidServerHmac => Error.NotAuthorized
      | .Connect _ => Error.NotAvailable
      | .Tonic _ => Error.NotAvailable
      | .InvalidResponse => Error.NotAvailable
      | .PutConflict c => Error.Conflicts (c.map (fun kv => (kv.1, Rs.utruncI Rs.U64_MAX kv.2.version))) := by
  cases e <;> rfl

open VlsModel.Gen.FnLssFrontErr in
/-- the integrity failures are exactly the inputs that yield `NotAuthorized` -/
theorem C17_fn_frontend_error_from_not_authorized {S : Type} (e : ClientError S) :
    Error.«from» e = Error.NotAuthorized ↔ (∃ k v, e = .InvalidHmac k v) ∨ e = .InvalidServerHmac := by
  cases e <;> simp [Error.«from»]

open VlsModel.Gen.FnLssFrontErr in
example : Error.«from» (Status := Unit) (.InvalidHmac "k" (-1)) = Error.NotAuthorized := rfl

end VlsModel.Props.C17Fn
