import VlsModel.Gen.FnTrackerRestore
import VlsModel.Lemmas.FnGen
/-
C11 — companion module: functions of the restore path translated from the Rust source on every run
(`translate/rs2lean.py`, target list `translate/fn_targets/TrackerRestore.b1012.json`).

The field census (`Props/C11.C11_gen_census_tracker`) says which persisted field each field of the restored
tracker *depends on*.  For the last stage of that path, `ChainTracker::restore`, the translated body gives the
equality itself.
-/
namespace VlsModel.Props.C11Fn
open VlsModel.Gen.FnTrackerRestore

/-- **C11_fn_tracker_restore**: `ChainTracker::restore` (as it is in the source now) returns a tracker that holds
    exactly the headers, tip, height, network and listeners it is given (what `ChainTrackerEntry::into_tracker`
    decoded from the store), with no block being streamed and deep reorgs switched off (`new_from_persistence` sets
    that flag again from the node configuration).  A restore that dropped, swapped or defaulted one of the five
    durable fields would change the translated body and break this equality. -/
theorem C11_fn_tracker_restore {Headers Network Key L PublicKey V : Type}
    (headers : List Headers) (tip : Headers) (height : Nat) (network : Network)
    (listeners : List (Key × (L × ListenSlot))) (node_id : PublicKey) (vf : V) (oracle : List PublicKey) :
    let t := ChainTracker.restore headers tip height network listeners node_id vf oracle
    t.headers = headers ∧ t.tip = tip ∧ t.height = height ∧ t.network = network ∧ t.listeners = listeners ∧
    t.decode_state = none ∧ t.allow_deep_reorgs = false ∧ t.node_id = node_id ∧ t.trusted_oracle_pubkeys = oracle :=
  ⟨rfl, rfl, rfl, rfl, rfl, rfl, rfl, rfl, rfl⟩

/-- **C11_fn_tracker_restore_listener**: `ChainTracker::restore_listener` (the call by which
    `Node::new_from_persistence` re-attaches every persisted monitor) puts the listener and its slot under its
    funding outpoint, leaves every other listener and every other field of the tracker alone; and
    `remove_listener` (`prune_channels`) removes exactly that key. -/
theorem C11_fn_tracker_restore_listener {Headers Network Key L PublicKey V : Type} [DecidableEq Key]
    (t : ChainTracker Headers Network Key L PublicKey V) (k k' : Key) (l : L) (slot : ListenSlot) :
    Rs.omapGet (t.restore_listener k l slot).listeners k' = (if k = k' then some (l, slot) else Rs.omapGet t.listeners k') ∧
    (t.restore_listener k l slot).headers = t.headers ∧ (t.restore_listener k l slot).tip = t.tip ∧
    (t.restore_listener k l slot).height = t.height ∧ (t.restore_listener k l slot).network = t.network ∧
    Rs.omapGet (t.remove_listener k).listeners k = none ∧
    (t.remove_listener k).headers = t.headers ∧ (t.remove_listener k).tip = t.tip ∧ (t.remove_listener k).height = t.height := by
  refine ⟨?_, rfl, rfl, rfl, rfl, ?_, rfl, rfl, rfl⟩
  · simp only [ChainTracker.restore_listener]
    exact Rs.omapGet_omapInsert _ _ _ _
  · simp only [ChainTracker.remove_listener, Rs.omapRemove]
    induction t.listeners with
    | nil => rfl
    | cons e m ih =>
      obtain ⟨k0, v0⟩ := e
      by_cases h : k0 = k
      · subst h; simpa [List.filter] using ih
      · have hb : (k0 != k) = true := by simpa using h
        simp only [List.filter, hb, Rs.omapGet, h, if_false]
        exact ih
end VlsModel.Props.C11Fn
