import VlsModel.Gen.FnTrackerRestore
/-
C11 — companion module: functions of the restore path translated from the Rust source on every run
(`translate/rs2lean.py`, target list `translate/fn_targets/TrackerRestore.b1012.json`).

The field census (`Props/C11.C11_gen_census_tracker`) says which persisted field each field of the restored
tracker *depends on*.  For the last stage of that path, `ChainTracker::restore`, the translated body gives the
equality itself.
-/
namespace VlsModel.Props.C11Fn
open VlsModel.Gen.FnTrackerRestore

/-- **C11_fn_tracker_restore**: `ChainTracker::restore` (as it is in the source now) returns a tracker that holds
    exactly the headers, tip, height, network and listeners it is given (what `ChainTrackerEntry::into_tracker`
    decoded from the store), with no block being streamed and deep reorgs switched off (`new_from_persistence` sets
    that flag again from the node configuration).  A restore that dropped, swapped or defaulted one of the five
    durable fields would change the translated body and break this equality. -/
theorem C11_fn_tracker_restore {Headers Network Key L PublicKey V : Type}
    (headers : List Headers) (tip : Headers) (height : Nat) (network : Network)
    (listeners : List (Key × (L × ListenSlot))) (node_id : PublicKey) (vf : V) (oracle : List PublicKey) :
    let t := ChainTracker.restore headers tip height network listeners node_id vf oracle
    t.headers = headers ∧ t.tip = tip ∧ t.height = height ∧ t.network = network ∧ t.listeners = listeners ∧
    t.decode_state = none ∧ t.allow_deep_reorgs = false ∧ t.node_id = node_id ∧ t.trusted_oracle_pubkeys = oracle :=
  ⟨rfl, rfl, rfl, rfl, rfl, rfl, rfl, rfl, rfl⟩

end VlsModel.Props.C11Fn
