import VlsModel.Gen.FnTrackerRestore
import VlsModel.Gen.FnBackup
import VlsModel.Gen.FnKvvPersist
import VlsModel.Gen.FnPersistModel
import VlsModel.Gen.FnKvvKeys
import VlsModel.Gen.FnKvvPass
import VlsModel.Gen.FnNodePrune
import VlsModel.Gen.FnNodeForget
import VlsModel.Gen.FnNodeSync
import VlsModel.Gen.FnNodeStateRestore
import VlsModel.Gen.FnKvvSuffix
import VlsModel.Gen.FnNodeNewChannel
import VlsModel.Gen.FnTrackerEntry
import VlsModel.Gen.FnTrackerEntryRestore
import VlsModel.Model.Backup
import VlsModel.Lemmas.FnGen
/-
C11 — companion module: functions of the restore path translated from the Rust source on every run
(`translate/rs2lean.py`, target list `translate/fn_targets/TrackerRestore.b1012.json`).

The field census (`Props/C11.C11_gen_census_tracker`) says which persisted field each field of the restored
tracker *depends on*.  For the last stage of that path, `ChainTracker::restore`, the translated body gives the
equality itself.
-/
namespace VlsModel.Props.C11Fn
open VlsModel.Gen.FnTrackerRestore

/-- **C11_fn_tracker_restore**: `ChainTracker::restore` (as it is in the source now) returns a tracker that holds
    exactly the headers, tip, height, network and listeners it is given (what `ChainTrackerEntry::into_tracker`
    decoded from the store), with no block being streamed and deep reorgs switched off (`new_from_persistence` sets
    that flag again from the node configuration).  A restore that dropped, swapped or defaulted one of the five
    durable fields would change the translated body and break this equality. -/
theorem C11_fn_tracker_restore {Headers Network Key L PublicKey V : Type}
    (headers : List Headers) (tip : Headers) (height : Nat) (network : Network)
    (listeners : List (Key × (L × ListenSlot))) (node_id : PublicKey) (vf : V) (oracle : List PublicKey) :
    let t := ChainTracker.restore headers tip height network listeners node_id vf oracle
    t.headers = headers ∧ t.tip = tip ∧ t.height = height ∧ t.network = network ∧ t.listeners = listeners ∧
    t.decode_state = none ∧ t.allow_deep_reorgs = false ∧ t.node_id = node_id ∧ t.trusted_oracle_pubkeys = oracle :=
  ⟨rfl, rfl, rfl, rfl, rfl, rfl, rfl, rfl, rfl⟩

/-- **C11_fn_tracker_restore_listener**: `ChainTracker::restore_listener` (the call by which
    `Node::new_from_persistence` re-attaches every persisted monitor) puts the listener and its slot under its
    funding outpoint, leaves every other listener and every other field of the tracker alone; and
    `remove_listener` (`prune_channels`) removes exactly that key. -/
theorem C11_fn_tracker_restore_listener {Headers Network Key L PublicKey V : Type} [DecidableEq Key]
    (t : ChainTracker Headers Network Key L PublicKey V) (k k' : Key) (l : L) (slot : ListenSlot) :
    Rs.omapGet (t.restore_listener k l slot).listeners k' = (if k = k' then some (l, slot) else Rs.omapGet t.listeners k') ∧
    (t.restore_listener k l slot).headers = t.headers ∧ (t.restore_listener k l slot).tip = t.tip ∧
    (t.restore_listener k l slot).height = t.height ∧ (t.restore_listener k l slot).network = t.network ∧
    Rs.omapGet (t.remove_listener k).listeners k = none ∧
    (t.remove_listener k).headers = t.headers ∧ (t.remove_listener k).tip = t.tip ∧ (t.remove_listener k).height = t.height := by
  refine ⟨?_, rfl, rfl, rfl, rfl, ?_, rfl, rfl, rfl⟩
  · simp only [ChainTracker.restore_listener]
    exact Rs.omapGet_omapInsert _ _ _ _
  · simp only [ChainTracker.remove_listener, Rs.omapRemove]
    induction t.listeners with
    | nil => rfl
    | cons e m ih =>
      obtain ⟨k0, v0⟩ := e
      by_cases h : k0 = k
      · subst h; simpa [List.filter] using ih
      · have hb : (k0 != k) = true := by simpa using h
        simp only [List.filter, hb, Rs.omapGet, h, if_false]
        exact ih

/-- **C11_fn_tracker_getters**: the getters through which `ChainTrackerEntry::from` (and the restore comparison) read a
    tracker — `tip()`, `headers()`, `height()` — are the fields `ChainTracker::restore` fills (`C11_fn_tracker_restore`): what is
    persisted of a restored tracker is what was restored. -/
theorem C11_fn_tracker_getters {Headers Network Key L PublicKey V : Type}
    (headers : List Headers) (tip : Headers) (height : Nat) (network : Network)
    (listeners : List (Key × (L × ListenSlot))) (node_id : PublicKey) (vf : V) (oracle : List PublicKey)
    (t : ChainTracker Headers Network Key L PublicKey V) :
    t.tip_fn = t.tip ∧ t.headers_fn = t.headers ∧ t.height_fn = t.height ∧
    (ChainTracker.restore headers tip height network listeners node_id vf oracle).tip_fn = tip ∧
    (ChainTracker.restore headers tip height network listeners node_id vf oracle).headers_fn = headers ∧
    (ChainTracker.restore headers tip height network listeners node_id vf oracle).height_fn = height :=
  ⟨rfl, rfl, rfl, rfl, rfl, rfl⟩

/-! ## `BackupPersister` (vls-persist/src/backup_persister.rs), translated from the source on every run

Target list `translate/fn_targets/Backup.b1012.json`.  The two underlying persisters are generic (`M`, `B : Persist`);
their methods are declared externals, i.e. explicit parameters: every theorem below holds for **all** implementations
of the two stores.  `initial_restore_complete : AtomicBool` is read through the external `load`. -/
section Backup
open VlsModel.Gen.FnBackup VlsModel.Backup

/-- the form of the nine writing methods: `if ready { main.m(..)?; } backup.m(..)` -/
def writeForm (ready : Bool) (m b : Rs.M Unit) : Rs.M Unit := if ready then (m >>= fun _ => b) else b
/-- the form of the five reading methods: `if ready { main.m(..) } else { backup.m(..) }` -/
def readForm {α : Type} (ready : Bool) (m b : Rs.M α) : Rs.M α := if ready then m else b

/-- **C11_fn_backup_main_is_ready**: `main_is_ready` of the source is the model's `Comp.mainReady`
    (`!main.recovery_required() || initial_restore_complete`), whatever memory ordering the load names. -/
theorem C11_fn_backup_main_is_ready (c : Comp) :
    BackupPersister.main_is_ready (M := Store) (AtomicBool := Bool) (B := Store) (fun s => s.needsRecovery) (fun b _ => b)
      ⟨c.main, c.backup, c.restoreDone⟩ = c.mainReady := rfl

variable {M AtomicBool B PublicKey NodeConfig NodeState ChannelStub ChannelId ChainTracker Channel ValidatorFactory
  ChainTrackerListenerEntry CoreChannelEntry CoreNodeEntry : Type}
  (rr : M → Bool) (ld : AtomicBool → Gen.FnBackup.Ordering → Bool) (self : BackupPersister M AtomicBool B)

/-- **C11_fn_backup_writes**: each of the nine writing methods of `impl Persist for BackupPersister`, as it is in
    the source now, *is* `writeForm`: the main store is written first and only when it is ready, its error is
    returned before the backup is touched, and the backup is written in every other case and decides the result.
    A method that wrote the backup first, skipped it, swallowed the main store's error or ignored the readiness
    flag changes the translated body and breaks its conjunct. -/
theorem C11_fn_backup_writes (node_id : PublicKey) :
    (∀ (em : M → PublicKey → NodeConfig → NodeState → Rs.M Unit) (eb : B → PublicKey → NodeConfig → NodeState → Rs.M Unit) cfg st,
      BackupPersister.new_node rr ld em eb self node_id cfg st
        = writeForm (BackupPersister.main_is_ready rr ld self) (em self.main node_id cfg st) (eb self.backup node_id cfg st)) ∧
    (∀ (em : M → PublicKey → NodeState → Rs.M Unit) (eb : B → PublicKey → NodeState → Rs.M Unit) st,
      BackupPersister.update_node rr ld em eb self node_id st
        = writeForm (BackupPersister.main_is_ready rr ld self) (em self.main node_id st) (eb self.backup node_id st)) ∧
    (∀ (em : M → PublicKey → Rs.M Unit) (eb : B → PublicKey → Rs.M Unit),
      BackupPersister.delete_node rr ld em eb self node_id
        = writeForm (BackupPersister.main_is_ready rr ld self) (em self.main node_id) (eb self.backup node_id)) ∧
    (∀ (em : M → PublicKey → ChannelStub → Rs.M Unit) (eb : B → PublicKey → ChannelStub → Rs.M Unit) stub,
      BackupPersister.new_channel rr ld em eb self node_id stub
        = writeForm (BackupPersister.main_is_ready rr ld self) (em self.main node_id stub) (eb self.backup node_id stub)) ∧
    (∀ (em : M → PublicKey → ChannelId → Rs.M Unit) (eb : B → PublicKey → ChannelId → Rs.M Unit) cid,
      BackupPersister.delete_channel rr ld em eb self node_id cid
        = writeForm (BackupPersister.main_is_ready rr ld self) (em self.main node_id cid) (eb self.backup node_id cid)) ∧
    (∀ (em : M → PublicKey → ChainTracker → Rs.M Unit) (eb : B → PublicKey → ChainTracker → Rs.M Unit) t,
      BackupPersister.new_tracker rr ld em eb self node_id t
        = writeForm (BackupPersister.main_is_ready rr ld self) (em self.main node_id t) (eb self.backup node_id t)) ∧
    (∀ (em : M → PublicKey → ChainTracker → Rs.M Unit) (eb : B → PublicKey → ChainTracker → Rs.M Unit) t,
      BackupPersister.update_tracker rr ld em eb self node_id t
        = writeForm (BackupPersister.main_is_ready rr ld self) (em self.main node_id t) (eb self.backup node_id t)) ∧
    (∀ (em : M → PublicKey → Channel → Rs.M Unit) (eb : B → PublicKey → Channel → Rs.M Unit) ch,
      BackupPersister.update_channel rr ld em eb self node_id ch
        = writeForm (BackupPersister.main_is_ready rr ld self) (em self.main node_id ch) (eb self.backup node_id ch)) ∧
    (∀ (em : M → PublicKey → List String → Rs.M Unit) (eb : B → PublicKey → List String → Rs.M Unit) al,
      BackupPersister.update_node_allowlist rr ld em eb self node_id al
        = writeForm (BackupPersister.main_is_ready rr ld self) (em self.main node_id al) (eb self.backup node_id al)) := by
  refine ⟨?_, ?_, ?_, ?_, ?_, ?_, ?_, ?_, ?_⟩ <;> intros <;>
    (first
      | unfold BackupPersister.new_node | unfold BackupPersister.update_node | unfold BackupPersister.delete_node
      | unfold BackupPersister.new_channel | unfold BackupPersister.delete_channel | unfold BackupPersister.new_tracker
      | unfold BackupPersister.update_tracker | unfold BackupPersister.update_channel
      | unfold BackupPersister.update_node_allowlist) <;>
    unfold writeForm <;> generalize BackupPersister.main_is_ready rr ld self = r <;> cases r <;> rfl

/-- **C11_fn_backup_reads**: each of the five reading methods asks the main store when it is ready and the backup
    otherwise — never both, never the backup while the main store is ready. -/
theorem C11_fn_backup_reads (node_id : PublicKey) :
    (∀ (em : M → PublicKey → ValidatorFactory → Rs.M (ChainTracker × List ChainTrackerListenerEntry))
       (eb : B → PublicKey → ValidatorFactory → Rs.M (ChainTracker × List ChainTrackerListenerEntry)) vf,
      BackupPersister.get_tracker rr ld em eb self node_id vf
        = readForm (BackupPersister.main_is_ready rr ld self) (em self.main node_id vf) (eb self.backup node_id vf)) ∧
    (∀ (em : M → PublicKey → ChannelId → Rs.M CoreChannelEntry) (eb : B → PublicKey → ChannelId → Rs.M CoreChannelEntry) cid,
      BackupPersister.get_channel rr ld em eb self node_id cid
        = readForm (BackupPersister.main_is_ready rr ld self) (em self.main node_id cid) (eb self.backup node_id cid)) ∧
    (∀ (em : M → PublicKey → Rs.M (List (ChannelId × CoreChannelEntry))) (eb : B → PublicKey → Rs.M (List (ChannelId × CoreChannelEntry))),
      BackupPersister.get_node_channels rr ld em eb self node_id
        = readForm (BackupPersister.main_is_ready rr ld self) (em self.main node_id) (eb self.backup node_id)) ∧
    (∀ (em : M → PublicKey → Rs.M (List String)) (eb : B → PublicKey → Rs.M (List String)),
      BackupPersister.get_node_allowlist rr ld em eb self node_id
        = readForm (BackupPersister.main_is_ready rr ld self) (em self.main node_id) (eb self.backup node_id)) ∧
    (∀ (em : M → Rs.M (List (PublicKey × CoreNodeEntry))) (eb : B → Rs.M (List (PublicKey × CoreNodeEntry))),
      BackupPersister.get_nodes rr ld em eb self
        = readForm (BackupPersister.main_is_ready rr ld self) (em self.main) (eb self.backup)) :=
  ⟨fun _ _ _ => rfl, fun _ _ _ => rfl, fun _ _ => rfl, fun _ _ => rfl, fun _ _ => rfl⟩

/-- **C11_fn_backup_clear_database**: both stores, unguarded, main first (`main.clear_database()?; backup.clear_database()`). -/
theorem C11_fn_backup_clear_database (em : M → Rs.M Unit) (eb : B → Rs.M Unit) :
    BackupPersister.clear_database em eb self = (em self.main >>= fun _ => eb self.backup) := rfl

/-- **C11_fn_backup_signer_id**: the composite answers with the main store's id. -/
theorem C11_fn_backup_signer_id (em : M → List Nat) : BackupPersister.signer_id (B := B) (AtomicBool := AtomicBool) em self = em self.main := rfl

/-- what a call of a model store answers: an error iff the store refuses writes -/
def isOk (r : Rs.M Unit) : Bool := match r with | .ok _ => true | .error _ => false
def callOf (s : Store) : Rs.M Unit := if s.failing then .error (.err "Error") else .ok ()
/-- the entry written into a store that accepts the write -/
def putE (s : Store) (k : Nat) (v : Option Nat) : Store := { s with data := fun x => if x = k then v else s.data x }

/-- **C11_fn_backup_write_model**: the hand-written `Comp.write` of `Model/Backup.lean` (on which the `C11_backup_*`
    theorems of `Props/C11Gen.lean` are proved) is `writeForm` run on the two model stores: its result is the form's
    result, the main store is written iff the form reaches its call (ready) and the call succeeds, the backup is
    written iff the whole form succeeds (its call is the last one), and nothing else changes. -/
theorem C11_fn_backup_write_model (c : Comp) (k : Nat) (v : Option Nat) :
    let r := writeForm c.mainReady (callOf c.main) (callOf c.backup)
    (c.write k v).2 = (if isOk r then Res.ok else Res.err) ∧
    (c.write k v).1.main = (if c.mainReady = true ∧ c.main.failing = false then putE c.main k v else c.main) ∧
    (c.write k v).1.backup = (if isOk r then putE c.backup k v else c.backup) ∧
    (c.write k v).1.restoreDone = c.restoreDone := by
  unfold Comp.write writeForm callOf Store.write putE isOk
  cases hr : c.mainReady <;> cases hm : c.main.failing <;> cases hb : c.backup.failing <;> simp [bind, Except.bind]

/-- **C11_fn_backup_update_node_model**: the translated `update_node` (and, by `C11_fn_backup_writes`, every writing
    method) run on the model's stores acknowledges exactly when `Comp.write` does. -/
theorem C11_fn_backup_update_node_model (c : Comp) (k : Nat) (v : Option Nat) :
    (BackupPersister.update_node (M := Store) (AtomicBool := Bool) (B := Store) (PublicKey := Nat) (NodeState := Option Nat)
        (fun s => s.needsRecovery) (fun b _ => b) (fun s _ _ => callOf s) (fun s _ _ => callOf s)
        ⟨c.main, c.backup, c.restoreDone⟩ k v = .ok ()) ↔ (c.write k v).2 = Res.ok := by
  have h := (C11_fn_backup_writes (NodeConfig := Unit) (ChannelStub := Unit) (ChannelId := Unit) (ChainTracker := Unit) (Channel := Unit)
    (fun s : Store => s.needsRecovery) (fun (b : Bool) _ => b) ⟨c.main, c.backup, c.restoreDone⟩ k).2.1
    (fun s _ _ => callOf s) (fun s _ _ => callOf s) v
  rw [h, C11_fn_backup_main_is_ready, (C11_fn_backup_write_model c k v).1]
  generalize writeForm c.mainReady (callOf c.main) (callOf c.backup) = r
  cases r <;> simp [isOk]

/-- non-vacuity: a ready composite with a failing backup acknowledges nothing although the main store was written
    (the main store is ahead — the case `C11_backup_refused` speaks about) -/
example : ∃ c : Comp, (c.write 1 (some 2)).2 = Res.err ∧ (c.write 1 (some 2)).1.main.data 1 = some 2 ∧
    writeForm c.mainReady (callOf c.main) (callOf c.backup) = .error (.err "Error") :=
  ⟨⟨⟨fun _ => none, false, false⟩, ⟨fun _ => none, true, false⟩, false⟩, rfl, rfl, rfl⟩

end Backup

/-! ## `impl Persist for KVVPersister` (vls-persist/src/kvv.rs) and the entry conversions (model.rs), translated on every run

Target lists `translate/fn_targets/KvvPersist.b1012.json`, `PersistModel.b1012.json`.  Externals (explicit parameters, the
theorems hold for all of them): the store's `put` / `get` / `delete` (reached through `Deref`), the key makers
`make_key` / `make_key2`, `PublicKey::serialize`, `ChannelId::as_slice`, `EnforcementState::new`, and the value format
`F::ser_value` / `F::de_value` at each entry type (a declared normalisation names the instance: the trait function is
generic).  What a `put` does to a later `get` is the store's contract (C16); what the format does is `ValueFormat`'s:
both appear as hypotheses `hget`, `hde` below — the theorems say what the *persister code between them* keeps. -/
section Kvv
open VlsModel.Gen.FnKvvPersist

variable {SelfT PublicKey ChannelId EnforcementState NodeState ChainTracker ValidatorFactory ChainTrackerListenerEntry : Type}
  (sz : PublicKey → List Nat) (sl : ChannelId → List Nat) (mk : String → List Nat → String)
  (mk2 : String → List Nat → List Nat → String)
  (put : String → List Nat → Rs.M Unit) (get : String → Rs.M (Option (Nat × List Nat))) (del : String → Rs.M Unit)
  (self : SelfT) (node_id : PublicKey)

/-- the entry `update_channel` computes from a channel: every durable field of the channel, nothing defaulted -/
def entryOfChannel (ch : Channel ChannelId EnforcementState) : ChannelEntry ChannelId EnforcementState :=
  { channel_value_satoshis := ch.setup.channel_value_sat, channel_setup := some ch.setup, id := ch.id,
    enforcement_state := ch.enforcement_state, blockheight := none }

/-- **C11_fn_kvv_update_channel**: `update_channel` serialises exactly `entryOfChannel channel` — the channel's own
    enforcement state (counters, commitment contents, points, secrets, closed flag all live there), its setup and its
    permanent id — and puts it under the key made from the node id and the channel's *initial* id.  A fresh
    enforcement state, a dropped id or another key changes the translated body and breaks this equation. -/
theorem C11_fn_kvv_update_channel (ser : ChannelEntry ChannelId EnforcementState → Rs.M (List Nat))
    (ch : Channel ChannelId EnforcementState) :
    KVVPersister.update_channel sz sl mk2 ser put self node_id ch
      = (ser (entryOfChannel ch) >>= fun v => put (mk2 "channel" (sz node_id) (sl ch.id0)) v) := rfl

/-- **C11_fn_kvv_new_channel**: a stub is written under the same kind of key with its birth block height, no setup, no
    permanent id and the enforcement state `EnforcementState::new(0)`. -/
theorem C11_fn_kvv_new_channel (ser : ChannelEntry ChannelId EnforcementState → Rs.M (List Nat)) (esNew : Nat → EnforcementState)
    (stub : ChannelStub ChannelId) :
    KVVPersister.new_channel sz sl mk2 esNew ser put self node_id stub
      = (ser { channel_value_satoshis := 0, channel_setup := none, id := none, enforcement_state := esNew 0,
               blockheight := some stub.blockheight } >>= fun v => put (mk2 "channel" (sz node_id) (sl stub.id0)) v) := rfl

/-- **C11_fn_kvv_get_channel**: `get_channel` reads the key made the same way, panics when there is no entry
    (`expect("channel not found")`), decodes the value and converts it with `CoreChannelEntry::from`. -/
theorem C11_fn_kvv_get_channel (de : List Nat → Rs.M (ChannelEntry ChannelId EnforcementState)) (cid : ChannelId) :
    KVVPersister.get_channel sz sl mk2 get de self node_id cid
      = (get (mk2 "channel" (sz node_id) (sl cid)) >>= fun o => Rs.unwrap o >>= fun vv => de vv.2 >>= fun e =>
          pure (CoreChannelEntry.«from» e)) := rfl

/-- **C11_fn_kvv_channel_roundtrip** (`restore ∘ persist = id` on the durable fields of a channel): let `update_channel`
    have serialised its entry to `b`; if the store then answers the channel's key with `b` (any version) and the format
    decodes `b` to what was encoded, `get_channel` under the channel's initial id returns the channel's enforcement
    state, setup and permanent id unchanged, and `blockheight = none` (by which `new_from_persistence` tells a channel
    from a stub). -/
theorem C11_fn_kvv_channel_roundtrip (ser : ChannelEntry ChannelId EnforcementState → Rs.M (List Nat))
    (de : List Nat → Rs.M (ChannelEntry ChannelId EnforcementState)) (ch : Channel ChannelId EnforcementState)
    (b : List Nat) (ver : Nat) (hser : ser (entryOfChannel ch) = .ok b)
    (hget : get (mk2 "channel" (sz node_id) (sl ch.id0)) = .ok (some (ver, b)))
    (hde : ∀ e, ser e = .ok b → de b = .ok e) :
    KVVPersister.update_channel sz sl mk2 ser put self node_id ch = put (mk2 "channel" (sz node_id) (sl ch.id0)) b ∧
    KVVPersister.get_channel sz sl mk2 get de self node_id ch.id0
      = .ok { channel_value_satoshis := ch.setup.channel_value_sat, channel_setup := some ch.setup, id := ch.id,
              enforcement_state := ch.enforcement_state, blockheight := none } := by
  constructor
  · rw [C11_fn_kvv_update_channel, hser]; rfl
  · rw [C11_fn_kvv_get_channel, hget]
    simp [bind, Except.bind, Rs.unwrap, pure, Except.pure, hde _ hser, CoreChannelEntry.«from», entryOfChannel]

/-- the same for a stub: it comes back as a stub (`blockheight = some _`, no setup) with the fresh enforcement state -/
theorem C11_fn_kvv_stub_roundtrip (ser : ChannelEntry ChannelId EnforcementState → Rs.M (List Nat)) (esNew : Nat → EnforcementState)
    (de : List Nat → Rs.M (ChannelEntry ChannelId EnforcementState)) (stub : ChannelStub ChannelId)
    (b : List Nat) (ver : Nat)
    (hser : ser { channel_value_satoshis := 0, channel_setup := none, id := none, enforcement_state := esNew 0,
                  blockheight := some stub.blockheight } = .ok b)
    (hget : get (mk2 "channel" (sz node_id) (sl stub.id0)) = .ok (some (ver, b)))
    (hde : ∀ e, ser e = .ok b → de b = .ok e) :
    KVVPersister.get_channel sz sl mk2 get de self node_id stub.id0
      = .ok { channel_value_satoshis := 0, channel_setup := none, id := none, enforcement_state := esNew 0,
              blockheight := some stub.blockheight } := by
  rw [C11_fn_kvv_get_channel, hget]
  simp [bind, Except.bind, Rs.unwrap, pure, Except.pure, hde _ hser, CoreChannelEntry.«from»]

/-- **C11_fn_kvv_channel_entry_from**: the conversion of the stored entry into the core entry (model.rs) keeps all five
    fields (also as translated on its own in area `PersistModel`). -/
theorem C11_fn_kvv_channel_entry_from (e : ChannelEntry ChannelId EnforcementState)
    {CS : Type} (e' : Gen.FnPersistModel.ChannelEntry CS ChannelId EnforcementState) :
    (CoreChannelEntry.«from» e).channel_value_satoshis = e.channel_value_satoshis ∧
    (CoreChannelEntry.«from» e).channel_setup = e.channel_setup ∧ (CoreChannelEntry.«from» e).id = e.id ∧
    (CoreChannelEntry.«from» e).enforcement_state = e.enforcement_state ∧ (CoreChannelEntry.«from» e).blockheight = e.blockheight ∧
    (Gen.FnPersistModel.CoreChannelEntry.«from» e').channel_value_satoshis = e'.channel_value_satoshis ∧
    (Gen.FnPersistModel.CoreChannelEntry.«from» e').channel_setup = e'.channel_setup ∧
    (Gen.FnPersistModel.CoreChannelEntry.«from» e').id = e'.id ∧
    (Gen.FnPersistModel.CoreChannelEntry.«from» e').enforcement_state = e'.enforcement_state ∧
    (Gen.FnPersistModel.CoreChannelEntry.«from» e').blockheight = e'.blockheight :=
  ⟨rfl, rfl, rfl, rfl, rfl, rfl, rfl, rfl, rfl, rfl⟩

/-- **C11_fn_kvv_delete_channel**: deletes exactly the key `update_channel` / `new_channel` write. -/
theorem C11_fn_kvv_delete_channel (cid : ChannelId) :
    KVVPersister.delete_channel sz sl mk2 del self node_id cid = del (mk2 "channel" (sz node_id) (sl cid)) := rfl

/-- **C11_fn_kvv_allowlist**: `update_node_allowlist` stores the list it is given (as the one field of its entry) under the
    node's allowlist key and `get_node_allowlist` returns the decoded entry's list: with the store and format hypotheses
    as above, the allowlist read back is the allowlist written. -/
theorem C11_fn_kvv_allowlist (ser : AllowlistItemEntry → Rs.M (List Nat)) (de : List Nat → Rs.M AllowlistItemEntry)
    (al : List String) :
    KVVPersister.update_node_allowlist sz mk ser put self node_id al
      = (ser { allowlist := al } >>= fun v => put (mk "node/allowlist" (sz node_id)) v) ∧
    (∀ b ver, ser { allowlist := al } = .ok b → get (mk "node/allowlist" (sz node_id)) = .ok (some (ver, b)) →
      (∀ e, ser e = .ok b → de b = .ok e) →
      KVVPersister.get_node_allowlist sz mk get de self node_id = .ok al) := by
  refine ⟨rfl, ?_⟩
  intro b ver hser hget hde
  unfold KVVPersister.get_node_allowlist
  simp [hget, bind, Except.bind, Rs.unwrap, pure, Except.pure, hde _ hser]

/-- **C11_fn_kvv_update_node**: the node state is converted by `NodeStateEntry::from` (external here; its field dataflow is
    `C11_gen_census_node`), serialised and put under the node's state key; `delete_node` removes the node entry and then
    the state entry (the first error is returned). -/
theorem C11_fn_kvv_update_node {PS : Type} (conv : NodeState → NodeStateEntry PS) (ser : NodeStateEntry PS → Rs.M (List Nat)) (st : NodeState) :
    KVVPersister.update_node sz mk conv ser put self node_id st
      = (ser (conv st) >>= fun v => put (mk "node/state" (sz node_id)) v) ∧
    KVVPersister.delete_node sz mk del self node_id
      = (del (mk "node/entry" (sz node_id)) >>= fun _ => del (mk "node/state" (sz node_id))) := ⟨rfl, rfl⟩

/-- **C11_fn_kvv_tracker**: `update_tracker` converts (`ChainTrackerEntry::from`, external; dataflow `C11_gen_census_tracker`),
    serialises and puts under the node's tracker key; `new_tracker` is `update_tracker`; `get_tracker` reads that key
    (panic when absent), decodes and returns `into_tracker` of the decoded entry (whose last stage is
    `C11_fn_tracker_restore`): with the store and format hypotheses the tracker restored is `into_tracker (from tracker)`. -/
theorem C11_fn_kvv_tracker {TE : Type} (conv : ChainTracker → TE) (ser : TE → Rs.M (List Nat)) (de : List Nat → Rs.M TE)
    (into : TE → PublicKey → ValidatorFactory → ChainTracker × List ChainTrackerListenerEntry) (t : ChainTracker) (vf : ValidatorFactory) :
    KVVPersister.update_tracker sz mk conv ser put self node_id t
      = (ser (conv t) >>= fun v => put (mk "node/tracker" (sz node_id)) v) ∧
    KVVPersister.new_tracker sz mk conv ser put self node_id t = KVVPersister.update_tracker sz mk conv ser put self node_id t ∧
    (∀ b ver, ser (conv t) = .ok b → get (mk "node/tracker" (sz node_id)) = .ok (some (ver, b)) →
      (∀ e, ser e = .ok b → de b = .ok e) →
      KVVPersister.get_tracker sz mk get de into self node_id vf = .ok (into (conv t) node_id vf)) := by
  refine ⟨rfl, rfl, ?_⟩
  intro b ver hser hget hde
  unfold KVVPersister.get_tracker
  simp [hget, bind, Except.bind, Rs.unwrap, pure, Except.pure, hde _ hser]


/-- **C11_fn_kvv_get_nodes** (the restore of the node state, `get_nodes`, as it is in the source now): for a store that
    lists one live node entry (tombstones — empty values — are filtered out before), the node comes back as
    `NodeState::restore` of the *decoded state entry's own fields, each in its own position*: invoices, issued invoices,
    preimages, the two velocity controls converted by `CoreVelocityControl::from` (payments control first, fee control
    second), the channel-id high-water mark, and the allowlist read back for this node; `excess_amount` is 0 (not
    durable, by design).  The state entry is read under the key `update_node` writes (`C11_fn_kvv_update_node`).  A
    restore that passed 0 for the high-water mark, swapped the controls, or dropped the issued invoices changes the
    translated body and breaks this equation. -/
theorem C11_fn_kvv_get_nodes {Network Allowable PS : Type}
    (getp : String → Rs.M (List (String × (Nat × List Nat)))) (suffix : String → String → Rs.M (List Nat))
    (fromSlice : List Nat → Option PublicKey) (deNode : List Nat → Rs.M NodeEntry)
    (deState : List Nat → Rs.M (NodeStateEntry PS)) (parse : String → Rs.M Network)
    (ral : PublicKey → Network → Rs.M (List Allowable))
    (restore : List (List Nat × PS) → List (List Nat × PS) → List (List Nat) → Nat → CoreVelocityControl → CoreVelocityControl →
      Nat → List Allowable → NodeState)
    (key : String) (r : Nat) (value suf sv : List Nat) (nid : PublicKey) (entry : NodeEntry) (ver : Nat)
    (se : NodeStateEntry PS) (net : Network) (al : List Allowable)
    (hpre : getp (("node/entry" : String) ++ "/") = .ok [(key, (r, value))]) (hne : value.isEmpty = false)
    (hsuf : suffix (("node/entry" : String) ++ "/") key = .ok suf) (hpk : fromSlice suf = some nid)
    (hde : deNode value = .ok entry) (hget : get (mk "node/state" (sz nid)) = .ok (some (ver, sv)))
    (hds : deState sv = .ok se) (hnet : parse entry.network = .ok net) (hal : ral nid net = .ok al) :
    KVVPersister.get_nodes getp suffix fromSlice deNode sz mk get deState parse ral restore self
      = .ok [(nid, { key_derivation_style := entry.key_derivation_style, network := entry.network,
                     state := restore se.invoices se.issued_invoices se.preimages 0
                       (CoreVelocityControl.«from» se.velocity_control) (CoreVelocityControl.«from» se.fee_velocity_control)
                       se.dbid_high_water_mark al })] := by
  unfold KVVPersister.get_nodes
  simp only [hpre, bind, Except.bind, pure, Except.pure, List.filter, hne, Bool.not_false, List.foldlM, hsuf, hpk, Rs.unwrap, hde,
    hget, Rs.okOr, hds, hnet, hal, List.nil_append]

/-- a tombstone (empty value) is not a node: a deleted node does not come back -/
theorem C11_fn_kvv_get_nodes_tombstone {Network Allowable PS : Type}
    (getp : String → Rs.M (List (String × (Nat × List Nat)))) (suffix : String → String → Rs.M (List Nat))
    (fromSlice : List Nat → Option PublicKey) (deNode : List Nat → Rs.M NodeEntry)
    (deState : List Nat → Rs.M (NodeStateEntry PS)) (parse : String → Rs.M Network)
    (ral : PublicKey → Network → Rs.M (List Allowable))
    (restore : List (List Nat × PS) → List (List Nat × PS) → List (List Nat) → Nat → CoreVelocityControl → CoreVelocityControl →
      Nat → List Allowable → NodeState) (key : String) (r : Nat)
    (hpre : getp (("node/entry" : String) ++ "/") = .ok [(key, (r, []))]) :
    KVVPersister.get_nodes getp suffix fromSlice deNode sz mk get deState parse ral restore self = .ok [] := by
  unfold KVVPersister.get_nodes
  simp only [hpre, bind, Except.bind, pure, Except.pure, List.filter, List.isEmpty, Bool.not_true, List.foldlM]

/-- **C11_fn_kvv_node_roundtrip** (`restore ∘ persist` for the node state): what `update_node` serialised (`conv st`,
    `conv` = `NodeStateEntry::from`) and the store and format give back is restored field by field; in particular the
    persisted velocity controls come back through `CoreVelocityControl::from ∘ VelocityControl::from = id`
    (`C12_fn_persisted_control_roundtrip`) when `conv` stores them with `VelocityControl::from`. -/
theorem C11_fn_kvv_node_roundtrip {Network Allowable PS : Type}
    (getp : String → Rs.M (List (String × (Nat × List Nat)))) (suffix : String → String → Rs.M (List Nat))
    (fromSlice : List Nat → Option PublicKey) (deNode : List Nat → Rs.M NodeEntry)
    (ser : NodeStateEntry PS → Rs.M (List Nat)) (deState : List Nat → Rs.M (NodeStateEntry PS)) (parse : String → Rs.M Network)
    (ral : PublicKey → Network → Rs.M (List Allowable)) (conv : NodeState → NodeStateEntry PS)
    (restore : List (List Nat × PS) → List (List Nat × PS) → List (List Nat) → Nat → CoreVelocityControl → CoreVelocityControl →
      Nat → List Allowable → NodeState)
    (st : NodeState) (key : String) (r : Nat) (value suf b : List Nat) (nid : PublicKey) (entry : NodeEntry) (ver : Nat)
    (net : Network) (al : List Allowable)
    (hser : ser (conv st) = .ok b) (hfmt : ∀ e, ser e = .ok b → deState b = .ok e)
    (hpre : getp (("node/entry" : String) ++ "/") = .ok [(key, (r, value))]) (hne : value.isEmpty = false)
    (hsuf : suffix (("node/entry" : String) ++ "/") key = .ok suf) (hpk : fromSlice suf = some nid)
    (hde : deNode value = .ok entry) (hget : get (mk "node/state" (sz nid)) = .ok (some (ver, b)))
    (hnet : parse entry.network = .ok net) (hal : ral nid net = .ok al) :
    KVVPersister.update_node sz mk conv ser put self nid st = put (mk "node/state" (sz nid)) b ∧
    KVVPersister.get_nodes getp suffix fromSlice deNode sz mk get deState parse ral restore self
      = .ok [(nid, { key_derivation_style := entry.key_derivation_style, network := entry.network,
                     state := restore (conv st).invoices (conv st).issued_invoices (conv st).preimages 0
                       (CoreVelocityControl.«from» (conv st).velocity_control) (CoreVelocityControl.«from» (conv st).fee_velocity_control)
                       (conv st).dbid_high_water_mark al })] := by
  constructor
  · unfold KVVPersister.update_node; simp only [hser, bind, Except.bind]
  · exact C11_fn_kvv_get_nodes sz mk get self getp suffix fromSlice deNode deState parse ral restore key r value suf b nid entry ver
      (conv st) net al hpre hne hsuf hpk hde hget (hfmt _ hser) hnet hal


/-- a translated `for` loop whose body only ever continues is the monadic fold of its body -/
theorem loopB_eq_foldlM {α σ : Type} (f : σ → α → Rs.M (Rs.Flow σ Empty)) (g : σ → α → Rs.M σ)
    (h : ∀ s x, f s x = (g s x >>= fun s' => pure (.next s'))) (l : List α) (s : σ) :
    Rs.loopB l s f = l.foldlM g s := by
  induction l generalizing s with
  | nil => rfl
  | cons x xs ih =>
    have ih' := ih
    unfold Rs.loopB at ih' ⊢
    unfold Rs.loopM
    rw [h, List.foldlM_cons]
    cases hg : g s x with
    | error e => rfl
    | ok s' => simpa [bind, Except.bind, pure, Except.pure] using ih' s'

/-- what `get_node_channels` does with one listed entry: a tombstone (empty value) is skipped, any other entry is
    decoded, converted by `CoreChannelEntry::from` and appended under the channel id taken from the key's suffix -/
def nodeChannelsStep (suffix : String → String → Rs.M (List Nat)) (cnew : List Nat → ChannelId)
    (de : List Nat → Rs.M (ChannelEntry ChannelId EnforcementState)) (pfx : String)
    (res : List (ChannelId × CoreChannelEntry ChannelId EnforcementState)) (kvv : String × (Nat × List Nat)) :
    Rs.M (List (ChannelId × CoreChannelEntry ChannelId EnforcementState)) :=
  if kvv.2.2.isEmpty then pure res
  else suffix pfx kvv.1 >>= fun suf => de kvv.2.2 >>= fun e => pure (res ++ [(cnew suf, CoreChannelEntry.«from» e)])

/-- **C11_fn_kvv_get_node_channels** (the restore of the channels, for any number of entries): `get_node_channels` lists
    the keys under the node's channel prefix — the prefix of the keys `update_channel` / `new_channel` write — and
    folds `nodeChannelsStep` over them in the store's order: no live entry is skipped, none is invented, each is
    converted with all five fields (`C11_fn_kvv_channel_entry_from`), the first decoding error is returned. -/
theorem C11_fn_kvv_get_node_channels (getp : String → Rs.M (List (String × (Nat × List Nat))))
    (suffix : String → String → Rs.M (List Nat)) (cnew : List Nat → ChannelId)
    (de : List Nat → Rs.M (ChannelEntry ChannelId EnforcementState)) :
    KVVPersister.get_node_channels sz mk getp suffix cnew de self node_id
      = (getp (mk "channel" (sz node_id) ++ "/") >>= fun l =>
          l.foldlM (nodeChannelsStep suffix cnew de (mk "channel" (sz node_id) ++ "/")) []) := by
  unfold KVVPersister.get_node_channels
  cases hp : getp (mk "channel" (sz node_id) ++ "/") with
  | error e => simp [hp, bind, Except.bind]
  | ok l =>
    simp only [hp, bind, Except.bind]
    rw [loopB_eq_foldlM _ (nodeChannelsStep suffix cnew de (mk "channel" (sz node_id) ++ "/")) ?h l []]
    case h =>
      intro res kvv
      obtain ⟨key, r, value⟩ := kvv
      unfold nodeChannelsStep
      cases hv : value.isEmpty
      · simp only [Bool.false_eq_true, if_false]
        cases suffix (mk "channel" (sz node_id) ++ "/") key with
        | error e => rfl
        | ok suf => cases de value <;> rfl
      · simp only [if_true]; rfl


/-- **C11_fn_kvv_make_key**: the key makers as they are in the source: `prefix/hex(key)` and `prefix/hex(key1)/hex(key2)`;
    hence every channel key of a node (`make_key2(CHANNEL_PREFIX, node, id0)`, written by `update_channel` / `new_channel`)
    starts with exactly the prefix `get_node_channels` lists (`make_key(CHANNEL_PREFIX, node) + "/"`) and continues with the
    hex of the channel's initial id — what `extract_key_suffix` decodes again. -/
theorem C11_fn_kvv_make_key (enc : List Nat → String) (p : String) (a b : List Nat) :
    Gen.FnKvvKeys.make_key enc p a = p ++ "/" ++ enc a ∧
    Gen.FnKvvKeys.make_key2 enc p a b = (Gen.FnKvvKeys.make_key enc p a ++ "/") ++ enc b := ⟨rfl, rfl⟩

/-- **C11_fn_kvv_passthrough**: the transaction methods of the persister (`enter`, `prepare`, `commit`), `clear_database`
    and `signer_id` are the store's own (first component of the tuple struct): the persister adds no buffering of its
    own between a request and the store — what is durable when is the store's transaction (C16). -/
theorem C11_fn_kvv_passthrough {S F Mutations SignerId : Type} (st : S × F) (e c cl : S → Rs.M Unit) (pr : S → Mutations)
    (sid : S → SignerId) :
    Gen.FnKvvPass.KVVPersister.enter e st = e st.1 ∧ Gen.FnKvvPass.KVVPersister.commit c st = c st.1 ∧
    Gen.FnKvvPass.KVVPersister.clear_database cl st = cl st.1 ∧ Gen.FnKvvPass.KVVPersister.prepare pr st = pr st.1 ∧
    Gen.FnKvvPass.KVVPersister.signer_id sid st = sid st.1 := ⟨rfl, rfl, rfl, rfl, rfl⟩


/-- **C11_fn_kvv_new_node**: `new_node` first writes the node *state* (`update_node`; an error of that write is a panic:
    `.unwrap()`), then the node entry (key derivation style, network name) under the key `get_nodes` lists — so a node
    entry that a restart finds always has its state entry already in the store (the order `get_nodes` relies on:
    "state not found" cannot come from a crash between the two writes). -/
theorem C11_fn_kvv_new_node {PS KDS Network : Type} (conv : NodeState → NodeStateEntry PS) (ser : NodeStateEntry PS → Rs.M (List Nat))
    (kds : KDS → Nat) (nts : Network → String) (serE : NodeEntry → Rs.M (List Nat)) (cfg : NodeConfig KDS Network) (st : NodeState) :
    KVVPersister.new_node sz mk conv ser put kds nts serE self node_id cfg st
      = (Rs.unwrapOk (KVVPersister.update_node sz mk conv ser put self node_id st) >>= fun _ =>
          serE { key_derivation_style := kds cfg.key_derivation_style, network := nts cfg.network } >>= fun v =>
          put (mk "node/entry" (sz node_id)) v) ∧
    (∀ tag, KVVPersister.update_node sz mk conv ser put self node_id st = .error (.err tag) →
      KVVPersister.new_node sz mk conv ser put kds nts serE self node_id cfg st = .error .panic) := by
  refine ⟨rfl, ?_⟩
  intro tag h
  unfold KVVPersister.new_node
  rw [h]; rfl

/-- non-vacuity of the round trip: identity format, a store that holds the one entry -/
example : KVVPersister.get_channel (SelfT := Unit) (PublicKey := Nat) (ChannelId := Nat) (EnforcementState := Nat)
    (fun n => [n]) (fun c => [c]) (fun p a b => p ++ toString a ++ toString b)
    (fun _ => .ok (some (3, [42]))) (fun _ => .ok (entryOfChannel ⟨77, ⟨1000⟩, 5, some 6⟩)) () 1 5
    = .ok { channel_value_satoshis := 1000, channel_setup := some ⟨1000⟩, id := some 6, enforcement_state := 77, blockheight := none } := rfl

end Kvv

/-! ### The node state, end to end: `NodeStateEntry::from` (model.rs) → `update_node` → store → `get_nodes` -/
section NodeEndToEnd
open VlsModel.Gen

/-- **C11_fn_node_state_entry_from**: `NodeStateEntry::from(&NodeState)` as it is in the source now stores the invoices, the
    issued invoices, both velocity controls (each converted by `VelocityControl::from`, each in its own field), the known
    preimages of the payments and the channel-id high-water mark — none dropped, defaulted or swapped.  (The three
    map traversals are declared externals of the maps; the fields of `NodeState` read here are a declared view.) -/
theorem C11_fn_node_state_entry_from {IM PM PS : Type} (ie : IM → List (List Nat × PS)) (pre : PM → List (List Nat))
    (st : FnPersistModel.NodeState IM PM) :
    FnPersistModel.NodeStateEntry.«from» ie pre st =
      { invoices := ie st.invoices, issued_invoices := ie st.issued_invoices,
        velocity_control := FnPersistModel.VelocityControl.«from» st.velocity_control,
        fee_velocity_control := FnPersistModel.VelocityControl.«from» st.fee_velocity_control,
        preimages := pre st.payments, dbid_high_water_mark := st.dbid_high_water_mark } := rfl

/-- the persisted control / state entry of area `PersistModel` (unit model.rs) seen in area `KvvPersist` (unit kvv.rs): the same
    Rust structs, generated once per unit; field-by-field copies -/
def vcK (v : FnPersistModel.VelocityControl) : FnKvvPersist.VelocityControl :=
  { start_sec := v.start_sec, bucket_interval := v.bucket_interval, buckets := v.buckets, limit := v.limit }
def coreP (c : FnKvvPersist.CoreVelocityControl) : FnPersistModel.CoreVelocityControl :=
  { start_sec := c.start_sec, bucket_interval := c.bucket_interval, buckets := c.buckets, limit := c.limit }
def entryK {PS : Type} (e : FnPersistModel.NodeStateEntry PS) : FnKvvPersist.NodeStateEntry PS :=
  { invoices := e.invoices, issued_invoices := e.issued_invoices, velocity_control := vcK e.velocity_control,
    fee_velocity_control := vcK e.fee_velocity_control, preimages := e.preimages, dbid_high_water_mark := e.dbid_high_water_mark }

/-- **C11_fn_node_end_to_end** (`restore ∘ persist` for the whole node state, both conversions and the persister code
    translated from the source): after `update_node(state)`, with the store answering the state key with what was put and
    the format decoding what it encoded, `get_nodes` restores the node as
    `NodeState::restore(invoice pairs, issued-invoice pairs, preimages, 0, velocity_control, fee_velocity_control,
    dbid_high_water_mark, allowlist)` of **the running state's own** controls and high-water mark: the two controls come
    back equal to the ones in memory (`CoreVelocityControl::from ∘ VelocityControl::from = id`), in their own positions. -/
theorem C11_fn_node_end_to_end {SelfT PublicKey Network Allowable IM PM PS : Type}
    (sz : PublicKey → List Nat) (mk : String → List Nat → String)
    (put : String → List Nat → Rs.M Unit) (get : String → Rs.M (Option (Nat × List Nat))) (self : SelfT)
    (getp : String → Rs.M (List (String × (Nat × List Nat)))) (suffix : String → String → Rs.M (List Nat))
    (fromSlice : List Nat → Option PublicKey) (deNode : List Nat → Rs.M FnKvvPersist.NodeEntry)
    (ser : FnKvvPersist.NodeStateEntry PS → Rs.M (List Nat)) (deState : List Nat → Rs.M (FnKvvPersist.NodeStateEntry PS))
    (parse : String → Rs.M Network) (ral : PublicKey → Network → Rs.M (List Allowable))
    (ie : IM → List (List Nat × PS)) (pre : PM → List (List Nat))
    (restore : List (List Nat × PS) → List (List Nat × PS) → List (List Nat) → Nat → FnKvvPersist.CoreVelocityControl →
      FnKvvPersist.CoreVelocityControl → Nat → List Allowable → FnPersistModel.NodeState IM PM)
    (st : FnPersistModel.NodeState IM PM) (key : String) (r : Nat) (value suf b : List Nat) (nid : PublicKey)
    (entry : FnKvvPersist.NodeEntry) (ver : Nat) (net : Network) (al : List Allowable)
    (hser : ser (entryK (FnPersistModel.NodeStateEntry.«from» ie pre st)) = .ok b)
    (hfmt : ∀ e, ser e = .ok b → deState b = .ok e)
    (hpre : getp (("node/entry" : String) ++ "/") = .ok [(key, (r, value))]) (hne : value.isEmpty = false)
    (hsuf : suffix (("node/entry" : String) ++ "/") key = .ok suf) (hpk : fromSlice suf = some nid)
    (hde : deNode value = .ok entry) (hget : get (mk "node/state" (sz nid)) = .ok (some (ver, b)))
    (hnet : parse entry.network = .ok net) (hal : ral nid net = .ok al) :
    ∃ vc fvc : FnKvvPersist.CoreVelocityControl,
      coreP vc = st.velocity_control ∧ coreP fvc = st.fee_velocity_control ∧
      FnKvvPersist.KVVPersister.get_nodes getp suffix fromSlice deNode sz mk get deState parse ral restore self
        = .ok [(nid, { key_derivation_style := entry.key_derivation_style, network := entry.network,
                       state := restore (ie st.invoices) (ie st.issued_invoices) (pre st.payments) 0 vc fvc
                                  st.dbid_high_water_mark al })] := by
  have h := (C11_fn_kvv_node_roundtrip sz mk put get self getp suffix fromSlice deNode ser deState parse ral
    (fun s : FnPersistModel.NodeState IM PM => entryK (FnPersistModel.NodeStateEntry.«from» ie pre s)) restore st key r value suf b nid
    entry ver net al hser hfmt hpre hne hsuf hpk hde hget hnet hal).2
  exact ⟨FnKvvPersist.CoreVelocityControl.«from» (vcK (FnPersistModel.VelocityControl.«from» st.velocity_control)),
    FnKvvPersist.CoreVelocityControl.«from» (vcK (FnPersistModel.VelocityControl.«from» st.fee_velocity_control)), rfl, rfl, h⟩

end NodeEndToEnd

/-! ## Round 10 (builder b5): `Node::prune_channels` translated from the source (`Gen.FnNodePrune`,
    `translate/fn_targets/NodePrune.b5.json`)

`get_heartbeat` → `prune_channels` is the one place where a READY channel leaves the store.  The persisters key a channel
entry by the key the caller passes (`C11_fn_kvv_make_key`: prefix + hex of that id) and the channel map holds a channel
with a permanent id under both its ids, so *which* id goes to `delete_channel` decides whether a restarted signer still
has the channel (seed C11-r7-1: the permanent id instead of the map key — the entry under id0 survives while the
tracker entry loses the listener; the restart aborts).  The translated body says: every key taken out of the map goes,
itself, to `delete_channel`; a `Ready` slot's listener is removed under the monitor's funding outpoint; and a tracker
that lost a listener is the tracker handed to `update_tracker`. -/
section Prune
open VlsModel.Gen.FnNodePrune

/-- invariant of a fold whose state ends in (tracker, modified-flag) -/
theorem prune_fold_inv {K C T : Type} (P : K → Prop) (f : C × T × Bool → K → VlsModel.Rs.M (C × T × Bool))
    (hstep : ∀ s k s', f s k = .ok s' → P k ∧ (s'.2.2 = false → s'.2.1 = s.2.1 ∧ s.2.2 = false)) :
    ∀ (keys : List K) (s s' : C × T × Bool), List.foldlM f s keys = .ok s' →
      (∀ k ∈ keys, P k) ∧ (s'.2.2 = false → s'.2.1 = s.2.1 ∧ s.2.2 = false) := by
  intro keys
  induction keys with
  | nil =>
    intro s s' h
    simp only [List.foldlM_nil, pure, Except.pure, Except.ok.injEq] at h
    subst h
    exact ⟨by simp, fun h => ⟨rfl, h⟩⟩
  | cons k ks ih =>
    intro s s' h
    simp only [List.foldlM_cons, bind, Except.bind] at h
    cases hf : f s k with
    | error e => rw [hf] at h; cases h
    | ok s1 =>
      rw [hf] at h
      obtain ⟨hp, h1⟩ := hstep s k s1 hf
      obtain ⟨hall, h2⟩ := ih s1 s' h
      refine ⟨?_, ?_⟩
      · intro k' hk'
        rcases List.mem_cons.mp hk' with rfl | hk'
        · exact hp
        · exact hall k' hk'
      · intro hm
        obtain ⟨e2, m1⟩ := h2 hm
        obtain ⟨e1, m0⟩ := h1 m1
        exact ⟨e2.trans e1, m0⟩

/-- **C11_fn_prune_channels**: whenever `Node::prune_channels` (as it is in the source now) returns, (a) for EVERY key it
    took out of the channel map, `persister.delete_channel(node id, that very key)` was called and acknowledged — the
    store key of the delete is the map key, never another id of the channel — and (b) the tracker it leaves behind is the
    one it was given (no listener removed) or it is exactly the tracker that `persister.update_tracker` was handed and
    acknowledged.  For all implementations of the persister, the tracker and the selection of the prunable keys. -/
theorem C11_fn_prune_channels {ChannelId OutPoint Network PublicKey Persist ChainTracker : Type} [DecidableEq ChannelId]
    (chs : Node ChannelId OutPoint Network PublicKey Persist → List (ChannelId × (ChannelSlot OutPoint)))
    (keysOf : List (ChannelId × (ChannelSlot OutPoint)) → Node ChannelId OutPoint Network PublicKey Persist → ChainTracker → List ChannelId)
    (rm : ChainTracker → OutPoint → ChainTracker) (del : Persist → PublicKey → ChannelId → Option Unit)
    (upd : Persist → PublicKey → ChainTracker → Option Unit)
    (self : Node ChannelId OutPoint Network PublicKey Persist) (tracker t' : ChainTracker)
    (h : Node.prune_channels chs keysOf rm del upd self tracker = .ok t') :
    (∀ k ∈ keysOf (chs self) self tracker, del self.persister self.node_id k = some ()) ∧
    (t' = tracker ∨ upd self.persister self.node_id t' = some ()) := by
  unfold Node.prune_channels at h
  simp only [bind, Except.bind] at h
  split at h
  · cases h
  · rename_i s hfold
    obtain ⟨c', tr', m'⟩ := s
    have inv := prune_fold_inv (C := List (ChannelId × (ChannelSlot OutPoint))) (T := ChainTracker)
      (fun k => del self.persister self.node_id k = some ()) _ (by
        intro s k s' hs
        obtain ⟨c, tr, m⟩ := s
        simp only [bind, Except.bind, Node.get_id] at hs
        cases hg : VlsModel.Rs.omapGet c k with
        | none => simp [hg, VlsModel.Rs.unwrap, VlsModel.Rs.panic] at hs
        | some slot =>
          cases hd : del self.persister self.node_id k with
          | none => simp [hg, hd, VlsModel.Rs.unwrap, VlsModel.Rs.panic, pure, Except.pure] at hs
          | some u =>
            cases slot with
            | Stub st =>
              simp [hg, hd, VlsModel.Rs.unwrap, pure, Except.pure] at hs
              subst hs
              exact ⟨rfl, fun hm => ⟨rfl, hm⟩⟩
            | Ready ch =>
              simp [hg, hd, VlsModel.Rs.unwrap, pure, Except.pure] at hs
              subst hs
              exact ⟨rfl, fun hm => by cases hm⟩) _ _ _ hfold
    refine ⟨inv.1, ?_⟩
    simp only at h
    cases m' with
    | false =>
      simp [pure, Except.pure] at h
      subst h
      exact Or.inl (inv.2 rfl).1
    | true =>
      simp only [Node.get_id, if_true] at h
      cases hu : upd self.persister self.node_id tr' with
      | none => simp [hu, VlsModel.Rs.unwrap, VlsModel.Rs.panic] at h
      | some u =>
        simp [hu, VlsModel.Rs.unwrap, pure, Except.pure] at h
        subst h
        exact Or.inr hu

/-- **C11_fn_node_getters**: the accessors the pruning (and every persisting request) reads the node through are the
    fields themselves: `get_channels()` is the channel map, `get_id()` the node id every store key is built from,
    `network()` the configured network. -/
theorem C11_fn_node_getters {ChannelId OutPoint Network PublicKey Persist : Type}
    (self : Node ChannelId OutPoint Network PublicKey Persist) :
    self.get_channels = self.channels ∧ self.get_id = self.node_id ∧ self.network = self.node_config.network :=
  ⟨rfl, rfl, rfl⟩

/-- non-vacuity: a ready channel that is in the map under its initial id (1) and its permanent id (2), both prunable:
    the run returns, both map keys are deleted in the store under themselves, the listener is removed and the tracker
    (here: the list of funding outpoints still listened to) that is written is the one without it. -/
example :
    let node : Node Nat Nat Nat Nat Nat :=
      { node_config := ⟨0⟩, channels := [(1, .Ready ⟨⟨7⟩⟩), (2, .Ready ⟨⟨7⟩⟩), (3, .Stub ⟨⟩)], persister := 0, node_id := 9 }
    Node.prune_channels (fun n => n.channels) (fun c _ _ => (c.map (·.1)).filter (· != 3))
      (fun t o => t.filter (· != o)) (fun _ _ _ => some ()) (fun _ _ _ => some ()) node [7, 8] = .ok [8] := by
  intro node; rfl

/-- … and a store that refuses the delete of one of the keys makes the request abort (it is not acknowledged). -/
example :
    let node : Node Nat Nat Nat Nat Nat :=
      { node_config := ⟨0⟩, channels := [(1, .Ready ⟨⟨7⟩⟩), (2, .Ready ⟨⟨7⟩⟩)], persister := 0, node_id := 9 }
    Node.prune_channels (fun n => n.channels) (fun c _ _ => c.map (·.1))
      (fun t o => t.filter (· != o)) (fun _ _ k => if k = 2 then none else some ()) (fun _ _ _ => some ()) node [7, 8]
      = .error .panic := by
  intro node; rfl

end Prune
/-! ### `Node::forget_channel` translated from the source (`Gen.FnNodeForget`, `translate/fn_targets/NodeForget.b5.json`) -/
section Forget
open VlsModel.Gen.FnNodeForget

/-- **C11_fn_forget_channel**: whenever `Node::forget_channel` (as it is in the source now) returns `Ok`, then for the slot the
    channel map holds under the given id: a raised high-water mark was written with the node state that carries it
    (acknowledged, *before* anything else is written); a stub's store entry was deleted under the given id (acknowledged);
    a ready channel's monitor accepted the forget and the tracker entry (which carries the forget flag) was written
    (acknowledged).  An id the map does not hold writes nothing.  For all persisters, trackers and node states. -/
theorem C11_fn_forget_channel {ChannelId PublicKey ChainTracker Persist : Type} [DecidableEq ChannelId]
    (chs : Node ChannelId PublicKey ChainTracker Persist → List (ChannelId × ChannelSlot))
    (fg : Channel → VlsModel.Rs.M Unit) (st : Node ChannelId PublicKey ChainTracker Persist → NodeState)
    (oid : ChannelId → Nat) (updn : Persist → PublicKey → NodeState → Option Unit)
    (del : Persist → PublicKey → ChannelId → Option Unit)
    (updt : Persist → PublicKey → ChainTracker → Option Unit)
    (self : Node ChannelId PublicKey ChainTracker Persist) (id : ChannelId)
    (h : Node.forget_channel chs fg st oid updn del updt self id = .ok ()) :
    ∀ slot, VlsModel.Rs.omapGet (chs self) id = some slot →
      (oid id > (st self).dbid_high_water_mark →
         updn self.persister self.node_id { st self with dbid_high_water_mark := oid id } = some ()) ∧
      (∀ s, slot = .Stub s → del self.persister self.node_id id = some ()) ∧
      (∀ ch, slot = .Ready ch → fg ch = .ok () ∧ updt self.persister self.node_id self.tracker = some ()) := by
  intro slot hg
  unfold Node.forget_channel at h
  simp only [hg, Node.get_id, Node.get_tracker, bind, Except.bind, pure, Except.pure] at h
  cases slot with
  | Stub s =>
    by_cases hc : oid id > (st self).dbid_high_water_mark
    · cases hu : updn self.persister self.node_id { st self with dbid_high_water_mark := oid id } <;>
      cases hd : del self.persister self.node_id id <;>
      (try simp_all [VlsModel.Rs.unwrap, VlsModel.Rs.panic, pure, Except.pure]) <;> (try (intro hh; omega))
    · cases hd : del self.persister self.node_id id <;>
      (try simp_all [VlsModel.Rs.unwrap, VlsModel.Rs.panic, pure, Except.pure]) <;> (try (intro hh; omega))
  | Ready ch =>
    cases hf : fg ch with
    | error e => simp_all
    | ok u =>
      by_cases hc : oid id > (st self).dbid_high_water_mark
      · cases hu : updn self.persister self.node_id { st self with dbid_high_water_mark := oid id } <;>
        cases ht : updt self.persister self.node_id self.tracker <;>
        (try simp_all [VlsModel.Rs.unwrap, VlsModel.Rs.panic, pure, Except.pure]) <;> (try (intro hh; omega))
      · cases ht : updt self.persister self.node_id self.tracker <;>
        (try simp_all [VlsModel.Rs.unwrap, VlsModel.Rs.panic, pure, Except.pure]) <;> (try (intro hh; omega))

/-- non-vacuity: a stub under id 5 with the mark at 3 (the mark is raised and written, the stub deleted), a ready channel
    under id 2 (tracker written), and a node-state write that fails (the request aborts, nothing is acknowledged). -/
example :
    let node : Node Nat Nat Nat Nat := { channels := [(5, .Stub ⟨⟩), (2, .Ready ⟨⟩)], persister := 0, tracker := 4, state := ⟨3⟩, node_id := 9 }
    Node.forget_channel (fun n => n.channels) (fun _ => .ok ()) (fun n => n.state) id (fun _ _ _ => some ())
        (fun _ _ _ => some ()) (fun _ _ _ => some ()) node 5 = .ok () ∧
    Node.forget_channel (fun n => n.channels) (fun _ => .ok ()) (fun n => n.state) id (fun _ _ _ => some ())
        (fun _ _ _ => some ()) (fun _ _ _ => some ()) node 2 = .ok () ∧
    Node.forget_channel (fun n => n.channels) (fun _ => .ok ()) (fun n => n.state) id (fun _ _ _ => none)
        (fun _ _ _ => some ()) (fun _ _ _ => some ()) node 5 = .error .panic := by
  intro node; exact ⟨rfl, rfl, rfl⟩


/-- **C11_fn_node_get_tracker**: the tracker `forget_channel` persists is the node's own tracker (`get_tracker()` is the field). -/
theorem C11_fn_node_get_tracker {ChannelId PublicKey ChainTracker Persist : Type}
    (self : Node ChannelId PublicKey ChainTracker Persist) : self.get_tracker = self.tracker := rfl

end Forget
/-! ### `From<&ChainTracker<ChainMonitor>> for ChainTrackerEntry` translated (`Gen.FnTrackerEntry`, `fn_targets/TrackerEntry.b5.json`) -/
section TrackerEntry

/-- **C11_fn_tracker_entry_from**: the entry `update_tracker` serialises holds the tracker's own tip, every remembered header in
    order (each through the one consensus encoding), its height (`height()`) and its network; and under the format contract
    (decoding after encoding is the identity) the tip and the headers a restart decodes are the running tracker's.  The
    listeners' conversion (an iteration over the listener map) stays with the field census `C11_gen_census_tracker`. -/
theorem C11_fn_tracker_entry_from {Headers Network OutPoint ChainMonitorState : Type}
    (ser : Headers → List Nat) (ls : Gen.FnTrackerEntry.ChainTracker Headers Network → List (OutPoint × (ChainMonitorState × Gen.FnTrackerEntry.ListenSlot)))
    (height : Gen.FnTrackerEntry.ChainTracker Headers Network → Nat) (t : Gen.FnTrackerEntry.ChainTracker Headers Network) :
    let e : Gen.FnTrackerEntry.ChainTrackerEntry Network OutPoint ChainMonitorState := Gen.FnTrackerEntry.ChainTrackerEntry.«from» ser ls height t
    e.tip = ser t.tip ∧ e.headers = t.headers.map ser ∧ e.height = height t ∧ e.network = t.network ∧ e.listeners = ls t ∧
    (∀ de : List Nat → Headers, (∀ h, de (ser h) = h) → de e.tip = t.tip ∧ e.headers.map de = t.headers) := by
  refine ⟨rfl, rfl, rfl, rfl, rfl, ?_⟩
  intro de hde
  refine ⟨hde _, ?_⟩
  show (t.headers.map ser).map de = t.headers
  rw [List.map_map]
  conv => rhs; rw [← List.map_id t.headers]
  exact List.map_congr_left (fun h _ => hde h)

/-- non-vacuity: an encoding with a decoder (`[n]` / head), two remembered headers -/
example :
    let t : Gen.FnTrackerEntry.ChainTracker Nat Nat := { headers := [4, 5], tip := 6, network := 1 }
    let e : Gen.FnTrackerEntry.ChainTrackerEntry Nat Nat Nat := Gen.FnTrackerEntry.ChainTrackerEntry.«from» (fun n => [n]) (fun _ => []) (fun _ => 7) t
    e.tip = [6] ∧ e.headers = [[4], [5]] ∧ e.height = 7 ∧ e.headers.map (fun l => l.headD 0) = t.headers := by
  intro t e; exact ⟨rfl, rfl, rfl, rfl⟩

end TrackerEntry
/-! ### `ChainTrackerEntry::into_tracker` translated (`Gen.FnTrackerEntryRestore`, `fn_targets/TrackerEntryRestore.b5.json`) -/
section TrackerEntryRestore
open VlsModel.Gen.FnTrackerEntryRestore

/-- **C11_fn_tracker_entry_into**: what a restart makes of a stored tracker entry: the tip and every header decoded (a failure
    of either aborts the restart), `ChainTracker::restore` (tied: `C11_fn_tracker_restore`) called with exactly these, the stored
    height and network, no listeners yet and no oracle keys, and every stored listener handed back in order (they are
    re-attached by `restore_listener`, `C11_fn_tracker_restore_listener`). -/
theorem C11_fn_tracker_entry_into {OutPoint ChainMonitorState ListenSlot Network PublicKey ValidatorFactory ChainTracker
    ChainTrackerListenerEntry Headers ChainMonitor : Type}
    (deTip deHdr : List Nat → VlsModel.Rs.M Headers) (mk : OutPoint → (ChainMonitorState × ListenSlot) → ChainTrackerListenerEntry)
    (restore : List Headers → Headers → Nat → Network → List (OutPoint × (ChainMonitor × ListenSlot)) → PublicKey →
      ValidatorFactory → List PublicKey → ChainTracker)
    (e : ChainTrackerEntry OutPoint ChainMonitorState ListenSlot Network) (nid : PublicKey) (vf : ValidatorFactory)
    (tip : Headers) (hs : List Headers) (htip : deTip e.tip = .ok tip) (hhs : List.mapM deHdr e.headers = .ok hs) :
    ChainTrackerEntry.into_tracker deTip deHdr mk restore e nid vf =
      .ok (restore hs tip e.height e.network [] nid vf [], e.listeners.map (fun x => mk x.1 x.2)) := by
  unfold ChainTrackerEntry.into_tracker
  have hm : List.mapM (fun h => do let t_4 ← deHdr h; pure t_4) e.headers = List.mapM deHdr e.headers := by
    congr 1
  simp only [htip, hm, hhs, bind, Except.bind, pure, Except.pure]

/-- … and a tip or a header that does not decode aborts the restart (nothing is restored from a damaged entry). -/
theorem C11_fn_tracker_entry_into_fail {OutPoint ChainMonitorState ListenSlot Network PublicKey ValidatorFactory ChainTracker
    ChainTrackerListenerEntry Headers ChainMonitor : Type}
    (deTip deHdr : List Nat → VlsModel.Rs.M Headers) (mk : OutPoint → (ChainMonitorState × ListenSlot) → ChainTrackerListenerEntry)
    (restore : List Headers → Headers → Nat → Network → List (OutPoint × (ChainMonitor × ListenSlot)) → PublicKey →
      ValidatorFactory → List PublicKey → ChainTracker)
    (e : ChainTrackerEntry OutPoint ChainMonitorState ListenSlot Network) (nid : PublicKey) (vf : ValidatorFactory)
    (f : VlsModel.Rs.Fail) (htip : deTip e.tip = .error f) :
    ChainTrackerEntry.into_tracker deTip deHdr mk restore e nid vf = .error f := by
  unfold ChainTrackerEntry.into_tracker
  simp only [htip, bind, Except.bind]

/-- non-vacuity -/
example :
    ChainTrackerEntry.into_tracker (Headers := Nat) (ChainMonitor := Nat) (fun l => .ok l.length) (fun l => .ok l.length)
      (fun (o : Nat) (x : Nat × Nat) => (o, x)) (fun hs tip h n _ _ _ _ => (hs, tip, h, n))
      ({ headers := [[1], [1, 2]], tip := [1, 2, 3], height := 9, network := 1, listeners := [(5, (6, 7))] } : ChainTrackerEntry Nat Nat Nat Nat)
      (0 : Nat) (0 : Nat) = .ok (([1, 2], 3, 9, 1), [(5, (6, 7))]) := rfl

end TrackerEntryRestore
section NewChannel
open VlsModel.Gen.FnNodeNewChannel
variable {ChannelId ChannelSlot PublicKey Persist Policy InMemorySigner WeakNode Secp256k1 : Type} [DecidableEq ChannelId]
  (bh : Node ChannelId ChannelSlot PublicKey Persist → Nat)
  (chs : Node ChannelId ChannelSlot PublicKey Persist → List (ChannelId × ChannelSlot))
  (pol : Policy) (maxc : Policy → Nat)
  (keys : ChannelId → Nat → Node ChannelId ChannelSlot PublicKey Persist → InMemorySigner)
  (dg : Node ChannelId ChannelSlot PublicKey Persist → WeakNode) (secp : Secp256k1)
  (mkStub : ChannelStub WeakNode Secp256k1 InMemorySigner ChannelId → ChannelSlot)
  (nc : Persist → PublicKey → ChannelStub WeakNode Secp256k1 InMemorySigner ChannelId → Option Unit)
  (self arc : Node ChannelId ChannelSlot PublicKey Persist) (cid : ChannelId)

/-- **C11_fn_find_or_create_channel_persist**: whenever `Node::find_or_create_channel` (`new_channel`) returns `Ok` for an id the
    channel map did not hold, the stub it returns — initial id = the requested id, block height = the tracker's — is the stub
    `persister.new_channel(node id, ·)` was handed and acknowledged: the acknowledged stub is in the store. -/
theorem C11_fn_find_or_create_channel_persist (mono : Option Nat)
    (r : ChannelId × Option ChannelSlot)
    (h : Node.find_or_create_channel bh chs pol maxc keys dg secp mkStub nc self cid arc mono = .ok r)
    (hnew : VlsModel.Rs.omapGet (chs self) cid = none) :
    ∃ stub : ChannelStub WeakNode Secp256k1 InMemorySigner ChannelId,
      r = (cid, some (mkStub stub)) ∧ stub.id0 = cid ∧ stub.blockheight = bh arc ∧
      nc self.persister self.node_id stub = some () := by
  refine ⟨{ node := dg arc, secp_ctx := secp, keys := keys cid 0 self, id0 := cid, blockheight := bh arc }, ?_, rfl, rfl, ?_⟩ <;>
  · unfold Node.find_or_create_channel at h
    cases hn : nc self.persister self.node_id { node := dg arc, secp_ctx := secp, keys := keys cid 0 self, id0 := cid, blockheight := bh arc } <;>
    cases mono <;>
    simp only [hnew, hn, Node.get_state, Node.get_id, VlsModel.Rs.unwrap, VlsModel.Rs.fail, VlsModel.Rs.panic, bind, Except.bind, pure, Except.pure] at h <;>
    (repeat (split at h <;> try cases h)) <;> simp_all

/-- non-vacuity: mark at 3, dbid 4, room in the map: the stub (id0 = 4, block height 7) is written and returned -/
example :
    let node : Node Nat (Option (ChannelStub Nat Nat Nat Nat)) Nat Nat := { channels := [], persister := 0, state := ⟨3⟩, node_id := 9 }
    Node.find_or_create_channel (fun _ => 7) (fun n => n.channels) (0 : Nat) (fun _ => 2) (fun _ _ _ => 0) (fun _ => 0) (0 : Nat)
      some (fun _ _ _ => some ()) node 4 node (some 4)
      = .ok (4, some (some { node := 0, secp_ctx := 0, keys := 0, id0 := 4, blockheight := 7 })) := by
  intro node; rfl

end NewChannel

/-! ### `extract_key_suffix` (kvv.rs) translated (`Gen.FnKvvSuffix`, `fn_targets/KvvSuffix.b5.json`) -/
section KvvSuffix
open VlsModel.Gen.FnKvvSuffix

/-- **C11_fn_kvv_extract_key_suffix**: the function by which `get_nodes` / `get_node_channels` turn a listed store key back into the
    id it was written under (`C11_fn_kvv_make_key`: prefix + hex of the id): it answers exactly when the prefix ends with the
    separator, the key starts with the prefix and the rest is hex — then with the decoded bytes — and in every other case it
    ABORTS (a panic, never a refusal and never a skipped entry): a restart does not silently drop a stored channel or node. -/
theorem C11_fn_kvv_extract_key_suffix (endsSep : String → Bool) (strip : String → String → VlsModel.Rs.M String)
    (hexDecode : String → Option (List Nat)) (pre key : String)
    (hstrip : ∀ k p, strip k p = .error .panic ∨ ∃ s, strip k p = .ok s) :
    (∀ sfx b, endsSep pre = true → strip key pre = .ok sfx → hexDecode sfx = some b →
      extract_key_suffix endsSep strip hexDecode pre key = .ok b) ∧
    (∀ b, extract_key_suffix endsSep strip hexDecode pre key = .ok b →
      endsSep pre = true ∧ ∃ sfx, strip key pre = .ok sfx ∧ hexDecode sfx = some b) ∧
    ((∃ b, extract_key_suffix endsSep strip hexDecode pre key = .ok b) ∨
      extract_key_suffix endsSep strip hexDecode pre key = .error .panic) := by
  unfold extract_key_suffix
  cases he : endsSep pre <;> rcases hstrip key pre with hs | ⟨s, hs⟩ <;>
    simp [he, hs, VlsModel.Rs.assert, VlsModel.Rs.panic, VlsModel.Rs.unwrap, bind, Except.bind, pure, Except.pure]
  cases hd : hexDecode s <;> simp [VlsModel.Rs.unwrap, VlsModel.Rs.panic, pure, Except.pure] <;>
    (intro sfx b hsb; subst hsb; simp_all)

/-- non-vacuity -/
example : extract_key_suffix (fun _ => true) (fun _ _ => .ok "0a") (fun _ => some [10]) "channel/" "channel/0a" = .ok [10] ∧
    extract_key_suffix (fun _ => true) (fun _ _ => .ok "zz") (fun _ => none) "channel/" "channel/zz" = .error .panic := ⟨rfl, rfl⟩

end KvvSuffix

/-! ### `NodeState::restore` / `NodeState::with_log_prefix` translated (`Gen.FnNodeStateRestore`, `fn_targets/NodeStateRestore.b5.json`):
    the last two stages of the node-state restore path (`get_nodes` → `NodeState::restore` → `Node::new_full` → `with_log_prefix`) -/
section NodeStateRestore
open VlsModel.Gen.FnNodeStateRestore

/-- **C11_fn_node_state_restore**: `NodeState::restore` puts every persisted component into its own field: the high-water mark,
    the excess amount and the two velocity controls as given, the invoices / issued invoices / payments as decoded from the
    stored vectors, the allowlist collected from the stored vector — nothing is defaulted, swapped or dropped (the decoders
    of the three maps are parameters; a hash of the wrong length aborts). -/
theorem C11_fn_node_state_restore {VelocityControl ScriptBuf Xpub PublicKey PaymentHash : Type}
    (dInv dIss : List (List Nat × PaymentState) → VlsModel.Rs.M (List (PaymentHash × PaymentState)))
    (dPay : List (List Nat) → List (PaymentHash × RoutedPayment)) (emp : String)
    (aset : List (Allowable ScriptBuf Xpub PublicKey) → List (Allowable ScriptBuf Xpub PublicKey))
    (iv isv : List (List Nat × PaymentState)) (pre : List (List Nat)) (excess : Nat) (vc fvc : VelocityControl) (hwm : Nat)
    (al : List (Allowable ScriptBuf Xpub PublicKey)) (inv iss : List (PaymentHash × PaymentState))
    (hi : dInv iv = .ok inv) (hs : dIss isv = .ok iss) :
    ∃ st, NodeState.restore dInv dIss dPay emp aset iv isv pre excess vc fvc hwm al = .ok st ∧
      st.dbid_high_water_mark = hwm ∧ st.excess_amount = excess ∧ st.velocity_control = vc ∧ st.fee_velocity_control = fvc ∧
      st.invoices = inv ∧ st.issued_invoices = iss ∧ st.payments = dPay pre ∧ st.allowlist = aset al := by
  unfold NodeState.restore
  simp only [hi, hs, bind, Except.bind, pure, Except.pure]
  exact ⟨_, rfl, rfl, rfl, rfl, rfl, rfl, rfl, rfl, rfl⟩

/-- **C11_fn_node_state_with_log_prefix**: the step by which `Node::new_full` installs the restored state keeps every durable
    component of it (high-water mark, invoices, issued invoices, payments, excess amount, allowlist) and takes the two
    velocity controls it is handed (`update_velocity_controls` decides those: C12). -/
theorem C11_fn_node_state_with_log_prefix {PaymentHash VelocityControl ScriptBuf Xpub PublicKey : Type} (emp : String)
    (s : NodeState PaymentHash VelocityControl ScriptBuf Xpub PublicKey) (vc fvc : VelocityControl) (lp : String) :
    let s' := s.with_log_prefix emp vc fvc lp
    s'.dbid_high_water_mark = s.dbid_high_water_mark ∧ s'.invoices = s.invoices ∧ s'.issued_invoices = s.issued_invoices ∧
    s'.payments = s.payments ∧ s'.excess_amount = s.excess_amount ∧ s'.allowlist = s.allowlist ∧
    s'.velocity_control = vc ∧ s'.fee_velocity_control = fvc ∧ s'.log_prefix = lp :=
  ⟨rfl, rfl, rfl, rfl, rfl, rfl, rfl, rfl, rfl⟩

/-- non-vacuity: a stored state with mark 7 comes back with mark 7 -/
example :
    (NodeState.restore (VelocityControl := Nat) (ScriptBuf := Nat) (Xpub := Nat) (PublicKey := Nat) (PaymentHash := Nat)
      (fun l => .ok (l.map (fun x => (x.1.length, x.2)))) (fun _ => .ok []) (fun _ => []) "" id [([1], ⟨⟩)] [] [] 0 5 6 7 []).map
      (fun st => (st.dbid_high_water_mark, st.velocity_control, st.fee_velocity_control, st.invoices.length)) = .ok (7, 5, 6, 1) := rfl

end NodeStateRestore

/-! ### `Node::maybe_sync_persister` translated (`Gen.FnNodeSync`, `fn_targets/NodeSync.b5.json`): the start-up sync of a composite persister -/
section NodeSync
open VlsModel.Gen.FnNodeSync

/-- a fold with unit state that returns has run its body successfully on every element -/
theorem sync_fold_all {α : Type} (P : α → Prop) (f : Unit → α → VlsModel.Rs.M Unit)
    (hstep : ∀ a, f () a = .ok () → P a) :
    ∀ l : List α, List.foldlM f () l = .ok () → ∀ a ∈ l, P a := by
  intro l
  induction l with
  | nil => intro _ a ha; cases ha
  | cons x xs ih =>
    intro h a ha
    simp only [List.foldlM_cons, bind, Except.bind] at h
    cases hf : f () x with
    | error e => rw [hf] at h; cases h
    | ok u =>
      rw [hf] at h
      rcases List.mem_cons.mp ha with rfl | ha'
      · exact hstep _ hf
      · exact ih h a ha'

/-- **C11_fn_maybe_sync_persister**: when the persister reports an initial restore (a composite whose main store was lost) and
    `Node::maybe_sync_persister` returns `Ok`, then the node entry (`new_node`), the allowlist, the tracker and — for EVERY slot
    of the channel map, in whatever order the map is walked — the stub (`new_channel`, an existing entry tolerated) or the ready
    channel (`update_channel`) were written and acknowledged: nothing of the signer's state is left out of the re-sync.
    Without an initial restore nothing is written (the result is `Ok` for every persister). -/
theorem C11_fn_maybe_sync_persister {PublicKey Network ChainTracker ChannelId Persist : Type}
    (init : Persist → Bool) (st : Node PublicKey Network ChainTracker ChannelId Persist → NodeState)
    (newNode : Persist → PublicKey → NodeConfig Network → NodeState → Option Unit)
    (wl : Node PublicKey Network ChainTracker ChannelId Persist → NodeState → List String)
    (updAl : Persist → PublicKey → List String → Option Unit)
    (trk : Node PublicKey Network ChainTracker ChannelId Persist → ChainTracker)
    (updT : Persist → PublicKey → ChainTracker → Option Unit)
    (chs : Node PublicKey Network ChainTracker ChannelId Persist → List (ChannelId × ChannelSlot))
    (newCh : Persist → PublicKey → ChannelStub → Option Unit) (updCh : Persist → PublicKey → Channel → Option Unit)
    (self : Node PublicKey Network ChainTracker ChannelId Persist) :
    (init self.persister = false →
      Node.maybe_sync_persister init st newNode wl updAl trk updT chs newCh updCh self = .ok ()) ∧
    (init self.persister = true →
      Node.maybe_sync_persister init st newNode wl updAl trk updT chs newCh updCh self = .ok () →
      newNode self.persister self.node_id self.node_config (st self) = some () ∧
      updAl self.persister self.node_id (wl self (st self)) = some () ∧
      updT self.persister self.node_id (trk self) = some () ∧
      ∀ e ∈ chs self, match e.2 with
        | .Stub s => newCh self.persister self.node_id s = some ()
        | .Ready c => updCh self.persister self.node_id c = some ()) := by
  constructor
  · intro hi
    unfold Node.maybe_sync_persister
    simp [hi, pure, Except.pure, bind, Except.bind]
  · intro hi h
    unfold Node.maybe_sync_persister at h
    simp only [hi, Node.get_id, if_true, bind, Except.bind, pure, Except.pure] at h
    cases h1 : newNode self.persister self.node_id self.node_config (st self) with
    | none => simp [h1, VlsModel.Rs.okOr, VlsModel.Rs.fail] at h
    | some u1 =>
      cases h2 : updAl self.persister self.node_id (wl self (st self)) with
      | none => simp [h1, h2, VlsModel.Rs.okOr, VlsModel.Rs.fail, pure, Except.pure] at h
      | some u2 =>
        cases h3 : updT self.persister self.node_id (trk self) with
        | none => simp [h1, h2, h3, VlsModel.Rs.okOr, VlsModel.Rs.fail, pure, Except.pure] at h
        | some u3 =>
          refine ⟨rfl, rfl, rfl, ?_⟩
          simp only [h1, h2, h3, VlsModel.Rs.okOr, pure, Except.pure] at h
          split at h
          · cases h
          · rename_i u hfold
            exact sync_fold_all (fun e : ChannelId × ChannelSlot => match e.2 with
                | .Stub s => newCh self.persister self.node_id s = some ()
                | .Ready c => updCh self.persister self.node_id c = some ()) _ (by
              intro e he
              obtain ⟨k, slot⟩ := e
              cases slot with
              | Stub s =>
                cases hn : newCh self.persister self.node_id s with
                | none => simp [hn, VlsModel.Rs.okOr, VlsModel.Rs.fail, bind, Except.bind] at he
                | some u => exact hn
              | Ready c =>
                cases hn : updCh self.persister self.node_id c with
                | none => simp [hn, VlsModel.Rs.okOr, VlsModel.Rs.fail, bind, Except.bind] at he
                | some u => exact hn) _ hfold

/-- non-vacuity: a stub and a ready channel in the map; every write acknowledged: `Ok`; the ready channel's write refused: an error -/
example :
    let node : Node Nat Nat Nat Nat Nat := { node_config := ⟨0⟩, channels := [(1, .Stub ⟨⟩), (2, .Ready ⟨⟩)], persister := 0, tracker := 0, state := ⟨⟩, node_id := 9 }
    Node.maybe_sync_persister (fun _ => true) (fun n => n.state) (fun _ _ _ _ => some ()) (fun _ _ => []) (fun _ _ _ => some ())
      (fun n => n.tracker) (fun _ _ _ => some ()) (fun n => n.channels) (fun _ _ _ => some ()) (fun _ _ _ => some ()) node = .ok () ∧
    Node.maybe_sync_persister (fun _ => true) (fun n => n.state) (fun _ _ _ _ => some ()) (fun _ _ => []) (fun _ _ _ => some ())
      (fun n => n.tracker) (fun _ _ _ => some ()) (fun n => n.channels) (fun _ _ _ => some ()) (fun _ _ _ => none) node
      = VlsModel.Rs.fail "Status::internal" := by
  intro node; exact ⟨rfl, rfl⟩

end NodeSync

end VlsModel.Props.C11Fn
