import VlsModel.Lemmas.KVVCloud
/-
C16 — The key-version-value stores never roll back and agree with each other.

Statement (properties.jsonl): in the in-memory and on-disk store backends a key's version never
decreases, a write at the current version with different content is refused, batched writes apply
entirely or not at all, and reads return the last accepted write; both give identical results for
identical request sequences and the on-disk backend returns the same contents after being reopened.
The cloud-staged backend never lowers a version either, lets a transaction read its own writes by key,
and changes the local store only by committing exactly the mutations it reported.

Model: `VlsModel/Model/KVV.lean` (`Mem`, `Redb` = table + separately cached versions + staged batches +
reopen, `Cloud` = local store + commit log + poisoned mutex, `KVSpec` = ledger of accepted writes).
All theorems are over arbitrary request lists (`runWith`), keys, versions and values; the redb theorems
hold from every state satisfying `Redb.Inv` (the empty store does, and every request preserves it).

Finding F8 (a batch repeating a key was accepted by the memory store and refused by redb) is fixed in
/repo (b41c142): both `put_batch` implementations now check every entry against the batch staged so far.
The models describe the repaired code; `C16_batch_sequential` shows that both batches are exactly "the
same sequence of `put_with_version` calls, all or nothing", and `C16_mem_redb_equal` is proved at full
strength (every request sequence, batches repeating keys included).
-/
namespace VlsModel.Props.C16
open VlsModel VlsModel.KVV

/-- a key present before is present after, at a version that is not lower -/
def NoRollback (t t' : Tab) : Prop :=
  ∀ k v x, lookup t k = some (v, x) → ∃ v' x', lookup t' k = some (v', x') ∧ v ≤ v'

/-- a key found at the same version before and after has the same content -/
def SameVersionSameContent (t t' : Tab) : Prop :=
  ∀ k v x y, lookup t k = some (v, x) → lookup t' k = some (v, y) → x = y

theorem noRollback_of_le {t t' : Tab} (h : Le t t') : NoRollback t t' := by
  intro k v x hl
  obtain ⟨⟨v', x'⟩, h1, h2⟩ := h k (v, x) hl
  refine ⟨v', x', h1, ?_⟩
  rcases h2 with h2 | h2
  · exact Nat.le_of_lt h2
  · cases h2; exact Nat.le_refl _

theorem sameContent_of_le {t t' : Tab} (h : Le t t') : SameVersionSameContent t t' := by
  intro k v x y hl hl'
  obtain ⟨r', h1, h2⟩ := h k (v, x) hl
  rw [hl'] at h1; cases h1
  rcases h2 with h2 | h2
  · exact absurd h2 (Nat.lt_irrefl _)
  · cases h2; rfl

/-! ### runs of the three backends never roll a committed record back -/

theorem mem_run_le (t : Tab) (ops : List Op) : Le t (runWith Mem.step t ops).1 :=
  (run_induct Mem.step (fun _ => True) Le Le.refl (fun _ _ _ => Le.trans)
    (fun s op _ => ⟨trivial, Mem.step_le s op⟩) ops t trivial).2

theorem redb_run_inv_le {s : Redb} (h : Redb.Inv s) (ops : List Op) :
    Redb.Inv (runWith Redb.step s ops).1 ∧ Le s.tab (runWith Redb.step s ops).1.tab :=
  run_induct Redb.step Redb.Inv (fun a b => Le a.tab b.tab) (fun _ => Le.refl _)
    (fun _ _ _ => Le.trans) (fun _ op hs => Redb.step_inv_le hs op) ops s h

theorem cloud_run_le (c : Cloud) (ops : List Op) : Le c.loc (runWith Cloud.step c ops).1.loc :=
  (run_induct Cloud.step (fun _ => True) (fun a b => Le a.loc b.loc) (fun _ => Le.refl _)
    (fun _ _ _ => Le.trans) (fun s op _ => ⟨trivial, Cloud.step_le s op⟩) ops c trivial).2

/-- **C16_mono**: over any request list, in the committed store of each backend every key keeps a
    version that is not lower (memory; redb table; cloud local store). -/
theorem C16_mono (ops : List Op) :
    (∀ t : Tab, NoRollback t (runWith Mem.step t ops).1) ∧
    (∀ s : Redb, Redb.Inv s → NoRollback s.tab (runWith Redb.step s ops).1.tab) ∧
    (∀ c : Cloud, NoRollback c.loc (runWith Cloud.step c ops).1.loc) :=
  ⟨fun t => noRollback_of_le (mem_run_le t ops),
   fun _ h => noRollback_of_le (redb_run_inv_le h ops).2,
   fun c => noRollback_of_le (cloud_run_le c ops)⟩

/-- **C16_same_version_same_content**: whatever happened in between, a key that is at the same version
    before and after a request list holds the same content (so a write at the current version with
    different content was never applied). -/
theorem C16_same_version_same_content (ops : List Op) :
    (∀ t : Tab, SameVersionSameContent t (runWith Mem.step t ops).1) ∧
    (∀ s : Redb, Redb.Inv s → SameVersionSameContent s.tab (runWith Redb.step s ops).1.tab) ∧
    (∀ c : Cloud, SameVersionSameContent c.loc (runWith Cloud.step c ops).1.loc) :=
  ⟨fun t => sameContent_of_le (mem_run_le t ops),
   fun _ h => sameContent_of_le (redb_run_inv_le h ops).2,
   fun c => sameContent_of_le (cloud_run_le c ops)⟩

/-- a single write at the current version with different content is refused outright -/
theorem C16_same_version_refused (t : Tab) (s : Redb) (h : Redb.Inv s) (k : Key) (v : Nat) (x x0 : Val)
    (hx : x0 ≠ x) :
    (lookup t k = some (v, x0) → Mem.putV t k v x = (t, .mismatch)) ∧
    (lookup s.tab k = some (v, x0) → Redb.putV s k v x = (s, .mismatch)) := by
  constructor
  · intro hl; simp [Mem.putV, hl, hx]
  · intro hl
    have hne : ¬ ((v, x0) = (v, x)) := by simp [hx]
    simp [Redb.putV, h.cache k, hl, hne]

/-! ### batches -/

/-- **C16_batch_atomic**: a refused batch changes nothing (for redb: neither table nor cache); an
    accepted batch applies *all* its entries in order: every key outside the batch is left alone, every
    key is answered as after inserting all entries one after the other, and when the keys are pairwise
    distinct every entry of the batch is in the store afterwards. -/
theorem C16_batch_atomic (es : List (Key × Rec)) :
    (∀ t : Tab,
      ((Mem.batch t es).2 ≠ .ok → (Mem.batch t es).1 = t) ∧
      ((Mem.batch t es).2 = .ok →
        (Mem.batch t es).1 = insertAll t es ∧
        (∀ k, (∀ e ∈ es, e.1 ≠ k) → lookup (Mem.batch t es).1 k = lookup t k) ∧
        ((es.map (·.1)).Nodup → ∀ e ∈ es, lookup (Mem.batch t es).1 e.1 = some e.2))) ∧
    (∀ s : Redb, Redb.Inv s →
      ((Redb.batch s es).2 ≠ .ok → (Redb.batch s es).1 = s) ∧
      ((Redb.batch s es).2 = .ok →
        (Redb.batch s es).1.tab = insertAll s.tab es ∧
        (∀ k, (∀ e ∈ es, e.1 ≠ k) → lookup (Redb.batch s es).1.tab k = lookup s.tab k) ∧
        ((es.map (·.1)).Nodup → ∀ e ∈ es, lookup (Redb.batch s es).1.tab e.1 = some e.2))) := by
  constructor
  · intro t
    rcases Mem.batch_spec t es with ⟨_, h2⟩ | ⟨_, _, h2, _⟩
    · rw [h2]; exact ⟨fun _ => rfl, fun h => by cases h⟩
    · rw [h2]
      exact ⟨fun h => absurd rfl h, fun _ => ⟨rfl, fun k hk => lookup_insertAll_not_mem es t k hk,
        fun hd e he => lookup_insertAll_distinct es t hd e he⟩⟩
  · intro s h
    rcases Redb.batch_spec h es with ⟨_, h2⟩ | ⟨_, _, h1, h2, _⟩
    · rw [h2]; exact ⟨fun _ => rfl, fun hok => by cases hok⟩
    · refine ⟨fun hne => absurd h1 hne, fun _ => ?_⟩
      rw [h2]
      exact ⟨rfl, fun k hk => lookup_insertAll_not_mem es s.tab k hk,
             fun hd e he => lookup_insertAll_distinct es s.tab hd e he⟩

/-- **C16_batch_sequential**: in both backends a batch is exactly the sequence of its entries as
    `put_with_version` calls (`Mem.seqRun`), all or nothing: refused (and nothing changed) iff one call of
    the sequence is refused; otherwise accepted with every key answered as after that sequence.  The redb
    `unwrap` on a cached-but-missing key is unreachable. -/
theorem C16_batch_sequential (es : List (Key × Rec)) (s : Redb) (h : Redb.Inv s) :
    (Mem.seqRun s.tab es = none ∧ Mem.batch s.tab es = (s.tab, .mismatch) ∧ Redb.batch s es = (s, .mismatch)) ∨
    (∃ T, Mem.seqRun s.tab es = some T ∧ (Mem.batch s.tab es).2 = .ok ∧ (Redb.batch s es).2 = .ok ∧
      (Redb.batch s es).1.tab = (Mem.batch s.tab es).1 ∧ ∀ k, lookup (Mem.batch s.tab es).1 k = lookup T k) := by
  rcases Redb.batch_spec h es with ⟨h1, h2⟩ | ⟨T, h1, h2, h3, _⟩
  · rcases Mem.batch_spec s.tab es with ⟨_, m2⟩ | ⟨T', m1, _⟩
    · exact Or.inl ⟨h1, m2, h2⟩
    · rw [h1] at m1; cases m1
  · rcases Mem.batch_spec s.tab es with ⟨m1, _⟩ | ⟨T', m1, m2, m3⟩
    · rw [h1] at m1; cases m1
    · rw [h1] at m1; cases m1
      exact Or.inr ⟨T, h1, by rw [m2], h2, by rw [m2]; exact h3, by rw [m2]; exact m3⟩

/-! ### reads return the last accepted write -/

/-- run a request list while keeping the ledger of accepted writes (updated from the outputs only) -/
def ledgerRun {σ : Type} (step : σ → Op → σ × Out) : σ → KVSpec → List Op → σ × KVSpec
  | s, L, [] => (s, L)
  | s, L, op :: ops => ledgerRun step (step s op).1 (KVSpec.step L op (step s op).2) ops

theorem redb_step_agree {s : Redb} (h : Redb.Inv s) {L : KVSpec} (ha : Agree s.tab L) (op : Op) :
    Agree (Redb.step s op).1.tab (KVSpec.step L op (Redb.step s op).2) := by
  cases op with
  | batch es =>
    simp only [Redb.step]
    rcases Redb.batch_spec h es with ⟨_, h2⟩ | ⟨_, _, h1, h2, _⟩
    · rw [h2]; exact ha
    · rw [h1, h2]; exact agree_insertAll ha es
  | put k x =>
    obtain ⟨h1, h2, _⟩ := Redb.put_sim h k x
    simp only [Redb.step, h1, h2]; exact Mem.put_agree ha k x
  | putV k v x =>
    obtain ⟨h1, h2, _⟩ := Redb.putV_sim h k v x
    simp only [Redb.step, h1, h2]; exact Mem.putV_agree ha k v x
  | del k =>
    obtain ⟨h1, h2, _⟩ := Redb.put_sim h k []
    simp only [Redb.step, h1, h2]; exact Mem.del_agree ha k
  | reopen => exact ha
  | get k => exact ha
  | getVer k => exact ha
  | getPrefix p => exact ha
  | enter => exact ha
  | prepare => exact ha
  | commit => exact ha

/-- **C16_read_last_write**: along any request list the store answers every key exactly as the ledger
    of its own accepted writes does — in particular a `get k` issued at any point returns the record
    written by the last accepted request that wrote `k` (and `none` if there was none). -/
theorem C16_read_last_write (ops : List Op) :
    (∀ (t : Tab) (L : KVSpec), Agree t L →
      Agree (ledgerRun Mem.step t L ops).1 (ledgerRun Mem.step t L ops).2) ∧
    (∀ (s : Redb) (L : KVSpec), Redb.Inv s → Agree s.tab L →
      Agree (ledgerRun Redb.step s L ops).1.tab (ledgerRun Redb.step s L ops).2) := by
  constructor
  · induction ops with
    | nil => intro t L h; exact h
    | cons op ops ih => intro t L h; exact ih _ _ (Mem.step_agree h op)
  · induction ops with
    | nil => intro s L _ h; exact h
    | cons op ops ih =>
      intro s L hi h
      exact ih _ _ (Redb.step_inv_le hi op).1 (redb_step_agree hi h op)

/-- the answer of `get` is the ledger entry -/
theorem C16_get_is_ledger (t : Tab) (s : Redb) (L : KVSpec) (k : Key) :
    (Agree t L → (Mem.step t (.get k)).2 = .got (L k)) ∧
    (Agree s.tab L → (Redb.step s (.get k)).2 = .got (L k)) :=
  ⟨fun h => by simp [Mem.step, h k], fun h => by simp [Redb.step, h k]⟩

/-! ### memory ≡ redb -/

/-- F8 witness: existing `(k1,1,x)`, batch `[(k1,2,a),(k1,1,x)]` (kept as a regression example) -/
def f8 : List Op := [.putV 1 1 [0xaa], .batch [(1, (2, [0xbb])), (1, (1, [0xaa]))]]

/-- **C16_mem_redb_equal** (full strength): for every request sequence — batches repeating keys
    included — from any redb state satisfying the invariant and the memory store holding the same table
    (in particular from two empty stores): the same output for every request and the same table at the end. -/
theorem C16_mem_redb_equal (ops : List Op) :
    (∀ s : Redb, Redb.Inv s →
      (runWith Redb.step s ops).2 = (runWith Mem.step s.tab ops).2 ∧
      (runWith Redb.step s ops).1.tab = (runWith Mem.step s.tab ops).1) ∧
    ((runWith Redb.step Redb.empty ops).2 = (runWith Mem.step [] ops).2 ∧
     (runWith Redb.step Redb.empty ops).1.tab = (runWith Mem.step [] ops).1) := by
  have main : ∀ s : Redb, Redb.Inv s →
      (runWith Redb.step s ops).2 = (runWith Mem.step s.tab ops).2 ∧
      (runWith Redb.step s ops).1.tab = (runWith Mem.step s.tab ops).1 := by
    intro s h
    have := run_sim Redb.step Mem.step (fun a b => Redb.Inv a ∧ a.tab = b) (fun _ => True)
      (fun a b op hab _ => by
        obtain ⟨hi, rfl⟩ := hab
        obtain ⟨h1, h2⟩ := Redb.step_sim hi op
        exact ⟨⟨(Redb.step_inv_le hi op).1, h1⟩, h2⟩)
      ops s s.tab ⟨h, rfl⟩ (fun _ _ => trivial)
    exact ⟨this.2, this.1.2⟩
  exact ⟨main, main Redb.empty Redb.inv_empty⟩

/-- the former F8 witness: both stores now refuse the batch and stay where they were -/
theorem f8_outputs :
    (runWith Mem.step [] f8).2 = [.res .ok, .res .mismatch] ∧
    (runWith Redb.step Redb.empty f8).2 = [.res .ok, .res .mismatch] ∧
    (runWith Mem.step [] f8).1 = [(1, (1, [0xaa]))] ∧
    (runWith Redb.step Redb.empty f8).1.tab = [(1, (1, [0xaa]))] := by decide

/-! ### reopen -/

/-- **C16_reopen**: the cache rebuilt from the table answers every lookup as the cache did, the table
    is untouched, and every later request sequence behaves the same with or without the reopen. -/
theorem C16_reopen (s : Redb) (h : Redb.Inv s) :
    (∀ k, lookup (Redb.reopen s).cache k = lookup s.cache k) ∧
    (Redb.reopen s).tab = s.tab ∧ Redb.Inv (Redb.reopen s) ∧
    (∀ ops, (runWith Redb.step (Redb.reopen s) ops).2 = (runWith Redb.step s ops).2 ∧
            (runWith Redb.step (Redb.reopen s) ops).1.tab = (runWith Redb.step s ops).1.tab) := by
  have hc : ∀ k, lookup (Redb.reopen s).cache k = lookup s.cache k := by
    intro k; simp only [Redb.reopen, lookup_rebuild, h.cache k]
  refine ⟨hc, rfl, Redb.inv_reopen h.sorted, ?_⟩
  intro ops
  have := run_sim Redb.step Redb.step Redb.CacheEq (fun _ => True)
    (fun a b op hab _ => Redb.step_cacheEq hab op) ops (Redb.reopen s) s ⟨rfl, hc⟩ (fun _ _ => trivial)
  exact ⟨this.2, this.1.1⟩

/-! ### cloud -/

/-- unfolding of `put_with_version` inside a transaction -/
theorem cloud_putV_open (c : Cloud) (lg : Tab) (hp : c.poisoned = false) (hl : c.log = some lg)
    (k : Key) (v : Nat) (x : Val) :
    Cloud.putV c k v x =
      (if Cloud.pendingLower lg k v then (c, .mismatch) else
        match lookup c.loc k with
        | none => ({ c with log := some (insert lg k (v, x)) }, .ok)
        | some (v0, x0) =>
          if v < v0 then (c, .mismatch)
          else if v = v0 then (if x0 = x then (c, .ok) else (c, .mismatch))
          else ({ c with log := some (insert lg k (v, x)) }, .ok)) := by
  unfold Cloud.putV
  simp only [hp, hl, Bool.false_eq_true, if_false]
  by_cases hpl : Cloud.pendingLower lg k v = true
  · simp only [hpl, if_true]
  · simp only [hpl, Bool.false_eq_true, if_false]
    cases lookup c.loc k with
    | none => rfl
    | some r0 => cases r0; rfl

theorem cloud_get_open (c : Cloud) (lg : Tab) (hp : c.poisoned = false) (hl : c.log = some lg) (k : Key) :
    (Cloud.get c k).2 = some (match lookup lg k with | some r => some r | none => lookup c.loc k) := by
  unfold Cloud.get
  simp only [hp, hl, Bool.false_eq_true, if_false]
  cases lookup lg k <;> rfl

/-- **C16_cloud_ryw**: inside a transaction, an accepted write that advances the key beyond the
    committed store (always the case for `put`/`delete`) is what `get` returns next, and accepted
    writes to other keys do not disturb it. -/
theorem C16_cloud_ryw (c : Cloud) (lg : Tab) (hp : c.poisoned = false) (hl : c.log = some lg)
    (k : Key) (v : Nat) (x : Val) :
    ((Cloud.putV c k v x).2 = .ok → (∀ v0 x0, lookup c.loc k = some (v0, x0) → v0 < v) →
        (Cloud.get (Cloud.putV c k v x).1 k).2 = some (some (v, x))) ∧
    ((Cloud.put c k x).2 = .ok →
        ∃ nv, nextVer ((lookup c.loc k).map (·.1)) = some nv ∧
          (Cloud.get (Cloud.put c k x).1 k).2 = some (some (nv, x))) ∧
    (∀ k', k' ≠ k → (Cloud.get (Cloud.putV c k' v x).1 k).2 = (Cloud.get c k).2 ∨
        (Cloud.putV c k' v x).2 ≠ .ok) := by
  have hins : ∀ (k' : Key) (r : Rec),
      (Cloud.get { c with log := some (insert lg k' r) } k).2 =
        some (match lookup (insert lg k' r) k with | some r => some r | none => lookup c.loc k) :=
    fun k' r => cloud_get_open { c with log := some (insert lg k' r) } _ hp rfl k
  have hadv : ∀ v, (Cloud.putV c k v x).2 = .ok → (∀ v0 x0, lookup c.loc k = some (v0, x0) → v0 < v) →
      (Cloud.get (Cloud.putV c k v x).1 k).2 = some (some (v, x)) := by
    intro v hok hv
    rw [cloud_putV_open c lg hp hl] at hok ⊢
    by_cases hpl : Cloud.pendingLower lg k v = true
    · simp [hpl] at hok
    · simp only [hpl, Bool.false_eq_true, if_false] at hok ⊢
      cases hloc : lookup c.loc k with
      | none => simp only []; rw [hins, lookup_insert_self]
      | some r0 =>
        obtain ⟨v0, x0⟩ := r0
        have := hv v0 x0 hloc
        have h1 : ¬ v < v0 := by omega
        have h2 : ¬ v = v0 := by omega
        simp only [h1, h2, if_false]
        rw [hins, lookup_insert_self]
  refine ⟨fun hok hv => hadv v hok hv, ?_, ?_⟩
  · intro hok
    unfold Cloud.put at hok ⊢
    cases hn : nextVer ((lookup c.loc k).map (·.1)) with
    | none => simp [hn] at hok
    | some nv =>
      refine ⟨nv, rfl, ?_⟩
      simp only [hn] at hok ⊢
      apply hadv _ hok
      intro v0 x0 hloc
      simp only [hloc, Option.map_some, nextVer] at hn
      split at hn
      · cases hn; omega
      · cases hn
  · intro k' hk
    rw [cloud_putV_open c lg hp hl]
    by_cases hpl : Cloud.pendingLower lg k' v = true
    · right; simp [hpl]
    · simp only [hpl, Bool.false_eq_true, if_false]
      have hfr : ∀ r, (Cloud.get { c with log := some (insert lg k' r) } k).2 = (Cloud.get c k).2 := by
        intro r; rw [hins, cloud_get_open c lg hp hl, lookup_insert_ne _ _ hk]
      cases lookup c.loc k' with
      | none => left; exact hfr _
      | some r0 =>
        obtain ⟨v0, x0⟩ := r0
        simp only []
        split
        · right; simp
        · split
          · split
            · left; rfl
            · right; simp
          · left; exact hfr _

/-- **C16_cloud_view_mono** ("never lowers a version" for the store's *own view* inside a transaction,
    since the F13 fix): an accepted `put_with_version` never makes the version that `get`/`get_version`
    report for any key smaller. -/
theorem C16_cloud_view_mono (c c' : Cloud) (k k' : Key) (v v' : Nat) (x x' : Val) (hp : c.poisoned = false)
    (hget : (Cloud.get c k).2 = some (some (v, x))) (hput : Cloud.putV c k' v' x' = (c', .ok)) :
    ∃ r, (Cloud.get c' k).2 = some (some r) ∧ v ≤ r.1 := by
  cases hl : c.log with
  | none => simp [Cloud.get, hp, hl] at hget
  | some lg =>
    by_cases hk : k' = k
    · subst hk
      rw [cloud_get_open c lg hp hl] at hget
      rw [cloud_putV_open c lg hp hl] at hput
      have hins : (Cloud.get { c with log := some (insert lg k' (v', x')) } k').2 = some (some (v', x')) := by
        rw [cloud_get_open { c with log := some (insert lg k' (v', x')) } _ hp rfl, lookup_insert_self]
      by_cases hpl : Cloud.pendingLower lg k' v' = true
      · simp [hpl] at hput
      · simp only [hpl, Bool.false_eq_true, if_false] at hput
        -- the version reported before is the pending one if there is one, else the committed one
        have hle : ∀ c'', c'' = { c with log := some (insert lg k' (v', x')) } →
            (∀ v0 x0, lookup c.loc k' = some (v0, x0) → v0 < v') →
            ∃ r, (Cloud.get c'' k').2 = some (some r) ∧ v ≤ r.1 := by
          intro c'' hc hv
          subst hc
          refine ⟨(v', x'), hins, ?_⟩
          cases hlg : lookup lg k' with
          | some r =>
            rw [hlg] at hget; simp only [Option.some.injEq] at hget; subst hget
            have : Cloud.pendingLower lg k' v' = false := by simpa using hpl
            simp only [Cloud.pendingLower, hlg, decide_eq_false_iff_not] at this
            simp only; omega
          | none =>
            rw [hlg] at hget; simp only [Option.some.injEq] at hget
            have := hv v x hget
            simp only; omega
        cases hloc : lookup c.loc k' with
        | none =>
          rw [hloc] at hput; simp only [Prod.mk.injEq, and_true] at hput
          exact hle c' hput.symm (fun v0 x0 h0 => by rw [hloc] at h0; cases h0)
        | some r0 =>
          obtain ⟨v0, x0⟩ := r0
          rw [hloc] at hput
          simp only [] at hput
          split at hput
          · cases hput
          · split at hput
            · split at hput
              · cases hput
                exact ⟨(v, x), by rw [cloud_get_open c lg hp hl]; exact hget, Nat.le_refl _⟩
              · cases hput
            · simp only [Prod.mk.injEq, and_true] at hput
              exact hle c' hput.symm (fun v0' x0' h0 => by rw [hloc] at h0; cases h0; omega)
    · rcases (C16_cloud_ryw c lg hp hl k v' x').2.2 k' hk with h | h
      · rw [hput] at h
        exact ⟨(v, x), by rw [h]; exact hget, Nat.le_refl _⟩
      · rw [hput] at h; exact absurd rfl h

/-- every request except `commit` leaves the local store alone -/
theorem C16_cloud_local_only_commit (c : Cloud) (op : Op) (h : op ≠ .commit) :
    (Cloud.step c op).1.loc = c.loc := Cloud.step_loc c op h

/-- **C16_cloud_commit_exact**: if `prepare` reported the mutations `m` and `commit` follows with no
    request in between, the local store is changed exactly by applying `m` as one memory-store batch:
    all of `m` in order when it is accepted, nothing otherwise; an "empty" prepare (only the
    last-writer record in the log) reports nothing and then commits nothing. -/
theorem C16_cloud_commit_exact (c c1 : Cloud) (m : Tab) (hprep : Cloud.prepare c = (c1, some m)) :
    (Cloud.commit c1).1.loc = (Mem.batch c.loc m).1 ∧ (Cloud.commit c1).2 = (Mem.batch c.loc m).2 ∧
    ((Cloud.commit c1).2 = .ok → (Cloud.commit c1).1.loc = insertAll c.loc m) ∧
    ((Cloud.commit c1).2 ≠ .ok → (Cloud.commit c1).1.loc = c.loc) ∧
    (∀ r, c.log = some [(0, r)] → m = [] ∧ (Cloud.commit c1).1.loc = c.loc) := by
  have key : (Cloud.commit c1).1.loc = (Mem.batch c.loc m).1 ∧ (Cloud.commit c1).2 = (Mem.batch c.loc m).2 ∧
      (∀ r, c.log = some [(0, r)] → m = []) := by
    unfold Cloud.prepare at hprep
    split at hprep
    · cases hprep
    · rename_i hp
      split at hprep
      · cases hprep
      · rename_i lg hlg
        split at hprep
        · rename_i k r
          split at hprep
          · cases hprep
            simp [Cloud.commit, hp]
          · cases hprep
        · rename_i hne
          cases hprep
          refine ⟨by simp [Cloud.commit, hp, hlg], by simp [Cloud.commit, hp, hlg], ?_⟩
          intro r hr
          rw [hlg] at hr; cases hr
          exact absurd rfl (hne 0 r)
  obtain ⟨k1, k2, k3⟩ := key
  refine ⟨k1, k2, ?_, ?_, ?_⟩
  · intro hok
    rw [k2] at hok; rw [k1]
    rcases Mem.batch_spec c.loc m with ⟨_, h2⟩ | ⟨_, _, h2, _⟩
    · rw [h2] at hok; cases hok
    · rw [h2]
  · intro hne
    rw [k2] at hne; rw [k1]
    rcases Mem.batch_spec c.loc m with ⟨_, h2⟩ | ⟨_, _, h2, _⟩
    · rw [h2]
    · rw [h2] at hne; exact absurd rfl hne
  · intro r hr
    have := k3 r hr
    subst this
    exact ⟨rfl, by rw [k1]; rfl⟩

/-- the log invariant (every logged entry is above the committed record of its key) holds along every
    request list from the empty store -/
theorem cloud_run_inv {c : Cloud} (h : Cloud.Inv c) (ops : List Op) : Cloud.Inv (runWith Cloud.step c ops).1 :=
  (run_induct Cloud.step Cloud.Inv (fun _ _ => True) (fun _ => trivial) (fun _ _ _ _ _ => trivial)
    (fun _ op hs => ⟨Cloud.step_inv hs op, trivial⟩) ops c h).1

/-- **C16_cloud_commit_accepted**: in every state reachable from the empty store (more generally: every
    state satisfying the log invariant), a `commit` directly after a `prepare` that reported `m` is
    accepted by the local store and applies exactly `m`, in order. -/
theorem C16_cloud_commit_accepted (c c1 : Cloud) (m : Tab) (h : Cloud.Inv c)
    (hprep : Cloud.prepare c = (c1, some m)) :
    (Cloud.commit c1).2 = .ok ∧ (Cloud.commit c1).1.loc = insertAll c.loc m := by
  obtain ⟨k1, k2, k3, _, _⟩ := C16_cloud_commit_exact c c1 m hprep
  have hacc : Mem.batch c.loc m = (insertAll c.loc m, .ok) := by
    unfold Cloud.prepare at hprep
    split at hprep
    · cases hprep
    · split at hprep
      · cases hprep
      · rename_i lg hlg
        split at hprep
        · split at hprep
          · cases hprep; rfl
          · cases hprep
        · cases hprep; exact Cloud.log_accepted h hlg
  have hok : (Cloud.commit c1).2 = .ok := by rw [k2, hacc]
  exact ⟨hok, k3 hok⟩

/-! ### non-vacuity -/

/-- the redb invariant holds initially, and a reachable state with content satisfies it -/
example : Redb.Inv Redb.empty := Redb.inv_empty
example : Redb.Inv (runWith Redb.step Redb.empty f8).1 := (redb_run_inv_le Redb.inv_empty f8).1

/-- C16_mono / same-content talk about non-empty stores: after the F8 prefix key 1 is at version 1 -/
example : lookup (runWith Mem.step [] f8).1 1 = some (1, [0xaa]) := by decide
example : lookup (runWith Redb.step Redb.empty f8).1.tab 1 = some (1, [0xaa]) := by decide

/-- C16_batch_atomic: an accepted distinct-key batch and a refused one -/
example : (Mem.batch [(1, (1, [1]))] [(1, (2, [2])), (2, (0, [3]))]).2 = .ok := by decide
example : (Redb.batch ⟨[(1, (1, [1]))], [(1, 1)]⟩ [(2, (0, [3])), (1, (0, [2]))]) = (⟨[(1, (1, [1]))], [(1, 1)]⟩, .mismatch) := by decide

/-- C16_batch_sequential: an accepted batch that repeats a key (ascending versions) and a refused one
    (the former F8 shape), on a store with content -/
example : Redb.batch ⟨[(1, (1, [1]))], [(1, 1)]⟩ [(1, (2, [2])), (2, (0, [3])), (1, (3, [4]))] =
    (⟨[(1, (3, [4])), (2, (0, [3]))], [(1, 3), (2, 0)]⟩, .ok) := by decide
example : Mem.batch [(1, (1, [1]))] [(1, (2, [2])), (2, (0, [3])), (1, (3, [4]))] =
    ([(1, (3, [4])), (2, (0, [3]))], .ok) := by decide
example : Mem.batch [(1, (1, [1]))] [(1, (2, [2])), (1, (1, [1]))] = ([(1, (1, [1]))], .mismatch) := by decide

example : Cloud.Inv (Cloud.empty [7]) := Cloud.inv_empty _

/-- C16_cloud_ryw / commit_exact: a transaction that writes, reads its write, reports and commits it -/
example :
    let c0 := Cloud.empty [7]
    let c1 := (Cloud.step c0 .enter).1
    let c2 := (Cloud.step c1 (.put 1 [5])).1
    (Cloud.step c2 (.get 1)).2 = .got (some (0, [5])) ∧
    (Cloud.step c2 .prepare).2 = .list [(0, (0, [7])), (1, (0, [5]))] ∧
    ((Cloud.step (Cloud.step c2 .prepare).1 .commit).1.loc = [(0, (0, [7])), (1, (0, [5]))]) := by decide

end VlsModel.Props.C16
